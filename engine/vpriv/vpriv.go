// Package vpriv reads unexported fields of the code under test BY NAME at run time.
//
// Harnesses are compiled into the packages they check and may read private state for extra
// oracles and search keys. A direct selector (x.attempts) ties the harness build to the current
// spelling and type of that field: a maintainer's refactor of private code — which no property
// forbids — would break the build of the check. Going through this package turns "the field is
// gone or has another type" into a run-time answer the harness can degrade on (skip the extra
// oracle, say so in the evidence) instead of a build failure.
package vpriv

import (
	"reflect"
	"strconv"
	"unsafe"
)

// Field returns the named field of the struct ptr points to as a readable, settable value
// (unexported fields included). ok is false when ptr is not a pointer to a struct or the
// struct has no such field.
func Field(ptr any, name string) (v reflect.Value, ok bool) {
	rv := reflect.ValueOf(ptr)
	if rv.Kind() != reflect.Pointer || rv.IsNil() || rv.Elem().Kind() != reflect.Struct {
		return reflect.Value{}, false
	}
	f := rv.Elem().FieldByName(name)
	if !f.IsValid() || !f.CanAddr() {
		return reflect.Value{}, false
	}
	return reflect.NewAt(f.Type(), unsafe.Pointer(f.UnsafeAddr())).Elem(), true
}

// Get returns the named field as a T when it exists and has exactly that type.
func Get[T any](ptr any, name string) (t T, ok bool) {
	v, ok := Field(ptr, name)
	if !ok {
		return t, false
	}
	x, ok := v.Interface().(T)
	return x, ok
}

// Set stores x into the named field when it exists and x is assignable to it.
func Set(ptr any, name string, x any) bool {
	v, ok := Field(ptr, name)
	if !ok {
		return false
	}
	xv := reflect.ValueOf(x)
	if !xv.IsValid() || !xv.Type().AssignableTo(v.Type()) {
		return false
	}
	v.Set(xv)
	return true
}

// MapLen returns the length of the named map/slice/chan field, or -1.
func Len(ptr any, name string) int {
	v, ok := Field(ptr, name)
	if !ok {
		return -1
	}
	switch v.Kind() {
	case reflect.Map, reflect.Slice, reflect.Chan, reflect.Array, reflect.String:
		return v.Len()
	}
	return -1
}

// FieldByType returns the struct's field whose type is exactly T, when there is exactly one:
// robust against renames of the field (the type of a private table rarely changes with its name).
func FieldByType[T any](ptr any) (t T, ok bool) {
	rv := reflect.ValueOf(ptr)
	if rv.Kind() != reflect.Pointer || rv.IsNil() || rv.Elem().Kind() != reflect.Struct {
		return t, false
	}
	want := reflect.TypeOf((*T)(nil)).Elem()
	st := rv.Elem()
	found := -1
	for i := 0; i < st.NumField(); i++ {
		if st.Field(i).Type() == want {
			if found >= 0 {
				return t, false
			}
			found = i
		}
	}
	if found < 0 {
		return t, false
	}
	f := st.Field(found)
	return reflect.NewAt(f.Type(), unsafe.Pointer(f.UnsafeAddr())).Elem().Interface().(T), true
}

// ReadLock takes the struct's only mutex-like field (a field with Lock/Unlock, preferring
// RLock/RUnlock when present) and returns the function that releases it. ok is false when the
// struct has no such field or more than one.
func ReadLock(ptr any) (unlock func(), ok bool) {
	rv := reflect.ValueOf(ptr)
	if rv.Kind() != reflect.Pointer || rv.IsNil() || rv.Elem().Kind() != reflect.Struct {
		return nil, false
	}
	st := rv.Elem()
	var mu reflect.Value
	n := 0
	for i := 0; i < st.NumField(); i++ {
		f := st.Field(i)
		if f.Kind() != reflect.Struct || !f.CanAddr() {
			continue
		}
		p := reflect.NewAt(f.Type(), unsafe.Pointer(f.UnsafeAddr()))
		if p.MethodByName("Lock").IsValid() && p.MethodByName("Unlock").IsValid() {
			mu = p
			n++
		}
	}
	if n != 1 {
		return nil, false
	}
	if l, u := mu.MethodByName("RLock"), mu.MethodByName("RUnlock"); l.IsValid() && u.IsValid() {
		l.Call(nil)
		return func() { u.Call(nil) }, true
	}
	mu.MethodByName("Lock").Call(nil)
	return func() { mu.MethodByName("Unlock").Call(nil) }, true
}

// Scalars renders every field of the struct ptr points to that holds a plain value — string,
// bool, integer, float, error, and the sync/atomic value types (a struct whose last field is an
// integer or pointer named v) — as " name=value", in declaration order. Search keys append it so
// that whatever ELSE an object remembers in its own fields (a change of the code under test may
// add such fields) keeps states with different futures apart; a finer key only costs time.
// Maps, slices, channels, funcs, interfaces other than error and nested structs are left to the
// harness, which knows how to canonicalise them.
func Scalars(ptr any) string {
	rv := reflect.ValueOf(ptr)
	if rv.Kind() != reflect.Pointer || rv.IsNil() || rv.Elem().Kind() != reflect.Struct {
		return ""
	}
	t := rv.Elem().Type()
	errT := reflect.TypeOf((*error)(nil)).Elem()
	out := ""
	for i := 0; i < t.NumField(); i++ {
		f := t.Field(i)
		v, ok := Field(ptr, f.Name)
		if !ok {
			continue
		}
		if s, ok := scalar(v, errT); ok {
			out += " " + f.Name + "=" + s
		} else if v = unshim(v); v.Kind() == reflect.Struct && v.NumField() > 0 && v.Type().Field(v.NumField()-1).Name == "v" {
			inner := v.Field(v.NumField() - 1)
			inner = reflect.NewAt(inner.Type(), unsafe.Pointer(inner.UnsafeAddr())).Elem()
			if s, ok := scalar(inner, errT); ok {
				out += " " + f.Name + ".v=" + s
			} else if inner.Kind() == reflect.Pointer || inner.Kind() == reflect.UnsafePointer {
				if inner.IsNil() {
					out += " " + f.Name + ".v=nil"
				} else {
					out += " " + f.Name + ".v=set"
				}
			}
		}
	}
	return out
}

// unshim looks through the engine's instrumented atomics (struct{ r atomic.X }).
func unshim(v reflect.Value) reflect.Value {
	if v.Kind() == reflect.Struct && v.NumField() == 1 && v.Type().Field(0).Name == "r" && v.Field(0).Kind() == reflect.Struct {
		f := v.Field(0)
		return reflect.NewAt(f.Type(), unsafe.Pointer(f.UnsafeAddr())).Elem()
	}
	return v
}

func scalar(v reflect.Value, errT reflect.Type) (string, bool) {
	switch k := v.Kind(); {
	case v.Type() == errT:
		if v.IsNil() {
			return "nil", true
		}
		return "err(" + v.Interface().(error).Error() + ")", true
	case k == reflect.String:
		return strconv.Quote(v.String()), true
	case k == reflect.Bool:
		return strconv.FormatBool(v.Bool()), true
	case k >= reflect.Int && k <= reflect.Int64:
		return strconv.FormatInt(v.Int(), 10), true
	case k >= reflect.Uint && k <= reflect.Uintptr:
		return strconv.FormatUint(v.Uint(), 10), true
	case k == reflect.Float32 || k == reflect.Float64:
		return strconv.FormatFloat(v.Float(), 'g', -1, 64), true
	}
	return "", false
}
