// Package vpriv reads unexported fields of the code under test BY NAME at run time.
//
// Harnesses are compiled into the packages they check and may read private state for extra
// oracles and search keys. A direct selector (x.attempts) ties the harness build to the current
// spelling and type of that field: a maintainer's refactor of private code — which no property
// forbids — would break the build of the check. Going through this package turns "the field is
// gone or has another type" into a run-time answer the harness can degrade on (skip the extra
// oracle, say so in the evidence) instead of a build failure.
package vpriv

import (
	"reflect"
	"unsafe"
)

// Field returns the named field of the struct ptr points to as a readable, settable value
// (unexported fields included). ok is false when ptr is not a pointer to a struct or the
// struct has no such field.
func Field(ptr any, name string) (v reflect.Value, ok bool) {
	rv := reflect.ValueOf(ptr)
	if rv.Kind() != reflect.Pointer || rv.IsNil() || rv.Elem().Kind() != reflect.Struct {
		return reflect.Value{}, false
	}
	f := rv.Elem().FieldByName(name)
	if !f.IsValid() || !f.CanAddr() {
		return reflect.Value{}, false
	}
	return reflect.NewAt(f.Type(), unsafe.Pointer(f.UnsafeAddr())).Elem(), true
}

// Get returns the named field as a T when it exists and has exactly that type.
func Get[T any](ptr any, name string) (t T, ok bool) {
	v, ok := Field(ptr, name)
	if !ok {
		return t, false
	}
	x, ok := v.Interface().(T)
	return x, ok
}

// Set stores x into the named field when it exists and x is assignable to it.
func Set(ptr any, name string, x any) bool {
	v, ok := Field(ptr, name)
	if !ok {
		return false
	}
	xv := reflect.ValueOf(x)
	if !xv.IsValid() || !xv.Type().AssignableTo(v.Type()) {
		return false
	}
	v.Set(xv)
	return true
}

// MapLen returns the length of the named map/slice/chan field, or -1.
func Len(ptr any, name string) int {
	v, ok := Field(ptr, name)
	if !ok {
		return -1
	}
	switch v.Kind() {
	case reflect.Map, reflect.Slice, reflect.Chan, reflect.Array, reflect.String:
		return v.Len()
	}
	return -1
}

// FieldByType returns the struct's field whose type is exactly T, when there is exactly one:
// robust against renames of the field (the type of a private table rarely changes with its name).
func FieldByType[T any](ptr any) (t T, ok bool) {
	rv := reflect.ValueOf(ptr)
	if rv.Kind() != reflect.Pointer || rv.IsNil() || rv.Elem().Kind() != reflect.Struct {
		return t, false
	}
	want := reflect.TypeOf((*T)(nil)).Elem()
	st := rv.Elem()
	found := -1
	for i := 0; i < st.NumField(); i++ {
		if st.Field(i).Type() == want {
			if found >= 0 {
				return t, false
			}
			found = i
		}
	}
	if found < 0 {
		return t, false
	}
	f := st.Field(found)
	return reflect.NewAt(f.Type(), unsafe.Pointer(f.UnsafeAddr())).Elem().Interface().(T), true
}

// ReadLock takes the struct's only mutex-like field (a field with Lock/Unlock, preferring
// RLock/RUnlock when present) and returns the function that releases it. ok is false when the
// struct has no such field or more than one.
func ReadLock(ptr any) (unlock func(), ok bool) {
	rv := reflect.ValueOf(ptr)
	if rv.Kind() != reflect.Pointer || rv.IsNil() || rv.Elem().Kind() != reflect.Struct {
		return nil, false
	}
	st := rv.Elem()
	var mu reflect.Value
	n := 0
	for i := 0; i < st.NumField(); i++ {
		f := st.Field(i)
		if f.Kind() != reflect.Struct || !f.CanAddr() {
			continue
		}
		p := reflect.NewAt(f.Type(), unsafe.Pointer(f.UnsafeAddr()))
		if p.MethodByName("Lock").IsValid() && p.MethodByName("Unlock").IsValid() {
			mu = p
			n++
		}
	}
	if n != 1 {
		return nil, false
	}
	if l, u := mu.MethodByName("RLock"), mu.MethodByName("RUnlock"); l.IsValid() && u.IsValid() {
		l.Call(nil)
		return func() { u.Call(nil) }, true
	}
	mu.MethodByName("Lock").Call(nil)
	return func() { mu.MethodByName("Unlock").Call(nil) }, true
}
