package vpriv

import (
	"fmt"
	"reflect"
	"sort"
	"strings"
	"sync"
	"unsafe"
)

// Deep copies and fingerprints of arbitrary private state, by reflection. A harness that
// snapshots, clones or keys the object under test field by field is tied to the current layout
// of that object; these work for whatever fields it has.

// rw returns v as a readable/settable value even when it was reached through unexported fields.
func rw(v reflect.Value) reflect.Value {
	if v.CanAddr() {
		return reflect.NewAt(v.Type(), unsafe.Pointer(v.UnsafeAddr())).Elem()
	}
	return v
}

type cloner struct {
	seen map[unsafe.Pointer]reflect.Value
}

// pod reports whether values of t contain no references at all (scalars, and structs/arrays of
// such): they can be copied wholesale.
var podCache sync.Map

func pod(t reflect.Type) bool {
	if v, ok := podCache.Load(t); ok {
		return v.(bool)
	}
	r := false
	switch t.Kind() {
	case reflect.Bool, reflect.Int, reflect.Int8, reflect.Int16, reflect.Int32, reflect.Int64,
		reflect.Uint, reflect.Uint8, reflect.Uint16, reflect.Uint32, reflect.Uint64, reflect.Uintptr,
		reflect.Float32, reflect.Float64, reflect.Complex64, reflect.Complex128:
		r = true
	case reflect.Array:
		r = pod(t.Elem())
	case reflect.Struct:
		r = true
		for i := 0; i < t.NumField(); i++ {
			if !pod(t.Field(i).Type) {
				r = false
				break
			}
		}
	}
	podCache.Store(t, r)
	return r
}

func (c *cloner) clone(v reflect.Value) reflect.Value {
	if pod(v.Type()) {
		return v
	}
	switch v.Kind() {
	case reflect.Pointer:
		if v.IsNil() {
			return reflect.Zero(v.Type())
		}
		if p, ok := c.seen[v.UnsafePointer()]; ok {
			return p
		}
		n := reflect.New(v.Type().Elem())
		c.seen[v.UnsafePointer()] = n
		n.Elem().Set(c.clone(v.Elem()))
		return n
	case reflect.Struct:
		n := reflect.New(v.Type()).Elem()
		tmp := reflect.New(v.Type()).Elem()
		tmp.Set(v) // addressable copy so that unexported fields can be read
		for i := 0; i < v.NumField(); i++ {
			rw(n.Field(i)).Set(c.clone(rw(tmp.Field(i))))
		}
		return n
	case reflect.Slice:
		if v.IsNil() {
			return reflect.Zero(v.Type())
		}
		n := reflect.MakeSlice(v.Type(), v.Len(), v.Cap())
		if pod(v.Type().Elem()) {
			reflect.Copy(n, v)
			return n
		}
		for i := 0; i < v.Len(); i++ {
			n.Index(i).Set(c.clone(v.Index(i)))
		}
		return n
	case reflect.Array:
		n := reflect.New(v.Type()).Elem()
		for i := 0; i < v.Len(); i++ {
			n.Index(i).Set(c.clone(v.Index(i)))
		}
		return n
	case reflect.Map:
		if v.IsNil() {
			return reflect.Zero(v.Type())
		}
		n := reflect.MakeMapWithSize(v.Type(), v.Len())
		it := v.MapRange()
		for it.Next() {
			n.SetMapIndex(it.Key(), c.clone(it.Value()))
		}
		return n
	}
	return v // basic kinds; funcs, chans and interfaces are shared (not state of the object)
}

// Clone returns a deep copy of *ptr (pointers to structs, slices, arrays and maps are copied
// recursively; funcs, channels and interface values are shared).
func Clone[T any](ptr *T) *T {
	c := &cloner{seen: map[unsafe.Pointer]reflect.Value{}}
	return c.clone(reflect.ValueOf(ptr)).Interface().(*T)
}

// Restore makes *dst equal to a previous Clone of it, IN PLACE: structs reached through pointers
// keep their identity (closures and other objects that captured them stay valid).
func Restore[T any](dst, snap *T) {
	restore(reflect.ValueOf(dst).Elem(), reflect.ValueOf(snap).Elem(), &cloner{seen: map[unsafe.Pointer]reflect.Value{}})
}

func restore(dst, snap reflect.Value, c *cloner) {
	dst, snap = rw(dst), rw(snap)
	if pod(dst.Type()) {
		dst.Set(snap)
		return
	}
	switch dst.Kind() {
	case reflect.Struct:
		for i := 0; i < dst.NumField(); i++ {
			restore(dst.Field(i), snap.Field(i), c)
		}
	case reflect.Pointer:
		if !dst.IsNil() && !snap.IsNil() && dst.Type().Elem().Kind() == reflect.Struct {
			restore(dst.Elem(), snap.Elem(), c)
			return
		}
		dst.Set(c.clone(snap))
	case reflect.Array:
		for i := 0; i < dst.Len(); i++ {
			restore(dst.Index(i), snap.Index(i), c)
		}
	case reflect.Slice, reflect.Map:
		dst.Set(c.clone(snap))
	default:
		dst.Set(snap)
	}
}

// Fingerprint renders the whole private state reachable from ptr deterministically (pointers are
// followed, maps are sorted, funcs/chans are rendered as "f"/"c", interface values that hold
// references are rendered by their dynamic type only): a canonical state key that abstracts
// nothing of the object away, for whatever fields the object has.
func Fingerprint(ptr any) string {
	var b strings.Builder
	fp(&b, reflect.ValueOf(ptr), map[unsafe.Pointer]bool{})
	return b.String()
}

func fp(b *strings.Builder, v reflect.Value, seen map[unsafe.Pointer]bool) {
	switch v.Kind() {
	case reflect.Invalid:
		b.WriteString("nil")
	case reflect.Pointer:
		if v.IsNil() {
			b.WriteString("nil")
			return
		}
		if seen[v.UnsafePointer()] {
			b.WriteString("^")
			return
		}
		seen[v.UnsafePointer()] = true
		b.WriteString("&")
		fp(b, v.Elem(), seen)
		delete(seen, v.UnsafePointer())
	case reflect.Interface:
		if v.IsNil() {
			b.WriteString("nil")
			return
		}
		// an interface-typed field is a reference to the environment (a provider, a connection, a
		// logger), not state of the object: its dynamic type is part of the key, its target is not
		switch v.Elem().Kind() {
		case reflect.Bool, reflect.String, reflect.Int, reflect.Int8, reflect.Int16, reflect.Int32, reflect.Int64,
			reflect.Uint, reflect.Uint8, reflect.Uint16, reflect.Uint32, reflect.Uint64, reflect.Uintptr, reflect.Float32, reflect.Float64:
			fp(b, v.Elem(), seen)
		default:
			b.WriteString("<" + v.Elem().Type().String() + ">")
		}
	case reflect.Struct:
		tmp := reflect.New(v.Type()).Elem()
		tmp.Set(v)
		b.WriteString("{")
		for i := 0; i < tmp.NumField(); i++ {
			if i > 0 {
				b.WriteString(" ")
			}
			fp(b, rw(tmp.Field(i)), seen)
		}
		b.WriteString("}")
	case reflect.Slice:
		if v.IsNil() {
			b.WriteString("nil")
			return
		}
		if v.Type().Elem().Kind() == reflect.Uint8 {
			fmt.Fprintf(b, "%x", v.Bytes())
			return
		}
		fallthrough
	case reflect.Array:
		b.WriteString("[")
		for i := 0; i < v.Len(); i++ {
			if i > 0 {
				b.WriteString(" ")
			}
			fp(b, v.Index(i), seen)
		}
		b.WriteString("]")
	case reflect.Map:
		if v.IsNil() {
			b.WriteString("nil")
			return
		}
		var parts []string
		it := v.MapRange()
		for it.Next() {
			var kb, vb strings.Builder
			fp(&kb, it.Key(), seen)
			fp(&vb, it.Value(), seen)
			parts = append(parts, kb.String()+":"+vb.String())
		}
		sort.Strings(parts)
		b.WriteString("map[" + strings.Join(parts, " ") + "]")
	case reflect.Func:
		b.WriteString("f")
	case reflect.Chan:
		fmt.Fprintf(b, "c%d", v.Len())
	case reflect.UnsafePointer:
		b.WriteString("p")
	case reflect.String:
		fmt.Fprintf(b, "%q", v.String())
	case reflect.Bool:
		fmt.Fprintf(b, "%v", v.Bool())
	case reflect.Int, reflect.Int8, reflect.Int16, reflect.Int32, reflect.Int64:
		fmt.Fprintf(b, "%d", v.Int())
	case reflect.Uint, reflect.Uint8, reflect.Uint16, reflect.Uint32, reflect.Uint64, reflect.Uintptr:
		fmt.Fprintf(b, "%d", v.Uint())
	case reflect.Float32, reflect.Float64:
		fmt.Fprintf(b, "%v", v.Float())
	case reflect.Complex64, reflect.Complex128:
		fmt.Fprintf(b, "%v", v.Complex())
	}
}
