package vpriv

import (
	"errors"
	"sync/atomic"
	"testing"
)

type inner struct {
	n    int
	data []byte
}
type outer struct {
	id    uint16
	parts []*inner
	m     map[string]error
	p     *inner
	arr   [3]inner
	f     func() int
}

func TestCloneRestoreFingerprint(t *testing.T) {
	o := &outer{id: 7, parts: []*inner{{1, []byte("ab")}, nil}, m: map[string]error{"x": nil}, p: &inner{9, []byte("z")}}
	o.f = func() int { return int(o.id) }
	k0 := Fingerprint(o)
	c := Clone(o)
	if Fingerprint(c) != k0 {
		t.Fatalf("clone differs:\n%s\n%s", Fingerprint(c), k0)
	}
	if c.parts[0] == o.parts[0] || &c.parts[0].data[0] == &o.parts[0].data[0] || c.p == o.p {
		t.Fatal("clone shares memory")
	}
	pp := o.p
	o.id, o.parts[0].data[0], o.p.n, o.arr[1].n = 8, 'X', 10, 5
	o.m["y"] = nil
	if Fingerprint(o) == k0 {
		t.Fatal("fingerprint did not change")
	}
	Restore(o, c)
	if Fingerprint(o) != k0 {
		t.Fatalf("restore differs:\n%s\n%s", Fingerprint(o), k0)
	}
	if o.p != pp {
		t.Fatal("restore replaced a struct reached through a pointer instead of restoring it in place")
	}
	if c.parts[0].data[0] != 'a' {
		t.Fatal("restore aliased the snapshot")
	}
	o.parts[0].data[0] = 'Q'
	if c.parts[0].data[0] != 'a' {
		t.Fatal("object aliases the snapshot after restore")
	}
}

func TestScalars(t *testing.T) {
	type obj struct {
		name   string
		n      int
		ok     bool
		err    error
		active atomic.Int32
		hot    atomic.Pointer[int]
		shim   struct{ r atomic.Int64 }
		m      map[string]int
	}
	o := &obj{name: "a", n: 3, m: map[string]int{"x": 1}}
	o.active.Store(7)
	o.shim.r.Store(-2)
	got := Scalars(o)
	want := ` name="a" n=3 ok=false err=nil active.v=7 hot.v=nil shim.v=-2`
	if got != want {
		t.Fatalf("Scalars = %q, want %q", got, want)
	}
	x := 1
	o.hot.Store(&x)
	o.err = errors.New("boom")
	if got := Scalars(o); got != ` name="a" n=3 ok=false err=err(boom) active.v=7 hot.v=set shim.v=-2` {
		t.Fatalf("Scalars = %q", got)
	}
}
