// Package vquic is a scheduler-visible fake of the part of the quic-go API that hysteria's core
// uses (Transport, Listener, Conn, Stream, datagrams). All data and error types are aliases of
// the real quic-go types, so errors.As/Is in the code under test behaves as in production. It
// only works under an attached vsched execution. Its fidelity is bound to the real stack by the
// conformance scripts in /verif/conform (same script, both stacks, equal observation logs).
//
// Modelled: FIN vs reset, CancelRead discarding unread data and failing the peer's writes,
// bounded per-stream window (writers block), data written before Close delivered, connection
// close failing every stream/datagram call with an ApplicationError (Remote set on the peer),
// datagram size limit (DatagramTooLargeError), stream limit on demand, Transport.Close not
// closing a user supplied PacketConn.
package vquic

import (
	"context"
	"crypto/tls"
	"errors"
	"fmt"
	"io"
	"net"
	"time"

	quic "github.com/apernet/quic-go"
	"github.com/apernet/quic-go/congestion"
	"github.com/apernet/quic-go/monotime"

	"verif.local/engine/vsched"
	"verif.local/engine/vtime"
)

type (
	Config                          = quic.Config
	StatelessResetKey               = quic.StatelessResetKey
	StreamID                        = quic.StreamID
	StreamErrorCode                 = quic.StreamErrorCode
	ApplicationErrorCode            = quic.ApplicationErrorCode
	ApplicationError                = quic.ApplicationError
	TransportError                  = quic.TransportError
	IdleTimeoutError                = quic.IdleTimeoutError
	HandshakeTimeoutError           = quic.HandshakeTimeoutError
	StatelessResetError             = quic.StatelessResetError // named by code under test since the seeded change C16-12
	StreamError                     = quic.StreamError
	StreamLimitReachedError         = quic.StreamLimitReachedError
	DatagramTooLargeError           = quic.DatagramTooLargeError
	ConnectionState                 = quic.ConnectionState
	ConnectionIDGenerator           = quic.ConnectionIDGenerator
	ZeroLengthConnectionIDGenerator = quic.ZeroLengthConnectionIDGenerator
	Version                         = quic.Version
)

type netKey struct{}

// Net is the per-execution fake network: listeners by address, all connections ever made.
type Net struct {
	listeners map[string]*Listener
	Conns     []*Conn // client sides, in dial order (c.Peer() is the server side)
	// DefaultStreamWindow is the per-direction stream buffer (bytes) new connections get.
	DefaultStreamWindow int
	// DefaultMaxDatagram is the datagram payload limit new connections get.
	DefaultMaxDatagram int
	// DialHook, if set, decides whether a dial to addr fails (nil = proceed).
	DialHook func(addr string) error
}

// GetNet returns the fake network of the running execution.
func GetNet(e *vsched.Exec) *Net {
	return vsched.Local(e, netKey{}, func() *Net {
		return &Net{listeners: map[string]*Listener{}, DefaultStreamWindow: 1 << 16, DefaultMaxDatagram: 1200}
	})
}

func exec() *vsched.Exec {
	e := vsched.Cur()
	if e == nil {
		panic("vquic: no execution attached (the fake QUIC layer only runs under vsched)")
	}
	return e
}

// Transport mirrors quic.Transport.
type Transport struct {
	Conn                  net.PacketConn
	DisableGSO            bool
	StatelessResetKey     *StatelessResetKey
	ConnectionIDGenerator ConnectionIDGenerator

	closed   bool
	listener *Listener
	conns    []*Conn
}

var errTransportClosed = errors.New("quic: transport closed")

func (t *Transport) Listen(tlsConf *tls.Config, conf *Config) (*Listener, error) {
	e := exec()
	if t.closed {
		return nil, errTransportClosed
	}
	if t.Conn == nil {
		return nil, errors.New("quic: transport has no PacketConn")
	}
	if t.listener != nil {
		return nil, errors.New("quic: transport is already listening")
	}
	n := GetNet(e)
	addr := t.Conn.LocalAddr().String()
	if _, dup := n.listeners[addr]; dup {
		return nil, fmt.Errorf("listen %s: address already in use", addr)
	}
	l := &Listener{tr: t, addr: t.Conn.LocalAddr(), net: n, conf: conf}
	n.listeners[addr] = l
	t.listener = l
	return l, nil
}

func (t *Transport) Dial(ctx context.Context, addr net.Addr, tlsConf *tls.Config, conf *Config) (*Conn, error) {
	return t.DialEarly(ctx, addr, tlsConf, conf)
}

func (t *Transport) DialEarly(ctx context.Context, addr net.Addr, tlsConf *tls.Config, conf *Config) (*Conn, error) {
	e := exec()
	e.Point("quic", nil, "Transport.DialEarly")
	if t.closed {
		return nil, errTransportClosed
	}
	n := GetNet(e)
	if n.DialHook != nil {
		if err := n.DialHook(addr.String()); err != nil {
			return nil, err
		}
	}
	l := n.listeners[addr.String()]
	if l == nil || l.closed {
		// nobody answers: the handshake times out
		return nil, &HandshakeTimeoutError{}
	}
	var local net.Addr = &net.UDPAddr{IP: net.IPv4(127, 0, 0, 1), Port: 40000 + len(n.Conns)}
	if t.Conn != nil && t.Conn.LocalAddr() != nil {
		local = t.Conn.LocalAddr()
	}
	c := newConn(e, n, 0, local, addr, t)
	s := newConn(e, n, 1, addr, local, l.tr)
	c.Conf, s.Conf = conf, l.conf
	c.peer, s.peer = s, c
	c.Index = len(n.Conns)
	s.Index = c.Index
	n.Conns = append(n.Conns, c)
	t.conns = append(t.conns, c)
	l.tr.conns = append(l.tr.conns, s)
	l.queue = append(l.queue, s)
	return c, nil
}

// Close closes the transport: its listener and every connection made through it. A user
// supplied PacketConn is NOT closed (as in quic-go).
func (t *Transport) Close() error {
	e := exec()
	e.Point("quic", nil, "Transport.Close")
	if t.closed {
		return nil
	}
	t.closed = true
	if t.listener != nil {
		t.listener.closeInternal()
	}
	for _, c := range t.conns {
		c.closeBoth(errTransportClosed, &IdleTimeoutError{})
	}
	return nil
}

func (t *Transport) Closed() bool { return t.closed }

// Listener mirrors quic.Listener.
type Listener struct {
	tr     *Transport
	addr   net.Addr
	net    *Net
	queue  []*Conn
	closed bool
	conf   *Config // the quic.Config the application listens with
}

var ErrServerClosed = quic.ErrServerClosed

func (l *Listener) Accept(ctx context.Context) (*Conn, error) {
	e := exec()
	e.Point("quic", func() bool { return len(l.queue) > 0 || l.closed }, "Listener.Accept")
	if len(l.queue) > 0 {
		c := l.queue[0]
		l.queue = l.queue[1:]
		return c, nil
	}
	return nil, ErrServerClosed
}

func (l *Listener) closeInternal() {
	if l.closed {
		return
	}
	l.closed = true
	delete(l.net.listeners, l.addr.String())
}

func (l *Listener) Close() error {
	e := exec()
	e.Point("quic", nil, "Listener.Close")
	l.closeInternal()
	return nil
}

func (l *Listener) Addr() net.Addr { return l.addr }

// Conn mirrors quic.Conn (one side of a connection).
type Conn struct {
	Index  int // index of the connection in Net.Conns
	side   int // 0 client, 1 server
	e      *vsched.Exec
	net    *Net
	peer   *Conn
	tr     *Transport
	local  net.Addr
	remote net.Addr
	ctx    context.Context
	cancel context.CancelFunc

	closed   bool
	closeErr error

	acceptQ    []*Stream
	dgrams     [][]byte
	nextStream int64
	streams    []*Stream

	cc congestion.CongestionControl

	postCloseSends int

	// knobs and counters for harnesses
	StreamWindow      int
	MaxDatagram       int
	DatagramQueueCap  int
	OpenStreamErr     func(n int) error // n-th OpenStream call (1-based); nil result = proceed
	MaxStreams        int               // peer's limit on concurrently open streams we initiated (0 = unlimited)
	SendDatagramErr   func(n int, p []byte) error
	OpenStreamCalls   int
	RecvDatagramCalls int
	SentDatagrams     int
	DroppedDatagrams  int
	CCSets            []congestion.CongestionControl
	CloseCode         ApplicationErrorCode // code of the first local CloseWithError
	CloseCalls        int
	InitialPacket     congestion.ByteCount
	Conf              *Config // the quic.Config this side was dialled / listened with
	CCResets          int     // times quic-go itself would have replaced the congestion controller (path migration)
	RTT               *RTTStats
}

func newConn(e *vsched.Exec, n *Net, side int, local, remote net.Addr, tr *Transport) *Conn {
	ctx, cancel := context.WithCancel(context.Background())
	return &Conn{e: e, net: n, side: side, local: local, remote: remote, tr: tr, ctx: ctx, cancel: cancel,
		StreamWindow: n.DefaultStreamWindow, MaxDatagram: n.DefaultMaxDatagram, DatagramQueueCap: 128, InitialPacket: 1252, RTT: &RTTStats{}}
}

func (c *Conn) Peer() *Conn                              { return c.peer }
func (c *Conn) IsServer() bool                           { return c.side == 1 }
func (c *Conn) IsClosed() bool                           { return c.closed }
func (c *Conn) CloseErr() error                          { return c.closeErr }
func (c *Conn) Context() context.Context                 { return c.ctx }
func (c *Conn) LocalAddr() net.Addr                      { return c.local }
func (c *Conn) RemoteAddr() net.Addr                     { return c.remote }
func (c *Conn) Streams() []*Stream                       { return c.streams }
func (c *Conn) PendingDatagrams() int                    { return len(c.dgrams) }
func (c *Conn) Congestion() congestion.CongestionControl { return c.cc }
func (c *Conn) ConnectionState() ConnectionState {
	var s ConnectionState
	s.SupportsDatagrams.Local, s.SupportsDatagrams.Remote = true, true
	return s
}
func (c *Conn) InitialPacketSize() congestion.ByteCount { return c.InitialPacket }
func (c *Conn) SetCongestionControl(cc congestion.CongestionControl) {
	if cc != nil {
		cc.SetRTTStatsProvider(c.RTT) // as sentPacketHandler.SetCongestionControl does
	}
	c.cc = cc
	c.CCSets = append(c.CCSets, cc)
}

// RTTStats is the RTT statistics object a connection hands to the controller installed on it.
type RTTStats struct{ Min, Latest, Smoothed, MeanDev, AckDelay time.Duration }

func (r *RTTStats) MinRTT() time.Duration        { return r.Min }
func (r *RTTStats) LatestRTT() time.Duration     { return r.Latest }
func (r *RTTStats) SmoothedRTT() time.Duration   { return r.Smoothed }
func (r *RTTStats) MeanDeviation() time.Duration { return r.MeanDev }
func (r *RTTStats) MaxAckDelay() time.Duration   { return r.AckDelay }
func (r *RTTStats) PTO(bool) time.Duration       { return r.Smoothed + 4*r.MeanDev + r.AckDelay }
func (r *RTTStats) UpdateRTT(sendDelta, ackDelay time.Duration) {
	r.Latest, r.Smoothed = sendDelta, sendDelta
}
func (r *RTTStats) SetMaxAckDelay(d time.Duration) { r.AckDelay = d }
func (r *RTTStats) SetInitialRTT(d time.Duration) {
	if r.Smoothed == 0 {
		r.Smoothed, r.Latest = d, d
	}
}

// AckEvent delivers one acknowledgement/loss batch to the installed controller the way quic-go's
// sentPacketHandler does (SetCongestionControl in the pinned fork): through OnCongestionEventEx
// when the VALUE that was installed implements congestion.CongestionControlEx (ccAdapterEx),
// otherwise through the per-packet legacy calls OnPacketAcked / OnCongestionEvent (ccAdapter).
// It reports which path was taken. A wrapper around a controller that hides the optional method
// silently switches the connection to the legacy path.
func (c *Conn) AckEvent(prior congestion.ByteCount, now monotime.Time, acked []congestion.AckedPacketInfo, lost []congestion.LostPacketInfo) (ex bool) {
	if c.cc == nil {
		return false
	}
	if cex, ok := c.cc.(congestion.CongestionControlEx); ok {
		cex.OnCongestionEventEx(prior, now, acked, lost)
		return true
	}
	for _, a := range acked {
		c.cc.OnPacketAcked(a.PacketNumber, a.BytesAcked, prior, now)
	}
	for _, l := range lost {
		c.cc.OnCongestionEvent(l.PacketNumber, l.BytesLost, prior)
	}
	return false
}

// NewDetachedConn returns a connection that belongs to no network and no execution: enough to have
// a congestion controller installed on it and to be asked for its addresses and packet size.
func NewDetachedConn(local, remote net.Addr) *Conn {
	ctx, cancel := context.WithCancel(context.Background())
	return &Conn{local: local, remote: remote, ctx: ctx, cancel: cancel, InitialPacket: 1252, RTT: &RTTStats{}}
}

// PeerAddressChanged models a peer whose UDP source address changes mid-connection (NAT rebinding,
// a port-hopping client). With its path manager enabled quic-go validates the new path and, on
// switching to it, replaces the connection's congestion controller with a fresh Reno sender
// (sentPacketHandler.MigratedPath in the pinned fork): whatever the application installed at
// authentication is gone. With Config.DisablePathManager the connection keeps its path state and
// its controller.
func (c *Conn) PeerAddressChanged(newAddr net.Addr) {
	c.remote = newAddr
	if c.Conf == nil || !c.Conf.DisablePathManager {
		c.cc = nil
		c.CCResets++
	}
}

func (c *Conn) setClosed(err error) {
	if c.closed {
		return
	}
	c.closed = true
	c.closeErr = err
	c.cancel()
}

func (c *Conn) closeBoth(local, remote error) {
	c.setClosed(local)
	if c.peer != nil {
		c.peer.setClosed(remote)
	}
}

// CloseWithError closes the connection; every pending and later call on either side fails.
func (c *Conn) CloseWithError(code ApplicationErrorCode, desc string) error {
	c.e.Point("quic", nil, "Conn.CloseWithError")
	c.CloseCalls++
	if c.closed {
		return nil
	}
	c.CloseCode = code
	c.closeBoth(&ApplicationError{ErrorCode: code, ErrorMessage: desc, Remote: false},
		&ApplicationError{ErrorCode: code, ErrorMessage: desc, Remote: true})
	return nil
}

// Kill simulates loss of the path: both sides observe an idle timeout. Harness-side; no
// scheduling point of its own.
func (c *Conn) Kill() {
	c.closeBoth(&IdleTimeoutError{}, &IdleTimeoutError{})
}

// KillWith ends the connection with the given terminal error on this side (and an idle timeout on
// the peer): the other ways quic-go reports a dead connection - a stateless reset
// (*quic.StatelessResetError, whose Temporary() is true), a transport error, a remote application
// close.
func (c *Conn) KillWith(local error) {
	c.closeBoth(local, &IdleTimeoutError{})
}

func (c *Conn) OpenStream() (*Stream, error) {
	c.e.Point("quic", nil, "Conn.OpenStream")
	c.OpenStreamCalls++
	if c.closed {
		return nil, c.closeErr
	}
	if c.OpenStreamErr != nil {
		if err := c.OpenStreamErr(c.OpenStreamCalls); err != nil {
			return nil, err
		}
	}
	if c.MaxStreams > 0 {
		active := 0
		for _, s := range c.streams {
			if int64(s.id)%4 == int64(c.side) && !s.finished() {
				active++
			}
		}
		if active >= c.MaxStreams {
			// quic-go returns the POINTER form (streams_map_outgoing.go)
			return nil, &StreamLimitReachedError{}
		}
	}
	id := StreamID(c.nextStream*4 + int64(c.side))
	c.nextStream++
	ab := &half{}
	ba := &half{}
	mine := &Stream{id: id, conn: c, out: ab, in: ba}
	theirs := &Stream{id: id, conn: c.peer, out: ba, in: ab}
	mine.ctx, mine.cancel = context.WithCancel(c.ctx)
	theirs.ctx, theirs.cancel = context.WithCancel(c.peer.ctx)
	mine.other, theirs.other = theirs, mine
	c.streams = append(c.streams, mine)
	c.peer.streams = append(c.peer.streams, theirs)
	c.peer.acceptQ = append(c.peer.acceptQ, theirs)
	return mine, nil
}

func (c *Conn) OpenStreamSync(ctx context.Context) (*Stream, error) { return c.OpenStream() }

func (c *Conn) AcceptStream(ctx context.Context) (*Stream, error) {
	c.e.Point("quic", func() bool { return len(c.acceptQ) > 0 || c.closed }, "Conn.AcceptStream")
	if c.closed {
		return nil, c.closeErr
	}
	s := c.acceptQ[0]
	c.acceptQ = c.acceptQ[1:]
	return s, nil
}

func (c *Conn) SendDatagram(p []byte) error {
	c.e.Point("quic", nil, "Conn.SendDatagram")
	if len(p) > c.MaxDatagram {
		return &DatagramTooLargeError{MaxDatagramPayloadSize: int64(c.MaxDatagram)}
	}
	if c.closed {
		// quic-go's send queue (32 entries) is not drained once the connection is closed and
		// Add does not look at the closed flag: 32 sends "succeed", the 33rd reports the error
		if c.postCloseSends < 32 {
			c.postCloseSends++
			return nil
		}
		return c.closeErr
	}
	if len(p) > c.MaxDatagram {
		return &DatagramTooLargeError{MaxDatagramPayloadSize: int64(c.MaxDatagram)}
	}
	c.SentDatagrams++
	if c.SendDatagramErr != nil {
		if err := c.SendDatagramErr(c.SentDatagrams, p); err != nil {
			return err
		}
	}
	if len(c.peer.dgrams) >= c.peer.DatagramQueueCap {
		c.peer.DroppedDatagrams++
		return nil
	}
	c.peer.dgrams = append(c.peer.dgrams, append([]byte(nil), p...))
	return nil
}

func (c *Conn) ReceiveDatagram(ctx context.Context) ([]byte, error) {
	c.RecvDatagramCalls++
	c.e.Point("quic", func() bool { return len(c.dgrams) > 0 || c.closed }, "Conn.ReceiveDatagram")
	if len(c.dgrams) == 0 {
		return nil, c.closeErr
	}
	// quic-go hands out datagrams queued before the close first (datagram_queue.go Receive)
	d := c.dgrams[0]
	c.dgrams = c.dgrams[1:]
	return d, nil
}

// half is one direction of a stream.
type half struct {
	buf   []byte
	fin   bool
	reset *StreamErrorCode // writer cancelled
	stop  *StreamErrorCode // reader cancelled (STOP_SENDING)
	total int64            // bytes ever written
	all   []byte           // everything ever written (kept while small, for oracles)
}

// Stream mirrors quic.Stream.
type Stream struct {
	id     StreamID
	conn   *Conn
	other  *Stream
	in     *half
	out    *half
	ctx    context.Context
	cancel context.CancelFunc
	rdl    time.Time
	wdl    time.Time

	stopSeen    bool // the peer's STOP_SENDING was observed by a Write on this side
	writeClosed bool // Close called
	writeCancel *StreamErrorCode
	readCancel  *StreamErrorCode

	// Meta carries out-of-band objects of the fake HTTP/3 layer.
	Meta any
	// ChunkChoice makes the size of reads an environment choice (all available, or 1 byte).
	ChunkChoice bool
	// EOFWithData makes "last bytes returned together with io.EOF" an environment choice.
	EOFWithData bool
	ReadTotal   int64
	Accepted    bool
}

type deadlineError struct{}

func (deadlineError) Error() string   { return "deadline exceeded" }
func (deadlineError) Timeout() bool   { return true }
func (deadlineError) Temporary() bool { return true }
func (deadlineError) Unwrap() error   { return context.DeadlineExceeded }

var errDeadline net.Error = deadlineError{}

func passed(t time.Time) bool { return !t.IsZero() && !vtime.Now().Before(t) }

func (s *Stream) arm(t time.Time) {
	if !t.IsZero() {
		at := int64(t.Sub(vtime.Epoch))
		if at > s.conn.e.Now() {
			s.conn.e.AddTimer(at, func() {})
		}
	}
}

// finished reports whether both directions of the stream are done (it no longer counts against
// the peer's stream limit).
func (s *Stream) finished() bool {
	outDone := s.writeClosed || s.writeCancel != nil || s.out.stop != nil
	inDone := s.readCancel != nil || s.in.reset != nil || (s.in.fin && len(s.in.buf) == 0)
	return outDone && inDone
}

func (s *Stream) StreamID() StreamID       { return s.id }
func (s *Stream) Context() context.Context { return s.ctx }
func (s *Stream) Conn() *Conn              { return s.conn }
func (s *Stream) Other() *Stream           { return s.other }

// Unread returns the bytes written by the peer and not yet read (harness-side inspection).
func (s *Stream) Unread() []byte { return s.in.buf }

// WrittenBytes returns everything ever written on this side (first MiB).
func (s *Stream) WrittenBytes() []byte { return s.out.all }

// Written returns the number of bytes ever written on this side.
func (s *Stream) WrittenTotal() int64 { return s.out.total }

func (s *Stream) Read(p []byte) (int, error) {
	c := s.conn
	c.e.Point("quic", func() bool {
		return c.closed || s.readCancel != nil || s.in.reset != nil || len(s.in.buf) > 0 || s.in.fin || passed(s.rdl) || len(p) == 0
	}, "Stream.Read")
	if s.readCancel != nil {
		return 0, &StreamError{StreamID: s.id, ErrorCode: *s.readCancel, Remote: false}
	}
	if c.closed {
		return 0, c.closeErr
	}
	if s.in.reset != nil {
		return 0, &StreamError{StreamID: s.id, ErrorCode: *s.in.reset, Remote: true}
	}
	if passed(s.rdl) {
		return 0, errDeadline
	}
	if len(p) == 0 {
		return 0, nil
	}
	if len(s.in.buf) == 0 {
		return 0, io.EOF
	}
	n := len(s.in.buf)
	if n > len(p) {
		n = len(p)
	}
	if s.ChunkChoice && n > 1 && c.e.Choose(2, vsched.KEnv, "quic-short-read") == 1 {
		n = 1
	}
	copy(p, s.in.buf[:n])
	s.in.buf = s.in.buf[n:]
	s.ReadTotal += int64(n)
	if len(s.in.buf) == 0 && s.in.fin && s.EOFWithData && c.e.Choose(2, vsched.KEnv, "quic-eof-with-data") == 1 {
		// quic-go may deliver the last bytes together with io.EOF
		return n, io.EOF
	}
	return n, nil
}

// PeekVarint waits for the first QUIC varint of the stream without consuming it.
func (s *Stream) PeekVarint() (uint64, error) {
	c := s.conn
	need := func() int {
		if len(s.in.buf) == 0 {
			return 1
		}
		return 1 << (s.in.buf[0] >> 6)
	}
	c.e.Point("quic", func() bool {
		return c.closed || s.readCancel != nil || s.in.reset != nil || len(s.in.buf) >= need() || s.in.fin
	}, "Stream.Peek")
	if s.readCancel != nil {
		return 0, &StreamError{StreamID: s.id, ErrorCode: *s.readCancel, Remote: false}
	}
	if c.closed {
		return 0, c.closeErr
	}
	if s.in.reset != nil {
		return 0, &StreamError{StreamID: s.id, ErrorCode: *s.in.reset, Remote: true}
	}
	if len(s.in.buf) < need() {
		if len(s.in.buf) == 0 {
			return 0, io.EOF
		}
		return 0, io.ErrUnexpectedEOF
	}
	n := need()
	v := uint64(s.in.buf[0] & 0x3f)
	for i := 1; i < n; i++ {
		v = v<<8 | uint64(s.in.buf[i])
	}
	return v, nil
}

func (s *Stream) Write(p []byte) (int, error) {
	c := s.conn
	written := 0
	for {
		c.e.Point("quic", func() bool {
			return c.closed || s.writeClosed || s.writeCancel != nil || s.out.stop != nil || len(s.out.buf) < c.StreamWindow || passed(s.wdl) || written == len(p)
		}, "Stream.Write")
		if s.writeCancel != nil {
			return written, &StreamError{StreamID: s.id, ErrorCode: *s.writeCancel, Remote: false}
		}
		if s.writeClosed {
			return written, fmt.Errorf("write on closed stream %d", s.id)
		}
		if c.closed {
			return written, c.closeErr
		}
		if s.out.stop != nil {
			s.stopSeen = true
			return written, &StreamError{StreamID: s.id, ErrorCode: *s.out.stop, Remote: true}
		}
		if passed(s.wdl) {
			return written, errDeadline
		}
		if written == len(p) {
			return written, nil
		}
		n := c.StreamWindow - len(s.out.buf)
		if n > len(p)-written {
			n = len(p) - written
		}
		s.out.buf = append(s.out.buf, p[written:written+n]...)
		s.out.total += int64(n)
		if len(s.out.all) < 1<<20 {
			s.out.all = append(s.out.all, p[written:written+n]...)
		}
		written += n
		if written == len(p) {
			return written, nil
		}
	}
}

// Close closes the write side (FIN). Data written before is still delivered.
func (s *Stream) Close() error {
	s.conn.e.Point("quic", nil, "Stream.Close")
	if s.writeCancel != nil || (s.out.stop != nil && s.stopSeen) {
		// send_stream.go Close: resetErr is also set by the peer's STOP_SENDING once it was processed
		return fmt.Errorf("close called for canceled stream %d", s.id)
	}
	if s.writeClosed {
		return nil
	}
	s.writeClosed = true
	s.out.fin = true
	return nil
}

// CancelWrite resets the send side: undelivered data is discarded, the peer's reads fail.
func (s *Stream) CancelWrite(code StreamErrorCode) {
	s.conn.e.Point("quic", nil, "Stream.CancelWrite")
	if s.writeCancel != nil || (s.writeClosed && len(s.out.buf) == 0) {
		return
	}
	s.writeCancel = &code
	s.out.reset = &code
	s.out.buf = nil
}

// CancelRead aborts the receive side: unread data is discarded, the peer's writes fail.
func (s *Stream) CancelRead(code StreamErrorCode) {
	s.conn.e.Point("quic", nil, "Stream.CancelRead")
	if s.readCancel != nil {
		return
	}
	if s.in.fin && len(s.in.buf) == 0 {
		// everything was read already: nothing to cancel
		s.readCancel = &code
		return
	}
	s.readCancel = &code
	s.in.stop = &code
	s.in.buf = nil
}

func (s *Stream) SetReadDeadline(t time.Time) error {
	s.rdl = t
	s.arm(t)
	return nil
}

func (s *Stream) SetWriteDeadline(t time.Time) error {
	s.wdl = t
	s.arm(t)
	return nil
}

func (s *Stream) SetDeadline(t time.Time) error {
	s.rdl, s.wdl = t, t
	s.arm(t)
	return nil
}

// ReadCancelled / WriteCancelled / FinSent are harness-side inspection helpers.
func (s *Stream) ReadCancelled() bool  { return s.readCancel != nil }
func (s *Stream) WriteCancelled() bool { return s.writeCancel != nil }
func (s *Stream) FinSent() bool        { return s.out.fin }
