// Package http3 is a scheduler-visible fake of the part of quic-go/http3 hysteria uses:
// Server{Handler, StreamDispatcher}.ServeQUICConn and Transport{Dial...}.RoundTrip. Requests
// travel as Go objects attached to the fake stream (the stream itself starts with the HEADERS
// frame type so that peeking yields 0x1); the server side follows http3/server.go of the pinned
// fork: every accepted stream runs in its own thread, the frame type is PEEKED (not consumed)
// before StreamDispatcher, ServeQUICConn returns only after all handlers returned.
package http3

import (
	"bytes"
	"context"
	"crypto/tls"
	"errors"
	"fmt"
	"io"
	"log/slog"
	"net/http"
	"time"

	rhttp3 "github.com/apernet/quic-go/http3"

	"verif.local/engine/vquic"
	"verif.local/engine/vsched"
	"verif.local/engine/vsync"
)

type (
	FrameType = rhttp3.FrameType
	ErrCode   = rhttp3.ErrCode
)

const (
	ErrCodeNoError           = rhttp3.ErrCodeNoError
	ErrCodeExcessiveLoad     = rhttp3.ErrCodeExcessiveLoad
	ErrCodeRequestIncomplete = rhttp3.ErrCodeRequestIncomplete
	ErrCodeFrameUnexpected   = rhttp3.ErrCodeFrameUnexpected
	ErrCodeRequestRejected   = rhttp3.ErrCodeRequestRejected
)

// ConfigureTLSConfig mirrors http3.ConfigureTLSConfig (ALPN only matters on a real wire).
func ConfigureTLSConfig(c *tls.Config) *tls.Config { return c }

// exchange is the out-of-band HTTP exchange attached to a fake stream.
type exchange struct {
	req  *http.Request
	resp *Response
	done bool
	err  error // the request stream was reset by the server (handler aborted): what RoundTrip returns
}

// Response is what the handler wrote, captured verbatim.
type Response struct {
	Status      int
	Header      http.Header
	Body        []byte
	WroteHeader bool
	Flushes     int
}

type respWriter struct {
	r *Response
}

func (w *respWriter) Header() http.Header { return w.r.Header }
func (w *respWriter) WriteHeader(code int) {
	if w.r.WroteHeader {
		return
	}
	w.r.WroteHeader = true
	w.r.Status = code
}
func (w *respWriter) Write(b []byte) (int, error) {
	if !w.r.WroteHeader {
		// as the real responseWriter (and net/http) do: a body written without WriteHeader and
		// without a Content-Type gets one sniffed from its first bytes
		_, haveType := w.r.Header["Content-Type"]
		if !haveType && w.r.Header.Get("Content-Encoding") == "" && len(b) > 0 {
			w.r.Header.Set("Content-Type", http.DetectContentType(b))
		}
		w.WriteHeader(http.StatusOK)
	}
	w.r.Body = append(w.r.Body, b...)
	return len(b), nil
}
func (w *respWriter) Flush() {
	if !w.r.WroteHeader {
		w.WriteHeader(http.StatusOK)
	}
	w.r.Flushes++
}

// FlushError, SetReadDeadline, SetWriteDeadline: what http.ResponseController finds on the real writer.
func (w *respWriter) FlushError() error                  { w.Flush(); return nil }
func (w *respWriter) SetReadDeadline(t time.Time) error  { return nil }
func (w *respWriter) SetWriteDeadline(t time.Time) error { return nil }

// Server mirrors http3.Server.
type Server struct {
	Handler          http.Handler
	StreamDispatcher func(FrameType, *vquic.Stream, error) (handled bool, err error)
	// the remaining configuration fields of the real http3.Server, so that code which sets them
	// still builds against the fake; only MaxHeaderBytes has an effect here
	Addr               string
	Port               int
	TLSConfig          *tls.Config
	QUICConfig         *vquic.Config
	EnableDatagrams    bool
	MaxHeaderBytes     int
	AdditionalSettings map[uint64]uint64
	IdleTimeout        time.Duration
	ConnContext        func(ctx context.Context, c *vquic.Conn) context.Context
	Logger             *slog.Logger
	// Served counts request streams handled by Handler; Declined counts non-request streams
	// that the dispatcher did not take (they are reset, as a plain HTTP/3 server would do).
	Served, Declined int
	// Aborted counts request streams whose handler aborted with http.ErrAbortHandler.
	Aborted int
}

// ServeQUICConn serves one connection until it is closed; it returns after all handlers
// returned (http3/server.go:553-575 of the pinned fork).
func (s *Server) ServeQUICConn(conn *vquic.Conn) error {
	var wg vsync.WaitGroup
	var handleErr error
	for {
		str, err := conn.AcceptStream(context.Background())
		if err != nil {
			var appErr *vquic.ApplicationError
			if !errors.As(err, &appErr) || appErr.ErrorCode != vquic.ApplicationErrorCode(ErrCodeNoError) {
				handleErr = fmt.Errorf("accepting stream failed: %w", err)
			}
			break
		}
		wg.Add(1)
		vsched.GoNamed("h3-stream", func() {
			defer wg.Done()
			if s.StreamDispatcher == nil {
				s.handleRequestStream(conn, str)
				return
			}
			ft, err := str.PeekVarint()
			handled, dispatchErr := s.StreamDispatcher(FrameType(ft), str, err)
			if dispatchErr != nil {
				str.CancelRead(vquic.StreamErrorCode(ErrCodeRequestIncomplete))
				str.CancelWrite(vquic.StreamErrorCode(ErrCodeRequestIncomplete))
				return
			}
			if handled {
				return
			}
			s.handleRequestStream(conn, str)
		})
	}
	wg.Wait()
	return handleErr
}

func (s *Server) handleRequestStream(conn *vquic.Conn, str *vquic.Stream) {
	ex, _ := str.Other().Meta.(*exchange)
	if ex == nil {
		// Not an HTTP request: quic-go/http3 runs its ordinary request parser on the stream
		// (server_conn.go handleRequestStream + frames.go ParseNext): unknown frame types are
		// skipped using their length field, a first frame that is not HEADERS closes the whole
		// CONNECTION with H3_FRAME_UNEXPECTED, a parse error / EOF resets the stream with
		// H3_REQUEST_INCOMPLETE, and incomplete bytes on an open stream block. Nothing of the
		// application is involved.
		s.Declined++
		s.parseAsHTTP3(conn, str)
		return
	}
	s.Served++
	req := ex.req.Clone(context.Background())
	if req.Host == "" && req.URL != nil {
		req.Host = req.URL.Host
	}
	req.RemoteAddr = conn.RemoteAddr().String()
	req.Proto, req.ProtoMajor, req.ProtoMinor = "HTTP/3.0", 3, 0
	if req.Body == nil {
		req.Body = http.NoBody
	}
	if req.Header == nil {
		req.Header = http.Header{}
	}
	resp := &Response{Header: http.Header{}}
	w := &respWriter{r: resp}
	// the real server answers a HEADERS frame longer than MaxHeaderBytes (default 1 MiB) itself
	// with 431 and never calls the handler. Approximated by the uncompressed size of the field
	// section (names + values + pseudo-headers), which is what QPACK can only shrink.
	limit := s.MaxHeaderBytes
	if limit <= 0 {
		limit = http.DefaultMaxHeaderBytes
	}
	size := len(req.Method) + len(req.Host) + 16
	if req.URL != nil {
		size += len(req.URL.RequestURI())
	}
	for k, vs := range req.Header {
		for _, v := range vs {
			size += len(k) + len(v)
		}
	}
	if size > limit {
		resp.Status, resp.WroteHeader = http.StatusRequestHeaderFieldsTooLarge, true
		ex.resp = resp
		ex.done = true
		_ = str.Close()
		return
	}
	h := s.Handler
	if h == nil {
		h = http.DefaultServeMux
	}
	// As the real server does (server_conn.go handleRequest: recover around ServeHTTP), a handler
	// that aborts by panicking with http.ErrAbortHandler (httputil.ReverseProxy does when its
	// upstream dies mid-response) takes down its own request stream only: the stream is reset with
	// H3_INTERNAL_ERROR, the client's RoundTrip fails, the connection and the other streams live on.
	// Any other panic value is passed on unchanged (the real server would log "http3: panic
	// serving" and reset the stream too; here it stays a crash the checks report, and the
	// scheduler's own tear-down panics must not be swallowed).
	aborted := false
	func() {
		defer func() {
			if p := recover(); p != nil {
				if p != http.ErrAbortHandler {
					panic(p)
				}
				aborted = true
			}
		}()
		h.ServeHTTP(w, req)
	}()
	if aborted {
		s.Aborted++
		str.CancelRead(vquic.StreamErrorCode(rhttp3.ErrCodeInternalError))
		str.CancelWrite(vquic.StreamErrorCode(rhttp3.ErrCodeInternalError))
		ex.err = &vquic.StreamError{StreamID: str.StreamID(), ErrorCode: vquic.StreamErrorCode(rhttp3.ErrCodeInternalError), Remote: true}
		ex.done = true
		return
	}
	if !resp.WroteHeader {
		w.WriteHeader(http.StatusOK)
	}
	ex.resp = resp
	ex.done = true
	_ = str.Close()
}

// Transport mirrors http3.Transport (one connection, dialled lazily).
type Transport struct {
	TLSClientConfig *tls.Config
	QUICConfig      *vquic.Config
	Dial            func(ctx context.Context, addr string, tlsCfg *tls.Config, cfg *vquic.Config) (*vquic.Conn, error)

	conn *vquic.Conn
}

// RoundTrip sends req on a new stream of the (lazily dialled) connection.
func (t *Transport) RoundTrip(req *http.Request) (*http.Response, error) {
	if t.conn == nil {
		if t.Dial == nil {
			return nil, errors.New("http3 fake: Transport.Dial is required")
		}
		c, err := t.Dial(context.Background(), req.URL.Host, t.TLSClientConfig, t.QUICConfig)
		if err != nil {
			return nil, err
		}
		t.conn = c
	}
	return Do(t.conn, req)
}

func (t *Transport) Close() error { return nil }

// Do performs one HTTP exchange over conn (also used directly by harness clients that hold a
// raw connection).
func Do(conn *vquic.Conn, req *http.Request) (*http.Response, error) {
	r, err := DoRaw(conn, req)
	if err != nil {
		return nil, err
	}
	return &http.Response{
		StatusCode: r.Status, Status: fmt.Sprintf("%d %s", r.Status, http.StatusText(r.Status)),
		Proto: "HTTP/3.0", ProtoMajor: 3, Header: r.Header.Clone(),
		Body: io.NopCloser(bytes.NewReader(r.Body)), ContentLength: int64(len(r.Body)), Request: req,
	}, nil
}

// DoRaw is Do returning exactly what the handler wrote.
func DoRaw(conn *vquic.Conn, req *http.Request) (*Response, error) {
	e := vsched.Cur()
	str, err := conn.OpenStream()
	if err != nil {
		return nil, err
	}
	ex := &exchange{req: req}
	str.Meta = ex
	// HEADERS frame type followed by a token payload, so that peeking yields 0x01
	if _, err := str.Write([]byte{0x01, 0x02, 'r', 'q'}); err != nil {
		return nil, err
	}
	_ = str.Close()
	e.Point("quic", func() bool { return ex.done || conn.IsClosed() }, "http3.RoundTrip")
	if !ex.done {
		return nil, conn.CloseErr()
	}
	if ex.err != nil {
		return nil, ex.err
	}
	return ex.resp, nil
}

func readVarint(str *vquic.Stream) (uint64, error) {
	var b [8]byte
	if _, err := io.ReadFull(str, b[:1]); err != nil {
		return 0, err
	}
	n := 1 << (b[0] >> 6)
	if n > 1 {
		if _, err := io.ReadFull(str, b[1:n]); err != nil {
			return 0, err
		}
	}
	v := uint64(b[0] & 0x3f)
	for i := 1; i < n; i++ {
		v = v<<8 | uint64(b[i])
	}
	return v, nil
}

func (s *Server) parseAsHTTP3(conn *vquic.Conn, str *vquic.Stream) {
	reset := func() {
		str.CancelRead(vquic.StreamErrorCode(ErrCodeRequestIncomplete))
		str.CancelWrite(vquic.StreamErrorCode(ErrCodeRequestIncomplete))
	}
	skip := func(l uint64) error {
		buf := make([]byte, 512)
		for l > 0 {
			n := uint64(len(buf))
			if l < n {
				n = l
			}
			m, err := str.Read(buf[:n])
			l -= uint64(m)
			if err != nil && l > 0 {
				return err
			}
		}
		return nil
	}
	for {
		t, err := readVarint(str)
		if err != nil {
			reset()
			return
		}
		l, err := readVarint(str)
		if err != nil {
			reset()
			return
		}
		switch t {
		case 0x0: // DATA first: not a HEADERS frame
			_ = conn.CloseWithError(vquic.ApplicationErrorCode(ErrCodeFrameUnexpected), "expected first frame to be a HEADERS frame")
			return
		case 0x1: // HEADERS with bytes that are not a QPACK block the fake could decode
			if err := skip(l); err != nil {
				reset()
				return
			}
			str.CancelRead(vquic.StreamErrorCode(rhttp3.ErrCodeMessageError))
			str.CancelWrite(vquic.StreamErrorCode(rhttp3.ErrCodeMessageError))
			return
		case 0x4, 0x7: // SETTINGS / GOAWAY are parsed, then rejected as "not HEADERS"
			if err := skip(l); err != nil {
				reset()
				return
			}
			_ = conn.CloseWithError(vquic.ApplicationErrorCode(ErrCodeFrameUnexpected), "expected first frame to be a HEADERS frame")
			return
		case 0x2, 0x6, 0x8, 0x9: // reserved
			_ = conn.CloseWithError(vquic.ApplicationErrorCode(ErrCodeFrameUnexpected), "")
			reset()
			return
		default: // unknown (0x401 included) and unsupported types: skipped
			if err := skip(l); err != nil {
				reset()
				return
			}
		}
	}
}
