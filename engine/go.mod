module verif.local/engine

go 1.25.0
