// Package vrand owns randomness: under an execution every draw comes from a deterministic
// per-execution stream, or from a harness-installed source (which may make a draw a choice point).
package vrand

import (
	"verif.local/engine/vsched"
)

type key struct{}

// Source produces the n-th draw below bound (bound 0 = full 63 bit) for tag.
type Source func(e *vsched.Exec, tag string, bound int64) int64

type st struct {
	x   uint64
	src Source
}

func get(e *vsched.Exec) *st {
	return vsched.Local(e, key{}, func() *st { return &st{x: 0x9E3779B97F4A7C15} })
}

// SetSource installs a harness source for the running execution.
func SetSource(e *vsched.Exec, s Source) { get(e).src = s }

// Draw returns a deterministic value in [0,bound) (bound<=0: any non-negative int64).
func Draw(e *vsched.Exec, tag string, bound int64) int64 {
	s := get(e)
	if s.src != nil {
		v := s.src(e, tag, bound)
		if v >= 0 {
			return v
		}
	}
	// splitmix64
	s.x += 0x9E3779B97F4A7C15
	z := s.x
	z = (z ^ (z >> 30)) * 0xBF58476D1CE4E5B9
	z = (z ^ (z >> 27)) * 0x94D049BB133111EB
	z ^= z >> 31
	v := int64(z >> 1)
	if bound > 0 {
		v %= bound
	}
	return v
}
