// Package mrand is a drop-in for the parts of math/rand hysteria uses.
package mrand

import (
	"math/rand"

	"verif.local/engine/vrand"
	"verif.local/engine/vsched"
)

type (
	Rand   = rand.Rand
	Source = rand.Source
)

func New(s Source) *Rand          { return rand.New(s) }
func NewSource(seed int64) Source { return rand.NewSource(seed) }

func Intn(n int) int {
	if e := vsched.Cur(); e != nil {
		return int(vrand.Draw(e, "math/rand.Intn", int64(n)))
	}
	return rand.Intn(n)
}
func Int63n(n int64) int64 {
	if e := vsched.Cur(); e != nil {
		return vrand.Draw(e, "math/rand.Int63n", n)
	}
	return rand.Int63n(n)
}
func Int31n(n int32) int32 {
	if e := vsched.Cur(); e != nil {
		return int32(vrand.Draw(e, "math/rand.Int31n", int64(n)))
	}
	return rand.Int31n(n)
}
func Int() int {
	if e := vsched.Cur(); e != nil {
		return int(vrand.Draw(e, "math/rand.Int", 0))
	}
	return rand.Int()
}
func Int63() int64 {
	if e := vsched.Cur(); e != nil {
		return vrand.Draw(e, "math/rand.Int63", 0)
	}
	return rand.Int63()
}
func Uint32() uint32 {
	if e := vsched.Cur(); e != nil {
		return uint32(vrand.Draw(e, "math/rand.Uint32", 1<<32))
	}
	return rand.Uint32()
}
func Uint64() uint64 {
	if e := vsched.Cur(); e != nil {
		return uint64(vrand.Draw(e, "math/rand.Uint64", 0))
	}
	return rand.Uint64()
}
func Float64() float64 {
	if e := vsched.Cur(); e != nil {
		return float64(vrand.Draw(e, "math/rand.Float64", 1<<53)) / (1 << 53)
	}
	return rand.Float64()
}
func Read(p []byte) (int, error) {
	if e := vsched.Cur(); e != nil {
		for i := range p {
			p[i] = byte(vrand.Draw(e, "math/rand.Read", 256))
		}
		return len(p), nil
	}
	return rand.Read(p)
}
func Seed(s int64) {}
func Perm(n int) []int {
	if e := vsched.Cur(); e != nil {
		p := make([]int, n)
		for i := range p {
			p[i] = i
		}
		return p
	}
	return rand.Perm(n)
}
func Shuffle(n int, swap func(i, j int)) {
	if e := vsched.Cur(); e != nil {
		return
	}
	rand.Shuffle(n, swap)
}
