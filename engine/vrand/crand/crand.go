// Package crand is a drop-in for the parts of crypto/rand hysteria uses.
package crand

import (
	"crypto/rand"
	"io"
	"math/big"

	"verif.local/engine/vrand"
	"verif.local/engine/vsched"
)

type reader struct{}

func (reader) Read(p []byte) (int, error) { return Read(p) }

var Reader io.Reader = reader{}

func Read(p []byte) (int, error) {
	if e := vsched.Cur(); e != nil {
		for i := range p {
			p[i] = byte(vrand.Draw(e, "crypto/rand.Read", 256))
		}
		return len(p), nil
	}
	return rand.Read(p)
}

func Int(r io.Reader, max *big.Int) (*big.Int, error) {
	if e := vsched.Cur(); e != nil && max.IsInt64() {
		return big.NewInt(vrand.Draw(e, "crypto/rand.Int", max.Int64())), nil
	}
	return rand.Int(rand.Reader, max)
}

func Text() string { return rand.Text() }
