// Package lin is a brute-force linearizability checker for the short histories produced by one
// explored execution: it searches for a total order of the operations that respects real-time
// order (an operation that returned before another was called comes first) and is accepted by a
// sequential reference model.
package lin

import (
	"fmt"
	"sort"
	"strings"
)

// Op is one completed (or pending: Ret<0) operation.
type Op struct {
	Call, Ret int64 // logical timestamps; Ret<0: never returned (may or may not have taken effect)
	Thread    int
	Name      string
	In, Out   any
}

// Model is a sequential reference: Step applies op to state (a comparable/canonical string key is
// derived with Key) and reports whether op's observed output is legal in that state.
type Model[S any] struct {
	Init func() S
	Step func(s S, op *Op) (S, bool)
	Key  func(s S) string
}

// History collects operations with a shared logical clock.
type History struct {
	clock int64
	Ops   []*Op
}

func (h *History) Begin(thread int, name string, in any) *Op {
	h.clock++
	op := &Op{Call: h.clock, Ret: -1, Thread: thread, Name: name, In: in}
	h.Ops = append(h.Ops, op)
	return op
}

func (h *History) End(op *Op, out any) {
	h.clock++
	op.Ret = h.clock
	op.Out = out
}

func (h *History) String() string {
	var sb strings.Builder
	ops := append([]*Op{}, h.Ops...)
	sort.Slice(ops, func(i, j int) bool { return ops[i].Call < ops[j].Call })
	for _, o := range ops {
		fmt.Fprintf(&sb, "[%d,%d] t%d %s(%v)->%v; ", o.Call, o.Ret, o.Thread, o.Name, o.In, o.Out)
	}
	return sb.String()
}

// Check reports whether the history is linearizable under m. Histories must have <= 62 ops.
func Check[S any](m Model[S], h *History) bool {
	ops := h.Ops
	n := len(ops)
	if n > 62 {
		panic("lin: history too long")
	}
	seen := map[string]bool{}
	var rec func(done uint64, s S) bool
	rec = func(done uint64, s S) bool {
		if done == (uint64(1)<<n)-1 {
			return true
		}
		k := fmt.Sprintf("%x|%s", done, m.Key(s))
		if seen[k] {
			return false
		}
		seen[k] = true
		// minimal return time among not-done completed ops: an op may go next only if it was
		// called before every not-done op returned
		minRet := int64(1 << 62)
		for i, o := range ops {
			if done&(1<<i) == 0 && o.Ret >= 0 && o.Ret < minRet {
				minRet = o.Ret
			}
		}
		for i, o := range ops {
			if done&(1<<i) != 0 || o.Call > minRet {
				continue
			}
			if o.Ret < 0 {
				// pending op: may be dropped (never took effect) ...
				if rec(done|1<<i, s) {
					return true
				}
			}
			if ns, ok := m.Step(s, o); ok {
				if rec(done|1<<i, ns) {
					return true
				}
			}
		}
		return false
	}
	return rec(0, m.Init())
}
