// Package vmap makes map iteration deterministic: Keys returns the keys in a canonical order.
package vmap

import (
	"cmp"
	"fmt"
	"reflect"
	"sort"
)

// Keys returns the keys of m sorted canonically (ordered kinds by value, everything else by
// its %v rendering, which must then be unique and address-free for the run to be deterministic).
func Keys[M ~map[K]V, K comparable, V any](m M) []K {
	ks := make([]K, 0, len(m))
	for k := range m {
		ks = append(ks, k)
	}
	if len(ks) < 2 {
		return ks
	}
	var z K
	switch reflect.TypeOf(z).Kind() {
	case reflect.String:
		sort.Slice(ks, func(i, j int) bool { return cmp.Less(reflect.ValueOf(ks[i]).String(), reflect.ValueOf(ks[j]).String()) })
	case reflect.Int, reflect.Int8, reflect.Int16, reflect.Int32, reflect.Int64:
		sort.Slice(ks, func(i, j int) bool { return reflect.ValueOf(ks[i]).Int() < reflect.ValueOf(ks[j]).Int() })
	case reflect.Uint, reflect.Uint8, reflect.Uint16, reflect.Uint32, reflect.Uint64, reflect.Uintptr:
		sort.Slice(ks, func(i, j int) bool { return reflect.ValueOf(ks[i]).Uint() < reflect.ValueOf(ks[j]).Uint() })
	default:
		sort.Slice(ks, func(i, j int) bool { return fmt.Sprintf("%v", ks[i]) < fmt.Sprintf("%v", ks[j]) })
	}
	return ks
}
