package vnet

import (
	"io"
	"os"
	"testing"

	"verif.local/engine/evidence"
	"verif.local/engine/explore"
	"verif.local/engine/vsched"
	"verif.local/engine/vtime"
)

func TestPipeAndPacketConn(t *testing.T) {
	os.Setenv("VERIF_REPLAY_DIR", t.TempDir())
	sc := &explore.Scenario{Name: "pipe", Quick: explore.Bounds{P: 2, E: 1}, Body: func(e *vsched.Exec) {
		a, b := Pipe("a", "b", 4)
		a.ChunkChoice, b.ChunkChoice = true, true
		vsched.Go(func() { a.Write([]byte("hello world")); a.Close() })
		got, err := io.ReadAll(b)
		if err != nil || string(got) != "hello world" {
			e.Fail("got %q %v", got, err)
		}
		pc := NewPacketConn("pc", 1)
		vsched.Go(func() { pc.Inject([]byte("x"), pc.Local) })
		pc.SetReadDeadline(vtime.Now().Add(vtime.Second))
		buf := make([]byte, 10)
		n, _, err := pc.ReadFrom(buf)
		e.Logf("n=%d err=%v", n, err)
		if err == nil && n != 1 {
			e.Fail("bad read")
		}
		e.WaitIdle()
	}}
	sh := evidence.NewShard(evidence.GetEnv("T"))
	explore.Run(sh, []*explore.Scenario{sc})
	if len(sh.Violations) > 0 || len(sh.Infra) > 0 {
		t.Fatalf("%+v %v", sh.Violations, sh.Infra)
	}
	t.Log(sh.Parts[0].Evaluations)
	// pass-through
	a, b := Pipe("a", "b", 4)
	go func() { a.Write([]byte("hello world")); a.Close() }()
	got, _ := io.ReadAll(b)
	if string(got) != "hello world" {
		t.Fatal(string(got))
	}
}
