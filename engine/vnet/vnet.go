// Package vnet provides scheduler-visible in-memory network objects: UDP-like PacketConn,
// stream Conn pairs and Listeners. Under an attached execution every blocking operation is a
// scheduling point with an enabledness predicate (data available, closed, deadline passed);
// without one they fall back to a mutex/cond implementation so the same harness bodies can run
// free under -race. Every object keeps an event log the oracles read.
package vnet

import (
	"fmt"
	"io"
	"net"
	"os"
	"sync"
	"time"

	"verif.local/engine/vsched"
	"verif.local/engine/vtime"
)

// Packet is one datagram.
type Packet struct {
	Data []byte
	Addr net.Addr // source for received packets, destination for sent ones
}

type waiter struct {
	mu   sync.Mutex
	once sync.Once
	cond *sync.Cond
}

func (w *waiter) init() {
	w.once.Do(func() { w.cond = sync.NewCond(&w.mu) })
}

// wait blocks until pred() holds. mu must be held by the caller in pass-through mode.
func (w *waiter) wait(cls, desc string, pred func() bool) {
	if e := vsched.Cur(); e != nil {
		e.Point(cls, pred, desc)
		return
	}
	for !pred() {
		w.cond.Wait()
	}
}

func (w *waiter) lock() {
	w.init()
	if vsched.Cur() == nil {
		w.mu.Lock()
	}
}

func (w *waiter) unlock() {
	if vsched.Cur() == nil {
		w.cond.Broadcast()
		w.mu.Unlock()
	}
}

type timeoutError struct{}

func (timeoutError) Error() string   { return "i/o timeout" }
func (timeoutError) Timeout() bool   { return true }
func (timeoutError) Temporary() bool { return true }
func (timeoutError) Is(err error) bool {
	return err == os.ErrDeadlineExceeded
}

// ErrTimeout is returned when a deadline passes (net.Error with Timeout()==true).
var ErrTimeout net.Error = timeoutError{}

type deadline struct {
	t time.Time
}

func (d *deadline) set(t time.Time) {
	d.t = t
	if e := vsched.Cur(); e != nil && !t.IsZero() {
		at := int64(t.Sub(vtime.Epoch))
		if at > e.Now() {
			e.AddTimer(at, func() {}) // lets the clock advance to the deadline
		}
	}
}

func (d *deadline) passed() bool {
	return !d.t.IsZero() && !vtime.Now().Before(d.t)
}

// PacketConn is an in-memory datagram socket.
type PacketConn struct {
	Name  string
	Local net.Addr

	w      waiter
	inbox  []Packet
	closed bool
	rdl    deadline

	// Sent logs every successful WriteTo (copy of data, destination).
	Sent []Packet
	// OnSend, if set, is called for every WriteTo (after logging) - a harness "network".
	OnSend func(c *PacketConn, p Packet)
	// WriteErr, if set, decides the error of the n-th WriteTo (nil = success).
	WriteErr func(n int, p Packet) error
	// ReadErr, if non-nil, is returned (once) by the next ReadFrom instead of data.
	ReadErr error
	// Closes counts Close calls; ReadsAfterClose etc. are for census oracles.
	Closes int
	writes int
	// InboxCap bounds the inbox (0 = unbounded); excess packets are dropped like UDP.
	InboxCap int
	Dropped  int
	CloseErr error // returned by the Close that closes the socket
}

func NewPacketConn(name string, port int) *PacketConn {
	return &PacketConn{Name: name, Local: &net.UDPAddr{IP: net.IPv4(127, 0, 0, 1), Port: port}}
}

// Inject delivers a packet to the socket (environment side); never blocks.
func (c *PacketConn) Inject(data []byte, from net.Addr) {
	c.w.lock()
	defer c.w.unlock()
	if c.closed {
		return
	}
	if c.InboxCap > 0 && len(c.inbox) >= c.InboxCap {
		c.Dropped++
		return
	}
	c.inbox = append(c.inbox, Packet{append([]byte(nil), data...), from})
}

// FailNextRead makes the next ReadFrom return err.
func (c *PacketConn) FailNextRead(err error) {
	c.w.lock()
	defer c.w.unlock()
	c.ReadErr = err
}

func (c *PacketConn) ReadFrom(b []byte) (int, net.Addr, error) {
	c.w.lock()
	defer c.w.unlock()
	c.w.wait("net", c.Name+".ReadFrom", func() bool {
		return len(c.inbox) > 0 || c.closed || c.ReadErr != nil || c.rdl.passed()
	})
	if c.closed {
		return 0, nil, net.ErrClosed
	}
	if c.ReadErr != nil {
		err := c.ReadErr
		c.ReadErr = nil
		return 0, nil, err
	}
	if len(c.inbox) == 0 {
		return 0, nil, ErrTimeout
	}
	p := c.inbox[0]
	c.inbox = c.inbox[1:]
	n := copy(b, p.Data)
	return n, p.Addr, nil
}

func (c *PacketConn) WriteTo(b []byte, addr net.Addr) (int, error) {
	c.w.lock()
	defer c.w.unlock()
	if e := vsched.Cur(); e != nil {
		e.Point("net", nil, c.Name+".WriteTo")
	}
	if c.closed {
		return 0, net.ErrClosed
	}
	p := Packet{append([]byte(nil), b...), addr}
	c.writes++
	if c.WriteErr != nil {
		if err := c.WriteErr(c.writes, p); err != nil {
			return 0, err
		}
	}
	c.Sent = append(c.Sent, p)
	if c.OnSend != nil {
		c.OnSend(c, p)
	}
	return len(b), nil
}

func (c *PacketConn) Close() error {
	c.w.lock()
	defer c.w.unlock()
	if e := vsched.Cur(); e != nil {
		e.Point("net", nil, c.Name+".Close")
	}
	c.Closes++
	if c.closed {
		return net.ErrClosed
	}
	c.closed = true
	// CloseErr: the socket is released (as close(2) releases the descriptor even when it reports
	// EIO or EINTR) and the error is returned
	return c.CloseErr
}

func (c *PacketConn) Closed() bool        { return c.closed }
func (c *PacketConn) Pending() int        { return len(c.inbox) }
func (c *PacketConn) LocalAddr() net.Addr { return c.Local }
func (c *PacketConn) SetDeadline(t time.Time) error {
	c.w.lock()
	defer c.w.unlock()
	c.rdl.set(t)
	return nil
}
func (c *PacketConn) SetReadDeadline(t time.Time) error {
	c.w.lock()
	defer c.w.unlock()
	if c.closed {
		return net.ErrClosed
	}
	c.rdl.set(t)
	return nil
}
func (c *PacketConn) SetWriteDeadline(t time.Time) error { return nil }
func (c *PacketConn) SetReadBuffer(int) error            { return nil }
func (c *PacketConn) SetWriteBuffer(int) error           { return nil }

func (c *PacketConn) String() string {
	return fmt.Sprintf("%s(closed=%v,inbox=%d,sent=%d)", c.Name, c.closed, len(c.inbox), len(c.Sent))
}

// ---------------------------------------------------------------------------------------------

type pipeHalf struct {
	buf     []byte
	cap     int
	wclosed bool // writer closed (reader sees EOF after draining)
	rclosed bool // reader closed (writer gets an error)
	total   int64
}

// Conn is one end of an in-memory stream connection.
type Conn struct {
	Name          string
	w             *waiter
	in            *pipeHalf // we read from it
	out           *pipeHalf // we write to it
	rdl           deadline
	wdl           deadline
	closed        bool
	local, remote net.Addr
	// ChunkChoice: when true (default false) the size of each Read is an environment choice
	// (full, or 1 byte) when more than one byte is available.
	ChunkChoice bool
	// WriteErrAfter, if >0, makes writes fail once that many bytes were written (target error).
	WriteErrAfter int64
	ReadErrAfter  int64
	InjectedErr   error
	// ZeroFirstRead: the first non-empty Read returns (0, nil) before any data (legal for an
	// io.Reader; wrappers such as TLS or buffered connections do it)
	ZeroFirstRead bool
	zeroDone      bool
	Received      []byte // everything Read returned on this end
	Written       []byte // everything Write accepted on this end
	Closes        int
}

// Pipe returns two connected ends with the given per-direction buffer capacity.
func Pipe(nameA, nameB string, bufCap int) (*Conn, *Conn) {
	w := &waiter{}
	w.init()
	ab := &pipeHalf{cap: bufCap}
	ba := &pipeHalf{cap: bufCap}
	la := &net.TCPAddr{IP: net.IPv4(10, 0, 0, 1), Port: 1001}
	lb := &net.TCPAddr{IP: net.IPv4(10, 0, 0, 2), Port: 1002}
	a := &Conn{Name: nameA, w: w, in: ba, out: ab, local: la, remote: lb}
	b := &Conn{Name: nameB, w: w, in: ab, out: ba, local: lb, remote: la}
	return a, b
}

func (c *Conn) Read(b []byte) (int, error) {
	c.w.lock()
	defer c.w.unlock()
	if len(b) == 0 {
		return 0, nil
	}
	if c.ZeroFirstRead && !c.zeroDone {
		c.zeroDone = true
		return 0, nil
	}
	c.w.wait("net", c.Name+".Read", func() bool {
		return len(c.in.buf) > 0 || c.in.wclosed || c.closed || c.rdl.passed() || (c.ReadErrAfter > 0 && int64(len(c.Received)) >= c.ReadErrAfter)
	})
	if c.closed {
		return 0, net.ErrClosed
	}
	if c.ReadErrAfter > 0 && int64(len(c.Received)) >= c.ReadErrAfter {
		return 0, c.injected()
	}
	if len(c.in.buf) == 0 {
		if c.in.wclosed {
			return 0, io.EOF
		}
		return 0, ErrTimeout
	}
	n := len(c.in.buf)
	if n > len(b) {
		n = len(b)
	}
	if c.ChunkChoice && n > 1 {
		if e := vsched.Cur(); e != nil && e.Choose(2, vsched.KEnv, "short-read") == 1 {
			n = 1
		}
	}
	copy(b, c.in.buf[:n])
	c.in.buf = c.in.buf[n:]
	c.Received = append(c.Received, b[:n]...)
	return n, nil
}

func (c *Conn) injected() error {
	if c.InjectedErr != nil {
		return c.InjectedErr
	}
	return io.ErrUnexpectedEOF
}

func (c *Conn) Write(b []byte) (int, error) {
	c.w.lock()
	defer c.w.unlock()
	written := 0
	for written < len(b) {
		c.w.wait("net", c.Name+".Write", func() bool {
			return len(c.out.buf) < c.out.cap || c.out.rclosed || c.closed || c.wdl.passed()
		})
		if c.closed {
			return written, net.ErrClosed
		}
		if c.out.rclosed {
			return written, io.ErrClosedPipe
		}
		if c.WriteErrAfter > 0 && int64(len(c.Written)) >= c.WriteErrAfter {
			return written, c.injected()
		}
		if len(c.out.buf) >= c.out.cap {
			return written, ErrTimeout
		}
		n := c.out.cap - len(c.out.buf)
		if n > len(b)-written {
			n = len(b) - written
		}
		c.out.buf = append(c.out.buf, b[written:written+n]...)
		c.out.total += int64(n)
		c.Written = append(c.Written, b[written:written+n]...)
		written += n
		if vsched.Cur() == nil {
			c.w.cond.Broadcast()
		}
	}
	if len(b) == 0 {
		if e := vsched.Cur(); e != nil {
			e.Point("net", nil, c.Name+".Write0")
		}
	}
	return written, nil
}

func (c *Conn) Close() error {
	c.w.lock()
	defer c.w.unlock()
	if e := vsched.Cur(); e != nil {
		e.Point("net", nil, c.Name+".Close")
	}
	c.Closes++
	if c.closed {
		return net.ErrClosed
	}
	c.closed = true
	c.out.wclosed = true
	c.in.rclosed = true
	return nil
}

// CloseWrite half-closes the write side (peer reads EOF after draining).
func (c *Conn) CloseWrite() error {
	c.w.lock()
	defer c.w.unlock()
	c.out.wclosed = true
	return nil
}

func (c *Conn) IsClosed() bool       { return c.closed }
func (c *Conn) LocalAddr() net.Addr  { return c.local }
func (c *Conn) RemoteAddr() net.Addr { return c.remote }
func (c *Conn) SetDeadline(t time.Time) error {
	c.w.lock()
	defer c.w.unlock()
	c.rdl.set(t)
	c.wdl.set(t)
	return nil
}
func (c *Conn) SetReadDeadline(t time.Time) error {
	c.w.lock()
	defer c.w.unlock()
	c.rdl.set(t)
	return nil
}
func (c *Conn) SetWriteDeadline(t time.Time) error {
	c.w.lock()
	defer c.w.unlock()
	c.wdl.set(t)
	return nil
}

// ---------------------------------------------------------------------------------------------

// Listener is an in-memory net.Listener fed by Deliver.
type Listener struct {
	Name    string
	w       waiter
	queue   []net.Conn
	closed  bool
	AddrV   net.Addr
	err     error
	Closes  int
	Accepts int
}

func NewListener(name string) *Listener {
	return &Listener{Name: name, AddrV: &net.TCPAddr{IP: net.IPv4(127, 0, 0, 1), Port: 1080}}
}

// Deliver queues an incoming connection (environment side).
func (l *Listener) Deliver(c net.Conn) {
	l.w.lock()
	defer l.w.unlock()
	l.queue = append(l.queue, c)
}

// Fail makes the next Accept return err.
func (l *Listener) Fail(err error) {
	l.w.lock()
	defer l.w.unlock()
	l.err = err
}

func (l *Listener) Accept() (net.Conn, error) {
	l.w.lock()
	defer l.w.unlock()
	l.w.wait("net", l.Name+".Accept", func() bool { return len(l.queue) > 0 || l.closed || l.err != nil })
	if l.err != nil {
		err := l.err
		l.err = nil
		return nil, err
	}
	if l.closed {
		return nil, net.ErrClosed
	}
	c := l.queue[0]
	l.queue = l.queue[1:]
	l.Accepts++
	return c, nil
}

func (l *Listener) Close() error {
	l.w.lock()
	defer l.w.unlock()
	if e := vsched.Cur(); e != nil {
		e.Point("net", nil, l.Name+".Close")
	}
	l.Closes++
	if l.closed {
		return net.ErrClosed
	}
	l.closed = true
	return nil
}

func (l *Listener) Addr() net.Addr { return l.AddrV }
func (l *Listener) IsClosed() bool { return l.closed }
