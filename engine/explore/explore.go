// Package explore is the stateless depth-first explorer with iterative preemption (P) and
// environment-deviation (E) bounding over vsched executions. An execution is identified by its
// choice sequence; run(prefix) replays the prefix (any mismatch is a hard divergence error) and
// takes option 0 afterwards.
package explore

import (
	"crypto/sha256"
	"encoding/binary"
	"fmt"
	"os"
	"strings"
	"time"

	"verif.local/engine/evidence"
	"verif.local/engine/vsched"
)

// Bounds of one exploration.
type Bounds struct {
	// P bounds scheduling deviations. By default EVERY scheduling decision other than the
	// default one costs 1 (default = keep running the current thread; when it blocks or ends, run
	// the enabled thread with the lowest id; the virtual clock last) - "delay bounding". With
	// FreeSwitch only preemptions (switching away from a still enabled thread, or letting a
	// timer fire while threads are runnable) cost 1 and the choice of the successor of a blocked
	// thread is free - classic preemption bounding, feasible only for small harnesses.
	P, E       int
	FreeSwitch bool
	MaxExec    int64 // cap on executions per level (0 = none)
}

// Scenario is a closed harness: Body runs as thread 0 and reports oracle failures with e.Fail.
type Scenario struct {
	Name     string
	Quick    Bounds
	Thorough Bounds
	Opt      vsched.Options
	Body     func(e *vsched.Exec)
	// LeakOK: threads still alive when Body returns are not a violation.
	LeakOK bool
	// DeadlockOK etc. are never OK.
	// Sig reduces a violation to its specific signature (default: kind + first line of detail).
	Sig func(o *vsched.Outcome) string
	// OnlyKinds: when set, only outcomes of these kinds ("panic", "deadlock", ...) are violations of
	// the property this scenario list is run for (a scenario list shared between two properties:
	// C03 runs C07's session scenarios and cares about crashes only).
	OnlyKinds []string
	// Skip shards the scenario list itself: scenario i runs everywhere but explores sharded subtrees.
}

type step struct {
	Pick, N int
	Kind    vsched.ChoiceKind
}

type chooser struct {
	prefix   []step
	pos      int
	diverged string
}

func (c *chooser) Choose(ch *vsched.Choice) int {
	i := c.pos
	c.pos++
	if i < len(c.prefix) {
		s := c.prefix[i]
		if s.N != ch.N || s.Kind != ch.Kind {
			if c.diverged == "" {
				c.diverged = fmt.Sprintf("choice %d: recorded kind=%d n=%d, now kind=%d n=%d tag=%s", i, s.Kind, s.N, ch.Kind, ch.N, ch.Tag)
			}
			if s.Pick < ch.N {
				return s.Pick
			}
			return 0
		}
		return s.Pick
	}
	return 0
}

// Replay is the artefact written for a violation.
type Replay struct {
	Scenario string   `json:"scenario"`
	Picks    []int    `json:"picks"`
	Ns       []int    `json:"ns"`
	Kinds    []int    `json:"kinds"`
	Outcome  string   `json:"outcome"`
	Detail   string   `json:"detail"`
	Stack    string   `json:"stack,omitempty"`
	Leaked   []string `json:"leaked,omitempty"`
	Log      []string `json:"log"`
}

type explorer struct {
	sc      *Scenario
	sh      *evidence.Shard
	part    *evidence.Part
	b       Bounds
	execs   int64
	counted int64
	points  int64
	maxThr  int
	sub     int64
	capped  bool
	stop    bool
	viol    int
}

func sigHash(o *vsched.Outcome) uint64 {
	h := sha256.New()
	h.Write([]byte(o.Kind))
	h.Write([]byte{0})
	h.Write([]byte(o.Detail))
	for _, l := range o.Log {
		h.Write([]byte{0})
		h.Write([]byte(l))
	}
	for _, l := range o.Leaked {
		h.Write([]byte{1})
		h.Write([]byte(l))
	}
	return binary.LittleEndian.Uint64(h.Sum(nil)[:8])
}

func (x *explorer) run(prefix []step) (*vsched.Outcome, string) {
	c := &chooser{prefix: prefix}
	o := vsched.Run(c, x.sc.Opt, func() { x.sc.Body(vsched.Cur()) })
	if c.diverged == "" && c.pos < len(prefix) {
		c.diverged = fmt.Sprintf("execution ended after %d choices, prefix has %d", c.pos, len(prefix))
	}
	return o, c.diverged
}

func cost(c *vsched.Choice, alt int, freeSwitch bool) (p, e int) {
	if alt == 0 {
		return 0, 0
	}
	switch c.Kind {
	case vsched.KSched:
		if alt == c.Clk || c.Cur || !freeSwitch {
			return 1, 0
		}
		return 0, 0
	case vsched.KEnv:
		return 0, 1
	}
	return 0, 0
}

func (x *explorer) isViolation(o *vsched.Outcome) bool {
	if len(x.sc.OnlyKinds) > 0 {
		for _, k := range x.sc.OnlyKinds {
			if o.Kind == k {
				return true
			}
		}
		return false
	}
	if o.Kind != "ok" {
		return true
	}
	return len(o.Leaked) > 0 && !x.sc.LeakOK
}

func defaultSig(o *vsched.Outcome) string {
	d := o.Detail
	if i := strings.IndexByte(d, '\n'); i >= 0 {
		d = d[:i]
	}
	if o.Kind == "ok" && len(o.Leaked) > 0 {
		return "leak:" + strings.Join(o.Leaked, "|")
	}
	if o.Kind == "panic" {
		// first frame outside the runtime/engine identifies the site
		for _, l := range strings.Split(o.Stack, "\n") {
			l = strings.TrimSpace(l)
			if strings.HasPrefix(l, "/") && !strings.Contains(l, "/verif/engine/") && !strings.Contains(l, "/go/src/") && !strings.Contains(l, "/golang.org/toolchain") {
				if j := strings.Index(l, " +0x"); j >= 0 {
					l = l[:j]
				}
				return "panic:" + d + "@" + l
			}
		}
	}
	return o.Kind + ":" + d
}

func (x *explorer) report(o *vsched.Outcome, steps []step) {
	// determinism guard: the same choice sequence must fail identically 5 times
	want := sigHash(o)
	for i := 0; i < 5; i++ {
		o2, div := x.run(steps)
		if div != "" || sigHash(o2) != want {
			x.sh.InfraError("scenario %s: violation does not reproduce deterministically (replay %d: %s)", x.sc.Name, i, div)
			x.stop = true
			return
		}
	}
	sig := defaultSig(o)
	if x.sc.Sig != nil {
		sig = x.sc.Sig(o)
	}
	r := Replay{Scenario: x.sc.Name, Outcome: o.Kind, Detail: o.Detail, Stack: o.Stack, Leaked: o.Leaked, Log: o.Log}
	for _, s := range steps {
		r.Picks = append(r.Picks, s.Pick)
		r.Ns = append(r.Ns, s.N)
		r.Kinds = append(r.Kinds, int(s.Kind))
	}
	x.sh.Violate(x.sc.Name, x.sc.Name+"/"+sig, o.Kind+": "+o.Detail, r)
	x.viol++
	if x.viol >= 8 {
		x.stop = true
	}
}

func (x *explorer) explore(prefix []step, depth int) {
	if x.stop {
		return
	}
	env := x.sh.Env()
	mine := true
	if depth == 2 {
		idx := x.sub
		x.sub++
		if !env.Mine(idx) {
			return
		}
	} else if depth < 2 {
		mine = env.Shard == 0
	}
	if x.execs&63 == 0 && env.Expired() {
		x.capped, x.stop = true, true
		x.part.Note("deadline reached at P=%d E=%d after %d executions", x.b.P, x.b.E, x.execs)
		return
	}
	if x.b.MaxExec > 0 && x.execs >= x.b.MaxExec {
		if !x.capped {
			x.part.Note("execution cap %d reached at P=%d E=%d", x.b.MaxExec, x.b.P, x.b.E)
		}
		x.capped = true
		return
	}
	o, div := x.run(prefix)
	x.execs++
	if div != "" {
		x.sh.InfraError("scenario %s: divergence replaying prefix: %s", x.sc.Name, div)
		x.stop = true
		return
	}
	steps := make([]step, len(o.Choices))
	for i, c := range o.Choices {
		steps[i] = step{c.Pick, c.N, c.Kind}
	}
	if mine {
		x.counted++
		x.points += int64(o.Steps)
		if o.Threads > x.maxThr {
			x.maxThr = o.Threads
		}
		if o.Switches > 0 || len(steps) > 0 {
			x.part.ClassHash(sigHash(o))
		}
		if len(x.part.Samples) < 2 && len(prefix) > 0 {
			x.part.Sample(map[string]any{"schedule": deviations(steps), "choice_points": len(steps), "threads": o.Threads, "outcome": o.Kind, "log": trunc(o.Log, 12)})
		}
		if x.isViolation(o) {
			x.report(o, steps)
			return
		}
	}
	up, ue := 0, 0
	for i := range o.Choices {
		c := &o.Choices[i]
		if i >= len(prefix) {
			for alt := 1; alt < c.N; alt++ {
				cp, ce := cost(c, alt, x.b.FreeSwitch)
				if up+cp > x.b.P || ue+ce > x.b.E {
					continue
				}
				np := make([]step, i+1)
				copy(np, steps[:i])
				np[i] = step{alt, c.N, c.Kind}
				x.explore(np, depth+1)
				if x.stop {
					return
				}
			}
		}
		cp, ce := cost(c, c.Pick, x.b.FreeSwitch)
		up += cp
		ue += ce
	}
}

// deviations renders a choice sequence compactly: "choice#i->option" for every non-default pick.
func deviations(s []step) string {
	var sb strings.Builder
	for i, st := range s {
		if st.Pick != 0 {
			fmt.Fprintf(&sb, "#%d->%d/%d ", i, st.Pick, st.N)
		}
	}
	if sb.Len() == 0 {
		return "default schedule"
	}
	return strings.TrimSpace(sb.String())
}

func picks(s []step) []int {
	r := make([]int, len(s))
	for i := range s {
		r[i] = s[i].Pick
	}
	return r
}

func trunc(l []string, n int) []string {
	if len(l) > n {
		return append(append([]string{}, l[:n]...), fmt.Sprintf("... %d more", len(l)-n))
	}
	return l
}

// Run explores every scenario within the tier's bounds and records results in sh.
func Run(sh *evidence.Shard, scs []*Scenario) {
	env := sh.Env()
	only := os.Getenv("VERIF_ONLY")
	for _, sc := range scs {
		if only != "" && !strings.Contains(sc.Name, only) {
			continue
		}
		b := sc.Quick
		if env.Thorough() {
			b = sc.Thorough
		}
		part := sh.Part(sc.Name, "explore")
		t0 := time.Now()
		// determinism guard on the default schedule
		x0 := &explorer{sc: sc, sh: sh, part: part, b: b}
		o1, _ := x0.run(nil)
		o2, _ := x0.run(nil)
		if sigHash(o1) != sigHash(o2) || len(o1.Choices) != len(o2.Choices) {
			sh.InfraError("scenario %s: default schedule is not deterministic", sc.Name)
			continue
		}
		levels := []Bounds{}
		for k := 0; k <= max(b.P, b.E); k++ {
			levels = append(levels, Bounds{P: min(k, b.P), E: min(k, b.E), MaxExec: b.MaxExec, FreeSwitch: b.FreeSwitch})
		}
		var done []string
		var last *explorer
		for _, lv := range levels {
			x := &explorer{sc: sc, sh: sh, part: part, b: lv}
			x.explore(nil, 0)
			last = x
			if x.capped || x.stop {
				part.Exhaustive = false
				if !x.capped {
					break
				}
				break
			}
			done = append(done, fmt.Sprintf("P=%d,E=%d:%d", lv.P, lv.E, x.counted))
			if x.viol > 0 {
				break
			}
		}
		part.Evaluations += last.counted
		if part.Bounds == nil {
			part.Bounds = map[string]any{}
		}
		part.Bounds["P"] = b.P
		part.Bounds["deviation_rule"] = map[bool]string{true: "preemption bounding (successor of a blocked thread is a free choice)", false: "delay bounding (every non-default scheduling decision costs 1)"}[b.FreeSwitch]
		part.Bounds["E"] = b.E
		part.Bounds["levels_completed(shard-local executions)"] = done
		part.Count("scheduling_steps", last.points)
		part.Count("max_threads", int64(last.maxThr))
		part.Count("ms", time.Since(t0).Milliseconds())
		if sh.NViolations() > 0 && false {
			return
		}
	}
}

// ReplayFile re-executes a recorded violation without exploring; returns the outcome.
func ReplayFile(path string, scs []*Scenario) (*vsched.Outcome, *Replay, error) {
	var r Replay
	if _, err := evidence.LoadReplay(path, &r); err != nil {
		return nil, nil, err
	}
	for _, sc := range scs {
		if sc.Name != r.Scenario {
			continue
		}
		steps := make([]step, len(r.Picks))
		for i := range steps {
			steps[i] = step{r.Picks[i], r.Ns[i], vsched.ChoiceKind(r.Kinds[i])}
		}
		x := &explorer{sc: sc}
		o, div := x.run(steps)
		if div != "" {
			return o, &r, fmt.Errorf("divergence: %s", div)
		}
		return o, &r, nil
	}
	return nil, &r, fmt.Errorf("unknown scenario %q", r.Scenario)
}

// Main is the entry point of an explorer harness test function: it explores (or replays) the
// scenarios according to the environment contract of bin/vcheck and writes the shard result.
func Main(t interface {
	Fatalf(string, ...any)
	Logf(string, ...any)
}, property string, scs []*Scenario) {
	env := evidence.GetEnv(property)
	if env.Replay != "" {
		o, r, err := ReplayFile(env.Replay, scs)
		if r != nil && o == nil {
			fmt.Printf("REPLAY skipped: %v\n", err)
			return
		}
		if err != nil {
			fmt.Printf("REPLAY error: %v\n", err)
			return
		}
		x := &explorer{sc: &Scenario{}}
		for _, sc := range scs {
			if sc.Name == r.Scenario {
				x.sc = sc
			}
		}
		if x.isViolation(o) {
			fmt.Printf("REPLAY reproduced: %s: %s %v\n", o.Kind, o.Detail, o.Leaked)
			for _, l := range o.Log {
				fmt.Printf("REPLAY log: %s\n", l)
			}
			if o.Stack != "" {
				fmt.Printf("REPLAY stack: %s\n", strings.ReplaceAll(o.Stack, "\n", "\nREPLAY stack: "))
			}
		} else {
			fmt.Printf("REPLAY did not reproduce (outcome %s)\n", o.Kind)
		}
		return
	}
	sh := evidence.NewShard(env)
	Run(sh, scs)
	if err := sh.Finish(); err != nil {
		t.Fatalf("writing shard result: %v", err)
	}
	if sh.NViolations() > 0 || len(sh.Infra) > 0 {
		t.Fatalf("violations=%d infra=%v", sh.NViolations(), sh.Infra)
	}
}

// Probe runs the default schedule of every scenario once and returns per-scenario statistics
// (steps, recorded choice points, threads) - used to size bounds.
func Probe(scs []*Scenario) []string {
	var out []string
	for _, sc := range scs {
		x := &explorer{sc: sc}
		o, _ := x.run(nil)
		pre := 0
		for _, c := range o.Choices {
			if c.Kind == vsched.KSched {
				pre += c.N - 1
			}
		}
		out = append(out, fmt.Sprintf("%s: outcome=%s steps=%d choices=%d alternatives=%d threads=%d switches=%d detail=%s", sc.Name, o.Kind, o.Steps, len(o.Choices), pre, o.Threads, o.Switches, o.Detail))
	}
	return out
}

// Determinism runs the default schedule of a scenario twice and describes the first difference.
func Determinism(sc *Scenario) string {
	x := &explorer{sc: sc}
	a, _ := x.run(nil)
	b, _ := x.run(nil)
	if len(a.Choices) != len(b.Choices) {
		for i := 0; i < len(a.Choices) && i < len(b.Choices); i++ {
			if a.Choices[i] != b.Choices[i] {
				return fmt.Sprintf("choice %d differs: %+v vs %+v (lens %d %d)", i, a.Choices[i], b.Choices[i], len(a.Choices), len(b.Choices))
			}
		}
		return fmt.Sprintf("choice counts differ: %d vs %d", len(a.Choices), len(b.Choices))
	}
	for i := range a.Log {
		if i >= len(b.Log) || a.Log[i] != b.Log[i] {
			return fmt.Sprintf("log line %d differs:\n%s\n%s", i, a.Log[i], b.Log[i])
		}
	}
	if a.Kind != b.Kind || a.Detail != b.Detail {
		return fmt.Sprintf("outcome differs: %s/%s vs %s/%s", a.Kind, a.Detail, b.Kind, b.Detail)
	}
	return "deterministic"
}
