package explore

import (
	"os"
	"testing"

	"verif.local/engine/evidence"
	"verif.local/engine/vatomic"
	"verif.local/engine/vchan"
	"verif.local/engine/vsched"
	"verif.local/engine/vsync"
	"verif.local/engine/vtime"
)

func runSc(t *testing.T, sc *Scenario) *evidence.Shard {
	os.Setenv("VERIF_REPLAY_DIR", t.TempDir())
	env := evidence.GetEnv("T00")
	sh := evidence.NewShard(env)
	Run(sh, []*Scenario{sc})
	if len(sh.Infra) > 0 {
		t.Fatalf("infra: %v", sh.Infra)
	}
	return sh
}

func TestLostUpdateFound(t *testing.T) {
	sc := &Scenario{Name: "lost", Quick: Bounds{P: 1}, Body: func(e *vsched.Exec) {
		var x vatomic.Int64
		var wg vsync.WaitGroup
		for i := 0; i < 2; i++ {
			wg.Add(1)
			vsched.Go(func() {
				defer wg.Done()
				v := x.Load()
				x.Store(v + 1)
			})
		}
		wg.Wait()
		if x.Load() != 2 {
			e.Fail("lost update: %d", x.Load())
		}
	}}
	sh := runSc(t, sc)
	if len(sh.Violations) == 0 {
		t.Fatal("lost update not found")
	}
	t.Log(sh.Violations[0].Signature, sh.Parts[0].Evaluations)
	o, _, err := ReplayFile(sh.Violations[0].Replay, []*Scenario{sc})
	if err != nil || o.Kind != "fail" {
		t.Fatalf("replay: %v %v", err, o)
	}
}

func TestMutexHolds(t *testing.T) {
	sc := &Scenario{Name: "mutex", Quick: Bounds{P: 3}, Body: func(e *vsched.Exec) {
		var mu vsync.Mutex
		x := 0
		var wg vsync.WaitGroup
		for i := 0; i < 3; i++ {
			wg.Add(1)
			vsched.Go(func() {
				defer wg.Done()
				mu.Lock()
				v := x
				e.Point("yield", nil, "y")
				x = v + 1
				mu.Unlock()
			})
		}
		wg.Wait()
		if x != 3 {
			e.Fail("x=%d", x)
		}
	}}
	sh := runSc(t, sc)
	if len(sh.Violations) != 0 {
		t.Fatalf("false alarm: %+v", sh.Violations)
	}
	t.Log("execs", sh.Parts[0].Evaluations)
	if sh.Parts[0].Evaluations < 50 {
		t.Fatal("too few executions")
	}
}

func TestDeadlockFound(t *testing.T) {
	sc := &Scenario{Name: "abba", Quick: Bounds{P: 1}, Body: func(e *vsched.Exec) {
		var a, b vsync.Mutex
		var wg vsync.WaitGroup
		wg.Add(2)
		vsched.Go(func() { defer wg.Done(); a.Lock(); b.Lock(); b.Unlock(); a.Unlock() })
		vsched.Go(func() { defer wg.Done(); b.Lock(); a.Lock(); a.Unlock(); b.Unlock() })
		wg.Wait()
	}}
	sh := runSc(t, sc)
	if len(sh.Violations) == 0 || sh.Violations[0].Detail[:8] != "deadlock" {
		t.Fatalf("deadlock not found: %+v", sh.Violations)
	}
}

func TestChannels(t *testing.T) {
	sc := &Scenario{Name: "chan", Quick: Bounds{P: 2}, Body: func(e *vsched.Exec) {
		ch := make(chan int)
		done := make(chan struct{})
		res := make(chan int, 4)
		vsched.Go(func() {
			for i := 1; i <= 3; i++ {
				vchan.Send(ch, i)
			}
			vchan.Close(ch)
		})
		vsched.Go(func() {
			sum := 0
			for {
				v, ok := vchan.Recv2(ch)
				if !ok {
					break
				}
				sum += v
			}
			vchan.Send(res, sum)
			vchan.Close(done)
		})
		tk := vtime.NewTicker(vtime.Second)
		ticks := 0
	loop:
		for {
			switch s := vchan.Select(false, vchan.R(done), vchan.R(tk.C)); s.I {
			case 0:
				break loop
			case 1:
				ticks++
			}
		}
		tk.Stop()
		if v := vchan.Recv(res); v != 6 {
			e.Fail("sum=%d", v)
		}
		e.Logf("ticks=%d", ticks)
	}}
	sh := runSc(t, sc)
	if len(sh.Violations) != 0 {
		t.Fatalf("false alarm: %+v", sh.Violations)
	}
	t.Log("execs", sh.Parts[0].Evaluations, "classes", len(sh.Parts[0].Classes))
}

func TestPanicAndLeak(t *testing.T) {
	sc := &Scenario{Name: "leak", Quick: Bounds{P: 0}, Body: func(e *vsched.Exec) {
		ch := make(chan int)
		vsched.Go(func() { vchan.Recv(ch) })
		e.WaitIdle()
	}}
	sh := runSc(t, sc)
	if len(sh.Violations) != 1 {
		t.Fatalf("leak not reported: %+v", sh.Violations)
	}
	sc2 := &Scenario{Name: "panic", Quick: Bounds{P: 1}, Body: func(e *vsched.Exec) {
		var mu vsync.Mutex
		var m map[int]int
		vsched.Go(func() { mu.Lock(); defer mu.Unlock(); m[1] = 1 })
		mu.Lock()
		mu.Unlock()
		e.WaitIdle()
	}}
	sh = runSc(t, sc2)
	if len(sh.Violations) != 1 {
		t.Fatalf("panic not reported: %+v", sh.Violations)
	}
	t.Log(sh.Violations[0].Signature)
}
