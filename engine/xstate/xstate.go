// Package xstate is an explicit-state breadth-first search over a REAL object's transition
// function. Live objects rarely clone, so a state is represented by the shortest operation
// history reaching it: successor = fresh object + replay(history) + one more operation. The
// harness supplies a canonical key of the property-relevant (private) state for deduplication
// and checks its invariant / reference model inside Apply.
package xstate

import (
	"fmt"

	"verif.local/engine/evidence"
)

// Sys is a fresh system under test plus its reference model.
type Sys[Op any] interface {
	// Apply performs op on the real object and the reference, compares, and returns a non-nil
	// error describing the violated clause if they disagree or an invariant fails.
	Apply(op Op) error
	// Key is the canonical form of the state (sorted, property-relevant fields only).
	Key() string
}

type Config[Op any] struct {
	Ops      []Op
	New      func() Sys[Op]
	MaxDepth int
	// Enabled optionally filters operations in a state (nil = all enabled).
	Enabled func(s Sys[Op], op Op) bool
	// MaxStates caps the search (0 = none); hitting it clears Exhaustive.
	MaxStates int
	// Probe optionally returns observable answers of a state on a probe set; two histories that
	// reach the same key must give the same probe answers (history independence).
	Probe func(s Sys[Op]) string
}

type Result[Op any] struct {
	States, Transitions int64
	Depth               int
	Violation           error
	History             []Op // history reaching the violation (last op is the failing one)
}

// BFS explores all states reachable within MaxDepth operations. It stops at the first violation
// (BFS order => shortest history).
func BFS[Op any](cfg Config[Op], part *evidence.Part, env *evidence.Env) Result[Op] {
	var res Result[Op]
	build := func(h []Op) (Sys[Op], error, int) {
		s := cfg.New()
		for i, op := range h {
			if err := s.Apply(op); err != nil {
				return s, err, i
			}
		}
		return s, nil, -1
	}
	root, _, _ := build(nil)
	seen := map[string]string{root.Key(): ""}
	if cfg.Probe != nil {
		seen[root.Key()] = cfg.Probe(root)
	}
	frontier := [][]Op{nil}
	res.States = 1
	for depth := 0; depth < cfg.MaxDepth && len(frontier) > 0; depth++ {
		var next [][]Op
		for _, h := range frontier {
			if env != nil && res.Transitions&255 == 0 && env.Expired() {
				part.Exhaustive = false
				part.Note("deadline reached at depth %d, %d states", depth, res.States)
				res.Depth = depth
				finish(part, &res)
				return res
			}
			for _, op := range cfg.Ops {
				s, err, _ := build(h)
				if err != nil {
					panic(fmt.Sprintf("xstate: replay of an accepted history failed: %v", err))
				}
				if cfg.Enabled != nil && !cfg.Enabled(s, op) {
					continue
				}
				res.Transitions++
				nh := append(append([]Op{}, h...), op)
				if err := s.Apply(op); err != nil {
					res.Violation, res.History, res.Depth = err, nh, depth+1
					finish(part, &res)
					return res
				}
				k := s.Key()
				pr := ""
				if cfg.Probe != nil {
					pr = cfg.Probe(s)
				}
				if old, ok := seen[k]; ok {
					if cfg.Probe != nil && old != pr {
						res.Violation = fmt.Errorf("history dependence: state %q answers %q after this history but %q after another", k, pr, old)
						res.History, res.Depth = nh, depth+1
						finish(part, &res)
						return res
					}
					continue
				}
				seen[k] = pr
				res.States++
				if len(part.Samples) < 2 && depth >= 1 {
					part.Sample(map[string]any{"history": fmt.Sprint(nh), "state": k})
				}
				if cfg.MaxStates > 0 && int(res.States) >= cfg.MaxStates {
					part.Exhaustive = false
					part.Note("state cap %d reached at depth %d", cfg.MaxStates, depth+1)
					res.Depth = depth + 1
					finish(part, &res)
					return res
				}
				next = append(next, nh)
			}
		}
		frontier = next
		res.Depth = depth + 1
	}
	finish(part, &res)
	return res
}

func finish[Op any](part *evidence.Part, r *Result[Op]) {
	part.States += r.States
	part.Transitions += r.Transitions
	part.ImplTraces += r.Transitions // every transition is executed on the real object
	part.Evaluations += r.Transitions
	part.Count("max_depth", int64(r.Depth))
}
