// Package vsync is a drop-in for the parts of package sync that hysteria uses; under an attached
// execution every acquiring operation is a scheduling point with modelled blocking.
package vsync

import (
	"sync"

	"verif.local/engine/vsched"
)

type Locker = sync.Locker

type Mutex struct {
	real   sync.Mutex
	locked bool
}

func (m *Mutex) Lock() {
	e := vsched.Cur()
	if e == nil {
		m.real.Lock()
		return
	}
	e.Point("lock", func() bool { return !m.locked }, "Mutex.Lock")
	m.locked = true
}

func (m *Mutex) TryLock() bool {
	e := vsched.Cur()
	if e == nil {
		return m.real.TryLock()
	}
	e.Point("lock", nil, "Mutex.TryLock")
	if m.locked {
		return false
	}
	m.locked = true
	return true
}

func (m *Mutex) Unlock() {
	e := vsched.Cur()
	if e == nil {
		m.real.Unlock()
		return
	}
	if !m.locked {
		if e.Aborted() {
			return
		}
		panic("sync: unlock of unlocked mutex")
	}
	m.locked = false
}

type RWMutex struct {
	real    sync.RWMutex
	writer  bool
	readers int
}

func (m *RWMutex) Lock() {
	e := vsched.Cur()
	if e == nil {
		m.real.Lock()
		return
	}
	e.Point("lock", func() bool { return !m.writer && m.readers == 0 }, "RWMutex.Lock")
	m.writer = true
}

func (m *RWMutex) Unlock() {
	e := vsched.Cur()
	if e == nil {
		m.real.Unlock()
		return
	}
	if !m.writer {
		if e.Aborted() {
			return
		}
		panic("sync: Unlock of unlocked RWMutex")
	}
	m.writer = false
}

func (m *RWMutex) RLock() {
	e := vsched.Cur()
	if e == nil {
		m.real.RLock()
		return
	}
	e.Point("lock", func() bool { return !m.writer }, "RWMutex.RLock")
	m.readers++
}

func (m *RWMutex) RUnlock() {
	e := vsched.Cur()
	if e == nil {
		m.real.RUnlock()
		return
	}
	if m.readers <= 0 {
		if e.Aborted() {
			return
		}
		panic("sync: RUnlock of unlocked RWMutex")
	}
	m.readers--
}

func (m *RWMutex) RLocker() Locker { return (*rlocker)(m) }

type rlocker RWMutex

func (r *rlocker) Lock()   { (*RWMutex)(r).RLock() }
func (r *rlocker) Unlock() { (*RWMutex)(r).RUnlock() }

type Once struct {
	real sync.Once
	m    Mutex
	done bool
}

func (o *Once) Do(f func()) {
	e := vsched.Cur()
	if e == nil {
		o.real.Do(f)
		return
	}
	// same semantics as sync.Once: concurrent callers wait until f has returned
	o.m.Lock()
	defer o.m.Unlock()
	if !o.done {
		defer func() { o.done = true }()
		f()
	}
}

type WaitGroup struct {
	real sync.WaitGroup
	n    int
}

func (w *WaitGroup) Add(d int) {
	e := vsched.Cur()
	if e == nil {
		w.real.Add(d)
		return
	}
	if d < 0 {
		e.Point("wg", nil, "WaitGroup.Done")
	}
	w.n += d
	if w.n < 0 {
		if e.Aborted() {
			return
		}
		panic("sync: negative WaitGroup counter")
	}
}

func (w *WaitGroup) Done() { w.Add(-1) }

func (w *WaitGroup) Go(f func()) {
	w.Add(1)
	vsched.Go(func() {
		defer w.Done()
		f()
	})
}

func (w *WaitGroup) Wait() {
	e := vsched.Cur()
	if e == nil {
		w.real.Wait()
		return
	}
	e.Point("wg", func() bool { return w.n == 0 }, "WaitGroup.Wait")
}

// Pool: deterministic LIFO under an execution (no scheduling point: a pool is only an allocator).
type Pool struct {
	New   func() any
	real  sync.Pool
	items []any
}

func (p *Pool) Get() any {
	e := vsched.Cur()
	if e == nil {
		if p.real.New == nil && p.New != nil {
			p.real.New = p.New
		}
		return p.real.Get()
	}
	if n := len(p.items); n > 0 {
		x := p.items[n-1]
		p.items = p.items[:n-1]
		return x
	}
	if p.New != nil {
		return p.New()
	}
	return nil
}

func (p *Pool) Put(x any) {
	e := vsched.Cur()
	if e == nil {
		p.real.Put(x)
		return
	}
	if len(p.items) < 8 {
		p.items = append(p.items, x)
	}
}

func OnceFunc(f func()) func() {
	var o Once
	return func() { o.Do(f) }
}
