// Package vsync is a drop-in for the parts of package sync that hysteria uses; under an attached
// execution every acquiring operation is a scheduling point with modelled blocking.
package vsync

import (
	"sync"

	"verif.local/engine/vsched"
)

type Locker = sync.Locker

type Mutex struct {
	real   sync.Mutex
	locked bool
}

func (m *Mutex) Lock() {
	e := vsched.Cur()
	if e == nil {
		m.real.Lock()
		return
	}
	e.Point("lock", func() bool { return !m.locked }, "Mutex.Lock")
	m.locked = true
}

func (m *Mutex) TryLock() bool {
	e := vsched.Cur()
	if e == nil {
		return m.real.TryLock()
	}
	e.Point("lock", nil, "Mutex.TryLock")
	if m.locked {
		return false
	}
	m.locked = true
	return true
}

func (m *Mutex) Unlock() {
	e := vsched.Cur()
	if e == nil {
		m.real.Unlock()
		return
	}
	if !m.locked {
		if e.Aborted() {
			return
		}
		panic("sync: unlock of unlocked mutex")
	}
	m.locked = false
}

type RWMutex struct {
	real    sync.RWMutex
	writer  bool
	readers int
}

func (m *RWMutex) Lock() {
	e := vsched.Cur()
	if e == nil {
		m.real.Lock()
		return
	}
	e.Point("lock", func() bool { return !m.writer && m.readers == 0 }, "RWMutex.Lock")
	m.writer = true
}

func (m *RWMutex) Unlock() {
	e := vsched.Cur()
	if e == nil {
		m.real.Unlock()
		return
	}
	if !m.writer {
		if e.Aborted() {
			return
		}
		panic("sync: Unlock of unlocked RWMutex")
	}
	m.writer = false
}

func (m *RWMutex) RLock() {
	e := vsched.Cur()
	if e == nil {
		m.real.RLock()
		return
	}
	e.Point("lock", func() bool { return !m.writer }, "RWMutex.RLock")
	m.readers++
}

func (m *RWMutex) RUnlock() {
	e := vsched.Cur()
	if e == nil {
		m.real.RUnlock()
		return
	}
	if m.readers <= 0 {
		if e.Aborted() {
			return
		}
		panic("sync: RUnlock of unlocked RWMutex")
	}
	m.readers--
}

func (m *RWMutex) RLocker() Locker { return (*rlocker)(m) }

type rlocker RWMutex

func (r *rlocker) Lock()   { (*RWMutex)(r).RLock() }
func (r *rlocker) Unlock() { (*RWMutex)(r).RUnlock() }

type Once struct {
	real sync.Once
	m    Mutex
	done bool
}

func (o *Once) Do(f func()) {
	e := vsched.Cur()
	if e == nil {
		o.real.Do(f)
		return
	}
	// same semantics as sync.Once: concurrent callers wait until f has returned
	o.m.Lock()
	defer o.m.Unlock()
	if !o.done {
		defer func() { o.done = true }()
		f()
	}
}

type WaitGroup struct {
	real sync.WaitGroup
	n    int
}

func (w *WaitGroup) Add(d int) {
	e := vsched.Cur()
	if e == nil {
		w.real.Add(d)
		return
	}
	if d < 0 {
		e.Point("wg", nil, "WaitGroup.Done")
	}
	w.n += d
	if w.n < 0 {
		if e.Aborted() {
			return
		}
		panic("sync: negative WaitGroup counter")
	}
}

func (w *WaitGroup) Done() { w.Add(-1) }

func (w *WaitGroup) Go(f func()) {
	w.Add(1)
	vsched.Go(func() {
		defer w.Done()
		f()
	})
}

func (w *WaitGroup) Wait() {
	e := vsched.Cur()
	if e == nil {
		w.real.Wait()
		return
	}
	e.Point("wg", func() bool { return w.n == 0 }, "WaitGroup.Wait")
}

// Pool: deterministic LIFO under an execution (no scheduling point: a pool is only an allocator).
type Pool struct {
	New   func() any
	real  sync.Pool
	items []any
}

func (p *Pool) Get() any {
	e := vsched.Cur()
	if e == nil {
		if p.real.New == nil && p.New != nil {
			p.real.New = p.New
		}
		return p.real.Get()
	}
	if n := len(p.items); n > 0 {
		x := p.items[n-1]
		p.items = p.items[:n-1]
		return x
	}
	if p.New != nil {
		return p.New()
	}
	return nil
}

func (p *Pool) Put(x any) {
	e := vsched.Cur()
	if e == nil {
		p.real.Put(x)
		return
	}
	if len(p.items) < 8 {
		p.items = append(p.items, x)
	}
}

func OnceFunc(f func()) func() {
	var o Once
	return func() { o.Do(f) }
}

// Map: sync.Map. Under an execution every operation is a scheduling point (each is atomic, as in
// the real type); iteration order of Range is insertion order (deterministic).
type Map struct {
	real sync.Map
	keys []any
	vals map[any]any
}

func (m *Map) point(e *vsched.Exec, op string) {
	e.Point("atomic", nil, "Map."+op)
	if m.vals == nil {
		m.vals = map[any]any{}
	}
}

func (m *Map) Load(key any) (value any, ok bool) {
	e := vsched.Cur()
	if e == nil {
		return m.real.Load(key)
	}
	m.point(e, "Load")
	value, ok = m.vals[key]
	return
}

func (m *Map) Store(key, value any) {
	e := vsched.Cur()
	if e == nil {
		m.real.Store(key, value)
		return
	}
	m.point(e, "Store")
	if _, ok := m.vals[key]; !ok {
		m.keys = append(m.keys, key)
	}
	m.vals[key] = value
}

func (m *Map) LoadOrStore(key, value any) (actual any, loaded bool) {
	e := vsched.Cur()
	if e == nil {
		return m.real.LoadOrStore(key, value)
	}
	m.point(e, "LoadOrStore")
	if v, ok := m.vals[key]; ok {
		return v, true
	}
	m.keys = append(m.keys, key)
	m.vals[key] = value
	return value, false
}

func (m *Map) del(key any) {
	delete(m.vals, key)
	for i, k := range m.keys {
		if k == key {
			m.keys = append(m.keys[:i:i], m.keys[i+1:]...)
			break
		}
	}
}

func (m *Map) LoadAndDelete(key any) (value any, loaded bool) {
	e := vsched.Cur()
	if e == nil {
		return m.real.LoadAndDelete(key)
	}
	m.point(e, "LoadAndDelete")
	value, loaded = m.vals[key]
	if loaded {
		m.del(key)
	}
	return
}

func (m *Map) Delete(key any) { m.LoadAndDelete(key) }

func (m *Map) Swap(key, value any) (previous any, loaded bool) {
	e := vsched.Cur()
	if e == nil {
		return m.real.Swap(key, value)
	}
	m.point(e, "Swap")
	previous, loaded = m.vals[key]
	if !loaded {
		m.keys = append(m.keys, key)
	}
	m.vals[key] = value
	return
}

func (m *Map) CompareAndSwap(key, old, new any) bool {
	e := vsched.Cur()
	if e == nil {
		return m.real.CompareAndSwap(key, old, new)
	}
	m.point(e, "CompareAndSwap")
	if v, ok := m.vals[key]; ok && v == old {
		m.vals[key] = new
		return true
	}
	return false
}

func (m *Map) CompareAndDelete(key, old any) bool {
	e := vsched.Cur()
	if e == nil {
		return m.real.CompareAndDelete(key, old)
	}
	m.point(e, "CompareAndDelete")
	if v, ok := m.vals[key]; ok && v == old {
		m.del(key)
		return true
	}
	return false
}

func (m *Map) Range(f func(key, value any) bool) {
	e := vsched.Cur()
	if e == nil {
		m.real.Range(f)
		return
	}
	m.point(e, "Range")
	for _, k := range append([]any(nil), m.keys...) {
		v, ok := m.vals[k]
		if !ok {
			continue
		}
		if !f(k, v) {
			return
		}
	}
}

func (m *Map) Clear() {
	e := vsched.Cur()
	if e == nil {
		m.real.Clear()
		return
	}
	m.point(e, "Clear")
	m.keys, m.vals = nil, map[any]any{}
}

// Cond: sync.Cond. Wait releases L, blocks until a Signal/Broadcast issued after it started
// waiting, and re-acquires L.
type Cond struct {
	L       Locker
	real    *sync.Cond
	seq     int64 // broadcasts so far
	tickets []*int64
}

func NewCond(l Locker) *Cond { return &Cond{L: l} }

func (c *Cond) realCond() *sync.Cond {
	if c.real == nil {
		c.real = sync.NewCond(c.L)
	}
	return c.real
}

func (c *Cond) Wait() {
	e := vsched.Cur()
	if e == nil {
		c.realCond().Wait()
		return
	}
	woken := new(int64)
	c.tickets = append(c.tickets, woken)
	c.L.Unlock()
	e.Point("cond", func() bool { return *woken != 0 }, "Cond.Wait")
	c.L.Lock()
}

func (c *Cond) Signal() {
	e := vsched.Cur()
	if e == nil {
		c.realCond().Signal()
		return
	}
	e.Point("cond", nil, "Cond.Signal")
	if len(c.tickets) > 0 {
		*c.tickets[0] = 1
		c.tickets = c.tickets[1:]
	}
}

func (c *Cond) Broadcast() {
	e := vsched.Cur()
	if e == nil {
		c.realCond().Broadcast()
		return
	}
	e.Point("cond", nil, "Cond.Broadcast")
	for _, t := range c.tickets {
		*t = 1
	}
	c.tickets = nil
}

// OnceValue / OnceValues: as in package sync, built on Once.

func OnceValue[T any](f func() T) func() T {
	var o Once
	var v T
	return func() T {
		o.Do(func() { v = f() })
		return v
	}
}

func OnceValues[T1, T2 any](f func() (T1, T2)) func() (T1, T2) {
	var o Once
	var a T1
	var b T2
	return func() (T1, T2) {
		o.Do(func() { a, b = f() })
		return a, b
	}
}
