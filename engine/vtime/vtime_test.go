package vtime_test

import (
	"testing"

	"verif.local/engine/vsched"
	"verif.local/engine/vsync"
	"verif.local/engine/vtime"
)

// A self-rearming AfterFunc timer (Reset from inside its own callback) fires once per period,
// and Stop from outside ends it.
func TestAfterFuncSelfRearm(t *testing.T) {
	var fired []int64
	o := vsched.RunDefault(vsched.Options{}, func(e *vsched.Exec) {
		var mu vsync.Mutex
		var tm *vtime.Timer
		f := func() {
			mu.Lock()
			tm.Reset(vtime.Second)
			fired = append(fired, e.Now())
			mu.Unlock()
		}
		mu.Lock()
		tm = vtime.AfterFunc(vtime.Second, f)
		mu.Unlock()
		vtime.Sleep(3500 * vtime.Millisecond)
		mu.Lock()
		tm.Stop()
		mu.Unlock()
		vtime.Sleep(3 * vtime.Second)
	})
	if o.Kind != "ok" {
		t.Fatalf("outcome %s: %s", o.Kind, o.Detail)
	}
	if len(fired) != 3 || fired[0] != int64(vtime.Second) || fired[2] != 3*int64(vtime.Second) {
		t.Fatalf("fired at %v, want 1s 2s 3s", fired)
	}
}
