// Package vtime is a drop-in for package time whose clock, sleeps, timers and tickers are virtual
// under an attached execution (pass-through otherwise). Every type and constant is an alias of
// the real one so values flow freely into uninstrumented code.
package vtime

import (
	"time"

	"verif.local/engine/vchan"
	"verif.local/engine/vsched"
)

type (
	Time       = time.Time
	Duration   = time.Duration
	Month      = time.Month
	Weekday    = time.Weekday
	Location   = time.Location
	ParseError = time.ParseError
)

const (
	Nanosecond  = time.Nanosecond
	Microsecond = time.Microsecond
	Millisecond = time.Millisecond
	Second      = time.Second
	Minute      = time.Minute
	Hour        = time.Hour

	RFC3339     = time.RFC3339
	RFC3339Nano = time.RFC3339Nano
	RFC1123     = time.RFC1123
	Kitchen     = time.Kitchen
	DateTime    = time.DateTime
)

var (
	UTC   = time.UTC
	Local = time.Local
)

func Unix(s, ns int64) Time   { return time.Unix(s, ns) }
func UnixMilli(ms int64) Time { return time.UnixMilli(ms) }
func Date(y int, m Month, d, h, mi, s, ns int, l *Location) Time {
	return time.Date(y, m, d, h, mi, s, ns, l)
}
func ParseDuration(s string) (Duration, error) { return time.ParseDuration(s) }
func Parse(l, v string) (Time, error)          { return time.Parse(l, v) }

// Epoch is virtual time zero.
var Epoch = time.Date(2026, 1, 1, 0, 0, 0, 0, time.UTC)

func Now() Time {
	e := vsched.Cur()
	if e == nil {
		return time.Now()
	}
	return Epoch.Add(time.Duration(e.Now()))
}

func Since(t Time) Duration { return Now().Sub(t) }
func Until(t Time) Duration { return t.Sub(Now()) }

func Sleep(d Duration) {
	e := vsched.Cur()
	if e == nil {
		time.Sleep(d)
		return
	}
	e.Sleep(int64(d))
}

type Timer struct {
	C    <-chan Time
	c    chan Time
	r    *time.Timer
	e    *vsched.Exec
	h    vsched.TimerHandle
	f    func()
	live bool
}

func (t *Timer) arm(d Duration) {
	if d < 0 {
		d = 0
	}
	t.live = true
	t.h = t.e.AddTimer(t.e.Now()+int64(d), func() {
		t.live = false
		if t.f != nil {
			t.e.Spawn("AfterFunc", t.f)
			return
		}
		vchan.TrySend(t.e, t.c, Epoch.Add(time.Duration(t.e.Now())))
	})
}

func NewTimer(d Duration) *Timer {
	e := vsched.Cur()
	if e == nil {
		r := time.NewTimer(d)
		return &Timer{C: r.C, r: r}
	}
	c := make(chan Time, 1)
	t := &Timer{C: c, c: c, e: e}
	t.arm(d)
	return t
}

func AfterFunc(d Duration, f func()) *Timer {
	e := vsched.Cur()
	if e == nil {
		return &Timer{r: time.AfterFunc(d, f)}
	}
	t := &Timer{e: e, f: f}
	t.arm(d)
	return t
}

func After(d Duration) <-chan Time { return NewTimer(d).C }

func (t *Timer) Stop() bool {
	if t.r != nil {
		return t.r.Stop()
	}
	t.e.Point("timer", nil, "Timer.Stop")
	was := t.live
	if was {
		t.e.StopTimer(t.h)
		t.live = false
	}
	if t.c != nil {
		vchan.Drain(t.e, t.c) // Go 1.23+ semantics: no stale value after Stop
	}
	return was
}

func (t *Timer) Reset(d Duration) bool {
	if t.r != nil {
		return t.r.Reset(d)
	}
	t.e.Point("timer", nil, "Timer.Reset")
	was := t.live
	if was {
		t.e.StopTimer(t.h)
	}
	if t.c != nil {
		vchan.Drain(t.e, t.c)
	}
	t.arm(d)
	return was
}

type Ticker struct {
	C    <-chan Time
	c    chan Time
	r    *time.Ticker
	e    *vsched.Exec
	h    vsched.TimerHandle
	d    Duration
	live bool
}

func (t *Ticker) arm() {
	t.live = true
	t.h = t.e.AddTimer(t.e.Now()+int64(t.d), func() {
		vchan.TrySend(t.e, t.c, Epoch.Add(time.Duration(t.e.Now())))
		if t.live {
			t.arm()
		}
	})
}

func NewTicker(d Duration) *Ticker {
	if d <= 0 {
		panic("non-positive interval for NewTicker")
	}
	e := vsched.Cur()
	if e == nil {
		r := time.NewTicker(d)
		return &Ticker{C: r.C, r: r}
	}
	c := make(chan Time, 1)
	t := &Ticker{C: c, c: c, e: e, d: d}
	t.arm()
	return t
}

func (t *Ticker) Stop() {
	if t.r != nil {
		t.r.Stop()
		return
	}
	if t.live {
		t.e.StopTimer(t.h)
		t.live = false
	}
}

func (t *Ticker) Reset(d Duration) {
	if t.r != nil {
		t.r.Reset(d)
		return
	}
	if t.live {
		t.e.StopTimer(t.h)
	}
	t.d = d
	t.arm()
}

func Tick(d Duration) <-chan Time { return NewTicker(d).C }
