// Package vchan models Go channel operations under the controlled scheduler. Channel values and
// types stay untouched in the code under test; only the operations are rewritten to these
// helpers. Under an execution the real channel is used only as an identity into a per-execution
// table implementing Go's semantics (capacity, FIFO buffer, rendezvous, close, nil channels,
// select among ready cases as an explorer choice). In pass-through mode the real operation is
// performed.
package vchan

import (
	"fmt"
	"reflect"

	"verif.local/engine/vsched"
)

type chanState struct {
	ref    any // keeps the real channel alive so its address is not reused within the execution
	cap    int
	buf    []any
	closed bool
}

type tableKey struct{}

type table struct{ m map[uintptr]*chanState }

func tbl(e *vsched.Exec) *table {
	return vsched.Local(e, tableKey{}, func() *table { return &table{m: map[uintptr]*chanState{}} })
}

func state(e *vsched.Exec, ch any) *chanState {
	v := reflect.ValueOf(ch)
	if v.Kind() != reflect.Chan {
		panic(fmt.Sprintf("vchan: not a channel: %T", ch))
	}
	if v.IsNil() {
		return nil
	}
	p := v.Pointer()
	t := tbl(e)
	s := t.m[p]
	if s == nil {
		s = &chanState{ref: ch, cap: v.Cap()}
		t.m[p] = s
	}
	return s
}

// Case is one select arm.
type Case struct {
	ch   any
	send bool
	val  any
}

// R is a receive arm, S a send arm.
func R[C any](ch C) Case        { return Case{ch: ch} }
func S[C any](ch C, v any) Case { return Case{ch: ch, send: true, val: v} }

// Sel is the result of Select.
type Sel struct {
	I  int // chosen arm, -1 for default
	v  any
	ok bool
}

type pendingOp struct {
	st   *chanState
	send bool
	val  any
}

type pending struct {
	ops []pendingOp
}

func partner(e *vsched.Exec, self *vsched.Thread, st *chanState, wantSend bool) (*vsched.Thread, int) {
	var best *vsched.Thread
	bi := -1
	for _, u := range e.Threads() {
		if u == self || u.ChanDone {
			continue
		}
		p, _ := u.ChanOps.(*pending)
		if p == nil {
			continue
		}
		for i, op := range p.ops {
			if op.st == st && op.send == wantSend {
				if best == nil || u.PendSeq < best.PendSeq {
					best, bi = u, i
				}
				break
			}
		}
	}
	return best, bi
}

func ready(e *vsched.Exec, self *vsched.Thread, op pendingOp) bool {
	st := op.st
	if st == nil {
		return false
	}
	if op.send {
		if st.closed || len(st.buf) < st.cap {
			return true
		}
		if st.cap == 0 {
			p, _ := partner(e, self, st, false)
			return p != nil
		}
		return false
	}
	if len(st.buf) > 0 || st.closed {
		return true
	}
	p, _ := partner(e, self, st, true)
	return p != nil
}

// perform executes op for the running thread; the op must be ready.
func perform(e *vsched.Exec, self *vsched.Thread, op pendingOp) (any, bool) {
	st := op.st
	if op.send {
		if st.closed {
			panic("send on closed channel")
		}
		if p, i := partner(e, self, st, false); p != nil && len(st.buf) == 0 {
			// hand over directly to a waiting receiver
			p.ChanDone = true
			p.ChanRes = Sel{I: i, v: op.val, ok: true}
			return nil, true
		}
		st.buf = append(st.buf, op.val)
		return nil, true
	}
	if len(st.buf) > 0 {
		v := st.buf[0]
		st.buf = st.buf[1:]
		// a sender blocked on the full buffer can now proceed by itself (it becomes enabled)
		return v, true
	}
	if p, i := partner(e, self, st, true); p != nil {
		pp := p.ChanOps.(*pending)
		v := pp.ops[i].val
		if st.closed {
			// sender will panic when it runs; receiver sees closed
			return nil, false
		}
		p.ChanDone = true
		p.ChanRes = Sel{I: i}
		return v, true
	}
	if st.closed {
		return nil, false
	}
	panic("vchan: perform on non-ready op")
}

func selectOps(e *vsched.Exec, hasDefault bool, ops []pendingOp, desc string) Sel {
	self := e.Current()
	if e.Aborted() {
		for i, op := range ops {
			if ready(e, self, op) {
				v, ok := perform(e, self, op)
				return Sel{I: i, v: v, ok: ok}
			}
		}
		if hasDefault {
			return Sel{I: -1}
		}
		e.Point("chan", func() bool { return false }, desc) // unwinds
	}
	pd := &pending{ops: ops}
	anyReady := func() bool {
		if self.ChanDone {
			return true
		}
		for _, op := range ops {
			if ready(e, self, op) {
				return true
			}
		}
		return false
	}
	self.ChanOps, self.ChanDone = pd, false
	if hasDefault {
		// never blocks: the point itself is the scheduling point
		self.ChanOps = nil
		e.Point("chan", nil, desc)
	} else {
		e.Point("chan", anyReady, desc)
	}
	self.ChanOps = nil
	if self.ChanDone {
		self.ChanDone = false
		r := self.ChanRes.(Sel)
		self.ChanRes = nil
		return r
	}
	var rd []int
	for i, op := range ops {
		if ready(e, self, op) {
			rd = append(rd, i)
		}
	}
	if len(rd) == 0 {
		if hasDefault {
			return Sel{I: -1}
		}
		panic("vchan: scheduled with no ready case")
	}
	k := 0
	if len(rd) > 1 {
		k = e.Choose(len(rd), vsched.KFree, "select")
	}
	i := rd[k]
	v, ok := perform(e, self, ops[i])
	return Sel{I: i, v: v, ok: ok}
}

func conv[T any](v any) T {
	if v == nil {
		var z T
		return z
	}
	if t, ok := v.(T); ok {
		return t
	}
	// e.g. an untyped constant sent as int to a chan of int64, or a named type
	return reflect.ValueOf(v).Convert(reflect.TypeFor[T]()).Interface().(T)
}

// Send performs ch <- v.
func Send[C any](ch C, v any) {
	e := vsched.Cur()
	if e == nil {
		cv := reflect.ValueOf(ch)
		et := cv.Type().Elem()
		sv := reflect.ValueOf(v)
		if !sv.IsValid() {
			sv = reflect.Zero(et)
		} else if sv.Type() != et {
			sv = sv.Convert(et)
		}
		cv.Send(sv)
		return
	}
	if st := state(e, ch); st == nil {
		e.Point("chan", func() bool { return false }, "send on nil chan")
	} else {
		selectOps(e, false, []pendingOp{{st: st, send: true, val: v}}, "chan send")
	}
}

// Recv performs <-ch.
func Recv[T any, C ~chan T | ~<-chan T](ch C) T {
	v, _ := Recv2[T](ch)
	return v
}

// Recv2 performs v, ok := <-ch.
func Recv2[T any, C ~chan T | ~<-chan T](ch C) (T, bool) {
	e := vsched.Cur()
	if e == nil {
		v, ok := reflect.ValueOf(ch).Recv()
		if !ok {
			var z T
			return z, false
		}
		return conv[T](v.Interface()), true
	}
	st := state(e, ch)
	if st == nil {
		e.Point("chan", func() bool { return false }, "recv on nil chan")
	}
	s := selectOps(e, false, []pendingOp{{st: st}}, "chan recv")
	return conv[T](s.v), s.ok
}

// Close performs close(ch).
func Close[C any](ch C) {
	e := vsched.Cur()
	if e == nil {
		reflect.ValueOf(ch).Close()
		return
	}
	st := state(e, ch)
	if st == nil {
		panic("close of nil channel")
	}
	e.Point("chan", nil, "chan close")
	if st.closed {
		if e.Aborted() {
			return
		}
		panic("close of closed channel")
	}
	st.closed = true
}

// Len and Cap mirror the builtins.
func Len[C any](ch C) int {
	e := vsched.Cur()
	if e == nil {
		return reflect.ValueOf(ch).Len()
	}
	st := state(e, ch)
	if st == nil {
		return 0
	}
	return len(st.buf)
}

func Cap[C any](ch C) int { return reflect.ValueOf(ch).Cap() }

// Select performs a select statement over the given arms.
func Select(hasDefault bool, cases ...Case) Sel {
	e := vsched.Cur()
	if e == nil {
		rc := make([]reflect.SelectCase, 0, len(cases)+1)
		for _, c := range cases {
			v := reflect.ValueOf(c.ch)
			if c.send {
				sv := reflect.ValueOf(c.val)
				et := v.Type().Elem()
				if !sv.IsValid() {
					sv = reflect.Zero(et)
				} else if sv.Type() != et {
					sv = sv.Convert(et)
				}
				rc = append(rc, reflect.SelectCase{Dir: reflect.SelectSend, Chan: v, Send: sv})
			} else {
				rc = append(rc, reflect.SelectCase{Dir: reflect.SelectRecv, Chan: v})
			}
		}
		if hasDefault {
			rc = append(rc, reflect.SelectCase{Dir: reflect.SelectDefault})
		}
		i, v, ok := reflect.Select(rc)
		if hasDefault && i == len(cases) {
			return Sel{I: -1}
		}
		s := Sel{I: i, ok: ok}
		if !cases[i].send && ok {
			s.v = v.Interface()
		}
		return s
	}
	ops := make([]pendingOp, len(cases))
	for i, c := range cases {
		ops[i] = pendingOp{st: state(e, c.ch), send: c.send, val: c.val}
	}
	return selectOps(e, hasDefault, ops, "select")
}

// Val extracts the received value of the chosen arm; ch only fixes the element type.
func Val[T any, C ~chan T | ~<-chan T](ch C, s Sel) T { return conv[T](s.v) }

// Val2 is Val with the ok flag.
func Val2[T any, C ~chan T | ~<-chan T](ch C, s Sel) (T, bool) { return conv[T](s.v), s.ok }

// TrySend is used by vtime to deliver a timer tick: non-blocking send from scheduler context.
func TrySend(e *vsched.Exec, ch any, v any) bool {
	st := state(e, ch)
	if st == nil || st.closed {
		return false
	}
	if len(st.buf) < st.cap {
		st.buf = append(st.buf, v)
		return true
	}
	return false
}

// Drain empties a buffered channel's modelled buffer (timer Stop/Reset semantics).
func Drain(e *vsched.Exec, ch any) {
	if st := state(e, ch); st != nil {
		st.buf = nil
	}
}
