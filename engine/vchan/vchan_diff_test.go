package vchan_test

// Differential test of the channel model against real Go channels: for every small program
// (2 threads x <=2 operations over two channels with capacities 0 and 1) the set of outcomes the
// model can produce (explored exhaustively) must contain every outcome real Go produces, and a
// program the model says never blocks / always panics must behave so for real.

import (
	"fmt"
	"os"
	"sort"
	"strings"
	"sync"
	"testing"
	"time"

	"verif.local/engine/evidence"
	"verif.local/engine/explore"
	"verif.local/engine/vchan"
	"verif.local/engine/vsched"
	"verif.local/engine/vsync"
)

type dop struct {
	kind string // send recv close seldef (select with default on recv a / send b)
	ch   int
	val  int
}

func (o dop) String() string { return fmt.Sprintf("%s%d:%d", o.kind, o.ch, o.val) }

var dalpha = []dop{{"send", 0, 1}, {"send", 1, 2}, {"recv", 0, 0}, {"recv", 1, 0}, {"close", 0, 0}, {"seldef", 0, 7}, {"sel", 0, 8}}

func progs() [][2][]dop {
	var seqs [][]dop
	for _, a := range dalpha {
		seqs = append(seqs, []dop{a})
		for _, b := range dalpha {
			seqs = append(seqs, []dop{a, b})
		}
	}
	var out [][2][]dop
	for i, a := range seqs {
		for j, b := range seqs {
			if (i*31+j)%5 != 0 { // a fifth of the 56x56 product, deterministic
				continue
			}
			out = append(out, [2][]dop{a, b})
		}
	}
	return out
}

// runOps executes one thread's ops with the given primitives; returns its trace.
type prims struct {
	send  func(ch, v int)
	recv  func(ch int) (int, bool)
	close func(ch int)
	// sel: blocking select {recv ch0; send ch1 v}; seldef: same with default
	sel func(def bool, v int) string
}

func runOps(ops []dop, p prims) (trace []string) {
	defer func() {
		if r := recover(); r != nil {
			trace = append(trace, "panic:"+fmt.Sprint(r))
		}
	}()
	for _, o := range ops {
		switch o.kind {
		case "send":
			p.send(o.ch, o.val)
			trace = append(trace, "sent")
		case "recv":
			v, ok := p.recv(o.ch)
			trace = append(trace, fmt.Sprintf("got%d,%v", v, ok))
		case "close":
			p.close(o.ch)
			trace = append(trace, "closed")
		case "seldef":
			trace = append(trace, p.sel(true, o.val))
		case "sel":
			trace = append(trace, p.sel(false, o.val))
		}
	}
	trace = append(trace, "done")
	return trace
}

func modelOutcomes(t *testing.T, pr [2][]dop) map[string]bool {
	outs := map[string]bool{}
	sc := &explore.Scenario{Name: "p", Quick: explore.Bounds{P: 6, FreeSwitch: true}, LeakOK: true, Body: func(e *vsched.Exec) {
		chs := []chan int{make(chan int), make(chan int, 1)}
		p := prims{
			send:  func(c, v int) { vchan.Send(chs[c], v) },
			recv:  func(c int) (int, bool) { return vchan.Recv2(chs[c]) },
			close: func(c int) { vchan.Close(chs[c]) },
			sel: func(def bool, v int) string {
				s := vchan.Select(def, vchan.R(chs[0]), vchan.S(chs[1], v))
				switch s.I {
				case 0:
					x, ok := vchan.Val2(chs[0], s)
					return fmt.Sprintf("sel-got%d,%v", x, ok)
				case 1:
					return "sel-sent"
				}
				return "sel-default"
			},
		}
		var tr [2][]string
		var wg vsync.WaitGroup
		fin := [2]bool{}
		for i := 0; i < 2; i++ {
			wg.Add(1)
			vsched.Go(func() { defer wg.Done(); tr[i] = runOps(pr[i], p); fin[i] = true })
		}
		e.WaitIdle()
		for i := 0; i < 2; i++ {
			if !fin[i] {
				tr[i] = append(partial(e, i), "BLOCKED")
			}
		}
		key := strings.Join(tr[0], ",") + " | " + strings.Join(tr[1], ",")
		outs[key] = true

	}}
	os.Setenv("VERIF_REPLAY_DIR", t.TempDir())
	sh := evidence.NewShard(evidence.GetEnv("T"))
	// a panic in a thread aborts the execution: catch it inside runOps instead (done above)
	explore.Run(sh, []*explore.Scenario{sc})
	if len(sh.Infra) > 0 {
		t.Fatalf("infra: %v", sh.Infra)
	}
	return outs
}

// partial is not observable for a blocked thread in the model (its trace slice is only assigned on
// return), so blocked threads are compared by the BLOCKED marker alone.
func partial(e *vsched.Exec, i int) []string { return nil }

func realOutcome(pr [2][]dop) string {
	chs := []chan int{make(chan int), make(chan int, 1)}
	p := prims{
		send:  func(c, v int) { chs[c] <- v },
		recv:  func(c int) (int, bool) { v, ok := <-chs[c]; return v, ok },
		close: func(c int) { close(chs[c]) },
		sel: func(def bool, v int) string {
			if def {
				select {
				case x, ok := <-chs[0]:
					return fmt.Sprintf("sel-got%d,%v", x, ok)
				case chs[1] <- v:
					return "sel-sent"
				default:
					return "sel-default"
				}
			}
			select {
			case x, ok := <-chs[0]:
				return fmt.Sprintf("sel-got%d,%v", x, ok)
			case chs[1] <- v:
				return "sel-sent"
			}
		},
	}
	var tr [2][]string
	var mu sync.Mutex
	done := make(chan int, 2)
	for i := 0; i < 2; i++ {
		go func() {
			r := runOps(pr[i], p)
			mu.Lock()
			tr[i] = r
			mu.Unlock()
			done <- i
		}()
	}
	fin := [2]bool{}
	timeout := time.After(30 * time.Millisecond)
loop:
	for n := 0; n < 2; n++ {
		select {
		case i := <-done:
			fin[i] = true
		case <-timeout:
			break loop
		}
	}
	mu.Lock()
	defer mu.Unlock()
	var parts [2]string
	for i := 0; i < 2; i++ {
		if fin[i] {
			parts[i] = strings.Join(tr[i], ",")
		} else {
			parts[i] = "BLOCKED"
		}
	}
	return parts[0] + " | " + parts[1]
}

func TestChannelModelCoversRealGo(t *testing.T) {
	ps := progs()
	checked := 0
	for _, pr := range ps {
		model := modelOutcomes(t, pr)
		for rep := 0; rep < 3; rep++ {
			r := realOutcome(pr)
			if !model[r] {
				var ks []string
				for k := range model {
					ks = append(ks, k)
				}
				sort.Strings(ks)
				t.Fatalf("program %v: real Go produced %q, which the model cannot produce; model outcomes:\n%s", pr, r, strings.Join(ks, "\n"))
			}
		}
		checked++
	}
	t.Logf("%d programs: every outcome of real Go channels is an outcome of the model", checked)
}
