// Package vsched is the controlled scheduler: managed threads are real goroutines used as
// coroutines (exactly one holds the baton); every hooked operation is a scheduling point whose
// enabledness is a predicate; environment answers are explicit choice points; time is virtual.
// An execution is a pure function of its choice sequence.
//
// With no execution attached (Cur()==nil) every shim falls through to the real primitive
// ("pass-through mode").
package vsched

import (
	"fmt"
	"runtime"
	"sort"
	"strings"
	"sync"
	"sync/atomic"
	"time"
)

// ChoiceKind classifies a recorded choice point (the explorer assigns costs per kind).
type ChoiceKind uint8

const (
	KSched ChoiceKind = iota // which thread runs next
	KEnv                     // environment answer, option 0 is the benign default
	KFree                    // free choice (select arm, map order...): every option costs 0
)

// Choice is one recorded decision with >=2 options.
type Choice struct {
	Kind ChoiceKind
	N    int  // number of options
	Pick int  // chosen option
	Cur  bool // KSched: option 0 is the running thread, still enabled (so alt>0 is a preemption)
	Clk  int  // KSched: index of the clock option, -1 if absent (taking it while threads are enabled is a preemption)
	Tag  string
}

// Chooser decides every choice point. It is called with the options count and must return
// an index in [0,n).
type Chooser interface {
	Choose(c *Choice) int
}

type abortSentinel struct{}

// Thread is a managed goroutine.
type Thread struct {
	ID   int
	Name string
	wake chan struct{}
	pred func() bool // enabledness of the pending operation (nil = enabled)
	op   string      // description of pending operation
	done bool
	// channel-operation bookkeeping (owned by vchan)
	ChanOps  any
	ChanDone bool
	ChanRes  any
	PendSeq  int64
}

func (t *Thread) Op() string { return t.op }

type timer struct {
	at   int64
	seq  int64
	fire func()
	dead bool
}

// Outcome of an execution.
type Outcome struct {
	Kind     string // "ok", "panic", "deadlock", "steplimit", "fail"
	Detail   string
	Stack    string
	Leaked   []string // threads still alive when main returned (name: pending op)
	Choices  []Choice
	Log      []string
	Steps    int
	Threads  int
	Switches int
	VirtNS   int64
}

// Exec is one execution.
type Exec struct {
	threads  []*Thread
	cur      *Thread
	now      int64
	timers   []*timer
	tseq     int64
	stalls   int
	stallNS  int64
	pseq     int64
	chooser  Chooser
	choices  []Choice
	log      []string
	steps    int
	maxSteps int
	switches int
	aborted  bool
	out      *Outcome
	finished chan struct{}
	wg       sync.WaitGroup
	mainDone bool
	// per-execution registries for shims
	Locals map[any]any
	// NoPoint lists operation classes that are not scheduling points (e.g. "atomic")
	NoPoint map[string]bool
	fails   []string
	horizon int64
}

var current atomic.Pointer[Exec]

// Cur returns the attached execution or nil (pass-through mode).
func Cur() *Exec { return current.Load() }

// Options for Run.
type Options struct {
	MaxSteps int
	NoPoint  map[string]bool
	// HorizonNS: the clock never advances beyond this virtual time (0 = unlimited); timers
	// beyond it never fire, which ends executions driven by periodic tickers.
	HorizonNS int64
	WallLimit time.Duration
}

// Run executes main as thread 0 under chooser and returns the outcome.
func Run(chooser Chooser, opt Options, main func()) *Outcome {
	e := &Exec{chooser: chooser, finished: make(chan struct{}), Locals: map[any]any{}, NoPoint: opt.NoPoint, maxSteps: opt.MaxSteps, horizon: opt.HorizonNS}
	if e.maxSteps == 0 {
		e.maxSteps = 200000
	}
	if e.horizon == 0 {
		// periodic tickers never go quiescent: beyond the horizon no timer fires, so a system
		// that only polls is recognised as deadlocked
		e.horizon = int64(10 * time.Minute)
	}
	if !current.CompareAndSwap(nil, e) {
		panic("vsched: nested Run")
	}
	t0 := e.newThread("main", main)
	e.cur = t0
	t0.wake <- struct{}{}
	wall := opt.WallLimit
	if wall == 0 {
		wall = 60 * time.Second
	}
	select {
	case <-e.finished:
	case <-time.After(wall):
		buf := make([]byte, 1<<20)
		n := runtime.Stack(buf, true)
		current.Store(nil)
		panic(fmt.Sprintf("vsched: execution exceeded wall limit %v (a thread is blocked in an unhooked operation?)\n%s", wall, buf[:n]))
	}
	e.wg.Wait()
	current.Store(nil)
	o := e.out
	o.Choices = e.choices
	o.Log = e.log
	o.Steps = e.steps
	o.Threads = len(e.threads)
	o.Switches = e.switches
	o.VirtNS = e.now
	if o.Kind == "ok" && len(e.fails) > 0 {
		o.Kind = "fail"
		o.Detail = strings.Join(e.fails, "; ")
	}
	return o
}

func (e *Exec) newThread(name string, fn func()) *Thread {
	t := &Thread{ID: len(e.threads), Name: name, wake: make(chan struct{}, 1)}
	e.threads = append(e.threads, t)
	e.wg.Add(1)
	go func() {
		defer e.wg.Done()
		<-t.wake
		if e.aborted {
			t.done = true
			e.abortNext()
			return
		}
		defer func() {
			r := recover()
			t.done = true
			if _, ok := r.(abortSentinel); ok || (e.aborted && r != nil) {
				// being torn down
				e.abortNext()
				return
			}
			if r != nil {
				buf := make([]byte, 16384)
				n := runtime.Stack(buf, false)
				e.finish(&Outcome{Kind: "panic", Detail: fmt.Sprint(r), Stack: trimStack(string(buf[:n]))})
				return
			}
			if e.aborted {
				e.abortNext()
				return
			}
			if t.ID == 0 {
				e.mainDone = true
				var leaked []string
				for _, u := range e.threads {
					if !u.done {
						leaked = append(leaked, u.Name+": "+u.op)
					}
				}
				e.finish(&Outcome{Kind: "ok", Leaked: leaked})
				return
			}
			e.dispatch(nil)
		}()
		fn()
	}()
	return t
}

func trimStack(s string) string {
	lines := strings.Split(s, "\n")
	var out []string
	for i := 0; i < len(lines); i++ {
		l := lines[i]
		if strings.Contains(l, "runtime/panic.go") || strings.HasPrefix(l, "panic(") || strings.Contains(l, "vsched.(*Exec).newThread") || strings.Contains(l, "runtime/debug") {
			if strings.HasPrefix(l, "panic(") || strings.HasPrefix(l, "runtime.") {
				i++
			}
			continue
		}
		out = append(out, l)
	}
	if len(out) > 40 {
		out = out[:40]
	}
	return strings.Join(out, "\n")
}

// finish records the outcome and tears everything down; called by the baton holder.
func (e *Exec) finish(o *Outcome) {
	if e.out == nil {
		e.out = o
	}
	e.aborted = true
	e.abortNext()
}

// abortNext wakes the next live thread so that it unwinds; when none is left the execution ends.
func (e *Exec) abortNext() {
	for _, u := range e.threads {
		if !u.done {
			u.done = true // claimed; its goroutine will unwind
			e.cur = u
			u.wake <- struct{}{}
			return
		}
	}
	select {
	case <-e.finished:
	default:
		close(e.finished)
	}
}

// Go starts fn as a new managed thread (pass-through: plain goroutine).
func Go(fn func()) { GoNamed("", fn) }

func GoNamed(name string, fn func()) {
	e := Cur()
	if e == nil {
		go fn()
		return
	}
	if e.aborted {
		return
	}
	if name == "" {
		_, file, line, _ := runtime.Caller(2)
		if i := strings.LastIndex(file, "/"); i >= 0 {
			file = file[i+1:]
		}
		name = fmt.Sprintf("%s:%d", file, line)
	}
	t := e.newThread(fmt.Sprintf("T%d(%s)", len(e.threads), name), fn)
	_ = t
	e.Point("spawn", nil, "spawn")
}

// Point is a scheduling point before an operation of class cls whose enabledness is pred.
// When it returns the calling thread holds the baton and pred() is true.
func (e *Exec) Point(cls string, pred func() bool, desc string) {
	if e.aborted {
		if pred == nil || pred() {
			return
		}
		panic(abortSentinel{})
	}
	t := e.cur
	if pred == nil && e.NoPoint != nil && e.NoPoint[cls] {
		return
	}
	t.pred, t.op = pred, desc
	e.pseq++
	t.PendSeq = e.pseq
	e.dispatch(t)
	t.pred = nil
}

// dispatch picks the next thread to run. from is the calling thread (nil when it just ended).
func (e *Exec) dispatch(from *Thread) {
	for {
		e.steps++
		if e.steps > e.maxSteps {
			var bl []string
			for _, u := range e.threads {
				if !u.done {
					bl = append(bl, u.Name+": "+u.op)
				}
			}
			e.finishFrom(from, &Outcome{Kind: "steplimit", Detail: fmt.Sprintf("more than %d scheduling steps (livelock?): %s", e.maxSteps, strings.Join(bl, " | "))})
			return
		}
		var opts []*Thread
		curEnabled := false
		if from != nil && (from.pred == nil || from.pred()) {
			opts = append(opts, from)
			curEnabled = true
		}
		for _, u := range e.threads {
			if u == from || u.done {
				continue
			}
			if u.pred == nil || u.pred() {
				opts = append(opts, u)
			}
		}
		clk := -1
		tm := e.nextTimer()
		if tm != nil {
			clk = len(opts)
		}
		n := len(opts)
		if clk >= 0 {
			n++
		}
		if n == 0 {
			var bl []string
			for _, u := range e.threads {
				if !u.done {
					bl = append(bl, u.Name+": "+u.op)
				}
			}
			e.finishFrom(from, &Outcome{Kind: "deadlock", Detail: strings.Join(bl, " | ")})
			return
		}
		pick := 0
		if n > 1 {
			c := Choice{Kind: KSched, N: n, Cur: curEnabled, Clk: clk}
			pick = e.chooser.Choose(&c)
			if pick < 0 || pick >= n {
				panic(fmt.Sprintf("vsched: chooser returned %d of %d", pick, n))
			}
			c.Pick = pick
			e.choices = append(e.choices, c)
		}
		if pick == clk {
			// advance virtual time and fire the earliest timer, then decide again
			if tm.at > e.now {
				if len(opts) > 0 {
					e.stalls++ // virtual time passes although a thread could run: that thread is stalled
					e.stallNS += tm.at - e.now
				}
				e.now = tm.at
			}
			tm.dead = true
			e.dropTimer(tm)
			tm.fire()
			continue
		}
		next := opts[pick]
		if next == from {
			return
		}
		e.switches++
		e.cur = next
		next.wake <- struct{}{}
		if from != nil {
			<-from.wake
			if e.aborted {
				panic(abortSentinel{})
			}
		}
		return
	}
}

func (e *Exec) finishFrom(from *Thread, o *Outcome) {
	if e.out == nil {
		e.out = o
	}
	e.aborted = true
	if from != nil {
		// the caller unwinds itself
		panic(abortSentinel{})
	}
	e.abortNext()
}

func (e *Exec) nextTimer() *timer {
	var best *timer
	for _, tm := range e.timers {
		if tm.dead {
			continue
		}
		if e.horizon > 0 && tm.at > e.horizon {
			continue
		}
		if best == nil || tm.at < best.at || (tm.at == best.at && tm.seq < best.seq) {
			best = tm
		}
	}
	return best
}

func (e *Exec) dropTimer(tm *timer) {
	for i, x := range e.timers {
		if x == tm {
			e.timers = append(e.timers[:i], e.timers[i+1:]...)
			return
		}
	}
}

// TimerHandle identifies a pending virtual timer.
type TimerHandle struct{ t *timer }

// AddTimer registers fire to run (in scheduler context, holding the baton) at virtual time at.
func (e *Exec) AddTimer(at int64, fire func()) TimerHandle {
	e.tseq++
	tm := &timer{at: at, seq: e.tseq, fire: fire}
	e.timers = append(e.timers, tm)
	return TimerHandle{tm}
}

// StopTimer cancels a timer; reports whether it was still pending.
func (e *Exec) StopTimer(h TimerHandle) bool {
	if h.t == nil || h.t.dead {
		return false
	}
	h.t.dead = true
	e.dropTimer(h.t)
	return true
}

// Stalls reports how often virtual time advanced although some thread was runnable (a scheduling
// deviation that models a thread stalled until the next timer). Oracles that bound how LATE
// something happens are only meaningful up to the stalls the schedule contains.
func (e *Exec) Stalls() int { return e.stalls }

// StallNS is the total virtual time that passed in those stalls.
func (e *Exec) StallNS() int64 { return e.stallNS }

// Now returns the virtual time in ns since the execution's epoch.
func (e *Exec) Now() int64 { return e.now }

// Spawn starts a thread from scheduler context (e.g. a timer callback) without a scheduling point.
func (e *Exec) Spawn(name string, fn func()) {
	if e.aborted {
		return
	}
	e.newThread(fmt.Sprintf("T%d(%s)", len(e.threads), name), fn)
}

// Choose is an environment choice point with n options (0 = benign default).
func (e *Exec) Choose(n int, kind ChoiceKind, tag string) int {
	if n <= 1 || e.aborted {
		return 0
	}
	c := Choice{Kind: kind, N: n, Clk: -1, Tag: tag}
	p := e.chooser.Choose(&c)
	if p < 0 || p >= n {
		panic(fmt.Sprintf("vsched: chooser returned %d of %d", p, n))
	}
	c.Pick = p
	e.choices = append(e.choices, c)
	return p
}

// Logf appends to the observation log of the execution.
func (e *Exec) Logf(format string, a ...any) {
	e.log = append(e.log, fmt.Sprintf(format, a...))
}

// Fail records an oracle failure; the execution's outcome becomes "fail".
func (e *Exec) Fail(format string, a ...any) {
	e.fails = append(e.fails, fmt.Sprintf(format, a...))
}

// Threads returns the threads (for vchan partner search and census).
func (e *Exec) Threads() []*Thread { return e.threads }
func (e *Exec) Current() *Thread   { return e.cur }
func (e *Exec) Aborted() bool      { return e.aborted }

// WaitIdle blocks the caller until every other thread is finished or blocked (timers are not
// considered: virtual time does not advance while the caller can run).
func (e *Exec) WaitIdle() {
	self := e.cur
	e.Point("waitidle", func() bool {
		for _, u := range e.threads {
			if u == self || u.done {
				continue
			}
			if u.pred == nil || u.pred() {
				return false
			}
		}
		return true
	}, "waitidle")
}

// Sleep blocks the calling thread for d of virtual time.
func (e *Exec) Sleep(d int64) {
	if d <= 0 {
		e.Point("yield", nil, "yield")
		return
	}
	fired := false
	e.AddTimer(e.now+d, func() { fired = true })
	e.Point("sleep", func() bool { return fired }, "sleep")
}

// Alive lists threads that have not finished, with their pending operation.
func (e *Exec) Alive() []string {
	var s []string
	for _, u := range e.threads {
		if !u.done && u != e.cur {
			s = append(s, u.Name+": "+u.op)
		}
	}
	sort.Strings(s)
	return s
}

// Local returns the per-execution value stored under key, creating it with mk.
func Local[T any](e *Exec, key any, mk func() T) T {
	if v, ok := e.Locals[key]; ok {
		return v.(T)
	}
	v := mk()
	e.Locals[key] = v
	return v
}

type zeroChooser struct{}

func (zeroChooser) Choose(*Choice) int { return 0 }

// RunDefault executes main under the default schedule (every choice 0): used by sequential
// harnesses that need the fakes, virtual time and owned randomness but no interleaving search.
func RunDefault(opt Options, main func(e *Exec)) *Outcome {
	return Run(zeroChooser{}, opt, func() { main(Cur()) })
}

// Mem is a scheduling point AFTER a plain memory write the instrumenter was asked to expose
// (vgen option mem_points: builtin append and copy calls of the listed files are wrapped as
// Mem(append(...)) / Mem(copy(...))). It makes windows between an unsynchronised write into shared
// memory and its later use visible to the explorer; outside an execution it is the identity.
func Mem[T any](v T) T {
	if e := Cur(); e != nil && e.cur != nil {
		e.Point("mem", nil, "mem")
	}
	return v
}
