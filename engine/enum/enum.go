// Package enum holds small bounded-exhaustive enumerators. Every enumerator visits each member
// of its finite space exactly once, in a deterministic order, and returns how many it produced.
package enum

// Strings calls f with every string over alphabet of length 0..maxLen (simplest first).
// f must not retain the slice. Returning false stops the enumeration.
func Strings(alphabet []byte, maxLen int, f func(b []byte) bool) int64 {
	var n int64
	buf := make([]byte, maxLen)
	var rec func(l, pos int) bool
	rec = func(l, pos int) bool {
		if pos == l {
			n++
			return f(buf[:l])
		}
		for _, c := range alphabet {
			buf[pos] = c
			if !rec(l, pos+1) {
				return false
			}
		}
		return true
	}
	for l := 0; l <= maxLen; l++ {
		if !rec(l, 0) {
			break
		}
	}
	return n
}

// Product calls f with every index vector of the given dimensions.
func Product(dims []int, f func(idx []int) bool) int64 {
	var n int64
	idx := make([]int, len(dims))
	for _, d := range dims {
		if d == 0 {
			return 0
		}
	}
	for {
		n++
		if !f(idx) {
			return n
		}
		i := len(dims) - 1
		for i >= 0 {
			idx[i]++
			if idx[i] < dims[i] {
				break
			}
			idx[i] = 0
			i--
		}
		if i < 0 {
			return n
		}
	}
}

// Sequences calls f with every sequence of length 0..maxLen over symbols 0..k-1.
func Sequences(k, maxLen int, f func(seq []int) bool) int64 {
	var n int64
	buf := make([]int, maxLen)
	var rec func(l, pos int) bool
	rec = func(l, pos int) bool {
		if pos == l {
			n++
			return f(buf[:l])
		}
		for c := 0; c < k; c++ {
			buf[pos] = c
			if !rec(l, pos+1) {
				return false
			}
		}
		return true
	}
	for l := 0; l <= maxLen; l++ {
		if !rec(l, 0) {
			break
		}
	}
	return n
}

// Splits calls f with every composition of n into positive parts (all 2^(n-1) chunkings) when
// n <= full, otherwise with every chunking that cuts at <= maxCuts of the given offsets.
func Splits(n int, full int, offsets []int, maxCuts int, f func(cuts []int) bool) int64 {
	var cnt int64
	if n <= 1 {
		cnt++
		f(nil)
		return cnt
	}
	if n <= full {
		for m := 0; m < 1<<(n-1); m++ {
			var cuts []int
			for i := 0; i < n-1; i++ {
				if m&(1<<i) != 0 {
					cuts = append(cuts, i+1)
				}
			}
			cnt++
			if !f(cuts) {
				return cnt
			}
		}
		return cnt
	}
	var offs []int
	seen := map[int]bool{}
	for _, o := range offsets {
		if o > 0 && o < n && !seen[o] {
			seen[o] = true
			offs = append(offs, o)
		}
	}
	sortInts(offs)
	var rec func(start int, cuts []int) bool
	rec = func(start int, cuts []int) bool {
		cnt++
		if !f(cuts) {
			return false
		}
		if len(cuts) == maxCuts {
			return true
		}
		for i := start; i < len(offs); i++ {
			if !rec(i+1, append(cuts, offs[i])) {
				return false
			}
		}
		return true
	}
	rec(0, nil)
	return cnt
}

func sortInts(a []int) {
	for i := 1; i < len(a); i++ {
		for j := i; j > 0 && a[j] < a[j-1]; j-- {
			a[j], a[j-1] = a[j-1], a[j]
		}
	}
}

// Permutations calls f with every permutation of 0..n-1.
func Permutations(n int, f func(p []int) bool) int64 {
	var cnt int64
	p := make([]int, n)
	for i := range p {
		p[i] = i
	}
	var rec func(k int) bool
	rec = func(k int) bool {
		if k == n {
			cnt++
			return f(p)
		}
		for i := k; i < n; i++ {
			p[k], p[i] = p[i], p[k]
			if !rec(k + 1) {
				return false
			}
			p[k], p[i] = p[i], p[k]
		}
		return true
	}
	rec(0)
	return cnt
}

// ChunkReader delivers data in the chunks given by cuts (offsets where a read ends) and counts
// what was requested; after the data it returns io.EOF-like behaviour through Err.
type ChunkReader struct {
	Data      []byte
	Cuts      []int
	Pos       int
	Requested int64 // sum of len(p) over all Read calls
	Reads     int
	Err       error // returned when data is exhausted (nil => io.EOF must be set by caller)
	ZeroReads bool  // deliver a zero-length read (0,nil) before each chunk
	// EOFWithLast: the read that delivers the last byte also returns Err (quic-go returns the
	// final bytes together with io.EOF when the FIN arrived with them)
	EOFWithLast bool
	// Before, when set, runs at the start of every Read call: whatever else the process does
	// between two reads of this stream (other streams being parsed, ...)
	Before   func()
	zeroNext bool
}

func (r *ChunkReader) Read(p []byte) (int, error) {
	if r.Before != nil {
		r.Before()
	}
	r.Reads++
	r.Requested += int64(len(p))
	if r.ZeroReads {
		r.zeroNext = !r.zeroNext
		if r.zeroNext {
			return 0, nil
		}
	}
	if r.Pos >= len(r.Data) {
		return 0, r.Err
	}
	end := len(r.Data)
	for _, c := range r.Cuts {
		if c > r.Pos {
			end = c
			break
		}
	}
	n := copy(p, r.Data[r.Pos:end])
	r.Pos += n
	if r.EOFWithLast && r.Pos >= len(r.Data) && r.Err != nil {
		return n, r.Err
	}
	return n, nil
}
