// Package evidence is the plumbing between a harness (one shard process) and bin/vcheck:
// what was enumerated, what was found, and replay artefacts.
package evidence

import (
	"crypto/sha256"
	"encoding/binary"
	"encoding/json"
	"fmt"
	"os"
	"path/filepath"
	"runtime"
	"sort"
	"strconv"
	"strings"
	"sync"
	"time"
)

// Env is the contract between vcheck and a harness process.
type Env struct {
	Property  string
	Tier      string // quick | thorough
	Shard     int
	NShards   int
	Out       string // shard result file
	Replay    string // replay file to re-execute (optional)
	ReplayDir string
	Deadline  time.Time // soft deadline: stop exploring, report exhaustive:false
	Seed      int64
}

func GetEnv(property string) *Env {
	e := &Env{Property: property, Tier: os.Getenv("VERIF_TIER"), NShards: 1}
	if e.Tier == "" {
		e.Tier = "quick"
	}
	e.Shard, _ = strconv.Atoi(os.Getenv("VERIF_SHARD"))
	if n, _ := strconv.Atoi(os.Getenv("VERIF_NSHARDS")); n > 0 {
		e.NShards = n
	}
	e.Out = os.Getenv("VERIF_OUT")
	e.Replay = os.Getenv("VERIF_REPLAY")
	e.ReplayDir = os.Getenv("VERIF_REPLAY_DIR")
	if e.ReplayDir == "" {
		e.ReplayDir = "/verif/replays"
	}
	secs, _ := strconv.Atoi(os.Getenv("VERIF_DEADLINE_S"))
	if secs <= 0 {
		secs = 3600
	}
	e.Deadline = time.Now().Add(time.Duration(secs) * time.Second)
	e.Seed, _ = strconv.ParseInt(os.Getenv("VERIF_SEED"), 10, 64)
	return e
}

func (e *Env) Thorough() bool { return e.Tier == "thorough" }

// Mine reports whether work item i belongs to this shard.
func (e *Env) Mine(i int64) bool { return int(i%int64(e.NShards)) == e.Shard }

func (e *Env) Expired() bool { return time.Now().After(e.Deadline) }

// Part describes one enumerated family / scenario.
type Part struct {
	Name          string           `json:"name"`
	Kind          string           `json:"kind"` // explore | enum | xstate
	Evaluations   int64            `json:"evaluations"`
	States        int64            `json:"states,omitempty"`
	Transitions   int64            `json:"transitions,omitempty"`
	ImplTraces    int64            `json:"impl_traces,omitempty"`
	Exhaustive    bool             `json:"exhaustive"`
	Bounds        map[string]any   `json:"bounds,omitempty"`
	Alphabet      any              `json:"alphabet,omitempty"`
	Samples       []any            `json:"samples,omitempty"`
	Notes         []string         `json:"notes,omitempty"`
	Classes       []uint64         `json:"classes,omitempty"` // hashes of distinct non-trivial outcome classes
	ClassesCapped bool             `json:"classes_capped,omitempty"`
	Counters      map[string]int64 `json:"counters,omitempty"`

	mu   sync.Mutex
	cset map[uint64]struct{}
}

// Class records a distinct non-trivial case class (hashed).
func (p *Part) Class(parts ...any) {
	h := sha256.Sum256([]byte(fmt.Sprint(parts...)))
	k := binary.LittleEndian.Uint64(h[:8])
	p.mu.Lock()
	if p.cset == nil {
		p.cset = map[uint64]struct{}{}
	}
	if len(p.cset) < 200000 {
		p.cset[k] = struct{}{}
	} else if _, ok := p.cset[k]; !ok {
		p.ClassesCapped = true
	}
	p.mu.Unlock()
}

func (p *Part) ClassHash(k uint64) {
	p.mu.Lock()
	if p.cset == nil {
		p.cset = map[uint64]struct{}{}
	}
	if len(p.cset) < 200000 {
		p.cset[k] = struct{}{}
	} else if _, ok := p.cset[k]; !ok {
		p.ClassesCapped = true
	}
	p.mu.Unlock()
}

func (p *Part) Count(name string, d int64) {
	p.mu.Lock()
	if p.Counters == nil {
		p.Counters = map[string]int64{}
	}
	p.Counters[name] += d
	p.mu.Unlock()
}

// Sample keeps up to 4 written-out cases.
func (p *Part) Sample(v any) {
	p.mu.Lock()
	if len(p.Samples) < 4 {
		p.Samples = append(p.Samples, v)
	}
	p.mu.Unlock()
}

func (p *Part) Note(format string, a ...any) {
	p.mu.Lock()
	p.Notes = append(p.Notes, fmt.Sprintf(format, a...))
	p.mu.Unlock()
}

// Violation is one reported failure.
type Violation struct {
	Signature string `json:"signature"` // specific: part + failing clause + minimal case
	Part      string `json:"part"`
	Detail    string `json:"detail"`
	Replay    string `json:"replay"`
}

// Shard is what one harness process reports.
type Shard struct {
	Property    string      `json:"property"`
	Tier        string      `json:"tier"`
	Shard       int         `json:"shard"`
	NShards     int         `json:"nshards"`
	Parts       []*Part     `json:"parts"`
	Violations  []Violation `json:"violations"`
	Infra       []string    `json:"infra,omitempty"` // infrastructure errors (divergence, drift): exit 2
	WallS       float64     `json:"wall_s"`
	Assumptions []string    `json:"assumptions,omitempty"`
	Suppressed  int         `json:"suppressed_violations,omitempty"`

	env   *Env
	start time.Time
	mu    sync.Mutex
	sigs  map[string]bool
}

func NewShard(env *Env) *Shard {
	return &Shard{Property: env.Property, Tier: env.Tier, Shard: env.Shard, NShards: env.NShards, env: env, start: time.Now(), sigs: map[string]bool{}}
}

func (s *Shard) Env() *Env { return s.env }

func (s *Shard) Part(name, kind string) *Part {
	s.mu.Lock()
	defer s.mu.Unlock()
	for _, p := range s.Parts {
		if p.Name == name {
			return p
		}
	}
	p := &Part{Name: name, Kind: kind, Exhaustive: true}
	s.Parts = append(s.Parts, p)
	return p
}

func (s *Shard) Assume(a string) {
	s.mu.Lock()
	s.Assumptions = append(s.Assumptions, a)
	s.mu.Unlock()
}

func (s *Shard) InfraError(format string, a ...any) {
	s.mu.Lock()
	s.Infra = append(s.Infra, fmt.Sprintf(format, a...))
	s.mu.Unlock()
}

// Violate records a violation once per signature and writes its replay artefact.
// replay must be JSON-serialisable and sufficient to re-execute the case without the explorer.
func (s *Shard) Violate(part, signature, detail string, replay any) {
	s.mu.Lock()
	defer s.mu.Unlock()
	if s.sigs[signature] {
		return
	}
	s.sigs[signature] = true
	if len(s.Violations) >= 24 {
		// never flood the replay directory: further distinct violations are only counted
		s.Suppressed++
		return
	}
	h := sha256.Sum256([]byte(signature))
	name := fmt.Sprintf("%s-%x.json", s.Property, h[:6])
	path := filepath.Join(s.env.ReplayDir, name)
	_ = os.MkdirAll(s.env.ReplayDir, 0o755)
	doc := map[string]any{"property": s.Property, "part": part, "signature": signature, "detail": detail, "tier": s.Tier, "replay": replay}
	b, _ := json.MarshalIndent(doc, "", " ")
	_ = os.WriteFile(path, b, 0o644)
	s.Violations = append(s.Violations, Violation{Signature: signature, Part: part, Detail: detail, Replay: path})
}

func (s *Shard) NViolations() int {
	s.mu.Lock()
	defer s.mu.Unlock()
	return len(s.Violations)
}

// Finish writes the shard result.
func (s *Shard) Finish() error {
	s.WallS = time.Since(s.start).Seconds()
	for _, p := range s.Parts {
		p.Classes = p.Classes[:0]
		for k := range p.cset {
			p.Classes = append(p.Classes, k)
		}
		sort.Slice(p.Classes, func(i, j int) bool { return p.Classes[i] < p.Classes[j] })
	}
	b, err := json.Marshal(s)
	if err != nil {
		return err
	}
	if s.env.Out == "" {
		fmt.Println(string(b))
		return nil
	}
	return os.WriteFile(s.env.Out, b, 0o644)
}

// LoadReplay reads the "replay" member of a replay file into v.
func LoadReplay(path string, v any) (part string, err error) {
	b, err := os.ReadFile(path)
	if err != nil {
		return "", err
	}
	var doc struct {
		Part   string          `json:"part"`
		Replay json.RawMessage `json:"replay"`
	}
	if err := json.Unmarshal(b, &doc); err != nil {
		return "", err
	}
	return doc.Part, json.Unmarshal(doc.Replay, v)
}

// T is the subset of *testing.T the helpers need.
type T interface {
	Fatalf(string, ...any)
	Logf(string, ...any)
}

// Seq is a sequential (enumeration / explicit-state) harness.
type Seq struct {
	// Run enumerates this shard's share of the space and records parts and violations in sh.
	Run func(sh *Shard)
	// Replay re-executes one recorded case (the "replay" member of a replay file written by
	// Violate for the given part) without enumerating; it reports whether the violation
	// reproduces. It must return handled=false for parts it does not know.
	Replay func(part string, raw json.RawMessage) (handled, reproduced bool, detail string)
}

// Main is the entry point of a sequential harness test function (contract of bin/vcheck).
func Main(t T, property string, h Seq) {
	env := GetEnv(property)
	if env.Replay != "" {
		b, err := os.ReadFile(env.Replay)
		if err != nil {
			fmt.Printf("REPLAY error: %v\n", err)
			return
		}
		var doc struct {
			Part   string          `json:"part"`
			Replay json.RawMessage `json:"replay"`
		}
		if err := json.Unmarshal(b, &doc); err != nil {
			fmt.Printf("REPLAY error: %v\n", err)
			return
		}
		if h.Replay == nil {
			fmt.Printf("REPLAY skipped: harness has no replay function\n")
			return
		}
		handled, rep, detail := h.Replay(doc.Part, doc.Replay)
		switch {
		case !handled:
			fmt.Printf("REPLAY skipped: part %q not in this unit\n", doc.Part)
		case rep:
			fmt.Printf("REPLAY reproduced: %s\n", detail)
		default:
			fmt.Printf("REPLAY did not reproduce: %s\n", detail)
		}
		return
	}
	sh := NewShard(env)
	h.Run(sh)
	if err := sh.Finish(); err != nil {
		t.Fatalf("writing shard result: %v", err)
	}
	if sh.NViolations() > 0 || len(sh.Infra) > 0 {
		t.Fatalf("violations=%d infra=%v", sh.NViolations(), sh.Infra)
	}
}

// Catch runs f and returns the recovered panic value and a trimmed stack (nil if no panic).
func Catch(f func()) (val any, stack string) {
	defer func() {
		if r := recover(); r != nil {
			val = r
			buf := make([]byte, 8192)
			n := runtime.Stack(buf, false)
			stack = string(buf[:n])
		}
	}()
	f()
	return nil, ""
}

// PanicSite extracts "file:line" of the first frame under /repo from a stack (the specific part
// of a crash signature).
func PanicSite(stack string) string {
	for _, l := range strings.Split(stack, "\n") {
		l = strings.TrimSpace(l)
		if strings.HasPrefix(l, "/repo/") || strings.Contains(l, "/.build/") {
			if j := strings.Index(l, " +0x"); j >= 0 {
				l = l[:j]
			}
			if strings.Contains(l, "zz_verif_") || strings.Contains(l, "/verif/harness/") {
				continue
			}
			if i := strings.Index(l, "/src/repo/"); i >= 0 {
				l = l[i+4:]
			}
			return l
		}
	}
	return "unknown"
}
