# source this: build environment for verification builds (never writes /repo)
export GOPROXY=off
export GOFLAGS=
export GOWORK=/verif/.work/go.work
export GOCACHE=/verif/.cache/go-build
unset GOTOOLCHAIN GOSUMDB
