// vgen: type-aware source instrumenter. Reads packages of /repo's *current working tree* and
// writes rewritten copies plus an overlay.json so that `go test -overlay` builds the real code
// against the verification shims, leaving /repo untouched.
//
// Anything it does not understand is a hard error (exit 2) - never a silent skip.
package main

import (
	"bytes"
	"encoding/json"
	"flag"
	"fmt"
	"go/ast"
	"go/format"
	"go/token"
	"go/types"
	"os"
	"path/filepath"
	"sort"
	"strconv"
	"strings"

	"golang.org/x/tools/go/ast/astutil"
	"golang.org/x/tools/go/packages"
)

type PkgCfg struct {
	Dir string `json:"dir"` // absolute package directory under /repo
	// Rewrite: which transformations apply to the package's non-test files
	Imports map[string]string `json:"imports"` // import path -> replacement path ("" = default set)
	Sched   bool              `json:"sched"`   // rewrite go statements, channel ops, map ranges, sync/time/rand imports
	Quic    bool              `json:"quic"`    // replace quic-go / http3 by vquic
	Consts  map[string]string `json:"consts"`  // const name -> new literal
	// Inject: harness files mapped into the package directory as zz_verif_<base>
	Inject []string `json:"inject"`
	// KeepTests: keep (and rewrite) the package's own _test.go files; default: delete them from the build
	KeepTests bool `json:"keep_tests"`
	// Only: restrict the rewrite to these base file names (default all non-test files)
	Only []string `json:"only"`
	// NoSched: file base names exempt from go/chan/map rewriting (imports still switched)
	NoSchedFiles []string `json:"nosched_files"`
	// MemPoints: file base names whose builtin append/copy calls get a scheduling point after them
	// (vsched.Mem): exposes windows between an unsynchronised write into shared memory and its use
	MemPoints []string `json:"mem_points"`
}

type Cfg struct {
	Out      string   `json:"out"`
	Packages []PkgCfg `json:"packages"`
	// Patch: extra overlay entries (repo file -> replacement file) applied before rewriting,
	// used by the mutant selftest; the rewriter then reads the replacement.
	Patch map[string]string `json:"patch"`
}

const engine = "verif.local/engine/"

var schedImports = map[string]string{
	"sync":        engine + "vsync",
	"sync/atomic": engine + "vatomic",
	"time":        engine + "vtime",
	"math/rand":   engine + "vrand/mrand",
	"crypto/rand": engine + "vrand/crand",
}

var quicImports = map[string]string{
	"github.com/apernet/quic-go":       engine + "vquic",
	"github.com/apernet/quic-go/http3": engine + "vquic/http3",
}

var origName = map[string]string{
	"sync": "sync", "sync/atomic": "atomic", "time": "time", "math/rand": "rand", "crypto/rand": "rand",
	"github.com/apernet/quic-go": "quic", "github.com/apernet/quic-go/http3": "http3",
}

func die(format string, a ...any) {
	fmt.Fprintf(os.Stderr, "vgen: "+format+"\n", a...)
	os.Exit(2)
}

func main() {
	cfgPath := flag.String("cfg", "", "config json")
	flag.Parse()
	b, err := os.ReadFile(*cfgPath)
	if err != nil {
		die("%v", err)
	}
	var cfg Cfg
	if err := json.Unmarshal(b, &cfg); err != nil {
		die("config: %v", err)
	}
	overlay := map[string]string{}
	for k, v := range cfg.Patch {
		overlay[k] = v
	}
	if err := os.MkdirAll(cfg.Out, 0o755); err != nil {
		die("%v", err)
	}
	// load all packages in one go (types needed)
	var pats []string
	for _, p := range cfg.Packages {
		pats = append(pats, p.Dir)
	}
	ovBytes := map[string][]byte{}
	for k, v := range cfg.Patch {
		c, err := os.ReadFile(v)
		if err != nil {
			die("patch %s: %v", v, err)
		}
		ovBytes[k] = c
	}
	needLoad := false
	for _, p := range cfg.Packages {
		if p.Sched || p.Quic || len(p.Consts) > 0 || len(p.Imports) > 0 {
			needLoad = true
		}
	}
	byDir := map[string][]*packages.Package{}
	if needLoad {
		pc := &packages.Config{
			Mode:    packages.NeedName | packages.NeedFiles | packages.NeedCompiledGoFiles | packages.NeedSyntax | packages.NeedTypes | packages.NeedTypesInfo | packages.NeedImports,
			Tests:   true,
			Overlay: ovBytes,
			Env:     os.Environ(),
		}
		pkgs, err := packages.Load(pc, pats...)
		if err != nil {
			die("load: %v", err)
		}
		for _, p := range pkgs {
			if len(p.GoFiles) == 0 {
				continue
			}
			d := filepath.Dir(p.GoFiles[0])
			byDir[d] = append(byDir[d], p)
		}
	}
	for _, pc := range cfg.Packages {
		if err := doPkg(&cfg, &pc, byDir[pc.Dir], overlay); err != nil {
			die("%s: %v", pc.Dir, err)
		}
	}
	ob, _ := json.MarshalIndent(map[string]any{"Replace": overlay}, "", " ")
	if err := os.WriteFile(filepath.Join(cfg.Out, "overlay.json"), ob, 0o644); err != nil {
		die("%v", err)
	}
}

func doPkg(cfg *Cfg, pc *PkgCfg, pkgs []*packages.Package, overlay map[string]string) error {
	outDir := filepath.Join(cfg.Out, "src", strings.TrimPrefix(pc.Dir, "/"))
	if err := os.MkdirAll(outDir, 0o755); err != nil {
		return err
	}
	// inject harness files
	for _, src := range pc.Inject {
		base := filepath.Base(src)
		if !strings.HasSuffix(base, "_test.go") {
			return fmt.Errorf("inject %s: must be a _test.go file", src)
		}
		overlay[filepath.Join(pc.Dir, "zz_verif_"+base)] = src
	}
	ents, err := os.ReadDir(pc.Dir)
	if err != nil {
		return err
	}
	rewrite := pc.Sched || pc.Quic || len(pc.Consts) > 0 || len(pc.Imports) > 0
	if !pc.KeepTests && rewrite {
		for _, e := range ents {
			if strings.HasSuffix(e.Name(), "_test.go") {
				overlay[filepath.Join(pc.Dir, e.Name())] = ""
			}
		}
	}
	if !rewrite {
		return nil
	}
	// choose the package variant that has the most syntax (the in-package test variant includes
	// the non-test files too)
	files := map[string]*ast.File{}
	infos := map[string]*packages.Package{}
	for _, p := range pkgs {
		if len(p.Errors) > 0 && !strings.HasSuffix(p.ID, ".test") {
			for _, e := range p.Errors {
				// type errors in upstream test files (e.g. missing mocks) do not matter unless we keep tests
				if !pc.KeepTests && strings.Contains(e.Pos, "_test.go") {
					continue
				}
				return fmt.Errorf("package %s does not type-check: %v", p.ID, e)
			}
		}
		for i, f := range p.CompiledGoFiles {
			if i >= len(p.Syntax) {
				break
			}
			if filepath.Dir(f) != pc.Dir {
				continue
			}
			if _, ok := files[f]; !ok {
				files[f] = p.Syntax[i]
				infos[f] = p
			}
		}
	}
	if len(files) == 0 {
		return fmt.Errorf("no files loaded")
	}
	only := map[string]bool{}
	for _, o := range pc.Only {
		only[o] = true
	}
	nosched := map[string]bool{}
	for _, o := range pc.NoSchedFiles {
		nosched[o] = true
	}
	names := make([]string, 0, len(files))
	for f := range files {
		names = append(names, f)
	}
	sort.Strings(names)
	constsSeen := map[string]bool{}
	for _, fn := range names {
		base := filepath.Base(fn)
		isTest := strings.HasSuffix(base, "_test.go")
		if isTest && !pc.KeepTests {
			continue
		}
		if len(only) > 0 && !only[base] {
			continue
		}
		p := infos[fn]
		r := &rewriter{fset: p.Fset, info: p.TypesInfo, file: files[fn], pc: pc, sched: pc.Sched && !nosched[base], constsSeen: constsSeen}
		for _, m := range pc.MemPoints {
			r.mem = r.mem || ((m == base || m == "*") && r.sched)
		}
		if err := r.run(); err != nil {
			return fmt.Errorf("%s: %v", base, err)
		}
		if !r.changed {
			continue
		}
		// drop ordinary comments (their positions no longer match); keep directives and the header
		var keep []*ast.CommentGroup
		for _, cg := range r.file.Comments {
			k := cg.End() < r.file.Package
			for _, cm := range cg.List {
				if strings.HasPrefix(cm.Text, "//go:") {
					k = true
				}
			}
			if k {
				keep = append(keep, cg)
			}
		}
		r.file.Comments = keep
		var buf bytes.Buffer
		if err := format.Node(&buf, p.Fset, r.file); err != nil {
			return fmt.Errorf("%s: format: %v", base, err)
		}
		hdr := fmt.Sprintf("// Code generated by vgen from %s; DO NOT EDIT.\n//line %s:1\n", fn, fn)
		_ = hdr
		out := filepath.Join(outDir, base)
		if err := os.WriteFile(out, buf.Bytes(), 0o644); err != nil {
			return err
		}
		overlay[fn] = out
	}
	for c := range pc.Consts {
		if !constsSeen[c] {
			return fmt.Errorf("const %s not found", c)
		}
	}
	return nil
}

type rewriter struct {
	fset       *token.FileSet
	info       *types.Info
	file       *ast.File
	pc         *PkgCfg
	sched      bool
	mem        bool
	changed    bool
	needs      map[string]bool
	tmp        int
	constsSeen map[string]bool
	err        error
}

func (r *rewriter) fail(n ast.Node, format string, a ...any) {
	if r.err == nil {
		r.err = fmt.Errorf("%s: %s", r.fset.Position(n.Pos()), fmt.Sprintf(format, a...))
	}
}

func (r *rewriter) name(prefix string) string {
	r.tmp++
	return fmt.Sprintf("_v%s%d", prefix, r.tmp)
}

func sel(pkg, name string) ast.Expr {
	return &ast.SelectorExpr{X: ast.NewIdent(pkg), Sel: ast.NewIdent(name)}
}

func call(fn ast.Expr, args ...ast.Expr) *ast.CallExpr {
	return &ast.CallExpr{Fun: fn, Args: args}
}

func (r *rewriter) use(pkg string) string {
	r.needs[pkg] = true
	r.changed = true
	return "_" + pkg
}

func (r *rewriter) typeOf(e ast.Expr) types.Type {
	if tv, ok := r.info.Types[e]; ok {
		return tv.Type
	}
	if id, ok := e.(*ast.Ident); ok {
		if o := r.info.ObjectOf(id); o != nil {
			return o.Type()
		}
	}
	return nil
}

func isChan(t types.Type) bool {
	if t == nil {
		return false
	}
	_, ok := t.Underlying().(*types.Chan)
	return ok
}

func isMap(t types.Type) bool {
	if t == nil {
		return false
	}
	_, ok := t.Underlying().(*types.Map)
	return ok
}

func pure(e ast.Expr) bool {
	switch x := e.(type) {
	case *ast.Ident:
		return true
	case *ast.SelectorExpr:
		return pure(x.X)
	case *ast.ParenExpr:
		return pure(x.X)
	case *ast.StarExpr:
		return pure(x.X)
	}
	return false
}

func (r *rewriter) run() error {
	r.needs = map[string]bool{}
	// 1. imports
	imap := map[string]string{}
	if r.pc.Sched {
		for k, v := range schedImports {
			imap[k] = v
		}
	}
	if r.pc.Quic {
		for k, v := range quicImports {
			imap[k] = v
		}
	}
	for k, v := range r.pc.Imports {
		imap[k] = v
	}
	for _, is := range r.file.Imports {
		p, _ := strconv.Unquote(is.Path.Value)
		if np, ok := imap[p]; ok {
			if is.Name == nil {
				n, ok := origName[p]
				if !ok {
					n = filepath.Base(p)
				}
				is.Name = ast.NewIdent(n)
			}
			is.Path.Value = strconv.Quote(np)
			r.changed = true
		}
	}
	// 2. consts
	if len(r.pc.Consts) > 0 {
		for _, d := range r.file.Decls {
			gd, ok := d.(*ast.GenDecl)
			if !ok || (gd.Tok != token.CONST && gd.Tok != token.VAR) {
				continue
			}
			for _, s := range gd.Specs {
				vs := s.(*ast.ValueSpec)
				for i, n := range vs.Names {
					if nv, ok := r.pc.Consts[n.Name]; ok && i < len(vs.Values) {
						e, err := parseExpr(nv)
						if err != nil {
							return fmt.Errorf("const %s: %v", n.Name, err)
						}
						vs.Values[i] = e
						r.constsSeen[n.Name] = true
						r.changed = true
					}
				}
			}
		}
	}
	// 3. statements
	if r.sched {
		astutil.Apply(r.file, r.pre, r.post)
		if r.err != nil {
			return r.err
		}
	}
	// 4. add imports
	for _, pkg := range []string{"vsched", "vchan", "vmap"} {
		if r.needs[pkg] {
			addImport(r.file, "_"+pkg, engine+pkg)
		}
	}
	return nil
}

func parseExpr(s string) (ast.Expr, error) {
	if _, err := strconv.ParseInt(s, 0, 64); err == nil {
		return &ast.BasicLit{Kind: token.INT, Value: s}, nil
	}
	return nil, fmt.Errorf("only integer literals supported, got %q", s)
}

func addImport(f *ast.File, name, path string) {
	spec := &ast.ImportSpec{Name: ast.NewIdent(name), Path: &ast.BasicLit{Kind: token.STRING, Value: strconv.Quote(path)}}
	for _, d := range f.Decls {
		if gd, ok := d.(*ast.GenDecl); ok && gd.Tok == token.IMPORT {
			gd.Specs = append(gd.Specs, spec)
			if !gd.Lparen.IsValid() {
				gd.Lparen = gd.Pos()
				gd.Rparen = gd.End()
			}
			f.Imports = append(f.Imports, spec)
			return
		}
	}
	gd := &ast.GenDecl{Tok: token.IMPORT, Specs: []ast.Spec{spec}}
	f.Decls = append([]ast.Decl{gd}, f.Decls...)
	f.Imports = append(f.Imports, spec)
}

// pre handles constructs that must be rewritten before their children are visited.
func (r *rewriter) pre(c *astutil.Cursor) bool {
	switch n := c.Node().(type) {
	case *ast.AssignStmt:
		// v, ok := <-ch
		if len(n.Lhs) == 2 && len(n.Rhs) == 1 {
			if u, ok := n.Rhs[0].(*ast.UnaryExpr); ok && u.Op == token.ARROW {
				n.Rhs[0] = call(sel(r.use("vchan"), "Recv2"), u.X)
			}
		}
	case *ast.ValueSpec:
		if len(n.Names) == 2 && len(n.Values) == 1 {
			if u, ok := n.Values[0].(*ast.UnaryExpr); ok && u.Op == token.ARROW {
				n.Values[0] = call(sel(r.use("vchan"), "Recv2"), u.X)
			}
		}
	}
	return true
}

func (r *rewriter) post(c *astutil.Cursor) bool {
	switch n := c.Node().(type) {
	case *ast.SelectStmt:
		// children were visited first, so the comm statements already are vchan calls
		r.rewriteSelect(c, n)
	case *ast.GoStmt:
		r.rewriteGo(c, n)
	case *ast.SendStmt:
		c.Replace(&ast.ExprStmt{X: call(sel(r.use("vchan"), "Send"), n.Chan, n.Value)})
	case *ast.UnaryExpr:
		if n.Op == token.ARROW {
			c.Replace(call(sel(r.use("vchan"), "Recv"), n.X))
		}
	case *ast.CallExpr:
		if id, ok := n.Fun.(*ast.Ident); ok && r.mem && (id.Name == "append" || id.Name == "copy") {
			if _, isBuiltin := r.info.Uses[id].(*types.Builtin); isBuiltin {
				c.Replace(call(sel(r.use("vsched"), "Mem"), n))
				return true
			}
		}
		if id, ok := n.Fun.(*ast.Ident); ok && len(n.Args) == 1 {
			if _, isBuiltin := r.info.Uses[id].(*types.Builtin); isBuiltin {
				switch id.Name {
				case "close":
					n.Fun = sel(r.use("vchan"), "Close")
				case "len", "cap":
					if isChan(r.typeOf(n.Args[0])) {
						if id.Name == "len" {
							n.Fun = sel(r.use("vchan"), "Len")
						} else {
							n.Fun = sel(r.use("vchan"), "Cap")
						}
					}
				}
			}
		}
	case *ast.RangeStmt:
		t := r.typeOf(n.X)
		if t == nil {
			// X may already have been rewritten (e.g. contains a receive); look at the original type via Types map failed
			r.fail(n, "range expression has no type information")
			return false
		}
		switch {
		case isChan(t):
			r.rewriteRangeChan(c, n)
		case isMap(t):
			r.rewriteRangeMap(c, n)
		}
	}
	return true
}

func (r *rewriter) rewriteGo(c *astutil.Cursor, n *ast.GoStmt) {
	vs := r.use("vsched")
	cl := n.Call
	if fl, ok := cl.Fun.(*ast.FuncLit); ok && len(cl.Args) == 0 {
		c.Replace(&ast.ExprStmt{X: call(sel(vs, "Go"), fl)})
		return
	}
	if id, ok := cl.Fun.(*ast.Ident); ok {
		if _, isBuiltin := r.info.Uses[id].(*types.Builtin); isBuiltin {
			r.fail(n, "go statement with builtin")
			return
		}
	}
	if tv, ok := r.info.Types[cl.Fun]; ok && tv.IsType() {
		r.fail(n, "go statement with conversion")
		return
	}
	var lhs, rhs []ast.Expr
	fn := r.name("f")
	lhs = append(lhs, ast.NewIdent(fn))
	rhs = append(rhs, cl.Fun)
	args := make([]ast.Expr, len(cl.Args))
	for i, a := range cl.Args {
		tv, ok := r.info.Types[a]
		if ok && (tv.Value != nil || tv.IsNil()) {
			args[i] = a // constants and nil stay inline (keep their untyped-ness)
			continue
		}
		if !ok {
			// already-rewritten expression (e.g. a receive): evaluate at spawn time
		}
		an := r.name("a")
		lhs = append(lhs, ast.NewIdent(an))
		rhs = append(rhs, a)
		args[i] = ast.NewIdent(an)
	}
	inner := &ast.CallExpr{Fun: ast.NewIdent(fn), Args: args, Ellipsis: cl.Ellipsis}
	if cl.Ellipsis.IsValid() {
		inner.Ellipsis = 1
	}
	blk := &ast.BlockStmt{List: []ast.Stmt{
		&ast.AssignStmt{Lhs: lhs, Tok: token.DEFINE, Rhs: rhs},
		&ast.ExprStmt{X: call(sel(vs, "Go"), &ast.FuncLit{
			Type: &ast.FuncType{Params: &ast.FieldList{}},
			Body: &ast.BlockStmt{List: []ast.Stmt{&ast.ExprStmt{X: inner}}},
		})},
	}}
	c.Replace(blk)
}

func (r *rewriter) rewriteRangeChan(c *astutil.Cursor, n *ast.RangeStmt) {
	vc := r.use("vchan")
	chv := r.name("ch")
	okv := r.name("ok")
	var pre []ast.Stmt
	recv := call(sel(vc, "Recv2"), ast.NewIdent(chv))
	brk := &ast.IfStmt{Cond: &ast.UnaryExpr{Op: token.NOT, X: ast.NewIdent(okv)}, Body: &ast.BlockStmt{List: []ast.Stmt{&ast.BranchStmt{Tok: token.BREAK}}}}
	switch {
	case n.Key == nil:
		pre = []ast.Stmt{&ast.AssignStmt{Lhs: []ast.Expr{ast.NewIdent("_"), ast.NewIdent(okv)}, Tok: token.DEFINE, Rhs: []ast.Expr{recv}}, brk}
	case n.Tok == token.DEFINE:
		pre = []ast.Stmt{&ast.AssignStmt{Lhs: []ast.Expr{n.Key, ast.NewIdent(okv)}, Tok: token.DEFINE, Rhs: []ast.Expr{recv}}, brk}
	default:
		tv := r.name("t")
		pre = []ast.Stmt{
			&ast.AssignStmt{Lhs: []ast.Expr{ast.NewIdent(tv), ast.NewIdent(okv)}, Tok: token.DEFINE, Rhs: []ast.Expr{recv}}, brk,
			&ast.AssignStmt{Lhs: []ast.Expr{n.Key}, Tok: token.ASSIGN, Rhs: []ast.Expr{ast.NewIdent(tv)}},
		}
	}
	body := &ast.BlockStmt{List: append(pre, n.Body.List...)}
	c.Replace(&ast.ForStmt{
		Init: &ast.AssignStmt{Lhs: []ast.Expr{ast.NewIdent(chv)}, Tok: token.DEFINE, Rhs: []ast.Expr{n.X}},
		Body: body,
	})
}

func isBlank(e ast.Expr) bool {
	id, ok := e.(*ast.Ident)
	return e == nil || (ok && id.Name == "_")
}

func (r *rewriter) rewriteRangeMap(c *astutil.Cursor, n *ast.RangeStmt) {
	var hoisted ast.Stmt
	if !pure(n.X) {
		// the range expression is evaluated once: bind it to a fresh variable in an enclosing block
		if _, labeled := c.Parent().(*ast.LabeledStmt); labeled {
			r.fail(n, "labeled range over a map expression that is not a plain identifier/selector")
			return
		}
		mv := ast.NewIdent(r.name("m"))
		hoisted = &ast.AssignStmt{Lhs: []ast.Expr{mv}, Tok: token.DEFINE, Rhs: []ast.Expr{n.X}}
		n.X = mv
	}
	if hoisted != nil {
		defer func() {
			if r.err == nil {
				c.Replace(&ast.BlockStmt{List: []ast.Stmt{hoisted, n}})
			}
		}()
	}
	vm := r.use("vmap")
	keys := call(sel(vm, "Keys"), n.X)
	if n.Tok == token.ASSIGN {
		r.fail(n, "range over map with '=' assignment form")
		return
	}
	okv := r.name("ok")
	skip := &ast.BlockStmt{List: []ast.Stmt{&ast.BranchStmt{Tok: token.CONTINUE}}}
	var kid ast.Expr = n.Key
	if isBlank(n.Key) {
		kid = ast.NewIdent(r.name("k"))
	}
	idx := &ast.IndexExpr{X: n.X, Index: kid}
	var pre []ast.Stmt
	if isBlank(n.Value) {
		pre = []ast.Stmt{&ast.IfStmt{
			Init: &ast.AssignStmt{Lhs: []ast.Expr{ast.NewIdent("_"), ast.NewIdent(okv)}, Tok: token.DEFINE, Rhs: []ast.Expr{idx}},
			Cond: &ast.UnaryExpr{Op: token.NOT, X: ast.NewIdent(okv)}, Body: skip}}
	} else {
		pre = []ast.Stmt{
			&ast.AssignStmt{Lhs: []ast.Expr{n.Value, ast.NewIdent(okv)}, Tok: token.DEFINE, Rhs: []ast.Expr{idx}},
			&ast.IfStmt{Cond: &ast.UnaryExpr{Op: token.NOT, X: ast.NewIdent(okv)}, Body: skip},
		}
	}
	n.Body.List = append(pre, n.Body.List...)
	n.Key = ast.NewIdent("_")
	n.Value = kid
	n.Tok = token.DEFINE
	n.X = keys
}

func (r *rewriter) rewriteSelect(c *astutil.Cursor, n *ast.SelectStmt) {
	vc := r.use("vchan")
	sv := r.name("s")
	hasDefault := false
	var cases []ast.Expr
	var clauses []ast.Stmt
	var hoist []ast.Stmt
	idx := 0
	for _, cs := range n.Body.List {
		cc := cs.(*ast.CommClause)
		if cc.Comm == nil {
			hasDefault = true
			clauses = append(clauses, &ast.CaseClause{List: nil, Body: cc.Body})
			continue
		}
		var pre []ast.Stmt
		switch s := cc.Comm.(type) {
		case *ast.ExprStmt:
			if a, ok := vchanCall(s.X, "Send"); ok {
				cases = append(cases, call(sel(vc, "S"), a[0], a[1]))
			} else if a, ok := vchanCall(s.X, "Recv"); ok {
				cases = append(cases, call(sel(vc, "R"), a[0]))
			} else {
				r.fail(s, "unsupported select comm")
				return
			}
		case *ast.AssignStmt:
			a, ok := vchanCall(s.Rhs[0], "Recv")
			if !ok {
				a, ok = vchanCall(s.Rhs[0], "Recv2")
			}
			if !ok {
				r.fail(s, "unsupported select comm")
				return
			}
			chx := a[0]
			if !pure(chx) {
				// evaluated once on entry to the select: hoist into an enclosing block
				if _, labeled := c.Parent().(*ast.LabeledStmt); labeled {
					r.fail(s, "labeled select receiving into a variable from a non-pure channel expression")
					return
				}
				chv := r.name("c")
				hoist = append(hoist, &ast.AssignStmt{Lhs: []ast.Expr{ast.NewIdent(chv)}, Tok: token.DEFINE, Rhs: []ast.Expr{chx}})
				chx = ast.NewIdent(chv)
			}
			cases = append(cases, call(sel(vc, "R"), chx))
			fn := "Val"
			if len(s.Lhs) == 2 {
				fn = "Val2"
			}
			pre = append(pre, &ast.AssignStmt{Lhs: s.Lhs, Tok: s.Tok, Rhs: []ast.Expr{call(sel(vc, fn), chx, ast.NewIdent(sv))}})
		default:
			r.fail(s, "unsupported select comm %T", s)
			return
		}
		clauses = append(clauses, &ast.CaseClause{
			List: []ast.Expr{&ast.BasicLit{Kind: token.INT, Value: strconv.Itoa(idx)}},
			Body: append(pre, cc.Body...),
		})
		idx++
	}
	def := "false"
	if hasDefault {
		def = "true"
	}
	if !hasDefault {
		// a select without default is a terminating statement if its arms are; keep that property
		clauses = append(clauses, &ast.CaseClause{Body: []ast.Stmt{&ast.ExprStmt{X: call(ast.NewIdent("panic"), &ast.BasicLit{Kind: token.STRING, Value: `"vgen: unreachable select arm"`})}}})
	}
	args := append([]ast.Expr{ast.NewIdent(def)}, cases...)
	init := &ast.AssignStmt{Lhs: []ast.Expr{ast.NewIdent(sv)}, Tok: token.DEFINE, Rhs: []ast.Expr{call(sel(vc, "Select"), args...)}}
	sw := &ast.SwitchStmt{Init: init, Tag: &ast.SelectorExpr{X: ast.NewIdent(sv), Sel: ast.NewIdent("I")}, Body: &ast.BlockStmt{List: clauses}}
	if len(hoist) > 0 {
		c.Replace(&ast.BlockStmt{List: append(hoist, sw)})
		return
	}
	c.Replace(sw)
}

// vchanCall recognises a call _vchan.<name>(args...) generated earlier in the same pass.
func vchanCall(e ast.Expr, name string) ([]ast.Expr, bool) {
	ce, ok := unparen(e).(*ast.CallExpr)
	if !ok {
		return nil, false
	}
	se, ok := ce.Fun.(*ast.SelectorExpr)
	if !ok || se.Sel.Name != name {
		return nil, false
	}
	if id, ok := se.X.(*ast.Ident); !ok || id.Name != "_vchan" {
		return nil, false
	}
	return ce.Args, true
}

func unparen(e ast.Expr) ast.Expr {
	for {
		p, ok := e.(*ast.ParenExpr)
		if !ok {
			return e
		}
		e = p.X
	}
}
