package obfs

// C13 harness, sequential part: bounded-exhaustive enumeration of key x salt x payload length on
// the real salamanderObfuscator and the real obfsPacketConn (two independently constructed
// wrapped sockets over in-memory vnet sockets), compared with the PROTOCOL.md reference in
// oracle_test.go and, for a dumped corpus, with python3 hashlib.blake2b.

import (
	"bytes"
	"encoding/hex"
	"encoding/json"
	"errors"
	"fmt"
	"net"
	"os"
	"os/exec"
	"path/filepath"
	"reflect"
	"sort"
	"strings"
	"syscall"
	"testing"

	"verif.local/engine/evidence"
	"verif.local/engine/vnet"
)

type c13JunkSpec struct {
	Len   int `json:"len"`
	Class int `json:"class"` // 0 zeros, 1 pattern, 2 0xff, 3 prefix of a valid wire packet
}

type c13Case struct {
	Kind    string        `json:"kind"` // roundtrip | refuse | junk | zero | oversize | py
	KeyLen  int           `json:"key_len"`
	KeyFill int           `json:"key_fill"`
	Salt    string        `json:"salt,omitempty"`
	Content int           `json:"content"`
	Len     int           `json:"len"`
	Junk    []c13JunkSpec `json:"junk,omitempty"`
	// JunkRun > 0: the junk arrangement is repeated cyclically until JunkRun junk datagrams stand
	// in front of the valid one (run length of consecutive junk within one ReadFrom call)
	JunkRun int `json:"junk_run,omitempty"`
	// Inner (kinds quic-roundtrip | quic-junk): what the inner sockets CAN DO, see c13InnerClasses
	Inner string `json:"inner,omitempty"`
}

func (c *c13Case) key() []byte { return c13KeySpec{c.KeyLen, c.KeyFill}.bytes() }
func (c *c13Case) salt() []byte {
	b, _ := hex.DecodeString(c.Salt)
	return b
}

// junk expands the arrangement to the run actually injected (see JunkRun).
func (c *c13Case) junk() []c13JunkSpec {
	if c.JunkRun <= 0 || len(c.Junk) == 0 {
		return c.Junk
	}
	run := make([]c13JunkSpec, c.JunkRun)
	for i := range run {
		run[i] = c.Junk[i%len(c.Junk)]
	}
	return run
}

const c13MaxReports = 4

var errC13Empty = errors.New("c13: inner socket has no packet (would block)")

// c13NoBlock is the receiving inner socket: an empty inbox is an error instead of blocking, so a
// wrongly dropped packet shows up as a clause instead of hanging the shard.
type c13NoBlock struct {
	*vnet.PacketConn
	reads int
}

func (c *c13NoBlock) ReadFrom(b []byte) (int, net.Addr, error) {
	c.reads++
	if c.PacketConn.Pending() == 0 {
		return 0, nil, errC13Empty
	}
	return c.PacketConn.ReadFrom(b)
}

// c13Pair: two wrapped sockets built independently from the same key (sender A, receiver B).
type c13Pair struct {
	key            []byte
	innerA         *vnet.PacketConn
	innerB         *c13NoBlock
	connA, connB   *obfsPacketConn
	obA, obB       *salamanderObfuscator
	addrA, addrB   *net.UDPAddr
	junkAddr       *net.UDPAddr
	standaloneOb   *salamanderObfuscator // a third object, used through Obfuscate/Deobfuscate directly
	standaloneOpen *salamanderObfuscator
}

func c13NewPair(key []byte) (*c13Pair, string) {
	p := &c13Pair{key: key, addrA: c13Addr(4001), addrB: c13Addr(4002), junkAddr: c13Addr(6666)}
	p.innerA = vnet.NewPacketConn("innerA", 4001)
	p.innerB = &c13NoBlock{PacketConn: vnet.NewPacketConn("innerB", 4002)}
	// each constructor gets its own copy of the key: the object must not depend on the caller's slice
	ka, kb := append([]byte(nil), key...), append([]byte(nil), key...)
	pa, err := WrapPacketConnSalamander(p.innerA, ka)
	if err != nil {
		return nil, "key of " + fmt.Sprint(len(key)) + " bytes refused: " + err.Error()
	}
	pb, err := WrapPacketConnSalamander(p.innerB, kb)
	if err != nil {
		return nil, "key of " + fmt.Sprint(len(key)) + " bytes refused: " + err.Error()
	}
	for i := range ka {
		ka[i], kb[i] = 0xEE, 0xEE // scribble over the caller's slices
	}
	var cl string
	if p.connA, p.obA, cl = c13Unwrap(pa); cl != "" {
		return nil, cl
	}
	if p.connB, p.obB, cl = c13Unwrap(pb); cl != "" {
		return nil, cl
	}
	if p.standaloneOb, err = newSalamanderObfuscator(key); err != nil {
		return nil, "newSalamanderObfuscator: " + err.Error()
	}
	if p.standaloneOpen, err = newSalamanderObfuscator(key); err != nil {
		return nil, "newSalamanderObfuscator: " + err.Error()
	}
	return p, ""
}

// c13SaltNotPinned counts outbound packets whose salt was not the enumerated one (the obfuscator
// consumes its random source differently from RandSrc.Read): reported in the evidence, not gated.
var c13SaltNotPinned int64

type c13PyLine struct {
	c                        c13Case
	key, salt, payload, wire []byte
}

// c13RoundTrip runs one (key, salt, content, length) case; dump receives the real wire bytes.
func c13RoundTrip(pr *c13Pair, salt []byte, content, n int, dump func(payload, wire []byte)) string {
	payload := c13Payload(content, n)
	orig := append([]byte(nil), payload...)
	ref := c13RefWire(pr.key, salt, payload)

	// capture the real wire datagram first, so that the python corpus gets it whatever the Go
	// reference says about it below
	c13PinSalt(pr.obA, salt)
	pr.innerA.Sent = nil
	nw, werr := pr.connA.WriteTo(payload, pr.addrB)
	if dump != nil && len(pr.innerA.Sent) == 1 {
		dump(orig, pr.innerA.Sent[0].Data)
	}

	// (a) the obfuscator object directly
	c13PinSalt(pr.standaloneOb, salt)
	out := make([]byte, n+c13SaltLen)
	if r := pr.standaloneOb.Obfuscate(payload, out); r != n+c13SaltLen {
		return fmt.Sprintf("Obfuscate returned %d for a %d-byte payload and a %d-byte output buffer, expected %d", r, n, len(out), n+c13SaltLen)
	}
	// the salt actually drawn is read off the wire: HOW the 8 bytes are taken from the random
	// source is not fixed by the property (the pinned source makes them deterministic, and equal to
	// the enumerated salt as long as the obfuscator fills the salt with RandSrc.Read)
	if !bytes.Equal(out[:c13SaltLen], salt) {
		c13SaltNotPinned++
	}
	ref = c13RefWire(pr.key, out[:c13SaltLen], payload)
	if d := c13FirstDiff(out, ref); d >= 0 {
		return fmt.Sprintf("Obfuscate: wire differs from salt||payload^BLAKE2b-256(key||salt) at wire offset %d (payload offset %d)", d, d-c13SaltLen)
	}
	if !bytes.Equal(payload, orig) {
		return "Obfuscate modified its input"
	}
	ref = c13RefWire(pr.key, salt, payload) // inbound direction: the enumerated salt, exactly
	wire := append([]byte(nil), ref...)     // fresh, cap == len
	dec := make([]byte, n)
	if r := pr.standaloneOpen.Deobfuscate(wire, dec); r != n {
		return fmt.Sprintf("Deobfuscate returned %d for a reference packet with a %d-byte payload", r, n)
	}
	if d := c13FirstDiff(dec, orig); d >= 0 {
		return fmt.Sprintf("Deobfuscate(reference wire) differs from the payload at offset %d", d)
	}
	if !bytes.Equal(wire, ref) {
		return "Deobfuscate modified its input"
	}

	// (b) through the wrapped sockets
	if werr != nil {
		return "WriteTo error: " + werr.Error()
	}
	if nw != n {
		return fmt.Sprintf("WriteTo reported %d bytes for a %d-byte packet", nw, n)
	}
	if !bytes.Equal(payload, orig) {
		return "WriteTo modified the caller's packet"
	}
	if len(pr.innerA.Sent) != 1 {
		return fmt.Sprintf("WriteTo put %d datagrams on the inner socket, expected 1", len(pr.innerA.Sent))
	}
	sent := pr.innerA.Sent[0]
	if len(sent.Data) != n+c13SaltLen {
		return fmt.Sprintf("wire datagram is %d bytes for a %d-byte packet, expected %d", len(sent.Data), n, n+c13SaltLen)
	}
	if !bytes.Equal(sent.Data[:c13SaltLen], salt) {
		c13SaltNotPinned++
	}
	if d := c13FirstDiff(sent.Data, c13RefWire(pr.key, sent.Data[:c13SaltLen], orig)); d >= 0 {
		return fmt.Sprintf("wire datagram differs from salt||payload^BLAKE2b-256(key||salt) at wire offset %d (payload offset %d)", d, d-c13SaltLen)
	}
	if !c13SameAddr(sent.Addr, pr.addrB) {
		return fmt.Sprintf("wire datagram sent to %v, expected %v", sent.Addr, pr.addrB)
	}
	pr.innerB.Inject(sent.Data, pr.addrA)
	buf := make([]byte, n) // exactly the packet size: a UDP read into an n-byte buffer must succeed
	nr, from, err := pr.connB.ReadFrom(buf)
	if err != nil {
		return "ReadFrom error (packet not delivered): " + err.Error()
	}
	if nr != n {
		return fmt.Sprintf("ReadFrom reported %d bytes for a %d-byte packet", nr, n)
	}
	if d := c13FirstDiff(buf[:nr], orig); d >= 0 {
		return fmt.Sprintf("packet read through the wrapped socket differs from the packet written at offset %d", d)
	}
	if !c13SameAddr(from, pr.addrA) {
		return fmt.Sprintf("ReadFrom reported source %v, expected %v", from, pr.addrA)
	}
	if pr.innerB.Pending() != 0 {
		return "inner socket still holds packets after the read"
	}
	return ""
}

func c13JunkBytes(pr *c13Pair, j c13JunkSpec) []byte {
	switch j.Class {
	case 3:
		w := c13RefWire(pr.key, c13Salts[4], c13Payload(1, 16))
		return append([]byte(nil), w[:j.Len]...)
	case 1:
		b := make([]byte, j.Len)
		for i := range b {
			b[i] = byte(0x31 + i*29)
		}
		return b
	default:
		return c13Payload(j.Class, j.Len)
	}
}

// c13JunkCase: junk packets, then one valid packet; the first ReadFrom must deliver the valid one.
func c13JunkCase(pr *c13Pair, junk []c13JunkSpec, salt []byte, n int) string {
	for _, j := range junk {
		pr.innerB.Inject(c13JunkBytes(pr, j), pr.junkAddr)
	}
	payload := c13Payload(1, n)
	pr.innerB.Inject(c13RefWire(pr.key, salt, payload), pr.addrA)
	buf := make([]byte, udpBufferSize)
	for i := range buf {
		buf[i] = 0xA5
	}
	before := pr.innerB.reads
	nr, from, err := pr.connB.ReadFrom(buf)
	if err != nil {
		return "ReadFrom error after junk (valid packet not delivered): " + err.Error()
	}
	if nr == 0 {
		return fmt.Sprintf("junk surfaced as an empty read (source %v) instead of being skipped", from)
	}
	if nr != n || !bytes.Equal(buf[:nr], payload) {
		if nr > 0 && nr <= c13SaltLen {
			return fmt.Sprintf("junk surfaced to the caller as a %d-byte packet", nr)
		}
		return fmt.Sprintf("first read after junk returned %d bytes which are not the valid %d-byte packet", nr, n)
	}
	if !c13SameAddr(from, pr.addrA) {
		return fmt.Sprintf("valid packet after junk reported from %v, expected %v", from, pr.addrA)
	}
	if got := pr.innerB.reads - before; got != len(junk)+1 {
		return fmt.Sprintf("reader took %d datagrams from the inner socket, expected %d junk + 1 valid", got, len(junk))
	}
	if pr.innerB.Pending() != 0 {
		return "inner socket still holds packets after the read"
	}
	return ""
}

// c13Refuse: keys shorter than 4 bytes are refused by both constructors.
func c13Refuse(key []byte) string {
	inner := vnet.NewPacketConn("inner", 4001)
	pc, err := WrapPacketConnSalamander(inner, key)
	if err == nil {
		return fmt.Sprintf("WrapPacketConnSalamander accepted a %d-byte key", len(key))
	}
	if pc != nil {
		return fmt.Sprintf("WrapPacketConnSalamander returned a socket together with the error for a %d-byte key", len(key))
	}
	ob, err := newSalamanderObfuscator(key)
	if err == nil || ob != nil {
		return fmt.Sprintf("newSalamanderObfuscator accepted a %d-byte key", len(key))
	}
	if inner.Closes != 0 || len(inner.Sent) != 0 {
		return "refusing the key touched the inner socket"
	}
	return ""
}

func c13RunCase(c *c13Case, pr *c13Pair, dump func(payload, wire []byte)) (clause string) {
	val, stack := evidence.Catch(func() {
		switch c.Kind {
		case "refuse":
			clause = c13Refuse(c.key())
			return
		case "quic-roundtrip", "quic-junk":
			qp, cl := c13NewQPair(c.key(), c.Inner)
			if cl != "" {
				clause = cl
				return
			}
			if c.Kind == "quic-junk" {
				clause = c13QJunkCase(qp, c.junk(), c.salt(), c.Len)
			} else {
				clause = c13QRoundTrip(qp, c.salt(), c.Content, c.Len)
			}
			return
		}
		if pr == nil {
			if pr, clause = c13NewPair(c.key()); clause != "" {
				return
			}
		}
		switch c.Kind {
		case "roundtrip":
			clause = c13RoundTrip(pr, c.salt(), c.Content, c.Len, dump)
		case "junk":
			clause = c13JunkCase(pr, c.junk(), c.salt(), c.Len)
		default:
			clause = "unknown case kind " + c.Kind
		}
	})
	if val != nil {
		return fmt.Sprintf("panic: %v at %s", val, evidence.PanicSite(stack))
	}
	return clause
}

func c13Sig(c *c13Case, clause string) string {
	// strip run-specific numbers from the clause so that one defect gives one signature per minimal case
	switch c.Kind {
	case "refuse":
		return fmt.Sprintf("refuse/%s/keylen=%d", clause, c.KeyLen)
	case "junk":
		if c.JunkRun > 0 {
			return fmt.Sprintf("junk/%s/key=%s,junk=%v,run=%d,len=%d", clause, c13KeySpec{c.KeyLen, c.KeyFill}, c.Junk, c.JunkRun, c.Len)
		}
		return fmt.Sprintf("junk/%s/key=%s,junk=%v,len=%d", clause, c13KeySpec{c.KeyLen, c.KeyFill}, c.Junk, c.Len)
	case "quic-junk":
		return fmt.Sprintf("quic-junk/%s/inner=%s,key=%s,junk=%v,len=%d", clause, c.Inner, c13KeySpec{c.KeyLen, c.KeyFill}, c.Junk, c.Len)
	case "quic-roundtrip":
		return fmt.Sprintf("quic-roundtrip/%s/inner=%s,key=%s,salt=%s,content=%d,len=%d", clause, c.Inner, c13KeySpec{c.KeyLen, c.KeyFill}, c.Salt, c.Content, c.Len)
	}
	return fmt.Sprintf("%s/%s/key=%s,salt=%s,content=%d,len=%d", c.Kind, clause, c13KeySpec{c.KeyLen, c.KeyFill}, c.Salt, c.Content, c.Len)
}

func c13LenClass(n int) string {
	switch {
	case n <= 33 || n >= c13MaxLen-1:
		return fmt.Sprint(n)
	case n%32 == 0 || n%32 == 1 || n%32 == 31:
		return fmt.Sprintf("m%d", n%32)
	}
	return "mid"
}

// ---- python cross-check ------------------------------------------------------------------------

const c13PyScript = `
import sys, hashlib
n = 0
for ln, line in enumerate(open(sys.argv[1]), 1):
    key, _pinned, payload, wire = [bytes.fromhex(x) for x in line.split()]
    salt = wire[:8]  # whatever salt the sender drew: the property fixes the format, not the generator
    h = hashlib.blake2b(key + salt, digest_size=32).digest()
    exp = salt + bytes(b ^ h[i % 32] for i, b in enumerate(payload))
    if len(salt) != 8 or exp != wire:
        print("MISMATCH", ln)
    n += 1
print("DONE", n)
`

// c13PyCheck recomputes the wire bytes of lines with python3 hashlib; returns the indices that
// disagree, or infra != "" when python could not be run.
func c13PyCheck(tag string, lines []c13PyLine) (bad []int, infra string) {
	if len(lines) == 0 {
		return nil, ""
	}
	py, err := exec.LookPath("python3")
	if err != nil {
		return nil, "python3 not found: " + err.Error()
	}
	dir := "/verif/.build/C13/pycorpus"
	if err := os.MkdirAll(dir, 0o755); err != nil {
		return nil, err.Error()
	}
	path := filepath.Join(dir, fmt.Sprintf("%s-%d.txt", tag, os.Getpid()))
	var sb strings.Builder
	for _, l := range lines {
		fmt.Fprintf(&sb, "%x %x %x %x\n", l.key, l.salt, l.payload, l.wire)
	}
	if err := os.WriteFile(path, []byte(sb.String()), 0o644); err != nil {
		return nil, err.Error()
	}
	defer os.Remove(path)
	outb, err := exec.Command(py, "-c", c13PyScript, path).CombinedOutput()
	out := string(outb)
	if err != nil {
		return nil, fmt.Sprintf("python3 failed: %v: %s", err, strings.TrimSpace(out))
	}
	done := false
	for _, l := range strings.Split(out, "\n") {
		var k int
		if _, e := fmt.Sscanf(l, "MISMATCH %d", &k); e == nil && k >= 1 && k <= len(lines) {
			bad = append(bad, k-1)
		}
		if _, e := fmt.Sscanf(l, "DONE %d", &k); e == nil {
			done = k == len(lines)
		}
	}
	if !done {
		return bad, "python3 did not process the whole corpus: " + strings.TrimSpace(out)
	}
	return bad, ""
}

var c13PyLens = []int{1, 2, 31, 32, 33, 63, 64, 65, 1199, 1200, 1252, 1472, 2039, 2040}

func c13InPyCorpus(thorough bool, ki, si, content, n int) bool {
	if content != 1 {
		return false
	}
	for _, l := range c13PyLens {
		if l == n {
			return true
		}
	}
	if !thorough {
		return false
	}
	if n <= 130 {
		return true
	}
	return (ki == 0 || ki == 6) && (si == 2 || si == 4)
}

// ---- enumeration -------------------------------------------------------------------------------

func c13Enumerate(sh *evidence.Shard) {
	env := sh.Env()
	var item int64
	mine := func() bool { item++; return env.Mine(item) }
	// at most c13MaxReports violations (the first = simplest failing cases) are written out per part
	// and shard; later failing cases are only counted (a broken keystream fails every case)
	reported := map[string]int{}
	report := func(p *evidence.Part, c *c13Case, clause string) {
		if reported[p.Name] >= c13MaxReports {
			p.Count("failing_cases_not_written_out", 1)
			return
		}
		reported[p.Name]++
		cc := *c
		sh.Violate(p.Name, c13Sig(c, clause), clause, &cc)
	}

	// (1) key acceptance
	p0 := sh.Part("key-length", "enum")
	p0.Alphabet = map[string]any{"refused": fmt.Sprint(c13RefusedKeys), "accepted": fmt.Sprint(c13ValidKeys)}
	for _, k := range c13RefusedKeys {
		if !mine() {
			continue
		}
		c := &c13Case{Kind: "refuse", KeyLen: k.Len, KeyFill: k.Fill}
		p0.Evaluations++
		clause := c13RunCase(c, nil, nil)
		p0.Class("refuse", k.Len, clause == "")
		p0.Sample(c)
		if clause != "" {
			report(p0, c, clause)
		}
	}

	// (2) round trips: every key x every salt x content x every payload length
	p1 := sh.Part("roundtrip", "enum")
	salts := []string{}
	for _, s := range c13Salts {
		salts = append(salts, hex.EncodeToString(s))
	}
	contents := []int{0, 1}
	p1.Alphabet = map[string]any{"keys(len,fill)": fmt.Sprint(c13ValidKeys), "salts": salts, "payload_len": "every length 1..2040", "content": "all-zero (bare keystream) and a position/length dependent pattern",
		"checked": "Obfuscate/Deobfuscate on separately constructed objects; WriteTo on socket A -> wire bytes on the inner socket -> ReadFrom on socket B (exact-size buffer): wire == reference, counts == len(p), bytes, source address"}
	var corpus []c13PyLine
	for ki, k := range c13ValidKeys {
		var pr *c13Pair
		key := k.bytes()
		for si, salt := range c13Salts {
			for _, content := range contents {
				for n := 1; n <= c13MaxLen; n++ {
					if !mine() {
						continue
					}
					if item&4095 == 0 && env.Expired() {
						p1.Exhaustive = false
						p1.Note("deadline reached in roundtrip at key %v salt %d content %d len %d; everything before it (in enumeration order) was covered", k, si, content, n)
						goto junk
					}
					c := &c13Case{Kind: "roundtrip", KeyLen: k.Len, KeyFill: k.Fill, Salt: salts[si], Content: content, Len: n}
					if pr == nil {
						var cl string
						if pr, cl = c13NewPair(key); cl != "" {
							p1.Evaluations++
							report(p1, c, cl)
							continue
						}
					}
					var dump func(payload, wire []byte)
					if c13InPyCorpus(env.Thorough(), ki, si, content, n) {
						dump = func(payload, wire []byte) {
							corpus = append(corpus, c13PyLine{c: *c, key: key, salt: salt, payload: append([]byte(nil), payload...), wire: append([]byte(nil), wire...)})
						}
					}
					p1.Evaluations++
					clause := c13RunCase(c, pr, dump)
					p1.Class(ki, si, content, c13LenClass(n), clause == "")
					if n == 33 && si == 2 && content == 1 {
						p1.Sample(c)
					}
					if clause != "" {
						report(p1, c, clause)
						pr = nil // the sockets may be left locked by a panic: start over
					}
				}
			}
		}
	}

junk:
	if c13SaltNotPinned > 0 {
		p1.Count("outbound_salts_not_the_enumerated_one", c13SaltNotPinned)
		p1.Note("the obfuscator does not fill the salt with RandSrc.Read: outbound salts were whatever it drew from the pinned source (read off the wire and used for the reference); the enumerated salts were still applied exactly in the inbound direction")
	}
	// (3) junk: too short to hold a salt and one payload byte
	p2 := sh.Part("junk", "enum")
	p2.Alphabet = map[string]any{"junk_len": "1..8", "junk_content": "zeros, pattern, 0xff, prefix of a valid wire packet", "arrangements": "one junk packet; the same length three times; all lengths 1..8 ascending; descending", "follower": "valid packet of 1 or 1200 bytes from another source address", "keys": fmt.Sprint(c13ValidKeys)}
	for _, k := range c13ValidKeys {
		var pr *c13Pair
		var arr [][]c13JunkSpec
		for class := 0; class <= 3; class++ {
			var asc, desc []c13JunkSpec
			for l := 1; l <= c13SaltLen; l++ {
				arr = append(arr, []c13JunkSpec{{l, class}})
				arr = append(arr, []c13JunkSpec{{l, class}, {l, class}, {l, class}})
				asc = append(asc, c13JunkSpec{l, class})
				desc = append(desc, c13JunkSpec{c13SaltLen + 1 - l, class})
			}
			arr = append(arr, asc, desc)
		}
		for ai, junk := range arr {
			for fi, fl := range []int{1, 1200} {
				if !mine() {
					continue
				}
				c := &c13Case{Kind: "junk", KeyLen: k.Len, KeyFill: k.Fill, Salt: salts[(ai+fi)%len(salts)], Len: fl, Junk: junk}
				if pr == nil {
					var cl string
					if pr, cl = c13NewPair(k.bytes()); cl != "" {
						p2.Evaluations++
						report(p2, c, cl)
						continue
					}
				}
				p2.Evaluations++
				clause := c13RunCase(c, pr, nil)
				p2.Class(k.String(), junk, fl, clause == "")
				if len(junk) == 3 && junk[0].Len == 8 && junk[0].Class == 3 {
					p2.Sample(c)
				}
				if clause != "" {
					report(p2, c, clause)
					pr = nil
				}
			}
		}
	}

	// (3b) junk runs: HOW MANY junk datagrams stand in a row in front of the valid one, all taken
	// within a single ReadFrom call. The property drops junk whatever its number: the first ReadFrom
	// returns the valid payload, and junk never surfaces - not even as an empty read. Added after the
	// independently seeded change C13-9 (ReadFrom gave up after 128 undecodable datagrams in one call
	// and returned (0, addr, nil), surfacing junk to QUIC as an empty packet).
	p2b := sh.Part("junk-run", "enum")
	runs := []int{1, 9, 127, 128, 129, 300, 1000}
	runLens, runClasses := []int{1, c13SaltLen}, []int{0, 3}
	if env.Thorough() {
		runs = nil
		for r := 1; r <= 520; r++ {
			runs = append(runs, r)
		}
		runs = append(runs, 1000, 1023, 1024, 1025, 4096)
		runLens, runClasses = []int{1, 2, 3, 4, 5, 6, 7, 8}, []int{0, 1, 2, 3}
	}
	p2b.Alphabet = map[string]any{"junk_run_length": fmt.Sprint(runs), "junk_len": fmt.Sprint(runLens) + " repeated, and the cycle 1..8", "junk_content": fmt.Sprint(runClasses) + " (0 zeros, 1 pattern, 2 0xff, 3 prefix of a valid wire packet)", "follower": "valid packet of 1 or 1200 bytes from another source address", "keys": fmt.Sprint(c13ValidKeys),
		"checked": "one ReadFrom on the wrapped socket: returns the valid payload and its source, took run+1 datagrams from the inner socket, no empty read, no error"}
	for _, k := range c13ValidKeys {
		var pr *c13Pair
		var arr [][]c13JunkSpec
		for _, class := range runClasses {
			var cyc []c13JunkSpec
			for l := 1; l <= c13SaltLen; l++ {
				cyc = append(cyc, c13JunkSpec{l, class})
			}
			for _, l := range runLens {
				arr = append(arr, []c13JunkSpec{{l, class}})
			}
			arr = append(arr, cyc)
		}
		for ai, junk := range arr {
			for ri, run := range runs {
				for fi, fl := range []int{1, 1200} {
					if !mine() {
						continue
					}
					if item&255 == 0 && env.Expired() {
						p2b.Exhaustive = false
						p2b.Note("deadline reached in junk-run at key %v arrangement %d run %d; everything before it (in enumeration order) was covered", k, ai, run)
						goto recorded
					}
					c := &c13Case{Kind: "junk", KeyLen: k.Len, KeyFill: k.Fill, Salt: salts[(ai+ri+fi)%len(salts)], Len: fl, Junk: junk, JunkRun: run}
					if pr == nil {
						var cl string
						if pr, cl = c13NewPair(k.bytes()); cl != "" {
							p2b.Evaluations++
							report(p2b, c, cl)
							continue
						}
					}
					p2b.Evaluations++
					clause := c13RunCase(c, pr, nil)
					p2b.Class(k.String(), junk, run, fl, clause == "")
					if run == 128 && len(junk) == 1 && junk[0].Len == 8 && junk[0].Class == 3 {
						p2b.Sample(c)
					}
					if clause != "" {
						report(p2b, c, clause)
						pr = nil
					}
				}
			}
		}
	}

	// (3c) capability of the inner socket x how the caller drives the wrapped value. Added after the
	// independently seeded change C13-10 (the wrapper of a UDP-like socket gained ReadMsgUDP/
	// WriteMsgUDP which, when the inner socket has them too, go straight to it: plaintext on the
	// wire, junk surfaced, spec-format datagrams not decoded - for a caller that, like quic-go,
	// prefers those methods when the value offers them).
	c13QuicPart(sh, mine, report, salts)

recorded:
	// (4) recorded, not gated: empty datagram and payloads beyond 2040 bytes
	if env.Shard == 0 {
		p3 := sh.Part("recorded-not-gated", "enum")
		p3.Alphabet = map[string]any{"inbound_len": []int{0}, "outbound_payload_len": "2041..2048, 2049, 4096"}
		c13Recorded(p3)
	}

	// (5) python cross-check of the real wire bytes captured above
	p4 := sh.Part("python-crosscheck", "enum")
	p4.Alphabet = map[string]any{"corpus": "real wire datagrams captured in the roundtrip part (pattern content): every key x every salt x lengths " + fmt.Sprint(c13PyLens) + "; thorough adds every length 1..130 for all keys/salts and every length 1..2040 for keys 4pat/255pat with salts 2 and 4", "oracle": "python3 hashlib.blake2b(key+salt, digest_size=32), payload[i]^hash[i%32]"}
	bad, infra := c13PyCheck(fmt.Sprintf("seq-%d", env.Shard), corpus)
	if infra != "" {
		p4.Exhaustive = false
		p4.Note("python cross-check not performed (infrastructure, not a violation): %s", infra)
	} else {
		p4.Evaluations += int64(len(corpus))
		for i := range corpus {
			l := &corpus[i]
			p4.Class(l.c.KeyLen, l.c.KeyFill, l.c.Salt, c13LenClass(l.c.Len))
			if i == 0 {
				p4.Sample(map[string]any{"key": c13Hex(l.key, 16), "salt": hex.EncodeToString(l.salt), "payload": c13Hex(l.payload, 16), "wire": c13Hex(l.wire, 24)})
			}
		}
		for _, i := range bad {
			c := corpus[i].c
			c.Kind = "py"
			clause := "real wire datagram differs from the python3 hashlib.blake2b recomputation"
			report(p4, &c, clause)
		}
	}
}

// c13Recorded writes the behaviours DESIGN.md lists as outside the property's range to the
// evidence; none of them gates.
func c13Recorded(p *evidence.Part) {
	pr, cl := c13NewPair(c13ValidKeys[0].bytes())
	if cl != "" {
		p.Note("could not build the pair: %s", cl)
		return
	}
	val, stack := evidence.Catch(func() {
		pr.innerB.Inject([]byte{}, pr.junkAddr)
		buf := make([]byte, udpBufferSize)
		n, from, err := pr.connB.ReadFrom(buf)
		p.Evaluations++
		p.Class("zero", n, err == nil)
		p.Note("inbound empty datagram: ReadFrom returned n=%d from=%v err=%v (an empty read carries no payload; recorded, not gated)", n, from, err)
		groups := map[string][]int{}
		for _, n := range []int{2041, 2042, 2043, 2044, 2045, 2046, 2047, 2048, 2049, 4096} {
			pr.innerA.Sent = nil
			c13PinSalt(pr.obA, c13Salts[2])
			nw, err := pr.connA.WriteTo(c13Payload(1, n), pr.addrB)
			p.Evaluations++
			d := fmt.Sprintf("WriteTo returned n=len(p)?%v err=%v; datagrams on the wire: %d", nw == n, err, len(pr.innerA.Sent))
			for _, s := range pr.innerA.Sent {
				d += fmt.Sprintf(" (len %d)", len(s.Data))
			}
			groups[d] = append(groups[d], n)
			p.Class("oversize", d)
		}
		var ks []string
		for d := range groups {
			ks = append(ks, d)
		}
		sort.Strings(ks)
		for _, d := range ks {
			p.Note("outbound payload lengths %v (beyond the property's 1..2040): %s (recorded, not gated)", groups[d], d)
		}
	})
	if val != nil {
		p.Note("panic while recording out-of-range behaviour: %v at %s", val, evidence.PanicSite(stack))
	}
}

func c13ReplaySeq(part string, raw json.RawMessage) (bool, bool, string) {
	var c c13Case
	if err := json.Unmarshal(raw, &c); err != nil || c.Kind == "" {
		return false, false, "not a sequential C13 case"
	}
	if c.Kind == "py" {
		pr, cl := c13NewPair(c.key())
		if cl != "" {
			return true, true, cl
		}
		var line []c13PyLine
		c.Kind = "roundtrip"
		clause := c13RunCase(&c, pr, func(payload, wire []byte) {
			line = append(line, c13PyLine{c: c, key: c.key(), salt: c.salt(), payload: payload, wire: append([]byte(nil), wire...)})
		})
		bad, infra := c13PyCheck("replay", line)
		if infra != "" {
			return true, false, infra
		}
		return true, len(bad) > 0 || clause != "", "python mismatch; go clause: " + clause
	}
	clause := c13RunCase(&c, nil, nil)
	return true, clause != "", clause
}

func TestVerifC13Seq(t *testing.T) {
	evidence.Main(t, "C13", evidence.Seq{Run: c13Enumerate, Replay: c13ReplaySeq})
}

// ---- inner sockets of different capability, driven the way quic-go drives a PacketConn -----------
//
// Added after the independently seeded change C13-10 (obfsPacketConnUDP gained ReadMsgUDP/
// WriteMsgUDP delegating to the inner socket without Obfuscate/Deobfuscate). The dimension is what
// the INNER socket can do - and therefore which wrapper WrapPacketConnSalamander returns and which
// methods that wrapper offers - together with a caller that picks its I/O methods by probing the
// wrapped value, as quic-go's wrapConn does with its OOBCapablePacketConn interface. Whatever path
// is taken, the property's clauses are the same: wire = salt || payload^BLAKE2b-256(key||salt),
// counts = len(p), the packet arrives unchanged, junk does not surface.

// c13InnerClasses: "plain" = net.PacketConn only; "udplike" = plus SyscallConn/SetReadBuffer/
// SetWriteBuffer (what realm.PunchPacketConn proxies); "oob" = plus ReadMsgUDP/WriteMsgUDP (the
// method set of a *net.UDPConn that quic-go probes for).
var c13InnerClasses = []string{"plain", "udplike", "oob"}

var errC13NoRawConn = errors.New("c13: in-memory socket has no descriptor")

// c13PlainInner hides the buffer setters of the vnet socket: a bare net.PacketConn.
type c13PlainInner struct{ net.PacketConn }

// c13UDPLikeInner: an in-memory socket with the udp-flavoured methods but no message I/O.
type c13UDPLikeInner struct{ *c13NoBlock }

func (c *c13UDPLikeInner) SyscallConn() (syscall.RawConn, error) { return nil, errC13NoRawConn }

// c13OOBInner additionally has the *net.UDPConn message methods, over the same in-memory queues
// (no control data: oobn = 0, flags = 0).
type c13OOBInner struct {
	*c13UDPLikeInner
	msgReads, msgWrites int
}

func (c *c13OOBInner) ReadMsgUDP(b, oob []byte) (n, oobn, flags int, addr *net.UDPAddr, err error) {
	c.msgReads++
	n, from, err := c.c13NoBlock.ReadFrom(b)
	addr, _ = from.(*net.UDPAddr)
	return n, 0, 0, addr, err
}

func (c *c13OOBInner) WriteMsgUDP(b, oob []byte, addr *net.UDPAddr) (n, oobn int, err error) {
	c.msgWrites++
	n, err = c.c13NoBlock.PacketConn.WriteTo(b, addr)
	return n, 0, err
}

// c13OOBCapable is the method set quic-go's wrapConn probes a net.PacketConn for
// (quic.OOBCapablePacketConn); a value that has it is read and written through the Msg methods.
type c13OOBCapable interface {
	net.PacketConn
	SyscallConn() (syscall.RawConn, error)
	SetReadBuffer(int) error
	ReadMsgUDP(b, oob []byte) (n, oobn, flags int, addr *net.UDPAddr, err error)
	WriteMsgUDP(b, oob []byte, addr *net.UDPAddr) (n, oobn int, err error)
}

// c13QuicWrite / c13QuicRead: one packet out / in, by the methods quic-go would choose.
func c13QuicWrite(pc net.PacketConn, p []byte, addr *net.UDPAddr) (n int, path string, err error) {
	if oc, ok := pc.(c13OOBCapable); ok {
		n, _, err = oc.WriteMsgUDP(p, nil, addr)
		return n, "WriteMsgUDP", err
	}
	n, err = pc.WriteTo(p, addr)
	return n, "WriteTo", err
}

func c13QuicRead(pc net.PacketConn, b []byte) (n int, from net.Addr, path string, err error) {
	if oc, ok := pc.(c13OOBCapable); ok {
		oob := make([]byte, 128)
		var ua *net.UDPAddr
		n, _, _, ua, err = oc.ReadMsgUDP(b, oob)
		if ua != nil {
			from = ua
		}
		return n, from, "ReadMsgUDP", err
	}
	n, from, err = pc.ReadFrom(b)
	return n, from, "ReadFrom", err
}

// c13QPair: sender A and receiver B wrapped over inner sockets of one capability class.
type c13QPair struct {
	key          []byte
	sentA        *vnet.PacketConn
	inB          *c13NoBlock
	connA, connB net.PacketConn
	obA          *salamanderObfuscator // nil if it could not be found: salts are then not pinned
	addrA, addrB *net.UDPAddr
	junkAddr     *net.UDPAddr
}

func c13NewQPair(key []byte, inner string) (*c13QPair, string) {
	p := &c13QPair{key: key, addrA: c13Addr(4001), addrB: c13Addr(4002), junkAddr: c13Addr(6666)}
	p.sentA = vnet.NewPacketConn("innerA", 4001)
	p.inB = &c13NoBlock{PacketConn: vnet.NewPacketConn("innerB", 4002)}
	var ia, ib net.PacketConn
	switch inner {
	case "plain":
		ia, ib = &c13PlainInner{p.sentA}, &c13PlainInner{p.inB}
	case "udplike":
		ia, ib = &c13UDPLikeInner{&c13NoBlock{PacketConn: p.sentA}}, &c13UDPLikeInner{p.inB}
	case "oob":
		ia = &c13OOBInner{c13UDPLikeInner: &c13UDPLikeInner{&c13NoBlock{PacketConn: p.sentA}}}
		ib = &c13OOBInner{c13UDPLikeInner: &c13UDPLikeInner{p.inB}}
	default:
		return nil, "unknown inner socket class " + inner
	}
	var err error
	if p.connA, err = WrapPacketConnSalamander(ia, append([]byte(nil), key...)); err != nil {
		return nil, "key of " + fmt.Sprint(len(key)) + " bytes refused: " + err.Error()
	}
	if p.connB, err = WrapPacketConnSalamander(ib, append([]byte(nil), key...)); err != nil {
		return nil, "key of " + fmt.Sprint(len(key)) + " bytes refused: " + err.Error()
	}
	p.obA = c13QObfs(p.connA)
	return p, ""
}

// c13QObfs finds the obfuscator of a wrapped socket by field name (whatever wrapper type it is),
// only to pin the outbound salt; nil if there is none to be found.
func c13QObfs(pc net.PacketConn) (ob *salamanderObfuscator) {
	defer func() { _ = recover() }()
	v := reflect.ValueOf(pc)
	for v.Kind() == reflect.Pointer || v.Kind() == reflect.Interface {
		v = v.Elem()
	}
	if f := v.FieldByName("Obfs"); f.IsValid() && f.CanInterface() {
		ob, _ = f.Interface().(*salamanderObfuscator)
	}
	return ob
}

// c13QPaths records which methods the probing caller ended up using (evidence only).
var c13QPaths = map[string]int64{}

// c13QRoundTrip: one packet A -> wire -> B, then one reference-format packet into B, all through
// the methods chosen by probing the wrapped values.
func c13QRoundTrip(qp *c13QPair, salt []byte, content, n int) string {
	payload := c13Payload(content, n)
	orig := append([]byte(nil), payload...)
	if qp.obA != nil {
		c13PinSalt(qp.obA, salt)
	}
	qp.sentA.Sent = nil
	nw, wpath, err := c13QuicWrite(qp.connA, payload, qp.addrB)
	c13QPaths[wpath]++
	if err != nil {
		return wpath + " error: " + err.Error()
	}
	if nw != n {
		return fmt.Sprintf("%s reported %d bytes for a %d-byte packet", wpath, nw, n)
	}
	if !bytes.Equal(payload, orig) {
		return wpath + " modified the caller's packet"
	}
	if len(qp.sentA.Sent) != 1 {
		return fmt.Sprintf("%s put %d datagrams on the inner socket, expected 1", wpath, len(qp.sentA.Sent))
	}
	sent := qp.sentA.Sent[0]
	if len(sent.Data) != n+c13SaltLen {
		return fmt.Sprintf("%s: wire datagram is %d bytes for a %d-byte packet, expected %d (8 salt bytes + payload)", wpath, len(sent.Data), n, n+c13SaltLen)
	}
	if d := c13FirstDiff(sent.Data, c13RefWire(qp.key, sent.Data[:c13SaltLen], orig)); d >= 0 {
		return fmt.Sprintf("%s: wire datagram differs from salt||payload^BLAKE2b-256(key||salt) at wire offset %d (payload offset %d)", wpath, d, d-c13SaltLen)
	}
	if !c13SameAddr(sent.Addr, qp.addrB) {
		return fmt.Sprintf("%s: wire datagram sent to %v, expected %v", wpath, sent.Addr, qp.addrB)
	}
	// B receives first what A really sent, then the reference wire packet with the enumerated salt
	for step, wire := range [][]byte{sent.Data, c13RefWire(qp.key, salt, orig)} {
		what := []string{"the datagram written through the other wrapped socket", "a reference-format datagram"}[step]
		qp.inB.Inject(wire, qp.addrA)
		buf := make([]byte, udpBufferSize)
		nr, from, rpath, err := c13QuicRead(qp.connB, buf)
		c13QPaths[rpath]++
		if err != nil {
			return fmt.Sprintf("%s error on %s (packet not delivered): %v", rpath, what, err)
		}
		if nr != n {
			return fmt.Sprintf("%s reported %d bytes for %s carrying a %d-byte packet", rpath, nr, what, n)
		}
		if d := c13FirstDiff(buf[:nr], orig); d >= 0 {
			return fmt.Sprintf("%s: packet read from %s differs from the packet written at offset %d", rpath, what, d)
		}
		if !c13SameAddr(from, qp.addrA) {
			return fmt.Sprintf("%s reported source %v, expected %v", rpath, from, qp.addrA)
		}
		if qp.inB.Pending() != 0 {
			return "inner socket still holds packets after the read"
		}
	}
	return ""
}

// c13QJunkCase: junk datagrams, then a valid one; the first read by the probing caller must be
// the valid packet.
func c13QJunkCase(qp *c13QPair, junk []c13JunkSpec, salt []byte, n int) string {
	jp := &c13Pair{key: qp.key} // c13JunkBytes only needs the key
	for _, j := range junk {
		qp.inB.Inject(c13JunkBytes(jp, j), qp.junkAddr)
	}
	payload := c13Payload(1, n)
	qp.inB.Inject(c13RefWire(qp.key, salt, payload), qp.addrA)
	buf := make([]byte, udpBufferSize)
	before := qp.inB.reads
	nr, from, rpath, err := c13QuicRead(qp.connB, buf)
	c13QPaths[rpath]++
	if err != nil {
		return rpath + " error after junk (valid packet not delivered): " + err.Error()
	}
	if nr == 0 {
		return fmt.Sprintf("%s: junk surfaced as an empty read (source %v) instead of being skipped", rpath, from)
	}
	if nr != n || !bytes.Equal(buf[:nr], payload) {
		if nr <= c13SaltLen {
			return fmt.Sprintf("%s: junk surfaced to the caller as a %d-byte packet", rpath, nr)
		}
		return fmt.Sprintf("%s: first read after junk returned %d bytes which are not the valid %d-byte packet", rpath, nr, n)
	}
	if !c13SameAddr(from, qp.addrA) {
		return fmt.Sprintf("%s: valid packet after junk reported from %v, expected %v", rpath, from, qp.addrA)
	}
	if got := qp.inB.reads - before; got != len(junk)+1 {
		return fmt.Sprintf("%s: reader took %d datagrams from the inner socket, expected %d junk + 1 valid", rpath, got, len(junk))
	}
	if qp.inB.Pending() != 0 {
		return "inner socket still holds packets after the read"
	}
	return ""
}

// c13QuicPart enumerates inner capability x key x salt x payload length (round trips) and inner
// capability x key x junk arrangement x follower (junk).
func c13QuicPart(sh *evidence.Shard, mine func() bool, report func(*evidence.Part, *c13Case, string), salts []string) {
	env := sh.Env()
	p := sh.Part("inner-capability", "enum")
	lens := c13PyLens
	if env.Thorough() {
		lens = nil
		for n := 1; n <= c13MaxLen; n++ {
			lens = append(lens, n)
		}
	}
	lensText := fmt.Sprint(lens)
	if env.Thorough() {
		lensText = "every length 1..2040"
	}
	p.Alphabet = map[string]any{
		"inner_socket_capability": "plain (net.PacketConn only); udplike (+SyscallConn, SetReadBuffer, SetWriteBuffer); oob (+ReadMsgUDP, WriteMsgUDP, as a *net.UDPConn) - the same class on both ends",
		"caller":                  "probes the WRAPPED value for quic-go's OOBCapablePacketConn method set (SyscallConn, SetReadBuffer, ReadMsgUDP, WriteMsgUDP): uses WriteMsgUDP/ReadMsgUDP when offered, else WriteTo/ReadFrom",
		"keys(len,fill)":          fmt.Sprint(c13ValidKeys), "salts": salts, "payload_len": lensText, "content": "position/length dependent pattern",
		"junk":    "lengths 1..8 x (zeros, prefix of a valid wire packet), one junk packet; all lengths ascending; follower of 1 or 1200 bytes",
		"checked": "write: count == len(p), one wire datagram == salt||payload^BLAKE2b-256(key||salt), destination; read of that datagram and of a reference datagram with the enumerated salt on the other wrapped socket: count, bytes, source; junk: the first read returns the valid packet, took junk+1 datagrams",
	}
	var n int64
	for _, inner := range c13InnerClasses {
		for ki, k := range c13ValidKeys {
			for si := range c13Salts {
				for _, l := range lens {
					if !mine() {
						continue
					}
					if n++; n&255 == 0 && env.Expired() {
						p.Exhaustive = false
						p.Note("deadline reached in inner-capability at inner %s key %v salt %d len %d; everything before it (in enumeration order) was covered", inner, k, si, l)
						goto done
					}
					c := &c13Case{Kind: "quic-roundtrip", Inner: inner, KeyLen: k.Len, KeyFill: k.Fill, Salt: salts[si], Content: 1, Len: l}
					p.Evaluations++
					clause := c13RunCase(c, nil, nil)
					p.Class(inner, ki, si, c13LenClass(l), clause == "")
					if l == 33 && si == 2 && ki == 0 {
						p.Sample(c)
					}
					if clause != "" {
						report(p, c, clause)
					}
				}
			}
			var arr [][]c13JunkSpec
			for _, class := range []int{0, 3} {
				var asc []c13JunkSpec
				for l := 1; l <= c13SaltLen; l++ {
					arr = append(arr, []c13JunkSpec{{l, class}})
					asc = append(asc, c13JunkSpec{l, class})
				}
				arr = append(arr, asc)
			}
			for ai, junk := range arr {
				for fi, fl := range []int{1, 1200} {
					if !mine() {
						continue
					}
					c := &c13Case{Kind: "quic-junk", Inner: inner, KeyLen: k.Len, KeyFill: k.Fill, Salt: salts[(ai+fi)%len(salts)], Len: fl, Junk: junk}
					p.Evaluations++
					clause := c13RunCase(c, nil, nil)
					p.Class(inner, k.String(), junk, fl, clause == "")
					if inner == "oob" && len(junk) == 1 && junk[0].Len == 8 && junk[0].Class == 3 {
						p.Sample(c)
					}
					if clause != "" {
						report(p, c, clause)
					}
				}
			}
		}
	}
done:
	var paths []string
	for k := range c13QPaths {
		paths = append(paths, k)
	}
	sort.Strings(paths)
	for _, k := range paths {
		p.Count("caller_used_"+k, c13QPaths[k])
	}
}
