package obfs

// C13 harness, shared part (injected by overlay into extras/obfs): the wire-format reference
// written from PROTOCOL.md ("Salamander" Obfuscation), pinned salt sources, alphabets.
//
//   packet = [8 bytes salt][payload]
//   hash   = BLAKE2b-256(key + salt)
//   payload[i] ^= hash[i % 32]
//   Any invalid packet MUST be discarded (a packet needs the salt and at least one payload byte).
//
// Nothing here calls the obfuscator under test.

import (
	"bytes"
	"fmt"
	"math/rand"
	"net"

	"golang.org/x/crypto/blake2b"
)

const (
	c13SaltLen = 8  // PROTOCOL.md: [8 bytes] Salt
	c13HashLen = 32 // PROTOCOL.md: BLAKE2b-256, hash[i % 32]
	c13MaxLen  = 2040
)

// c13Salts: 0^8, ff^8, 01..08 and three more (sign-bit/7-byte-draw boundary, mixed, low bit).
var c13Salts = [][]byte{
	{0, 0, 0, 0, 0, 0, 0, 0},
	{0xff, 0xff, 0xff, 0xff, 0xff, 0xff, 0xff, 0xff},
	{1, 2, 3, 4, 5, 6, 7, 8},
	{0x80, 0, 0, 0, 0, 0, 0x7f, 0x80},
	{0xde, 0xad, 0xbe, 0xef, 0x00, 0xff, 0x55, 0xaa},
	{0, 0, 0, 0, 0, 0, 0, 1},
}

// c13KeySpec names one key of the alphabet.
type c13KeySpec struct {
	Len  int
	Fill int // -1: position-dependent pattern, else every byte = Fill
}

var c13RefusedKeys = []c13KeySpec{{0, -1}, {1, -1}, {2, -1}, {3, -1}, {3, 0x00}}

// Fill -2: a typed, non-ASCII password of that many BYTES but fewer than four characters (4: one
// emoji, 5: "pw€", 6: "日本"): "every key of 4+ bytes" counts bytes (added after the independently
// seeded change C13-8: the minimum length was checked in code points).
var c13ValidKeys = []c13KeySpec{{4, -1}, {5, -1}, {31, -1}, {32, -1}, {33, -1}, {64, -1}, {255, -1}, {4, 0x00}, {32, 0xff}, {4, -2}, {5, -2}, {6, -2}}

var c13TextKeys = map[int]string{4: "\U0001F600", 5: "pw\u20ac", 6: "\u65e5\u672c"}

func (k c13KeySpec) bytes() []byte {
	if k.Fill == -2 {
		t := []byte(c13TextKeys[k.Len])
		if len(t) != k.Len {
			panic("c13: text key table")
		}
		return t
	}
	b := make([]byte, k.Len)
	for i := range b {
		if k.Fill >= 0 {
			b[i] = byte(k.Fill)
		} else {
			b[i] = byte(i*131 + k.Len*17 + 5)
		}
	}
	return b
}

func (k c13KeySpec) String() string {
	if k.Fill == -2 {
		return fmt.Sprintf("%dutf8", k.Len)
	}
	if k.Fill >= 0 {
		return fmt.Sprintf("%dx%02x", k.Len, k.Fill)
	}
	return fmt.Sprintf("%dpat", k.Len)
}

// c13Payload: fresh slice, cap == len. class 0: all zero (the wire then shows the bare keystream),
// 1: position/length dependent pattern, 2: all 0xff.
func c13Payload(class, n int) []byte {
	b := make([]byte, n)
	for i := range b {
		switch class {
		case 1:
			b[i] = byte(i*7 + n*3 + 1)
		case 2:
			b[i] = 0xff
		}
	}
	return b
}

// c13RefHash = BLAKE2b-256(key + salt), through the streaming interface.
func c13RefHash(key, salt []byte) []byte {
	h, err := blake2b.New256(nil)
	if err != nil {
		panic(err)
	}
	h.Write(key)
	h.Write(salt)
	return h.Sum(nil)
}

// c13RefWire is what PROTOCOL.md says goes on the wire for (key, salt, payload).
func c13RefWire(key, salt, payload []byte) []byte {
	hash := c13RefHash(key, salt)
	w := make([]byte, 0, c13SaltLen+len(payload))
	w = append(w, salt[:c13SaltLen]...)
	for i := 0; i < len(payload); i++ {
		w = append(w, payload[i]^hash[i%c13HashLen])
	}
	return w
}

// c13RefOpen decodes a wire packet; ok=false for a packet that cannot hold a salt and one byte.
func c13RefOpen(key, wire []byte) (payload []byte, ok bool) {
	if len(wire) < c13SaltLen+1 {
		return nil, false
	}
	hash := c13RefHash(key, wire[:c13SaltLen])
	payload = make([]byte, len(wire)-c13SaltLen)
	for i := range payload {
		payload[i] = wire[c13SaltLen+i] ^ hash[i%c13HashLen]
	}
	return payload, true
}

// c13SaltSrc is a math/rand Source whose byte stream (as consumed by (*rand.Rand).Read: seven
// low-order bytes of every Int63, little end first) is exactly b, then zeros.
type c13SaltSrc struct {
	b   []byte
	pos int
}

func (s *c13SaltSrc) Int63() int64 {
	var v int64
	for i := 0; i < 7; i++ {
		if s.pos < len(s.b) {
			v |= int64(s.b[s.pos]) << (8 * i)
			s.pos++
		}
	}
	return v
}

func (s *c13SaltSrc) Seed(int64) {}

// c13PinSalt makes the next salt drawn by ob exactly salt (a fresh Rand: no bytes cached from
// an earlier draw).
func c13PinSalt(ob *salamanderObfuscator, salt []byte) {
	ob.RandSrc = rand.New(&c13SaltSrc{b: append([]byte(nil), salt...)})
}

func c13Addr(port int) *net.UDPAddr {
	return &net.UDPAddr{IP: net.IPv4(10, 13, byte(port>>8), byte(port)), Port: port}
}

func c13SameAddr(a, b net.Addr) bool {
	if a == nil || b == nil {
		return a == nil && b == nil
	}
	return a.Network() == b.Network() && a.String() == b.String()
}

func c13Hex(b []byte, max int) string {
	if len(b) <= max {
		return fmt.Sprintf("%x", b)
	}
	return fmt.Sprintf("%x..(%d)", b[:max], len(b))
}

// c13FirstDiff: index of the first differing byte (or the shorter length), -1 if equal.
func c13FirstDiff(a, b []byte) int {
	if bytes.Equal(a, b) {
		return -1
	}
	n := min(len(a), len(b))
	for i := 0; i < n; i++ {
		if a[i] != b[i] {
			return i
		}
	}
	return n
}

func c13Unwrap(pc net.PacketConn) (*obfsPacketConn, *salamanderObfuscator, string) {
	c, ok := pc.(*obfsPacketConn)
	if !ok {
		return nil, nil, fmt.Sprintf("WrapPacketConnSalamander returned %T, expected *obfsPacketConn", pc)
	}
	ob, ok := c.Obfs.(*salamanderObfuscator)
	if !ok {
		return nil, nil, fmt.Sprintf("wrapped socket uses %T, expected *salamanderObfuscator", c.Obfs)
	}
	return c, ob, ""
}
