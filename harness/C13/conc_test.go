package obfs

// C13 harness, concurrent part: ONE wrapped socket shared by writer and reader threads.
//   unit "conc": every schedule with <= P preemptions under the controlled scheduler (explore);
//   unit "race": the same bodies free-running on real goroutines in a -race build (child process).

import (
	"bytes"
	"encoding/json"
	"fmt"
	"math/rand"
	"net"
	"os"
	"os/exec"
	"regexp"
	"runtime"
	"sort"
	"strconv"
	"strings"
	"sync"
	"syscall"
	"testing"
	"time"

	"verif.local/engine/evidence"
	"verif.local/engine/explore"
	"verif.local/engine/vnet"
	"verif.local/engine/vsched"
	"verif.local/engine/vsync"
)

// c13Ctx abstracts "under the explorer" (e != nil) from "free-running" (e == nil).
type c13Ctx struct {
	e     *vsched.Exec
	mu    sync.Mutex
	fails []string
}

func (c *c13Ctx) fail(format string, a ...any) {
	if c.e != nil {
		c.e.Fail(format, a...)
		return
	}
	c.mu.Lock()
	c.fails = append(c.fails, fmt.Sprintf(format, a...))
	c.mu.Unlock()
}

func (c *c13Ctx) logf(format string, a ...any) {
	if c.e != nil {
		c.e.Logf(format, a...)
	}
}

func (c *c13Ctx) yield() {
	if c.e != nil {
		c.e.Sleep(0)
		return
	}
	runtime.Gosched()
}

type c13Pkt struct {
	id      string
	payload []byte
	addr    *net.UDPAddr // destination (outbound) or source (inbound)
	junk    bool
}

func c13Fill(n int, seed byte) []byte {
	b := make([]byte, n)
	for i := range b {
		b[i] = seed + byte(i)
	}
	return b
}

type c13ReadRes struct {
	data []byte
	addr net.Addr
	err  error
}

type c13WriteRes struct {
	n   int
	err error
}

// c13ConcBody: writers[i] is the packet list of writer thread i; inbound is injected (valid
// packets obfuscated by the REFERENCE, junk as is) either before the threads start or by an
// injector thread; each of nReaders threads reads perReader packets.
func c13ConcBody(c *c13Ctx, writers [][]c13Pkt, inbound []c13Pkt, nReaders, perReader int, lateInject bool) {
	c13ConcBodyKey(c, c13KeySpec{5, -1}, writers, inbound, nReaders, perReader, lateInject)
}

func c13ConcBodyKey(c *c13Ctx, ks c13KeySpec, writers [][]c13Pkt, inbound []c13Pkt, nReaders, perReader int, lateInject bool) {
	c13ConcBodyRefuse(c, ks, writers, inbound, nReaders, perReader, lateInject, nil)
}

// c13ConcBodyRefuse: refuse (may be nil) is the inner socket's answer to its n-th WriteTo (1-based):
// a non-nil error means the datagram is refused and nothing goes on the wire, as a UDP socket does
// with EMSGSIZE/ENOBUFS/EPERM. A writer goes on with its next packet after an error, like quic-go
// does for these errors. The clauses are the same: every WriteTo returns, every packet whose
// WriteTo reported success is on the wire exactly once, intact, with the original size reported.
func c13ConcBodyRefuse(c *c13Ctx, ks c13KeySpec, writers [][]c13Pkt, inbound []c13Pkt, nReaders, perReader int, lateInject bool, refuse func(n int) error) {
	key := ks.bytes()
	inner := vnet.NewPacketConn("inner", 3000)
	_ = inner.SetDeadline(time.Time{}) // no deadline; touches the fake once before any thread exists (its lazy initialisation is not thread-safe when free-running)
	pc, err := WrapPacketConnSalamander(inner, key)
	if err != nil {
		c.fail("wrap: %v", err)
		return
	}
	conn, ob, cl := c13Unwrap(pc)
	if cl != "" {
		c.fail("%s", cl)
		return
	}
	ob.RandSrc = rand.New(rand.NewSource(13)) // pinned salt stream; salts are read back off the wire
	refusals := 0
	if refuse != nil {
		inner.WriteErr = func(n int, _ vnet.Packet) error {
			err := refuse(n)
			if err != nil {
				refusals++
			}
			return err
		}
	}

	inject := func(i int, p c13Pkt) {
		if p.junk {
			inner.Inject(p.payload, p.addr)
			return
		}
		inner.Inject(c13RefWire(key, c13Salts[i%len(c13Salts)], p.payload), p.addr)
	}
	if !lateInject {
		for i, p := range inbound {
			inject(i, p)
		}
	}

	var wg vsync.WaitGroup
	wres := make([][]c13WriteRes, len(writers))
	rres := make([][]c13ReadRes, nReaders)
	for w := range writers {
		wg.Add(1)
		vsched.Go(func() {
			defer wg.Done()
			for _, p := range writers[w] {
				n, err := conn.WriteTo(p.payload, p.addr)
				wres[w] = append(wres[w], c13WriteRes{n, err})
			}
		})
	}
	for r := 0; r < nReaders; r++ {
		wg.Add(1)
		vsched.Go(func() {
			defer wg.Done()
			buf := make([]byte, udpBufferSize)
			for k := 0; k < perReader; k++ {
				n, addr, err := conn.ReadFrom(buf)
				rres[r] = append(rres[r], c13ReadRes{append([]byte(nil), buf[:max(n, 0)]...), addr, err})
			}
		})
	}
	if lateInject {
		wg.Add(1)
		vsched.Go(func() {
			defer wg.Done()
			for i, p := range inbound {
				if i%2 == 0 {
					c.yield() // junk and the valid packet behind it arrive together
				}
				inject(i, p)
			}
		})
	}
	wg.Wait()

	// ---- oracles ----
	// every WriteTo reports the original packet's size; an error is only acceptable for a datagram
	// the inner socket refused (at most one reported error per refusal)
	var written []c13Pkt
	var accepted []bool // parallel to written: WriteTo reported success
	errs := 0
	for w := range writers {
		if len(wres[w]) != len(writers[w]) {
			c.fail("writer %d completed %d of %d writes", w, len(wres[w]), len(writers[w]))
		}
		var outs []string
		for i, r := range wres[w] {
			p := writers[w][i]
			switch {
			case r.err != nil && refuse != nil:
				errs++
				outs = append(outs, "err")
			case r.err != nil || r.n != len(p.payload):
				c.fail("WriteTo(%s, %d bytes) = (%d, %v)", p.id, len(p.payload), r.n, r.err)
				outs = append(outs, "bad")
			default:
				outs = append(outs, "ok")
			}
			written = append(written, p)
			accepted = append(accepted, r.err == nil)
		}
		for i := len(wres[w]); i < len(writers[w]); i++ { // never attempted: still owed to the wire
			written = append(written, writers[w][i])
			accepted = append(accepted, true)
		}
		if refuse != nil {
			c.logf("writer %d results: %s", w, strings.Join(outs, ","))
		}
	}
	if errs > refusals {
		c.fail("%d WriteTo calls reported an error but the inner socket refused only %d datagrams", errs, refusals)
	}
	// every wire datagram is well-formed and is exactly one written packet, to its destination
	var order []string
	remaining := append([]c13Pkt(nil), written...)
	remAccepted := append([]bool(nil), accepted...)
	for _, s := range inner.Sent {
		got, ok := c13RefOpen(key, s.Data)
		if !ok {
			c.fail("wire datagram of %d bytes is too short to be a Salamander packet", len(s.Data))
			order = append(order, "?")
			continue
		}
		found := -1
		for i, p := range remaining {
			if bytes.Equal(p.payload, got) && c13SameAddr(p.addr, s.Addr) {
				found = i
				break
			}
		}
		if found < 0 {
			c.fail("wire datagram to %v (%d bytes) does not decode to a packet written to that address (torn or mixed buffer): %s", s.Addr, len(s.Data), c13Describe(got, written))
			order = append(order, "?")
			continue
		}
		order = append(order, remaining[found].id)
		remaining = append(remaining[:found], remaining[found+1:]...)
		remAccepted = append(remAccepted[:found], remAccepted[found+1:]...)
	}
	for i, p := range remaining {
		if remAccepted[i] {
			c.fail("written packet %s never appeared on the wire", p.id)
		}
	}
	c.logf("wire order: %s", strings.Join(order, ","))
	// every read returns exactly one injected valid packet, intact, with its source address
	var valid []c13Pkt
	for _, p := range inbound {
		if !p.junk {
			valid = append(valid, p)
		}
	}
	left := append([]c13Pkt(nil), valid...)
	for r := range rres {
		var ids []string
		if len(rres[r]) != perReader {
			c.fail("reader %d completed %d of %d reads", r, len(rres[r]), perReader)
		}
		for _, x := range rres[r] {
			if x.err != nil {
				c.fail("ReadFrom error: %v", x.err)
				ids = append(ids, "err")
				continue
			}
			found := -1
			for i, p := range left {
				if bytes.Equal(p.payload, x.data) && c13SameAddr(p.addr, x.addr) {
					found = i
					break
				}
			}
			if found < 0 {
				c.fail("ReadFrom returned %d bytes from %v that are not an injected packet from that address (junk surfaced, torn buffer or duplicate): %s", len(x.data), x.addr, c13Describe(x.data, valid))
				ids = append(ids, "?")
				continue
			}
			ids = append(ids, left[found].id)
			left = append(left[:found], left[found+1:]...)
		}
		c.logf("reader %d got %s", r, strings.Join(ids, ","))
	}
	if nReaders*perReader == len(valid) {
		for _, p := range left {
			c.fail("injected packet %s was never delivered", p.id)
		}
		if inner.Pending() != 0 {
			c.fail("%d datagrams left on the inner socket", inner.Pending())
		}
	}
}

// c13Describe says which known packet b resembles (stable text: part of the signature).
func c13Describe(b []byte, known []c13Pkt) string {
	for _, p := range known {
		if bytes.Equal(p.payload, b) {
			return "content of " + p.id + " with another packet's address"
		}
	}
	for _, p := range known {
		n := min(len(p.payload), len(b))
		if n > 0 && bytes.Equal(p.payload[:n], b[:n]) {
			return fmt.Sprintf("%d bytes, begins like %s (%d bytes)", len(b), p.id, len(p.payload))
		}
	}
	return fmt.Sprintf("%d bytes matching no packet", len(b))
}

func c13Preloaded(c *c13Ctx) {
	writers := [][]c13Pkt{
		{{id: "a", payload: c13Fill(40, 0xA0), addr: c13Addr(4001)}, {id: "b", payload: c13Fill(9, 0xB0), addr: c13Addr(4002)}},
		{{id: "c", payload: c13Fill(100, 0xC0), addr: c13Addr(4003)}, {id: "d", payload: c13Fill(1, 0xD0), addr: c13Addr(4004)}},
	}
	inbound := []c13Pkt{
		{id: "v1", payload: c13Fill(33, 0x10), addr: c13Addr(5001)},
		{id: "j5", payload: c13Fill(5, 0x70), addr: c13Addr(5999), junk: true},
		{id: "v2", payload: c13Fill(7, 0x20), addr: c13Addr(5002)},
		{id: "v3", payload: c13Fill(64, 0x30), addr: c13Addr(5003)},
		{id: "j8", payload: c13Fill(8, 0x78), addr: c13Addr(5998), junk: true},
		{id: "v4", payload: c13Fill(1, 0x40), addr: c13Addr(5004)},
	}
	c13ConcBody(c, writers, inbound, 2, 2, false)
}

func c13LateInject(c *c13Ctx) {
	writers := [][]c13Pkt{
		{{id: "a", payload: c13Fill(48, 0xA0), addr: c13Addr(4001)}, {id: "b", payload: c13Fill(3, 0xB0), addr: c13Addr(4002)}},
	}
	inbound := []c13Pkt{
		{id: "j3", payload: c13Fill(3, 0x70), addr: c13Addr(5999), junk: true},
		{id: "v1", payload: c13Fill(20, 0x10), addr: c13Addr(5001)},
		{id: "j8", payload: c13Fill(8, 0x78), addr: c13Addr(5998), junk: true},
		{id: "v2", payload: c13Fill(2, 0x20), addr: c13Addr(5002)},
	}
	c13ConcBody(c, writers, inbound, 2, 1, true)
}

// c13KeyCapacity: one writer and one reader on one socket, for key lengths whose private copy
// inside the obfuscator has spare capacity in its allocation size class (36 -> 48: 12 spare,
// 40 -> 48: exactly one salt) or none (64). A key derivation that appends the salt to the stored
// key writes into memory shared by both directions for the first two; the instrumenter puts a
// scheduling point after every append/copy of salamander.go and conn.go (mem_points), so the
// window between that write and the hash is explored.
var c13CapacityKeys = []c13KeySpec{{36, -1}, {40, -1}, {64, -1}}

func c13KeyCapacity(c *c13Ctx, ks c13KeySpec) {
	writers := [][]c13Pkt{
		{{id: "a", payload: c13Fill(40, 0xA0), addr: c13Addr(4001)}, {id: "b", payload: c13Fill(9, 0xB0), addr: c13Addr(4002)}},
	}
	inbound := []c13Pkt{
		{id: "v1", payload: c13Fill(33, 0x10), addr: c13Addr(5001)},
		{id: "v2", payload: c13Fill(7, 0x20), addr: c13Addr(5002)},
	}
	c13ConcBodyKey(c, ks, writers, inbound, 1, 2, false)
}

// c13TwoSockets: the state of OTHER wrapped sockets. A first socket is wrapped, used and closed —
// twice, as callers do (the client closes its packet conn on the reconnect path and the owner
// closes it again) — then two more sockets with different keys are wrapped and used by two
// threads at the same time, each through its own inner socket. Whatever the package keeps or
// recycles across sockets, each inner socket must carry exactly the packets written to its
// wrapper, under its wrapper's key (added after the independently seeded change C13-3).
func c13TwoSockets(c *c13Ctx) {
	keyX, keyB, keyC := c13KeySpec{7, -1}.bytes(), c13KeySpec{32, 0xff}.bytes(), c13KeySpec{5, -1}.bytes()
	mk := func(name string, port int, key []byte) (net.PacketConn, *vnet.PacketConn) {
		inner := vnet.NewPacketConn(name, port)
		_ = inner.SetDeadline(time.Time{})
		pc, err := WrapPacketConnSalamander(inner, key)
		if err != nil {
			c.fail("wrap: %v", err)
			return nil, nil
		}
		return pc, inner
	}
	x, innerX := mk("inner-x", 3100, keyX)
	if x == nil {
		return
	}
	if _, err := x.WriteTo(c13Fill(20, 0x50), c13Addr(4100)); err != nil {
		c.fail("WriteTo on the first socket: %v", err)
	}
	_ = x.Close()
	_ = x.Close()
	_ = innerX
	b, innerB := mk("inner-b", 3101, keyB)
	cc, innerC := mk("inner-c", 3102, keyC)
	if b == nil || cc == nil {
		return
	}
	type sock struct {
		name  string
		pc    net.PacketConn
		inner *vnet.PacketConn
		key   []byte
		out   []c13Pkt
		in    c13Pkt
	}
	socks := []*sock{
		{name: "B", pc: b, inner: innerB, key: keyB, out: []c13Pkt{{id: "b1", payload: c13Fill(40, 0xB0), addr: c13Addr(4101)}, {id: "b2", payload: c13Fill(9, 0xB8), addr: c13Addr(4102)}},
			in: c13Pkt{id: "vb", payload: c13Fill(33, 0x10), addr: c13Addr(5101)}},
		{name: "C", pc: cc, inner: innerC, key: keyC, out: []c13Pkt{{id: "c1", payload: c13Fill(40, 0xC0), addr: c13Addr(4103)}, {id: "c2", payload: c13Fill(100, 0xC8), addr: c13Addr(4104)}},
			in: c13Pkt{id: "vc", payload: c13Fill(33, 0x20), addr: c13Addr(5102)}},
	}
	var wg vsync.WaitGroup
	got := make([]c13ReadRes, len(socks))
	for i, s := range socks {
		s.inner.Inject(c13RefWire(s.key, c13Salts[i], s.in.payload), s.in.addr)
		wg.Add(2)
		vsched.Go(func() {
			defer wg.Done()
			for _, p := range s.out {
				if n, err := s.pc.WriteTo(p.payload, p.addr); err != nil || n != len(p.payload) {
					c.fail("socket %s: WriteTo(%s, %d bytes) = (%d, %v)", s.name, p.id, len(p.payload), n, err)
				}
			}
		})
		vsched.Go(func() {
			defer wg.Done()
			buf := make([]byte, udpBufferSize)
			n, addr, err := s.pc.ReadFrom(buf)
			got[i] = c13ReadRes{append([]byte(nil), buf[:max(n, 0)]...), addr, err}
		})
	}
	wg.Wait()
	for i, s := range socks {
		if len(s.inner.Sent) != len(s.out) {
			c.fail("socket %s put %d datagrams on its inner socket for %d packets written", s.name, len(s.inner.Sent), len(s.out))
		}
		for j, w := range s.inner.Sent {
			if j >= len(s.out) {
				break
			}
			p := s.out[j]
			dec, ok := c13RefOpen(s.key, w.Data)
			if !ok || !bytes.Equal(dec, p.payload) || !c13SameAddr(w.Addr, p.addr) {
				other := ""
				for _, o := range socks {
					if o == s {
						continue
					}
					if d2, ok2 := c13RefOpen(o.key, w.Data); ok2 {
						other = "; " + c13Describe(d2, o.out) + " of socket " + o.name + " under socket " + o.name + "'s key"
					}
				}
				c.fail("socket %s: wire datagram %d (%d bytes to %v) is not packet %s written to it, under its own key%s", s.name, j, len(w.Data), w.Addr, p.id, other)
			}
		}
		if got[i].err != nil || !bytes.Equal(got[i].data, s.in.payload) || !c13SameAddr(got[i].addr, s.in.addr) {
			c.fail("socket %s: ReadFrom returned (%d bytes, %v, %v), expected packet %s intact from %v", s.name, len(got[i].data), got[i].addr, got[i].err, s.in.id, s.in.addr)
		}
		_ = s.pc.Close()
	}
}

// Refused datagrams (added after the independently seeded change C13-7: an early return on the
// inner socket's write error kept writeMutex locked, so every later WriteTo on the wrapped socket
// blocked). The new dimension is the inner socket's ANSWER to a write: a UDP socket refuses single
// datagrams with transient errors (EMSGSIZE for an over-MTU probe, ENOBUFS, EPERM) and the caller
// writes on through the same wrapped socket. Alphabet: which of the writes are refused x the error.
type c13ErrKind struct {
	Name string
	Err  error
}

var c13WriteErrKinds = []c13ErrKind{
	{"EMSGSIZE", &net.OpError{Op: "write", Net: "udp", Err: os.NewSyscallError("sendto", syscall.EMSGSIZE)}},
	{"ENOBUFS", &net.OpError{Op: "write", Net: "udp", Err: os.NewSyscallError("sendto", syscall.ENOBUFS)}},
	{"EPERM", &net.OpError{Op: "write", Net: "udp", Err: os.NewSyscallError("sendto", syscall.EPERM)}},
}

const c13RefuseHistoryLen = 4 // packets of the single writer; every non-empty subset of them is refused

// c13RefusedHistory: ONE writer sends four packets of different sizes (a large one followed by small
// ones: a stale write buffer would show) and the inner socket refuses exactly the writes of mask
// (bit i = i-th WriteTo of the inner socket); a reader works on the same socket meanwhile.
func c13RefusedHistory(c *c13Ctx, mask int, kind c13ErrKind) {
	writers := [][]c13Pkt{{
		{id: "a", payload: c13Fill(40, 0xA0), addr: c13Addr(4001)},
		{id: "b", payload: c13Fill(1452, 0xB0), addr: c13Addr(4002)},
		{id: "c", payload: c13Fill(9, 0xC0), addr: c13Addr(4003)},
		{id: "d", payload: c13Fill(1, 0xD0), addr: c13Addr(4004)},
	}}
	inbound := []c13Pkt{
		{id: "v1", payload: c13Fill(33, 0x10), addr: c13Addr(5001)},
		{id: "j5", payload: c13Fill(5, 0x70), addr: c13Addr(5999), junk: true},
		{id: "v2", payload: c13Fill(7, 0x20), addr: c13Addr(5002)},
	}
	c13ConcBodyRefuse(c, c13KeySpec{5, -1}, writers, inbound, 1, 2, false, func(n int) error {
		if n >= 1 && n <= c13RefuseHistoryLen && mask&(1<<(n-1)) != 0 {
			return kind.Err
		}
		return nil
	})
}

// c13RefusedNth: TWO writers with two packets each; the inner socket refuses its nth WriteTo, so
// the schedule decides whose packet is hit and who is waiting for the write lock at that moment.
func c13RefusedNth(c *c13Ctx, nth int, kind c13ErrKind) {
	writers := [][]c13Pkt{
		{{id: "a", payload: c13Fill(40, 0xA0), addr: c13Addr(4001)}, {id: "b", payload: c13Fill(9, 0xB0), addr: c13Addr(4002)}},
		{{id: "c", payload: c13Fill(100, 0xC0), addr: c13Addr(4003)}, {id: "d", payload: c13Fill(1, 0xD0), addr: c13Addr(4004)}},
	}
	inbound := []c13Pkt{{id: "v1", payload: c13Fill(33, 0x10), addr: c13Addr(5001)}}
	c13ConcBodyRefuse(c, c13KeySpec{5, -1}, writers, inbound, 1, 1, false, func(n int) error {
		if n == nth {
			return kind.Err
		}
		return nil
	})
}

// c13RefusedScenarios: every non-empty refusal mask over the four writes of one writer, and every
// position of one refusal among the four writes of two writers. Quick: one error kind per scenario
// (rotating, all three kinds occur); thorough: every mask/position x every error kind.
func c13RefusedScenarios(thorough bool) []*explore.Scenario {
	var scs []*explore.Scenario
	kindsOf := func(i int) []c13ErrKind {
		if thorough {
			return c13WriteErrKinds
		}
		return []c13ErrKind{c13WriteErrKinds[i%len(c13WriteErrKinds)]}
	}
	for mask := 1; mask < 1<<c13RefuseHistoryLen; mask++ {
		for _, kind := range kindsOf(mask) {
			scs = append(scs, &explore.Scenario{Name: fmt.Sprintf("1w4p-1r-inner-refuses-writes-mask%04b-%s", mask, kind.Name),
				Quick: explore.Bounds{P: 2, FreeSwitch: true}, Thorough: explore.Bounds{P: 3, FreeSwitch: true},
				Body: func(e *vsched.Exec) { c13RefusedHistory(&c13Ctx{e: e}, mask, kind) }})
		}
	}
	for nth := 1; nth <= 4; nth++ {
		for _, kind := range kindsOf(nth) {
			scs = append(scs, &explore.Scenario{Name: fmt.Sprintf("2w2p-1r-inner-refuses-write%d-%s", nth, kind.Name),
				Quick: explore.Bounds{P: 2, FreeSwitch: true}, Thorough: explore.Bounds{P: 3, FreeSwitch: true},
				Body: func(e *vsched.Exec) { c13RefusedNth(&c13Ctx{e: e}, nth, kind) }})
		}
	}
	return scs
}

func c13Scenarios() []*explore.Scenario {
	var cap []*explore.Scenario
	for _, ks := range c13CapacityKeys {
		cap = append(cap, &explore.Scenario{Name: fmt.Sprintf("1w2p-1r2p-key%d", ks.Len), Quick: explore.Bounds{P: 2, FreeSwitch: true}, Thorough: explore.Bounds{P: 4, FreeSwitch: true},
			Body: func(e *vsched.Exec) { c13KeyCapacity(&c13Ctx{e: e}, ks) }})
	}
	return append(cap, []*explore.Scenario{
		{Name: "2w2p-2r-preloaded", Quick: explore.Bounds{P: 2, FreeSwitch: true}, Thorough: explore.Bounds{P: 3, FreeSwitch: true}, Body: func(e *vsched.Exec) { c13Preloaded(&c13Ctx{e: e}) }},
		{Name: "two-sockets-after-double-close", Quick: explore.Bounds{P: 2, FreeSwitch: true}, Thorough: explore.Bounds{P: 3, FreeSwitch: true}, Body: func(e *vsched.Exec) { c13TwoSockets(&c13Ctx{e: e}) }},
		{Name: "1w2p-2r-late-inject", Quick: explore.Bounds{P: 2, FreeSwitch: true}, Thorough: explore.Bounds{P: 3, FreeSwitch: true}, Body: func(e *vsched.Exec) { c13LateInject(&c13Ctx{e: e}) }},
	}...)
}

func c13AllScenarios() []*explore.Scenario {
	// a replay looks its scenario up by name: offer the full (thorough) list then
	return append(c13Scenarios(), c13RefusedScenarios(os.Getenv("VERIF_TIER") == "thorough" || os.Getenv("VERIF_REPLAY") != "")...)
}

func TestVerifC13Conc(t *testing.T) {
	explore.Main(t, "C13", c13AllScenarios())
}

// ---- free-running -race pass -------------------------------------------------------------------

const c13RaceIterEnv = "VERIF_C13_RACE_ITERS"

// TestVerifC13RaceChild runs the concurrent bodies free (no execution attached: the shims pass
// through to the real primitives, threads are real goroutines). Only meaningful in a -race build.
func TestVerifC13RaceChild(t *testing.T) {
	iters, _ := strconv.Atoi(os.Getenv(c13RaceIterEnv))
	if iters <= 0 {
		t.Skip("child of TestVerifC13Race")
	}
	for i := 0; i < iters; i++ {
		for j, body := range []func(*c13Ctx){c13Preloaded, c13LateInject,
			func(c *c13Ctx) { c13KeyCapacity(c, c13CapacityKeys[0]) }, func(c *c13Ctx) { c13KeyCapacity(c, c13CapacityKeys[1]) }, c13TwoSockets} {
			c := &c13Ctx{}
			body(c)
			if len(c.fails) > 0 {
				fmt.Printf("C13FAIL %s: %s\n", []string{"preloaded", "late-inject", "key36", "key40", "two-sockets"}[j], c.fails[0])
				os.Exit(3)
			}
		}
	}
	fmt.Printf("C13DONE %d\n", iters)
}

type c13RaceReplay struct {
	Race  bool `json:"race"`
	Iters int  `json:"iters"`
}

var c13RaceFrame = regexp.MustCompile(`^\s+(/\S+\.go):(\d+)`)

// c13RaceRun starts the child and classifies its output: gating signatures (reports that touch
// salamander.go / conn.go, functional failures, crashes) and other reports (informational).
func c13RaceRun(iters int) (gating map[string]string, other []string, done bool, infra string) {
	cmd := exec.Command(os.Args[0], "-test.run", "^TestVerifC13RaceChild$", "-test.count=1", "-test.timeout=0")
	cmd.Env = append(os.Environ(), c13RaceIterEnv+"="+strconv.Itoa(iters), "GOMAXPROCS=4", "GORACE=exitcode=66 atexit_sleep_ms=0", "VERIF_REPLAY=", "VERIF_OUT=")
	outb, err := cmd.CombinedOutput()
	out := string(outb)
	gating = map[string]string{}
	done = strings.Contains(out, fmt.Sprintf("C13DONE %d", iters))
	for _, l := range strings.Split(out, "\n") {
		if strings.HasPrefix(l, "C13FAIL ") {
			gating["race/functional/"+strings.TrimPrefix(l, "C13FAIL ")] = l
		}
	}
	reports := strings.Split(out, "WARNING: DATA RACE")
	for _, rep := range reports[1:] {
		if i := strings.Index(rep, "=================="); i >= 0 {
			rep = rep[:i]
		}
		// an access block's site is its top frame outside the Go runtime/standard library; the
		// report gates when at least one of the two accesses is made BY the files under test
		// (e.g. Obfuscate filling writeBuf while the inner socket copies it out)
		var sites []string
		for _, block := range strings.Split(rep, "\n\n") {
			head := strings.TrimSpace(block)
			if !(strings.HasPrefix(head, "Read at") || strings.HasPrefix(head, "Write at") || strings.HasPrefix(head, "Previous read at") || strings.HasPrefix(head, "Previous write at") ||
				strings.HasPrefix(head, "Atomic") || strings.HasPrefix(head, "Previous atomic")) {
				continue
			}
			for _, l := range strings.Split(block, "\n") {
				m := c13RaceFrame.FindStringSubmatch(l)
				if m == nil {
					continue
				}
				f := m[1]
				if strings.Contains(f, "/toolchain@") || strings.Contains(f, "/go/src/") || strings.Contains(f, "/golang.org/x/") {
					continue // runtime.slicecopy, memmove, blake2b internals ...: look at the caller
				}
				if strings.HasSuffix(f, "/extras/obfs/salamander.go") || strings.HasSuffix(f, "/extras/obfs/conn.go") {
					sites = append(sites, f[strings.LastIndex(f, "/")+1:]+":"+m[2])
				}
				break
			}
		}
		if len(sites) > 0 {
			sort.Strings(sites)
			gating["race/"+strings.Join(sites, "~")] = "WARNING: DATA RACE" + rep
		} else {
			first := strings.TrimSpace(rep)
			if len(first) > 600 {
				first = first[:600]
			}
			other = append(other, first)
		}
	}
	if err != nil && len(gating) == 0 && len(other) == 0 {
		if strings.Contains(out, "panic:") || strings.Contains(out, "fatal error:") {
			site := "unknown"
			for _, l := range strings.Split(out, "\n") {
				if m := c13RaceFrame.FindStringSubmatch(l); m != nil && strings.Contains(m[1], "/extras/obfs/") && !strings.Contains(m[1], "zz_verif_") {
					site = m[1][strings.LastIndex(m[1], "/")+1:] + ":" + m[2]
					break
				}
			}
			tail := out
			if len(tail) > 3000 {
				tail = tail[:3000]
			}
			gating["race/crash/"+site] = tail
		} else {
			tail := out
			if len(tail) > 1500 {
				tail = tail[len(tail)-1500:]
			}
			infra = fmt.Sprintf("race child failed without a report: %v: %s", err, tail)
		}
	}
	return
}

func c13RaceParent(sh *evidence.Shard) {
	env := sh.Env()
	if env.Shard != 0 {
		return
	}
	iters := 300
	if env.Thorough() {
		iters = 3000
	}
	p := sh.Part("free-running-race-pass", "race")
	p.Note("NOT an enumeration (evaluations stay 0): %d free-running iterations of both concurrent bodies on real goroutines (GOMAXPROCS=4) in a -race build; gating = reports with a frame in extras/obfs/salamander.go or conn.go, oracle failures, crashes", iters)
	gating, other, done, infra := c13RaceRun(iters)
	p.Count("iterations", int64(iters))
	p.Count("race_reports_gating", int64(len(gating)))
	p.Count("race_reports_elsewhere", int64(len(other)))
	for i, o := range other {
		if i < 3 {
			p.Note("race report outside the files under test (informational): %s", o)
		}
	}
	if infra != "" {
		sh.InfraError("%s", infra)
		return
	}
	var sigs []string
	for s := range gating {
		sigs = append(sigs, s)
	}
	sort.Strings(sigs)
	for _, s := range sigs {
		d := gating[s]
		if len(d) > 2500 {
			d = d[:2500]
		}
		sh.Violate(p.Name, s, d, c13RaceReplay{Race: true, Iters: iters})
	}
	if len(gating) == 0 && !done {
		sh.InfraError("race child did not finish its %d iterations", iters)
	}
	sh.Assume(fmt.Sprintf("data-race freedom of salamander.go/conn.go is checked dynamically only: %d free-running iterations under the Go race detector, %d gating reports (the controlled scheduler interleaves at synchronisation operations and socket calls, not at plain memory accesses)", iters, len(gating)))
}

func TestVerifC13Race(t *testing.T) {
	evidence.Main(t, "C13", evidence.Seq{Run: c13RaceParent, Replay: func(part string, raw json.RawMessage) (bool, bool, string) {
		var r c13RaceReplay
		if err := json.Unmarshal(raw, &r); err != nil || !r.Race {
			return false, false, "not a race-pass replay"
		}
		gating, _, _, infra := c13RaceRun(max(r.Iters, 150))
		if infra != "" {
			return true, false, infra
		}
		var sigs []string
		for s := range gating {
			sigs = append(sigs, s)
		}
		sort.Strings(sigs)
		return true, len(gating) > 0, strings.Join(sigs, " ; ")
	}})
}
