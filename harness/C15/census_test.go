package server

// C15 harness, second half: the online census. The REAL handleClient/ServeHTTP pairing of
// LogOnlineState(id,true) on accepted authentication and LogOnlineState(id,false) when the
// connection ends, explored against a counting twin of the traffic stats server (the two halves
// meet at the TrafficLogger interface; the stats server itself is explored in the stats unit).

import (
	"fmt"
	"testing"

	"verif.local/engine/explore"
	"verif.local/engine/vsched"
	"verif.local/engine/vsync"
)

func c15Census(e *vsched.Exec, conns [][]string) {
	r := newRig(e, rigOpts{Traffic: true, DisableUDP: true})
	if r.srv == nil {
		return
	}
	var wg vsync.WaitGroup
	var cls []*rigClient
	for ci, evs := range conns {
		cl := r.dial(string(rune('A' + ci)))
		cls = append(cls, cl)
		wg.Add(1)
		// the connection's own thread: issues its requests concurrently, then disconnects
		vsched.GoNamed("conn-"+cl.Name, func() {
			defer wg.Done()
			var inner vsync.WaitGroup
			for _, kind := range evs {
				if kind == "close" || kind == "kill" {
					continue
				}
				inner.Add(1)
				vsched.GoNamed(cl.Name+"/"+kind, func() {
					defer inner.Done()
					cred := "good"
					if kind == "authbad" {
						cred = "bad"
					}
					_, _ = cl.auth(cred, 0)
				})
			}
			inner.Wait()
			for _, kind := range evs {
				if kind == "close" {
					cl.close()
				}
				if kind == "kill" {
					// the path is lost: the connection ends with an error (idle timeout), not a clean close
					e.Point("env", nil, "kill")
					cl.Conn.Kill()
				}
			}
		})
	}
	wg.Wait()
	e.WaitIdle()
	// oracle on the event log: counts never negative, at most one online(true) per connection,
	// every online(true) of a closed connection is paired with exactly one online(false)
	ups, downs := 0, 0
	for _, ev := range r.Events {
		if ev.Kind == "online" {
			if int64(ev.N) < 0 {
				e.Fail("online count of %s went negative: %v", ev.A, ev)
			}
			if ev.OK {
				ups++
			} else {
				downs++
			}
		}
	}
	wantOnline, wantUps, wantDowns := 0, 0, 0
	for ci := range cls {
		closed, authed := false, false
		for _, k := range conns[ci] {
			if k == "close" || k == "kill" {
				closed = true
			}
			if k == "authok" {
				authed = true
			}
		}
		if authed {
			wantUps++
			if closed {
				wantDowns++
			} else {
				wantOnline++
			}
		}
	}
	if ups != wantUps {
		e.Fail("%d online notifications for %d connections that authenticated (a connection must be counted exactly once)", ups, wantUps)
	}
	if downs != wantDowns {
		e.Fail("%d offline notifications for %d authenticated connections that disconnected", downs, wantDowns)
	}
	if got := r.Online["user:good"]; got != wantOnline {
		e.Fail("online count for the user is %d, %d authenticated connections are still connected", got, wantOnline)
	}
	e.Logf("%s", r.eventsString())
	for _, cl := range cls {
		cl.close()
	}
	r.shutdown(true)
	if got := r.Online["user:good"]; got != 0 {
		e.Fail("online count %d after every connection ended (stale listing)", got)
	}
}

func c15CensusScenarios() []*explore.Scenario {
	mk := func(name string, conns [][]string, q, t explore.Bounds) *explore.Scenario {
		return &explore.Scenario{Name: name, Quick: q, Thorough: t, Body: func(e *vsched.Exec) { c15Census(e, conns) }}
	}
	return []*explore.Scenario{
		mk("double-auth-one-conn", [][]string{{"authok", "authok", "close"}}, explore.Bounds{P: 2}, explore.Bounds{P: 3}),
		mk("auth-and-rejected", [][]string{{"authok", "authbad", "close"}}, explore.Bounds{P: 2}, explore.Bounds{P: 3}),
		mk("two-conns-one-user", [][]string{{"authok", "close"}, {"authok"}}, explore.Bounds{P: 2}, explore.Bounds{P: 3}),
		mk("connection-lost", [][]string{{"authok", "kill"}, {"authok", "close"}}, explore.Bounds{P: 2}, explore.Bounds{P: 3}),
		mk("unauthenticated-disconnect", [][]string{{"authbad", "close"}, {"authok", "close"}}, explore.Bounds{P: 2}, explore.Bounds{P: 3}),
	}
}

func TestVerifC15Census(t *testing.T) { explore.Main(t, "C15", c15CensusScenarios()) }

func TestVerifC15CensusProbe(t *testing.T) {
	for _, l := range explore.Probe(c15CensusScenarios()) {
		fmt.Println(l)
	}
}
