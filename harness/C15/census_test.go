package server

// C15 harness, second half: the online census. The REAL handleClient/ServeHTTP pairing of
// LogOnlineState(id,true) on accepted authentication and LogOnlineState(id,false) when the
// connection ends, explored against a counting twin of the traffic stats server (the two halves
// meet at the TrafficLogger interface; the stats server itself is explored in the stats unit).

import (
	"fmt"
	"net"
	"testing"

	"verif.local/engine/explore"
	"verif.local/engine/vsched"
	"verif.local/engine/vsync"
)

func c15Census(e *vsched.Exec, conns [][]string) {
	r := newRig(e, rigOpts{Traffic: true, DisableUDP: true})
	if r.srv == nil {
		return
	}
	var wg vsync.WaitGroup
	var cls []*rigClient
	for ci, evs := range conns {
		cl := r.dial(string(rune('A' + ci)))
		cls = append(cls, cl)
		wg.Add(1)
		// the connection's own thread: issues its requests concurrently, then disconnects
		vsched.GoNamed("conn-"+cl.Name, func() {
			defer wg.Done()
			var inner vsync.WaitGroup
			for _, kind := range evs {
				if kind == "close" || kind == "kill" {
					continue
				}
				inner.Add(1)
				vsched.GoNamed(cl.Name+"/"+kind, func() {
					defer inner.Done()
					cred := "good"
					if kind == "authbad" {
						cred = "bad"
					}
					_, _ = cl.auth(cred, 0)
				})
			}
			inner.Wait()
			for _, kind := range evs {
				if kind == "close" {
					cl.close()
				}
				if kind == "kill" {
					// the path is lost: the connection ends with an error (idle timeout), not a clean close
					e.Point("env", nil, "kill")
					cl.Conn.Kill()
				}
			}
		})
	}
	wg.Wait()
	e.WaitIdle()
	// oracle on the event log: counts never negative, at most one online(true) per connection,
	// every online(true) of a closed connection is paired with exactly one online(false)
	ups, downs := 0, 0
	for _, ev := range r.Events {
		if ev.Kind == "online" {
			if int64(ev.N) < 0 {
				e.Fail("online count of %s went negative: %v", ev.A, ev)
			}
			if ev.OK {
				ups++
			} else {
				downs++
			}
		}
	}
	wantOnline, wantUps, wantDowns := 0, 0, 0
	for ci := range cls {
		closed, authed := false, false
		for _, k := range conns[ci] {
			if k == "close" || k == "kill" {
				closed = true
			}
			if k == "authok" {
				authed = true
			}
		}
		if authed {
			wantUps++
			if closed {
				wantDowns++
			} else {
				wantOnline++
			}
		}
	}
	if ups != wantUps {
		e.Fail("%d online notifications for %d connections that authenticated (a connection must be counted exactly once)", ups, wantUps)
	}
	if downs != wantDowns {
		e.Fail("%d offline notifications for %d authenticated connections that disconnected", downs, wantDowns)
	}
	if got := r.Online["user:good"]; got != wantOnline {
		e.Fail("online count for the user is %d, %d authenticated connections are still connected", got, wantOnline)
	}
	e.Logf("%s", r.eventsString())
	for _, cl := range cls {
		cl.close()
	}
	r.shutdown(true)
	if got := r.Online["user:good"]; got != 0 {
		e.Fail("online count %d after every connection ended (stale listing)", got)
	}
}

// c15IDAuth decides as the rig's authenticator does but returns the user id spelled as the scenario
// says. The id is whatever the auth backend answers: the command and HTTP backends may legally
// answer with the empty string, and the census clauses hold for that user as for any other.
// Dimension "user-id" added after the independently seeded change C15-10 (the disconnect was
// reported only for a non-empty id: user "" stayed listed online after every disconnect).
type c15IDAuth struct {
	inner Authenticator
	id    string
}

func (a c15IDAuth) Authenticate(addr net.Addr, auth string, tx uint64) (bool, string) {
	ok, _ := a.inner.Authenticate(addr, auth, tx)
	return ok, a.id
}

// c15CensusIDs is the alphabet of user-id spellings: an ordinary one, the empty string, a blank,
// and one that reads like a number (a false-looking value).
var c15CensusIDs = []string{"user:good", "", " ", "0"}

// c15CensusHistory: connect, disconnect, reconnect, disconnect - sequentially, for a user whose id is
// spelled id - with the online count of that user read after each step: "the online listing shows
// for each user the number of currently connected authenticated connections, not stale after a
// disconnect". lost: the first connection ends by a lost path instead of a clean close.
// Added after the independently seeded change C15-10 (see c15IDAuth).
func c15CensusHistory(e *vsched.Exec, id string, lost bool) {
	r := newRig(e, rigOpts{Traffic: true, DisableUDP: true, Mutate: func(c *Config) {
		c.Authenticator = c15IDAuth{inner: c.Authenticator, id: id}
	}})
	if r.srv == nil {
		return
	}
	read := func(step string, want int) {
		e.WaitIdle()
		if got := r.Online[id]; got != want {
			e.Fail("C15 census: online count of user %q is %d after %s, %d of its authenticated connections are connected (stale or wrong listing)", id, got, step, want)
		}
		for u, n := range r.Online {
			if n < 0 {
				e.Fail("C15 census: online count of user %q went negative (%d) after %s", u, n, step)
			}
			if u != id && n != 0 {
				e.Fail("C15 census: user %q listed online (%d) after %s, only user %q ever authenticated", u, n, step, id)
			}
		}
	}
	var cls []*rigClient
	for i := 0; i < 2; i++ {
		cl := r.dial(string(rune('A' + i)))
		cls = append(cls, cl)
		if resp, err := cl.auth("good", 0); err != nil || resp.Status != 233 {
			e.Fail("auth: %v %v", resp, err)
			return
		}
		read(fmt.Sprintf("connect #%d", i+1), 1)
		if lost && i == 0 {
			e.Point("env", nil, "kill")
			cl.Conn.Kill()
		} else {
			cl.close()
		}
		read(fmt.Sprintf("disconnect #%d", i+1), 0)
	}
	// the two notifications of a connection carry the same id, and so does the event logger's pair
	ups, downs, connects, disconnects := 0, 0, 0, 0
	for _, ev := range r.Events {
		switch {
		case ev.Kind == "online" && ev.A == id && ev.OK:
			ups++
		case ev.Kind == "online" && ev.A == id && !ev.OK:
			downs++
		case ev.Kind == "connect" && ev.A == id:
			connects++
		case ev.Kind == "disconnect" && ev.A == id:
			disconnects++
		}
	}
	if ups != 2 || downs != 2 {
		e.Fail("C15 census: %d online and %d offline notifications for user %q, 2 connections authenticated and disconnected", ups, downs, id)
	}
	e.Logf("user-id=%q lost=%v connects=%d disconnects=%d %s", id, lost, connects, disconnects, r.eventsString())
	for _, cl := range cls {
		cl.close()
	}
	r.shutdown(true)
	if got := r.Online[id]; got != 0 {
		e.Fail("C15 census: online count %d of user %q after every connection ended (stale listing)", got, id)
	}
}

func c15CensusScenarios() []*explore.Scenario {
	mk := func(name string, conns [][]string, q, t explore.Bounds) *explore.Scenario {
		return &explore.Scenario{Name: name, Quick: q, Thorough: t, Body: func(e *vsched.Exec) { c15Census(e, conns) }}
	}
	scs := []*explore.Scenario{
		mk("double-auth-one-conn", [][]string{{"authok", "authok", "close"}}, explore.Bounds{P: 2}, explore.Bounds{P: 3}),
		mk("auth-and-rejected", [][]string{{"authok", "authbad", "close"}}, explore.Bounds{P: 2}, explore.Bounds{P: 3}),
		mk("two-conns-one-user", [][]string{{"authok", "close"}, {"authok"}}, explore.Bounds{P: 2}, explore.Bounds{P: 3}),
		mk("connection-lost", [][]string{{"authok", "kill"}, {"authok", "close"}}, explore.Bounds{P: 2}, explore.Bounds{P: 3}),
		mk("unauthenticated-disconnect", [][]string{{"authbad", "close"}, {"authok", "close"}}, explore.Bounds{P: 2}, explore.Bounds{P: 3}),
	}
	// the spelling of the user id x how the first connection ends, over the sequential history
	// connect, disconnect, reconnect, disconnect (added after the seeded change C15-10)
	for _, id := range c15CensusIDs {
		for _, lost := range []bool{false, true} {
			scs = append(scs, &explore.Scenario{Name: fmt.Sprintf("reconnect-history/user-id=%q/first-connection-lost=%v", id, lost),
				Quick: explore.Bounds{P: 1}, Thorough: explore.Bounds{P: 2},
				Body: func(e *vsched.Exec) { c15CensusHistory(e, id, lost) }})
		}
	}
	return scs
}

func TestVerifC15Census(t *testing.T) { explore.Main(t, "C15", c15CensusScenarios()) }

func TestVerifC15CensusProbe(t *testing.T) {
	for _, l := range explore.Probe(c15CensusScenarios()) {
		fmt.Println(l)
	}
}
