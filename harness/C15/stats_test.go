package trafficlogger

// C15 harness (injected by overlay): the real trafficStatsServerImpl, driven through its
// exported methods and its HTTP API, under the controlled scheduler.

import (
	"encoding/json"
	"fmt"
	"net/http"
	"net/http/httptest"
	"sort"
	"strings"
	"testing"

	"verif.local/engine/evidence"
	"verif.local/engine/explore"
	"verif.local/engine/lin"
	"verif.local/engine/vsched"
	"verif.local/engine/vsync"
)

type c15State struct {
	tx, rx map[string]uint64
	has    map[string]bool // entry exists in the stats map (zero entries are listed too)
	kick   map[string]bool
	online map[string]int
}

func (s c15State) clone() c15State {
	n := c15State{map[string]uint64{}, map[string]uint64{}, map[string]bool{}, map[string]bool{}, map[string]int{}}
	for k, v := range s.tx {
		n.tx[k] = v
	}
	for k, v := range s.rx {
		n.rx[k] = v
	}
	for k, v := range s.has {
		n.has[k] = v
	}
	for k, v := range s.kick {
		n.kick[k] = v
	}
	for k, v := range s.online {
		n.online[k] = v
	}
	return n
}

func c15Key(s c15State) string {
	var parts []string
	for k := range s.has {
		parts = append(parts, fmt.Sprintf("s%s=%d/%d", k, s.tx[k], s.rx[k]))
	}
	for k, v := range s.kick {
		if v {
			parts = append(parts, "k"+k)
		}
	}
	for k, v := range s.online {
		parts = append(parts, fmt.Sprintf("o%s=%d", k, v))
	}
	sort.Strings(parts)
	return strings.Join(parts, ",")
}

type c15Report struct {
	id     string
	tx, rx uint64
}

func c15Snap(s c15State) string {
	m := map[string]map[string]uint64{}
	for k := range s.has {
		m[k] = map[string]uint64{"tx": s.tx[k], "rx": s.rx[k]}
	}
	b, _ := json.Marshal(m)
	return string(b)
}

func c15Online(s c15State) string {
	b, _ := json.Marshal(s.online)
	return string(b)
}

func c15Canon(js string) string {
	var v any
	if err := json.Unmarshal([]byte(js), &v); err != nil {
		return "!" + js
	}
	b, _ := json.Marshal(v)
	return string(b)
}

// the sequential reference model, written from the property statement
var c15Model = lin.Model[c15State]{
	Init: func() c15State {
		return c15State{map[string]uint64{}, map[string]uint64{}, map[string]bool{}, map[string]bool{}, map[string]int{}}
	},
	Key: c15Key,
	Step: func(s c15State, op *lin.Op) (c15State, bool) {
		n := s.clone()
		switch op.Name {
		case "report":
			r := op.In.(c15Report)
			ok := op.Out.(bool)
			if s.kick[r.id] {
				// a kicked user's next report is refused exactly once and not counted
				delete(n.kick, r.id)
				return n, !ok
			}
			n.has[r.id] = true
			n.tx[r.id] += r.tx
			n.rx[r.id] += r.rx
			return n, ok
		case "traffic":
			clear := op.In.(bool)
			if c15Canon(op.Out.(string)) != c15Snap(s) {
				return s, false
			}
			if clear {
				n.tx, n.rx, n.has = map[string]uint64{}, map[string]uint64{}, map[string]bool{}
			}
			return n, true
		case "kick":
			for _, id := range op.In.([]string) {
				n.kick[id] = true
			}
			return n, op.Out.(int) == 200
		case "online":
			return s, c15Canon(op.Out.(string)) == c15Online(s)
		case "state":
			r := op.In.(c15Report)
			if r.tx == 1 {
				n.online[r.id]++
			} else {
				n.online[r.id]--
				if n.online[r.id] <= 0 {
					delete(n.online, r.id)
				}
			}
			return n, true
		}
		return s, false
	},
}

type c15Drv struct {
	e       *vsched.Exec
	s       *trafficStatsServerImpl
	h       lin.History
	allowed map[string][2]uint64
	cleared map[string][2]uint64
}

func (d *c15Drv) report(th int, id string, tx, rx uint64) bool {
	op := d.h.Begin(th, "report", c15Report{id, tx, rx})
	ok := d.s.LogTraffic(id, tx, rx)
	d.h.End(op, ok)
	if ok {
		a := d.allowed[id]
		a[0] += tx
		a[1] += rx
		d.allowed[id] = a
	}
	return ok
}

func (d *c15Drv) get(path string) (int, string) {
	r := httptest.NewRequest(http.MethodGet, path, nil)
	w := httptest.NewRecorder()
	d.s.ServeHTTP(w, r)
	return w.Code, w.Body.String()
}

func (d *c15Drv) traffic(th int, clear bool) {
	op := d.h.Begin(th, "traffic", clear)
	// spelling of the flag by thread number (see histories_test.go)
	p := "/traffic" + []string{"", "?clear=0", "?clear=false"}[th%3]
	if clear {
		p = "/traffic" + []string{"?clear=1", "?clear=true"}[th%2]
	}
	_, body := d.get(p)
	d.h.End(op, body)
	if clear {
		var m map[string]trafficStatsEntry
		if err := json.Unmarshal([]byte(body), &m); err != nil {
			d.e.Fail("bad /traffic body %q", body)
			return
		}
		for id, v := range m {
			c := d.cleared[id]
			c[0] += v.Tx
			c[1] += v.Rx
			d.cleared[id] = c
		}
	}
}

func (d *c15Drv) kick(th int, ids ...string) {
	op := d.h.Begin(th, "kick", ids)
	b, _ := json.Marshal(ids)
	r := httptest.NewRequest(http.MethodPost, "/kick", strings.NewReader(string(b)))
	w := httptest.NewRecorder()
	d.s.ServeHTTP(w, r)
	d.h.End(op, w.Code)
}

func (d *c15Drv) online(th int) {
	op := d.h.Begin(th, "online", nil)
	_, body := d.get("/online")
	d.h.End(op, body)
	var m map[string]int
	_ = json.Unmarshal([]byte(body), &m)
	for id, n := range m {
		if n <= 0 {
			d.e.Fail("online count of %s is %d", id, n)
		}
	}
}

func (d *c15Drv) state(th int, id string, on bool) {
	v := uint64(0)
	if on {
		v = 1
	}
	op := d.h.Begin(th, "state", c15Report{id, v, 0})
	d.s.LogOnlineState(id, on)
	d.h.End(op, nil)
}

// finish: final snapshot, conservation and linearizability oracles
func (d *c15Drv) finish() {
	_, body := d.get("/traffic")
	var m map[string]trafficStatsEntry
	if err := json.Unmarshal([]byte(body), &m); err != nil {
		d.e.Fail("bad final /traffic body %q", body)
		return
	}
	ids := map[string]bool{}
	for id := range d.allowed {
		ids[id] = true
	}
	for id := range d.cleared {
		ids[id] = true
	}
	for id := range m {
		ids[id] = true
	}
	for id := range ids {
		got := [2]uint64{d.cleared[id][0] + m[id].Tx, d.cleared[id][1] + m[id].Rx}
		if got != d.allowed[id] {
			d.e.Fail("conservation: user %s: snapshots+final=%v, allowed bytes=%v", id, got, d.allowed[id])
		}
	}
	if !lin.Check(c15Model, &d.h) {
		d.e.Fail("history not linearizable against the reference model")
	}
	d.e.Logf("%s", d.h.String())
}

func c15New(e *vsched.Exec) *c15Drv {
	return &c15Drv{e: e, s: NewTrafficStatsServer("").(*trafficStatsServerImpl), allowed: map[string][2]uint64{}, cleared: map[string][2]uint64{}}
}

func c15Scenarios() []*explore.Scenario {
	run := func(d *c15Drv, fns ...func()) {
		var wg vsync.WaitGroup
		for _, f := range fns {
			wg.Add(1)
			vsched.Go(func() { defer wg.Done(); f() })
		}
		wg.Wait()
		d.finish()
	}
	return []*explore.Scenario{
		{Name: "report-poll-kick", Quick: explore.Bounds{P: 2, FreeSwitch: true}, Thorough: explore.Bounds{P: 3, FreeSwitch: true}, Body: func(e *vsched.Exec) {
			d := c15New(e)
			run(d,
				func() { d.report(1, "u", 1, 16); d.report(1, "u", 2, 32) },
				func() { d.report(2, "u", 4, 64); d.report(2, "v", 8, 128) },
				func() { d.traffic(3, true); d.traffic(3, true) },
				func() { d.kick(4, "u") },
			)
		}},
		{Name: "double-kick-noclear", Quick: explore.Bounds{P: 2, FreeSwitch: true}, Thorough: explore.Bounds{P: 3, FreeSwitch: true}, Body: func(e *vsched.Exec) {
			d := c15New(e)
			run(d,
				func() { d.report(1, "u", 1, 16); d.report(1, "u", 2, 32); d.report(1, "u", 4, 64) },
				func() { d.kick(2, "u"); d.kick(2, "u", "v") },
				func() { d.traffic(3, false); d.traffic(3, true) },
				func() { d.report(4, "v", 8, 128) },
			)
		}},
		{Name: "online", Quick: explore.Bounds{P: 2, FreeSwitch: true}, Thorough: explore.Bounds{P: 3, FreeSwitch: true}, Body: func(e *vsched.Exec) {
			d := c15New(e)
			run(d,
				func() { d.state(1, "u", true); d.report(1, "u", 1, 16); d.state(1, "u", false) },
				func() { d.state(2, "u", true); d.state(2, "u", false) },
				func() { d.state(3, "v", true); d.online(3); d.state(3, "v", false) },
				func() { d.online(4); d.online(4) },
			)
			if _, body := d.get("/online"); c15Canon(body) != "{}" {
				e.Fail("online map not empty after all disconnects: %s", body)
			}
		}},
		// Dimension: a kick racing with the online bookkeeping of the same user. One connection of u
		// disconnects and reconnects before its reports, a second one comes and goes, POST /kick
		// lands anywhere in between; in the reference model (c15Model) the pending kick does not
		// depend on the online count, so whichever report of u follows the kick must be the refused
		// one even when u had no connection left for a moment (the sequential histories of this
		// product are enumerated by the histories unit). Added after the independently seeded change
		// C15-7 (LogOnlineState(id,false) also deleted the user's pending kick at count zero).
		{Name: "kick-across-reconnect", Quick: explore.Bounds{P: 2, FreeSwitch: true}, Thorough: explore.Bounds{P: 3, FreeSwitch: true}, Body: func(e *vsched.Exec) {
			d := c15New(e)
			run(d,
				func() {
					d.state(1, "u", true)
					d.state(1, "u", false)
					d.state(1, "u", true)
					d.report(1, "u", 1, 16)
					d.report(1, "u", 2, 32)
					d.state(1, "u", false)
				},
				func() { d.kick(2, "u") },
				func() { d.state(3, "u", true); d.state(3, "u", false) },
				func() { d.online(4); d.traffic(4, true) },
			)
			if _, body := d.get("/online"); c15Canon(body) != "{}" {
				e.Fail("online map not empty after all disconnects: %s", body)
			}
		}},
	}
}

func TestVerifC15Stats(t *testing.T) {
	explore.Main(t, "C15", c15Scenarios())
}

var _ = evidence.GetEnv
