package server

// C15 at the server level: "a refused report disconnects the user". The stats server refuses
// exactly one traffic report of a kicked user; whichever report of the connection that is — a
// relayed TCP chunk in either direction, a UDP datagram in either direction, or bytes a request
// hook (sniffing) hands back for the target — the server must close that user's connection with
// the traffic-limit code and report the user offline. Explored over the server rig (real server,
// fake QUIC layer) with the refusal placed at the k-th report of the connection.
// Added after the independently seeded change C15-5 (bytes put back by a request hook were
// reported to the logger, and a refusal there only ended the one stream).

import (
	"fmt"
	"io"
	"testing"

	"verif.local/engine/explore"
	"verif.local/engine/vsched"
)

// c15PutbackHook intercepts every TCP request: it consumes the first bytes of the stream and hands
// them back for the target, as the sniffer does.
type c15PutbackHook struct{}

func (c15PutbackHook) Check(isUDP bool, reqAddr string) bool { return !isUDP }
func (c15PutbackHook) TCP(stream HyStream, reqAddr *string) ([]byte, error) {
	b := make([]byte, 4)
	n, _ := io.ReadFull(stream, b)
	return b[:n], nil
}
func (c15PutbackHook) UDP(data []byte, reqAddr *string) error { return nil }

func c15Refusal(e *vsched.Exec, hook bool, vetoAt int, udp, tcpLike bool) {
	opts := rigOpts{Traffic: true}
	if hook {
		opts.Mutate = func(cfg *Config) { cfg.RequestHook = c15PutbackHook{} }
	}
	r := newRig(e, opts)
	if r.srv == nil {
		return
	}
	r.TrafficVeto = func(n int, id string, tx, rx uint64) bool { return n == vetoAt }
	r.TargetBuf = 64
	r.TCPLikeTarget = tcpLike
	cl := r.dial("A")
	if resp, err := cl.auth("good", 0); err != nil || resp.Status != 233 {
		e.Fail("auth: %v %v", resp, err)
		return
	}
	sconn := cl.Conn.Peer()
	if udp {
		for i := 0; i < 3; i++ {
			_ = cl.dgram(5, "u:53", []byte(fmt.Sprintf("dgram-%d", i)))
			e.WaitIdle()
			if len(r.UDPSocks) > 0 && !sconn.IsClosed() {
				r.UDPSocks[0].Inject([]byte(fmt.Sprintf("reply-%d", i)), "u:53")
				e.WaitIdle()
			}
		}
	} else {
		str, err := cl.Conn.OpenStream()
		if err != nil {
			e.Fail("OpenStream: %v", err)
			return
		}
		// request + payload; the target answers; more payload
		if err := c15WriteTCPRequestTo(str, "t:80"); err != nil {
			e.Fail("request: %v", err)
		}
		_, _ = str.Write([]byte("GET / first payload"))
		e.WaitIdle()
		if t := r.Targets["t:80"]; t != nil && !sconn.IsClosed() {
			_, _ = t.Write([]byte("answer"))
			e.WaitIdle()
		}
		if !sconn.IsClosed() {
			_, _ = str.Write([]byte("second payload"))
			e.WaitIdle()
		}
	}
	refused := 0
	for _, ev := range r.Events {
		if ev.Kind == "traffic" && !ev.OK {
			refused++
		}
	}
	if refused > 0 {
		if !sconn.IsClosed() || sconn.CloseCode != closeErrCodeTrafficLimitReached {
			e.Fail("C15 kick: the traffic logger refused a report of the connection (report #%d, hook=%v, udp=%v, TCP-like target=%v) but the user's connection was not closed with the traffic-limit code (closed=%v code=%#x): the kicked user stays connected", vetoAt, hook, udp, tcpLike, sconn.IsClosed(), uint64(sconn.CloseCode))
		}
		e.WaitIdle()
		if got := r.Online["user:good"]; got != 0 {
			e.Fail("C15 kick: after the refusal the user is still listed online (%d)", got)
		}
	}
	e.Logf("hook=%v udp=%v tcplike=%v veto@%d refused=%d %s", hook, udp, tcpLike, vetoAt, refused, r.eventsString())
	cl.close()
	r.shutdown(true)
}

func c15WriteTCPRequestTo(w io.Writer, addr string) error {
	// frame type 0x401, address length, address, padding length 0
	b := []byte{0x44, 0x01, byte(len(addr))}
	b = append(b, addr...)
	b = append(b, 0)
	_, err := w.Write(b)
	return err
}

func TestVerifC15Refusal(t *testing.T) {
	var scs []*explore.Scenario
	for _, hook := range []bool{false, true} {
		for _, udp := range []bool{false, true} {
			if hook && udp {
				continue
			}
			for _, tcpLike := range []bool{false, true} {
				if udp && tcpLike {
					continue
				}
				for k := 1; k <= 3; k++ {
					scs = append(scs, &explore.Scenario{Name: fmt.Sprintf("refusal/hook=%v/udp=%v/tcp-like-target=%v/report#%d", hook, udp, tcpLike, k), Quick: explore.Bounds{P: 0}, Thorough: explore.Bounds{P: 1},
						Body: func(e *vsched.Exec) { c15Refusal(e, hook, k, udp, tcpLike) }})
				}
			}
		}
	}
	explore.Main(t, "C15", scs)
}
