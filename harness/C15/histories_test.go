package trafficlogger

// C15, the "histories" half of the quantifier: explicit-state search over EVERY sequence (up to a
// depth) of connects, disconnects, kicks, traffic reports and polls of the real
// trafficStatsServerImpl, one operation at a time (no concurrency: the stats unit explores the
// schedules), against a reference written from the property statement in which the three pieces
// of bookkeeping are independent of each other:
//   - the pending kick of a user is set by POST /kick and consumed by THAT USER'S NEXT REPORT,
//     whatever happens in between (disconnects, reconnects, polls, clears, other users);
//   - the online listing counts connects minus disconnects and lists nobody with zero;
//   - the bytes of accepted reports are conserved over clearing snapshots + the current one.
// The dimension is the cross product of the three API groups in one history: a kick followed by
// online-state changes, a clear between a kick and its report, a report of an offline user, ... and the size of the
// report that meets the kick (16+1 bytes or none at all, see c15hReportU0).
// Added after the independently seeded change C15-7 (LogOnlineState(id,false) also deleted the
// user's pending kick when the last connection went away, so connect, kick, disconnect, connect,
// report accepted the report that had to be refused).

import (
	"context"
	"encoding/json"
	"fmt"
	"io"
	"net"
	"net/http"
	"net/http/httptest"
	"sort"
	"strings"
	"sync"
	"testing"

	"verif.local/engine/evidence"
	"verif.local/engine/vpriv"
	"verif.local/engine/xstate"
)

type c15hOp int

const (
	c15hConnectU c15hOp = iota
	c15hDisconnectU
	c15hKickU
	c15hReportU
	c15hConnectV
	c15hDisconnectV
	c15hKickUV
	c15hReportV
	c15hTraffic
	c15hTrafficClear
	c15hOnline
	// the SIZE of a report: a report of zero bytes (tx=0, rx=0 - what the server logs for an empty
	// UDP datagram, since the UDP path reports len(msg.Data)) is a report like any other: it is the
	// kicked user's "next traffic report" and must be refused exactly once, and with no kick pending
	// it is accepted and adds nothing. Added after the independently seeded change C15-9 (LogTraffic
	// returned true for tx==0 && rx==0 before consulting the KickMap, so an empty report neither
	// honoured nor consumed a pending kick). Appended last so that recorded histories keep their
	// operation numbers.
	c15hReportU0
	c15hNOps
)

var c15hNames = [...]string{"connect(u)", "disconnect(u)", "kick[u]", "report(u,1,16)", "connect(v)", "disconnect(v)", "kick[u,v]", "report(v,2,32)", "traffic", "traffic?clear=1", "online", "report(u,0,0)"}

func (o c15hOp) String() string {
	if o >= c15hNOps {
		m, t := c15hWire(o)
		return m + " " + t + " (net/http)"
	}
	return c15hNames[o]
}

// The METHOD of a request to the stats API, and the real net/http path. The operations above
// reach the handler through an httptest.ResponseRecorder and hold the method constant (GET for
// /traffic and /online, POST for /kick). A wire operation sends one request of every method of
// c15hMethods to every target of c15hTargets through a real net/http client and a real net/http
// server around the handler (over an in-memory net.Pipe, no socket), and the reference accounts
// for what the caller actually RECEIVES: net/http sends no body in the answer to a HEAD request,
// which a recorder would hide. The property's clauses judge it, no status code of a method the
// property does not name is demanded: bytes are handed out by a clearing request only as far as
// its received body lists them (conservation over received snapshots, checked by the two polls
// after every step), a user is kicked when the API answered 200 to the kick request (and POST
// /kick must answer 200), a received GET /online body equals connects minus disconnects.
// Added after the independently seeded change C15-11 (ServeHTTP routed HEAD like GET, so a HEAD
// /traffic?clear=1 probe swapped the stats map out while net/http discarded the snapshot).
var (
	c15hMethods = []string{http.MethodGet, http.MethodHead, http.MethodPost, http.MethodPut, http.MethodDelete, http.MethodOptions}
	c15hTargets = []string{"/traffic", "/traffic?clear=1", "/online", "/kick", "/dump/streams"}
)

// c15hWire decodes a wire operation (numbered from c15hNOps, method-major).
func c15hWire(o c15hOp) (method, target string) {
	i := int(o - c15hNOps)
	return c15hMethods[i/len(c15hTargets)], c15hTargets[i%len(c15hTargets)]
}

type c15hPipeListener struct {
	conns chan net.Conn
	done  chan struct{}
	once  sync.Once
}

func (l *c15hPipeListener) Accept() (net.Conn, error) {
	select {
	case c := <-l.conns:
		return c, nil
	case <-l.done:
		return nil, net.ErrClosed
	}
}
func (l *c15hPipeListener) Close() error   { l.once.Do(func() { close(l.done) }); return nil }
func (l *c15hPipeListener) Addr() net.Addr { return &net.UnixAddr{Name: "c15h-pipe", Net: "pipe"} }

// c15hRoundTrip: one request through net/http's client and server code over an in-memory pipe;
// returns what the caller of the API receives.
func c15hRoundTrip(h http.Handler, method, target, body string) (int, string, error) {
	cc, sc := net.Pipe()
	ln := &c15hPipeListener{conns: make(chan net.Conn, 1), done: make(chan struct{})}
	ln.conns <- sc
	srv := &http.Server{Handler: h}
	go func() { _ = srv.Serve(ln) }()
	defer srv.Close()
	tr := &http.Transport{DisableKeepAlives: true, DialContext: func(context.Context, string, string) (net.Conn, error) { return cc, nil }}
	defer tr.CloseIdleConnections()
	var rd io.Reader
	if body != "" {
		rd = strings.NewReader(body)
	}
	req, err := http.NewRequest(method, "http://stats.invalid"+target, rd)
	if err != nil {
		return 0, "", err
	}
	resp, err := tr.RoundTrip(req)
	if err != nil {
		return 0, "", err
	}
	b, err := io.ReadAll(resp.Body)
	_ = resp.Body.Close()
	return resp.StatusCode, string(b), err
}

// c15hMaxConns bounds the number of simultaneous connections of one user in a history.
const c15hMaxConns = 2

type c15hSys struct {
	s     *trafficStatsServerImpl
	polls int
	// the auth ids of the two users of the history, verbatim ("u" and "v" unless a spelling part
	// chose others, see c15hSpellings)
	u, v string
	// reference, from the property statement
	kick    map[string]bool      // kicked, next report not yet seen
	online  map[string]int       // connected authenticated connections
	allowed map[string][2]uint64 // bytes of accepted reports, ever
	cleared map[string][2]uint64 // bytes handed out by clearing snapshots, ever
}

func c15hNew() xstate.Sys[c15hOp] { return c15hNewIDs("u", "v") }

func c15hNewIDs(u, v string) xstate.Sys[c15hOp] {
	return &c15hSys{s: NewTrafficStatsServer("").(*trafficStatsServerImpl), u: u, v: v, kick: map[string]bool{}, online: map[string]int{},
		allowed: map[string][2]uint64{}, cleared: map[string][2]uint64{}}
}

// The SPELLING of an auth id. The server takes the id verbatim from the authenticator (the http
// and command authenticators return whatever their backend printed), so "Alice" and "alice", or
// " padded " and "padded", are two users: a kick of id X refuses exactly the next report of
// exactly X (byte for byte) and never a namesake's, the listing and the counters are kept per
// verbatim id. A spelling part runs the histories with the two users of the history being such a
// pair of namesakes (u = the first, v = the second spelling), judged by the same clauses.
// Added after the independently seeded change C15-12 (POST /kick lower-cased and trimmed each id
// before putting it into the KickMap while LogTraffic looked the verbatim id up, so a kick of
// "Alice" was never honoured and refused a report of "alice" instead).
var c15hSpellings = [][2]string{
	{"Alice", "alice"},
	{" padded ", "padded"},
	{"BOB-42", "bob-42"},
	{"u\t", "U"},
}

// c15hSpellingOf finds the ids of a part by its name (for replay); "u", "v" for every other part.
func c15hSpellingOf(part string) (string, string) {
	var i int
	if n, _ := fmt.Sscanf(part, "histories/spelling=%d:", &i); n == 1 && i >= 0 && i < len(c15hSpellings) {
		return c15hSpellings[i][0], c15hSpellings[i][1]
	}
	return "u", "v"
}

func (y *c15hSys) do(method, path, body string) (int, string) {
	r := httptest.NewRequest(method, path, strings.NewReader(body))
	w := httptest.NewRecorder()
	y.s.ServeHTTP(w, r)
	return w.Code, w.Body.String()
}

func (y *c15hSys) report(id string, tx, rx uint64) error {
	ok := y.s.LogTraffic(id, tx, rx)
	if y.kick[id] {
		delete(y.kick, id)
		if ok {
			return fmt.Errorf("kick lost: %s was kicked and this is the user's next traffic report, but it was accepted", id)
		}
		return nil
	}
	if !ok {
		return fmt.Errorf("spurious refusal: a report of %s was refused with no kick pending (a kick refuses exactly one report)", id)
	}
	a := y.allowed[id]
	a[0] += tx
	a[1] += rx
	y.allowed[id] = a
	return nil
}

func (y *c15hSys) postKick(ids ...string) error {
	b, _ := json.Marshal(ids)
	if code, body := y.do(http.MethodPost, "/kick", string(b)); code != http.StatusOK {
		return fmt.Errorf("kick status: POST /kick %s answered %d %q", b, code, body)
	}
	for _, id := range ids {
		y.kick[id] = true
	}
	return nil
}

// traffic polls the counters and checks conservation: what clearing snapshots handed out so far
// plus the current snapshot is exactly what was accepted.
func (y *c15hSys) traffic(clear bool) error {
	// the spelling of the flag rotates with the poll number: clear=1 / clear=true clear, an absent
	// flag / clear=0 / clear=false do not (added after the independently seeded change C15-8: any
	// request that carried the parameter cleared, whatever its value)
	y.polls++
	p := "/traffic" + []string{"", "?clear=0", "?clear=false"}[y.polls%3]
	if clear {
		p = "/traffic" + []string{"?clear=1", "?clear=true"}[y.polls%2]
	}
	code, body := y.do(http.MethodGet, p, "")
	var m map[string]trafficStatsEntry
	if err := json.Unmarshal([]byte(body), &m); code != http.StatusOK || err != nil {
		return fmt.Errorf("traffic answer: GET %s answered %d %q", p, code, body)
	}
	ids := map[string]bool{}
	for id := range m {
		ids[id] = true
	}
	for id := range y.allowed {
		ids[id] = true
	}
	var bad []string
	for id := range ids {
		got := [2]uint64{y.cleared[id][0] + m[id].Tx, y.cleared[id][1] + m[id].Rx}
		if got != y.allowed[id] {
			bad = append(bad, fmt.Sprintf("user %s: cleared snapshots+this snapshot=%v, accepted bytes=%v", id, got, y.allowed[id]))
		}
	}
	if clear {
		for id, v := range m {
			c := y.cleared[id]
			c[0] += v.Tx
			c[1] += v.Rx
			y.cleared[id] = c
		}
	}
	if len(bad) > 0 {
		sort.Strings(bad)
		return fmt.Errorf("conservation: GET %s: %s", p, strings.Join(bad, "; "))
	}
	return nil
}

// wire performs one wire operation (see c15hMethods) and moves the reference by what was received.
func (y *c15hSys) wire(method, target string) error {
	body := ""
	if target == "/kick" {
		b, _ := json.Marshal([]string{y.u})
		body = string(b)
	}
	code, got, err := c15hRoundTrip(y.s, method, target, body)
	if err != nil {
		return fmt.Errorf("wire answer: %s %s: no HTTP answer: %v", method, target, err)
	}
	switch target {
	case "/traffic", "/traffic?clear=1":
		var m map[string]trafficStatsEntry
		perr := json.Unmarshal([]byte(got), &m)
		if method == http.MethodGet && (code != http.StatusOK || perr != nil) {
			return fmt.Errorf("traffic answer: GET %s answered %d %q", target, code, got)
		}
		if target == "/traffic?clear=1" && code == http.StatusOK && perr == nil {
			// a clearing snapshot hands out exactly the bytes its received body lists
			for id, v := range m {
				c := y.cleared[id]
				c[0] += v.Tx
				c[1] += v.Rx
				y.cleared[id] = c
			}
		}
	case "/kick":
		if method == http.MethodPost && code != http.StatusOK {
			return fmt.Errorf("kick status: POST /kick %s answered %d %q", body, code, got)
		}
		if code == http.StatusOK {
			y.kick[y.u] = true
		}
	case "/online":
		if method == http.MethodGet {
			var m map[string]int
			if err := json.Unmarshal([]byte(got), &m); code != http.StatusOK || err != nil {
				return fmt.Errorf("online answer: GET /online answered %d %q", code, got)
			}
			want, _ := json.Marshal(y.online)
			have, _ := json.Marshal(m)
			if string(have) != string(want) {
				return fmt.Errorf("online listing: GET /online shows %s, connected authenticated connections are %s", have, want)
			}
		}
	}
	return nil
}

func (y *c15hSys) listing() error {
	code, body := y.do(http.MethodGet, "/online", "")
	var m map[string]int
	if err := json.Unmarshal([]byte(body), &m); code != http.StatusOK || err != nil {
		return fmt.Errorf("online answer: GET /online answered %d %q", code, body)
	}
	want, _ := json.Marshal(y.online)
	got, _ := json.Marshal(m)
	if string(got) != string(want) {
		return fmt.Errorf("online listing: GET /online shows %s, connected authenticated connections are %s", got, want)
	}
	return nil
}

func (y *c15hSys) state(id string, on bool) {
	y.s.LogOnlineState(id, on)
	if on {
		y.online[id]++
	} else if y.online[id]--; y.online[id] <= 0 {
		delete(y.online, id)
	}
}

func (y *c15hSys) Apply(op c15hOp) error {
	var err error
	switch op {
	case c15hConnectU:
		y.state(y.u, true)
	case c15hDisconnectU:
		y.state(y.u, false)
	case c15hConnectV:
		y.state(y.v, true)
	case c15hDisconnectV:
		y.state(y.v, false)
	case c15hKickU:
		err = y.postKick(y.u)
	case c15hKickUV:
		err = y.postKick(y.u, y.v)
	case c15hReportU:
		err = y.report(y.u, 1, 16)
	case c15hReportV:
		err = y.report(y.v, 2, 32)
	case c15hReportU0:
		err = y.report(y.u, 0, 0)
	case c15hTraffic:
		err = y.traffic(false)
	case c15hTrafficClear:
		err = y.traffic(true)
	case c15hOnline:
		err = y.listing()
	default:
		err = y.wire(c15hWire(op))
	}
	if err != nil {
		return err
	}
	// the two read-only polls after every step: a wrong listing or a lost byte is reported at the
	// step that caused it
	if err := y.listing(); err != nil {
		return err
	}
	return y.traffic(false)
}

// c15hEnabled: the server reports a connection offline only after it reported it online (that
// pairing is the census unit's subject), and a history holds at most c15hMaxConns connections of
// one user at a time.
func c15hEnabled(s xstate.Sys[c15hOp], op c15hOp) bool {
	y := s.(*c15hSys)
	switch op {
	case c15hConnectU:
		return y.online[y.u] < c15hMaxConns
	case c15hConnectV:
		return y.online[y.v] < c15hMaxConns
	case c15hDisconnectU:
		return y.online[y.u] > 0
	case c15hDisconnectV:
		return y.online[y.v] > 0
	}
	return true
}

// Key: the private maps of the real server AND the reference's pending kicks and counts. Two
// histories with equal keys have equal futures: the real object's behaviour depends only on its
// three maps, and the oracles of Apply depend only on the reference's pending kicks, its online
// counts and the difference accepted-cleared (conservation is additive, and equals the current
// counters as long as no violation was reported). The reference is part of the key so that a real
// state that silently lost (or kept) something the reference still has is not merged with an
// innocent state that was already expanded.
func (y *c15hSys) Key() string {
	var parts []string
	for id, e := range y.s.StatsMap {
		parts = append(parts, fmt.Sprintf("S%s=%d/%d", id, e.Tx, e.Rx))
	}
	for id := range y.s.KickMap {
		parts = append(parts, "K"+id)
	}
	for id, n := range y.s.OnlineMap {
		parts = append(parts, fmt.Sprintf("O%s=%d", id, n))
	}
	for id, v := range y.kick {
		if v {
			parts = append(parts, "k"+id)
		}
	}
	for id, n := range y.online {
		parts = append(parts, fmt.Sprintf("o%s=%d", id, n))
	}
	for id, a := range y.allowed {
		parts = append(parts, fmt.Sprintf("a%s=%d/%d", id, a[0]-y.cleared[id][0], a[1]-y.cleared[id][1]))
	}
	sort.Strings(parts)
	// whatever else the server remembers directly in its own fields (none on the pinned tree beyond
	// the constant Secret): keeps states apart that a changed tree tells apart in a new field
	return strings.Join(parts, ",") + vpriv.Scalars(y.s)
}

func c15hOps() []c15hOp {
	var ops []c15hOp
	for o := c15hOp(0); o < c15hNOps; o++ {
		ops = append(ops, o)
	}
	return ops
}

// c15hWireOps: the operations of the histories plus every method x target wire operation.
func c15hWireOps() []c15hOp {
	ops := c15hOps()
	for i := 0; i < len(c15hMethods)*len(c15hTargets); i++ {
		ops = append(ops, c15hNOps+c15hOp(i))
	}
	return ops
}

// c15hRunWire: one search from the empty server over the 12 operations and the 30 wire
// operations, shallower than the histories (every wire operation multiplies the branching).
func c15hRunWire(sh *evidence.Shard) {
	env := sh.Env()
	if !env.Mine(int64(c15hNOps)) {
		return
	}
	depth := 4
	if env.Thorough() {
		depth = 6
	}
	p := sh.Part("histories/methods", "xstate")
	var names []string
	for _, o := range c15hWireOps() {
		names = append(names, o.String())
	}
	p.Alphabet = map[string]any{
		"operations": names,
		"methods":    c15hMethods,
		"targets":    c15hTargets,
		"dimension":  "HTTP method x target of a request, served by a real net/http server and client over net.Pipe (a HEAD answer arrives without body), anywhere in a history of reports, kicks, connects and polls; cleared bytes are counted from the RECEIVED body",
	}
	p.Bounds = map[string]any{"max_depth": depth, "max_connections_per_user": c15hMaxConns, "users": 2}
	res := xstate.BFS(xstate.Config[c15hOp]{Ops: c15hWireOps(), New: c15hNew, MaxDepth: depth, Enabled: c15hEnabled, MaxStates: 400000}, p, env)
	if res.Violation != nil {
		var h []string
		for _, o := range res.History {
			h = append(h, o.String())
		}
		sh.Violate(p.Name, "histories/"+strings.SplitN(res.Violation.Error(), ":", 2)[0]+"/"+strings.Join(h, ";"), res.Violation.Error(), res.History)
	}
}

// c15hRunSpellings: one search per pair of namesake ids of c15hSpellings, over the 12 operations
// of the histories with u and v spelled as the pair says (added after the independently seeded
// change C15-12, see c15hSpellings).
func c15hRunSpellings(sh *evidence.Shard) {
	env := sh.Env()
	depth := 5
	if env.Thorough() {
		depth = 8
	}
	for i, sp := range c15hSpellings {
		if !env.Mine(int64(c15hNOps) + 1 + int64(i)) {
			continue
		}
		u, v := sp[0], sp[1]
		p := sh.Part(fmt.Sprintf("histories/spelling=%d:u=%q,v=%q", i, u, v), "xstate")
		p.Alphabet = map[string]any{
			"operations": c15hNames[:],
			"spellings":  c15hSpellings,
			"u":          u,
			"v":          v,
			"dimension":  "spelling of the auth id: the two users of the history are namesakes that differ only by case / surrounding blanks; a kick of id X refuses exactly the next report of exactly X, listing and counters are per verbatim id",
		}
		p.Bounds = map[string]any{"max_depth": depth, "max_connections_per_user": c15hMaxConns, "users": 2}
		res := xstate.BFS(xstate.Config[c15hOp]{Ops: c15hOps(), New: func() xstate.Sys[c15hOp] { return c15hNewIDs(u, v) }, MaxDepth: depth, Enabled: c15hEnabled, MaxStates: 400000}, p, env)
		if res.Violation != nil {
			var h []string
			for _, o := range res.History {
				h = append(h, o.String())
			}
			sh.Violate(p.Name, fmt.Sprintf("histories/%s/u=%q,v=%q/%s", strings.SplitN(res.Violation.Error(), ":", 2)[0], u, v, strings.Join(h, ";")), res.Violation.Error(), res.History)
		}
	}
}

func c15hRun(sh *evidence.Shard) {
	c15hRunWire(sh)
	c15hRunSpellings(sh)
	env := sh.Env()
	depth := 7
	if env.Thorough() {
		depth = 10
	}
	// one search per first operation of the history (a shard takes every NShards-th of them); the
	// first operation is applied inside New, so the histories of a search have depth-1 more steps
	for first := c15hOp(0); first < c15hNOps; first++ {
		if !env.Mine(int64(first)) {
			continue
		}
		p := sh.Part("histories/first="+first.String(), "xstate")
		p.Alphabet = map[string]any{
			"operations": c15hNames[:],
			"dimension":  "kick x online-state x report x poll in ONE sequential history (a pending kick must survive disconnect/reconnect, clears and other users' operations); report size: non-empty and zero-byte (tx=0, rx=0) reports of the kicked user",
		}
		p.Bounds = map[string]any{"max_depth": depth, "max_connections_per_user": c15hMaxConns, "users": 2}
		mk := func() xstate.Sys[c15hOp] {
			s := c15hNew()
			if !c15hEnabled(s, first) {
				return nil
			}
			if err := s.Apply(first); err != nil {
				sh.Violate(p.Name, "histories/"+strings.SplitN(err.Error(), ":", 2)[0]+"/"+first.String(), err.Error(), []c15hOp{first})
				return nil
			}
			return s
		}
		if mk() == nil {
			p.Note("first operation not enabled in the initial state (nothing to disconnect) or already violating")
			continue
		}
		res := xstate.BFS(xstate.Config[c15hOp]{Ops: c15hOps(), New: mk, MaxDepth: depth - 1, Enabled: c15hEnabled, MaxStates: 400000}, p, env)
		if res.Violation != nil {
			hist := append([]c15hOp{first}, res.History...)
			var h []string
			for _, o := range hist {
				h = append(h, o.String())
			}
			sh.Violate(p.Name, "histories/"+strings.SplitN(res.Violation.Error(), ":", 2)[0]+"/"+strings.Join(h, ";"), res.Violation.Error(), hist)
		}
	}
}

func TestVerifC15Histories(t *testing.T) {
	evidence.Main(t, "C15", evidence.Seq{Run: c15hRun, Replay: func(part string, raw json.RawMessage) (bool, bool, string) {
		if !strings.HasPrefix(part, "histories/") {
			return false, false, ""
		}
		var h []c15hOp
		if err := json.Unmarshal(raw, &h); err != nil {
			return true, false, err.Error()
		}
		s := c15hNewIDs(c15hSpellingOf(part))
		for _, o := range h {
			if err := s.Apply(o); err != nil {
				return true, true, err.Error()
			}
		}
		return true, false, "history holds"
	}})
}
