package sniff

// C03 harness, unit "sniff" (injected into extras/sniff): the first bytes of a sniffed TCP flow
// (Sniffer.TCP on a scripted stream) and the first datagram of a sniffed UDP flow (Sniffer.UDP),
// including correctly protected QUIC Initial packets that carry enumerated ClientHello variants
// into the TLS ClientHello parser.

import (
	"bytes"
	"fmt"
	"strings"
	"testing"

	"github.com/apernet/quic-go"

	"verif.local/engine/enum"
	"verif.local/engine/evidence"
	"verif.local/harness/C03/c03lib"
)

const c03Unit = "sniff"

type c03Stream struct {
	c03lib.StreamScript
}

func (s *c03Stream) StreamID() quic.StreamID { return 4 }

// largest single read the sniffer may issue: a TLS record body (uint16 length)
const c03ReadCap = 65535

func c03Exec(c *c03lib.Case) c03lib.Outcome {
	switch c.Dec {
	case "sniff.Sniffer.TCP":
		return c03TCP(c)
	case "sniff.Sniffer.UDP":
		return c03UDP(c03lib.Fresh(c.In), c.S[0], "")
	case "sniff.Sniffer.UDP(protected)":
		return c03UDPProtected(c)
	}
	return c03lib.Outcome{Clause: "unknown decoder", Detail: c.Dec}
}

func c03TCP(c *c03lib.Case) c03lib.Outcome {
	data := c03lib.Fresh(c.In)
	st := &c03Stream{}
	st.Data = data
	if c.P[0] == 1 {
		for i := 1; i < len(data); i++ {
			st.Cuts = append(st.Cuts, i)
		}
	}
	reqAddr := c.S[0]
	want := ""
	if len(c.S) > 1 {
		want = c.S[1]
	}
	s := &Sniffer{}
	putback, err := s.TCP(st, &reqAddr)
	cls := fmt.Sprintf("err=%v|rew=%v|pb=%d", err != nil, reqAddr != c.S[0], min(len(putback), 6))
	if st.MaxReq > c03ReadCap {
		return c03lib.Outcome{Class: cls, Clause: "sniffer issued a read larger than a TLS record", Detail: fmt.Sprint(st.MaxReq)}
	}
	if err == nil {
		// service continues for this flow: what was consumed is handed back for forwarding
		if !bytes.Equal(putback, data[:st.Pos]) {
			return c03lib.Outcome{Class: cls, Clause: "bytes consumed while sniffing are not handed back intact", Detail: fmt.Sprintf("consumed %d, returned %d", st.Pos, len(putback))}
		}
	}
	if want != "" && (err != nil || reqAddr != want) {
		return c03lib.Outcome{Class: cls, Clause: "well-formed first flight not sniffed", Detail: fmt.Sprintf("addr %q err %v", reqAddr, err)}
	}
	return c03lib.Outcome{Class: cls}
}

func c03UDP(data []byte, reqAddr0, want string) c03lib.Outcome {
	reqAddr := reqAddr0
	s := &Sniffer{}
	err := s.UDP(data, &reqAddr)
	cls := fmt.Sprintf("err=%v|rew=%v", err != nil, reqAddr != reqAddr0)
	if want != "" && (err != nil || reqAddr != want) {
		return c03lib.Outcome{Class: cls, Clause: "well-formed QUIC Initial not sniffed", Detail: fmt.Sprintf("addr %q err %v", reqAddr, err)}
	}
	if want == "" && err == nil && reqAddr != reqAddr0 && !strings.Contains(reqAddr, "a.example") {
		return c03lib.Outcome{Class: cls, Clause: "address rewritten to something that is not in the packet", Detail: reqAddr}
	}
	return c03lib.Outcome{Class: cls}
}

// ---------------------------------------------------------------------------------------------
// ClientHello builder: every length field is declared as actual / actual-1 / actual+1 / 0 / max

type c03CH struct {
	HsType                                       byte
	HsLen, Sid, Cs, Comp, ExtTotal, SniExt, List int // modes, see c03Decl (Sid: index into sidLens)
	NameType                                     byte
	NameLen                                      int
}

func c03Decl(actual, mode, max int) int {
	switch mode {
	case 1:
		if actual > 0 {
			return actual - 1
		}
		return 0
	case 2:
		return actual + 1
	case 3:
		return 0
	case 4:
		return max
	}
	return actual
}

var c03SidLens = []int{0, 32, 33, 255}

func c03u16(v int) []byte { return []byte{byte(v >> 8), byte(v)} }

func (h *c03CH) Build() []byte {
	name := []byte("a.example")
	sni := c03lib.Cat([]byte{h.NameType}, c03u16(c03Decl(len(name), h.NameLen, 0xffff)), name)
	list := c03lib.Cat(c03u16(c03Decl(len(sni), h.List, 0xffff)), sni)
	ext := c03lib.Cat([]byte{0, 0}, c03u16(c03Decl(len(list), h.SniExt, 0xffff)), list)
	exts := c03lib.Cat(ext, []byte{0x00, 0x2b, 0x00, 0x03, 0x02, 0x03, 0x04})
	sidDecl := c03SidLens[h.Sid]
	body := c03lib.Cat([]byte{3, 3}, c03lib.Fill(32, "\x11\x22\x33"), []byte{byte(sidDecl)}, c03lib.Fill(min(sidDecl, 32), "s"),
		c03u16(c03Decl(2, h.Cs, 0xffff)), []byte{0x13, 0x01}, []byte{byte(c03Decl(1, h.Comp, 255))}, []byte{0},
		c03u16(c03Decl(len(exts), h.ExtTotal, 0xffff)), exts)
	hl := c03Decl(len(body), h.HsLen, 0xffffff)
	return c03lib.Cat([]byte{h.HsType, byte(hl >> 16), byte(hl >> 8), byte(hl)}, body)
}

func (h *c03CH) nominal() bool {
	return h.HsType == 1 && h.HsLen == 0 && h.Sid <= 1 && h.Cs == 0 && h.Comp == 0 && h.ExtTotal == 0 && h.SniExt == 0 && h.List == 0 && h.NameType == 0 && h.NameLen == 0
}

// c03EachCH enumerates the inner-length product.
func c03EachCH(f func(h c03CH) bool) {
	for sid := 0; sid < 4; sid++ {
		for _, cs := range []int{0, 2, 3, 4} {
			for _, comp := range []int{0, 3, 4} {
				for ext := 0; ext < 5; ext++ {
					for sx := 0; sx < 3; sx++ {
						for ls := 0; ls < 3; ls++ {
							for nt := byte(0); nt < 2; nt++ {
								for nl := 0; nl < 5; nl++ {
									if !f(c03CH{HsType: 1, Sid: sid, Cs: cs, Comp: comp, ExtTotal: ext, SniExt: sx, List: ls, NameType: nt, NameLen: nl}) {
										return
									}
								}
							}
						}
					}
				}
			}
		}
	}
}

// P = [version idx, dcid len, split (0: one CRYPTO frame, 1: two frames in order, 2: two frames reversed), truncation of the handshake message (-1 none)]
func c03UDPProtected(c *c03lib.Case) c03lib.Outcome {
	hs := []byte(c.In)
	if c.P[3] >= 0 && int(c.P[3]) < len(hs) {
		hs = hs[:c.P[3]]
	}
	var pl []byte
	frame := func(off int, d []byte) []byte {
		return c03lib.Cat([]byte{0x06}, c03lib.VarintMin(uint64(off)), c03lib.VarintMin(uint64(len(d))), d)
	}
	half := len(hs) / 2
	switch c.P[2] {
	case 0:
		pl = frame(0, hs)
	case 1:
		pl = c03lib.Cat(frame(0, hs[:half]), []byte{0x01}, frame(half, hs[half:]))
	default:
		pl = c03lib.Cat(frame(half, hs[half:]), frame(0, hs[:half]))
	}
	for len(pl) < 1162 {
		pl = append(pl, 0) // PADDING up to the usual Initial size
	}
	first := byte(0xc1)
	ver := c03lib.QUICv1
	if c.P[0] == 1 {
		first, ver = 0xd1, c03lib.QUICv2
	}
	q := &c03lib.QUICInitial{First: first, Version: ver, DCID: c03lib.Fill(int(c.P[1]), "\x83\x94\xc8\xf0\x3e\x51\x57\x08"), SCID: []byte{9}, PN: 2, Payload: pl}
	pkt, _ := q.Build()
	want := ""
	if len(c.S) > 1 {
		want = c.S[1]
	}
	return c03UDP(pkt, c.S[0], want)
}

func c03Enumerate(sh *evidence.Shard) {
	r := c03lib.NewRunner(sh, c03Unit, c03Exec)
	defer r.Close()
	th := r.Thorough()
	const addr = "192.0.2.7:443"

	// --- TCP: strings ---------------------------------------------------------------------------
	// bytes compared by isHTTP ('A','Z','a','z' and their neighbours), isTLS (16/17 +-1, 03, 09/0a),
	// the record length bytes, and HTTP separators
	sg := []byte{0x00, 0x01, 0x03, 0x09, 0x0a, 0x0d, 0x15, 0x16, 0x17, 0x18, ' ', '@', 'A', 'Z', '[', '`', 'a', 'z', '{', 0xff}
	L := 3
	if th {
		L = 5
	}
	p := r.Part("Sniffer.TCP/strings", map[string]any{"alphabet": fmt.Sprintf("%x", sg), "max_len": L, "delivery": "whole, byte-at-a-time", "then": "EOF"}, map[string]any{"max_len": L})
	enum.Strings(sg, L, func(b []byte) bool {
		for mode := int64(0); mode < 2; mode++ {
			r.Do(p, func() *c03lib.Case {
				return &c03lib.Case{Dec: "sniff.Sniffer.TCP", In: c03lib.Fresh(b), P: []int64{mode}, S: []string{addr}}
			})
		}
		return !r.Stopped()
	})

	// --- TCP: TLS record framing ------------------------------------------------------------------
	nominalCH := (&c03CH{HsType: 1}).Build()
	p = r.Part("Sniffer.TCP/tls-record", map[string]any{"record_type": "16,17", "version_minor": "00,03,09,0a", "record_len": "actual, actual-1, actual+1, 0, 1, 65535",
		"handshake_type": "01,02", "handshake_len": "actual, actual-1, actual+1, 0, 0xffffff", "truncation": "every length", "request_addr": []string{addr, "noport"}}, nil)
	for _, rt := range []byte{0x16, 0x17} {
		for _, vm := range []byte{0x00, 0x03, 0x09, 0x0a} {
			for rl := 0; rl < 6; rl++ {
				for _, ht := range []byte{1, 2} {
					for hl := 0; hl < 5; hl++ {
						ch := (&c03CH{HsType: ht, HsLen: hl}).Build()
						decl := []int{len(ch), len(ch) - 1, len(ch) + 1, 0, 1, 65535}[rl]
						rec := c03lib.Cat([]byte{rt, 3, vm}, c03u16(decl), ch)
						for t := 0; t <= len(rec); t++ {
							for _, ra := range []string{addr, "noport"} {
								r.Do(p, func() *c03lib.Case {
									c := &c03lib.Case{Dec: "sniff.Sniffer.TCP", In: c03lib.Fresh(rec[:t]), P: []int64{0}, S: []string{ra}}
									if t == len(rec) && rl == 0 && ht == 1 && hl == 0 && vm != 0x0a && ra == addr {
										c.S = append(c.S, "a.example:443")
									}
									return c
								})
							}
						}
					}
				}
			}
		}
	}

	// --- TCP: ClientHello inner lengths --------------------------------------------------------------
	p = r.Part("Sniffer.TCP/tls-clienthello", map[string]any{"session_id_len": c03SidLens, "cipher_suites_len": "2,3,0,65535", "compression_len": "1,0,255", "extensions_len": "actual,-1,+1,0,65535",
		"sni_ext_len": "actual,-1,+1", "sni_list_len": "actual,-1,+1", "name_type": "0,1", "name_len": "actual,-1,+1,0,65535",
		"truncation": map[bool]string{true: "every length", false: "full, last 3 lengths, and every 8th length"}[th]}, nil)
	c03EachCH(func(h c03CH) bool {
		ch := h.Build()
		rec := c03lib.Cat([]byte{0x16, 3, 1}, c03u16(len(ch)), ch)
		for t := 0; t <= len(rec); t++ {
			if !th && !(t >= len(rec)-3 || t%8 == 5) {
				continue
			}
			r.Do(p, func() *c03lib.Case {
				// on truncation the record length still announces the full ClientHello
				c := &c03lib.Case{Dec: "sniff.Sniffer.TCP", In: c03lib.Fresh(rec[:t]), P: []int64{0}, S: []string{addr}}
				if t == len(rec) && h.nominal() {
					c.S = append(c.S, "a.example:443")
				}
				return c
			})
		}
		return !r.Stopped()
	})

	// --- TCP: HTTP ------------------------------------------------------------------------------------
	reqLines := []string{"GET / HTTP/1.1", "GET /", "GET", "get / HTTP/9.9", "CONNECT a:1 HTTP/1.1", "GET http://h.example/ HTTP/1.1", "POST /\x00 HTTP/1.0"}
	hosts := []string{"", "Host: x.example", "Host: x.example:80", "Host: [::1]:80", "Host: [::1", "Host: a:b:c", "Host: ", "Host: " + strings.Repeat("h", 300), "Host: x\r\nHost: y"}
	// dimension "name part of the Host value": empty / root dot only / fully qualified (trailing dot) / brackets
	// around nothing, each without a port, with an empty port and with a port - the Host value is non-empty
	// but what is left after splitting off the port is a boundary name; added after the independently seeded
	// change C03-9 (a trailing-dot normaliser indexed the last byte of the empty name left by "Host: :8080")
	for _, name := range []string{"", ".", "x.example.", "[]"} {
		for _, port := range []string{"", ":", ":8080"} {
			if name+port != "" {
				hosts = append(hosts, "Host: "+name+port)
			}
		}
	}
	p = r.Part("Sniffer.TCP/http", map[string]any{"request_line": reqLines, "host_header": "none, name, name:port, [v6]:port, unclosed bracket, a:b:c, empty, 300 bytes, duplicate",
		"host_name_part": "{empty, '.', 'x.example.', '[]'} x {no port, ':', ':8080'} (port-only, root-dot and fully qualified spellings)", "line_end": "CRLF, LF",
		"terminator": "present, absent", "request_addr": []string{addr, "noport", "", "[::1]:443"}, "truncation": "every length", "delivery": "whole; byte-at-a-time for the full request"}, nil)
	for _, rl := range reqLines {
		for _, h := range hosts {
			for _, nl := range []string{"\r\n", "\n"} {
				for _, term := range []bool{true, false} {
					req := rl + nl
					if h != "" {
						req += strings.ReplaceAll(h, "\r\n", nl) + nl
					}
					req += "X-A: b" + nl
					if term {
						req += nl + "body"
					}
					for _, ra := range []string{addr, "noport", "", "[::1]:443"} {
						for t := 0; t <= len(req); t++ {
							r.Do(p, func() *c03lib.Case {
								return &c03lib.Case{Dec: "sniff.Sniffer.TCP", In: []byte(req[:t]), P: []int64{0}, S: []string{ra}}
							})
						}
						r.Do(p, func() *c03lib.Case {
							c := &c03lib.Case{Dec: "sniff.Sniffer.TCP", In: []byte(req), P: []int64{1}, S: []string{ra}}
							if ra == addr && rl == reqLines[0] && h == hosts[1] && term {
								c.S = append(c.S, "x.example:443")
							}
							return c
						})
					}
				}
			}
		}
	}
	p = r.Part("Sniffer.TCP/http-large", map[string]any{"header_bytes": "262143, 262144, 262145, 300000 (limit sniffMaxHTTPHeaderBytes = 256 KiB)", "shape": "one endless header line / many short header lines"}, nil)
	for _, n := range []int{262143, 262144, 262145, 300000} {
		for shape := 0; shape < 2; shape++ {
			r.Do(p, func() *c03lib.Case {
				pre := "GET / HTTP/1.1\r\nHost: x.example\r\n"
				var b []byte
				if shape == 0 {
					b = c03lib.Cat([]byte(pre+"X: "), c03lib.Fill(n-len(pre)-3, "A"))
				} else {
					b = c03lib.Cat([]byte(pre), c03lib.Fill(n-len(pre), "X-Abcdef: 12345\r\n"))
				}
				return &c03lib.Case{Dec: "sniff.Sniffer.TCP", In: b, P: []int64{0}, S: []string{addr}}
			})
		}
	}

	// --- UDP: raw ---------------------------------------------------------------------------------------
	p = r.Part("Sniffer.UDP/raw-fields", map[string]any{"first_byte": "00,40,c0,c3,d0", "version": "0, v1, v2", "dcid_len": []int{0, 8}, "length": []int{0, 1, 4, 19, 20, 21}, "body_len": []int{0, 1, 16, 17, 64}, "truncation": "every length"}, nil)
	for _, fb := range []byte{0x00, 0x40, 0xc0, 0xc3, 0xd0} {
		for _, ver := range []uint32{0, 1, 0x6b3343cf} {
			for _, dl := range []int{0, 8} {
				for _, ln := range []byte{0, 1, 4, 19, 20, 21} {
					for _, bl := range []int{0, 1, 16, 17, 64} {
						pkt := c03lib.Cat([]byte{fb, byte(ver >> 24), byte(ver >> 16), byte(ver >> 8), byte(ver), byte(dl)}, c03lib.Fill(dl, "\xd1"), []byte{0, 0, ln}, c03lib.Fill(bl, "\xaa"))
						for t := 0; t <= len(pkt); t++ {
							r.Do(p, func() *c03lib.Case {
								return &c03lib.Case{Dec: "sniff.Sniffer.UDP", In: c03lib.Fresh(pkt[:t]), S: []string{addr}}
							})
						}
					}
				}
			}
		}
	}

	// --- UDP: protected Initial packets carrying ClientHello variants -------------------------------------
	p = r.Part("Sniffer.UDP/protected-clienthello", map[string]any{"clienthello": "same inner-length product as Sniffer.TCP/tls-clienthello", "version": "v1, v2", "dcid_len": "8 (0 and 20 for the nominal hello)",
		"crypto_frames": "one / two in order with a PING between / two reversed", "handshake_truncation": map[bool]string{true: "none, every 4th length", false: "none, len-1, 4, 38"}[th], "request_addr": []string{addr, "noport"}}, nil)
	c03EachCH(func(h c03CH) bool {
		ch := h.Build()
		truncs := []int64{-1, int64(len(ch)) - 1, 4, 38}
		if th {
			truncs = []int64{-1}
			for t := 0; t < len(ch); t += 4 {
				truncs = append(truncs, int64(t))
			}
		}
		for vi := int64(0); vi < 2; vi++ {
			for split := int64(0); split < 3; split++ {
				for _, t := range truncs {
					if !th && (vi == 1 || split != 0) && t != -1 {
						continue
					}
					r.Do(p, func() *c03lib.Case {
						c := &c03lib.Case{Dec: "sniff.Sniffer.UDP(protected)", In: c03lib.Fresh(ch), P: []int64{vi, 8, split, t}, S: []string{addr}}
						if t == -1 && h.nominal() {
							c.S = append(c.S, "a.example:443")
						}
						return c
					})
				}
			}
		}
		return !r.Stopped()
	})
	for _, dl := range []int64{0, 1, 20} {
		for _, ra := range []string{addr, "noport"} {
			r.Do(p, func() *c03lib.Case {
				c := &c03lib.Case{Dec: "sniff.Sniffer.UDP(protected)", In: c03lib.Fresh(nominalCH), P: []int64{0, dl, 0, -1}, S: []string{ra}}
				if ra == addr {
					c.S = append(c.S, "a.example:443")
				}
				return c
			})
		}
	}
}

func TestVerifC03Sniff(t *testing.T) {
	evidence.Main(t, "C03", evidence.Seq{Run: c03Enumerate, Replay: c03lib.Replay(c03Unit, c03Exec)})
}
