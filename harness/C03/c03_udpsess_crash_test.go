package server

// C03 over schedules: the server's UDP session manager processes peer-controlled datagrams in a
// receive loop that has no recover (`go sm.Run()`): a panic there kills the whole process. C03's
// other units feed byte strings and sequences of them; this unit runs the C07 session scenarios
// (datagrams, fragments, replies, read errors, idle sweeps, slow dials, policy lookups as
// scheduling points) under the explorer and reports ONLY crashes — the session semantics
// themselves are C07's business. Added after the independently seeded change C03-3 (cache map
// released on close + lazy creation moved before the policy lookup: nil-map write when a session
// is closed while a lookup for a new destination is in flight).

import (
	"testing"

	"verif.local/engine/evidence"
	"verif.local/engine/explore"
)

func TestVerifC03UDPSessionCrash(t *testing.T) {
	env := evidence.GetEnv("C03")
	var scs []*explore.Scenario
	for _, sc := range c07Scenarios() {
		if sc.thOnly && !env.Thorough() && env.Replay == "" {
			continue
		}
		sc := sc
		scs = append(scs, &explore.Scenario{Name: "udp-session-crash/" + sc.name, Quick: sc.quick, Thorough: sc.thorough, Body: sc.body, Sig: c07Sig, OnlyKinds: []string{"panic"}})
	}
	explore.Main(t, "C03", scs)
}
