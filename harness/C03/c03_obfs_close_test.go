package obfs

// C03, stateful receiver history "[Close; chunk]": quic-go's read goroutine may already hold a
// datagram when another goroutine closes the Gecko conn, so a chunk can be processed after Close
// has completed. Whatever the frame header, that must not crash the process. (Added after the
// independently seeded change C03-2 - Close() niling the reassembly maps - was missed by the
// sequential enumeration; the racing schedule itself is explored by the C14 concurrency unit.)

import (
	"encoding/json"
	"fmt"
	"net"
	"testing"
	"time"

	"verif.local/engine/evidence"
)

type c03cStub struct{ closed bool }

func (s *c03cStub) ReadFrom(b []byte) (int, net.Addr, error) { return 0, nil, net.ErrClosed }
func (s *c03cStub) WriteTo(b []byte, a net.Addr) (int, error) { return len(b), nil }
func (s *c03cStub) Close() error                              { s.closed = true; return nil }
func (s *c03cStub) LocalAddr() net.Addr                       { return &net.UDPAddr{IP: net.IPv4(127, 0, 0, 1), Port: 1} }
func (s *c03cStub) SetDeadline(time.Time) error               { return nil }
func (s *c03cStub) SetReadDeadline(time.Time) error           { return nil }
func (s *c03cStub) SetWriteDeadline(time.Time) error          { return nil }

type c03cCase struct {
	MsgID, Idx, Total uint8
	Payload           int
	Before            int // chunks of another message accepted before Close
}

func c03cRun(c *c03cCase) string {
	g := newGeckoPacketConn(&c03cStub{}, 512, 1200)
	src := &net.UDPAddr{IP: net.IPv4(10, 0, 0, 9), Port: 4000}
	clause := ""
	v, st := evidence.Catch(func() {
		for i := 0; i < c.Before; i++ {
			g.acceptChunk(src, frameHeader{msgID: 200, chunkIdx: uint8(i), totalChunks: 8}, []byte{byte(i)})
		}
		_ = g.Close()
		g.acceptChunk(src, frameHeader{msgID: c.MsgID, chunkIdx: c.Idx, totalChunks: c.Total}, make([]byte, c.Payload))
		g.gcExpired(time.Now().Add(time.Hour))
		_ = g.Close()
	})
	if v != nil {
		clause = fmt.Sprintf("panic: %v at %s", v, evidence.PanicSite(st))
	}
	return clause
}

func c03cEnumerate(sh *evidence.Shard) {
	env := sh.Env()
	if env.Shard != 0 {
		return
	}
	p := sh.Part("gecko-chunk-after-close", "enum")
	p.Alphabet = map[string]any{"msg_id": []int{0, 1, 200, 255}, "total_chunks": "2..8", "chunk_idx": "0..total-1", "payload": []int{0, 1, 100}, "chunks_before_close": []int{0, 1, 3}}
	for _, id := range []uint8{0, 1, 200, 255} {
		for total := uint8(2); total <= 8; total++ {
			for idx := uint8(0); idx < total; idx++ {
				for _, pl := range []int{0, 1, 100} {
					for _, before := range []int{0, 1, 3} {
						c := c03cCase{MsgID: id, Idx: idx, Total: total, Payload: pl, Before: before}
						p.Evaluations++
						clause := c03cRun(&c)
						p.Class(id, total, idx == total-1, pl, before, clause == "")
						if p.Evaluations%97 == 1 {
							p.Sample(c)
						}
						if clause != "" {
							cc := c
							sh.Violate(p.Name, "obfs.geckoPacketConn.acceptChunk-after-Close/"+clause, clause, &cc)
							return
						}
					}
				}
			}
		}
	}
}

func TestVerifC03ObfsClose(t *testing.T) {
	evidence.Main(t, "C03", evidence.Seq{Run: c03cEnumerate, Replay: func(part string, raw json.RawMessage) (bool, bool, string) {
		if part != "gecko-chunk-after-close" {
			return false, false, ""
		}
		var c c03cCase
		if err := json.Unmarshal(raw, &c); err != nil {
			return true, false, err.Error()
		}
		clause := c03cRun(&c)
		return true, clause != "", clause
	}})
}
