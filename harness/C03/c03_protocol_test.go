package protocol

// C03 harness, unit "protocol" (injected into core/internal/protocol): the proxy stream frame
// readers, the UDP message parser and serializer fed with every byte string / field product of
// the bounded spaces below, each in a fresh exact-size slice, each call under recover().

import (
	"bytes"
	"fmt"
	"testing"

	"verif.local/engine/enum"
	"verif.local/engine/evidence"
	"verif.local/harness/C03/c03lib"
)

const c03Unit = "protocol"

// largest single read a frame reader may issue (= largest buffer it may allocate on the word of
// the peer): the larger of the address/message limit 2048 and the padding limit 4096 of
// PROTOCOL.md. (The sum of all requests is not bounded this way: a short read is re-requested.)
const c03StreamCap = 4096

func c03Exec(c *c03lib.Case) c03lib.Outcome {
	switch c.Dec {
	case "protocol.ParseUDPMessage":
		return c03ParseUDP(c03lib.Fresh(c.In))
	case "protocol.ReadTCPRequest", "protocol.ReadTCPResponse":
		return c03Stream(c)
	case "protocol.UDPMessage.Serialize":
		return c03Serialize(int(c.P[0]), int(c.P[1]), int(c.P[2]))
	}
	return c03lib.Outcome{Clause: "unknown decoder", Detail: c.Dec}
}

// reference for the UDP message layout of PROTOCOL.md: 4+2+1+1 header, varint address length,
// address, payload. verdict: +1 must accept, -1 must reject, 0 either (empty payload).
func c03RefUDP(b []byte) (verdict int, addr, data []byte) {
	if len(b) < 8 {
		return -1, nil, nil
	}
	l, w, ok := c03lib.ReadVarint(b[8:])
	if !ok {
		return -1, nil, nil
	}
	if l == 0 || l > 2048 {
		return -1, nil, nil
	}
	rest := b[8+w:]
	if uint64(len(rest)) < l {
		return -1, nil, nil
	}
	if uint64(len(rest)) == l {
		return 0, rest[:l], nil
	}
	return 1, rest[:l], rest[l:]
}

func c03ParseUDP(in []byte) c03lib.Outcome {
	orig := c03lib.Fresh(in)
	m, err := ParseUDPMessage(in)
	verdict, addr, data := c03RefUDP(orig)
	cls := fmt.Sprintf("len=%d|ref=%d|err=%v", min(len(in), 12), verdict, err != nil)
	if err != nil {
		if m != nil {
			return c03lib.Outcome{Class: cls, Clause: "error together with a message"}
		}
		if verdict > 0 {
			return c03lib.Outcome{Class: cls, Clause: "well-formed UDP message rejected", Detail: err.Error()}
		}
		return c03lib.Outcome{Class: cls + "|" + err.Error()}
	}
	if verdict < 0 {
		return c03lib.Outcome{Class: cls, Clause: "malformed UDP message accepted", Detail: fmt.Sprintf("addr %d bytes, data %d bytes", len(m.Addr), len(m.Data))}
	}
	if verdict > 0 && (m.Addr != string(addr) || !bytes.Equal(m.Data, data)) {
		return c03lib.Outcome{Class: cls, Clause: "parsed address/data differ from the wire bytes"}
	}
	if m.SessionID != uint32(orig[0])<<24|uint32(orig[1])<<16|uint32(orig[2])<<8|uint32(orig[3]) ||
		m.PacketID != uint16(orig[4])<<8|uint16(orig[5]) || m.FragID != orig[6] || m.FragCount != orig[7] {
		return c03lib.Outcome{Class: cls, Clause: "parsed header fields differ from the wire bytes"}
	}
	// the accepted message goes on to Size/Serialize on the relay path
	buf := make([]byte, m.Size())
	if n := m.Serialize(buf); n != m.Size() {
		return c03lib.Outcome{Class: cls, Clause: "accepted message does not serialize into a buffer of its own size", Detail: fmt.Sprint(n)}
	}
	return c03lib.Outcome{Class: cls}
}

// reference for the request/response frames (PROTOCOL.md): accept / reject(limit) / truncated
func c03RefStream(resp bool, s []byte) (accept bool, val []byte) {
	off := 0
	if resp {
		if len(s) < 1 {
			return false, nil
		}
		off = 1
	}
	l, w, ok := c03lib.ReadVarint(s[off:])
	if !ok {
		return false, nil
	}
	off += w
	if resp {
		if l > 2048 {
			return false, nil
		}
	} else if l == 0 || l > 2048 {
		return false, nil
	}
	if uint64(len(s)-off) < l {
		return false, nil
	}
	val = s[off : off+int(l)]
	off += int(l)
	p, w, ok := c03lib.ReadVarint(s[off:])
	if !ok {
		return false, nil
	}
	off += w
	if p > 4096 || uint64(len(s)-off) < p {
		return false, nil
	}
	return true, val
}

func c03Stream(c *c03lib.Case) c03lib.Outcome {
	resp := c.Dec == "protocol.ReadTCPResponse"
	data := c03lib.Fresh(c.In)
	r := &c03lib.StreamScript{Data: data}
	if len(c.P) > 0 && c.P[0] == 1 {
		for i := 1; i < len(data); i++ {
			r.Cuts = append(r.Cuts, i)
		}
	}
	var got string
	var err error
	if resp {
		_, got, err = ReadTCPResponse(r)
	} else {
		got, err = ReadTCPRequest(r)
	}
	accept, val := c03RefStream(resp, c.In)
	n := min(len(c.In), 10)
	cls := fmt.Sprintf("%x|%d|%v", c.In[:n], len(c.In), err == nil)
	if r.MaxReq > c03StreamCap {
		return c03lib.Outcome{Class: cls, Clause: "frame reader issued a read larger than the protocol limits allow", Detail: fmt.Sprintf("%d > %d", r.MaxReq, c03StreamCap)}
	}
	if accept {
		if err != nil {
			return c03lib.Outcome{Class: cls, Clause: "well-formed frame rejected", Detail: err.Error()}
		}
		if got != string(val) {
			return c03lib.Outcome{Class: cls, Clause: "decoded value differs from the wire bytes"}
		}
	} else if err == nil {
		return c03lib.Outcome{Class: cls, Clause: "malformed or truncated frame accepted", Detail: fmt.Sprintf("value of %d bytes", len(got))}
	}
	return c03lib.Outcome{Class: cls}
}

func c03Serialize(addrLen, dataLen, bufLen int) c03lib.Outcome {
	m := &UDPMessage{SessionID: 0x01020304, PacketID: 0x0506, FragID: 1, FragCount: 2,
		Addr: string(c03lib.Fill(addrLen, "example.com:443/")), Data: c03lib.Fill(dataLen, "\x00\xff\x40\x80")}
	lw := len(c03lib.VarintMin(uint64(addrLen)))
	size := 8 + lw + addrLen + dataLen
	buf := make([]byte, bufLen)
	n := m.Serialize(buf)
	cls := fmt.Sprintf("a=%d|d=%d|b=%d|n=%d", addrLen, dataLen, bufLen, n)
	if m.Size() != size {
		return c03lib.Outcome{Class: cls, Clause: "Size differs from the wire layout", Detail: fmt.Sprintf("%d != %d", m.Size(), size)}
	}
	if bufLen < size {
		if n != -1 {
			return c03lib.Outcome{Class: cls, Clause: "Serialize wrote into a buffer that is too small", Detail: fmt.Sprint(n)}
		}
		return c03lib.Outcome{Class: cls}
	}
	if n != size {
		return c03lib.Outcome{Class: cls, Clause: "Serialize returned a wrong length", Detail: fmt.Sprintf("%d != %d", n, size)}
	}
	if addrLen >= 1 && addrLen <= 2048 && dataLen >= 1 {
		m2, err := ParseUDPMessage(c03lib.Fresh(buf[:n]))
		if err != nil || m2.Addr != m.Addr || !bytes.Equal(m2.Data, m.Data) || m2.FragID != 1 || m2.FragCount != 2 {
			return c03lib.Outcome{Class: cls, Clause: "serialized message does not parse back", Detail: fmt.Sprint(err)}
		}
	}
	return c03lib.Outcome{Class: cls}
}

func c03Enumerate(sh *evidence.Shard) {
	r := c03lib.NewRunner(sh, c03Unit, c03Exec)
	defer r.Close()
	th := r.Thorough()

	// --- ParseUDPMessage -------------------------------------------------------------------
	// alphabet: the bytes that matter to the varint (4 prefixes, 63/64 edge) and to the
	// comparisons with MaxMessageLength=2048 (0x47ff/0x4800/0x4801) plus 00/01/02/ff
	sigma := []byte{0x00, 0x01, 0x02, 0x3f, 0x40, 0x47, 0x48, 0x80, 0xc0, 0xff}
	L := 5
	if th {
		L = 7
	}
	p := r.Part("ParseUDPMessage/strings", map[string]any{"header": "lengths 0..9 over {00,ff}; then 8-byte header {00..,ff..} + every tail", "tail_alphabet": fmt.Sprintf("%x", sigma), "tail_max_len": L}, map[string]any{"max_tail_len": L})
	enum.Strings([]byte{0x00, 0xff}, 9, func(b []byte) bool {
		r.Do(p, func() *c03lib.Case { return &c03lib.Case{Dec: "protocol.ParseUDPMessage", In: c03lib.Fresh(b)} })
		return !r.Stopped()
	})
	for _, hb := range []byte{0x00, 0xff} {
		hdr := bytes.Repeat([]byte{hb}, 8)
		enum.Strings(sigma, L, func(b []byte) bool {
			r.Do(p, func() *c03lib.Case { return &c03lib.Case{Dec: "protocol.ParseUDPMessage", In: c03lib.Cat(hdr, b)} })
			return !r.Stopped()
		})
	}

	lenVals := []uint64{0, 1, 2, 63, 64, 2047, 2048, 2049, 16383, 16384, 1<<30 - 1, 1 << 30, 1<<62 - 1}
	p = r.Part("ParseUDPMessage/fields", map[string]any{"frag_id": []int{0, 1, 255}, "frag_count": []int{0, 1, 2, 255}, "addr_len": lenVals, "varint_widths": "every width that fits",
		"bytes_after_varint": "0,1,len-1,len,len+1,len+2 (len capped at 2100)", "truncation": "every length for messages <= 96 bytes, else boundaries+-2, first 24, last 40"}, nil)
	for _, fid := range []byte{0, 1, 255} {
		for _, fc := range []byte{0, 1, 2, 255} {
			for _, enc := range c03lib.VarintEncodings(lenVals) {
				v, _, _ := c03lib.ReadVarint(enc)
				al := int(min(v, 2100))
				for _, rest := range []int{0, 1, al - 1, al, al + 1, al + 2} {
					if rest < 0 {
						continue
					}
					msg := c03lib.Cat([]byte{0, 0, 0, 1, 0, 7, fid, fc}, enc, c03lib.Fill(rest, "a.b:53/"))
					for _, t := range c03lib.Truncations(len(msg), 96, []int{8, 8 + len(enc), 8 + len(enc) + al}) {
						r.Do(p, func() *c03lib.Case { return &c03lib.Case{Dec: "protocol.ParseUDPMessage", In: c03lib.Fresh(msg[:t])} })
					}
				}
			}
		}
	}

	// --- Serialize ---------------------------------------------------------------------------
	p = r.Part("Serialize/buffers", map[string]any{"addr_len": []int{0, 1, 63, 64, 2047, 2048, 16383, 16384}, "data_len": []int{0, 1, 2, 1200, 4096}, "buf_len": "0,1,7,8,9,size-1,size,size+1,4096"}, nil)
	for _, al := range []int{0, 1, 63, 64, 2047, 2048, 16383, 16384} {
		for _, dl := range []int{0, 1, 2, 1200, 4096} {
			size := 8 + len(c03lib.VarintMin(uint64(al))) + al + dl
			for _, bl := range []int{0, 1, 7, 8, 9, size - 1, size, size + 1, 4096} {
				r.Do(p, func() *c03lib.Case {
					return &c03lib.Case{Dec: "protocol.UDPMessage.Serialize", P: []int64{int64(al), int64(dl), int64(bl)}}
				})
			}
		}
	}

	// --- stream frame readers ----------------------------------------------------------------
	// alphabet: varint prefixes, 63/64 edge, 0x4800 = MaxAddressLength/MaxMessageLength,
	// 0x5000 = MaxPaddingLength (and +1 through the 01 symbol), 00/01/ff
	sigma2 := []byte{0x00, 0x01, 0x3f, 0x40, 0x48, 0x50, 0x80, 0xc0, 0xff}
	L2 := 5
	if th {
		L2 = 6
	}
	for _, dec := range []string{"protocol.ReadTCPRequest", "protocol.ReadTCPResponse"} {
		p = r.Part(dec[len("protocol."):]+"/strings", map[string]any{"alphabet": fmt.Sprintf("%x", sigma2), "max_len": L2, "delivery": "whole, byte-at-a-time"}, map[string]any{"max_len": L2})
		enum.Strings(sigma2, L2, func(b []byte) bool {
			for mode := int64(0); mode < 2; mode++ {
				r.Do(p, func() *c03lib.Case { return &c03lib.Case{Dec: dec, In: c03lib.Fresh(b), P: []int64{mode}} })
			}
			return !r.Stopped()
		})
		vals := []uint64{0, 1, 63, 64, 2047, 2048, 2049, 4095, 4096, 4097, 16383, 16384, 1<<30 - 1, 1 << 30, 1<<62 - 1}
		p = r.Part(dec[len("protocol."):]+"/fields", map[string]any{"length_values": vals, "varint_widths": "every width that fits", "fields": "address/message length x padding length",
			"body": "declared bytes (capped at 4200) + 2 trailing bytes", "truncation": "every length for streams <= 96 bytes, else field boundaries+-2, first 24, last 40"}, nil)
		encs := c03lib.VarintEncodings(vals)
		for _, e1 := range encs {
			v1, _, _ := c03lib.ReadVarint(e1)
			n1 := int(min(v1, 4200))
			for _, e2 := range encs {
				v2, _, _ := c03lib.ReadVarint(e2)
				n2 := int(min(v2, 4200))
				var s []byte
				if dec == "protocol.ReadTCPResponse" {
					s = append(s, byte(v1&1))
				}
				h := len(s)
				s = c03lib.Cat(s, e1, c03lib.Fill(n1, "\x40\x80\xc0\x3f"), e2, c03lib.Fill(n2, "pad"), []byte{0x44, 0x01})
				b1 := h + len(e1)
				b2 := b1 + n1
				b3 := b2 + len(e2)
				for _, t := range c03lib.Truncations(len(s), 96, []int{h, b1, b2, b3, b3 + n2}) {
					r.Do(p, func() *c03lib.Case { return &c03lib.Case{Dec: dec, In: c03lib.Fresh(s[:t]), P: []int64{0}} })
				}
			}
		}
	}
}

func TestVerifC03Protocol(t *testing.T) {
	evidence.Main(t, "C03", evidence.Seq{Run: c03Enumerate, Replay: c03lib.Replay(c03Unit, c03Exec)})
}
