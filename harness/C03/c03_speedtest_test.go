package speedtest

// C03 harness, unit "speedtest" (injected into extras/outbounds/speedtest): the built-in speed
// test server fed with every request stream of the bounded space (the bytes a client sends to
// "@SpeedTest"), and the client-side response readers / transfer loops fed with every reply
// stream (the bytes a server sends back).

import (
	"fmt"
	"testing"
	"time"

	"verif.local/engine/enum"
	"verif.local/engine/evidence"
	"verif.local/harness/C03/c03lib"
)

const c03Unit = "speedtest"

func c03Exec(c *c03lib.Case) c03lib.Outcome {
	switch c.Dec {
	case "speedtest.server":
		return c03Server(c)
	case "speedtest.readDownloadResponse", "speedtest.readUploadResponse", "speedtest.readUploadSummary":
		return c03Reader(c)
	case "speedtest.Client.Download", "speedtest.Client.Upload":
		return c03Client(c)
	}
	return c03lib.Outcome{Clause: "unknown decoder", Detail: c.Dec}
}

func c03Cuts(n int, mode int64) []int {
	if mode != 1 {
		return nil
	}
	var cuts []int
	for i := 1; i < n && i < 64; i++ {
		cuts = append(cuts, i)
	}
	return cuts
}

// P = [delivery (0 whole, 1 byte-at-a-time), failing write (0 never), endless uploader (0/1)]
func c03Server(c *c03lib.Case) c03lib.Outcome {
	data := c03lib.Fresh(c.In)
	st := &c03lib.StreamScript{Data: data, Cuts: c03Cuts(len(data), c.P[0]), FailWrite: int(c.P[1]), Endless: c.P[2] == 1}
	err := server(st)
	cls := fmt.Sprintf("err=%v|w=%d", err != nil, min(st.Writes, 4))
	if st.MaxReq > chunkSize {
		return c03lib.Outcome{Class: cls, Clause: "server issued a read larger than its chunk size", Detail: fmt.Sprint(st.MaxReq)}
	}
	// reference: the request is type(1) + length(4, big endian)
	wellFormed := len(data) >= 5 && (data[0] == 1 || data[0] == 2)
	if !wellFormed {
		if err == nil {
			return c03lib.Outcome{Class: cls, Clause: "malformed or truncated request accepted"}
		}
		if st.Written != 0 {
			return c03lib.Outcome{Class: cls, Clause: "server answered a malformed request", Detail: fmt.Sprint(st.Written)}
		}
		return c03lib.Outcome{Class: cls}
	}
	l := int64(data[1])<<24 | int64(data[2])<<16 | int64(data[3])<<8 | int64(data[4])
	cls += fmt.Sprintf("|t=%d|l=%d", data[0], min(l, 70000))
	if c.P[1] != 0 {
		return c03lib.Outcome{Class: cls} // the client went away while the server was writing: any error is fine
	}
	if data[0] == 1 {
		if err != nil || st.Written != 5+l {
			return c03lib.Outcome{Class: cls, Clause: "download request not served with the requested amount", Detail: fmt.Sprintf("err=%v written=%d want=%d", err, st.Written, 5+l)}
		}
		return c03lib.Outcome{Class: cls}
	}
	avail := int64(len(data) - 5)
	if c.P[2] == 1 || avail >= l {
		if err != nil || st.Written != 5+8 {
			return c03lib.Outcome{Class: cls, Clause: "complete upload not acknowledged with a summary", Detail: fmt.Sprintf("err=%v written=%d", err, st.Written)}
		}
	} else if err == nil {
		return c03lib.Outcome{Class: cls, Clause: "upload that ended early acknowledged as complete"}
	}
	return c03lib.Outcome{Class: cls}
}

func c03Reader(c *c03lib.Case) c03lib.Outcome {
	data := c03lib.Fresh(c.In)
	st := &c03lib.StreamScript{Data: data, Cuts: c03Cuts(len(data), c.P[0])}
	var err error
	var msg string
	complete := false
	if c.Dec == "speedtest.readUploadSummary" {
		var d time.Duration
		var n uint32
		d, n, err = readUploadSummary(st)
		complete = len(data) >= 8
		if err == nil && complete {
			wd := time.Duration(uint32(data[0])<<24|uint32(data[1])<<16|uint32(data[2])<<8|uint32(data[3])) * time.Millisecond
			wn := uint32(data[4])<<24 | uint32(data[5])<<16 | uint32(data[6])<<8 | uint32(data[7])
			if d != wd || n != wn || d < 0 {
				return c03lib.Outcome{Clause: "summary differs from the wire bytes", Detail: fmt.Sprint(d, n)}
			}
		}
	} else {
		var ok bool
		if c.Dec == "speedtest.readDownloadResponse" {
			ok, msg, err = readDownloadResponse(st)
		} else {
			ok, msg, err = readUploadResponse(st)
		}
		if len(data) >= 3 {
			ml := int(data[1])<<8 | int(data[2])
			complete = len(data) >= 3+ml
			if err == nil && complete && (ok != (data[0] == 0) || msg != string(data[3:3+ml])) {
				return c03lib.Outcome{Clause: "response differs from the wire bytes"}
			}
		}
	}
	cls := fmt.Sprintf("len=%d|ok=%v", min(len(data), 12), err == nil)
	if st.MaxReq > 65535 {
		return c03lib.Outcome{Class: cls, Clause: "reader issued a read larger than the uint16 message length", Detail: fmt.Sprint(st.MaxReq)}
	}
	if complete != (err == nil) {
		if complete {
			return c03lib.Outcome{Class: cls, Clause: "complete reply rejected", Detail: err.Error()}
		}
		return c03lib.Outcome{Class: cls, Clause: "truncated reply accepted", Detail: msg}
	}
	return c03lib.Outcome{Class: cls}
}

// P = [delivery, data size requested, failing write]; In = everything the server sends back
func c03Client(c *c03lib.Case) c03lib.Outcome {
	data := c03lib.Fresh(c.In)
	st := &c03lib.StreamScript{Data: data, Cuts: c03Cuts(len(data), c.P[0]), FailWrite: int(c.P[2])}
	cl := &Client{Conn: st}
	size := uint32(c.P[1])
	done := 0
	var total uint64
	cb := func(d time.Duration, n uint64, fin bool) {
		if fin {
			done++
			total = n
		}
	}
	var err error
	if c.Dec == "speedtest.Client.Download" {
		err = cl.Download(size, 0, cb)
	} else {
		err = cl.Upload(size, 0, cb)
	}
	cls := fmt.Sprintf("err=%v|done=%d", err != nil, done)
	if st.MaxReq > 65536 {
		return c03lib.Outcome{Class: cls, Clause: "client issued a read larger than its chunk size", Detail: fmt.Sprint(st.MaxReq)}
	}
	if (err == nil) != (done == 1) || done > 1 {
		return c03lib.Outcome{Class: cls, Clause: "completion callback and result disagree", Detail: fmt.Sprintf("err=%v done=%d", err, done)}
	}
	// reference: the reply is status(1) len(2) msg, then (download) the data / (upload) an 8-byte summary
	okReply := len(data) >= 3 && data[0] == 0 && len(data) >= 3+(int(data[1])<<8|int(data[2]))
	if !okReply {
		if err == nil {
			return c03lib.Outcome{Class: cls, Clause: "transfer reported successful although the server refused or the reply was truncated"}
		}
		return c03lib.Outcome{Class: cls}
	}
	rest := len(data) - 3 - (int(data[1])<<8 | int(data[2]))
	if c.Dec == "speedtest.Client.Download" {
		if (err == nil) != (rest >= int(size)) {
			return c03lib.Outcome{Class: cls, Clause: "download result does not match the amount the server sent", Detail: fmt.Sprintf("err=%v sent=%d size=%d", err, rest, size)}
		}
		if err == nil && total != uint64(size) {
			return c03lib.Outcome{Class: cls, Clause: "download total differs from the requested size", Detail: fmt.Sprint(total)}
		}
	} else if c.P[2] == 0 {
		if (err == nil) != (rest >= 8) {
			return c03lib.Outcome{Class: cls, Clause: "upload result does not match the summary the server sent", Detail: fmt.Sprintf("err=%v summary bytes=%d", err, rest)}
		}
	}
	return c03lib.Outcome{Class: cls}
}

func c03be32(v uint32) []byte { return []byte{byte(v >> 24), byte(v >> 16), byte(v >> 8), byte(v)} }

func c03Enumerate(sh *evidence.Shard) {
	r := c03lib.NewRunner(sh, c03Unit, c03Exec)
	defer r.Close()
	th := r.Thorough()

	// --- server ---------------------------------------------------------------------------------
	sg := []byte{0x00, 0x01, 0x02, 0x03, 0xff}
	L := 6
	if th {
		L = 7
	}
	p := r.Part("server/strings", map[string]any{"alphabet": fmt.Sprintf("%x", sg), "max_len": L, "delivery": "whole, byte-at-a-time", "skipped": "strings that request more than 2^24 bytes (covered by server/fields)"}, map[string]any{"max_len": L})
	enum.Strings(sg, L, func(b []byte) bool {
		if len(b) >= 2 && (b[0] == 1 || b[0] == 2) && b[1] != 0 {
			return true // >= 16 MiB transfers: run in the fields family with the real sizes
		}
		for mode := int64(0); mode < 2; mode++ {
			r.Do(p, func() *c03lib.Case { return &c03lib.Case{Dec: "speedtest.server", In: c03lib.Fresh(b), P: []int64{mode, 0, 0}} })
		}
		return !r.Stopped()
	})
	lens := []uint32{0, 1, 2, 65535, 65536, 65537, 131072, 1 << 20}
	big := []uint32{1 << 31, 1<<32 - 1}
	p = r.Part("server/fields", map[string]any{"type": "00,01,02,03,ff", "length": append(append([]uint32{}, lens...), big...), "request_truncation": "every length 0..5", "upload_data_present": "0, 1, l-1, l, l+1 (l <= 2^20); endless uploader for 2^31 and 2^32-1",
		"failing_write": "never, 1st, 2nd, 3rd", "delivery": "whole, byte-at-a-time (first 64 bytes)"}, nil)
	for _, typ := range []byte{0, 1, 2, 3, 0xff} {
		for _, l := range append(append([]uint32{}, lens...), big...) {
			req := c03lib.Cat([]byte{typ}, c03be32(l))
			for t := 0; t <= 5; t++ {
				for mode := int64(0); mode < 2; mode++ {
					for fw := int64(0); fw < 4; fw++ {
						if t < 5 {
							r.Do(p, func() *c03lib.Case { return &c03lib.Case{Dec: "speedtest.server", In: c03lib.Fresh(req[:t]), P: []int64{mode, fw, 0}} })
							continue
						}
						if l >= 1<<31 {
							if typ == 2 || (typ == 1 && (fw != 0 || mode == 0)) || (typ != 1 && typ != 2) {
								r.Do(p, func() *c03lib.Case { return &c03lib.Case{Dec: "speedtest.server", In: c03lib.Fresh(req), P: []int64{mode, fw, 1}} })
							}
							continue
						}
						for _, av := range []int64{0, 1, int64(l) - 1, int64(l), int64(l) + 1} {
							if av < 0 || (typ != 2 && av != 0) {
								continue
							}
							r.Do(p, func() *c03lib.Case {
								return &c03lib.Case{Dec: "speedtest.server", In: c03lib.Cat(req, c03lib.Fill(int(av), "u")), P: []int64{mode, fw, 0}}
							})
						}
					}
				}
			}
		}
	}

	// --- client-side readers ----------------------------------------------------------------------
	for _, dec := range []string{"speedtest.readDownloadResponse", "speedtest.readUploadResponse"} {
		p = r.Part(dec[len("speedtest."):]+"/strings+fields", map[string]any{"alphabet": "00,01,02,ff", "max_len": 6, "status": "00,01,02,ff", "msg_len": []int{0, 1, 2, 255, 256, 65535}, "msg_present": "0, len-1, len, len+1", "delivery": "whole, byte-at-a-time"}, map[string]any{"max_len": 6})
		enum.Strings([]byte{0, 1, 2, 0xff}, 6, func(b []byte) bool {
			for mode := int64(0); mode < 2; mode++ {
				r.Do(p, func() *c03lib.Case { return &c03lib.Case{Dec: dec, In: c03lib.Fresh(b), P: []int64{mode}} })
			}
			return !r.Stopped()
		})
		for _, stt := range []byte{0, 1, 2, 0xff} {
			for _, ml := range []int{0, 1, 2, 255, 256, 65535} {
				for _, av := range []int{0, ml - 1, ml, ml + 1} {
					if av < 0 {
						continue
					}
					for mode := int64(0); mode < 2; mode++ {
						r.Do(p, func() *c03lib.Case {
							return &c03lib.Case{Dec: dec, In: c03lib.Cat([]byte{stt, byte(ml >> 8), byte(ml)}, c03lib.Fill(av, "m")), P: []int64{mode}}
						})
					}
				}
			}
		}
	}
	p = r.Part("readUploadSummary/strings", map[string]any{"alphabet": "00,7f,80,ff", "max_len": 9, "delivery": "whole"}, map[string]any{"max_len": 9})
	enum.Strings([]byte{0, 0x7f, 0x80, 0xff}, 9, func(b []byte) bool {
		r.Do(p, func() *c03lib.Case { return &c03lib.Case{Dec: "speedtest.readUploadSummary", In: c03lib.Fresh(b), P: []int64{0}} })
		return !r.Stopped()
	})

	// --- client transfer loops ------------------------------------------------------------------------
	sizes := []int64{0, 1, 2, 65535, 65536, 65537, 131073}
	p = r.Part("Client.Download/replies", map[string]any{"requested_size": sizes, "status": "00,01", "msg_len": []int{0, 2}, "reply_truncation": "0..3+msg_len", "data_sent": "0, 1, size-1, size, size+1", "delivery": "whole, byte-at-a-time (first 64 bytes)"}, nil)
	for _, size := range sizes {
		for _, stt := range []byte{0, 1} {
			for _, ml := range []int{0, 2} {
				hdr := c03lib.Cat([]byte{stt, 0, byte(ml)}, c03lib.Fill(ml, "OK"))
				for mode := int64(0); mode < 2; mode++ {
					for t := 0; t < len(hdr); t++ {
						r.Do(p, func() *c03lib.Case { return &c03lib.Case{Dec: "speedtest.Client.Download", In: c03lib.Fresh(hdr[:t]), P: []int64{mode, size, 0}} })
					}
					for _, sent := range []int64{0, 1, size - 1, size, size + 1} {
						if sent < 0 {
							continue
						}
						r.Do(p, func() *c03lib.Case {
							return &c03lib.Case{Dec: "speedtest.Client.Download", In: c03lib.Cat(hdr, c03lib.Fill(int(sent), "d")), P: []int64{mode, size, 0}}
						})
					}
				}
			}
		}
	}
	p = r.Part("Client.Upload/replies", map[string]any{"requested_size": sizes, "status": "00,01", "msg_len": []int{0, 2}, "reply_truncation": "0..3+msg_len", "summary_bytes": "0..9", "failing_write": "never, 1st, 2nd, 3rd", "delivery": "whole, byte-at-a-time"}, nil)
	for _, size := range sizes {
		for _, stt := range []byte{0, 1} {
			for _, ml := range []int{0, 2} {
				hdr := c03lib.Cat([]byte{stt, 0, byte(ml)}, c03lib.Fill(ml, "OK"))
				for mode := int64(0); mode < 2; mode++ {
					for fw := int64(0); fw < 4; fw++ {
						for t := 0; t < len(hdr); t++ {
							r.Do(p, func() *c03lib.Case { return &c03lib.Case{Dec: "speedtest.Client.Upload", In: c03lib.Fresh(hdr[:t]), P: []int64{mode, size, fw}} })
						}
						for sb := 0; sb <= 9; sb++ {
							r.Do(p, func() *c03lib.Case {
								return &c03lib.Case{Dec: "speedtest.Client.Upload", In: c03lib.Cat(hdr, c03lib.Fill(sb, "\x00\x00\x01\x00")), P: []int64{mode, size, fw}}
							})
						}
					}
				}
			}
		}
	}
}

func TestVerifC03Speedtest(t *testing.T) {
	evidence.Main(t, "C03", evidence.Seq{Run: c03Enumerate, Replay: c03lib.Replay(c03Unit, c03Exec)})
}
