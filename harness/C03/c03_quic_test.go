package quic

// C03 harness, unit "quic" (injected into extras/sniff/internal/quic): the QUIC Initial parser
// behind the UDP sniffer. Four families:
//   raw        ParseInitialHeader + ReadCryptoPayload on every product of boundary header fields,
//              at every truncation point (bodies are not validly encrypted: must be rejected)
//   unprotect  PacketProtector.UnProtect on every (packet length, packet number offset, first byte)
//   frames     extractCryptoFrames + assembleCryptoFrames on every byte string over the frame
//              alphabet and on every sequence of <= k CRYPTO frames with boundary offsets/lengths
//   protected  ReadCryptoPayload on packets that the harness protects correctly (RFC 9001 keys
//              are a function of the peer-chosen DCID), carrying the enumerated frame payloads

import (
	"bytes"
	"fmt"
	"sort"
	"testing"

	"verif.local/engine/enum"
	"verif.local/engine/evidence"
	"verif.local/harness/C03/c03lib"
)

const c03Unit = "quic"

// documented cap on what the sniffer may buffer for one ClientHello (256 KiB)
const c03Cap = 256 * 1024

var c03Key *ProtectionKey

func c03Exec(c *c03lib.Case) c03lib.Outcome {
	switch c.Dec {
	case "quic.ReadCryptoPayload":
		return c03Raw(c03lib.Fresh(c.In))
	case "quic.PacketProtector.UnProtect":
		return c03UnProtect(c03lib.Fresh(c.In), c.P[0], c.P[1])
	case "quic.extractCryptoFrames":
		return c03Frames(c03lib.Fresh(c.In))
	case "quic.ReadCryptoPayload(protected)":
		return c03Protected(c)
	}
	return c03lib.Outcome{Clause: "unknown decoder", Detail: c.Dec}
}

// reference long header layout (RFC 9000 17.2 / RFC 9369): returns the header length or -1
func c03RefHeader(b []byte) (n int, version uint32, dcid, scid, token []byte, length uint64) {
	if len(b) < 6 {
		return -1, 0, nil, nil, nil, 0
	}
	version = uint32(b[1])<<24 | uint32(b[2])<<16 | uint32(b[3])<<8 | uint32(b[4])
	off := 5
	dl := int(b[off])
	off++
	if len(b) < off+dl+1 {
		return -1, 0, nil, nil, nil, 0
	}
	dcid = b[off : off+dl]
	off += dl
	sl := int(b[off])
	off++
	if len(b) < off+sl {
		return -1, 0, nil, nil, nil, 0
	}
	scid = b[off : off+sl]
	off += sl
	initial := byte(0)
	if version == 0x6b3343cf {
		initial = 1
	}
	if b[0]>>4&3 == initial {
		tl, w, ok := c03lib.ReadVarint(b[off:])
		if !ok {
			return -1, 0, nil, nil, nil, 0
		}
		off += w
		if tl > uint64(len(b)-off) {
			return -1, 0, nil, nil, nil, 0
		}
		token = b[off : off+int(tl)]
		off += int(tl)
	}
	l, w, ok := c03lib.ReadVarint(b[off:])
	if !ok {
		return -1, 0, nil, nil, nil, 0
	}
	return off + w, version, dcid, scid, token, l
}

func c03Raw(in []byte) c03lib.Outcome {
	orig := c03lib.Fresh(in)
	hdr, n, herr := ParseInitialHeader(in)
	rn, rver, rd, rs, rt, rl := c03RefHeader(orig)
	cls := fmt.Sprintf("h=%v", herr == nil)
	if herr == nil {
		if n <= 0 || n > int64(len(in)) || hdr == nil || hdr.Length < 0 {
			return c03lib.Outcome{Class: cls, Clause: "header accepted with an impossible size", Detail: fmt.Sprintf("n=%d len=%d", n, len(in))}
		}
		if rn < 0 {
			return c03lib.Outcome{Class: cls, Clause: "truncated long header accepted", Detail: fmt.Sprintf("n=%d len=%d", n, len(in))}
		}
		if int(n) != rn || hdr.Version != rver || !bytes.Equal(hdr.DestConnectionID, rd) || !bytes.Equal(hdr.SrcConnectionID, rs) || !bytes.Equal(hdr.Token, rt) || uint64(hdr.Length) != rl {
			return c03lib.Outcome{Class: cls, Clause: "header fields differ from the wire bytes", Detail: fmt.Sprintf("n=%d ref=%d", n, rn)}
		}
		cls += fmt.Sprintf("|v=%x|d=%d|s=%d|t=%d|l=%d", hdr.Version, len(rd), len(rs), min(len(rt), 2), min(rl, 22))
	}
	pl, err := ReadCryptoPayload(in)
	if err == nil {
		// none of the raw bodies is a valid AEAD ciphertext under the Initial keys
		return c03lib.Outcome{Class: cls, Clause: "packet that is not validly protected was accepted", Detail: fmt.Sprintf("%d bytes of crypto payload", len(pl))}
	}
	if herr != nil {
		return c03lib.Outcome{Class: cls}
	}
	e := err.Error()
	if len(e) > 24 {
		e = e[:24]
	}
	return c03lib.Outcome{Class: cls + "|" + c03lib.Norm(e)}
}

func c03UnProtect(pkt []byte, pnOffset, pnMax int64) c03lib.Outcome {
	if c03Key == nil {
		k, err := NewInitialProtectionKey(bytes.Repeat([]byte{0x5a}, 32), V1)
		if err != nil {
			return c03lib.Outcome{Clause: "cannot build a key", Detail: err.Error()}
		}
		c03Key = k
	}
	out, err := NewPacketProtector(c03Key).UnProtect(pkt, pnOffset, pnMax)
	cls := fmt.Sprintf("len=%d|off=%d|err=%v", len(pkt), pnOffset, err != nil)
	if err == nil {
		return c03lib.Outcome{Class: cls, Clause: "packet that is not validly protected was accepted", Detail: fmt.Sprint(len(out))}
	}
	return c03lib.Outcome{Class: cls}
}

type c03RefFrame struct {
	off  uint64
	data []byte
}

// reference frame walk (RFC 9000 19.1, 19.2, 19.6): ok=false when the payload is malformed for a
// CRYPTO-only Initial (truncated varint or data, any other frame type)
func c03RefFrames(b []byte) (frames []c03RefFrame, ok bool) {
	for len(b) > 0 {
		t, w, good := c03lib.ReadVarint(b)
		if !good {
			return nil, false
		}
		b = b[w:]
		if t == 0 || t == 1 {
			continue
		}
		if t != 6 {
			return nil, false
		}
		off, w, good := c03lib.ReadVarint(b)
		if !good {
			return nil, false
		}
		b = b[w:]
		l, w, good := c03lib.ReadVarint(b)
		if !good {
			return nil, false
		}
		b = b[w:]
		if l > uint64(len(b)) || l > c03Cap {
			return nil, false
		}
		frames = append(frames, c03RefFrame{off, b[:l]})
		b = b[l:]
	}
	return frames, true
}

// reference assembly: nil when there is nothing / the frames are not contiguous / above the cap
func c03RefAssemble(frames []c03RefFrame) ([]byte, bool) {
	if len(frames) == 0 {
		return nil, false
	}
	if len(frames) == 1 {
		return frames[0].data, true
	}
	fs := append([]c03RefFrame(nil), frames...)
	sort.SliceStable(fs, func(i, j int) bool { return fs[i].off < fs[j].off })
	for i := 1; i < len(fs); i++ {
		if fs[i].off != fs[i-1].off+uint64(len(fs[i-1].data)) {
			return nil, false
		}
	}
	last := fs[len(fs)-1]
	end := last.off + uint64(len(last.data))
	if last.off > c03Cap || end > c03Cap {
		return nil, false
	}
	out := make([]byte, end)
	for _, f := range fs {
		copy(out[f.off:], f.data)
	}
	return out, true
}

func c03Frames(in []byte) c03lib.Outcome {
	orig := c03lib.Fresh(in)
	frs, err := extractCryptoFrames(bytes.NewReader(in))
	ref, ok := c03RefFrames(orig)
	cls := fmt.Sprintf("ok=%v|n=%d", err == nil, len(frs))
	if ok != (err == nil) {
		if ok {
			return c03lib.Outcome{Class: cls, Clause: "well-formed frame sequence rejected", Detail: err.Error()}
		}
		return c03lib.Outcome{Class: cls, Clause: "malformed frame sequence accepted", Detail: fmt.Sprint(len(frs))}
	}
	if err != nil {
		return c03lib.Outcome{Class: cls}
	}
	if len(frs) != len(ref) {
		return c03lib.Outcome{Class: cls, Clause: "frame count differs from the wire bytes", Detail: fmt.Sprintf("%d != %d", len(frs), len(ref))}
	}
	for i := range frs {
		if uint64(frs[i].Offset) != ref[i].off || !bytes.Equal(frs[i].Data, ref[i].data) {
			return c03lib.Outcome{Class: cls, Clause: "frame offset/data differ from the wire bytes", Detail: fmt.Sprint(i)}
		}
	}
	data := assembleCryptoFrames(frs)
	want, wok := c03RefAssemble(ref)
	cls += fmt.Sprintf("|asm=%v", data != nil)
	if len(data) > c03Cap {
		return c03lib.Outcome{Class: cls, Clause: "assembled crypto payload above the 256 KiB cap", Detail: fmt.Sprint(len(data))}
	}
	if wok && len(want) > 0 && !bytes.Equal(data, want) {
		return c03lib.Outcome{Class: cls, Clause: "contiguous frames not assembled to their concatenation", Detail: fmt.Sprintf("%d != %d bytes", len(data), len(want))}
	}
	if !wok && len(data) > 0 {
		return c03lib.Outcome{Class: cls, Clause: "non-contiguous or oversized frames assembled", Detail: fmt.Sprint(len(data))}
	}
	return c03lib.Outcome{Class: cls}
}

// P = [version index, first byte, dcid length, token length, declared-Length delta, truncation (-1 = none)]
func c03Protected(c *c03lib.Case) c03lib.Outcome {
	ver := []uint32{c03lib.QUICv1, c03lib.QUICv2}[c.P[0]]
	q := &c03lib.QUICInitial{First: byte(c.P[1]), Version: ver, DCID: c03lib.Fill(int(c.P[2]), "\x83\x94\xc8\xf0\x3e\x51\x57\x08"),
		SCID: []byte{1, 2}, Token: c03lib.Fill(int(c.P[3]), "tok"), PN: 1, Payload: c.In, LenDelta: c.P[4]}
	pkt, _ := q.Build()
	// coalesced trailing bytes after the Initial packet (Length says where it ends)
	initialLen := len(pkt)
	pkt = c03lib.Cat(pkt, []byte{0, 0, 0})
	if c.P[5] >= 0 && int(c.P[5]) < len(pkt) {
		pkt = c03lib.Fresh(pkt[:c.P[5]])
	}
	intact := c.P[4] == 0 && len(pkt) >= initialLen
	data, err := ReadCryptoPayload(pkt)
	ref, ok := c03RefFrames(c.In)
	var want []byte
	wok := false
	if ok {
		want, wok = c03RefAssemble(ref)
	}
	cls := fmt.Sprintf("intact=%v|err=%v|ref=%v/%v", intact, err != nil, ok, wok)
	if !intact {
		if err == nil {
			return c03lib.Outcome{Class: cls, Clause: "damaged protected packet accepted", Detail: fmt.Sprintf("packet %x", pkt)}
		}
		return c03lib.Outcome{Class: cls}
	}
	if len(data) > c03Cap {
		return c03lib.Outcome{Class: cls, Clause: "assembled crypto payload above the 256 KiB cap", Detail: fmt.Sprint(len(data))}
	}
	if wok && want != nil {
		if err != nil || !bytes.Equal(data, want) {
			return c03lib.Outcome{Class: cls, Clause: "valid Initial packet not decoded to its crypto payload", Detail: fmt.Sprintf("err=%v got %d want %d bytes, packet %x", err, len(data), len(want), pkt)}
		}
	} else if err == nil && len(data) > 0 && !ok {
		return c03lib.Outcome{Class: cls, Clause: "malformed frame sequence accepted", Detail: fmt.Sprintf("packet %x", pkt)}
	}
	return c03lib.Outcome{Class: cls}
}

// c03FramePayloads: every sequence of <= k CRYPTO frames over the given field alphabets, with
// PADDING/PING separators, as plaintext payloads.
func c03FramePayloads(k int, offs []uint64, datas []int, declDelta []int64, f func(payload []byte, bounds []int) bool) {
	var frames [][]byte
	for _, typ := range [][]byte{{0x06}, {0x40, 0x06}} {
		for _, o := range offs {
			for _, dl := range datas {
				for _, dd := range declDelta {
					var decl uint64
					switch {
					case dd >= 1<<40:
						decl = uint64(dd) // absolute value
					default:
						if int64(dl)+dd < 0 {
							continue
						}
						decl = uint64(int64(dl) + dd)
					}
					if len(typ) == 2 && (o > 2 || dd != 0) {
						continue // the 2-byte type encoding only with the plain field values
					}
					frames = append(frames, c03lib.Cat(typ, c03lib.VarintMin(o), c03lib.VarintMin(decl), c03lib.Fill(dl, "\x01\x00\x06")))
				}
			}
		}
	}
	seps := [][]byte{nil, {0x00}, {0x01}}
	enum.Sequences(len(frames), k, func(seq []int) bool {
		for _, sep := range seps {
			if len(seq) == 0 && sep != nil {
				continue
			}
			var pl []byte
			var bounds []int
			for _, i := range seq {
				pl = append(pl, sep...)
				bounds = append(bounds, len(pl))
				pl = append(pl, frames[i]...)
			}
			if !f(pl, bounds) {
				return false
			}
		}
		return true
	})
}

func c03Enumerate(sh *evidence.Shard) {
	r := c03lib.NewRunner(sh, c03Unit, c03Exec)
	defer r.Close()
	th := r.Thorough()

	// --- raw header product ----------------------------------------------------------------------
	firsts := []byte{0x00, 0x40, 0xc0, 0xc3, 0xd0, 0xff}
	versions := []uint32{0, V1, V2, 0xff00001d}
	dcidLens := []int{0, 8, 255}
	scidLens := []int{0, 8}
	type tok struct {
		v uint64
		w int
	}
	tokens := []tok{{0, 1}, {1, 1}, {1<<62 - 1, 8}}
	lengths := []tok{{0, 1}, {1, 1}, {4, 1}, {19, 1}, {20, 1}, {21, 1}, {1<<62 - 1, 8}}
	bodies := []int{0, 1, 16, 17, 64}
	if th {
		firsts = []byte{0x00, 0x40, 0x80, 0xc0, 0xc3, 0xd0, 0xff}
		dcidLens = []int{0, 1, 8, 20, 255}
		scidLens = []int{0, 1, 8, 20, 255}
		bodies = []int{0, 1, 15, 16, 17, 64}
		tokens = nil
		for i, w := range []int{1, 2, 4, 8} {
			mx := []uint64{63, 16383, 1<<30 - 1, 1<<62 - 1}[i]
			tokens = append(tokens, tok{0, w}, tok{1, w}, tok{mx, w})
		}
		lengths = append(lengths, tok{21, 2}, tok{20, 2}, tok{20, 4}, tok{20, 8}, tok{16, 1}, tok{17, 1})
	}
	p := r.Part("ReadCryptoPayload/raw-fields", map[string]any{"first_byte": fmt.Sprintf("%x", firsts), "version": fmt.Sprintf("%x", versions), "dcid_len": dcidLens, "scid_len": scidLens,
		"token_len(value,width)": fmt.Sprint(tokens), "length(value,width)": fmt.Sprint(lengths), "body_len": bodies,
		"truncation": "every length for packets <= 96 bytes, else field boundaries+-2 (incl. pn offset, +4, +20), first 24, last 40", "body": "0xaa.. (not a valid ciphertext)"}, nil)
	for _, fb := range firsts {
		for _, ver := range versions {
			for _, dl := range dcidLens {
				for _, sl := range scidLens {
					for _, tk := range tokens {
						for _, ln := range lengths {
							for _, bl := range bodies {
								if r.Stopped() {
									break
								}
								tl, _ := c03lib.Varint(tk.v, tk.w)
								ll, _ := c03lib.Varint(ln.v, ln.w)
								tb := int(min(tk.v, 3))
								if tk.v > 63 {
									tb = 0
								}
								pkt := c03lib.Cat([]byte{fb, byte(ver >> 24), byte(ver >> 16), byte(ver >> 8), byte(ver), byte(dl)}, c03lib.Fill(dl, "\xd1\xd2\xd3"), []byte{byte(sl)}, c03lib.Fill(sl, "\x51\x52"),
									tl, c03lib.Fill(tb, "t"), ll, c03lib.Fill(bl, "\xaa"))
								b1 := 6 + dl
								b2 := b1 + 1 + sl
								b3 := b2 + len(tl) + tb
								b4 := b3 + len(ll)
								for _, t := range c03lib.Truncations(len(pkt), 96, []int{1, 5, 6, b1, b1 + 1, b2, b2 + len(tl), b3, b4, b4 + 4, b4 + 20}) {
									r.Do(p, func() *c03lib.Case { return &c03lib.Case{Dec: "quic.ReadCryptoPayload", In: c03lib.Fresh(pkt[:t])} })
								}
							}
						}
					}
				}
			}
		}
	}

	// --- raw strings -------------------------------------------------------------------------------
	// after a fixed "c0 00000001" / "40 00000001" prefix every string over the bytes the header
	// parser compares or uses as a length
	sg := []byte{0x00, 0x01, 0x04, 0x13, 0x14, 0x15, 0x40, 0xc0, 0xff}
	L := 5
	if th {
		L = 7
	}
	p = r.Part("ReadCryptoPayload/raw-strings", map[string]any{"prefix": []string{"c000000001", "4000000001", "d06b3343cf"}, "alphabet": fmt.Sprintf("%x", sg), "max_len": L, "tail": "none / 20 bytes 0xaa"}, map[string]any{"max_len": L})
	for _, pre := range [][]byte{{0xc0, 0, 0, 0, 1}, {0x40, 0, 0, 0, 1}, {0xd0, 0x6b, 0x33, 0x43, 0xcf}} {
		enum.Strings(sg, L, func(b []byte) bool {
			for _, tail := range []int{0, 20} {
				r.Do(p, func() *c03lib.Case {
					return &c03lib.Case{Dec: "quic.ReadCryptoPayload", In: c03lib.Cat(pre, b, c03lib.Fill(tail, "\xaa"))}
				})
			}
			return !r.Stopped()
		})
	}

	// --- UnProtect -----------------------------------------------------------------------------------
	// preconditions of the only caller (ReadCryptoPayload): the packet number offset is the
	// header length (>= 7) and the packet is cut to offset+Length with Length >= 1
	p = r.Part("UnProtect/lengths", map[string]any{"pn_offset": "7..30", "packet_len": "pn_offset+1 .. pn_offset+24", "first_byte": "00,40,43,80,c0,c3,ff", "pn_max": []int{0, 2}, "content": "0x00.. / 0xff.."}, nil)
	for off := 7; off <= 30; off++ {
		for n := off + 1; n <= off+24; n++ {
			for _, fb := range []byte{0x00, 0x40, 0x43, 0x80, 0xc0, 0xc3, 0xff} {
				for _, fill := range []string{"\x00", "\xff"} {
					for _, pm := range []int64{0, 2} {
						r.Do(p, func() *c03lib.Case {
							b := c03lib.Fill(n, fill)
							b[0] = fb
							return &c03lib.Case{Dec: "quic.PacketProtector.UnProtect", In: b, P: []int64{int64(off), pm}}
						})
					}
				}
			}
		}
	}

	// --- frames: strings -----------------------------------------------------------------------------
	sf := []byte{0x00, 0x01, 0x02, 0x06, 0x07, 0x3f, 0x40, 0x80, 0xc0, 0xff}
	LF := 6
	if th {
		LF = 7
	}
	p = r.Part("extractCryptoFrames/strings", map[string]any{"alphabet": fmt.Sprintf("%x", sf), "max_len": LF}, map[string]any{"max_len": LF})
	enum.Strings(sf, LF, func(b []byte) bool {
		r.Do(p, func() *c03lib.Case { return &c03lib.Case{Dec: "quic.extractCryptoFrames", In: c03lib.Fresh(b)} })
		return !r.Stopped()
	})

	// --- frames: structured ----------------------------------------------------------------------------
	offs := []uint64{0, 1, 2, 3, c03Cap - 1, c03Cap, c03Cap + 1, 1<<62 - 1}
	datas := []int{0, 1, 2}
	decl := []int64{0, 1, -1, 1<<62 - 1, 1 << 41} // values >= 2^40 are absolute declared lengths
	p = r.Part("extractCryptoFrames/frame-sequences", map[string]any{"frames": "<= 2 CRYPTO frames", "type_encoding": "06, 4006", "offset": offs, "data_len": datas,
		"declared_len": "data_len+{0,1,-1}, 2^41, 2^62-1", "separators": "none, PADDING, PING", "truncation": "every length"}, nil)
	c03FramePayloads(2, offs, datas, decl, func(pl []byte, bounds []int) bool {
		for t := 0; t <= len(pl); t++ {
			r.Do(p, func() *c03lib.Case { return &c03lib.Case{Dec: "quic.extractCryptoFrames", In: c03lib.Fresh(pl[:t])} })
		}
		return !r.Stopped()
	})
	// large contiguous frames up to and across the cap (declared and present)
	p = r.Part("extractCryptoFrames/large-frames", map[string]any{"frame_data_len": "65535, 262143, 262144, 262145", "second_frame": "none / 1 byte contiguous / 1 byte at offset 0"}, nil)
	for _, n := range []int{65535, c03Cap - 1, c03Cap, c03Cap + 1} {
		for second := 0; second < 3; second++ {
			r.Do(p, func() *c03lib.Case {
				pl := c03lib.Cat([]byte{0x06, 0x00}, c03lib.VarintMin(uint64(n)), c03lib.Fill(n, "h"))
				switch second {
				case 1:
					pl = c03lib.Cat(pl, []byte{0x06}, c03lib.VarintMin(uint64(n)), []byte{0x01, 'x'})
				case 2:
					pl = c03lib.Cat(pl, []byte{0x06, 0x00, 0x01, 'x'})
				}
				return &c03lib.Case{Dec: "quic.extractCryptoFrames", In: pl}
			})
		}
	}
	if th {
		p = r.Part("extractCryptoFrames/frame-sequences-3", map[string]any{"frames": "<= 3 CRYPTO frames", "offset": "0,1,2,262144,2^62-1", "data_len": []int{0, 1}, "declared_len": "data_len+{0,1}", "separators": "none, PADDING, PING", "truncation": "every length"}, nil)
		c03FramePayloads(3, []uint64{0, 1, 2, c03Cap, 1<<62 - 1}, []int{0, 1}, []int64{0, 1}, func(pl []byte, bounds []int) bool {
			for t := 0; t <= len(pl); t++ {
				r.Do(p, func() *c03lib.Case { return &c03lib.Case{Dec: "quic.extractCryptoFrames", In: c03lib.Fresh(pl[:t])} })
			}
			return !r.Stopped()
		})
	}

	// --- protected packets -------------------------------------------------------------------------------
	poffs := []uint64{0, 1, 2, c03Cap, 1<<62 - 1}
	pdatas := []int{0, 1, 4}
	pdecl := []int64{0, 1}
	k := 1
	if th {
		k = 2
	}
	p = r.Part("ReadCryptoPayload/protected", map[string]any{"payload": fmt.Sprintf("<= %d CRYPTO frames: offset {0,1,2,262144,2^62-1} x data_len {0,1,4} x declared data_len+{0,1}, separators none/PADDING/PING, padded to >= 4 bytes", k),
		"version": "v1, v2", "first_byte(pn_len)": "c0,c1,c2,c3 (v1) / d0..d3 (v2)", "dcid_len": []int{0, 1, 8, 20}, "token_len": []int{0, 3}, "declared_length_delta": []int{0, -1, 1, -17}, "truncation": "none, len-1, len+1 (inside the 3 trailing bytes), pn offset + 19"}, nil)
	c03FramePayloads(k, poffs, pdatas, pdecl, func(pl []byte, bounds []int) bool {
		for len(pl) < 4 {
			pl = append(pl, 0x00) // PADDING so that the header protection sample exists
		}
		for vi := int64(0); vi < 2; vi++ {
			for pn := int64(0); pn < 4; pn++ {
				first := 0xc0 + pn
				if vi == 1 {
					first = 0xd0 + pn
				}
				for _, dl := range []int64{0, 1, 8, 20} {
					for _, tl := range []int64{0, 3} {
						for _, v := range [][2]int64{{0, -1}, {-1, -1}, {1, -1}, {-17, -1}, {0, -2}, {0, -3}, {0, -4}} {
							r.Do(p, func() *c03lib.Case {
								trunc := v[1]
								if trunc < -1 {
									// resolve the symbolic truncations against the real packet length
									q := &c03lib.QUICInitial{First: byte(first), Version: []uint32{c03lib.QUICv1, c03lib.QUICv2}[vi], DCID: c03lib.Fill(int(dl), "\x83\x94\xc8\xf0\x3e\x51\x57\x08"), SCID: []byte{1, 2}, Token: c03lib.Fill(int(tl), "tok"), PN: 1, Payload: pl}
									pk, pnOff := q.Build()
									switch trunc {
									case -2:
										trunc = int64(len(pk)) - 1
									case -3:
										trunc = int64(len(pk)) + 1
									case -4:
										trunc = int64(pnOff) + 19
									}
								}
								return &c03lib.Case{Dec: "quic.ReadCryptoPayload(protected)", In: c03lib.Fresh(pl), P: []int64{vi, first, dl, tl, v[0], trunc}}
							})
						}
					}
				}
			}
		}
		return !r.Stopped()
	})
}

func TestVerifC03Quic(t *testing.T) {
	evidence.Main(t, "C03", evidence.Seq{Run: c03Enumerate, Replay: c03lib.Replay(c03Unit, c03Exec)})
}
