package realm

// C03 harness, unit "realm" (injected into extras/realm): hole-punch packets, STUN binding
// responses and the demultiplexing PacketConn that sits under QUIC on a punched socket.

import (
	"bytes"
	"crypto/sha256"
	"encoding/hex"
	"errors"
	"fmt"
	"net"
	"testing"

	"github.com/pion/stun/v3"

	"verif.local/engine/enum"
	"verif.local/engine/evidence"
	"verif.local/harness/C03/c03lib"
)

const c03Unit = "realm"

var (
	c03Nonce = bytes.Repeat([]byte{0xa1}, 16)
	c03Key   = bytes.Repeat([]byte{0x7c}, 32)
	c03Key2  = bytes.Repeat([]byte{0x3d}, 32)
	c03Meta  = PunchMetadata{Nonce: hex.EncodeToString(c03Nonce), Obfs: hex.EncodeToString(c03Key)}
	c03Meta2 = PunchMetadata{Nonce: hex.EncodeToString(c03Nonce), Obfs: hex.EncodeToString(c03Key2)}
)

// reference punch packet (layout in punch.go's header comment): salt(8) | mask XOR (magic(8) type(1) nonce(16) padding)
func c03Punch(key []byte, plain []byte) []byte {
	salt := []byte{1, 2, 3, 4, 5, 6, 7, 8}
	h := sha256.New()
	h.Write(key)
	h.Write(salt)
	mask := h.Sum(nil)
	out := c03lib.Cat(salt, plain)
	for i := range plain {
		out[8+i] ^= mask[i%32]
	}
	return out
}

func c03Plain(magic []byte, typ byte, nonce []byte, pad int) []byte {
	return c03lib.Cat(magic, []byte{typ}, nonce, c03lib.Fill(pad, "\x99"))
}

func c03Unmask(key, wire []byte) []byte {
	if len(wire) < 8 {
		return nil
	}
	h := sha256.New()
	h.Write(key)
	h.Write(wire[:8])
	mask := h.Sum(nil)
	out := c03lib.Fresh(wire[8:])
	for i := range out {
		out[i] ^= mask[i%32]
	}
	return out
}

func c03RefPunch(wire []byte, nonceHex, keyHex string) (ok bool, typ byte, pad int) {
	nonce, e1 := hex.DecodeString(nonceHex)
	key, e2 := hex.DecodeString(keyHex)
	if e1 != nil || e2 != nil || len(nonce) != 16 || len(key) != 32 {
		return false, 0, 0
	}
	if len(wire) < 33 || len(wire) > 33+1024 {
		return false, 0, 0
	}
	pl := c03Unmask(key, wire)
	if !bytes.Equal(pl[:8], []byte("HYRLMv1\x00")) || (pl[8] != 1 && pl[8] != 2) || !bytes.Equal(pl[9:25], nonce) {
		return false, 0, 0
	}
	return true, pl[8], len(pl) - 25
}

func c03Exec(c *c03lib.Case) c03lib.Outcome {
	switch c.Dec {
	case "realm.DecodePunchPacket":
		return c03Decode(c03lib.Fresh(c.In), c.S[0], c.S[1])
	case "realm.parseSTUNBindingResponse":
		return c03STUN(c03lib.Fresh(c.In))
	case "realm.PunchPacketConn.ReadFrom":
		return c03Conn(c.Seq, int(c.P[0]), int(c.P[1]))
	}
	return c03lib.Outcome{Clause: "unknown decoder", Detail: c.Dec}
}

func c03Decode(in []byte, nonceHex, keyHex string) c03lib.Outcome {
	orig := c03lib.Fresh(in)
	pkt, err := DecodePunchPacket(in, PunchMetadata{Nonce: nonceHex, Obfs: keyHex})
	ok, typ, pad := c03RefPunch(orig, nonceHex, keyHex)
	cls := fmt.Sprintf("len=%d|ok=%v", min(len(in), 40), err == nil)
	if !bytes.Equal(in, orig) {
		return c03lib.Outcome{Class: cls, Clause: "packet buffer modified by the decoder (it is handed to QUIC when it is not a punch packet)"}
	}
	if ok != (err == nil) {
		if ok {
			return c03lib.Outcome{Class: cls, Clause: "well-formed punch packet rejected", Detail: err.Error()}
		}
		return c03lib.Outcome{Class: cls, Clause: "malformed punch packet accepted", Detail: fmt.Sprintf("%+v", pkt)}
	}
	if err != nil && !errors.Is(err, ErrInvalidPunchPacket) {
		return c03lib.Outcome{Class: cls, Clause: "rejection is not ErrInvalidPunchPacket", Detail: err.Error()}
	}
	if err == nil && (byte(pkt.Type) != typ || pkt.PaddingLength != pad) {
		return c03lib.Outcome{Class: cls, Clause: "decoded punch packet differs from the wire bytes", Detail: fmt.Sprintf("%+v", pkt)}
	}
	return c03lib.Outcome{Class: cls}
}

func c03STUN(in []byte) c03lib.Outcome {
	orig := c03lib.Fresh(in)
	is := stun.IsMessage(in)
	msg, addr, err := parseSTUNBindingResponse(in)
	cls := fmt.Sprintf("is=%v|ok=%v", is, err == nil)
	if !bytes.Equal(in, orig) {
		return c03lib.Outcome{Class: cls, Clause: "packet buffer modified by the STUN parser"}
	}
	if err == nil {
		if msg == nil || !addr.IsValid() || addr.Port() == 0 {
			return c03lib.Outcome{Class: cls, Clause: "STUN response accepted without a usable mapped address", Detail: addr.String()}
		}
		// the 14-bit STUN message type (RFC 5389 section 6; the two top bits are not part of it)
		if len(orig) < 20 || orig[0]&0x3f != 0x01 || orig[1] != 0x01 {
			return c03lib.Outcome{Class: cls, Clause: "something that is not a binding success response accepted"}
		}
		if addr.Addr().Is4() {
			cls += "|v4"
		} else {
			cls += "|v6"
		}
	}
	return c03lib.Outcome{Class: cls}
}

// --- STUN builders -----------------------------------------------------------------------------

var c03Txid = []byte{1, 2, 3, 4, 5, 6, 7, 8, 9, 10, 11, 12}

func c03StunMsg(typ uint16, declLen int, cookie uint32, attrs []byte) []byte {
	return c03lib.Cat([]byte{byte(typ >> 8), byte(typ), byte(declLen >> 8), byte(declLen), byte(cookie >> 24), byte(cookie >> 16), byte(cookie >> 8), byte(cookie)}, c03Txid, attrs)
}

func c03Attr(typ uint16, declLen int, value []byte) []byte {
	return c03lib.Cat([]byte{byte(typ >> 8), byte(typ), byte(declLen >> 8), byte(declLen)}, value)
}

func c03XorAddr4(port uint16, ip [4]byte) []byte {
	p := port ^ 0x2112
	return []byte{0, 1, byte(p >> 8), byte(p), ip[0] ^ 0x21, ip[1] ^ 0x12, ip[2] ^ 0xa4, ip[3] ^ 0x42}
}

var c03ValidSTUN = c03StunMsg(0x0101, 12, 0x2112a442, c03Attr(0x0020, 8, c03XorAddr4(40000, [4]byte{203, 0, 113, 5})))

// --- PunchPacketConn -----------------------------------------------------------------------------

type c03IPAddr struct{}

func (c03IPAddr) Network() string { return "ip" }
func (c03IPAddr) String() string  { return "not-udp" }

func c03From(b byte) net.Addr {
	switch b {
	case 0:
		return &net.UDPAddr{IP: net.IPv4(198, 51, 100, 7), Port: 5000}
	case 1:
		return &net.UDPAddr{IP: net.ParseIP("2001:db8::7"), Port: 5001}
	case 2:
		return &net.UDPAddr{IP: net.IPv4(198, 51, 100, 7), Port: 0}
	case 3:
		return &net.UDPAddr{IP: nil, Port: 5000}
	}
	return c03IPAddr{}
}

// reference: is this datagram taken out of the QUIC stream by the demultiplexer?
func c03Diverted(data []byte, from net.Addr, attempts int) bool {
	if len(data) >= 20 && data[0]&0x3f == 0x01 && data[1] == 0x01 {
		if _, _, err := parseSTUNBindingResponse(c03lib.Fresh(data)); err == nil {
			return true
		}
	}
	ua, ok := from.(*net.UDPAddr)
	if !ok || ua.Port <= 0 || (len(ua.IP) != 4 && len(ua.IP) != 16) {
		return false
	}
	for i, m := range []PunchMetadata{c03Meta, c03Meta2} {
		if i < attempts {
			if ok, _, _ := c03RefPunch(data, m.Nonce, m.Obfs); ok {
				return true
			}
		}
	}
	return false
}

// Seq items: first byte = source kind, rest = datagram. P = [caller buffer, registered attempts]
func c03Conn(seq []c03lib.Hex, pLen, attempts int) c03lib.Outcome {
	sc := &c03lib.PacketScript{}
	var want [][]byte
	for _, it := range seq {
		if len(it) == 0 {
			continue
		}
		d := c03lib.Datagram{Data: c03lib.Fresh(it[1:]), From: c03From(it[0])}
		sc.Queue = append(sc.Queue, d)
		eff := d.Data
		if len(eff) > pLen {
			eff = eff[:pLen]
		}
		if !c03Diverted(eff, d.From, attempts) {
			want = append(want, eff)
		}
	}
	sentinel := []byte{0x40, 'q', 'u', 'i', 'c'}
	sc.Queue = append(sc.Queue, c03lib.Datagram{Data: sentinel, From: c03From(0)})
	want = append(want, sentinel[:min(pLen, len(sentinel))])
	conn, err := NewPunchPacketConn(sc, 1)
	if err != nil {
		return c03lib.Outcome{Clause: "cannot wrap"}
	}
	if attempts > 0 {
		_ = conn.AddPunchAttempt("one", c03Meta)
	}
	if attempts > 1 {
		_ = conn.AddPunchAttempt("two", c03Meta2)
	}
	cls := ""
	var got [][]byte
	for i := 0; i < len(sc.Queue)+2; i++ {
		p := make([]byte, pLen)
		n, _, err := conn.ReadFrom(p)
		if err != nil {
			if !errors.Is(err, c03lib.ErrScriptEnd) {
				return c03lib.Outcome{Class: cls, Clause: "receive loop fails with its own error", Detail: err.Error()}
			}
			break
		}
		if n < 0 || n > pLen {
			return c03lib.Outcome{Class: cls, Clause: "ReadFrom returned an impossible length", Detail: fmt.Sprint(n)}
		}
		cls += "d"
		got = append(got, c03lib.Fresh(p[:n]))
	}
	cls += fmt.Sprintf("|ev=%d|stun=%d", len(conn.Events()), len(conn.STUNEvents()))
	if len(got) != len(want) {
		return c03lib.Outcome{Class: cls, Clause: "QUIC-bound datagrams lost or punch/STUN packets leaked", Detail: fmt.Sprintf("got %d want %d", len(got), len(want))}
	}
	for i := range got {
		if !bytes.Equal(got[i], want[i]) {
			return c03lib.Outcome{Class: cls, Clause: "QUIC-bound datagram not delivered intact", Detail: fmt.Sprint(i)}
		}
	}
	return c03lib.Outcome{Class: cls}
}

func c03Enumerate(sh *evidence.Shard) {
	r := c03lib.NewRunner(sh, c03Unit, c03Exec)
	defer r.Close()
	th := r.Thorough()
	magic := []byte("HYRLMv1\x00")
	meta := []string{c03Meta.Nonce, c03Meta.Obfs}

	// --- DecodePunchPacket -----------------------------------------------------------------------
	p := r.Part("DecodePunchPacket/fields", map[string]any{"magic": "good, last byte wrong, first byte wrong", "type": "0,1,2,3,255", "nonce": "match, last byte wrong", "padding_len": []int{0, 1, 2, 1023, 1024, 1025},
		"truncation": "every length for packets <= 96 bytes, else boundaries 8,16,17,33,1057 +-2, first 24, last 40", "key": "right / another attempt's"}, nil)
	badNonce := c03lib.Fresh(c03Nonce)
	badNonce[15] ^= 1
	for mi, mg := range [][]byte{magic, []byte("HYRLMv1\x01"), []byte("XYRLMv1\x00")} {
		for _, typ := range []byte{0, 1, 2, 3, 255} {
			for _, nonce := range [][]byte{c03Nonce, badNonce} {
				for _, pad := range []int{0, 1, 2, 1023, 1024, 1025} {
					for ki, key := range [][]byte{c03Key, c03Key2} {
						if ki == 1 && (mi != 0 || pad > 2) {
							continue
						}
						wire := c03Punch(key, c03Plain(mg, typ, nonce, pad))
						for _, t := range c03lib.Truncations(len(wire), 96, []int{8, 16, 17, 33, 1057}) {
							r.Do(p, func() *c03lib.Case { return &c03lib.Case{Dec: "realm.DecodePunchPacket", In: c03lib.Fresh(wire[:t]), S: meta} })
						}
					}
				}
			}
		}
	}
	p = r.Part("DecodePunchPacket/lengths+metadata", map[string]any{"raw_len": "0..40, 1056, 1057, 1058, 65535 (zero bytes)", "nonce_hex": "valid, empty, odd length, non-hex, 15 bytes, 17 bytes", "obfs_hex": "valid, empty, odd length, non-hex, 31 bytes, 33 bytes", "with": "a valid packet and a 33-byte zero packet"}, nil)
	lens := []int{1056, 1057, 1058, 65535}
	for i := 0; i <= 40; i++ {
		lens = append(lens, i)
	}
	for _, n := range lens {
		r.Do(p, func() *c03lib.Case { return &c03lib.Case{Dec: "realm.DecodePunchPacket", In: make([]byte, n), S: meta} })
	}
	valid := c03Punch(c03Key, c03Plain(magic, 1, c03Nonce, 5))
	for _, nh := range []string{c03Meta.Nonce, "", "abc", "zz" + c03Meta.Nonce[2:], c03Meta.Nonce[2:], c03Meta.Nonce + "00"} {
		for _, kh := range []string{c03Meta.Obfs, "", "abc", "zz" + c03Meta.Obfs[2:], c03Meta.Obfs[2:], c03Meta.Obfs + "00"} {
			for _, in := range [][]byte{valid, make([]byte, 33)} {
				r.Do(p, func() *c03lib.Case { return &c03lib.Case{Dec: "realm.DecodePunchPacket", In: c03lib.Fresh(in), S: []string{nh, kh}} })
			}
		}
	}

	// --- STUN ----------------------------------------------------------------------------------------
	// attribute bytes after a valid 20-byte binding-success header whose length field is exact:
	// attribute types 0001/0020/8020 are made of 00 01 20 80; lengths/families 00 01 02 04 08 14; ff
	sg := []byte{0x00, 0x01, 0x02, 0x04, 0x08, 0x14, 0x20, 0x80, 0xff}
	L := 5
	if th {
		L = 7
	}
	p = r.Part("parseSTUNBindingResponse/strings", map[string]any{"prefix": "binding success header, length field = number of attribute bytes", "alphabet": fmt.Sprintf("%x", sg), "max_len": L, "also": "every string of length <= 3 over the alphabet with no header"}, map[string]any{"max_len": L})
	enum.Strings(sg, 3, func(b []byte) bool {
		r.Do(p, func() *c03lib.Case { return &c03lib.Case{Dec: "realm.parseSTUNBindingResponse", In: c03lib.Fresh(b)} })
		return true
	})
	enum.Strings(sg, L, func(b []byte) bool {
		r.Do(p, func() *c03lib.Case {
			return &c03lib.Case{Dec: "realm.parseSTUNBindingResponse", In: c03StunMsg(0x0101, len(b), 0x2112a442, b)}
		})
		return !r.Stopped()
	})

	types := []uint16{0x0101, 0x0001, 0x0111}
	atypes := []uint16{0x0001, 0x0020, 0x8020, 0x8022}
	alens := []int{0, 1, 3, 4, 7, 8, 9, 19, 20, 21, 65535}
	fams := []byte{0, 1, 2, 3}
	vlens := []int{0, 4, 8, 20}
	if th {
		types = append(types, 0x0100, 0x4101, 0xffff)
	}
	p = r.Part("parseSTUNBindingResponse/fields", map[string]any{"msg_type": fmt.Sprintf("%x", types), "msg_len": "actual, actual-1, actual+1, actual+4, 0, 65535", "cookie": "good, bad", "attr_type": fmt.Sprintf("%x", atypes),
		"attr_len": alens, "family": fams, "value_bytes_present": vlens, "port": "0 and 40000 (xor-ed)", "second_attr": "none / a valid XOR-MAPPED-ADDRESS", "truncation": map[bool]string{true: "every length", false: "full, -1, 20, 24"}[th]}, nil)
	for _, mt := range types {
		for lm := 0; lm < 6; lm++ {
			for _, ck := range []uint32{0x2112a442, 0x2112a443} {
				for _, at := range atypes {
					for _, al := range alens {
						for _, fam := range fams {
							for _, vl := range vlens {
								for _, port := range []uint16{0, 40000} {
									for second := 0; second < 2; second++ {
										if (ck != 0x2112a442 || lm > 2) && (fam != 1 || second != 0) {
											continue
										}
										if r.Stopped() {
											break
										}
										val := c03lib.Fill(vl, "\x7b")
										if vl >= 4 {
											pp := port
											if at != 0x0001 {
												pp ^= 0x2112
											}
											val[0], val[1], val[2], val[3] = 0, fam, byte(pp>>8), byte(pp)
										}
										attrs := c03Attr(at, al, val)
										if second == 1 {
											attrs = c03lib.Cat(attrs, c03Attr(0x0020, 8, c03XorAddr4(40000, [4]byte{203, 0, 113, 5})))
										}
										decl := []int{len(attrs), len(attrs) - 1, len(attrs) + 1, len(attrs) + 4, 0, 65535}[lm]
										msg := c03StunMsg(mt, decl, ck, attrs)
										truncs := []int{len(msg), len(msg) - 1, 20, 24}
										if th {
											truncs = truncs[:0]
											for t := 0; t <= len(msg); t++ {
												truncs = append(truncs, t)
											}
										}
										for _, t := range truncs {
											if t > len(msg) {
												continue
											}
											r.Do(p, func() *c03lib.Case { return &c03lib.Case{Dec: "realm.parseSTUNBindingResponse", In: c03lib.Fresh(msg[:t])} })
										}
									}
								}
							}
						}
					}
				}
			}
		}
	}

	// --- PunchPacketConn.ReadFrom -------------------------------------------------------------------
	kinds := [][]byte{
		c03ValidSTUN, // diverted
		c03StunMsg(0x0001, 0, 0x2112a442, nil),                                    // binding request: looks like STUN, is not a response
		c03ValidSTUN[:len(c03ValidSTUN)-1],                                         // truncated response
		c03StunMsg(0x0101, 8, 0x2112a442, c03Attr(0x0020, 4, []byte{0, 1, 0, 0})), // response with a short address
		c03Punch(c03Key, c03Plain(magic, 1, c03Nonce, 0)),                          // hello, attempt one
		c03Punch(c03Key2, c03Plain(magic, 2, c03Nonce, 7)),                         // ack, attempt two
		c03Punch(c03Key, c03Plain(magic, 3, c03Nonce, 0)),                          // bad type
		c03Punch(c03Key, c03Plain(magic, 1, c03Nonce, 0))[:32],                     // one byte short
		{0x40, 1, 2, 3},                                                            // QUIC short header
		{},                                                                         // empty datagram
	}
	var alpha [][]byte
	for _, k := range kinds {
		for _, src := range []byte{0, 1, 2, 4} {
			alpha = append(alpha, c03lib.Cat([]byte{src}, k))
		}
	}
	alpha = append(alpha, c03lib.Cat([]byte{3}, kinds[4]))
	d := 2
	if th {
		d = 3
	}
	p = r.Part("PunchPacketConn.ReadFrom/sequences", map[string]any{"datagrams": "valid STUN response, STUN request, truncated response, response with short address, punch hello (attempt 1), punch ack (attempt 2), punch with bad type, punch one byte short, QUIC short header, empty",
		"from": "UDP v4, UDP v6, UDP port 0, non-UDP address (+ nil IP for the hello)", "messages": len(alpha), "max_depth": d, "caller_buffer": []int{0, 1, 32, 33, 1500}, "registered_attempts": []int{0, 1, 2}, "event_buffer": 1, "then": "a QUIC packet, then socket closed"}, map[string]any{"max_depth": d})
	enum.Sequences(len(alpha), d, func(seq []int) bool {
		for _, pl := range []int64{0, 1, 32, 33, 1500} {
			for at := int64(0); at < 3; at++ {
				r.Do(p, func() *c03lib.Case {
					c := &c03lib.Case{Dec: "realm.PunchPacketConn.ReadFrom", P: []int64{pl, at}}
					for _, i := range seq {
						c.Seq = append(c.Seq, c03lib.Hex(alpha[i]))
					}
					return c
				})
			}
		}
		return !r.Stopped()
	})
}

func TestVerifC03Realm(t *testing.T) {
	evidence.Main(t, "C03", evidence.Seq{Run: c03Enumerate, Replay: c03lib.Replay(c03Unit, c03Exec)})
}
