package server

// C03 harness, unit "server" (injected into core/server): the server's UDP session manager fed
// with every sequence of <= d datagrams from a boundary alphabet (through ParseUDPMessage, as the
// real receive loop does), and the reply path (receiveLoop / sendMessageAutoFrag) for every
// (datagram limit, address length, payload length) of the boundary product.
//
// The QUIC connection behind udpIO is replaced by a model of the five lines of
// udpIOImpl.SendMessage: Serialize into the shared buffer, silently drop when it does not fit,
// otherwise hand the datagram to SendDatagram, which refuses payloads above the current limit
// with *quic.DatagramTooLargeError (quic-go connection.go SendDatagram).

import (
	"bytes"
	"errors"
	"fmt"
	"strings"
	"sync"
	"testing"

	"github.com/apernet/quic-go"

	"github.com/apernet/hysteria/core/v2/internal/frag"
	"github.com/apernet/hysteria/core/v2/internal/protocol"
	"verif.local/engine/enum"
	"verif.local/engine/evidence"
	"verif.local/harness/C03/c03lib"
)

const c03Unit = "server"

type c03Write struct {
	data []byte
	addr string
}

type c03Conn struct {
	mu      sync.Mutex
	writes  []c03Write
	script  []c03Write // packets ReadFrom returns (data, remote address) before it blocks/ends
	next    int
	block   bool // block after the script until Close (the background receive loop)
	closeCh chan struct{}
	once    sync.Once
}

func (c *c03Conn) ReadFrom(b []byte) (int, string, error) {
	c.mu.Lock()
	if c.next < len(c.script) {
		w := c.script[c.next]
		c.next++
		c.mu.Unlock()
		return copy(b, w.data), w.addr, nil
	}
	c.mu.Unlock()
	if c.block {
		<-c.closeCh
	}
	return 0, "", c03lib.ErrScriptEnd
}

func (c *c03Conn) WriteTo(b []byte, addr string) (int, error) {
	c.mu.Lock()
	c.writes = append(c.writes, c03Write{c03lib.Fresh(b), addr})
	c.mu.Unlock()
	return len(b), nil
}

func (c *c03Conn) Close() error {
	c.once.Do(func() { close(c.closeCh) })
	return nil
}

type c03IO struct {
	limit    int // datagram limit of the QUIC connection; < 0: unlimited
	sent     [][]byte
	hookAddr string
	mu       sync.Mutex
	conns    []*c03Conn
}

func (io *c03IO) ReceiveMessage() (*protocol.UDPMessage, error) { return nil, c03lib.ErrScriptEnd }

func (io *c03IO) SendMessage(buf []byte, msg *protocol.UDPMessage) error {
	n := msg.Serialize(buf)
	if n < 0 {
		return nil
	}
	if io.limit >= 0 && n > io.limit {
		return &quic.DatagramTooLargeError{MaxDatagramPayloadSize: int64(io.limit)}
	}
	io.sent = append(io.sent, c03lib.Fresh(buf[:n]))
	return nil
}

func (io *c03IO) Hook(data []byte, reqAddr *string) error {
	if io.hookAddr != "" {
		*reqAddr = io.hookAddr
	}
	return nil
}

func (io *c03IO) UDP(reqAddr string) (UDPConn, error) {
	if strings.HasPrefix(reqAddr, "bad") {
		return nil, errors.New("c03: dial refused")
	}
	c := &c03Conn{block: true, closeCh: make(chan struct{})}
	io.mu.Lock()
	io.conns = append(io.conns, c)
	io.mu.Unlock()
	return c, nil
}

func (io *c03IO) CheckUDP(reqAddr string) error {
	if strings.HasPrefix(reqAddr, "deny") {
		return errors.New("c03: denied")
	}
	return nil
}

func (io *c03IO) delivered(data string) (string, bool) {
	io.mu.Lock()
	defer io.mu.Unlock()
	for _, c := range io.conns {
		c.mu.Lock()
		for _, w := range c.writes {
			if string(w.data) == data {
				c.mu.Unlock()
				return w.addr, true
			}
		}
		c.mu.Unlock()
	}
	return "", false
}

type c03Logger struct{ news, closes int }

func (l *c03Logger) New(sessionID uint32, reqAddr string) { l.news++ }
func (l *c03Logger) Close(sessionID uint32, err error)    { l.closes++ }

func c03Wire(session uint32, pktID uint16, fragID, fragCount uint8, addr, data string) []byte {
	m := protocol.UDPMessage{SessionID: session, PacketID: pktID, FragID: fragID, FragCount: fragCount, Addr: addr, Data: []byte(data)}
	buf := make([]byte, m.Size())
	m.Serialize(buf)
	return buf
}

func c03Exec(c *c03lib.Case) c03lib.Outcome {
	switch c.Dec {
	case "server.udpSessionManager.feed":
		return c03Feed(c.Seq, c.P[0] == 1)
	case "server.sendMessageAutoFrag":
		return c03Send(int(c.P[0]), int(c.P[1]), int(c.P[2]))
	case "server.udpSessionEntry.receiveLoop":
		return c03RecvLoop(int(c.P[0]), int(c.P[1]), int(c.P[2]), c.P[3:])
	}
	return c03lib.Outcome{Clause: "unknown decoder", Detail: c.Dec}
}

func c03Feed(seq []c03lib.Hex, hook bool) c03lib.Outcome {
	io := &c03IO{limit: 1200}
	if hook {
		io.hookAddr = "hooked:443"
	}
	lg := &c03Logger{}
	m := newUDPSessionManager(io, lg, 0)
	defer verifCleanupAll(m)
	cls := ""
	for _, raw := range seq {
		msg, err := protocol.ParseUDPMessage(c03lib.Fresh(raw))
		if err != nil {
			cls += "x" // udpIOImpl.ReceiveMessage skips what does not parse
			continue
		}
		m.feed(msg)
		cls += "f"
	}
	cls += fmt.Sprintf("|n=%d|dials=%d", m.Count(), len(io.conns))
	// service continues for everyone else: a new session is served ...
	msg, _ := protocol.ParseUDPMessage(c03Wire(0x99, 0, 0, 1, "ok:9", "PING"))
	m.feed(msg)
	want := "ok:9"
	if hook {
		want = "hooked:443"
	}
	if addr, ok := io.delivered("PING"); !ok || addr != want {
		return c03lib.Outcome{Class: cls, Clause: "a new session is not served after the sequence", Detail: fmt.Sprintf("delivered=%v addr=%q", ok, addr)}
	}
	// ... and so is the session the sequence was aimed at
	msg, _ = protocol.ParseUDPMessage(c03Wire(1, 0, 0, 1, "a:1", "Z"))
	m.feed(msg)
	if _, ok := io.delivered("Z"); !ok {
		return c03lib.Outcome{Class: cls, Clause: "the attacked session is not served after the sequence"}
	}
	verifCleanupAll(m)
	if n := m.Count(); n != 0 {
		return c03lib.Outcome{Class: cls, Clause: "sessions left after cleanup", Detail: fmt.Sprint(n)}
	}
	return c03lib.Outcome{Class: cls}
}

// c03CheckSent: every datagram within the limit; the datagrams reassemble (client side:
// ParseUDPMessage + Defragger) to exactly the payloads, in order.
func c03CheckSent(io *c03IO, want [][]byte, addr string) (string, string) {
	d := &frag.Defragger{}
	var got [][]byte
	for _, dg := range io.sent {
		if io.limit >= 0 && len(dg) > io.limit {
			return "datagram larger than the limit was handed to QUIC", fmt.Sprintf("%d > %d", len(dg), io.limit)
		}
		m, err := protocol.ParseUDPMessage(c03lib.Fresh(dg))
		if err != nil {
			if l, w, ok := c03lib.ReadVarint(dg[8:]); ok && 8+w+int(l) == len(dg) {
				continue // reply to an empty UDP packet: no payload byte, the client skips it
			}
			return "sent datagram does not parse at the client", err.Error()
		}
		if m.Addr != addr {
			return "sent datagram carries a wrong address", ""
		}
		if out := d.Feed(m); out != nil {
			got = append(got, out.Data)
		}
	}
	gi := 0
	for _, w := range want {
		if gi < len(got) && bytes.Equal(got[gi], w) {
			gi++
		}
	}
	if gi != len(got) {
		return "client reassembles something that was not sent (not all-or-nothing)", fmt.Sprintf("%d messages, %d match", len(got), gi)
	}
	return "", ""
}

func c03Send(limit, addrLen, payLen int) c03lib.Outcome {
	io := &c03IO{limit: limit}
	payload := c03lib.Fill(payLen, "0123456789abcdefghijklmnopqrstuvwxyz")
	addr := string(c03lib.Fill(addrLen, "example.com:443/"))
	msg := &protocol.UDPMessage{SessionID: 3, PacketID: 0, FragID: 0, FragCount: 1, Addr: addr, Data: c03lib.Fresh(payload)}
	err := sendMessageAutoFrag(io, make([]byte, protocol.MaxUDPSize), msg)
	cls := fmt.Sprintf("sent=%d|err=%v", min(len(io.sent), 3), err != nil)
	if err != nil {
		return c03lib.Outcome{Class: cls, Clause: "reply path returns an error (the session would be closed)", Detail: err.Error()}
	}
	if cl, det := c03CheckSent(io, [][]byte{payload}, addr); cl != "" {
		return c03lib.Outcome{Class: cls, Clause: cl, Detail: det}
	}
	return c03lib.Outcome{Class: cls}
}

// c03RecvLoop runs the real receive loop of a session synchronously on a scripted outbound conn.
func c03RecvLoop(limit, origLen, rAddrLen int, pktLens []int64) c03lib.Outcome {
	io := &c03IO{limit: limit}
	conn := &c03Conn{closeCh: make(chan struct{})}
	rAddr := string(c03lib.Fill(rAddrLen, "192.0.2.1:53"))
	var want [][]byte
	for i, n := range pktLens {
		d := c03lib.Fill(int(n), string(rune('A'+i))+"bcdefg")
		conn.script = append(conn.script, c03Write{d, rAddr})
		if n > 0 {
			want = append(want, d)
		}
	}
	var exits []error
	e := newUDPSessionEntry(5, io, nil, func(err error) { exits = append(exits, err) })
	e.conn = conn
	addr := rAddr
	if origLen > 0 {
		e.OriginalAddr = string(c03lib.Fill(origLen, "client.chosen.name:443/"))
		e.OverrideAddr = "203.0.113.9:443"
		addr = e.OriginalAddr
	}
	e.receiveLoop()
	cls := fmt.Sprintf("sent=%d|exits=%d", min(len(io.sent), 3), len(exits))
	if len(exits) != 1 || !errors.Is(exits[0], c03lib.ErrScriptEnd) {
		return c03lib.Outcome{Class: cls, Clause: "receive loop ended for another reason than its socket", Detail: fmt.Sprint(exits)}
	}
	if cl, det := c03CheckSent(io, want, addr); cl != "" {
		return c03lib.Outcome{Class: cls, Clause: cl, Detail: det}
	}
	return c03lib.Outcome{Class: cls}
}

func c03Alphabet(sessions []uint32, hdrs [][3]int, addrs []string) [][]byte {
	out := [][]byte{
		{},                                // empty datagram
		{0, 0, 0, 1, 0, 0, 0},             // truncated header
		{0, 0, 0, 1, 0, 0, 0, 1, 0},       // address length 0
		{0, 0, 0, 1, 0, 0, 0, 1, 1, 'a'},  // no payload byte
		{0, 0, 0, 1, 0, 0, 0, 1, 0x48, 1}, // address length 2049
	}
	for _, s := range sessions {
		for _, h := range hdrs {
			for _, a := range addrs {
				out = append(out, c03Wire(s, uint16(h[0]), uint8(h[1]), uint8(h[2]), a, "x"))
			}
		}
	}
	return out
}

func c03Enumerate(sh *evidence.Shard) {
	r := c03lib.NewRunner(sh, c03Unit, c03Exec)
	defer r.Close()
	th := r.Thorough()

	// --- session manager: sequences of datagrams ----------------------------------------------
	// (packet id, fragment id, fragment count): unfragmented, count 0, the halves of a 2-fragment
	// packet, id >= count, another packet id, count 3, the uint8 extremes
	hdrs := [][3]int{{0, 0, 1}, {0, 0, 0}, {5, 0, 2}, {5, 1, 2}, {5, 2, 2}, {6, 0, 2}, {5, 0, 3}, {5, 255, 255}, {5, 0, 255}}
	type cfg struct {
		name  string
		alpha [][]byte
		depth int
		desc  map[string]any
	}
	qh, qa := hdrs, []string{"a:1", "deny:1", "bad:1"}
	if !th {
		qh, qa = [][3]int{{0, 0, 1}, {0, 0, 0}, {5, 0, 2}, {5, 1, 2}, {5, 2, 2}, {5, 255, 255}}, []string{"a:1", "bad:1"}
	}
	a3 := c03Alphabet([]uint32{1, 2}, qh, qa)
	if !th {
		a3 = append(a3, c03Wire(1, 0, 0, 1, "deny:1", "x"), c03Wire(2, 0, 0, 1, "deny:1", "x"))
	}
	cfgs := []cfg{{"udpSessionManager.feed/seq3", a3, 3, map[string]any{"sessions": []int{1, 2}, "pktid_fragid_fragcount": qh, "addr": []string{"a:1 (allowed)", "deny:1 (outbound policy refuses; quick: unfragmented only)", "bad:1 (dial fails)"},
		"malformed": "empty, 7-byte header, address length 0, no payload byte, address length 2049", "hook": "off / rewrites the address", "messages": len(a3), "max_depth": 3}}}
	if th {
		a4 := c03Alphabet([]uint32{1, 2}, [][3]int{{0, 0, 1}, {5, 0, 2}, {5, 1, 2}, {5, 2, 2}, {6, 1, 2}, {5, 254, 255}}, []string{"a:1", "bad:1"})
		cfgs = append(cfgs, cfg{"udpSessionManager.feed/seq4", a4, 4, map[string]any{"sessions": []int{1, 2}, "pktid_fragid_fragcount": "{0,0,1},{5,0,2},{5,1,2},{5,2,2},{6,1,2},{5,254,255}", "addr": []string{"a:1", "bad:1"}, "malformed": "as seq3", "messages": len(a4), "max_depth": 4}})
	}
	for _, cf := range cfgs {
		p := r.Part(cf.name, cf.desc, map[string]any{"max_depth": cf.depth})
		enum.Sequences(len(cf.alpha), cf.depth, func(seq []int) bool {
			for hook := int64(0); hook < 2; hook++ {
				r.Do(p, func() *c03lib.Case {
					c := &c03lib.Case{Dec: "server.udpSessionManager.feed", P: []int64{hook}}
					for _, i := range seq {
						c.Seq = append(c.Seq, c03lib.Hex(cf.alpha[i]))
					}
					return c
				})
			}
			return !r.Stopped()
		})
	}

	// --- reply path -----------------------------------------------------------------------------
	addrLens := []int{1, 63, 64, 255, 1024, 2047, 2048}
	pays := []int{1, 2, 254, 255, 256, 257, 511, 512, 766, 1023, 1024, 2048, 4071, 4080, 4081, 4095, 4096}
	if th {
		pays = nil
		for i := 1; i <= 1030; i++ {
			pays = append(pays, i)
		}
		pays = append(pays, 2047, 2048, 2049, 4071, 4079, 4080, 4081, 4095, 4096)
	}
	p := r.Part("sendMessageAutoFrag/limits", map[string]any{"limit": "as frag unit, without -1: " + c03lib.DatagramLimitsDoc, "addr_len": addrLens,
		"payload_len": fmt.Sprintf("%d values: %v..", len(pays), pays[:min(len(pays), 17)]), "buffer": "protocol.MaxUDPSize as in receiveLoop"}, nil)
	for _, al := range addrLens {
		hdr := 8 + len(c03lib.VarintMin(uint64(al))) + al
		limits := c03lib.DatagramLimits(hdr, th)[1:]
		for _, lim := range limits {
			for _, pl := range pays {
				r.Do(p, func() *c03lib.Case {
					return &c03lib.Case{Dec: "server.sendMessageAutoFrag", P: []int64{int64(lim), int64(al), int64(pl)}}
				})
			}
		}
	}

	p = r.Part("receiveLoop/replies", map[string]any{"limit": "hdr+{1,2,16,17}, 1200", "original_addr_len (hook rewrote the address)": []int{0, 1, 255, 2047, 2048}, "remote_addr_len": []int{12},
		"packets": "every sequence of <= 2 packet lengths from {0,1,255,256,257,1200,4096}"}, nil)
	pl := []int64{0, 1, 255, 256, 257, 1200, 4096}
	for _, ol := range []int{0, 1, 255, 2047, 2048} {
		al := ol
		if al == 0 {
			al = 12
		}
		hdr := 8 + len(c03lib.VarintMin(uint64(al))) + al
		for _, lim := range []int{hdr + 1, hdr + 2, hdr + 16, hdr + 17, 1200} {
			enum.Sequences(len(pl), 2, func(seq []int) bool {
				r.Do(p, func() *c03lib.Case {
					c := &c03lib.Case{Dec: "server.udpSessionEntry.receiveLoop", P: []int64{int64(lim), int64(ol), 12}}
					for _, i := range seq {
						c.P = append(c.P, pl[i])
					}
					return c
				})
				return true
			})
		}
	}
}

func TestVerifC03Server(t *testing.T) {
	evidence.Main(t, "C03", evidence.Seq{Run: c03Enumerate, Replay: c03lib.Replay(c03Unit, c03Exec)})
}


// verifCleanupAll closes every session of a manager at the end of a case. The private
// cleanup(idleOnly bool) method is called through an interface assertion, so that a refactor of
// it does not break the harness build; without it the sessions are left to the fake sockets'
// Close (every case uses fresh objects).
func verifCleanupAll(m *udpSessionManager) {
	if c, ok := any(m).(interface{ cleanup(bool) }); ok {
		c.cleanup(false)
	}
}
