package client

// C03 harness, unit "client" (injected into core/client): replies arriving at a client. The
// client's UDP session manager is fed with every sequence of <= d datagrams from a boundary
// alphabet (through ParseUDPMessage, as udpIOImpl.ReceiveMessage does) and drained through
// udpConn.Receive; udpConn.Send is run for every (datagram limit, address length, payload length)
// of the boundary product. The QUIC connection behind udpIO is modelled as in the server unit.

import (
	"bytes"
	"fmt"
	"testing"

	"github.com/apernet/quic-go"

	"github.com/apernet/hysteria/core/v2/internal/frag"
	"github.com/apernet/hysteria/core/v2/internal/protocol"
	"verif.local/engine/enum"
	"verif.local/engine/evidence"
	"verif.local/harness/C03/c03lib"
)

const c03Unit = "client"

type c03IO struct {
	limit   int
	sent    [][]byte
	closeCh chan struct{}
}

func (io *c03IO) ReceiveMessage() (*protocol.UDPMessage, error) {
	<-io.closeCh
	return nil, c03lib.ErrScriptEnd
}

func (io *c03IO) SendMessage(buf []byte, msg *protocol.UDPMessage) error {
	n := msg.Serialize(buf)
	if n < 0 {
		return nil
	}
	if io.limit >= 0 && n > io.limit {
		return &quic.DatagramTooLargeError{MaxDatagramPayloadSize: int64(io.limit)}
	}
	io.sent = append(io.sent, c03lib.Fresh(buf[:n]))
	return nil
}

func c03Wire(session uint32, pktID uint16, fragID, fragCount uint8, addr, data string) []byte {
	m := protocol.UDPMessage{SessionID: session, PacketID: pktID, FragID: fragID, FragCount: fragCount, Addr: addr, Data: []byte(data)}
	buf := make([]byte, m.Size())
	m.Serialize(buf)
	return buf
}

func c03Exec(c *c03lib.Case) c03lib.Outcome {
	switch c.Dec {
	case "client.udpSessionManager.feed+udpConn.Receive":
		return c03Feed(c.Seq)
	case "client.udpConn.Send":
		return c03Send(int(c.P[0]), int(c.P[1]), int(c.P[2]))
	}
	return c03lib.Outcome{Clause: "unknown decoder", Detail: c.Dec}
}

// c03CloseSession1 is not a datagram: in a sequence it stands for "the application closes session 1"
// (added after the independently seeded change C03-5: a last-session cache in feed that outlives
// the session, so that a late reply is sent on a closed channel).
var c03CloseSession1 = []byte{0xff, 'c', 'l', 'o', 's', 'e', 1}

func c03Feed(seq []c03lib.Hex) c03lib.Outcome {
	io := &c03IO{limit: 1200, closeCh: make(chan struct{})}
	m := newUDPSessionManager(io) // starts run(), which blocks in ReceiveMessage until the end
	defer close(io.closeCh)
	c1, err1 := m.NewUDP() // session 1: the one the datagrams are aimed at
	c2, err2 := m.NewUDP() // session 2: somebody else
	if err1 != nil || err2 != nil {
		return c03lib.Outcome{Clause: "cannot open sessions"}
	}
	cls := ""
	fed := 0
	closed1 := false
	for _, raw := range seq {
		if bytes.Equal(raw, c03CloseSession1) {
			// the application closes session 1 locally; the server is not told and keeps sending
			// for that id until its own idle timeout: later datagrams of the sequence arrive late
			_ = c1.Close()
			closed1 = true
			cls += "c"
			continue
		}
		msg, err := protocol.ParseUDPMessage(c03lib.Fresh(raw))
		if err != nil {
			cls += "x"
			continue
		}
		m.feed(msg)
		cls += "f"
		fed++
	}
	// service continues: both sessions still receive a well-formed reply
	for _, s := range []uint32{1, 2} {
		msg, _ := protocol.ParseUDPMessage(c03Wire(s, 0, 0, 1, "r:1", fmt.Sprintf("PONG%d", s)))
		m.feed(msg)
	}
	for i, conn := range []HyUDPConn{c1, c2} {
		if i == 0 && closed1 {
			continue
		}
		want := fmt.Sprintf("PONG%d", i+1)
		ok := false
		for n := 0; n <= fed+1; n++ { // at most one Receive per queued message
			data, addr, err := conn.Receive()
			if err != nil {
				return c03lib.Outcome{Class: cls, Clause: "Receive fails after the sequence", Detail: err.Error()}
			}
			if len(data) == 0 || addr == "" {
				return c03lib.Outcome{Class: cls, Clause: "Receive returns an empty message"}
			}
			cls += "r"
			if string(data) == want && addr == "r:1" {
				ok = true
				break
			}
		}
		if !ok {
			return c03lib.Outcome{Class: cls, Clause: "a well-formed reply is not delivered after the sequence", Detail: want}
		}
	}
	_ = c1.Close()
	_ = c2.Close()
	if n := m.Count(); n != 0 {
		return c03lib.Outcome{Class: cls, Clause: "sessions left after Close", Detail: fmt.Sprint(n)}
	}
	return c03lib.Outcome{Class: cls}
}

func c03Send(limit, addrLen, payLen int) c03lib.Outcome {
	io := &c03IO{limit: limit, closeCh: make(chan struct{})}
	m := newUDPSessionManager(io)
	defer close(io.closeCh)
	conn, err := m.NewUDP()
	if err != nil {
		return c03lib.Outcome{Clause: "cannot open a session"}
	}
	payload := c03lib.Fill(payLen, "0123456789abcdefghijklmnopqrstuvwxyz")
	addr := string(c03lib.Fill(addrLen, "example.com:443/"))
	err = conn.Send(c03lib.Fresh(payload), addr)
	cls := fmt.Sprintf("sent=%d|err=%v", min(len(io.sent), 3), err != nil)
	if err != nil {
		return c03lib.Outcome{Class: cls, Clause: "Send returns an error for an oversized message instead of fragmenting or discarding it", Detail: err.Error()}
	}
	// server side: parse + defragment
	d := &frag.Defragger{}
	var got [][]byte
	for _, dg := range io.sent {
		if len(dg) > limit {
			return c03lib.Outcome{Class: cls, Clause: "datagram larger than the limit was handed to QUIC", Detail: fmt.Sprintf("%d > %d", len(dg), limit)}
		}
		pm, err := protocol.ParseUDPMessage(c03lib.Fresh(dg))
		if err != nil {
			return c03lib.Outcome{Class: cls, Clause: "sent datagram does not parse at the server", Detail: err.Error()}
		}
		if out := d.Feed(pm); out != nil {
			got = append(got, out.Data)
		}
	}
	if len(got) > 1 || (len(got) == 1 && !bytes.Equal(got[0], payload)) {
		return c03lib.Outcome{Class: cls, Clause: "server reassembles something that was not sent (not all-or-nothing)"}
	}
	_ = conn.Close()
	return c03lib.Outcome{Class: cls}
}

func c03Enumerate(sh *evidence.Shard) {
	r := c03lib.NewRunner(sh, c03Unit, c03Exec)
	defer r.Close()
	th := r.Thorough()

	hdrs := [][3]int{{0, 0, 1}, {0, 0, 0}, {5, 0, 2}, {5, 1, 2}, {5, 2, 2}, {6, 0, 2}, {5, 0, 3}, {5, 255, 255}, {5, 0, 255}}
	datas := []string{"x"}
	if th {
		datas = []string{"x", "yz"}
	}
	mk := func(sessions []uint32, hdrs [][3]int) [][]byte {
		out := [][]byte{c03CloseSession1, {}, {0, 0, 0, 1, 0, 0, 0}, {0, 0, 0, 1, 0, 0, 0, 1, 0}, {0, 0, 0, 1, 0, 0, 0, 1, 1, 'a'}, {0, 0, 0, 1, 0, 0, 0, 1, 0x48, 1}}
		for _, s := range sessions {
			for _, h := range hdrs {
				for _, d := range datas {
					out = append(out, c03Wire(s, uint16(h[0]), uint8(h[1]), uint8(h[2]), "r:1", d))
				}
			}
		}
		return out
	}
	type cfg struct {
		name  string
		alpha [][]byte
		depth int
		desc  map[string]any
	}
	ss := []uint32{1, 7}
	if th {
		ss = []uint32{1, 2, 7}
	}
	a3 := mk(ss, hdrs)
	cfgs := []cfg{{"feed+Receive/seq3", a3, 3, map[string]any{"sessions": "1 (open), 7 (unknown); thorough also 2 (open)", "pktid_fragid_fragcount": hdrs, "data_len": "1 (thorough: 1, 2)",
		"malformed": "empty, 7-byte header, address length 0, no payload byte, address length 2049", "local_events": "the application closes session 1 (datagrams after it are late replies)", "messages": len(a3), "max_depth": 3}}}
	if th {
		a4 := mk([]uint32{1, 7}, [][3]int{{0, 0, 1}, {5, 0, 2}, {5, 1, 2}, {5, 2, 2}, {6, 1, 2}, {5, 254, 255}, {5, 0, 3}})
		cfgs = append(cfgs, cfg{"feed+Receive/seq4", a4, 4, map[string]any{"sessions": "1 (open), 7 (unknown)", "pktid_fragid_fragcount": "{0,0,1},{5,0,2},{5,1,2},{5,2,2},{6,1,2},{5,254,255},{5,0,3}", "data_len": []int{1, 2}, "malformed": "as seq3", "messages": len(a4), "max_depth": 4}})
	}
	for _, cf := range cfgs {
		p := r.Part(cf.name, cf.desc, map[string]any{"max_depth": cf.depth})
		enum.Sequences(len(cf.alpha), cf.depth, func(seq []int) bool {
			r.Do(p, func() *c03lib.Case {
				c := &c03lib.Case{Dec: "client.udpSessionManager.feed+udpConn.Receive"}
				for _, i := range seq {
					c.Seq = append(c.Seq, c03lib.Hex(cf.alpha[i]))
				}
				return c
			})
			return !r.Stopped()
		})
	}

	addrLens := []int{1, 63, 64, 255, 1024, 2047, 2048}
	pays := []int{1, 2, 254, 255, 256, 257, 511, 512, 766, 1023, 1024, 2048, 4071, 4080, 4081, 4095, 4096, 4097, 65535}
	if th {
		pays = nil
		for i := 1; i <= 1030; i++ {
			pays = append(pays, i)
		}
		pays = append(pays, 2047, 2048, 2049, 4071, 4079, 4080, 4081, 4095, 4096, 4097, 65535)
	}
	p := r.Part("udpConn.Send/limits", map[string]any{"limit": "as frag unit, without -1: " + c03lib.DatagramLimitsDoc, "addr_len": addrLens,
		"payload_len": fmt.Sprintf("%d values: %v..", len(pays), pays[:min(len(pays), 19)])}, nil)
	for _, al := range addrLens {
		hdr := 8 + len(c03lib.VarintMin(uint64(al))) + al
		limits := c03lib.DatagramLimits(hdr, th)[1:]
		for _, lim := range limits {
			for _, pl := range pays {
				r.Do(p, func() *c03lib.Case {
					return &c03lib.Case{Dec: "client.udpConn.Send", P: []int64{int64(lim), int64(al), int64(pl)}}
				})
			}
		}
	}
}

func TestVerifC03Client(t *testing.T) {
	evidence.Main(t, "C03", evidence.Seq{Run: c03Enumerate, Replay: c03lib.Replay(c03Unit, c03Exec)})
}
