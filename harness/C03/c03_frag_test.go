package frag

// C03 harness, unit "frag" (injected into core/internal/frag): the fragmenter on every
// (datagram limit, address length, payload length) of the boundary product, and the
// defragmenter on every sequence of <= d wire messages from a boundary message alphabet.

import (
	"bytes"
	"fmt"
	"testing"

	"github.com/apernet/hysteria/core/v2/internal/protocol"
	"verif.local/engine/enum"
	"verif.local/engine/evidence"
	"verif.local/harness/C03/c03lib"
)

const c03Unit = "frag"

func c03Exec(c *c03lib.Case) c03lib.Outcome {
	switch c.Dec {
	case "frag.FragUDPMessage":
		return c03Frag(int(c.P[0]), int(c.P[1]), int(c.P[2]))
	case "frag.Defragger.Feed":
		return c03Feed(c.Seq)
	}
	return c03lib.Outcome{Clause: "unknown decoder", Detail: c.Dec}
}

func c03Frag(limit, addrLen, payLen int) c03lib.Outcome {
	payload := c03lib.Fill(payLen, "0123456789abcdefghijklmnopqrstuvwxyz")
	m := &protocol.UDPMessage{SessionID: 7, PacketID: 0x1234, FragID: 0, FragCount: 1,
		Addr: string(c03lib.Fill(addrLen, "example.com:443/")), Data: c03lib.Fresh(payload)}
	hdr := 8 + len(c03lib.VarintMin(uint64(addrLen))) + addrLen
	frags := FragUDPMessage(m, limit)
	// reference (PROTOCOL.md: a packet that exceeds the datagram size is fragmented or discarded;
	// fragment count is a uint8): how many fragments are needed
	budget := limit - hdr
	want := -1 // -1: discard is the only option
	switch {
	case hdr+payLen <= limit:
		want = 1
	case budget > 0 && (payLen+budget-1)/budget <= 255:
		want = (payLen + budget - 1) / budget
	}
	cls := fmt.Sprintf("want=%d|got=%d|b=%d", min(want, 3), min(len(frags), 3), min(max(budget, -1), 3))
	if want < 0 {
		if len(frags) != 0 {
			return c03lib.Outcome{Class: cls, Clause: "fragments produced for a message that cannot be carried", Detail: fmt.Sprint(len(frags))}
		}
		return c03lib.Outcome{Class: cls}
	}
	if len(frags) != want {
		return c03lib.Outcome{Class: cls, Clause: "wrong number of fragments", Detail: fmt.Sprintf("got %d want %d", len(frags), want)}
	}
	var cat []byte
	d := &Defragger{}
	var out *protocol.UDPMessage
	for i := range frags {
		f := frags[i]
		if f.Size() > limit {
			return c03lib.Outcome{Class: cls, Clause: "fragment larger than the datagram limit", Detail: fmt.Sprintf("%d > %d", f.Size(), limit)}
		}
		if int(f.FragID) != i || int(f.FragCount) != len(frags) || f.Addr != m.Addr || f.PacketID != m.PacketID {
			return c03lib.Outcome{Class: cls, Clause: "fragment header inconsistent", Detail: fmt.Sprintf("index %d: id %d count %d", i, f.FragID, f.FragCount)}
		}
		cat = append(cat, f.Data...)
		// over the wire and into the receiver
		buf := make([]byte, f.Size())
		if n := f.Serialize(buf); n != len(buf) {
			return c03lib.Outcome{Class: cls, Clause: "fragment does not serialize", Detail: fmt.Sprint(n)}
		}
		if addrLen >= 1 && addrLen <= 2048 && len(f.Data) > 0 {
			pm, err := protocol.ParseUDPMessage(buf)
			if err != nil {
				return c03lib.Outcome{Class: cls, Clause: "fragment does not parse", Detail: err.Error()}
			}
			out = d.Feed(pm)
			if i < len(frags)-1 && out != nil {
				return c03lib.Outcome{Class: cls, Clause: "receiver completed before the last fragment"}
			}
		}
	}
	if !bytes.Equal(cat, payload) {
		return c03lib.Outcome{Class: cls, Clause: "fragments do not add up to the payload"}
	}
	if addrLen >= 1 && addrLen <= 2048 && payLen > 0 {
		if out == nil || !bytes.Equal(out.Data, payload) || out.Addr != m.Addr {
			return c03lib.Outcome{Class: cls, Clause: "receiver does not reassemble the fragments"}
		}
	}
	return c03lib.Outcome{Class: cls}
}

// c03Msg builds the wire form of one UDP message (session 1, address "a:1").
func c03Msg(pktID uint16, fragID, fragCount uint8, data string) []byte {
	m := protocol.UDPMessage{SessionID: 1, PacketID: pktID, FragID: fragID, FragCount: fragCount, Addr: "a:1", Data: []byte(data)}
	buf := make([]byte, m.Size())
	m.Serialize(buf)
	return buf
}

func c03Feed(seq []c03lib.Hex) c03lib.Outcome {
	d := &Defragger{}
	cls := ""
	for _, raw := range seq {
		m, err := protocol.ParseUDPMessage(c03lib.Fresh(raw))
		if err != nil {
			cls += "x"
			continue // the receive loops skip what does not parse
		}
		single := m.FragCount <= 1
		out := d.Feed(m)
		switch {
		case out == nil:
			cls += "-"
		case single:
			cls += "s"
		default:
			cls += "A"
			if out.FragCount != 1 || out.FragID != 0 || len(out.Data) == 0 {
				return c03lib.Outcome{Class: cls, Clause: "reassembled message has a fragment header or no data"}
			}
		}
	}
	// service continues: an unfragmented message passes, a fresh 2-fragment message reassembles
	m, _ := protocol.ParseUDPMessage(c03Msg(9, 0, 1, "S"))
	if out := d.Feed(m); out == nil || string(out.Data) != "S" || out.Addr != "a:1" {
		return c03lib.Outcome{Class: cls, Clause: "unfragmented message not delivered after the sequence"}
	}
	m, _ = protocol.ParseUDPMessage(c03Msg(0x7777, 0, 2, "AB"))
	if out := d.Feed(m); out != nil {
		return c03lib.Outcome{Class: cls, Clause: "first of two fragments delivered as a message"}
	}
	m, _ = protocol.ParseUDPMessage(c03Msg(0x7777, 1, 2, "C"))
	if out := d.Feed(m); out == nil || string(out.Data) != "ABC" || out.Addr != "a:1" {
		return c03lib.Outcome{Class: cls, Clause: "fresh fragmented message not reassembled after the sequence"}
	}
	return c03lib.Outcome{Class: cls}
}

func c03Alphabet(pktIDs []uint16, counts, ids []uint8, datas []string) [][]byte {
	var out [][]byte
	for _, p := range pktIDs {
		for _, c := range counts {
			for _, i := range ids {
				for _, d := range datas {
					out = append(out, c03Msg(p, i, c, d))
				}
			}
		}
	}
	return out
}

func c03Enumerate(sh *evidence.Shard) {
	r := c03lib.NewRunner(sh, c03Unit, c03Exec)
	defer r.Close()
	th := r.Thorough()

	// --- FragUDPMessage ----------------------------------------------------------------------
	addrLens := []int{1, 63, 64, 255, 1024, 2047, 2048}
	var pays []int
	if th {
		for i := 0; i <= 1030; i++ {
			pays = append(pays, i)
		}
		pays = append(pays, 2047, 2048, 2049, 4079, 4080, 4081, 4095, 4096, 4097, 65535)
	} else {
		pays = []int{0, 1, 2, 3, 254, 255, 256, 257, 258, 509, 510, 511, 512, 513, 764, 765, 766, 767, 768, 1023, 1024, 1025, 2047, 2048, 4079, 4080, 4081, 4095, 4096, 4097, 65535}
	}
	p := r.Part("FragUDPMessage/limits", map[string]any{"limit": c03lib.DatagramLimitsDoc,
		"addr_len": addrLens, "payload_len": fmt.Sprintf("%d values: %v..", len(pays), pays[:min(len(pays), 12)])}, nil)
	for _, al := range addrLens {
		hdr := 8 + len(c03lib.VarintMin(uint64(al))) + al
		limits := c03lib.DatagramLimits(hdr, th)
		for _, lim := range limits {
			for _, pl := range pays {
				r.Do(p, func() *c03lib.Case {
					return &c03lib.Case{Dec: "frag.FragUDPMessage", P: []int64{int64(lim), int64(al), int64(pl)}}
				})
			}
		}
	}

	// --- Defragger.Feed ----------------------------------------------------------------------
	type cfg struct {
		name  string
		alpha [][]byte
		depth int
		desc  map[string]any
	}
	var cfgs []cfg
	datas := []string{"x"}
	if th {
		datas = []string{"x", "yz"}
	}
	small := c03Alphabet([]uint16{0, 1}, []uint8{0, 1, 2, 3, 255}, []uint8{0, 1, 2, 254, 255}, datas)
	cfgs = append(cfgs, cfg{"Defragger.Feed/seq3", small, 3, map[string]any{"packet_id": []int{0, 1}, "frag_count": []int{0, 1, 2, 3, 255}, "frag_id": []int{0, 1, 2, 254, 255}, "data_len": "1 (thorough: 1, 2)", "messages": len(small), "max_depth": 3}})
	if th {
		big := c03Alphabet([]uint16{0, 1, 65535}, []uint8{0, 1, 2, 3, 254, 255}, []uint8{0, 1, 2, 3, 253, 254, 255}, []string{"x", "yz"})
		cfgs = append(cfgs, cfg{"Defragger.Feed/seq3-wide", big, 3, map[string]any{"packet_id": []int{0, 1, 65535}, "frag_count": []int{0, 1, 2, 3, 254, 255}, "frag_id": []int{0, 1, 2, 3, 253, 254, 255}, "data_len": []int{1, 2}, "messages": len(big), "max_depth": 3}})
		four := c03Alphabet([]uint16{0, 1}, []uint8{1, 2, 3, 255}, []uint8{0, 1, 2, 255}, []string{"x"})
		cfgs = append(cfgs, cfg{"Defragger.Feed/seq4", four, 4, map[string]any{"packet_id": []int{0, 1}, "frag_count": []int{1, 2, 3, 255}, "frag_id": []int{0, 1, 2, 255}, "data_len": []int{1}, "messages": len(four), "max_depth": 4}})
	}
	for _, cf := range cfgs {
		p := r.Part(cf.name, cf.desc, map[string]any{"max_depth": cf.depth})
		enum.Sequences(len(cf.alpha), cf.depth, func(seq []int) bool {
			r.Do(p, func() *c03lib.Case {
				c := &c03lib.Case{Dec: "frag.Defragger.Feed"}
				for _, i := range seq {
					c.Seq = append(c.Seq, c03lib.Hex(cf.alpha[i]))
				}
				return c
			})
			return !r.Stopped()
		})
	}
}

func TestVerifC03Frag(t *testing.T) {
	evidence.Main(t, "C03", evidence.Seq{Run: c03Enumerate, Replay: c03lib.Replay(c03Unit, c03Exec)})
}
