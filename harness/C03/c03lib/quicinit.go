package c03lib

import (
	"crypto/aes"
	"crypto/cipher"
	"crypto/hkdf"
	"crypto/sha256"
	"encoding/binary"
)

// QUIC Initial packet protection written from RFC 9001 section 5 / RFC 9369 section 3.3 (not from
// the code under test): the Initial keys are a function of the Destination Connection ID the
// sender itself chooses, so a peer can deliver ANY plaintext frame sequence to the sniffer. The
// harness uses this to hand enumerated frame payloads to the real decryption + frame parser.

const (
	QUICv1 uint32 = 0x00000001
	QUICv2 uint32 = 0x6b3343cf
)

var (
	quicSaltV1 = []byte{0x38, 0x76, 0x2c, 0xf7, 0xf5, 0x59, 0x34, 0xb3, 0x4d, 0x17, 0x9a, 0xe6, 0xa4, 0xc8, 0x0c, 0xad, 0xcc, 0xbb, 0x7f, 0x0a}
	quicSaltV2 = []byte{0x0d, 0xed, 0xe3, 0xde, 0xf7, 0x00, 0xa6, 0xdb, 0x81, 0x93, 0x81, 0xbe, 0x6e, 0x26, 0x9d, 0xcb, 0xf9, 0xbd, 0x2e, 0xd9}
)

func hkdfExpandLabel(secret []byte, label string, n int) []byte {
	full := "tls13 " + label
	info := make([]byte, 0, 4+len(full))
	info = append(info, byte(n>>8), byte(n), byte(len(full)))
	info = append(info, full...)
	info = append(info, 0)
	out, err := hkdf.Expand(sha256.New, secret, string(info), n)
	if err != nil {
		panic(err)
	}
	return out
}

// QUICInitial describes a client Initial packet field by field.
type QUICInitial struct {
	First    byte // unprotected first byte; low 2 bits = packet number length - 1
	Version  uint32
	DCID     []byte
	SCID     []byte
	Token    []byte
	TokenW   int // width of the token length varint (0 = shortest)
	LenW     int // width of the Length varint (0 = shortest)
	PN       uint32
	Payload  []byte // plaintext frames
	LenDelta int64  // added to the declared Length (0 = consistent with the packet)
	NoToken  bool   // omit the token length field (non-Initial long header types)
}

// Build returns the protected packet and the packet number offset.
func (q *QUICInitial) Build() ([]byte, int) {
	salt, kl, il, hl := quicSaltV1, "quic key", "quic iv", "quic hp"
	if q.Version == QUICv2 {
		salt, kl, il, hl = quicSaltV2, "quicv2 key", "quicv2 iv", "quicv2 hp"
	}
	initial, err := hkdf.Extract(sha256.New, q.DCID, salt)
	if err != nil {
		panic(err)
	}
	client := hkdfExpandLabel(initial, "client in", 32)
	key := hkdfExpandLabel(client, kl, 16)
	iv := hkdfExpandLabel(client, il, 12)
	hp := hkdfExpandLabel(client, hl, 16)

	pnLen := int(q.First&3) + 1
	hdr := []byte{q.First}
	hdr = binary.BigEndian.AppendUint32(hdr, q.Version)
	hdr = append(hdr, byte(len(q.DCID)))
	hdr = append(hdr, q.DCID...)
	hdr = append(hdr, byte(len(q.SCID)))
	hdr = append(hdr, q.SCID...)
	if !q.NoToken {
		hdr = append(hdr, encW(uint64(len(q.Token)), q.TokenW)...)
		hdr = append(hdr, q.Token...)
	}
	length := int64(pnLen+len(q.Payload)+16) + q.LenDelta
	if length < 0 {
		length = 0
	}
	hdr = append(hdr, encW(uint64(length), q.LenW)...)
	pnOffset := len(hdr)
	for i := pnLen - 1; i >= 0; i-- {
		hdr = append(hdr, byte(q.PN>>(8*uint(i))))
	}
	blk, _ := aes.NewCipher(key)
	aead, _ := cipher.NewGCM(blk)
	nonce := make([]byte, 12)
	binary.BigEndian.PutUint64(nonce[4:], uint64(q.PN))
	for i := range nonce {
		nonce[i] ^= iv[i]
	}
	pkt := aead.Seal(append([]byte{}, hdr...), nonce, q.Payload, hdr)
	// header protection (the sample starts 4 bytes after the start of the packet number)
	if len(pkt) >= pnOffset+4+16 {
		hpb, _ := aes.NewCipher(hp)
		mask := make([]byte, 16)
		hpb.Encrypt(mask, pkt[pnOffset+4:pnOffset+20])
		if pkt[0]&0x80 != 0 {
			pkt[0] ^= mask[0] & 0x0f
		} else {
			pkt[0] ^= mask[0] & 0x1f
		}
		for i := 0; i < pnLen; i++ {
			pkt[pnOffset+i] ^= mask[1+i]
		}
	}
	return Fresh(pkt), pnOffset
}

func encW(v uint64, w int) []byte {
	if w != 0 {
		if b, ok := Varint(v, w); ok {
			return b
		}
	}
	return VarintMin(v)
}
