// Package c03lib is the part of the C03 harness that is shared by the per-package harness files
// (they are injected into nine different packages of /repo and cannot share in-package code):
// the case/replay format, the sharded runner with panic capture and signatures, exact-size
// slices, QUIC varints, scripted readers/conns and a from-the-RFC QUIC Initial packet protector.
//
// Nothing here decides a verdict on its own: every verdict comes from running the real decoder
// on an enumerated input inside Runner.Run.
package c03lib

import (
	"encoding/hex"
	"encoding/json"
	"fmt"
	"strings"
	"time"

	"verif.local/engine/evidence"
)

// Hex is a byte string that is written as hex in replay files.
type Hex []byte

func (h Hex) MarshalJSON() ([]byte, error) { return json.Marshal(hex.EncodeToString(h)) }

func (h *Hex) UnmarshalJSON(b []byte) error {
	var s string
	if err := json.Unmarshal(b, &s); err != nil {
		return err
	}
	v, err := hex.DecodeString(s)
	*h = v
	return err
}

// Case is one enumerated input: a decoder name, the peer-controlled bytes (one input or a
// sequence of messages) and the numeric parameters of the call (buffer sizes, limits, chunking).
// It is exactly what a replay file holds.
type Case struct {
	Dec string   `json:"dec"`
	In  Hex      `json:"in,omitempty"`
	Seq []Hex    `json:"seq,omitempty"`
	P   []int64  `json:"p,omitempty"`
	S   []string `json:"s,omitempty"`
}

// Outcome of one case on the real code (when it did not panic).
type Outcome struct {
	Class  string // outcome class for the distinct count (structural shape + result)
	Clause string // "" or the violated clause (stable text: it becomes part of the signature)
	Detail string // specifics of the violation (values), not part of the signature
}

// Exec runs one case on the real code.
type Exec func(c *Case) Outcome

// Fresh returns a copy of b in a new allocation whose capacity equals its length, so that any
// read past the end is an index/slice panic rather than a read of slack.
func Fresh(b []byte) []byte {
	out := make([]byte, len(b))
	copy(out, b)
	return out
}

// Cat concatenates into a fresh exact-size slice.
func Cat(parts ...[]byte) []byte {
	n := 0
	for _, p := range parts {
		n += len(p)
	}
	out := make([]byte, 0, n)
	for _, p := range parts {
		out = append(out, p...)
	}
	return out
}

// Fill returns n bytes of a repeating pattern.
func Fill(n int, pat string) []byte {
	b := make([]byte, n)
	for i := range b {
		b[i] = pat[i%len(pat)]
	}
	return b
}

// Norm removes the input-specific numbers from a panic text so that one defect has one signature.
func Norm(s string) string {
	var sb strings.Builder
	in := false
	for _, r := range s {
		if r >= '0' && r <= '9' {
			if !in {
				sb.WriteByte('N')
				in = true
			}
			continue
		}
		in = false
		sb.WriteRune(r)
	}
	out := sb.String()
	if len(out) > 160 {
		out = out[:160]
	}
	return out
}

// Execute runs one case with panic capture. sig is "" when the case passed.
func Execute(exec Exec, c *Case) (class, sig, detail string) {
	var o Outcome
	val, stack := evidence.Catch(func() { o = exec(c) })
	if val != nil {
		site := evidence.PanicSite(stack)
		text := fmt.Sprint(val)
		if len(stack) > 1800 {
			stack = stack[:1800]
		}
		return "panic", fmt.Sprintf("%s/panic at %s: %s", c.Dec, site, Norm(text)),
			fmt.Sprintf("panic: %s at %s | input: %s | stack: %s", text, site, Brief(c), strings.ReplaceAll(stack, "\n", " ; "))
	}
	if o.Clause != "" {
		return o.Class, c.Dec + "/" + o.Clause, o.Clause + ": " + o.Detail + " | input: " + Brief(c)
	}
	return o.Class, "", ""
}

// Brief renders a case for a detail line.
func Brief(c *Case) string {
	var sb strings.Builder
	if c.In != nil || len(c.Seq) == 0 {
		sb.WriteString(briefHex(c.In))
	}
	for i, m := range c.Seq {
		if i > 0 {
			sb.WriteString(" , ")
		}
		sb.WriteString(briefHex(m))
	}
	if len(c.P) > 0 {
		fmt.Fprintf(&sb, " p=%v", c.P)
	}
	if len(c.S) > 0 {
		fmt.Fprintf(&sb, " s=%q", c.S)
	}
	return sb.String()
}

func briefHex(b []byte) string {
	if len(b) <= 48 {
		return fmt.Sprintf("%x(%d)", b, len(b))
	}
	return fmt.Sprintf("%x..%x(%d)", b[:32], b[len(b)-8:], len(b))
}

// Runner shards cases by index, honours the soft deadline and records results.
type Runner struct {
	Sh      *evidence.Shard
	Unit    string
	Exec    Exec
	env     *evidence.Env
	item    int64
	expired bool
	cur     *evidence.Part
	curT    time.Time
}

func NewRunner(sh *evidence.Shard, unit string, exec Exec) *Runner {
	return &Runner{Sh: sh, Unit: unit, Exec: exec, env: sh.Env()}
}

func (r *Runner) Thorough() bool { return r.env.Thorough() }

// Part opens an enumerated family; the name is prefixed with the unit so that a replay file
// finds its unit.
func (r *Runner) Part(name string, alphabet any, bounds map[string]any) *evidence.Part {
	r.Close()
	p := r.Sh.Part(r.Unit+":"+name, "enum")
	r.cur, r.curT = p, time.Now()
	p.Alphabet = alphabet
	if bounds != nil {
		p.Bounds = bounds
	}
	return p
}

// Close records the wall time of the last part (informational counter max_shard_ms).
func (r *Runner) Close() {
	if r.cur != nil {
		r.cur.Count("max_shard_ms", time.Since(r.curT).Milliseconds())
		r.cur = nil
	}
}

// Stopped reports that the deadline was hit (enumerators should unwind).
func (r *Runner) Stopped() bool { return r.expired }

// Mine advances the case index and reports whether this shard runs the case. After the soft
// deadline nothing runs any more and every part that still had cases is marked non-exhaustive.
func (r *Runner) Mine(p *evidence.Part) bool {
	r.item++
	if !r.expired && r.item&2047 == 0 && r.env.Expired() {
		r.expired = true
	}
	if r.expired {
		if p.Exhaustive {
			p.Exhaustive = false
			p.Note("soft deadline hit in shard %d/%d after %d evaluations of this part (cases are enumerated simplest first; everything before this point was run)", r.env.Shard, r.env.NShards, p.Evaluations)
		}
		return false
	}
	return r.env.Mine(r.item)
}

// Run executes one case (the caller has already asked Mine).
func (r *Runner) Run(p *evidence.Part, c *Case) {
	p.Evaluations++
	class, sig, detail := Execute(r.Exec, c)
	p.Class(c.Dec, "|", class)
	if p.Evaluations%4099 == 1 {
		p.Sample(c)
	}
	if sig != "" {
		p.Count("violating_cases", 1)
		r.Sh.Violate(p.Name, sig, detail, c)
	}
}

// Do = Mine + Run with a lazily built case.
func (r *Runner) Do(p *evidence.Part, mk func() *Case) {
	if r.Mine(p) {
		r.Run(p, mk())
	}
}

// Replay is the Seq.Replay implementation of a unit.
func Replay(unit string, exec Exec) func(part string, raw json.RawMessage) (bool, bool, string) {
	return func(part string, raw json.RawMessage) (bool, bool, string) {
		if !strings.HasPrefix(part, unit+":") {
			return false, false, ""
		}
		var c Case
		if err := json.Unmarshal(raw, &c); err != nil {
			return true, false, "bad replay data: " + err.Error()
		}
		_, sig, detail := Execute(exec, &c)
		if sig == "" {
			return true, false, "case passed: " + Brief(&c)
		}
		return true, true, sig + " :: " + detail
	}
}

// ---------------------------------------------------------------------------------------------
// QUIC varints

// Varint encodes v in exactly w bytes (w in 1,2,4,8); ok=false if it does not fit.
func Varint(v uint64, w int) ([]byte, bool) {
	switch w {
	case 1:
		if v > 63 {
			return nil, false
		}
		return []byte{byte(v)}, true
	case 2:
		if v > 16383 {
			return nil, false
		}
		return []byte{0x40 | byte(v>>8), byte(v)}, true
	case 4:
		if v > 1073741823 {
			return nil, false
		}
		return []byte{0x80 | byte(v>>24), byte(v >> 16), byte(v >> 8), byte(v)}, true
	case 8:
		if v > 4611686018427387903 {
			return nil, false
		}
		return []byte{0xc0 | byte(v>>56), byte(v >> 48), byte(v >> 40), byte(v >> 32), byte(v >> 24), byte(v >> 16), byte(v >> 8), byte(v)}, true
	}
	return nil, false
}

// VarintMin encodes v in its shortest form.
func VarintMin(v uint64) []byte {
	for _, w := range []int{1, 2, 4, 8} {
		if b, ok := Varint(v, w); ok {
			return b
		}
	}
	panic("varint out of range")
}

// ReadVarint is the reference reader: value, width, ok (false = truncated/empty).
func ReadVarint(b []byte) (uint64, int, bool) {
	if len(b) == 0 {
		return 0, 0, false
	}
	w := 1 << (b[0] >> 6)
	if len(b) < w {
		return 0, 0, false
	}
	v := uint64(b[0] & 0x3f)
	for i := 1; i < w; i++ {
		v = v<<8 | uint64(b[i])
	}
	return v, w, true
}

// VarintEncodings returns every encoding (all widths that fit) of every value.
func VarintEncodings(vals []uint64) [][]byte {
	var out [][]byte
	for _, v := range vals {
		for _, w := range []int{1, 2, 4, 8} {
			if b, ok := Varint(v, w); ok {
				out = append(out, b)
			}
		}
	}
	return out
}

// ---------------------------------------------------------------------------------------------
// truncations

// Truncations returns the truncation lengths to run for a message of n bytes: every length
// 0..n when n <= full, otherwise every length within +-2 of each boundary, the first 24 and the
// last 40 lengths, and n itself. The result is sorted and duplicate free.
func Truncations(n, full int, boundaries []int) []int {
	if n <= full {
		out := make([]int, 0, n+1)
		for i := 0; i <= n; i++ {
			out = append(out, i)
		}
		return out
	}
	mark := make([]bool, n+1)
	set := func(i int) {
		if i >= 0 && i <= n {
			mark[i] = true
		}
	}
	for i := 0; i <= 24; i++ {
		set(i)
	}
	for i := n - 40; i <= n; i++ {
		set(i)
	}
	for _, b := range boundaries {
		for d := -2; d <= 2; d++ {
			set(b + d)
		}
	}
	var out []int
	for i, m := range mark {
		if m {
			out = append(out, i)
		}
	}
	return out
}

// DatagramLimits is the set of QUIC datagram limits the fragmenting senders are run with, for a
// message whose header (8 + varint + address) is hdr bytes long: tiny limits, the limits around
// the header size (payload budget 1,2,3,4,8,15,16,17,32 bytes per fragment), the usual
// 1100..1200 range and two large ones. The quick tier thins the two ranges.
func DatagramLimits(hdr int, thorough bool) []int {
	limits := []int{-1, 0}
	if thorough {
		for i := 1; i <= 40; i++ {
			limits = append(limits, i)
		}
	} else {
		limits = append(limits, 1, 2, 8, 9, 10, 11, 12, 40)
	}
	for _, d := range []int{-1, 0, 1, 2, 3, 4, 8, 15, 16, 17, 32} {
		limits = append(limits, hdr+d)
	}
	if thorough {
		for i := 1100; i <= 1200; i++ {
			limits = append(limits, i)
		}
	} else {
		limits = append(limits, 1100, 1199, 1200)
	}
	return append(limits, 1452, 65535)
}

const DatagramLimitsDoc = "-1,0, 1..40 (quick: 1,2,8..12,40), hdr+{-1,0,1,2,3,4,8,15,16,17,32}, 1100..1200 (quick: 1100,1199,1200), 1452, 65535 (hdr = header size for the address length)"
