package c03lib

import (
	"runtime"
	"errors"
	"io"
	"net"
	"time"
)

// ErrScriptEnd is what the scripted connections return once their script is exhausted (the
// stand-in for "the socket was closed"); it ends the retry loops of the receivers under test.
var ErrScriptEnd = errors.New("c03: end of script")

// StreamScript is a scripted byte stream (net.Conn shaped): Data is delivered in the chunks
// given by Cuts (offsets at which a Read ends), then End (default io.EOF) is returned. Writes
// are counted and discarded; the FailWrite-th write (1-based, 0 = never) fails.
type StreamScript struct {
	Data      []byte
	Cuts      []int
	Pos       int
	End       error
	Requested int64 // sum of len(p) over all Read calls
	MaxReq    int   // largest single request
	Reads     int
	Written   int64
	Writes    int
	FailWrite int
	// Endless: after Data, keep delivering zero bytes without copying (an uploader that
	// never stops); reads then never fail.
	Endless bool
}

func (s *StreamScript) Read(p []byte) (int, error) {
	s.Reads++
	s.Requested += int64(len(p))
	if len(p) > s.MaxReq {
		s.MaxReq = len(p)
	}
	if s.Pos >= len(s.Data) {
		if s.Endless {
			return len(p), nil
		}
		if s.End != nil {
			return 0, s.End
		}
		return 0, io.EOF
	}
	end := len(s.Data)
	for _, c := range s.Cuts {
		if c > s.Pos {
			if c < end {
				end = c
			}
			break
		}
	}
	n := copy(p, s.Data[s.Pos:end])
	s.Pos += n
	return n, nil
}

func (s *StreamScript) Write(p []byte) (int, error) {
	s.Writes++
	if s.FailWrite > 0 && s.Writes >= s.FailWrite {
		return 0, io.ErrClosedPipe
	}
	s.Written += int64(len(p))
	return len(p), nil
}

func (s *StreamScript) Close() error                       { return nil }
func (s *StreamScript) LocalAddr() net.Addr                { return &net.TCPAddr{IP: net.IPv4(127, 0, 0, 1), Port: 1} }
func (s *StreamScript) RemoteAddr() net.Addr               { return &net.TCPAddr{IP: net.IPv4(127, 0, 0, 1), Port: 2} }
func (s *StreamScript) SetDeadline(t time.Time) error      { return nil }
func (s *StreamScript) SetReadDeadline(t time.Time) error  { return nil }
func (s *StreamScript) SetWriteDeadline(t time.Time) error { return nil }

// Datagram is one scripted datagram.
type Datagram struct {
	Data []byte
	From net.Addr
}

// PacketScript is a scripted net.PacketConn: ReadFrom hands out the queued datagrams (copied
// into the caller's buffer, cut to its length as a UDP socket does), then ErrScriptEnd.
type PacketScript struct {
	Queue   []Datagram
	Next    int
	Sent    [][]byte
	MaxBuf  int // largest buffer a reader offered
	MinBuf  int
	ReadCnt int
	// Depths: call-stack depth at every read of the socket. A receive loop that skips invalid
	// datagrams must do so at constant stack depth: frames that pile up per skipped datagram end in
	// a fatal stack overflow under a flood of junk (seeded change C03-7: retry by recursion).
	Depths []int
}

// StackGrows reports whether, among the socket reads with index >= from, at least three
// consecutive ones were each made from a deeper stack than the one before.
func (c *PacketScript) StackGrows(from int) (bool, []int) {
	run := 1
	for i := from + 1; i < len(c.Depths); i++ {
		if c.Depths[i] > c.Depths[i-1] {
			run++
			if run >= 3 {
				return true, c.Depths[from:]
			}
		} else {
			run = 1
		}
	}
	return false, nil
}

func (c *PacketScript) ReadFrom(p []byte) (int, net.Addr, error) {
	c.ReadCnt++
	var pcs [256]uintptr
	c.Depths = append(c.Depths, runtime.Callers(0, pcs[:]))
	if len(p) > c.MaxBuf {
		c.MaxBuf = len(p)
	}
	if c.Next >= len(c.Queue) {
		return 0, nil, ErrScriptEnd
	}
	d := c.Queue[c.Next]
	c.Next++
	n := copy(p, d.Data)
	return n, d.From, nil
}

func (c *PacketScript) WriteTo(p []byte, addr net.Addr) (int, error) {
	c.Sent = append(c.Sent, Fresh(p))
	return len(p), nil
}

func (c *PacketScript) Close() error                       { return nil }
func (c *PacketScript) LocalAddr() net.Addr                { return &net.UDPAddr{IP: net.IPv4(127, 0, 0, 1), Port: 9} }
func (c *PacketScript) SetDeadline(t time.Time) error      { return nil }
func (c *PacketScript) SetReadDeadline(t time.Time) error  { return nil }
func (c *PacketScript) SetWriteDeadline(t time.Time) error { return nil }
