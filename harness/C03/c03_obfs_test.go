package obfs

// C03 harness, unit "obfs" (injected into extras/obfs): Salamander de-obfuscation, the
// obfuscating PacketConn's receive loop, the Gecko frame decoder and the Gecko reassembling
// receiver (through the full WrapPacketConnGecko stack on a scripted socket).

import (
	"bytes"
	"errors"
	"fmt"
	"net"
	"testing"

	"golang.org/x/crypto/blake2b"

	"verif.local/engine/enum"
	"verif.local/engine/evidence"
	"verif.local/harness/C03/c03lib"
)

const c03Unit = "obfs"

var c03PSK = []byte("c03-pre-shared-key")

// reference Salamander (PROTOCOL.md / package doc: [8-byte salt][payload XOR BLAKE2b-256(psk||salt)])
func c03Sal(salt [8]byte, payload []byte) []byte {
	key := blake2b.Sum256(append(append([]byte{}, c03PSK...), salt[:]...))
	out := make([]byte, 8+len(payload))
	copy(out, salt[:])
	for i, c := range payload {
		out[8+i] = c ^ key[i%32]
	}
	return out
}

func c03Unsal(wire []byte) []byte {
	var salt [8]byte
	copy(salt[:], wire[:8])
	return c03Sal(salt, wire[8:])[8:]
}

func c03Exec(c *c03lib.Case) c03lib.Outcome {
	switch c.Dec {
	case "obfs.salamander.Deobfuscate":
		return c03Deobf(c03lib.Fresh(c.In), int(c.P[0]))
	case "obfs.obfsPacketConn.ReadFrom":
		return c03ConnRead(c.Seq, int(c.P[0]))
	case "obfs.decodeFrame":
		return c03Decode(c03lib.Fresh(c.In))
	case "obfs.geckoPacketConn.ReadFrom":
		return c03Gecko(c.Seq, int(c.P[0]), c.P[1:])
	}
	return c03lib.Outcome{Clause: "unknown decoder", Detail: c.Dec}
}

func c03Deobf(in []byte, outLen int) c03lib.Outcome {
	ob, err := newSalamanderObfuscator(c03PSK)
	if err != nil {
		return c03lib.Outcome{Clause: "cannot build the obfuscator"}
	}
	orig := c03lib.Fresh(in)
	out := make([]byte, outLen)
	n := ob.Deobfuscate(in, out)
	cls := fmt.Sprintf("in=%d|out=%d|n=%d", len(in), min(outLen, 40), n)
	if len(orig) <= 8 || outLen < len(orig)-8 {
		if n != 0 {
			return c03lib.Outcome{Class: cls, Clause: "packet without payload or larger than the buffer not dropped", Detail: fmt.Sprint(n)}
		}
		return c03lib.Outcome{Class: cls}
	}
	if n != len(orig)-8 || !bytes.Equal(out[:n], c03Unsal(orig)) {
		return c03lib.Outcome{Class: cls, Clause: "de-obfuscated payload differs from the specification", Detail: fmt.Sprint(n)}
	}
	return c03lib.Outcome{Class: cls}
}

var c03AddrA = &net.UDPAddr{IP: net.IPv4(198, 51, 100, 1), Port: 1001}
var c03AddrB = &net.UDPAddr{IP: net.IPv4(198, 51, 100, 2), Port: 1002}
var c03AddrC = &net.UDPAddr{IP: net.IPv4(198, 51, 100, 3), Port: 1003}

func c03ConnRead(seq []c03lib.Hex, pLen int) c03lib.Outcome {
	sc := &c03lib.PacketScript{}
	var want [][]byte
	for _, d := range seq {
		sc.Queue = append(sc.Queue, c03lib.Datagram{Data: c03lib.Fresh(d), From: c03AddrA})
		eff := d
		if len(eff) > udpBufferSize {
			eff = eff[:udpBufferSize] // the socket cuts the datagram to the read buffer
		}
		if len(eff) > 8 && len(eff)-8 <= pLen {
			want = append(want, c03Unsal(eff))
		}
	}
	sentinel := []byte("still-alive")
	var salt [8]byte
	sc.Queue = append(sc.Queue, c03lib.Datagram{Data: c03Sal(salt, sentinel), From: c03AddrB})
	if pLen >= len(sentinel) {
		want = append(want, sentinel)
	}
	conn, err := WrapPacketConnSalamander(sc, c03PSK)
	if err != nil {
		return c03lib.Outcome{Clause: "cannot wrap"}
	}
	var got [][]byte
	cls := ""
	for i := 0; i < len(seq)+3; i++ {
		p := make([]byte, pLen)
		mark := len(sc.Depths)
		n, _, err := conn.ReadFrom(p)
		if grows, depths := sc.StackGrows(mark); grows {
			return c03lib.Outcome{Class: cls, Clause: "the receive loop's stack grows with every invalid datagram it skips (a flood of junk ends in a fatal stack overflow)", Detail: fmt.Sprint(depths)}
		}
		if err != nil {
			if !errors.Is(err, c03lib.ErrScriptEnd) {
				return c03lib.Outcome{Class: cls, Clause: "receive loop fails with its own error", Detail: err.Error()}
			}
			cls += "E"
			break
		}
		if n < 0 || n > pLen {
			return c03lib.Outcome{Class: cls, Clause: "ReadFrom returned an impossible length", Detail: fmt.Sprint(n)}
		}
		if n == 0 {
			cls += "0" // an empty datagram on the socket is passed up as an empty read (quic-go ignores those)
			continue
		}
		cls += "d"
		got = append(got, c03lib.Fresh(p[:n]))
	}
	if len(got) != len(want) {
		return c03lib.Outcome{Class: cls, Clause: "valid datagrams lost or junk delivered by the receive loop", Detail: fmt.Sprintf("got %d want %d", len(got), len(want))}
	}
	for i := range got {
		if !bytes.Equal(got[i], want[i]) {
			return c03lib.Outcome{Class: cls, Clause: "delivered datagram differs from the de-obfuscated wire bytes", Detail: fmt.Sprint(i)}
		}
	}
	return c03lib.Outcome{Class: cls}
}

// reference Gecko frame decoder, from the wire layout in the package documentation
func c03RefFrame(in []byte) (ok bool, msgID, idx, total uint8, payload []byte) {
	if len(in) < 5 || in[0]&0x80 == 0 {
		return false, 0, 0, 0, nil
	}
	idx, total = in[2]>>4, in[2]&0x0f
	if total < 2 || total > 8 || idx >= total {
		return false, 0, 0, 0, nil
	}
	pad := int(in[3])<<8 | int(in[4])
	if 5+pad > len(in) {
		return false, 0, 0, 0, nil
	}
	return true, in[1], idx, total, in[5+pad:]
}

func c03Decode(in []byte) c03lib.Outcome {
	orig := c03lib.Fresh(in)
	h, pl, err := decodeFrame(in)
	ok, id, idx, total, rpl := c03RefFrame(orig)
	cls := fmt.Sprintf("len=%d|ok=%v", min(len(in), 8), err == nil)
	if ok != (err == nil) {
		if ok {
			return c03lib.Outcome{Class: cls, Clause: "well-formed frame rejected", Detail: err.Error()}
		}
		return c03lib.Outcome{Class: cls, Clause: "malformed frame accepted", Detail: fmt.Sprintf("%+v", h)}
	}
	if err == nil && (h.msgID != id || h.chunkIdx != idx || h.totalChunks != total || !bytes.Equal(pl, rpl)) {
		return c03lib.Outcome{Class: cls, Clause: "decoded frame differs from the wire bytes", Detail: fmt.Sprintf("%+v", h)}
	}
	return c03lib.Outcome{Class: cls}
}

// c03Frame builds a gecko frame (before Salamander).
func c03Frame(msgID, idx, total uint8, pad int, payload string) []byte {
	return c03lib.Cat([]byte{0x80, msgID, idx<<4 | total&0x0f, byte(pad >> 8), byte(pad)}, c03lib.Fill(pad, "\xee"), []byte(payload))
}

// Gecko sequence item: first byte = source (0 A, 1 B, 2 C, 0x10+k: generated source k), then the
// plaintext carried inside Salamander (a gecko frame, a short-header packet, junk). A first byte
// of 0xff means "raw datagram" (not even Salamander framed).
func c03GeckoAddr(b byte, extra int64) *net.UDPAddr {
	switch b {
	case 0:
		return c03AddrA
	case 1:
		return c03AddrB
	case 2:
		return c03AddrC
	}
	return &net.UDPAddr{IP: net.IPv4(10, byte(extra>>16), byte(extra>>8), byte(extra)), Port: 4000}
}

// c03Gecko: P = [pLen, directed mode, k]. Directed modes generate the long histories that reach
// the per-source cap (mode 1: k incomplete messages from source A) and the global cap (mode 2:
// k incomplete messages from k distinct sources) before the enumerated sequence is played.
func c03Gecko(seq []c03lib.Hex, pLen int, dir []int64) c03lib.Outcome {
	sc := &c03lib.PacketScript{}
	var salt [8]byte
	push := func(from *net.UDPAddr, plain []byte) {
		salt[7]++
		sc.Queue = append(sc.Queue, c03lib.Datagram{Data: c03Sal(salt, plain), From: from})
	}
	if len(dir) == 2 {
		for i := int64(0); i < dir[1]; i++ {
			if dir[0] == 1 {
				push(c03AddrA, c03Frame(uint8(100+i), 0, 2, 0, "q"))
			} else {
				push(c03GeckoAddr(0x10, i), c03Frame(7, 0, 3, 0, "q"))
			}
		}
	}
	passthrough := 0
	for _, it := range seq {
		if len(it) == 0 {
			continue
		}
		if it[0] == 0xff {
			sc.Queue = append(sc.Queue, c03lib.Datagram{Data: c03lib.Fresh(it[1:]), From: c03AddrA})
			continue
		}
		push(c03GeckoAddr(it[0], 0), it[1:])
		if len(it) > 1 && it[1]&0x80 == 0 {
			passthrough++
		}
	}
	// service continues: a short-header packet passes, a fresh 2-chunk message from another
	// source reassembles
	push(c03AddrC, []byte{0x40, 'o', 'k'})
	push(c03AddrC, c03Frame(200, 1, 2, 3, "LD"))
	push(c03AddrC, c03Frame(200, 0, 2, 0, "WOR"))
	conn, err := WrapPacketConnGecko(sc, GeckoOptions{Password: c03PSK})
	if err != nil {
		return c03lib.Outcome{Clause: "cannot wrap"}
	}
	defer conn.Close()
	cls := ""
	sawShort, sawMsg := false, false
	for i := 0; i < len(sc.Queue)+2; i++ {
		p := make([]byte, pLen)
		mark := len(sc.Depths)
		n, from, err := conn.ReadFrom(p)
		if grows, depths := sc.StackGrows(mark); grows {
			return c03lib.Outcome{Class: cls, Clause: "the receive loop's stack grows with every datagram it consumes without returning (a flood ends in a fatal stack overflow)", Detail: fmt.Sprint(depths)}
		}
		if err != nil {
			if !errors.Is(err, c03lib.ErrScriptEnd) {
				return c03lib.Outcome{Class: cls, Clause: "receive loop fails with its own error", Detail: err.Error()}
			}
			break
		}
		if n < 0 || n > pLen {
			return c03lib.Outcome{Class: cls, Clause: "ReadFrom returned an impossible length", Detail: fmt.Sprint(n)}
		}
		if len(cls) < 8 {
			cls += "d"
		}
		if ua, _ := from.(*net.UDPAddr); ua == c03AddrC {
			switch {
			case bytes.Equal(p[:n], []byte{0x40, 'o', 'k'}[:min(pLen, 3)]) && !sawShort:
				sawShort = true
			case bytes.Equal(p[:n], []byte("WORLD")[:min(pLen, 5)]):
				sawMsg = true
			}
		}
	}
	if !sawShort {
		return c03lib.Outcome{Class: cls, Clause: "short-header packet not passed through after the sequence"}
	}
	if !sawMsg {
		return c03lib.Outcome{Class: cls, Clause: "fresh fragmented message not reassembled after the sequence"}
	}
	g := conn.(*geckoPacketConn)
	g.mu.Lock()
	nre, nsrc := len(g.reassembly), 0
	for _, v := range g.perSource {
		nsrc += v
	}
	g.mu.Unlock()
	if nre != nsrc || nre > geckoMaxReassembly {
		return c03lib.Outcome{Class: cls, Clause: "reassembly bookkeeping inconsistent", Detail: fmt.Sprintf("%d entries, per-source sum %d", nre, nsrc)}
	}
	return c03lib.Outcome{Class: cls + fmt.Sprintf("|re=%d", min(nre, 9))}
}

func c03Enumerate(sh *evidence.Shard) {
	r := c03lib.NewRunner(sh, c03Unit, c03Exec)
	defer r.Close()
	th := r.Thorough()

	// --- Salamander ------------------------------------------------------------------------------
	p := r.Part("Deobfuscate/lengths", map[string]any{"in_len": "0..24, 2047, 2048, 2049", "out_len": "0,1,in-9,in-8,in-7,2048", "content": "00.. / ff.."}, nil)
	inLens := []int{2047, 2048, 2049}
	for i := 0; i <= 24; i++ {
		inLens = append(inLens, i)
	}
	for _, il := range inLens {
		for _, ol := range []int{0, 1, il - 9, il - 8, il - 7, 2048} {
			if ol < 0 {
				continue
			}
			for _, fill := range []string{"\x00", "\xff"} {
				r.Do(p, func() *c03lib.Case {
					return &c03lib.Case{Dec: "obfs.salamander.Deobfuscate", In: c03lib.Fill(il, fill), P: []int64{int64(ol)}}
				})
			}
		}
	}

	sizes := []int{0, 1, 7, 8, 9, 10, 2048, 2049, 4096}
	d := 2
	if th {
		d = 3
	}
	p = r.Part("obfsPacketConn.ReadFrom/sequences", map[string]any{"datagram_len": sizes, "max_depth": d, "caller_buffer": []int{0, 1, 2, 1200, 2048}, "then": "a valid datagram, then socket closed"}, map[string]any{"max_depth": d})
	enum.Sequences(len(sizes), d, func(seq []int) bool {
		for _, pl := range []int64{0, 1, 2, 1200, 2048} {
			r.Do(p, func() *c03lib.Case {
				c := &c03lib.Case{Dec: "obfs.obfsPacketConn.ReadFrom", P: []int64{pl}}
				for _, i := range seq {
					c.Seq = append(c.Seq, c03lib.Hex(c03lib.Fill(sizes[i], "\x5a\xa5\x00\xff")))
				}
				return c
			})
		}
		return !r.Stopped()
	})
	// long runs of invalid datagrams in front of a valid one
	for _, n := range []int{3, 16, 300} {
		for _, jl := range []int{0, 4, 8} {
			r.Do(p, func() *c03lib.Case {
				c := &c03lib.Case{Dec: "obfs.obfsPacketConn.ReadFrom", P: []int64{1200}}
				for i := 0; i < n; i++ {
					c.Seq = append(c.Seq, c03lib.Hex(c03lib.Fill(jl, "\x5a\xa5\x00\xff")))
				}
				return c
			})
		}
	}

	// --- decodeFrame -------------------------------------------------------------------------------
	// bytes: flag 00/7f/80/ff; chunk byte idx<<4|total with total 1/2/8/9 and idx around total
	// (01 02 08 09 12 22 78 88); pad lengths 00 01 02 05 06 ff
	sg := []byte{0x00, 0x01, 0x02, 0x05, 0x06, 0x08, 0x09, 0x12, 0x22, 0x78, 0x7f, 0x80, 0x88, 0xff}
	L := 5
	if th {
		L = 6
	}
	p = r.Part("decodeFrame/strings", map[string]any{"alphabet": fmt.Sprintf("%x", sg), "max_len": L, "prefix": "none; for length > 5 also after the valid header 80 00 02"}, map[string]any{"max_len": L})
	enum.Strings(sg, L, func(b []byte) bool {
		r.Do(p, func() *c03lib.Case { return &c03lib.Case{Dec: "obfs.decodeFrame", In: c03lib.Fresh(b)} })
		return !r.Stopped()
	})
	enum.Strings(sg, L-1, func(b []byte) bool {
		r.Do(p, func() *c03lib.Case { return &c03lib.Case{Dec: "obfs.decodeFrame", In: c03lib.Cat([]byte{0x80, 0x00, 0x02}, b)} })
		return !r.Stopped()
	})
	p = r.Part("decodeFrame/fields", map[string]any{"flag": "00,7f,80,81,ff", "msg_id": "00,ff", "chunk_byte": "all 256", "frame_len": []int{5, 6, 7, 20}, "pad_len": "0,1,len-6,len-5,len-4,65535"}, nil)
	for _, fl := range []byte{0x00, 0x7f, 0x80, 0x81, 0xff} {
		for _, id := range []byte{0, 0xff} {
			for cb := 0; cb < 256; cb++ {
				for _, n := range []int{5, 6, 7, 20} {
					for _, pad := range []int{0, 1, n - 6, n - 5, n - 4, 65535} {
						if pad < 0 {
							continue
						}
						r.Do(p, func() *c03lib.Case {
							b := c03lib.Fill(n, "\x33")
							b[0], b[1], b[2], b[3], b[4] = fl, id, byte(cb), byte(pad>>8), byte(pad)
							return &c03lib.Case{Dec: "obfs.decodeFrame", In: b}
						})
					}
				}
			}
		}
	}

	// --- Gecko receiver ------------------------------------------------------------------------------
	mk := func(srcs []byte, ids []uint8, its [][2]uint8, pays []string) [][]byte {
		out := [][]byte{
			{0, 0x80},                            // flag only
			{0, 0x80, 1, 0x01, 0, 0},             // total 1
			{0, 0x80, 1, 0x22, 0, 0, 'x'},        // idx >= total
			{0, 0x80, 1, 0x02, 0, 9, 'x'},        // padding longer than the frame
			{0, 0x40, 's', 'h'},                  // short-header packet
			{0xff, 1, 2, 3},                      // shorter than the Salamander salt
			{0xff, 1, 2, 3, 4, 5, 6, 7, 8},       // salt only
			{0xff},                               // empty datagram
			append([]byte{0}, c03Frame(3, 0, 2, 1200, string(c03lib.Fill(800, "L")))...), // long chunk
		}
		for _, s := range srcs {
			for _, id := range ids {
				for _, it := range its {
					for _, pl := range pays {
						out = append(out, append([]byte{s}, c03Frame(id, it[0], it[1], 0, pl)...))
					}
				}
			}
		}
		return out
	}
	type cfg struct {
		name  string
		alpha [][]byte
		depth int
		desc  map[string]any
	}
	gp := []string{"p"}
	if th {
		gp = []string{"", "p"}
	}
	a3 := mk([]byte{0, 1}, []uint8{0, 1}, [][2]uint8{{0, 2}, {1, 2}, {0, 3}, {2, 3}, {7, 8}}, gp)
	cfgs := []cfg{{"geckoPacketConn.ReadFrom/seq3", a3, 3, map[string]any{"sources": "A, B", "msg_id": []int{0, 1}, "idx/total": "0/2,1/2,0/3,2/3,7/8", "payload_len": "1 (thorough: 0, 1)",
		"other": "flag only, total 1, idx>=total, padding beyond frame, short-header packet, 3-byte datagram, salt-only datagram, empty datagram, 1200 padding + 800 payload", "messages": len(a3), "caller_buffer": []int{2048}, "max_depth": 3}}}
	if th {
		a4 := mk([]byte{0, 1}, []uint8{0}, [][2]uint8{{0, 2}, {1, 2}, {0, 3}, {1, 3}, {2, 3}}, []string{"p"})
		cfgs = append(cfgs, cfg{"geckoPacketConn.ReadFrom/seq4", a4, 4, map[string]any{"sources": "A, B", "msg_id": []int{0}, "idx/total": "0/2,1/2,0/3,1/3,2/3", "payload_len": []int{1}, "other": "as seq3", "messages": len(a4), "max_depth": 4}})
	}
	for _, cf := range cfgs {
		p := r.Part(cf.name, cf.desc, map[string]any{"max_depth": cf.depth})
		enum.Sequences(len(cf.alpha), cf.depth, func(seq []int) bool {
			r.Do(p, func() *c03lib.Case {
				c := &c03lib.Case{Dec: "obfs.geckoPacketConn.ReadFrom", P: []int64{2048}}
				for _, i := range seq {
					c.Seq = append(c.Seq, c03lib.Hex(cf.alpha[i]))
				}
				return c
			})
			return !r.Stopped()
		})
	}
	p = r.Part("geckoPacketConn.ReadFrom/caps", map[string]any{"per_source_cap (geckoMaxPerSource=8, real value)": "7,8,9,10 incomplete messages from one source", "global_cap (geckoMaxReassembly=4096, real value)": "4095,4096,4097,4100 incomplete messages from distinct sources",
		"then": "every sequence of <= 1 message of the seq3 alphabet", "caller_buffer": []int{0, 1, 2048}}, nil)
	for _, dir := range [][2]int64{{1, 7}, {1, 8}, {1, 9}, {1, 10}, {2, 4095}, {2, 4096}, {2, 4097}, {2, 4100}} {
		enum.Sequences(len(a3), 1, func(seq []int) bool {
			if dir[0] == 2 && len(seq) == 1 && seq[0]%7 != 0 && !th {
				return true
			}
			for _, pl := range []int64{0, 1, 2048} {
				if dir[0] == 2 && pl != 2048 {
					continue
				}
				r.Do(p, func() *c03lib.Case {
					c := &c03lib.Case{Dec: "obfs.geckoPacketConn.ReadFrom", P: []int64{pl, dir[0], dir[1]}}
					for _, i := range seq {
						c.Seq = append(c.Seq, c03lib.Hex(a3[i]))
					}
					return c
				})
			}
			return true
		})
	}
}

func TestVerifC03Obfs(t *testing.T) {
	evidence.Main(t, "C03", evidence.Seq{Run: c03Enumerate, Replay: c03lib.Replay(c03Unit, c03Exec)})
}
