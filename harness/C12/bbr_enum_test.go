package bbr

// C12 harness, part 2: bounded-exhaustive enumeration of macro-event sequences over
// profile x path (x PROBE_BW cycle-offset draw), the loss-free clause, sharding, replay.

import (
	"encoding/json"
	"fmt"
	"os"
	"runtime/debug"
	"strconv"
	"testing"
	"time"

	"verif.local/engine/enum"
	"verif.local/engine/evidence"
	"verif.local/engine/vrand"
	"verif.local/engine/vsched"
)

// Values math/rand.Int31n(10000) is made to return in enterProbeBandwidthMode: one per residue
// mod 7 (every start offset 0,2..7 of the gain cycle), the first value that wraps (7) and the
// largest value the call can return. c12Draws[0] is used where only one draw is enumerated.
var c12Draws = []int64{7, 0, 1, 2, 3, 4, 5, 6, 9999}

type c12Chooser struct{}

func (c12Chooser) Choose(c *vsched.Choice) int { return 0 }

// c12Owned runs f inside one vsched execution so that the rewritten math/rand calls of the
// package under test are served by the harness source.
func c12Owned(f func()) (infra string) {
	o := vsched.Run(c12Chooser{}, vsched.Options{MaxSteps: 1 << 30, WallLimit: 48 * time.Hour}, func() {
		vrand.SetSource(vsched.Cur(), func(e *vsched.Exec, tag string, bound int64) int64 {
			c12DrawCnt++
			if bound > 0 && c12DrawVal >= bound {
				return c12DrawVal % bound
			}
			return c12DrawVal
		})
		f()
	})
	if o.Kind != "ok" {
		return fmt.Sprintf("harness execution ended with %s: %s\n%s", o.Kind, o.Detail, o.Stack)
	}
	return ""
}

type c12Space struct {
	part    string
	paths   []int // indices into c12Paths, -1 = long fat path
	maxPkts int64
	prefix  []int
	depth   int  // all sequences of <= depth macro-events
	drawsTo int  // sequences of <= drawsTo macro-events are run with every draw (if they consume one)
	rootLen int  // prefix-sharing walk: sequences of this length are the roots of the work items
	skipDef bool // from-scratch enumeration: the first draw was already covered by the walk
}

func c12Sig(c *c12Case, clause string, drawUsed bool) string {
	d := "-"
	if drawUsed {
		d = fmt.Sprint(c.Draw)
	}
	pre := ""
	if len(c.Prefix) > 0 {
		pre = "prefix=" + c12SeqNames(c.Prefix) + "/"
	}
	if c.RTTs > 0 {
		return fmt.Sprintf("%s/%s/%s/%s/%sclean-%d-rtt/draw=%s", c.Part, clause, c.Profile, c12PathOf(c.Path).Name, pre, c.RTTs, d)
	}
	if c.Burst > 0 {
		return fmt.Sprintf("%s/%s/%s/%s/prefix=%s/burst=%dpkt,send-gap=%dns,ack-gap=%dns,in-flight-on-send-excludes-packet=%v/seq=%s", c.Part, clause, c.Profile, c12PathOf(c.Path).Name, c12SeqNames(c.Prefix), c.Burst, c.SendGapNs, c.AckGapNs, c.PriorOnSend, c12SeqNames(c.Seq))
	}
	if c.Raise > 0 {
		return fmt.Sprintf("%s/%s/%s/%s/prefix=%s/window=%s,recovery=%q,raise=+%d/seq=%s", c.Part, clause, c.Profile, c12PathOf(c.Path).Name, c12SeqNames(c.Prefix), c.ForceWin, c.ForceRec, c.Raise, c12SeqNames(c.Seq))
	}
	return fmt.Sprintf("%s/%s/%s/%s/%sseq=%s/draw=%s", c.Part, clause, c.Profile, c12PathOf(c.Path).Name, pre, c12SeqNames(c.Seq), d)
}

// c12Minimal re-enumerates the space of one profile x path in canonical order (shortest sequence
// first, draws in c12Draws order) and returns the first case violating the same clause, so that
// every shard reports the same minimal case for it.
func c12Minimal(sp *c12Space, found *c12Case, clause string) (c12Case, c12Result) {
	var best c12Case
	var bestRes c12Result
	ok := false
	enum.Sequences(c12NEv, len(found.Seq), func(seq []int) bool {
		for di, dv := range c12Draws {
			if di > 0 && len(seq) > sp.drawsTo {
				break
			}
			c := *found
			c.Seq = append([]int{}, seq...)
			c.Draw = dv
			r := c12Run(&c)
			if r.clause == clause {
				best, bestRes, ok = c, r, true
				return false
			}
			if !r.drawUsed {
				break
			}
		}
		return true
	})
	if !ok {
		return *found, c12Run(found)
	}
	return best, bestRes
}

type c12Agg struct {
	sh        *evidence.Shard
	reported  map[string]bool
	walkNodes int64
}

func (a *c12Agg) observe(p *evidence.Part, c *c12Case, r *c12Result) {
	p.Evaluations++
	s := r.sim
	if s == nil {
		return
	}
	p.Class(c.Profile, c.Path, c.MaxPkts, r.shape, s.lossOnly > 0, s.ptos > 0, s.mtuRaises, len(s.gaps) > 0, s.tailDrops > 0, r.clause)
	p.Count("congestion_events", s.events)
	p.Count("packets_sent", s.sentPkts)
	p.Count("loss_only_events", s.lossOnly)
	p.Count("pto_probes", s.ptos)
	p.Count("datagram_size_raises", s.mtuRaises)
	p.Count("tail_drops", s.tailDrops)
	p.Count("ack_only_packets", s.ackOnly)
	p.Count("events_with_window_at_four_datagrams", s.atFloor)
	p.Count("events_with_window_within_one_datagram_of_max", s.atCeil)
	if r.drawUsed {
		p.Count("traces_consuming_cycle_offset_draw", 1)
	}
	for m := 0; m < 4; m++ {
		for rc := 0; rc < 3; rc++ {
			if n := s.modeSeen[m][rc]; n > 0 {
				p.Count(fmt.Sprintf("events_mode_%s_recovery_%d", c12ModeNames[m], rc), n)
			}
		}
	}
	if s.maxSlots > p.Counters["max_state_map_slots"] {
		p.Count("max_state_map_slots", s.maxSlots-p.Counters["max_state_map_slots"])
	}
	if s.maxA0 > p.Counters["max_a0_candidates"] {
		p.Count("max_a0_candidates", s.maxA0-p.Counters["max_a0_candidates"])
	}
}

func (a *c12Agg) violate(sp *c12Space, p *evidence.Part, c *c12Case, r *c12Result) {
	key := fmt.Sprintf("%s|%s|%d|%s", sp.part, c.Profile, c.Path, r.clause)
	if a.reported[key] {
		p.Count("further_violating_traces_not_listed", 1)
		return
	}
	a.reported[key] = true
	mc, mr := *c, *r
	if c.RTTs == 0 {
		mc, mr = c12Minimal(sp, c, r.clause)
	}
	a.sh.Violate(p.Name, c12Sig(&mc, mr.clause, mr.drawUsed), mr.detail, &mc)
}

func c12EnumSpace(a *c12Agg, sp *c12Space, item *int64) {
	sh := a.sh
	env := sh.Env()
	p := sh.Part(sp.part, "enum")
	names := make([]string, 0, len(sp.paths))
	for _, pi := range sp.paths {
		names = append(names, c12PathOf(pi).Name)
	}
	p.Alphabet = map[string]any{
		"profiles": c12Profiles, "paths": names, "macro_events": c12EvNames, "prefix": c12SeqNames(sp.prefix),
		"max_window_packets": sp.maxPkts, "cycle_offset_draws": c12Draws,
	}
	if !sp.skipDef {
		p.Bounds = map[string]any{"max_macro_events": sp.depth, "all_draws_up_to_macro_events": sp.drawsTo, "single_draw_beyond": c12Draws[0]}
	}
	doneLen := -1
	stopped := false
	enum.Sequences(c12NEv, sp.depth, func(seq []int) bool {
		if len(seq)-1 > doneLen && !stopped {
			doneLen = len(seq) - 1
		}
		for _, prof := range c12Profiles {
			for _, pi := range sp.paths {
				*item++
				if !env.Mine(*item) {
					continue
				}
				if *item&63 == 0 && env.Expired() {
					stopped = true
					return false
				}
				for di, dv := range c12Draws {
					if di > 0 && len(seq) > sp.drawsTo {
						break
					}
					c := c12Case{Part: sp.part, Profile: string(prof), Path: pi, MaxPkts: sp.maxPkts, Prefix: sp.prefix, Seq: append([]int{}, seq...), Draw: dv}
					r := c12Run(&c)
					if di == 0 && sp.skipDef {
						// evaluated by the prefix-sharing walk; run here only to learn whether a draw is consumed
						if !r.drawUsed || r.clause != "" || r.infra != "" {
							break
						}
						continue
					}
					a.observe(p, &c, &r)
					if p.Evaluations%9973 == 1 {
						p.Sample(map[string]any{"profile": c.Profile, "path": c12PathOf(pi).Name, "seq": c12SeqNames(seq), "draw": dv, "modes": r.shape, "events": r.sim.events})
					}
					if r.infra != "" {
						sh.InfraError("%s: %s", c12Sig(&c, "infra", r.drawUsed), r.infra)
						return false
					}
					if r.clause != "" {
						a.violate(sp, p, &c, &r)
					}
					if !r.drawUsed {
						break // the trace never reached PROBE_BW: identical for every draw
					}
				}
			}
		}
		return true
	})
	if stopped {
		p.Exhaustive = false
		p.Note("deadline reached: with every draw, every sequence of <= %d macro-events was completed for all profiles and paths; longer ones only partly", doneLen)
	}
}

// c12LossFreeWarm: what the sender went through, loss-free, before the measured greedy run.
func c12LossFreeWarm(thorough bool) [][]int {
	w := [][]int{{}}
	for i := range c12Pings {
		w = append(w, []int{c12NEv + i})
	}
	for i := range c12Pings {
		w = append(w, []int{c12EvClean12, c12EvClean12, c12EvClean12, c12NEv + i}) // on an established connection
	}
	w = append(w, []int{c12EvApp}, []int{c12EvClean12, c12EvApp}, []int{c12EvIdle}, []int{c12EvClean12, c12EvClean12, c12EvIdle}, []int{c12EvClean12, c12EvAgg, c12EvApp, c12NEv + 2})
	// the sender installed in the middle of a live connection: packets of the previous controller
	// are acknowledged to it first (added after the independently seeded change C12-8: a round
	// without any bandwidth estimate counted as a round without growth, so STARTUP ended before the
	// first sample). Quick: one packet per event while idle, every number of events; the extremes
	// of the rest.
	for i, g := range c12Earliers {
		if thorough || (!g.Busy && g.J == 1) || g.K == 1 || g.K == 6 {
			w = append(w, []int{c12NEv + len(c12Pings) + i})
		}
	}
	return w
}

// c12WarmIsInstall: the warm-up is a mid-connection installation (run on every path: it involves no
// application-limited exchange, so the assumption on acknowledgement frequency does not apply).
func c12WarmIsInstall(w []int) bool { return len(w) > 0 && w[0] >= c12NEv+len(c12Pings) }

func c12LossFree(a *c12Agg, item *int64) {
	sh := a.sh
	env := sh.Env()
	p := sh.Part("loss-free", "enum")
	names := make([]string, 0, len(c12Paths))
	for i := range c12Paths {
		names = append(names, c12Paths[i].Name)
	}
	warm := c12LossFreeWarm(env.Thorough())
	var wn []string
	for _, w := range warm {
		wn = append(wn, c12SeqNames(w))
	}
	p.Alphabet = map[string]any{"profiles": c12Profiles, "paths": names, "cycle_offset_draws": c12Draws,
		"before_the_run": wn,
		"installed-mid-connection:KxJpkt-of-previous-controller-acked-while-idle|sending": "first event of the trace: K*J packets sent before the sender existed (no OnPacketSent) are acknowledged to it in K events 1 ms apart, RTT already measured by the handshake; the application has nothing to send until then (idle) or sends from the start (sending); K in 1..6, J in 1..2 (quick: J=1 idle for every K, everything for K=1 and K=6)",
		"pingpongKxNpkt+Trtt": "K exchanges: the application sends N packets, then nothing until all are acknowledged (pipe empty), then waits T round trips",
		"run":                 "200 RTT, sender always has data, no injected loss; utilisation = acknowledged bytes in RTT 40..200 / (capacity * 160 RTT)"}
	p.Bounds = map[string]any{"threshold": "utilisation >= 0.50 over RTT 40..200 and in each of the four 40-RTT windows in it, for every draw", "rtts": 200}
	for _, prof := range c12Profiles {
		for pi := range c12Paths {
			for wi, w := range warm {
				if wi > 0 && c12Paths[pi].AckEvery > 2 && !c12WarmIsInstall(w) {
					continue // see the assumption on acknowledgement frequency
				}
				if wi > 0 && c12Paths[pi].ColdOnly && !c12WarmIsInstall(w) {
					continue // fractional-millisecond RTT paths: see c12Paths
				}
				*item++
				if !env.Mine(*item) {
					continue
				}
				if env.Expired() {
					p.Exhaustive = false
					p.Note("deadline reached")
					return
				}
				lo, hi, loWin := 10.0, 0.0, 10.0
				var tail int64
				for di, dv := range c12Draws {
					if wi > 0 && di > 0 && !env.Thorough() {
						break // quick: every draw only for the plain run
					}
					c := c12Case{Part: "loss-free", Profile: string(prof), Path: pi, MaxPkts: c12RealMaxPkts, Prefix: w, Draw: dv, RTTs: 200}
					r := c12Run(&c)
					a.observe(p, &c, &r)
					if r.infra != "" {
						sh.InfraError("%s: %s", c12Sig(&c, "infra", r.drawUsed), r.infra)
						return
					}
					if r.clause == "" && r.util >= 0.5 && r.utilMinWin < 0.5 {
						r.clause = "a-40-rtt-window<50%"
						r.detail = fmt.Sprintf("after %s, a clean run of 200 RTT delivered %.1f%% of capacity after its first 40 RTT, but only %.1f%% in one of the 40-RTT windows after them (tail drops %d, final mode %d)", c12SeqNames(w), 100*r.util, 100*r.utilMinWin, r.sim.tailDrops, r.sim.b.mode)
					}
					if r.clause == "" && r.util < 0.5 {
						r.clause = "utilisation<50%"
						r.detail = fmt.Sprintf("after %s, a clean run of 200 RTT delivered %.1f%% of capacity after its first 40 RTT (tail drops %d, final mode %d)", c12SeqNames(w), 100*r.util, r.sim.tailDrops, r.sim.b.mode)
					}
					if r.clause != "" {
						a.violate(&c12Space{part: "loss-free"}, p, &c, &r)
						continue
					}
					loWin = min(loWin, r.utilMinWin)
					lo, hi = min(lo, r.util), max(hi, r.util)
					tail += r.sim.tailDrops
				}
				if wi == 0 {
					p.Note("utilisation %s on %s: min %.1f%% max %.1f%% over %d draws (queue overflows caused by the sender itself: %d)", prof, c12Paths[pi].Name, 100*lo, 100*hi, len(c12Draws), tail)
					p.Count(fmt.Sprintf("util_permille_min_%s_%s", prof, c12Paths[pi].Name), int64(1000*lo))
					p.Count(fmt.Sprintf("util_permille_lowest_40rtt_window_%s_%s", prof, c12Paths[pi].Name), int64(1000*loWin))
				} else if lo < 10 {
					p.Class("utilisation-decile-after", c12SeqNames(w), int(lo*10), "lowest-40-rtt-window", int(loWin*10))
				}
			}
		}
	}
}

// c12RaiseStates: datagram-size raise reported while the window fields sit on the boundary values
// the code compares against (old minimum, old initial window, maximum), in every mode the
// prefixes reach.
var c12RaisePrefixes = [][]int{{}, {c12EvClean12}, {c12EvClean12, c12EvClean12}, {c12EvClean12, c12EvClean12, c12EvLoss3}, {c12EvClean12, c12EvClean12, c12EvBurst}, {c12EvClean12, c12EvIdle, c12EvClean1}}
var c12RaiseDeltas = []int64{1, 52, 148, 252}
var c12RaisePaths = []int{0, 1, 3}

// c12RaiseCases calls f with every case of the part in canonical order.
func c12RaiseCases(f func(c *c12Case) bool) {
	for _, prof := range c12Profiles {
		for _, pi := range c12RaisePaths {
			for _, pre := range c12RaisePrefixes {
				for _, wl := range c12WinLabels {
					for _, rl := range c12RecLabels {
						for _, ra := range c12RaiseDeltas {
							c := c12Case{Part: "raise-at-boundary-windows", Profile: string(prof), Path: pi, MaxPkts: c12RealMaxPkts, Prefix: pre, Seq: []int{c12EvClean1}, Draw: c12Draws[0], ForceWin: wl, ForceRec: rl, Raise: ra}
							if !f(&c) {
								return
							}
						}
					}
				}
			}
		}
	}
}

func c12RaiseStates(a *c12Agg, item *int64) {
	sh := a.sh
	env := sh.Env()
	p := sh.Part("raise-at-boundary-windows", "enum")
	var pn, names []string
	for _, pre := range c12RaisePrefixes {
		pn = append(pn, c12SeqNames(pre))
	}
	for _, pi := range c12RaisePaths {
		names = append(names, c12PathOf(pi).Name)
	}
	p.Alphabet = map[string]any{"profiles": c12Profiles, "paths": names, "prefixes": pn, "congestionWindow_set_to": c12WinLabels, "recoveryWindow_set_to": append([]string{"unchanged"}, c12RecLabels[1:]...),
		"datagram_size_raised_by": c12RaiseDeltas, "then": "oracle right after SetMaxDatagramSize, then 1 RTT clean"}
	p.Note("window fields are written by the harness (state injection, as the upstream tests do): the boundary values min/initial/max the code switches on are not all reached by simulated traces")
	c12RaiseCases(func(c *c12Case) bool {
		*item++
		if !env.Mine(*item) {
			return true
		}
		r := c12Run(c)
		a.observe(p, c, &r)
		if p.Evaluations%499 == 1 {
			p.Sample(*c)
		}
		if r.infra != "" {
			sh.InfraError("%s: %s", c12Sig(c, "infra", r.drawUsed), r.infra)
			return false
		}
		if r.clause != "" {
			key := p.Name + "|" + r.clause
			if a.reported[key] {
				p.Count("further_violating_traces_not_listed", 1)
				return true
			}
			a.reported[key] = true
			// every shard reports the first case in canonical order that violates this clause
			mc, mr := *c, r
			c12RaiseCases(func(c2 *c12Case) bool {
				if r2 := c12Run(c2); r2.clause == r.clause {
					mc, mr = *c2, r2
					return false
				}
				return true
			})
			sh.Violate(p.Name, c12Sig(&mc, mr.clause, mr.drawUsed), mr.detail, &mc)
		}
		return true
	})
}

// c12Spacing: time granularity of sends and ack events (see c12Sim.spaced). After a history that
// left nothing in flight (cold start, a request/response exchange, an application-limited pause, an
// idle period: the states in which the next send starts a new sampling epoch) the application sends
// a burst of n packets whose send times are g nanoseconds apart and whose acknowledgements arrive
// one by one h nanoseconds apart, then sends greedily for two round trips; g and h over the
// boundary values of the nanosecond / microsecond / millisecond units a time.Duration can be
// truncated to: 0 (equal timestamps), 1 ns, inside the first microsecond, 999/1000/1001 ns, just
// below 2 us. Every other part feeds the sender timestamps that are equal or >= 1 us apart.
//
// Second dimension, the meaning of the bytesInFlight argument of OnPacketSent: "including the packet"
// (what the pinned quic-go passes, and every other part) or "before the packet" (the convention of
// the implementation this sender was ported from, and the only one under which the branches the
// sender and its sampler take on a send with NOTHING in flight - the start of a sampling epoch: the
// send that ends quiescence becomes the reference point of the send-rate sample of the next packets
// - are reached at all; the argument is the caller's to define, the property quantifies over what
// QUIC can produce, and both are monotone, consistent accounts of the same trace). Under the first
// the send-rate interval of a packet reaches back to the send time of a packet acknowledged before
// it was sent (>= 1 RTT); under the second, after quiescence, to the previous send of the burst.
//
// Judged
// by the per-event oracle of every other part (no panic, window, pacing floor, bookkeeping,
// liveness). Added after the independently seeded change C12-13 (BandwidthFromDelta computed from
// delta.Microseconds(): a send-rate sample over two sends less than 1 us apart divided by zero).
var c12SpacingGapsQuick = []int64{0, 1, 300, 500, 999, 1000, 1001, 1999}
var c12SpacingGapsThorough = []int64{0, 1, 2, 300, 500, 998, 999, 1000, 1001, 1002, 1500, 1999, 2000, 2001, 999999, 1000001}
var c12SpacingPathsQuick = []int{0, 7}       // 20 ms and 500 us round trip (2 and 49 datagrams of BDP: short traces)
var c12SpacingPathsThorough = []int{0, 1, 7} // and 50 ms with 488 datagrams of BDP
var c12SpacingBurstsQuick = []int{2, 3}
var c12SpacingBurstsThorough = []int{2, 3, 4}

func c12SpacingAlphabet(thorough bool) (gaps []int64, bursts, paths []int) {
	if thorough {
		return c12SpacingGapsThorough, c12SpacingBurstsThorough, c12SpacingPathsThorough
	}
	return c12SpacingGapsQuick, c12SpacingBurstsQuick, c12SpacingPathsQuick
}

var c12SpacingPrefixes = [][]int{{}, {c12NEv}, {c12EvClean12, c12EvApp}, {c12EvClean12, c12EvIdle}}

// c12SpacingCases calls f with every case of the part in canonical order (simplest first).
func c12SpacingCases(thorough bool, f func(c *c12Case) bool) {
	gaps, bursts, paths := c12SpacingAlphabet(thorough)
	for _, pre := range c12SpacingPrefixes {
		for _, n := range bursts {
			for _, g := range gaps {
				for _, h := range gaps {
					for _, prof := range c12Profiles {
						for _, pi := range paths {
							for _, prior := range []bool{false, true} {
								c := c12Case{Part: "sub-microsecond-spacing", Profile: string(prof), Path: pi, MaxPkts: c12RealMaxPkts, Prefix: pre, Seq: []int{c12EvClean1, c12EvClean1}, Draw: c12Draws[0], Burst: n, SendGapNs: g, AckGapNs: h, PriorOnSend: prior}
								if !f(&c) {
									return
								}
							}
						}
					}
				}
			}
		}
	}
}

func c12Spacing(a *c12Agg, item *int64) {
	sh := a.sh
	env := sh.Env()
	p := sh.Part("sub-microsecond-spacing", "enum")
	var pn, names []string
	for _, pre := range c12SpacingPrefixes {
		pn = append(pn, c12SeqNames(pre))
	}
	gaps, bursts, paths := c12SpacingAlphabet(env.Thorough())
	for _, pi := range paths {
		names = append(names, c12PathOf(pi).Name)
	}
	p.Alphabet = map[string]any{"profiles": c12Profiles, "paths": names, "before_the_burst": pn, "packets_in_the_burst": bursts,
		"nanoseconds_between_two_sends_of_the_burst": gaps, "nanoseconds_between_two_ack_events": gaps,
		"bytes_in_flight_reported_on_every_send_of_the_trace": []string{"including the packet (quic-go)", "before the packet (0 on the send that ends quiescence)"},
		"burst": "the application has n packets: sent g ns apart as window and pacer admit, then nothing until all are acknowledged; acknowledged one packet per event, h ns apart, the first one path RTT after the first send",
		"then":  "2 RTT clean (greedy sender), oracle after every congestion event"}
	p.Note("half of the traces report the bytes in flight BEFORE the packet on every send (0 on the send that ends quiescence), which the pinned quic-go does not do (it includes the packet): only then does the sampler take a send with nothing in flight as the start of a sampling epoch, so that the send-rate interval of the next packet is the spacing of the burst")
	c12SpacingCases(env.Thorough(), func(c *c12Case) bool {
		*item++
		if !env.Mine(*item) {
			return true
		}
		if *item&63 == 0 && env.Expired() {
			p.Exhaustive = false
			p.Note("deadline reached")
			return false
		}
		r := c12Run(c)
		a.observe(p, c, &r)
		if r.sim != nil {
			p.Class("spacing", c12SeqNames(c.Prefix), c.Burst, r.sim.spacedSent, c.SendGapNs, c.AckGapNs, c.PriorOnSend, r.clause)
			p.Count("packets_sent_in_spaced_bursts", r.sim.spacedSent)
		}
		if p.Evaluations%199 == 1 {
			p.Sample(*c)
		}
		if r.infra != "" {
			sh.InfraError("%s: %s", c12Sig(c, "infra", r.drawUsed), r.infra)
			return false
		}
		if r.clause != "" {
			key := p.Name + "|" + r.clause
			if a.reported[key] {
				p.Count("further_violating_traces_not_listed", 1)
				return true
			}
			a.reported[key] = true
			// every shard reports the first case in canonical order that violates this clause
			mc, mr := *c, r
			c12SpacingCases(env.Thorough(), func(c2 *c12Case) bool {
				if r2 := c12Run(c2); r2.clause == r.clause {
					mc, mr = *c2, r2
					return false
				}
				return true
			})
			sh.Violate(p.Name, c12Sig(&mc, mr.clause, mr.drawUsed), mr.detail, &mc)
		}
		return true
	})
}

func c12Spaces(thorough bool) []*c12Space {
	sps := c12SpacesOf(thorough)
	// development aid: override depth / all-draws depth of the main space
	if v, err := strconv.Atoi(os.Getenv("VERIF_C12_DEPTH")); err == nil && v >= 0 {
		sps[0].depth = v
	}
	if v, err := strconv.Atoi(os.Getenv("VERIF_C12_DRAWS_TO")); err == nil && v >= 0 {
		sps[0].drawsTo = v
	}
	return sps
}

func c12SpacesOf(thorough bool) []*c12Space {
	all := []int{0, 1, 2, 3}
	if thorough {
		return []*c12Space{
			{part: "macro-sequences", paths: all, maxPkts: c12RealMaxPkts, depth: 6, drawsTo: 4, rootLen: 2},
			{part: "small-max-window", paths: []int{1, 2}, maxPkts: 100, depth: 4, drawsTo: 3, rootLen: 1},
			{part: "long-rtt", paths: []int{4}, maxPkts: c12RealMaxPkts, depth: 5, drawsTo: 3, rootLen: 1},
			{part: "tiny-bdp", paths: []int{-2}, maxPkts: c12RealMaxPkts, depth: 4, drawsTo: 3, rootLen: 1},
			{part: "long-fat-real-max-window", paths: []int{-1}, maxPkts: c12RealMaxPkts, prefix: []int{c12EvClean12}, depth: 1, drawsTo: 1, rootLen: 0},
		}
	}
	return []*c12Space{
		{part: "macro-sequences", paths: all, maxPkts: c12RealMaxPkts, depth: 5, drawsTo: 3, rootLen: 2},
		{part: "small-max-window", paths: []int{1, 2}, maxPkts: 100, depth: 3, drawsTo: 2, rootLen: 1},
		{part: "long-rtt", paths: []int{4}, maxPkts: c12RealMaxPkts, depth: 3, drawsTo: 2, rootLen: 1},
		{part: "tiny-bdp", paths: []int{-2}, maxPkts: c12RealMaxPkts, depth: 3, drawsTo: 2, rootLen: 1},
		{part: "long-fat-real-max-window", paths: []int{-1}, maxPkts: c12RealMaxPkts, prefix: []int{c12EvClean12}, depth: 1, drawsTo: 0, rootLen: 0},
	}
}

func c12Enumerate(sh *evidence.Shard) {
	if v := os.Getenv(debugEnv); v != "" {
		sh.InfraError("%s is set (%q): the sender would print", debugEnv, v)
		return
	}
	debug.SetGCPercent(1000) // the live heap is tiny while the sender's ring buffers are reallocated all the time
	a := &c12Agg{sh: sh, reported: map[string]bool{}}
	var item int64
	if infra := c12Owned(func() {
		c12Spacing(a, &item) // a few thousand short traces
		c12LossFree(a, &item)
		c12RaiseStates(a, &item)
		// cheap directed spaces first, the big one last (it is the one a deadline may cut)
		sps := c12Spaces(sh.Env().Thorough())
		for i := len(sps) - 1; i >= 0; i-- {
			// every draw on the shorter sequences (from scratch), then the first draw to full depth
			// (prefix-sharing walk)
			if sps[i].drawsTo > 0 {
				d := *sps[i]
				d.depth, d.skipDef = min(d.drawsTo, d.depth), true
				c12EnumSpace(a, &d, &item)
			}
			c12WalkSpace(a, sps[i], &item)
		}
	}); infra != "" {
		sh.InfraError("%s", infra)
	}
	sh.Assume("the network is the deterministic single-bottleneck model described in the alphabet (fixed capacity, fixed propagation delay, FIFO tail-drop queue, no reordering); receiver acknowledges every n-th packet, after 25 ms, or at once on a hole")
}

func c12Replay(part string, raw json.RawMessage) (bool, bool, string) {
	if part == "seed" {
		return false, false, ""
	}
	var c c12Case
	if err := json.Unmarshal(raw, &c); err != nil {
		return true, false, err.Error()
	}
	var r c12Result
	if infra := c12Owned(func() { r = c12Run(&c) }); infra != "" {
		return true, false, infra
	}
	if c.RTTs > 0 && r.clause == "" && r.util < 0.5 {
		r.clause, r.detail = "utilisation<50%", fmt.Sprintf("utilisation %.1f%%", 100*r.util)
	}
	if c.RTTs > 0 && r.clause == "" && r.utilMinWin < 0.5 {
		r.clause, r.detail = "a-40-rtt-window<50%", fmt.Sprintf("utilisation %.1f%%, %.1f%% in the lowest 40-RTT window", 100*r.util, 100*r.utilMinWin)
	}
	if r.infra != "" {
		return true, false, "simulator: " + r.infra
	}
	return true, r.clause != "", r.clause + ": " + r.detail
}

func TestVerifC12(t *testing.T) {
	evidence.Main(t, "C12", evidence.Seq{Run: c12Enumerate, Replay: c12Replay})
}
