package bbr

// C12 harness, part 3: the same enumeration of macro-event sequences as c12EnumSpace, but as a
// depth-first walk of the sequence tree that shares prefixes: the complete state of the sender
// and of the simulator is saved before the children of a node are tried and written back into
// the same objects afterwards. A deterministic sample of nodes is re-executed from scratch and
// compared field by field (fingerprint); any difference is an infrastructure error.

import (
	"fmt"

	"github.com/apernet/quic-go/monotime"

	"verif.local/engine/enum"
	"verif.local/engine/evidence"
	"verif.local/engine/vpriv"
)

// c12Snap: the simulator's own state (hand-copied: it is the harness's struct) and a deep copy of
// the sender taken by reflection (vpriv.Clone/Restore: whatever fields the sender, its sampler, its
// filters and its pacer have — no field list to keep in step with the code under test).
type c12Snap struct {
	sim     c12Sim
	flight  []c12Pkt
	rx      []c12Pkt
	gaps    []c12Gap
	trans   []byte
	rtt     c12RTT
	b       *bbrSender
	drawCnt int64
}

func c12Save(s *c12Sim, sn *c12Snap) {
	sn.sim = *s
	sn.flight = append(sn.flight[:0], s.flight[s.fh:]...)
	sn.rx = append(sn.rx[:0], s.rx[s.rh:]...)
	sn.gaps = append(sn.gaps[:0], s.gaps...)
	sn.trans = append(sn.trans[:0], s.trans...)
	sn.rtt = *s.rtt
	sn.b = vpriv.Clone(s.b)
	sn.drawCnt = c12DrawCnt
}

func c12Restore(s *c12Sim, sn *c12Snap) {
	flight, rx, gaps, trans := s.flight[:0], s.rx[:0], s.gaps[:0], s.trans[:0]
	acked, lost, keep := s.ackedInfo, s.lostInfo, s.keep
	b, rtt := s.b, s.rtt
	*s = sn.sim
	s.b, s.rtt = b, rtt
	s.flight, s.fh = append(flight, sn.flight...), 0
	s.rx, s.rh = append(rx, sn.rx...), 0
	s.gaps = append(gaps, sn.gaps...)
	s.trans = append(trans, sn.trans...)
	s.ackedInfo, s.lostInfo, s.keep = acked, lost, keep
	*rtt = sn.rtt
	vpriv.Restore(b, sn.b) // in place: the pacer's bandwidth callback and the simulator keep pointing at b
	c12DrawCnt = sn.drawCnt
}

// fingerprint of everything the future of a trace depends on (compared between the prefix-sharing
// walk and a from-scratch execution of the same sequence): the simulator's counters plus the
// complete private state of the sender, rendered by reflection.
func (s *c12Sim) fingerprint() string {
	b := s.b
	now := monotime.Time(s.now)
	return fmt.Sprint(s.now, s.events, s.sentPkts, s.inflight, s.nextPN, len(s.flight)-s.fh, len(s.rx)-s.rh, s.lossTime, s.lastDep, s.qSize, s.ccSize, s.ackedBytes, s.lastElicit, s.ptoCount, s.mtuPending, s.holdUntil, s.rxGap, s.largestAcked,
		*s.rtt, vpriv.Fingerprint(b), b.pacer.Budget(now), b.pacer.TimeUntilSend(), s.modeSeen, string(s.trans), s.clause)
}

type c12Walk struct {
	a      *c12Agg
	sp     *c12Space
	p      *evidence.Part
	prof   Profile
	pi     int
	max    int // depth bound of this pass
	only   int // count/evaluate only nodes at this depth (-1: all)
	snaps  []*c12Snap
	nodes  int64
	abort  bool
	cutAt  int64
	expire func() bool
}

func (w *c12Walk) caseOf(seq []int) c12Case {
	return c12Case{Part: w.sp.part, Profile: string(w.prof), Path: w.pi, MaxPkts: w.sp.maxPkts, Prefix: w.sp.prefix, Seq: append([]int{}, seq...), Draw: c12Draws[0]}
}

// visit records the node reached by seq; returns whether its subtree may be walked.
func (w *c12Walk) visit(s *c12Sim, seq []int, val any, stack string) bool {
	r := c12Result{sim: s, drawUsed: c12DrawCnt > 0, shape: string(s.trans)}
	if val != nil {
		r.clause = "panic at " + evidence.PanicSite(stack)
		r.detail = fmt.Sprintf("event %d at t=%.6fs: panic: %v", s.events, float64(s.now-c12StartTime)/1e9, val)
	} else {
		r.clause, r.detail, r.infra = s.clause, s.detail, s.infra
	}
	counted := w.only < 0 || len(seq) == w.only
	c := w.caseOf(seq)
	if counted {
		w.nodes++
		w.a.walkNodes++
		w.a.observeNode(w.p, &c, &r)
		if w.p.Evaluations%9973 == 1 {
			w.p.Sample(map[string]any{"profile": c.Profile, "path": c12PathOf(w.pi).Name, "seq": c12SeqNames(seq), "draw": c.Draw, "modes": r.shape, "events": s.events})
		}
		if w.a.walkNodes%509 == 0 && r.clause == "" && r.infra == "" {
			// re-execute from scratch and compare
			fp := s.fingerprint()
			cnt := c12DrawCnt
			r2 := c12Run(&c)
			c12DrawVal, c12DrawCnt = c.Draw, cnt
			w.p.Count("walk_nodes_revalidated_from_scratch", 1)
			if r2.sim == nil || r2.sim.fingerprint() != fp {
				fp2 := ""
				if r2.sim != nil {
					fp2 = r2.sim.fingerprint()
				}
				w.a.sh.InfraError("prefix-sharing walk diverges from the from-scratch execution of %s:\n walk:    %s\n scratch: %s", c12Sig(&c, "-", r.drawUsed), fp, fp2)
				w.abort = true
				return false
			}
		}
	}
	if r.infra != "" {
		w.a.sh.InfraError("%s: %s", c12Sig(&c, "infra", r.drawUsed), r.infra)
		w.abort = true
		return false
	}
	if r.clause != "" {
		if counted {
			w.a.violate(w.sp, w.p, &c, &r)
			// every extension of this sequence starts with the same violation
			n := int64(0)
			for k, m := len(seq)+1, int64(c12NEv); k <= w.sp.depth; k, m = k+1, m*c12NEv {
				n += m
			}
			w.p.Count("extensions_of_violating_sequences_not_walked", n)
		}
		return false
	}
	return true
}

func (w *c12Walk) walk(s *c12Sim, seq []int) {
	depth := len(seq)
	if depth >= w.max || w.abort {
		return
	}
	for len(w.snaps) <= depth {
		w.snaps = append(w.snaps, &c12Snap{})
	}
	sn := w.snaps[depth]
	c12Save(s, sn)
	for e := 0; e < c12NEv && !w.abort; e++ {
		if e > 0 {
			c12Restore(s, sn)
		}
		seq = append(seq, e)
		c12DrawVal = c12Draws[0]
		val, stack := evidence.Catch(func() { s.macro(e) })
		if w.only < 0 || len(seq) == w.only {
			c12CountDelta(w.p, s, &sn.sim)
		}
		if w.visit(s, seq, val, stack) {
			w.walk(s, seq)
		}
		seq = seq[:depth]
		if w.expire() {
			w.abort = true
		}
	}
}

// c12CountDelta adds what the simulator did since prev (nil: since the start) to the counters.
func c12CountDelta(p *evidence.Part, s *c12Sim, prev *c12Sim) {
	var z c12Sim
	if prev == nil {
		prev = &z
	}
	p.Count("congestion_events", s.events-prev.events)
	p.Count("packets_sent", s.sentPkts-prev.sentPkts)
	p.Count("loss_only_events", s.lossOnly-prev.lossOnly)
	p.Count("pto_probes", s.ptos-prev.ptos)
	p.Count("datagram_size_raises", s.mtuRaises-prev.mtuRaises)
	p.Count("tail_drops", s.tailDrops-prev.tailDrops)
	p.Count("ack_only_packets", s.ackOnly-prev.ackOnly)
	p.Count("events_with_window_at_four_datagrams", s.atFloor-prev.atFloor)
	p.Count("events_with_window_within_one_datagram_of_max", s.atCeil-prev.atCeil)
	for m := 0; m < 4; m++ {
		for rc := 0; rc < 3; rc++ {
			if n := s.modeSeen[m][rc] - prev.modeSeen[m][rc]; n > 0 {
				p.Count(fmt.Sprintf("events_mode_%s_recovery_%d", c12ModeNames[m], rc), n)
			}
		}
	}
}

// observeNode is observe for a node of the walk: the counters of the simulator are cumulative
// along the path, so only the classification and the evaluation count are taken per node and
// the event/packet counters are accumulated as deltas by the simulator itself.
func (a *c12Agg) observeNode(p *evidence.Part, c *c12Case, r *c12Result) {
	p.Evaluations++
	s := r.sim
	p.Class(c.Profile, c.Path, c.MaxPkts, r.shape, s.lossOnly > 0, s.ptos > 0, s.mtuRaises, len(s.gaps) > 0, s.tailDrops > 0, r.clause)
	if r.drawUsed {
		p.Count("traces_consuming_cycle_offset_draw", 1)
	}
	if s.maxSlots > p.Counters["max_state_map_slots"] {
		p.Count("max_state_map_slots", s.maxSlots-p.Counters["max_state_map_slots"])
	}
	if s.maxA0 > p.Counters["max_a0_candidates"] {
		p.Count("max_a0_candidates", s.maxA0-p.Counters["max_a0_candidates"])
	}
}

// c12WalkSpace enumerates every sequence of <= sp.depth macro-events (after sp.prefix) for every
// profile x path of the space with the first draw, sharing prefixes. Work items (for sharding)
// are the sequences shorter than rootLen (single nodes) and the subtrees below the sequences of
// length rootLen. Pass 1 covers all sequences of <= depth-1, pass 2 adds those of length depth,
// so a deadline leaves a complete shorter bound.
func c12WalkSpace(a *c12Agg, sp *c12Space, item *int64) {
	sh := a.sh
	env := sh.Env()
	p := sh.Part(sp.part, "enum")
	names := make([]string, 0, len(sp.paths))
	for _, pi := range sp.paths {
		names = append(names, c12PathOf(pi).Name)
	}
	p.Alphabet = map[string]any{
		"profiles": c12Profiles, "paths": names, "macro_events": c12EvNames, "prefix": c12SeqNames(sp.prefix),
		"max_window_packets": sp.maxPkts, "cycle_offset_draws": c12Draws,
	}
	p.Bounds = map[string]any{"max_macro_events": sp.depth, "all_draws_up_to_macro_events": sp.drawsTo, "single_draw_beyond": c12Draws[0]}
	rootLen := min(sp.rootLen, sp.depth)
	base := *item
	cut := false
	complete := -1
	passes := [][2]int{{sp.depth - 1, -1}, {sp.depth, sp.depth}}
	if sp.depth <= rootLen {
		passes = [][2]int{{sp.depth, -1}}
	}
	for _, ps := range passes {
		if cut {
			break
		}
		*item = base
		enum.Sequences(c12NEv, rootLen, func(root []int) bool {
			for _, prof := range c12Profiles {
				for _, pi := range sp.paths {
					*item++
					if !env.Mine(*item) {
						continue
					}
					if env.Expired() {
						cut = true
						return false
					}
					w := &c12Walk{a: a, sp: sp, p: p, prof: prof, pi: pi, max: ps[0], only: ps[1], expire: env.Expired}
					if len(root) > ps[0] {
						continue
					}
					// the root itself, from scratch
					c := w.caseOf(root)
					c12DrawVal, c12DrawCnt = c.Draw, 0
					var s *c12Sim
					val, stack := evidence.Catch(func() {
						s = c12NewSim(c12PathOf(pi), prof, sp.maxPkts)
						for _, e := range sp.prefix {
							if s.clause == "" && s.infra == "" {
								s.macro(e)
							}
						}
						for _, e := range root {
							if s.clause == "" && s.infra == "" {
								s.macro(e)
							}
						}
					})
					if s == nil {
						sh.InfraError("constructing the sender panicked: %v", val)
						return false
					}
					rootCounted := ps[1] < 0 || len(root) == ps[1]
					if rootCounted {
						c12CountDelta(p, s, nil)
					}
					if !rootCounted {
						// already evaluated in pass 1: only decide whether to descend
						if val != nil || s.clause != "" || s.infra != "" {
							continue
						}
					} else if !w.visit(s, root, val, stack) {
						if w.abort {
							return false
						}
						continue
					}
					if len(root) == rootLen {
						w.walk(s, append([]int{}, root...))
					}
					if w.abort {
						if env.Expired() {
							cut = true
						}
						return false
					}
				}
			}
			return true
		})
		if !cut {
			complete = ps[0]
		}
	}
	if cut {
		p.Exhaustive = false
		p.Note("deadline reached: every sequence of <= %d macro-events was completed for all profiles and paths; longer ones only partly", complete)
	}
}
