package bbr

// C12, per-packet bookkeeping container: explicit-state search over the real
// packetNumberIndexedQueue (the structure behind the bandwidth sampler's connectionStateMap)
// against a reference set. Added after the independently seeded change C12-1 (a RemoveUpTo fast
// path that empties the ring without resetting the present-entry count, reached by QUIC through
// a loss-only event for the newest tracked packet) was missed by the trace simulator: the slot
// count must stay within the span of packet numbers still tracked, whatever the order of
// Emplace / Remove / RemoveUpTo (RemoveUpTo beyond the newest packet included).

import (
	"encoding/json"
	"fmt"
	"sort"
	"strings"
	"testing"

	"github.com/apernet/quic-go/congestion"
	"verif.local/engine/evidence"
	"verif.local/engine/xstate"
)

type c12qOp int

const (
	c12qEmplaceNext c12qOp = iota
	c12qEmplaceGap
	c12qRemoveFirst
	c12qRemoveLast
	c12qRemoveMid
	c12qUpToFirst1
	c12qUpToLast
	c12qUpToLast1
	c12qUpToLast3
	c12qUpToBeyond
	c12qNOps
)

var c12qNames = [...]string{"emplace(next)", "emplace(next+2)", "remove(first)", "remove(last)", "remove(middle)", "removeUpTo(first+1)", "removeUpTo(last)", "removeUpTo(last+1)", "removeUpTo(last+3)", "removeUpTo(highestEver+2)"}

func (o c12qOp) String() string { return c12qNames[o] }

type c12qSys struct {
	q       *packetNumberIndexedQueue[int]
	set     map[int64]bool
	highest int64 // highest packet number ever emplaced
}

func (s *c12qSys) sorted() []int64 {
	var v []int64
	for k := range s.set {
		v = append(v, k)
	}
	sort.Slice(v, func(i, j int) bool { return v[i] < v[j] })
	return v
}

func (s *c12qSys) Apply(op c12qOp) error {
	v := s.sorted()
	one := 1
	switch op {
	case c12qEmplaceNext, c12qEmplaceGap:
		pn := s.highest + 1
		if op == c12qEmplaceGap {
			pn = s.highest + 3
		}
		if !s.q.Emplace(congestion.PacketNumber(pn), &one) {
			return fmt.Errorf("Emplace(%d) above every earlier packet number was refused", pn)
		}
		s.set[pn] = true
		s.highest = pn
	case c12qRemoveFirst, c12qRemoveLast, c12qRemoveMid:
		if len(v) == 0 {
			return nil
		}
		pn := v[0]
		if op == c12qRemoveLast {
			pn = v[len(v)-1]
		} else if op == c12qRemoveMid {
			pn = v[len(v)/2]
		}
		if !s.q.Remove(congestion.PacketNumber(pn), nil) {
			return fmt.Errorf("Remove(%d) of a tracked packet failed", pn)
		}
		delete(s.set, pn)
	default:
		var upto int64
		switch op {
		case c12qUpToFirst1:
			if len(v) == 0 {
				return nil
			}
			upto = v[0] + 1
		case c12qUpToLast:
			if len(v) == 0 {
				return nil
			}
			upto = v[len(v)-1]
		case c12qUpToLast1:
			if len(v) == 0 {
				return nil
			}
			upto = v[len(v)-1] + 1
		case c12qUpToLast3:
			if len(v) == 0 {
				return nil
			}
			upto = v[len(v)-1] + 3
		case c12qUpToBeyond:
			upto = s.highest + 2
		}
		s.q.RemoveUpTo(congestion.PacketNumber(upto))
		for k := range s.set {
			if k < upto {
				delete(s.set, k)
			}
		}
	}
	return s.invariant()
}

func (s *c12qSys) invariant() error {
	v := s.sorted()
	if s.q.NumberOfPresentEntries() != len(v) {
		return fmt.Errorf("present-entry count %d, %d packets are tracked", s.q.NumberOfPresentEntries(), len(v))
	}
	if s.q.IsEmpty() != (len(v) == 0) {
		return fmt.Errorf("IsEmpty()=%v with %d tracked packets", s.q.IsEmpty(), len(v))
	}
	if len(v) == 0 {
		if s.q.EntrySlotsUsed() != 0 {
			return fmt.Errorf("bookkeeping not proportional: %d slots in use with no tracked packet", s.q.EntrySlotsUsed())
		}
		return nil
	}
	if int64(s.q.FirstPacket()) != v[0] {
		return fmt.Errorf("FirstPacket()=%d, oldest tracked packet is %d", s.q.FirstPacket(), v[0])
	}
	span := s.highest - v[0] + 1
	if int64(s.q.EntrySlotsUsed()) > span {
		return fmt.Errorf("bookkeeping not proportional: %d slots in use for packet numbers %d..%d (span %d, %d tracked)", s.q.EntrySlotsUsed(), v[0], s.highest, span, len(v))
	}
	for pn := v[0] - 1; pn <= s.highest+1; pn++ {
		if got := s.q.GetEntry(congestion.PacketNumber(pn)) != nil; got != s.set[pn] {
			return fmt.Errorf("GetEntry(%d) found=%v, tracked=%v", pn, got, s.set[pn])
		}
	}
	return nil
}

// Key: everything relative to the oldest tracked packet (the container is translation
// invariant in the packet number), plus the private slot count and first packet validity.
func (s *c12qSys) Key() string {
	v := s.sorted()
	var sb strings.Builder
	if len(v) == 0 {
		fmt.Fprintf(&sb, "empty slots=%d first=%v", s.q.EntrySlotsUsed(), s.q.firstPacket == invalidPacketNumber)
		return sb.String()
	}
	for _, k := range v {
		fmt.Fprintf(&sb, "%d,", k-v[0])
	}
	fmt.Fprintf(&sb, "|hi=%d|slots=%d|n=%d", s.highest-v[0], s.q.EntrySlotsUsed(), s.q.numberOfPresentEntries)
	return sb.String()
}

func c12qNew() xstate.Sys[c12qOp] {
	return &c12qSys{q: newPacketNumberIndexedQueue[int](4), set: map[int64]bool{}, highest: 99}
}

func c12qOps() []c12qOp {
	var ops []c12qOp
	for o := c12qOp(0); o < c12qNOps; o++ {
		ops = append(ops, o)
	}
	return ops
}

func c12qRun(sh *evidence.Shard) {
	env := sh.Env()
	if env.Shard != 0 {
		return
	}
	p := sh.Part("packet-number-queue", "xstate")
	depth := 7
	if env.Thorough() {
		depth = 9
	}
	p.Alphabet = c12qNames[:]
	p.Bounds = map[string]any{"max_depth": depth, "initial_ring_capacity": 4}
	res := xstate.BFS(xstate.Config[c12qOp]{Ops: c12qOps(), New: c12qNew, MaxDepth: depth, MaxStates: 400000}, p, env)
	if res.Violation != nil {
		var h []string
		for _, o := range res.History {
			h = append(h, o.String())
		}
		sh.Violate(p.Name, "packet-number-queue/"+strings.SplitN(res.Violation.Error(), ":", 2)[0]+"/"+strings.Join(h, ";"), res.Violation.Error(), res.History)
	}
}

func TestVerifC12Queue(t *testing.T) {
	evidence.Main(t, "C12", evidence.Seq{Run: c12qRun, Replay: func(part string, raw json.RawMessage) (bool, bool, string) {
		if part != "packet-number-queue" {
			return false, false, ""
		}
		var h []c12qOp
		if err := json.Unmarshal(raw, &h); err != nil {
			return true, false, err.Error()
		}
		s := c12qNew()
		for _, o := range h {
			if err := s.Apply(o); err != nil {
				return true, true, err.Error()
			}
		}
		return true, false, "history holds"
	}})
}
