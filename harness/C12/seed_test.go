package congestion

// C12 harness, unit "seed" (injected into core/internal/congestion): the size a replacement BBR
// controller is seeded with never exceeds the size QUIC starts with, so that every datagram size
// QUIC can report later (>= its own start size) is an increase for the controller.

import (
	"encoding/json"
	"fmt"
	"net"
	"testing"

	"github.com/apernet/hysteria/core/v2/internal/congestion/bbr"
	"github.com/apernet/quic-go/congestion"

	"verif.local/engine/evidence"
)

type c12SeedCase struct {
	Quic    int64  `json:"quic_initial_packet_size"`
	UDP     bool   `json:"remote_is_udp_addr"`
	Profile string `json:"profile"`
	Raise   int64  `json:"reported_size"`
}

type c12Addr struct{}

func (c12Addr) Network() string { return "hop" }
func (c12Addr) String() string  { return "hop:1" }

func c12SeedRun(c *c12SeedCase) (clause string) {
	val, stack := evidence.Catch(func() {
		var addr net.Addr = c12Addr{}
		if c.UDP {
			addr = &net.UDPAddr{IP: net.IPv4(192, 0, 2, 1), Port: 443}
		}
		byAddr := bbr.GetInitialPacketSize(addr)
		seed := seedPacketSize(congestion.ByteCount(c.Quic), byAddr)
		if seed < 1200 {
			clause = fmt.Sprintf("seed %d below the minimum QUIC datagram size", seed)
			return
		}
		if c.Quic > 0 && int64(seed) > c.Quic {
			clause = fmt.Sprintf("seed %d above QUIC's initial size %d", seed, c.Quic)
			return
		}
		s := bbr.NewBbrSender(bbr.DefaultClock{}, seed, bbr.Profile(c.Profile))
		if c.Raise > 0 {
			s.SetMaxDatagramSize(congestion.ByteCount(c.Raise))
			if w := int64(s.GetCongestionWindow()); w < 4*c.Raise || w > int64(congestion.MaxCongestionWindowPackets)*c.Raise {
				clause = fmt.Sprintf("window %d outside [4,20000] datagrams of %d after the raise", w, c.Raise)
			}
		}
	})
	if val != nil {
		return fmt.Sprintf("panic: %v at %s", val, evidence.PanicSite(stack))
	}
	return clause
}

func c12SeedEnumerate(sh *evidence.Shard) {
	env := sh.Env()
	p := sh.Part("seed", "enum")
	quics := []int64{1200, 1201, 1251, 1252, 1253, 1279, 1280, 1281, 1332, 1428, 1451, 1452}
	deltas := []int64{0, 1, 52, 148, 252}
	p.Alphabet = map[string]any{"quic_initial_packet_size": quics, "remote_addr": []string{"*net.UDPAddr", "other net.Addr"}, "profiles": []string{"conservative", "standard", "aggressive"},
		"reported_size": "none, or QUIC's start size + {1,52,148,252} capped at 1452 (what MTU discovery can report)"}
	var item int64
	for _, q := range quics {
		for _, udp := range []bool{true, false} {
			for _, prof := range []string{"conservative", "standard", "aggressive"} {
				for _, d := range deltas {
					item++
					if !env.Mine(item) {
						continue
					}
					c := c12SeedCase{Quic: q, UDP: udp, Profile: prof}
					if d > 0 {
						c.Raise = min(q+d, 1452)
						if c.Raise == q {
							continue
						}
					}
					p.Evaluations++
					clause := c12SeedRun(&c)
					p.Class(q, udp, d, clause)
					if p.Evaluations%37 == 1 {
						p.Sample(c)
					}
					if clause != "" {
						sh.Violate(p.Name, fmt.Sprintf("seed/%s/quic=%d,udp=%v,profile=%s,reported=%d", clause, q, udp, prof, c.Raise), clause, &c)
					}
				}
			}
		}
	}
}

func TestVerifC12Seed(t *testing.T) {
	evidence.Main(t, "C12", evidence.Seq{
		Run: c12SeedEnumerate,
		Replay: func(part string, raw json.RawMessage) (bool, bool, string) {
			if part != "seed" {
				return false, false, ""
			}
			var c c12SeedCase
			if err := json.Unmarshal(raw, &c); err != nil {
				return true, false, err.Error()
			}
			clause := c12SeedRun(&c)
			return true, clause != "", clause
		},
	})
}
