package bbr

// C12 harness, part 1: deterministic bottleneck simulator that drives the real bbrSender the way
// quic-go's sentPacketHandler drives a congestion controller, and the per-event oracle.
//
// Call discipline reproduced (read off quic-go internal/ackhandler/sent_packet_handler.go and
// connection.go of the pinned fork):
//   - SentPacket: bytesInFlight += size FIRST, then OnPacketSent(t, bytesInFlight, pn, size, true)
//     (so the controller never sees bytesInFlight == 0 on a send; the sub-microsecond-spacing part
//     also drives the other convention, bytes in flight before the packet: see c12Spacing);
//   - ReceivedAck: priorInFlight = bytes in flight before anything is removed; RTT stats updated
//     from the largest newly acked packet BEFORE the event; lost packets = unacked packets below the
//     largest acked that are >= 3 packets behind it or older than 9/8*max(latest,smoothed) RTT;
//     one OnCongestionEventEx(prior, now, acked ascending, lost ascending), never both empty;
//   - loss timer: OnCongestionEventEx(prior, now, nil, lost) (loss-only event);
//   - PTO: two probe packets sent regardless of window and pacer, back-off doubling;
//   - an acknowledged MTU probe: SetMaxDatagramSize(larger) right AFTER the ack's congestion event
//     (connection.go handleAckFrame), before anything else is sent;
//   - send loop: CanSend(bytesInFlight) -> HasPacingBudget(now) -> else wake at TimeUntilSend();
//   - ACK-only packets: OnPacketSent(t, bytesInFlight unchanged, pn, size, false), never acked/lost;
//   - packet numbers strictly increase, gaps allowed; time is monotone.

import (
	"fmt"
	"strings"
	"time"

	"github.com/apernet/quic-go/congestion"
	"github.com/apernet/quic-go/monotime"

	"verif.local/engine/evidence"
)

// ---- fakes --------------------------------------------------------------------------------

// c12RTT mirrors quic-go's utils.RTTStats (initial min/latest/smoothed = 100 ms, RFC 9002 EWMA).
type c12RTT struct {
	has                           bool
	min, latest, smoothed, meanDv time.Duration
	maxAckDelay                   time.Duration
}

func c12NewRTT() *c12RTT {
	return &c12RTT{min: 100 * time.Millisecond, latest: 100 * time.Millisecond, smoothed: 100 * time.Millisecond, maxAckDelay: 25 * time.Millisecond}
}
func (r *c12RTT) MinRTT() time.Duration        { return r.min }
func (r *c12RTT) LatestRTT() time.Duration     { return r.latest }
func (r *c12RTT) SmoothedRTT() time.Duration   { return r.smoothed }
func (r *c12RTT) MeanDeviation() time.Duration { return r.meanDv }
func (r *c12RTT) MaxAckDelay() time.Duration   { return r.maxAckDelay }
func (r *c12RTT) PTO(incl bool) time.Duration {
	if !r.has {
		return 200 * time.Millisecond
	}
	p := r.smoothed + max(4*r.meanDv, time.Millisecond)
	if incl {
		p += r.maxAckDelay
	}
	return p
}
func (r *c12RTT) UpdateRTT(sendDelta, ackDelay time.Duration) {
	if sendDelta <= 0 {
		return
	}
	if !r.has || r.min > sendDelta {
		r.min = sendDelta
	}
	sample := sendDelta
	if sample-r.min >= ackDelay {
		sample -= ackDelay
	}
	r.latest = sample
	if !r.has {
		r.has = true
		r.smoothed = sample
		r.meanDv = sample / 2
		return
	}
	d := r.smoothed - sample
	if d < 0 {
		d = -d
	}
	r.meanDv = (3*r.meanDv + d) / 4
	r.smoothed = (7*r.smoothed + sample) / 8
}
func (r *c12RTT) SetMaxAckDelay(d time.Duration) { r.maxAckDelay = d }
func (r *c12RTT) SetInitialRTT(t time.Duration) {
	if !r.has {
		r.smoothed, r.latest = t, t
	}
}

type c12Clock struct{ s *c12Sim }

func (c c12Clock) Now() monotime.Time { return monotime.Time(c.s.now) }

// ---- configuration ------------------------------------------------------------------------

type c12Path struct {
	Name     string
	Cap      int64 // bytes per second
	RTT      time.Duration
	Queue    int64         // FIFO bytes in front of the bottleneck (plus one packet in service)
	AckEvery int           // receiver acknowledges every n-th packet (or after 25 ms, or at once on a gap)
	QuicSize int64         // datagram size QUIC starts with
	Seed     int64         // size handed to NewBbrSender = seedPacketSize(QuicSize, guess by address)
	Unit     time.Duration // duration of "1 RTT" in the macro-events (0: RTT)
	ColdOnly bool          // loss-free part: only the run from a cold start and the mid-connection installations
}

func (p *c12Path) unit() int64 {
	if p.Unit != 0 {
		return int64(p.Unit)
	}
	return int64(p.RTT)
}

var c12Paths = []c12Path{
	{Name: "1Mbit-20ms-q1bdp", Cap: 125000, RTT: 20 * time.Millisecond, Queue: 2500, AckEvery: 2, QuicSize: 1200, Seed: 1200},
	{Name: "100Mbit-50ms-q0.5bdp", Cap: 12500000, RTT: 50 * time.Millisecond, Queue: 312500, AckEvery: 2, QuicSize: 1280, Seed: 1200},
	{Name: "10Gbit-1ms-q2bdp", Cap: 1250000000, RTT: time.Millisecond, Queue: 2500000, AckEvery: 10, QuicSize: 1280, Seed: 1280},
	{Name: "64KBps-300ms-q4bdp", Cap: 65536, RTT: 300 * time.Millisecond, Queue: 78643, AckEvery: 1, QuicSize: 1280, Seed: 1280},
	// a geostationary-satellite RTT: initial window / min RTT is below the 64 KB/s pacing floor
	// (added after the seeded change C12-4: the floor dropped from the first-sample branch)
	{Name: "2Mbit-800ms-q1bdp", Cap: 250000, RTT: 800 * time.Millisecond, Queue: 200000, AckEvery: 2, QuicSize: 1280, Seed: 1280},
	// a bandwidth-delay product of ~2000 datagrams, 60 initial windows: STARTUP (doubling per round)
	// fills it in 6 round trips, a sender that has left STARTUP too early (+25 % per 8-round gain
	// cycle) needs more than 100, so "settles far below capacity" shows for every profile; loss-free
	// part only (added after the independently seeded change C12-8: STARTUP ended before the first
	// bandwidth sample on a sender installed mid-connection)
	{Name: "1Gbit-20ms-q1bdp", Cap: 125000000, RTT: 20 * time.Millisecond, Queue: 2500000, AckEvery: 2, QuicSize: 1280, Seed: 1280},
	// round-trip times that are not a whole number of milliseconds (LAN / data centre / loopback):
	// below 1 ms with a bandwidth-delay product of ~390 datagrams (5 to 7 times a profile's gain *
	// initial window), below 1 ms with one of ~49 datagrams, and between 1 and 2 ms; every other path
	// has a whole-millisecond RTT. Cold start (every draw) and mid-connection installation only: the
	// application-limited warm-ups are built on wall-clock constants (25 ms delayed ack, 200 ms pause,
	// 200 ms PROBE_RTT after the 11 s idle) that are longer than the whole 200-RTT run here, so the
	// utilisation of that run says nothing about them. Loss-free part only (added after the
	// independently seeded change C12-12: the target window computed from the minimum RTT truncated
	// to whole milliseconds, so it fell back to gain * initial window below 1 ms)
	{Name: "5Gbit-800us-q1bdp", Cap: 625000000, RTT: 800 * time.Microsecond, Queue: 500000, AckEvery: 2, QuicSize: 1280, Seed: 1280, ColdOnly: true},
	{Name: "1Gbit-500us-q1bdp", Cap: 125000000, RTT: 500 * time.Microsecond, Queue: 62500, AckEvery: 2, QuicSize: 1280, Seed: 1280, ColdOnly: true},
	{Name: "1Gbit-1500us-q1bdp", Cap: 125000000, RTT: 1500 * time.Microsecond, Queue: 187500, AckEvery: 2, QuicSize: 1280, Seed: 1280, ColdOnly: true},
}

// long fat path on which the real maximum window (20000 datagrams) is reachable
var c12LongFat = c12Path{Name: "10Gbit-25ms-q1bdp", Cap: 1250000000, RTT: 25 * time.Millisecond, Queue: 31250000, AckEvery: 10, QuicSize: 1280, Seed: 1280}

// tiny-BDP path on which the window sits on its floor of four datagrams
// (capacity*RTT < 1 datagram; macro-events are measured in units of 100 ms instead of the 5 ms RTT)
var c12TinyBDP = c12Path{Name: "1024kbit-4ms-q8KB", Cap: 128000, RTT: 4 * time.Millisecond, Queue: 8192, AckEvery: 1, QuicSize: 1280, Seed: 1280, Unit: 100 * time.Millisecond}

var c12Profiles = []Profile{ProfileConservative, ProfileStandard, ProfileAggressive}

const (
	c12EvClean1 = iota
	c12EvClean12
	c12EvLoss3
	c12EvBurst
	c12EvAgg
	c12EvApp
	c12EvIdle
	c12EvGap
	c12EvMTU52
	c12EvMTU148
	c12EvLossOnly
	c12NEv
)

var c12EvNames = [c12NEv]string{"clean1", "clean12", "loss3rd", "burst", "ackagg", "applim200ms", "idle11s", "pngap1000", "mtu+52", "mtu+148", "lossonly"}

const (
	c12MaxMTU      = 1452 // protocol.MaxPacketBufferSize: MTU discovery never goes beyond
	c12MinPacing   = 65536
	c12RealMaxPkts = int64(congestion.MaxCongestionWindowPackets)
	c12StartTime   = int64(time.Hour) // monotime starts one hour in
	c12SlotSlack   = 16
)

// draws handed to math/rand.Int31n(10000) in enterProbeBandwidthMode (owned through vrand)
var c12DrawVal int64
var c12DrawCnt int64

// packet buffers reused from trace to trace (one trace at a time per process)
var c12FlightBuf, c12RxBuf []c12Pkt

// ---- simulator ----------------------------------------------------------------------------

type c12Pkt struct {
	pn, seq, size int64
	sent, ackAt   int64
	lost          bool  // never reaches the receiver
	mtuTo         int64 // >0: MTU probe; acknowledged => SetMaxDatagramSize(mtuTo)
	gap           bool  // receiver sees a hole right before this packet: acks at once
}

type c12Gap struct{ end, n int64 } // n skipped numbers ending right below packet number end

type c12Sim struct {
	path    *c12Path
	profile Profile
	maxPkts int64
	b       *bbrSender
	rtt     *c12RTT
	now     int64

	nextPN, seq   int64
	qSize, ccSize int64
	inflight      int64
	flight        []c12Pkt // unacked, not yet declared lost, in send order
	fh            int
	rx            []c12Pkt // will reach the receiver, not yet acknowledged, in order
	rh            int
	rxGap         bool
	largestAcked  int64
	largestSeq    int64
	lossTime      int64
	lastElicit    int64
	ptoCount      uint
	lastDep       int64
	gaps          []c12Gap

	hasData    bool
	drop3      bool
	evSent     int64
	sendCap    int64 // >=0: at most this many more packets from pump
	holdUntil  int64
	mtuPending int64
	stopEmpty  bool
	untilPN    int64 // >=0: run returns once every packet up to this number is resolved
	gapAllow   int64 // skipped packet numbers not yet passed by the acks

	ackedInfo []congestion.AckedPacketInfo
	lostInfo  []congestion.LostPacketInfo
	keep      []c12Pkt

	// oracle
	clause string // first violated clause (kind, stable)
	detail string
	infra  string // simulator self-check failure (not a property violation)
	events int64
	steps  int64

	// observation
	ackedBytes int64
	peakAllow  int64
	maxSlots   int64
	maxA0      int64
	modeSeen   [4][3]int64
	trans      []byte
	lastMode   int
	lossOnly   int64
	ptos       int64
	mtuRaises  int64
	tailDrops  int64
	sentPkts   int64
	ackOnly    int64
	atFloor    int64
	atCeil     int64
	spacedSent int64 // packets sent by spaced

	// priorOnSend: OnPacketSent is given the bytes in flight BEFORE the packet (0 on the send that
	// ends quiescence) instead of quic-go's "including the packet"; see c12Spacing
	priorOnSend bool
}

func c12NewSim(path *c12Path, profile Profile, maxPkts int64) *c12Sim {
	s := &c12Sim{path: path, profile: profile, maxPkts: maxPkts, now: c12StartTime, largestAcked: -1, lastMode: -1, sendCap: -1, untilPN: -1}
	s.rtt = c12NewRTT()
	s.qSize, s.ccSize = path.QuicSize, path.Seed
	seed := congestion.ByteCount(path.Seed)
	if maxPkts == c12RealMaxPkts {
		s.b = NewBbrSender(c12Clock{s}, seed, profile)
	} else {
		s.b = newBbrSender(c12Clock{s}, seed, initialCongestionWindowPackets*seed, congestion.ByteCount(maxPkts)*seed, profile)
	}
	s.b.SetRTTStatsProvider(s.rtt)
	s.check("initial state")
	return s
}

func (s *c12Sim) fail(clause, format string, a ...any) {
	if s.clause == "" {
		s.clause = clause
		s.detail = fmt.Sprintf("event %d at t=%.6fs: ", s.events, float64(s.now-c12StartTime)/1e9) + fmt.Sprintf(format, a...)
	}
}

var c12ModeNames = [4]string{"S", "D", "B", "R"} // startup, drain, probe_bw, probe_rtt

// check is the per-event oracle (after every congestion event and every datagram-size raise).
func (s *c12Sim) check(where string) {
	b := s.b
	d := s.ccSize
	cw := int64(b.GetCongestionWindow())
	if cw < 4*d {
		s.fail("cwnd<4*datagram", "%s: GetCongestionWindow()=%d < 4*%d (mode %d, recovery %d)", where, cw, d, b.mode, b.recoveryState)
	}
	if cw == 4*d {
		s.atFloor++
	}
	if cw >= s.maxPkts*d-d {
		s.atCeil++
	}
	if cw > s.maxPkts*d {
		s.fail("cwnd>max", "%s: GetCongestionWindow()=%d > %d*%d", where, cw, s.maxPkts, d)
	}
	if bw := int64(b.bandwidthForPacer()); bw < c12MinPacing {
		s.fail("pacing<64KB/s", "%s: bandwidthForPacer()=%d B/s (mode %d, pacing gain %.3f, estimate %d bit/s)", where, bw, b.mode, b.pacingGain, uint64(b.bandwidthEstimate()))
	}
	// bookkeeping proportional to packets in flight (+ skipped packet numbers not yet passed by acks)
	pkts := int64(len(s.flight) - s.fh)
	s.gapAllow = 0
	for _, g := range s.gaps {
		if g.end > s.largestAcked-3 {
			s.gapAllow += g.n
		}
	}
	allow := pkts + s.gapAllow + c12SlotSlack
	if allow > s.peakAllow {
		s.peakAllow = allow
	}
	q := b.sampler.connectionStateMap
	slots := int64(q.EntrySlotsUsed())
	if slots > s.maxSlots {
		s.maxSlots = slots
	}
	if slots > allow {
		s.fail("bookkeeping", "%s: connectionStateMap uses %d slots (%d present) with %d packets in flight, allowance %d", where, slots, q.NumberOfPresentEntries(), pkts, allow)
	}
	if c := int64(len(q.entries.ring)); c > max(defaultConnectionStateMapQueueSize, 2*s.peakAllow) {
		s.fail("bookkeeping", "%s: connectionStateMap ring capacity %d > 2*peak allowance %d", where, c, s.peakAllow)
	}
	a0 := int64(b.sampler.a0Candidates.Len())
	if a0 > s.maxA0 {
		s.maxA0 = a0
	}
	if a0 > s.peakAllow {
		// one ack point per aggregation epoch started since the packet now being acknowledged was
		// sent, i.e. bounded by the ack events of one round trip: compared with the peak, not the
		// current, number of packets in flight
		s.fail("bookkeeping", "%s: a0Candidates holds %d ack points, peak packets in flight so far %d", where, a0, s.peakAllow-c12SlotSlack)
	}
	// liveness: with nothing in flight no ack will ever reopen the window
	if s.inflight == 0 && !b.CanSend(0) {
		s.fail("deadlock", "%s: nothing in flight and CanSend(0)=false (window %d)", where, cw)
	}
	m, r := int(b.mode), int(b.recoveryState)
	if m >= 0 && m < 4 && r >= 0 && r < 3 {
		s.modeSeen[m][r]++
		if m != s.lastMode {
			s.lastMode = m
			if len(s.trans) < 24 {
				s.trans = append(s.trans, c12ModeNames[m][0])
			}
		}
	}
}

func (s *c12Sim) send(size, mtuTo int64) {
	pn := s.nextPN
	s.nextPN++
	s.seq++
	s.sentPkts++
	s.inflight += size
	reported := s.inflight
	if s.priorOnSend {
		reported -= size
	}
	s.b.OnPacketSent(monotime.Time(s.now), congestion.ByteCount(reported), congestion.PacketNumber(pn), congestion.ByteCount(size), true)
	s.lastElicit = s.now
	drop := false
	if s.drop3 {
		s.evSent++
		if s.evSent%3 == 0 {
			drop = true
		}
	}
	if !drop {
		var backlog int64
		if s.lastDep > s.now {
			backlog = (s.lastDep - s.now) * s.path.Cap / 1e9
		}
		if backlog+size > s.path.Queue+1500 {
			drop = true
			s.tailDrops++
		}
	}
	p := c12Pkt{pn: pn, seq: s.seq, size: size, sent: s.now, lost: drop, mtuTo: mtuTo}
	if drop {
		s.rxGap = true
	} else {
		start := max(s.now, s.lastDep)
		s.lastDep = start + size*1e9/s.path.Cap
		p.ackAt = s.lastDep + int64(s.path.RTT)
		p.gap = s.rxGap
		s.rxGap = false
		s.rx = append(s.rx, p)
	}
	s.flight = append(s.flight, p)
	if a := int64(len(s.flight)-s.fh) + s.gapAllow + c12SlotSlack; a > s.peakAllow {
		s.peakAllow = a
	}
}

// sendAckOnly: quic-go reports ACK-only packets too (isRetransmittable=false); they never come
// back in a congestion event and leave a hole in the controller's per-packet map.
func (s *c12Sim) sendAckOnly() {
	pn := s.nextPN
	s.nextPN++
	s.seq++
	s.ackOnly++
	s.b.OnPacketSent(monotime.Time(s.now), congestion.ByteCount(s.inflight), congestion.PacketNumber(pn), 40, false)
	s.gaps = append(s.gaps, c12Gap{end: pn + 1, n: 1})
	s.gapAllow++
}

// pump sends while the window and the pacer allow; returns the pacing wake-up time (0: none).
func (s *c12Sim) pump() int64 {
	for s.hasData && s.sendCap != 0 && s.clause == "" {
		if !s.b.CanSend(congestion.ByteCount(s.inflight)) {
			if s.inflight == 0 {
				s.fail("deadlock", "send loop: nothing in flight and CanSend(0)=false")
			}
			return 0
		}
		now := monotime.Time(s.now)
		if !s.b.HasPacingBudget(now) {
			t := s.b.TimeUntilSend(congestion.ByteCount(s.inflight))
			if int64(t) <= s.now {
				s.fail("stuck:pacer-spin", "send loop: HasPacingBudget(now)=false but TimeUntilSend()=%d is not after now=%d (quic-go re-arms the pacing timer forever)", int64(t), s.now)
				return 0
			}
			return int64(t)
		}
		size, mtuTo := s.qSize, int64(0)
		if s.mtuPending > 0 {
			size, mtuTo = s.mtuPending, s.mtuPending
			s.mtuPending = 0
		}
		s.send(size, mtuTo)
		if s.sendCap > 0 {
			s.sendCap--
		}
	}
	return 0
}

func (s *c12Sim) lossDelay() int64 {
	d := int64(float64(max(s.rtt.latest, s.rtt.smoothed)) * 9.0 / 8)
	return max(d, int64(time.Millisecond))
}

// nextAck: time of the next ACK arrival and how many leading rx packets it acknowledges.
func (s *c12Sim) nextAck() (int64, int) {
	if s.rh >= len(s.rx) {
		return 0, 0
	}
	timer := s.rx[s.rh].ackAt + int64(25*time.Millisecond)
	t, n := timer, 0
	for j := s.rh; j < len(s.rx) && j < s.rh+s.path.AckEvery; j++ {
		r := &s.rx[j]
		if r.ackAt > timer {
			break
		}
		n = j - s.rh + 1
		if r.gap || n == s.path.AckEvery {
			t = r.ackAt
			break
		}
	}
	if t < s.holdUntil {
		t = s.holdUntil
		n = 0
		for j := s.rh; j < len(s.rx) && s.rx[j].ackAt <= t; j++ {
			n++
		}
	}
	if t < s.now {
		t = s.now
	}
	if n == 0 {
		n = 1
	}
	return t, n
}

func (s *c12Sim) congestionEvent(prior int64, where string) {
	if len(s.ackedInfo) == 0 && len(s.lostInfo) == 0 {
		s.infra = "simulator produced an empty congestion event"
		return
	}
	s.events++
	s.b.OnCongestionEventEx(congestion.ByteCount(prior), monotime.Time(s.now), s.ackedInfo, s.lostInfo)
	s.check(where)
}

func (s *c12Sim) compactFlight() {
	if s.fh > 4096 && s.fh > len(s.flight)/2 {
		n := copy(s.flight, s.flight[s.fh:])
		s.flight = s.flight[:n]
		s.fh = 0
	}
	if s.rh > 4096 && s.rh > len(s.rx)/2 {
		n := copy(s.rx, s.rx[s.rh:])
		s.rx = s.rx[:n]
		s.rh = 0
	}
}

func (s *c12Sim) onAck(n int) {
	acked := s.rx[s.rh : s.rh+n]
	last := &acked[n-1]
	prior := s.inflight
	// RTT stats first (largest acked newly acknowledged, ack-eliciting)
	s.rtt.UpdateRTT(time.Duration(s.now-last.sent), 0)
	if last.pn <= s.largestAcked {
		s.infra = "simulator acked out of order"
		return
	}
	s.largestAcked, s.largestSeq = last.pn, last.seq
	s.ptoCount = 0
	ld := s.lossDelay()
	s.ackedInfo, s.lostInfo, s.keep = s.ackedInfo[:0], s.lostInfo[:0], s.keep[:0]
	s.lossTime = 0
	var mtuTo int64
	k, ai := s.fh, 0
	for k < len(s.flight) && s.flight[k].pn <= s.largestAcked {
		p := &s.flight[k]
		k++
		if ai < n && acked[ai].pn == p.pn {
			ai++
			s.ackedInfo = append(s.ackedInfo, congestion.AckedPacketInfo{PacketNumber: congestion.PacketNumber(p.pn), BytesAcked: congestion.ByteCount(p.size)})
			s.inflight -= p.size
			s.ackedBytes += p.size
			if p.mtuTo > mtuTo {
				mtuTo = p.mtuTo
			}
			continue
		}
		if !p.lost {
			s.infra = fmt.Sprintf("simulator: delivered packet %d below largest acked %d was never acknowledged", p.pn, s.largestAcked)
			return
		}
		if s.largestSeq-p.seq >= 3 || p.sent <= s.now-ld {
			s.lostInfo = append(s.lostInfo, congestion.LostPacketInfo{PacketNumber: congestion.PacketNumber(p.pn), BytesLost: congestion.ByteCount(p.size)})
			s.inflight -= p.size
		} else {
			s.keep = append(s.keep, *p)
			if s.lossTime == 0 {
				s.lossTime = p.sent + ld
			}
		}
	}
	if ai != n {
		s.infra = "simulator: acknowledged packet not in flight"
		return
	}
	k -= len(s.keep)
	copy(s.flight[k:], s.keep)
	s.fh = k
	s.rh += n
	s.congestionEvent(prior, "after ack event")
	if mtuTo > s.qSize {
		s.qSize = mtuTo
	}
	if mtuTo > s.ccSize && s.clause == "" {
		s.ccSize = mtuTo
		s.mtuRaises++
		s.b.SetMaxDatagramSize(congestion.ByteCount(mtuTo))
		s.check("after SetMaxDatagramSize")
	}
	s.compactFlight()
}

func (s *c12Sim) onLossTimer() {
	ld := s.lossDelay()
	prior := s.inflight
	s.ackedInfo, s.lostInfo, s.keep = s.ackedInfo[:0], s.lostInfo[:0], s.keep[:0]
	s.lossTime = 0
	k := s.fh
	for k < len(s.flight) && s.flight[k].pn < s.largestAcked {
		p := &s.flight[k]
		k++
		if p.sent <= s.now-ld {
			s.lostInfo = append(s.lostInfo, congestion.LostPacketInfo{PacketNumber: congestion.PacketNumber(p.pn), BytesLost: congestion.ByteCount(p.size)})
			s.inflight -= p.size
		} else {
			s.keep = append(s.keep, *p)
			if s.lossTime == 0 {
				s.lossTime = p.sent + ld
			}
		}
	}
	k -= len(s.keep)
	copy(s.flight[k:], s.keep)
	s.fh = k
	if len(s.lostInfo) > 0 {
		s.lossOnly++
		s.congestionEvent(prior, "after loss-only event")
	} else if s.lossTime != 0 && s.lossTime <= s.now {
		s.infra = "simulator: loss timer does not make progress"
	}
}

func (s *c12Sim) onPTO() {
	s.ptos++
	if s.ptoCount < 20 {
		s.ptoCount++
	}
	if s.hasData {
		s.send(s.qSize, 0)
		s.send(s.qSize, 0)
	} else {
		s.send(40, 0) // PING
	}
}

// run advances the simulation to time until (inclusive), processing events in time order
// (ack < loss timer < PTO < pacing wake-up at equal times).
func (s *c12Sim) run(until int64) {
	for s.clause == "" && s.infra == "" {
		s.steps++
		if s.steps > 50_000_000 {
			s.infra = "simulator step limit"
			return
		}
		wake := s.pump()
		if s.clause != "" {
			return
		}
		if s.stopEmpty && s.inflight == 0 && s.sendCap <= 0 {
			return
		}
		if s.untilPN >= 0 && (s.fh >= len(s.flight) || s.flight[s.fh].pn > s.untilPN) {
			return
		}
		const (
			kEnd = iota
			kAck
			kLoss
			kPTO
			kWake
		)
		t, kind, nAck := until+1, kEnd, 0
		if ta, n := s.nextAck(); n > 0 && ta < t {
			t, kind, nAck = ta, kAck, n
		}
		if s.lossTime != 0 && s.lossTime < t {
			t, kind = max(s.lossTime, s.now), kLoss
		} else if s.lossTime == 0 && s.inflight > 0 {
			if tp := s.lastElicit + int64(s.rtt.PTO(true))<<s.ptoCount; tp < t {
				t, kind = max(tp, s.now), kPTO
			}
		}
		if wake != 0 && wake < t {
			t, kind = wake, kWake
		}
		if kind == kEnd || t > until {
			s.now = until
			return
		}
		if t < s.now {
			s.infra = "simulator: time went backwards"
			return
		}
		s.now = t
		switch kind {
		case kAck:
			s.onAck(nAck)
		case kLoss:
			s.onLossTimer()
		case kPTO:
			s.onPTO()
		case kWake:
			// pump at the top of the loop re-evaluates the pacer at the announced time
		}
	}
}

func (s *c12Sim) burstLoss() {
	for i := s.fh; i < len(s.flight); i++ {
		s.flight[i].lost = true
	}
	s.rx = s.rx[:s.rh]
	s.rxGap = true
	s.lastDep = s.now
}

// c12Ping: K request/response exchanges. In each the application has N packets to send, sends
// them as the window and the pacer allow, then has nothing more until every one is acknowledged
// (the connection goes fully idle: the ack of the LAST packet sent empties the pipe), waits Think
// round trips, and starts the next exchange. Events of the loss-free part only (codes >= c12NEv),
// not of the general macro-event alphabet. Added after the seeded change C12-5 (the sampler left
// the application-limited phase on the ack of the packet that ended it, so a run of one-packet
// exchanges counted as genuine bandwidth samples).
type c12Ping struct {
	K     int
	N     int64
	Think int
}

func (g c12Ping) name() string { return fmt.Sprintf("pingpong%dx%dpkt+%drtt", g.K, g.N, g.Think) }

var c12Pings = []c12Ping{{3, 1, 0}, {5, 1, 0}, {12, 1, 0}, {30, 1, 0}, {12, 1, 1}, {12, 2, 0}, {12, 10, 0}, {30, 3, 1}}

func (s *c12Sim) pingpong(g c12Ping) {
	R := s.path.unit()
	for i := 0; i < g.K && s.clause == "" && s.infra == ""; i++ {
		s.hasData, s.sendCap, s.stopEmpty = true, g.N, true
		s.run(s.now + int64(60*time.Second))
		if s.sendCap > 0 && s.clause == "" && s.infra == "" {
			s.infra = fmt.Sprintf("simulator: exchange %d did not complete within 60 s", i)
		}
		s.stopEmpty, s.sendCap, s.hasData = false, -1, false
		if g.Think > 0 {
			s.run(s.now + int64(g.Think)*R)
		}
	}
}

// c12Earlier: the sender is INSTALLED IN THE MIDDLE OF A LIVE CONNECTION, which is how hysteria
// always installs it (SetCongestionControl from the authentication handler, after the handshake):
// K*J packets that the previous controller sent are still in flight. quic-go reports their
// acknowledgements to the new controller (K ack events of J packets each, 1 ms apart, bytes in
// flight including them): packet numbers it never saw in OnPacketSent. Busy=false: the application
// has nothing to send until they are all acknowledged (a client that authenticates and then waits
// for its first request), so the controller has sent nothing when the events arrive; Busy=true: it
// sends from the moment it is installed. Must be the first event of a trace. Events of the loss-free
// part only (codes >= c12NEv+len(c12Pings)). Added after the independently seeded change C12-8
// (0/0 growth ratio: a round without any bandwidth estimate counted as a round without growth, so
// STARTUP ended before the first sample on a sender installed mid-connection).
type c12Earlier struct {
	K    int
	J    int64
	Busy bool
}

func (g c12Earlier) name() string {
	w := "idle"
	if g.Busy {
		w = "sending"
	}
	return fmt.Sprintf("installed-mid-connection:%dx%dpkt-of-previous-controller-acked-while-%s", g.K, g.J, w)
}

var c12Earliers = func() (l []c12Earlier) {
	for _, busy := range []bool{false, true} {
		for _, k := range []int{1, 2, 3, 4, 5, 6} { // numStartupRtts is 2 / 3 / 4
			for _, j := range []int64{1, 2} {
				l = append(l, c12Earlier{k, j, busy})
			}
		}
	}
	return l
}()

func (s *c12Sim) earlier(g c12Earlier) {
	if s.nextPN != 0 || s.sentPkts != 0 || s.events != 0 {
		s.infra = "simulator: installed-mid-connection must be the first event of a trace"
		return
	}
	n := int64(g.K) * g.J
	s.rtt.UpdateRTT(s.path.RTT, 0) // the handshake has measured the path
	for i := int64(0); i < n; i++ {
		ackAt := s.now + (i/g.J+1)*int64(time.Millisecond)
		s.seq++
		// the connection, not the controller, sent it: no OnPacketSent
		p := c12Pkt{pn: i, seq: s.seq, size: s.qSize, sent: ackAt - int64(s.path.RTT), ackAt: ackAt, gap: i%g.J == g.J-1} // gap: acknowledged at once
		s.inflight += p.size
		s.flight = append(s.flight, p)
		s.rx = append(s.rx, p)
		s.lastElicit = max(s.lastElicit, p.sent)
	}
	s.nextPN = n
	s.hasData = g.Busy
	s.untilPN = n - 1
	s.run(s.now + int64(60*time.Second))
	s.untilPN = -1
	if s.clause == "" && s.infra == "" && (s.largestAcked < n-1 || s.events < int64(g.K)) {
		s.infra = fmt.Sprintf("simulator: the %d packets of the previous controller were not acknowledged in %d events (largest acked %d, events %d)", n, g.K, s.largestAcked, s.events)
	}
}

// spaced: time GRANULARITY of sends and ack events. The application has n packets to send; the
// connection sends them sendGap NANOSECONDS apart (one send burst on a fast host: quic-go stamps
// every packet of a burst with its own clock reading), window and pacer permitting (the send loop's
// discipline; what they do not admit is not sent), and has nothing more until all are
// acknowledged. The packets reach the receiver over a link that does not spread them (the bottleneck
// model would: its serialisation delay is >= 1 us per packet on every path), and are acknowledged
// one by one, ackGap nanoseconds apart (compressed acks), the first one path RTT after the first
// send. Everything else the bottleneck simulator produces is spaced by whole serialisation delays
// (>= 1 us) or not at all (a burst within one pump has one timestamp). The per-event oracle judges
// every event. Added after the independently seeded change C12-13 (BandwidthFromDelta computed
// from delta.Microseconds(): a send-rate sample over two sends less than 1 us apart divided by 0).
func (s *c12Sim) spaced(n int, sendGap, ackGap int64) {
	s.hasData, s.drop3, s.evSent, s.stopEmpty, s.sendCap = false, false, 0, false, -1
	first := len(s.rx)
	base := s.now + int64(s.path.RTT)
	if first > s.rh {
		base = max(base, s.rx[first-1].ackAt) // acknowledgements stay in order
	}
	for i := 0; i < n && s.clause == ""; i++ {
		if i > 0 {
			s.now += sendGap
		}
		if !s.b.CanSend(congestion.ByteCount(s.inflight)) || !s.b.HasPacingBudget(monotime.Time(s.now)) {
			break
		}
		s.send(s.qSize, 0)
	}
	for i := first; i < len(s.rx); i++ {
		s.rx[i].ackAt = base + int64(i-first)*ackGap
		s.rx[i].gap = true // acknowledged at once, on its own
	}
	s.spacedSent += int64(len(s.rx) - first)
	if s.fh < len(s.flight) && s.clause == "" {
		s.untilPN = s.nextPN - 1
		s.run(s.now + int64(60*time.Second))
		s.untilPN = -1
	}
}

// macro executes one macro-event of the alphabet.
func (s *c12Sim) macro(ev int) {
	R := s.path.unit()
	s.hasData, s.drop3, s.evSent, s.stopEmpty, s.sendCap = true, false, 0, false, -1
	if ev >= c12NEv+len(c12Pings) {
		s.earlier(c12Earliers[ev-c12NEv-len(c12Pings)])
		s.hasData = true
		return
	}
	if ev >= c12NEv {
		s.pingpong(c12Pings[ev-c12NEv])
		s.hasData = true
		return
	}
	switch ev {
	case c12EvClean1:
		s.run(s.now + R)
	case c12EvClean12:
		s.run(s.now + 12*R)
	case c12EvLoss3:
		s.drop3 = true
		s.run(s.now + R)
		s.drop3 = false
	case c12EvBurst:
		// every packet in flight is lost; run until QUIC has declared all of them lost (through acks
		// of later packets or a PTO probe), at most 2 RTT + PTO, then one more RTT
		if s.fh < len(s.flight) {
			s.burstLoss()
			s.untilPN = s.nextPN - 1
			s.run(s.now + 2*R + int64(s.rtt.PTO(true)))
			s.untilPN = -1
		}
		s.run(s.now + R)
	case c12EvAgg:
		s.holdUntil = s.now + R
		s.run(s.holdUntil)
	case c12EvApp:
		// nothing to send for 200 ms, but the connection keeps receiving: an ACK-only packet (not
		// ack-eliciting, not in flight, consumes a packet number) goes out every 25 ms
		s.hasData = false
		for i := 0; i < 8 && s.clause == "" && s.infra == ""; i++ {
			s.run(s.now + int64(25*time.Millisecond))
			s.sendAckOnly()
		}
	case c12EvIdle:
		s.hasData = false
		s.run(s.now + int64(11*time.Second))
	case c12EvGap:
		s.nextPN += 1000
		s.gaps = append(s.gaps, c12Gap{end: s.nextPN, n: 1000})
		s.gapAllow += 1000
		s.rxGap = true
		s.run(s.now + R)
	case c12EvMTU52, c12EvMTU148:
		delta := int64(52)
		if ev == c12EvMTU148 {
			delta = 148
		}
		if s.mtuPending == 0 {
			if n := min(s.qSize+delta, c12MaxMTU); n > s.qSize {
				s.mtuPending = n
			}
		}
		s.run(s.now + R)
	case c12EvLossOnly:
		// the application runs dry with the second-to-last packet lost: the last ack leaves it
		// inside the reordering threshold, so only the loss timer can declare it (loss-only event)
		if len(s.flight)-s.fh < 2 {
			s.sendCap = 2
			s.pump()
			s.sendCap = -1
		}
		s.hasData = false
		if n := len(s.flight); n-s.fh >= 2 && !s.flight[n-1].lost && !s.flight[n-2].lost && len(s.rx)-s.rh >= 2 {
			s.flight[n-2].lost = true
			m := len(s.rx)
			s.rx[m-2] = s.rx[m-1]
			s.rx[m-2].gap = true
			s.rx = s.rx[:m-1]
		}
		s.stopEmpty = true
		s.run(s.now + int64(30*time.Second))
		s.stopEmpty = false
	}
}

// ---- one case -------------------------------------------------------------------------------

type c12Case struct {
	Part    string `json:"part"`
	Profile string `json:"profile"`
	Path    int    `json:"path"` // index into c12Paths; -1 = long fat path, -2 = tiny-BDP path
	MaxPkts int64  `json:"max_window_packets"`
	Prefix  []int  `json:"prefix,omitempty"`
	Seq     []int  `json:"seq"`
	Draw    int64  `json:"draw"`
	RTTs    int    `json:"rtts,omitempty"` // loss-free part: length of the clean run
	// raise-at-boundary-windows part: after the prefix the window fields are set to a boundary value
	// (as the upstream tests do) and QUIC reports a datagram size raised by Raise
	ForceWin string `json:"force_window,omitempty"`
	ForceRec string `json:"force_recovery_window,omitempty"`
	Raise    int64  `json:"raise,omitempty"`
	// sub-microsecond-spacing part: after the prefix the application sends Burst packets SendGapNs
	// apart, acknowledged one by one AckGapNs apart (see spaced), then Seq
	Burst     int   `json:"burst,omitempty"`
	SendGapNs int64 `json:"send_gap_ns,omitempty"`
	AckGapNs  int64 `json:"ack_gap_ns,omitempty"`
	// every OnPacketSent of the trace reports the bytes in flight before the packet (see c12Spacing)
	PriorOnSend bool `json:"bytes_in_flight_on_send_exclude_the_packet,omitempty"`
}

// c12Boundary resolves a boundary label against the sender's current window constants.
func c12Boundary(b *bbrSender, label string) (v int64, ok bool) {
	switch label {
	case "min":
		return int64(b.minCongestionWindow), true
	case "min+1":
		return int64(b.minCongestionWindow) + 1, true
	case "min+datagram":
		return int64(b.minCongestionWindow + b.maxDatagramSize), true
	case "initial-1":
		return int64(b.initialCongestionWindow) - 1, true
	case "initial":
		return int64(b.initialCongestionWindow), true
	case "initial+1":
		return int64(b.initialCongestionWindow) + 1, true
	case "max-1":
		return int64(b.maxCongestionWindow) - 1, true
	case "max":
		return int64(b.maxCongestionWindow), true
	}
	return 0, false
}

var c12WinLabels = []string{"min", "min+1", "min+datagram", "initial-1", "initial", "initial+1", "max-1", "max"}
var c12RecLabels = []string{"", "min", "min+datagram", "max"}

type c12Result struct {
	clause, detail, infra string
	drawUsed              bool
	shape                 string
	sim                   *c12Sim
	util                  float64
	utilMinWin            float64 // lowest utilisation of a 40-RTT window after the first 40 RTT
}

func c12PathOf(i int) *c12Path {
	if i == -1 {
		return &c12LongFat
	}
	if i == -2 {
		return &c12TinyBDP
	}
	return &c12Paths[i]
}

func c12SeqNames(seq []int) string {
	n := make([]string, len(seq))
	for i, e := range seq {
		if e >= c12NEv+len(c12Pings) {
			n[i] = c12Earliers[e-c12NEv-len(c12Pings)].name()
			continue
		}
		if e >= c12NEv {
			n[i] = c12Pings[e-c12NEv].name()
			continue
		}
		n[i] = c12EvNames[e]
	}
	return "[" + strings.Join(n, ",") + "]"
}

// c12Run executes one trace on a fresh sender. Must run inside the vsched execution so that the
// PROBE_BW cycle offset is the enumerated draw.
func c12Run(c *c12Case) (res c12Result) {
	c12DrawVal, c12DrawCnt = c.Draw, 0
	var s *c12Sim
	val, stack := evidence.Catch(func() {
		s = c12NewSim(c12PathOf(c.Path), Profile(c.Profile), c.MaxPkts)
		s.flight, s.rx = c12FlightBuf[:0], c12RxBuf[:0]
		c12FlightBuf, c12RxBuf = nil, nil
		res.sim = s
		s.priorOnSend = c.PriorOnSend
		if c.RTTs > 0 {
			R := s.path.unit()
			for _, e := range c.Prefix {
				if s.clause != "" || s.infra != "" {
					return
				}
				s.macro(e)
			}
			if s.clause != "" || s.infra != "" {
				return
			}
			s.hasData, s.sendCap, s.stopEmpty = true, -1, false
			s.run(s.now + 40*R)
			mark := s.ackedBytes
			res.utilMinWin = 10
			for done := 40; done < c.RTTs && s.clause == "" && s.infra == ""; done += 40 {
				n := min(40, c.RTTs-done)
				m0 := s.ackedBytes
				s.run(s.now + int64(n)*R)
				if n == 40 {
					res.utilMinWin = min(res.utilMinWin, float64(s.ackedBytes-m0)/(float64(s.path.Cap)*float64(40*R)/1e9))
				}
			}
			res.util = float64(s.ackedBytes-mark) / (float64(s.path.Cap) * float64(int64(c.RTTs-40)*R) / 1e9)
			return
		}
		for _, e := range c.Prefix {
			if s.clause != "" || s.infra != "" {
				break
			}
			s.macro(e)
		}
		if c.Raise > 0 && s.clause != "" {
			s.detail = "(while running the prefix, before the window was set) " + s.detail
		}
		if c.Raise > 0 && s.clause == "" && s.infra == "" {
			if v, ok := c12Boundary(s.b, c.ForceWin); ok {
				s.b.congestionWindow = congestion.ByteCount(v)
			}
			if v, ok := c12Boundary(s.b, c.ForceRec); ok {
				s.b.recoveryWindow = congestion.ByteCount(v)
			}
			res.shape = fmt.Sprintf("%s/m%d/r%d", string(s.trans), s.b.mode, s.b.recoveryState)
			if n := min(s.qSize+c.Raise, c12MaxMTU); n > s.ccSize {
				s.qSize, s.ccSize = n, n
				s.mtuRaises++
				s.b.SetMaxDatagramSize(congestion.ByteCount(n))
				s.check(fmt.Sprintf("after SetMaxDatagramSize(%d) with window=%s recovery window=%q", n, c.ForceWin, c.ForceRec))
			}
		}
		if c.Burst > 0 && s.clause == "" && s.infra == "" {
			s.spaced(c.Burst, c.SendGapNs, c.AckGapNs)
		}
		for _, e := range c.Seq {
			if s.clause != "" || s.infra != "" {
				break
			}
			s.macro(e)
		}
	})
	res.drawUsed = c12DrawCnt > 0
	if s != nil {
		c12FlightBuf, c12RxBuf = s.flight, s.rx
	}
	if val != nil {
		res.clause = "panic at " + evidence.PanicSite(stack)
		ev, t := int64(-1), 0.0
		if s != nil {
			ev, t = s.events, float64(s.now-c12StartTime)/1e9
		}
		res.detail = fmt.Sprintf("event %d at t=%.6fs: panic: %v", ev, t, val)
	} else if s != nil {
		res.clause, res.detail, res.infra = s.clause, s.detail, s.infra
	}
	if s != nil && res.shape == "" {
		res.shape = string(s.trans)
	}
	return res
}
