package bbr

import (
	"fmt"
	"os"
	"sort"
	"testing"

	"verif.local/engine/enum"
)

// TestVerifC12Debug is a development aid (not run by vcheck): cost per trace.
func TestVerifC12Debug(t *testing.T) {
	if os.Getenv("C12_DEBUG") == "" {
		t.Skip()
	}
	c12Owned(func() {
		for pi := range c12Paths {
			type row struct {
				seq  string
				pkts int64
				ev   int64
				sh   string
			}
			var rows []row
			var tot int64
			perEv := map[int]int64{}
			enum.Sequences(c12NEv, 3, func(seq []int) bool {
				c := c12Case{Profile: "standard", Path: pi, MaxPkts: c12RealMaxPkts, Seq: append([]int{}, seq...), Draw: 7}
				r := c12Run(&c)
				rows = append(rows, row{c12SeqNames(seq), r.sim.sentPkts, r.sim.events, r.shape})
				tot += r.sim.sentPkts
				if len(seq) == 3 {
					perEv[seq[2]] += r.sim.sentPkts
				}
				return true
			})
			sort.Slice(rows, func(i, j int) bool { return rows[i].pkts > rows[j].pkts })
			fmt.Printf("%s: %d traces, %d packets total, avg %d\n", c12Paths[pi].Name, len(rows), tot, tot/int64(len(rows)))
			for _, r := range rows[:12] {
				fmt.Printf("   %-40s pkts=%d events=%d %s\n", r.seq, r.pkts, r.ev, r.sh)
			}
			for e := 0; e < c12NEv; e++ {
				fmt.Printf("   last=%-12s total=%d\n", c12EvNames[e], perEv[e])
			}
		}
	})
}
