package client

// C05 harness, unit "client-send" (injected by overlay into core/client): the real client send path
// udpConn.Send over a fake SendFunc that enforces a datagram limit exactly like
// udpIOImpl.SendMessage + quic SendDatagram do (Serialize into the caller's buffer, silent drop when
// the buffer is too small, *quic.DatagramTooLargeError when the datagram exceeds the limit).
// Receiving side: protocol.ParseUDPMessage + the real udpConn.Receive (ReceiveCh -> Defragger.Feed).
//
// Everything below the "common" marker is textually identical in sendpath_server_test.go
// (regenerate with sync_common.sh after editing the server file).

import (
	"bytes"
	"encoding/json"
	"fmt"
	"io"
	"sort"
	"strings"
	"testing"

	"github.com/apernet/quic-go"

	"github.com/apernet/hysteria/core/v2/internal/protocol"
	"verif.local/engine/enum"
	"verif.local/engine/evidence"
	"verif.local/engine/vpriv"
)

const c05Side = "client"

// c05ClientIO is the udpIO of a real udpSessionManager: outbound datagrams go to send, inbound
// ones are taken from in (closing in ends the manager's receive loop, as a lost connection does).
type c05ClientIO struct {
	send func([]byte, *protocol.UDPMessage) error
	in   chan *protocol.UDPMessage
}

func (r *c05ClientIO) ReceiveMessage() (*protocol.UDPMessage, error) {
	m, ok := <-r.in
	if !ok {
		return nil, io.EOF
	}
	return m, nil
}
func (r *c05ClientIO) SendMessage(b []byte, m *protocol.UDPMessage) error { return r.send(b, m) }

// c05NewConn builds a session the way the client does: through the real udpSessionManager and its
// NewUDP constructor (not a hand-written struct literal: whatever the constructor initialises is
// initialised). The session id the harness enumerates with is installed through the private
// nextID counter when that is possible; otherwise c05Session follows the id the manager assigns.
func c05NewConn(send func([]byte, *protocol.UDPMessage) error, inCap int) (HyUDPConn, *c05ClientIO) {
	cio := &c05ClientIO{send: send, in: make(chan *protocol.UDPMessage, inCap)}
	m := newUDPSessionManager(cio)
	if !vpriv.Set(m, "nextID", uint32(c05Session)) {
		c05PrivMissing["udpSessionManager.nextID"] = true
	}
	conn, err := m.NewUDP()
	if err != nil {
		panic("c05: NewUDP: " + err.Error())
	}
	return conn, cio
}

var c05PrivMissing = map[string]bool{}

// c05Send pushes one message through the real send path.
func c05Send(f *c05IO, bufSize int, addr string, payload []byte) error {
	first := true
	conn, cio := c05NewConn(func(b []byte, m *protocol.UDPMessage) error {
		if first && m.SessionID != c05Session {
			c05Session = m.SessionID // the manager's own numbering (nextID not settable on this tree)
		}
		first = false
		return f.SendMessage(b, m)
	}, 1)
	defer close(cio.in)
	if bufSize != protocol.MaxUDPSize {
		// a smaller send buffer than the constructor's (exercises the silent-drop branch)
		if !vpriv.Set(conn, "SendBuf", make([]byte, bufSize)) {
			c05PrivMissing["udpConn.SendBuf"] = true
			return errC05NoBuf
		}
	}
	return conn.Send(payload, addr)
}

var errC05NoBuf = fmt.Errorf("c05: the send buffer of the session cannot be resized on this tree")

var c05SentinelData = []byte("\x00C05-end-of-input\x00")

// c05Receive parses the datagrams in the given order and hands them to the real receive path: the
// manager's receive loop feeds them to the session, the harness reads with Receive. An
// unfragmented end-of-input marker sent behind them tells when everything before it has been
// processed (the session delivers in order), without relying on how the session signals Close.
func c05Receive(dgrams [][]byte, order []int) (out []c05Whole, clause string) {
	conn, cio := c05NewConn(func([]byte, *protocol.UDPMessage) error { return nil }, len(order)+2)
	defer close(cio.in)
	id := c05Session // (c05Send has aligned it with the manager's own numbering when nextID is not settable)
	sess := id
	for _, i := range order {
		m, err := protocol.ParseUDPMessage(c05Fresh(dgrams[i]))
		if err != nil {
			return out, fmt.Sprintf("datagram %d rejected by the receiving parser: %v", i, err)
		}
		if m.SessionID != c05Session {
			sess = m.SessionID
		}
		m.SessionID = id
		cio.in <- m
	}
	cio.in <- &protocol.UDPMessage{SessionID: id, FragCount: 1, Addr: "end:0", Data: c05SentinelData}
	for {
		data, addr, err := conn.Receive()
		if err != nil {
			return out, "receive error before the end-of-input marker: " + err.Error()
		}
		if addr == "end:0" && bytes.Equal(data, c05SentinelData) {
			_ = conn.Close()
			if sess == id {
				sess = c05Session
			}
			for i := range out {
				out[i].Sess = sess
			}
			return out, ""
		}
		out = append(out, c05Whole{Sess: sess, Addr: addr, Data: data})
	}
}

func TestVerifC05ClientSend(t *testing.T) { c05Main(t) }

// ---- common ------------------------------------------------------------------------------------

var c05Session uint32 = 0xA1B2C3D4

type c05Whole struct {
	Sess uint32
	Addr string
	Data []byte
}

// c05IO is the fake datagram channel.
type c05IO struct {
	limit       int
	sent        [][]byte
	attempts    int
	dropped     int // larger than the send buffer: silently dropped (as udpIOImpl.SendMessage)
	lateRejects int // rejected as too large after the first attempt, i.e. an oversized fragment
	lateSize    int
}

func (f *c05IO) SendMessage(buf []byte, msg *protocol.UDPMessage) error {
	f.attempts++
	n := msg.Serialize(buf)
	if n < 0 {
		f.dropped++
		return nil
	}
	if n > f.limit {
		if f.attempts > 1 {
			f.lateRejects++
			f.lateSize = n
		}
		return &quic.DatagramTooLargeError{MaxDatagramPayloadSize: int64(f.limit)}
	}
	f.sent = append(f.sent, c05Fresh(buf[:n]))
	return nil
}

func c05VarintLen(v int) int {
	switch {
	case v <= 63:
		return 1
	case v <= 16383:
		return 2
	case v <= 1073741823:
		return 4
	}
	return 8
}

func c05RefHeader(alen int) int { return 8 + c05VarintLen(alen) + alen }

var c05Pattern = func() []byte {
	b := make([]byte, 65535)
	for i := range b {
		b[i] = byte((uint32(i+1) * 2654435761) >> 23)
	}
	return b
}()

func c05Addr(n, class int) string {
	b := make([]byte, n)
	for i := range b {
		if class == 0 {
			b[i] = "host-name.example:65535/"[i%24]
		} else {
			b[i] = []byte{0x00, 0xff, 0x40, 0x80, 0xc0}[i%5] // zero, 0xff and varint-prefix look-alikes
		}
	}
	return string(b)
}

func c05Fresh(b []byte) []byte {
	c := make([]byte, len(b))
	copy(c, b)
	return c
}

func c05SortedSet(vs []int, lo, hi int) []int {
	seen := map[int]bool{}
	var out []int
	for _, v := range vs {
		if v < lo || v > hi || seen[v] {
			continue
		}
		seen[v] = true
		out = append(out, v)
	}
	sort.Ints(out)
	return out
}

// c05Report records a violation, at most c05MaxPerKind per (part, clause kind) and shard: cases are
// enumerated simplest first, so the first ones are the minimal cases; the enumeration itself goes on
// (other clause kinds are still reported, every violating case is counted).
const c05MaxPerKind = 2

var c05Reported = map[string]int{}

func c05Report(sh *evidence.Shard, p *evidence.Part, kind, signature, detail string, replay any) {
	k := p.Name + "/" + kind
	c05Reported[k]++
	p.Count("violating_cases", 1)
	if c05Reported[k] > c05MaxPerKind {
		return
	}
	sh.Violate(p.Name, signature, detail, replay)
}

func c05Generic(clause string) string {
	var b strings.Builder
	prevDigit := false
	for _, r := range clause {
		if r >= '0' && r <= '9' {
			if !prevDigit {
				b.WriteByte('N')
			}
			prevDigit = true
			continue
		}
		prevDigit = false
		b.WriteRune(r)
	}
	s := b.String()
	if len(s) > 90 {
		s = s[:90]
	}
	return s
}

type c05SendCase struct {
	Payload   int   `json:"payload"`
	AddrLen   int   `json:"addr_len"`
	AddrClass int   `json:"addr_class"`
	Limit     int   `json:"limit"`
	Buf       int   `json:"send_buffer"`
	Side      string `json:"side"`
	Order     []int `json:"order,omitempty"` // delivery order (indices of sent datagrams); nil = judge the send only + in-order + reversed
	Lossy     bool  `json:"lossy,omitempty"` // Order omits a fragment: nothing may be emitted
}

type c05Sent struct {
	dgrams [][]byte
	n      int // number of datagrams
	regime string
}

// c05DoSend runs the real sender and judges what went on the wire. clause "" = fine.
func c05DoSend(c *c05SendCase) (s c05Sent, clause string) {
	addr := c05Addr(c.AddrLen, c.AddrClass)
	payload := c05Fresh(c05Pattern[:c.Payload])
	f := &c05IO{limit: c.Limit}
	err := c05Send(f, c.Buf, addr, payload)
	if err == errC05NoBuf {
		s.regime = "skipped:send-buffer-not-resizable"
		return s, ""
	}
	s.dgrams, s.n = f.sent, len(f.sent)
	hdr := c05RefHeader(c.AddrLen)
	size := hdr + c.Payload

	if f.lateRejects > 0 {
		return s, fmt.Sprintf("a fragment of %d bytes was handed to the datagram channel, limit %d", f.lateSize, c.Limit)
	}
	if err != nil {
		return s, "send path returned an error although the channel only ever reported DatagramTooLarge for the whole message: " + err.Error()
	}
	for i, d := range f.sent {
		if len(d) > c.Limit {
			return s, fmt.Sprintf("datagram %d is %d bytes, limit %d", i, len(d), c.Limit)
		}
	}
	// reference: what may / must be on the wire
	feasible := false
	switch {
	case size > c.Buf:
		s.regime = "over-buffer" // udpIOImpl drops it silently before any size error: never fragmented
	case size <= c.Limit:
		s.regime, feasible = "fits", true
	default:
		budget := c.Limit - hdr
		need := 0
		if budget > 0 {
			need = (c.Payload-1)/budget + 1
		}
		switch {
		case budget <= 0:
			s.regime = "nobudget"
		case need > 255:
			s.regime = "over255"
		default:
			s.regime, feasible = "split", true
		}
	}
	if !feasible {
		if s.n != 0 {
			return s, fmt.Sprintf("%d datagrams sent for a message that cannot be carried (%s)", s.n, s.regime)
		}
		return s, ""
	}
	if s.n == 0 {
		return s, fmt.Sprintf("deliverable message discarded (%s)", s.regime)
	}
	if s.regime == "fits" && s.n != 1 {
		return s, fmt.Sprintf("message that fits the limit sent as %d datagrams", s.n)
	}
	// headers: common packet id, count = number of datagrams, ids 0..n-1
	var pkt uint16
	for i, d := range f.sent {
		m, perr := protocol.ParseUDPMessage(c05Fresh(d))
		if perr != nil {
			return s, fmt.Sprintf("datagram %d rejected by the receiving parser: %v", i, perr)
		}
		if m.SessionID != c05Session || m.Addr != addr {
			return s, fmt.Sprintf("datagram %d does not preserve session/address", i)
		}
		if s.n == 1 {
			if m.FragCount != 1 {
				return s, fmt.Sprintf("single datagram carries fragment count %d", m.FragCount)
			}
			continue
		}
		if i == 0 {
			pkt = m.PacketID
		}
		if m.PacketID != pkt {
			return s, fmt.Sprintf("datagram %d carries packet id %#x, datagram 0 carries %#x", i, m.PacketID, pkt)
		}
		if int(m.FragCount) != s.n || int(m.FragID) != i {
			return s, fmt.Sprintf("datagram %d of %d carries fragment id %d count %d", i, s.n, m.FragID, m.FragCount)
		}
	}
	return s, ""
}

// c05Deliver judges one delivery order against the original message.
func c05Deliver(c *c05SendCase, s *c05Sent, order []int, lossy bool) string {
	out, clause := c05Receive(s.dgrams, order)
	if clause != "" {
		return clause
	}
	want := 1
	if lossy || s.n == 0 {
		want = 0
	}
	if len(out) != want {
		return fmt.Sprintf("%d messages emitted, expected %d", len(out), want)
	}
	if want == 1 {
		o := out[0]
		if o.Sess != c05Session || o.Addr != c05Addr(c.AddrLen, c.AddrClass) || !bytes.Equal(o.Data, c05Pattern[:c.Payload]) {
			return fmt.Sprintf("emitted message differs from the one sent (payload %d bytes, sent %d)", len(o.Data), c.Payload)
		}
	}
	return ""
}

// c05RunCase: the complete judgement of one case (used by enumeration and replay).
func c05RunCase(c *c05SendCase) (clause, shape string) {
	val, stack := evidence.Catch(func() {
		s, cl := c05DoSend(c)
		shape = fmt.Sprintf("%s n=%d", s.regime, s.n)
		if cl != "" {
			clause = cl
			return
		}
		if c.Order != nil {
			for _, i := range c.Order {
				if i < 0 || i >= s.n {
					clause = ""
					return
				}
			}
			clause = c05Deliver(c, &s, c.Order, c.Lossy)
			return
		}
		fwd := make([]int, s.n)
		rev := make([]int, s.n)
		for i := range fwd {
			fwd[i], rev[i] = i, s.n-1-i
		}
		if clause = c05Deliver(c, &s, fwd, false); clause != "" {
			clause = "in order: " + clause
			return
		}
		if s.n > 1 {
			if clause = c05Deliver(c, &s, rev, false); clause != "" {
				clause = "reversed: " + clause
			}
		}
	})
	if val != nil {
		return fmt.Sprintf("panic: %v at %s", val, evidence.PanicSite(stack)), "panic"
	}
	return
}

func c05Sig(part string, c *c05SendCase, clause string) string {
	s := fmt.Sprintf("%s/%s/%s/payload=%d,addr_len=%d.%d,limit=%d,buf=%d", c05Side, part, c05Generic(clause), c.Payload, c.AddrLen, c.AddrClass, c.Limit, c.Buf)
	if c.Order != nil {
		s += fmt.Sprintf(",order=%v", c.Order)
	}
	return s
}

var c05AddrLens = []int{1, 10, 63, 64, 255, 1024, 2048}
var c05AbsPayloads = []int{1023, 1024, 1025, 1199, 1200, 1201, 1452, 2047, 2048, 2049, 4095, 4096, 4097, 16383, 16384, 32767, 32768, 65279, 65280, 65281, 65534, 65535}
var c05RelK = []int{1, 2, 3, 127, 128, 254, 255, 256, 257}

func c05SendLimits(hdr int) []int {
	ls := []int{0, 1, 7, 8, 9, hdr - 1, hdr}
	for l := hdr + 1; l <= hdr+40; l++ {
		ls = append(ls, l)
	}
	for l := 1100; l <= 1200; l++ {
		ls = append(ls, l)
	}
	ls = append(ls, 1452, 65535)
	return c05SortedSet(ls, 0, 1<<30)
}

func c05SendPayloads(hdr, limit, buf, dense int) []int {
	var ps []int
	for p := 1; p <= dense; p++ {
		ps = append(ps, p)
	}
	ps = append(ps, c05AbsPayloads...)
	ps = append(ps, buf-hdr-1, buf-hdr, buf-hdr+1) // the send buffer boundary
	if b := limit - hdr; b > 0 {
		for _, k := range c05RelK {
			ps = append(ps, k*b-1, k*b, k*b+1)
		}
	}
	return c05SortedSet(ps, 1, 65535)
}

func c05Sizes(sh *evidence.Shard) {
	env := sh.Env()
	p := sh.Part("sendpath-sizes", "enum")
	dense := 64
	if env.Thorough() {
		dense = 600
	}
	bufs := []int{protocol.MaxUDPSize, 70000}
	p.Alphabet = map[string]any{
		"addr_len":     c05AddrLens,
		"addr_content": "ASCII; for addr_len 10 and 64 also {00,ff,40,80,c0} cycle",
		"limit":        "{0,1,7,8,9,hdr-1,hdr} u {hdr+1..hdr+40} u {1100..1200} u {1452,65535}",
		"payload_size": fmt.Sprintf("{1..%d} u %v u {buf-hdr-1,buf-hdr,buf-hdr+1} u {k*(limit-hdr)+d : k in %v, d in -1,0,1}", dense, c05AbsPayloads, c05RelK),
		"send_buffer":  fmt.Sprintf("%v (first = protocol.MaxUDPSize as in the real callers; second large enough for every payload)", bufs),
		"delivery":     "in order and reversed (all permutations: see sendpath-permutations)",
	}
	var item int64
	for _, al := range c05AddrLens {
		hdr := c05RefHeader(al)
		classes := []int{0}
		if al == 10 || al == 64 {
			classes = []int{0, 1}
		}
		for _, cl := range classes {
			for _, buf := range bufs {
				for _, lim := range c05SendLimits(hdr) {
					for _, pl := range c05SendPayloads(hdr, lim, buf, dense) {
						item++
						if !env.Mine(item) {
							continue
						}
						if p.Evaluations&255 == 0 && env.Expired() {
							p.Exhaustive = false
							p.Note("deadline reached in addr_len=%d buf=%d limit=%d; smaller address lengths completely covered", al, buf, lim)
							return
						}
						c := &c05SendCase{Side: c05Side, Payload: pl, AddrLen: al, AddrClass: cl, Limit: lim, Buf: buf}
						p.Evaluations++
						clause, shape := c05RunCase(c)
						p.Class(al, cl, buf == bufs[0], shape, clause == "")
						if strings.HasPrefix(shape, "split") && p.Evaluations%1511 == 3 {
							p.Sample(c)
						}
						if clause != "" {
							c05Report(sh, p, c05Generic(clause), c05Sig(p.Name, c, clause), clause, c)
						}
					}
				}
			}
		}
	}
}

type c05PermBase struct{ al, cl, lim, pl int }

func c05PermCases(maxN int) []c05PermBase {
	var cs []c05PermBase
	for _, ac := range [][2]int{{1, 0}, {64, 1}} {
		hdr := c05RefHeader(ac[0])
		for b := 1; b <= 8; b++ {
			for pl := b + 1; pl <= maxN*b; pl++ {
				cs = append(cs, c05PermBase{ac[0], ac[1], hdr + b, pl})
			}
		}
	}
	// realistic limits with the real send buffer
	hdr := c05RefHeader(10)
	for _, lim := range []int{1100, 1199, 1200, 1452} {
		b := lim - hdr
		for _, pl := range c05SortedSet([]int{b + 1, 2 * b, 2*b + 1, 3 * b, 3*b + 1, protocol.MaxUDPSize - hdr}, 1, protocol.MaxUDPSize-hdr) {
			if (pl-1)/b+1 <= maxN {
				cs = append(cs, c05PermBase{10, 0, lim, pl})
			}
		}
	}
	return cs
}

func c05Permutations(sh *evidence.Shard) {
	env := sh.Env()
	p := sh.Part("sendpath-permutations", "enum")
	maxN := 5
	if env.Thorough() {
		maxN = 6
	}
	p.Alphabet = map[string]any{
		"cases":  "addr_len {1, 64 (binary content)} x limit hdr+{1..8} x every payload size with 2..N fragments; addr_len 10 x limit {1100,1199,1200,1452} x payload {b+1,2b,2b+1,3b,3b+1,4096-hdr}, b=limit-hdr",
		"orders": "every permutation of the n datagrams; every permutation with any one datagram duplicated at any position (n!*n*(n+1)); every permutation of every n-1 subset (one datagram lost)",
	}
	p.Bounds = map[string]any{"max_fragments": maxN, "send_buffer": protocol.MaxUDPSize}
	for ci, pc := range c05PermCases(maxN) {
		if !env.Mine(int64(ci)) {
			continue
		}
		if env.Expired() {
			p.Exhaustive = false
			p.Note("deadline reached at case %d", ci)
			return
		}
		base := c05SendCase{Side: c05Side, Payload: pc.pl, AddrLen: pc.al, AddrClass: pc.cl, Limit: pc.lim, Buf: protocol.MaxUDPSize}
		var s c05Sent
		var clause string
		val, stack := evidence.Catch(func() { s, clause = c05DoSend(&base) })
		if val != nil {
			clause = fmt.Sprintf("panic: %v at %s", val, evidence.PanicSite(stack))
		}
		p.Evaluations++
		if clause != "" {
			c05Report(sh, p, c05Generic(clause), c05Sig(p.Name, &base, clause), clause, &base)
			continue
		}
		n := s.n
		p.Count("orders_n="+fmt.Sprint(n), 0)
		failed := false
		try := func(order []int, lossy bool, kind string) bool {
			p.Evaluations++
			p.Count("orders_n="+fmt.Sprint(n), 1)
			var cl string
			val, stack := evidence.Catch(func() { cl = c05Deliver(&base, &s, order, lossy) })
			if val != nil {
				cl = fmt.Sprintf("panic: %v at %s", val, evidence.PanicSite(stack))
			}
			if cl != "" {
				c := base
				c.Order, c.Lossy = append([]int{}, order...), lossy
				c05Report(sh, p, c05Generic(cl), c05Sig(p.Name, &c, cl), cl, &c)
				failed = true
				return false
			}
			return true
		}
		enum.Permutations(n, func(perm []int) bool {
			if !try(perm, false, "perm") {
				return false
			}
			seq := make([]int, n+1)
			for e := 0; e < n; e++ {
				for pos := 0; pos <= n; pos++ {
					copy(seq, perm[:pos])
					seq[pos] = e
					copy(seq[pos+1:], perm[pos:])
					if !try(seq, false, "dup") {
						return false
					}
				}
			}
			// one datagram lost: drop the last element of the permutation (every (n-1)-arrangement appears)
			if n > 1 {
				if !try(perm[:n-1], true, "loss") {
					return false
				}
			}
			return true
		})
		p.Class(pc.al, pc.lim-c05RefHeader(pc.al) > 8, n, len(s.dgrams[n-1]), failed)
		if len(p.Samples) < 2 && n >= 3 {
			p.Sample(base)
		}
	}
}

func c05Main(t *testing.T) {
	evidence.Main(t, "C05", evidence.Seq{
		Run: func(sh *evidence.Shard) {
			sh.Assume("the packet id drawn from math/rand by the send path is not pinned: oracle and control flow do not depend on its value (only on all fragments of a message sharing it)")
			c05Permutations(sh)
			c05Sizes(sh)
		},
		Replay: func(part string, raw json.RawMessage) (bool, bool, string) {
			if part != "sendpath-sizes" && part != "sendpath-permutations" {
				return false, false, ""
			}
			var c c05SendCase
			if err := json.Unmarshal(raw, &c); err != nil {
				return true, false, err.Error()
			}
			if c.Side != c05Side {
				return false, false, ""
			}
			clause, _ := c05RunCase(&c)
			return true, clause != "", clause
		},
	})
}
