package client

// C05, datagram limit that changes while one message is being sent (path MTU shrinking between
// the refused whole-message attempt and the fragments). Added after the independently seeded
// change C05-2 (a refused fragment re-fragmented as if it were a message of its own) was missed
// by the constant-limit enumeration: whatever the limit does, the far side must reassemble the
// original payload or nothing.

import (
	"encoding/json"
	"fmt"
	"testing"

	"github.com/apernet/hysteria/core/v2/internal/frag"
	"github.com/apernet/hysteria/core/v2/internal/protocol"
	"github.com/apernet/quic-go"
	"verif.local/engine/evidence"
)

type c05cShrinkCase struct {
	Payload int `json:"payload"`
	AddrLen int `json:"addr_len"`
	Limit1  int `json:"limit_before"`
	Limit2  int `json:"limit_after"`
	After   int `json:"shrinks_after_sendmessage_calls"`
	Next    int `json:"next_message,omitempty"` // size of a second message sent on the same session afterwards (0 = none)
}

type c05cShrinkIO struct {
	c     *c05cShrinkCase
	calls int
	wire  [][]byte
}

func (f *c05cShrinkIO) SendMessage(buf []byte, msg *protocol.UDPMessage) error {
	f.calls++
	limit := f.c.Limit1
	if f.calls > f.c.After {
		limit = f.c.Limit2
	}
	n := msg.Serialize(buf)
	if n < 0 {
		return nil
	}
	if n > limit {
		return &quic.DatagramTooLargeError{MaxDatagramPayloadSize: int64(limit)}
	}
	f.wire = append(f.wire, append([]byte(nil), buf[:n]...))
	return nil
}

func c05cPayload(n, k int) []byte {
	b := make([]byte, n)
	for i := range b {
		b[i] = byte(i*(7+4*k) + 3 + k)
	}
	return b
}

// c05cShrinkRun: message A (Payload bytes) and, when Next > 0, a second message B (Next bytes)
// on the same session, sent while the limit follows the case's schedule. Packet IDs are drawn
// from math/rand by the code under test: two messages share an ID with probability 1/65535 on a
// correct tree, so a failing case is re-run and reported only if it fails three times in a row.
func c05cShrinkRun(c *c05cShrinkCase) (clause string) {
	for try := 0; try < 3; try++ {
		if clause = c05cShrinkRunOnce(c); clause == "" || c.Next == 0 {
			return clause
		}
	}
	return clause
}

func c05cShrinkRunOnce(c *c05cShrinkCase) (clause string) {
	addr := "a" + string(make([]byte, c.AddrLen))[1:]
	f := &c05cShrinkIO{c: c}
	// a session built by the real manager and constructor (see c05NewConn)
	u, cio := c05NewConn(f.SendMessage, 1)
	defer close(cio.in)
	payloads := [][]byte{c05cPayload(c.Payload, 0)}
	if c.Next > 0 {
		payloads = append(payloads, c05cPayload(c.Next, 1))
	}
	sendOK := make([]bool, len(payloads))
	for k, pl := range payloads {
		var err error
		v, st := evidence.Catch(func() { err = u.Send(append([]byte(nil), pl...), addr) })
		if v != nil {
			return fmt.Sprintf("panic: %v at %s", v, evidence.PanicSite(st))
		}
		sendOK[k] = err == nil
	}
	// far side: whatever reached the wire, in order, through the real parser and reassembler
	d := &frag.Defragger{}
	delivered := make([]int, len(payloads))
	for i, w := range f.wire {
		m, err := protocol.ParseUDPMessage(append([]byte(nil), w...))
		if err != nil {
			return fmt.Sprintf("datagram %d on the wire does not parse: %v", i, err)
		}
		if out := d.Feed(m); out != nil {
			which := -1
			for k, pl := range payloads {
				if string(out.Data) == string(pl) {
					which = k
				}
			}
			if which < 0 || out.Addr != addr || out.SessionID != m.SessionID {
				return fmt.Sprintf("the far side reassembled a message of %d bytes that was never sent (messages sent: %d and %d bytes) after datagram %d of %d", len(out.Data), c.Payload, c.Next, i+1, len(f.wire))
			}
			delivered[which]++
		}
	}
	// (a message that is not delivered at all — discarded by the sender, or its Send aborted — is
	// within the property: "byte-identical or not at all")
	_ = sendOK
	return ""
}

func c05cShrinkEnumerate(sh *evidence.Shard) {
	env := sh.Env()
	p := sh.Part("limit-changes-mid-message-client", "enum")
	payloads := []int{1, 700, 1175, 1176, 1200, 2000, 2350, 3000, 4000}
	limits := []int{40, 300, 700, 1100, 1199, 1200, 1452}
	p.Alphabet = map[string]any{"payload": payloads, "addr_len": []int{10, 64}, "limit_before/after": limits, "change_after_calls": "1..6", "second_message_on_the_same_session": []int{0, 700, 2000, 2350, 3000}}
	var item int64
	for _, pl := range payloads {
		for _, al := range []int{10, 64} {
			for _, l1 := range limits {
				for _, l2 := range limits {
					for after := 1; after <= 6; after++ {
						for _, next := range []int{0, 700, 2000, 2350, 3000} {
							item++
							if !env.Mine(item) {
								continue
							}
							c := c05cShrinkCase{Payload: pl, AddrLen: al, Limit1: l1, Limit2: l2, After: after, Next: next}
							p.Evaluations++
							clause := c05cShrinkRun(&c)
							p.Class(pl > l1, l2 < l1, after, clause == "")
							if p.Evaluations%173 == 5 {
								p.Sample(c)
							}
							if clause != "" {
								cc := c
								sh.Violate(p.Name, fmt.Sprintf("%s/%.60s/payload=%d+%d,addr=%d,limit=%d->%d after %d calls", p.Name, clause, pl, next, al, l1, l2, after), clause, &cc)
								if sh.NViolations() >= 4 {
									return
								}
							}
						}
					}
				}
			}
		}
	}
}

func TestVerifC05ClientShrink(t *testing.T) {
	evidence.Main(t, "C05", evidence.Seq{Run: c05cShrinkEnumerate, Replay: func(part string, raw json.RawMessage) (bool, bool, string) {
		if part != "limit-changes-mid-message-client" {
			return false, false, ""
		}
		var c c05cShrinkCase
		if err := json.Unmarshal(raw, &c); err != nil {
			return true, false, err.Error()
		}
		clause := c05cShrinkRun(&c)
		return true, clause != "", clause
	}})
}
