package client

// C05, datagram limit that changes while one message is being sent (path MTU shrinking between
// the refused whole-message attempt and the fragments). Added after the independently seeded
// change C05-2 (a refused fragment re-fragmented as if it were a message of its own) was missed
// by the constant-limit enumeration: whatever the limit does, the far side must reassemble the
// original payload or nothing.

import (
	"encoding/json"
	"fmt"
	"testing"

	"github.com/apernet/hysteria/core/v2/internal/frag"
	"github.com/apernet/hysteria/core/v2/internal/protocol"
	"github.com/apernet/quic-go"
	"verif.local/engine/evidence"
)

type c05cShrinkCase struct {
	Payload int `json:"payload"`
	AddrLen int `json:"addr_len"`
	Limit1  int `json:"limit_before"`
	Limit2  int `json:"limit_after"`
	After   int `json:"shrinks_after_sendmessage_calls"`
	Next    int `json:"next_message,omitempty"` // size of a second message sent on the same session afterwards (0 = none)
}

type c05cShrinkIO struct {
	c     *c05cShrinkCase
	calls int
	wire  [][]byte
}

func (f *c05cShrinkIO) SendMessage(buf []byte, msg *protocol.UDPMessage) error {
	f.calls++
	limit := f.c.Limit1
	if f.calls > f.c.After {
		limit = f.c.Limit2
	}
	n := msg.Serialize(buf)
	if n < 0 {
		return nil
	}
	if n > limit {
		return &quic.DatagramTooLargeError{MaxDatagramPayloadSize: int64(limit)}
	}
	f.wire = append(f.wire, append([]byte(nil), buf[:n]...))
	return nil
}

func c05cPayload(n, k int) []byte {
	b := make([]byte, n)
	for i := range b {
		b[i] = byte(i*(7+4*k) + 3 + k)
	}
	return b
}

// c05cShrinkRun: message A (Payload bytes) and, when Next > 0, a second message B (Next bytes)
// on the same session, sent while the limit follows the case's schedule. Packet IDs are drawn
// from math/rand by the code under test: two messages share an ID with probability 1/65535 on a
// correct tree, so a failing case is re-run and reported only if it fails three times in a row.
func c05cShrinkRun(c *c05cShrinkCase) (clause string) {
	for try := 0; try < 3; try++ {
		if clause = c05cShrinkRunOnce(c); clause == "" || c.Next == 0 {
			return clause
		}
	}
	return clause
}

func c05cShrinkRunOnce(c *c05cShrinkCase) (clause string) {
	addr := "a" + string(make([]byte, c.AddrLen))[1:]
	f := &c05cShrinkIO{c: c}
	// a session built by the real manager and constructor (see c05NewConn)
	u, cio := c05NewConn(f.SendMessage, 1)
	defer close(cio.in)
	payloads := [][]byte{c05cPayload(c.Payload, 0)}
	if c.Next > 0 {
		payloads = append(payloads, c05cPayload(c.Next, 1))
	}
	sendOK := make([]bool, len(payloads))
	for k, pl := range payloads {
		var err error
		v, st := evidence.Catch(func() { err = u.Send(append([]byte(nil), pl...), addr) })
		if v != nil {
			return fmt.Sprintf("panic: %v at %s", v, evidence.PanicSite(st))
		}
		sendOK[k] = err == nil
	}
	// far side: whatever reached the wire, in order, through the real parser and reassembler
	d := &frag.Defragger{}
	delivered := make([]int, len(payloads))
	for i, w := range f.wire {
		m, err := protocol.ParseUDPMessage(append([]byte(nil), w...))
		if err != nil {
			return fmt.Sprintf("datagram %d on the wire does not parse: %v", i, err)
		}
		if out := d.Feed(m); out != nil {
			which := -1
			for k, pl := range payloads {
				if string(out.Data) == string(pl) {
					which = k
				}
			}
			if which < 0 || out.Addr != addr || out.SessionID != m.SessionID {
				return fmt.Sprintf("the far side reassembled a message of %d bytes that was never sent (messages sent: %d and %d bytes) after datagram %d of %d", len(out.Data), c.Payload, c.Next, i+1, len(f.wire))
			}
			delivered[which]++
		}
	}
	// (a message that is not delivered at all — discarded by the sender, or its Send aborted — is
	// within the property: "byte-identical or not at all")
	_ = sendOK
	return ""
}

func c05cShrinkEnumerate(sh *evidence.Shard) {
	env := sh.Env()
	p := sh.Part("limit-changes-mid-message-client", "enum")
	payloads := []int{1, 700, 1175, 1176, 1200, 2000, 2350, 3000, 4000}
	limits := []int{40, 300, 700, 1100, 1199, 1200, 1452}
	p.Alphabet = map[string]any{"payload": payloads, "addr_len": []int{10, 64}, "limit_before/after": limits, "change_after_calls": "1..6", "second_message_on_the_same_session": []int{0, 700, 2000, 2350, 3000}}
	var item int64
	for _, pl := range payloads {
		for _, al := range []int{10, 64} {
			for _, l1 := range limits {
				for _, l2 := range limits {
					for after := 1; after <= 6; after++ {
						for _, next := range []int{0, 700, 2000, 2350, 3000} {
							item++
							if !env.Mine(item) {
								continue
							}
							c := c05cShrinkCase{Payload: pl, AddrLen: al, Limit1: l1, Limit2: l2, After: after, Next: next}
							p.Evaluations++
							clause := c05cShrinkRun(&c)
							p.Class(pl > l1, l2 < l1, after, clause == "")
							if p.Evaluations%173 == 5 {
								p.Sample(c)
							}
							if clause != "" {
								cc := c
								sh.Violate(p.Name, fmt.Sprintf("%s/%.60s/payload=%d+%d,addr=%d,limit=%d->%d after %d calls", p.Name, clause, pl, next, al, l1, l2, after), clause, &cc)
								if sh.NViolations() >= 4 {
									return
								}
							}
						}
					}
				}
			}
		}
	}
}

// ---- the limit changes BETWEEN the messages of one session ---------------------------------------
//
// Dimension: a history of several oversized messages on ONE session while the connection's
// datagram limit moves between them (falls, rises again, or stays), constant during each Send.
// Whatever the session has learnt from the refusals of earlier messages, every fragment it offers
// must fit the limit in force at that moment, and every message that can be carried (it fits, or
// it splits into at most 255 fitting fragments) must arrive byte-identical; a message that cannot
// be carried puts nothing on the wire. Added after the independently seeded change C05-10 (the
// session remembered the limit of its first refusal and cut later, larger messages to that stale
// limit without a trial send: after the limit fell they were refused fragment by fragment and lost).

type c05cSeqCase struct {
	AddrLen  int   `json:"addr_len"`
	Payloads []int `json:"payloads"`                   // message k of the session
	Limits   []int `json:"limit_in_force_per_message"` // limit while message k is being sent
}

type c05cSeqIO struct {
	limit    int
	wire     [][]byte
	fragOver int // size of the first FRAGMENT (fragment count > 1) that exceeded the limit in force
}

func (f *c05cSeqIO) SendMessage(buf []byte, msg *protocol.UDPMessage) error {
	n := msg.Serialize(buf)
	if n < 0 {
		return nil
	}
	if n > f.limit {
		if msg.FragCount > 1 && f.fragOver == 0 {
			f.fragOver = n
		}
		return &quic.DatagramTooLargeError{MaxDatagramPayloadSize: int64(f.limit)}
	}
	f.wire = append(f.wire, append([]byte(nil), buf[:n]...))
	return nil
}

// c05cSeqRun: as c05cShrinkRun, a failing case counts only if it fails three times in a row (the
// packet ids are drawn by the code under test).
func c05cSeqRun(c *c05cSeqCase) (clause string) {
	for try := 0; try < 3; try++ {
		if clause = c05cSeqRunOnce(c); clause == "" {
			return clause
		}
	}
	return clause
}

func c05cSeqRunOnce(c *c05cSeqCase) (clause string) {
	addr := c05Addr(c.AddrLen, 0)
	hdr := c05RefHeader(c.AddrLen)
	f := &c05cSeqIO{}
	u, cio := c05NewConn(f.SendMessage, 1)
	defer close(cio.in)
	d := &frag.Defragger{} // the far side of the session: one reassembler for all its messages
	for k, pl := range c.Payloads {
		f.limit, f.wire, f.fragOver = c.Limits[k], nil, 0
		payload := c05cPayload(pl, k)
		var err error
		v, st := evidence.Catch(func() { err = u.Send(append([]byte(nil), payload...), addr) })
		if v != nil {
			return fmt.Sprintf("panic: %v at %s", v, evidence.PanicSite(st))
		}
		where := fmt.Sprintf("message %d of the session (%d bytes, limits so far %v)", k+1, pl, c.Limits[:k+1])
		if f.fragOver > 0 {
			return fmt.Sprintf("a fragment of %d bytes was handed to the datagram channel, limit in force %d: %s", f.fragOver, f.limit, where)
		}
		feasible := hdr+pl <= f.limit
		if budget := f.limit - hdr; !feasible && budget > 0 && (pl-1)/budget+1 <= 255 {
			feasible = true
		}
		if !feasible && len(f.wire) != 0 {
			return fmt.Sprintf("%d datagrams sent for a message that cannot be carried: %s", len(f.wire), where)
		}
		if feasible && err != nil {
			return fmt.Sprintf("send path returned an error for a deliverable message (%v): %s", err, where)
		}
		got := 0
		for i, w := range f.wire {
			m, perr := protocol.ParseUDPMessage(append([]byte(nil), w...))
			if perr != nil {
				return fmt.Sprintf("datagram %d does not parse (%v): %s", i, perr, where)
			}
			if out := d.Feed(m); out != nil {
				if string(out.Data) != string(payload) || out.Addr != addr || out.SessionID != m.SessionID {
					return fmt.Sprintf("the far side reassembled %d bytes that are not the message being sent: %s", len(out.Data), where)
				}
				got++
			}
		}
		if feasible && got != 1 {
			return fmt.Sprintf("deliverable message delivered %d times (%d datagrams on the wire): %s", got, len(f.wire), where)
		}
	}
	return ""
}

const c05cSeqPart = "limit-changes-between-messages-client"

func c05cSeqEnumerate(sh *evidence.Shard) {
	env := sh.Env()
	p := sh.Part(c05cSeqPart, "enum")
	payloads := []int{700, 1300, 2000, 3000}
	limits := []int{19, 20, 40, 600, 1200, 1452}
	addrLens := []int{10, 64}
	msgs := 3
	if env.Thorough() {
		payloads = []int{1, 581, 582, 700, 1181, 1182, 1300, 2000, 3000, 4000}
		limits = []int{19, 20, 40, 300, 600, 1100, 1200, 1452}
	}
	p.Alphabet = map[string]any{"messages_on_one_session": msgs, "payload_of_each_message": payloads, "limit_in_force_during_each_message (changes between the messages)": limits, "addr_len": addrLens}
	nP, nL := len(payloads), len(limits)
	total := 1
	for k := 0; k < msgs; k++ {
		total *= nP * nL
	}
	var item int64
	for _, al := range addrLens {
		for code := 0; code < total; code++ {
			item++
			if !env.Mine(item) {
				continue
			}
			c := c05cSeqCase{AddrLen: al}
			falls, rises := false, false
			for k, x := 0, code; k < msgs; k++ {
				c.Limits = append(c.Limits, limits[x%nL])
				x /= nL
				c.Payloads = append(c.Payloads, payloads[x%nP])
				x /= nP
				if k > 0 {
					falls = falls || c.Limits[k] < c.Limits[k-1]
					rises = rises || c.Limits[k] > c.Limits[k-1]
				}
			}
			p.Evaluations++
			clause := c05cSeqRun(&c)
			p.Class(al, falls, rises, c.Payloads[0] > c.Limits[0], c.Payloads[msgs-1] > c.Limits[0], c.Payloads[msgs-1] > c.Limits[msgs-1], clause == "")
			if p.Evaluations%977 == 5 {
				p.Sample(c)
			}
			if clause != "" {
				cc := c
				c05Report(sh, p, c05Generic(clause), fmt.Sprintf("%s/%s/payloads=%v,addr=%d,limits=%v", p.Name, c05Generic(clause), c.Payloads, al, c.Limits), clause, &cc)
			}
		}
	}
}

func TestVerifC05ClientShrink(t *testing.T) {
	evidence.Main(t, "C05", evidence.Seq{Run: func(sh *evidence.Shard) {
		c05cShrinkEnumerate(sh)
		c05cSeqEnumerate(sh)
	}, Replay: func(part string, raw json.RawMessage) (bool, bool, string) {
		if part == c05cSeqPart {
			var c c05cSeqCase
			if err := json.Unmarshal(raw, &c); err != nil {
				return true, false, err.Error()
			}
			if len(c.Payloads) == 0 || len(c.Limits) != len(c.Payloads) {
				return true, false, "malformed case"
			}
			clause := c05cSeqRun(&c)
			return true, clause != "", clause
		}
		if part != "limit-changes-mid-message-client" {
			return false, false, ""
		}
		var c c05cShrinkCase
		if err := json.Unmarshal(raw, &c); err != nil {
			return true, false, err.Error()
		}
		clause := c05cShrinkRun(&c)
		return true, clause != "", clause
	}})
}
