package client

// C05, datagram limit that changes while one message is being sent (path MTU shrinking between
// the refused whole-message attempt and the fragments). Added after the independently seeded
// change C05-2 (a refused fragment re-fragmented as if it were a message of its own) was missed
// by the constant-limit enumeration: whatever the limit does, the far side must reassemble the
// original payload or nothing.

import (
	"encoding/json"
	"fmt"
	"testing"

	"github.com/apernet/hysteria/core/v2/internal/frag"
	"github.com/apernet/hysteria/core/v2/internal/protocol"
	"github.com/apernet/quic-go"
	"verif.local/engine/evidence"
)

type c05cShrinkCase struct {
	Payload int `json:"payload"`
	AddrLen int `json:"addr_len"`
	Limit1  int `json:"limit_before"`
	Limit2  int `json:"limit_after"`
	After   int `json:"shrinks_after_sendmessage_calls"`
}

type c05cShrinkIO struct {
	c     *c05cShrinkCase
	calls int
	wire  [][]byte
}

func (f *c05cShrinkIO) SendMessage(buf []byte, msg *protocol.UDPMessage) error {
	f.calls++
	limit := f.c.Limit1
	if f.calls > f.c.After {
		limit = f.c.Limit2
	}
	n := msg.Serialize(buf)
	if n < 0 {
		return nil
	}
	if n > limit {
		return &quic.DatagramTooLargeError{MaxDatagramPayloadSize: int64(limit)}
	}
	f.wire = append(f.wire, append([]byte(nil), buf[:n]...))
	return nil
}

func c05cShrinkRun(c *c05cShrinkCase) (clause string) {
	payload := make([]byte, c.Payload)
	for i := range payload {
		payload[i] = byte(i*7 + 3)
	}
	addr := string(make([]byte, c.AddrLen))
	f := &c05cShrinkIO{c: c}
	msg := &protocol.UDPMessage{SessionID: 9, FragCount: 1, Addr: "a" + addr[1:], Data: append([]byte(nil), payload...)}
	u := &udpConn{ID: 9, SendBuf: make([]byte, protocol.MaxUDPSize), SendFunc: f.SendMessage}
	v, st := evidence.Catch(func() { _ = u.Send(append([]byte(nil), payload...), msg.Addr) })
	if v != nil {
		return fmt.Sprintf("panic: %v at %s", v, evidence.PanicSite(st))
	}
	// far side: whatever reached the wire, in order, through the real parser and reassembler
	d := &frag.Defragger{}
	for i, w := range f.wire {
		m, err := protocol.ParseUDPMessage(append([]byte(nil), w...))
		if err != nil {
			return fmt.Sprintf("datagram %d on the wire does not parse: %v", i, err)
		}
		if out := d.Feed(m); out != nil {
			if string(out.Data) != string(payload) || out.Addr != msg.Addr || out.SessionID != 9 {
				return fmt.Sprintf("the far side reassembled a message of %d bytes that was never sent (original %d bytes) after datagram %d of %d", len(out.Data), len(payload), i+1, len(f.wire))
			}
		}
	}
	return ""
}

func c05cShrinkEnumerate(sh *evidence.Shard) {
	env := sh.Env()
	p := sh.Part("limit-changes-mid-message-client", "enum")
	payloads := []int{1, 700, 1175, 1176, 1200, 2000, 2350, 3000, 4000}
	limits := []int{40, 300, 700, 1100, 1199, 1200, 1452}
	p.Alphabet = map[string]any{"payload": payloads, "addr_len": []int{10, 64}, "limit_before/after": limits, "change_after_calls": "1..6"}
	var item int64
	for _, pl := range payloads {
		for _, al := range []int{10, 64} {
			for _, l1 := range limits {
				for _, l2 := range limits {
					for after := 1; after <= 6; after++ {
						item++
						if !env.Mine(item) {
							continue
						}
						c := c05cShrinkCase{Payload: pl, AddrLen: al, Limit1: l1, Limit2: l2, After: after}
						p.Evaluations++
						clause := c05cShrinkRun(&c)
						p.Class(pl > l1, l2 < l1, after, clause == "")
						if p.Evaluations%173 == 5 {
							p.Sample(c)
						}
						if clause != "" {
							cc := c
							sh.Violate(p.Name, fmt.Sprintf("%s/%.60s/payload=%d,addr=%d,limit=%d->%d after %d calls", p.Name, clause, pl, al, l1, l2, after), clause, &cc)
							if sh.NViolations() >= 4 {
								return
							}
						}
					}
				}
			}
		}
	}
}

func TestVerifC05ClientShrink(t *testing.T) {
	evidence.Main(t, "C05", evidence.Seq{Run: c05cShrinkEnumerate, Replay: func(part string, raw json.RawMessage) (bool, bool, string) {
		if part != "limit-changes-mid-message-client" {
			return false, false, ""
		}
		var c c05cShrinkCase
		if err := json.Unmarshal(raw, &c); err != nil {
			return true, false, err.Error()
		}
		clause := c05cShrinkRun(&c)
		return true, clause != "", clause
	}})
}
