package client

// C05 harness, unit "client-conc" (injected by overlay into core/client, sources rewritten for the
// controlled scheduler): SEVERAL sessions of ONE real udpSessionManager used by different threads.
//
// Added after the independently seeded change C05-8 (the session manager kept the send buffers of
// closed sessions in a free list and handed them to new sessions, so a session closed while its Send
// was in flight shared its SendBuf with the next session). The new dimension is the HISTORY of the
// client as its front ends produce it: one goroutine is inside Send of session 1 while another one
// (the idle cleanup of the UDP forwarder / SOCKS5 / TUN front ends) closes session 1, opens
// session 2 on the same client and sends on it. Every other C05 unit uses one session from one
// goroutine.
//
// The datagram channel is a fake that does what udpIOImpl.SendMessage + quic SendDatagram do, in
// the same two steps: Serialize into the CALLER'S buffer, then (a scheduling point later: the real
// SendDatagram takes the connection's locks) refuse the datagram as too large or copy buf[:n] out
// onto the wire. The explorer runs every schedule with <= P deviations; scheduling points are the
// manager's mutex operations, the append/copy calls of udp.go (mem_points) and the fake's step.
//
// Oracle (the property's own clauses, judged on the far side): every wire datagram fits the limit
// and parses; the datagrams are demultiplexed by session id into one real frag.Defragger per
// session (wire order and reversed); every message that comes out must be byte-identical (session,
// address, payload) to a message one of the threads sent, at most once each; a message sent on a
// session that nobody closed meanwhile, all of whose datagrams were accepted, must come out.
// A message of the session that is closed while sending may be delivered or not - never altered.

import (
	"bytes"
	"fmt"
	"io"
	"os"
	"sort"
	"strings"
	"testing"

	"github.com/apernet/quic-go"

	"github.com/apernet/hysteria/core/v2/internal/frag"
	"github.com/apernet/hysteria/core/v2/internal/protocol"
	"verif.local/engine/explore"
	"verif.local/engine/vchan"
	"verif.local/engine/vsched"
	"verif.local/engine/vsync"
)

const c05cLimit = 100 // datagram limit of the fake channel

// c05cMsg is one message a harness thread sends (one call of HyUDPConn.Send).
type c05cMsg struct {
	name     string
	addr     string
	payload  []byte
	must     bool // its session is open for the whole Send: it has to be delivered
	sess     uint32
	stamped  bool // sess is the session id the client put on it
	accepted int  // datagrams of it the channel accepted
	err      error
	returned bool
	emitted  int
}

// c05cIO is the udpIO of the manager under test.
type c05cIO struct {
	e    *vsched.Exec
	in   chan *protocol.UDPMessage
	wire [][]byte
	cur  map[*vsched.Thread]*c05cMsg // the message each thread is sending right now
}

func (f *c05cIO) ReceiveMessage() (*protocol.UDPMessage, error) {
	m, ok := vchan.Recv2[*protocol.UDPMessage](f.in)
	if !ok {
		return nil, io.EOF
	}
	return m, nil
}

func (f *c05cIO) SendMessage(buf []byte, msg *protocol.UDPMessage) error {
	lm := f.cur[f.e.Current()]
	if lm != nil {
		if lm.stamped && lm.sess != msg.SessionID {
			f.e.Fail("the datagrams of message %s carry different session ids", lm.name)
		}
		lm.sess, lm.stamped = msg.SessionID, true
	}
	n := msg.Serialize(buf)
	if n < 0 {
		return nil // larger than the buffer: silent drop
	}
	f.e.Sleep(0) // SendDatagram: the goroutine may be descheduled between Serialize and the copy-out
	if n > c05cLimit {
		return &quic.DatagramTooLargeError{MaxDatagramPayloadSize: c05cLimit}
	}
	f.wire = append(f.wire, append([]byte(nil), buf[:n]...))
	if lm != nil {
		lm.accepted++
	}
	return nil
}

func c05cFill(n int, first byte, span int) []byte {
	b := make([]byte, n)
	for i := range b {
		b[i] = first + byte(i%span)
	}
	return b
}

// c05cPayloadLen: a payload that needs exactly k datagrams at c05cLimit (k = 1: fits unfragmented).
func c05cPayloadLen(addr string, k, rest int) int {
	budget := c05cLimit - (8 + 1 + len(addr))
	return (k-1)*budget + rest
}

type c05cSpec struct {
	K1, K2 int  // datagrams of the message of session 1 / session 2
	Twice  bool // session 1's thread sends a second message (it may start after the Close)
}

func (s c05cSpec) name() string {
	h := "close-overlaps-send"
	if s.Twice {
		h = "close-overlaps-two-sends"
	}
	return fmt.Sprintf("two-sessions-%s-s1x%dfrag-s2x%dfrag", h, s.K1, s.K2)
}

func c05cBody(e *vsched.Exec, spec c05cSpec) {
	f := &c05cIO{e: e, in: make(chan *protocol.UDPMessage, 4), cur: map[*vsched.Thread]*c05cMsg{}}
	sm := newUDPSessionManager(f)
	const addr1, addr2 = "first.example.com:5353", "second.example.org:53"
	m1 := &c05cMsg{name: "m1", addr: addr1, payload: c05cFill(c05cPayloadLen(addr1, spec.K1, 41), 'A', 26)}
	m1b := &c05cMsg{name: "m1b", addr: addr1, payload: c05cFill(c05cPayloadLen(addr1, 1, 55), 'a', 26)}
	m2 := &c05cMsg{name: "m2", addr: addr2, payload: c05cFill(c05cPayloadLen(addr2, spec.K2, 23), '0', 10), must: true}
	msgs := []*c05cMsg{m1, m2}
	if spec.Twice {
		msgs = append(msgs, m1b)
	}
	send := func(conn HyUDPConn, m *c05cMsg) {
		t := e.Current()
		f.cur[t] = m
		m.err = conn.Send(m.payload, m.addr)
		m.returned = true
		delete(f.cur, t)
	}

	c1, err := sm.NewUDP()
	if err != nil {
		e.Fail("NewUDP (session 1): %v", err)
		return
	}
	var wg vsync.WaitGroup
	wg.Add(2)
	vsched.Go(func() { // the flow of session 1
		defer wg.Done()
		send(c1, m1)
		if spec.Twice {
			send(c1, m1b)
		}
	})
	var c2 HyUDPConn
	vsched.Go(func() { // idle cleanup closes session 1; a new flow opens session 2 and sends
		defer wg.Done()
		_ = c1.Close()
		var err error
		if c2, err = sm.NewUDP(); err != nil {
			e.Fail("NewUDP (session 2): %v", err)
			return
		}
		send(c2, m2)
	})
	wg.Wait()
	if c2 != nil {
		_ = c2.Close() // session 2 is closed only after everybody is done with the client
	}
	vchan.Close(f.in) // the connection ends: the manager's receive loop returns
	e.WaitIdle()

	// ---- oracles ----
	for _, m := range msgs {
		if !m.returned {
			e.Fail("Send of %s did not return", m.name)
		}
	}
	if m1.stamped && m2.stamped && m1.sess == m2.sess {
		e.Fail("two sessions of one client carry the same session id")
	}
	var parsed []*protocol.UDPMessage
	for i, d := range f.wire {
		if len(d) > c05cLimit {
			e.Fail("wire datagram %d is %d bytes, limit %d", i, len(d), c05cLimit)
		}
		pm, perr := protocol.ParseUDPMessage(append([]byte(nil), d...))
		if perr != nil {
			e.Fail("wire datagram %d (%d bytes) rejected by the receiving parser: %s", i, len(d), c05cDescribe(d, msgs))
			continue
		}
		parsed = append(parsed, pm)
	}
	for _, dir := range []string{"wire order", "reversed"} {
		for _, m := range msgs {
			m.emitted = 0
		}
		defr := map[uint32]*frag.Defragger{}
		var outs []string
		for k := range parsed {
			pm := parsed[k]
			if dir == "reversed" {
				pm = parsed[len(parsed)-1-k]
			}
			cp := *pm
			d := defr[cp.SessionID]
			if d == nil {
				d = &frag.Defragger{}
				defr[cp.SessionID] = d
			}
			out := d.Feed(&cp)
			if out == nil {
				continue
			}
			var hit *c05cMsg
			for _, m := range msgs {
				if m.stamped && m.sess == out.SessionID && m.addr == out.Addr && bytes.Equal(m.payload, out.Data) {
					hit = m
				}
			}
			if hit == nil {
				e.Fail("%s: the far side emits a message nobody sent: %s", dir, c05cDescribeOut(out, msgs))
				outs = append(outs, "?")
				continue
			}
			hit.emitted++
			outs = append(outs, hit.name)
		}
		for _, m := range msgs {
			if m.emitted > 1 {
				e.Fail("%s: message %s emitted %d times", dir, m.name, m.emitted)
			}
			if m.must && m.err == nil && m.emitted == 0 {
				e.Fail("%s: message %s (%d datagrams accepted by the channel, session open throughout, nothing lost) is not delivered", dir, m.name, m.accepted)
			}
		}
		sort.Strings(outs)
		e.Logf("%s: emitted %s", dir, strings.Join(outs, ","))
	}
	if m2.err != nil {
		e.Fail("Send of m2 on the open session 2 returned %v", m2.err)
	}
}

// c05cDescribeOut says what an emitted message is made of (stable text: part of the signature).
func c05cDescribeOut(out *protocol.UDPMessage, msgs []*c05cMsg) string {
	owner := "an unknown session"
	for _, m := range msgs {
		if m.stamped && m.sess == out.SessionID {
			owner = "the session of " + m.name
			if out.Addr != m.addr {
				owner += " with another address"
			}
			break
		}
	}
	return fmt.Sprintf("%s, payload %s", owner, c05cDescribe(out.Data, msgs))
}

func c05cDescribe(b []byte, msgs []*c05cMsg) string {
	for _, m := range msgs {
		if bytes.Equal(b, m.payload) {
			return "of " + m.name
		}
	}
	var parts []string
	for _, m := range msgs {
		if len(m.payload) >= 8 && bytes.Contains(b, m.payload[:8]) {
			parts = append(parts, "the beginning of "+m.name)
		} else if len(m.payload) >= 8 && len(b) >= 8 && (bytes.Contains(m.payload, b[:8]) || bytes.Contains(m.payload, b[len(b)-8:])) {
			parts = append(parts, "bytes of "+m.name)
		}
	}
	if len(parts) == 0 {
		return fmt.Sprintf("of %d bytes matching no message", len(b))
	}
	return fmt.Sprintf("of %d bytes containing %s", len(b), strings.Join(parts, " and "))
}

// c05cSpecs: the alphabet is (datagrams of session 1's message in {1,3}) x (datagrams of session 2's
// message in {1,2}) x (session 1's thread sends once / twice). Quick: the four once-cases and one
// twice-case; thorough: all eight, one more deviation.
func c05cSpecs(thorough bool) []c05cSpec {
	var out []c05cSpec
	for _, twice := range []bool{false, true} {
		for _, k1 := range []int{1, 3} {
			for _, k2 := range []int{1, 2} {
				if twice && !thorough && !(k1 == 3 && k2 == 1) {
					continue
				}
				out = append(out, c05cSpec{K1: k1, K2: k2, Twice: twice})
			}
		}
	}
	return out
}

// c05cSig: the first violated clause of the execution (the complete list is in the detail).
func c05cSig(o *vsched.Outcome) string {
	d := o.Detail
	if i := strings.IndexByte(d, '\n'); i >= 0 {
		d = d[:i]
	}
	if o.Kind == "fail" {
		if i := strings.Index(d, "; "); i >= 0 {
			d = d[:i]
		}
	}
	if o.Kind == "ok" && len(o.Leaked) > 0 {
		return "leak:" + strings.Join(o.Leaked, "|")
	}
	if o.Kind == "panic" { // first frame outside the runtime/engine identifies the site
		for _, l := range strings.Split(o.Stack, "\n") {
			l = strings.TrimSpace(l)
			if strings.HasPrefix(l, "/") && !strings.Contains(l, "/verif/engine/") && !strings.Contains(l, "/go/src/") && !strings.Contains(l, "/golang.org/toolchain") {
				if j := strings.Index(l, " +0x"); j >= 0 {
					l = l[:j]
				}
				return "panic:" + d + "@" + l
			}
		}
	}
	return o.Kind + ":" + d
}

func c05cScenarios() []*explore.Scenario {
	// a replay looks its scenario up by name: offer the full (thorough) list then
	var scs []*explore.Scenario
	for _, spec := range c05cSpecs(os.Getenv("VERIF_TIER") == "thorough" || os.Getenv("VERIF_REPLAY") != "") {
		scs = append(scs, &explore.Scenario{Name: spec.name(),
			Quick: explore.Bounds{P: 2}, Thorough: explore.Bounds{P: 3},
			Body: func(e *vsched.Exec) { c05cBody(e, spec) }, Sig: c05cSig})
	}
	return scs
}

func TestVerifC05ClientConc(t *testing.T) {
	explore.Main(t, "C05", c05cScenarios())
}
