#!/bin/sh
# regenerates sendpath_client_test.go = client header + the common section of sendpath_server_test.go
cd "$(dirname "$0")" || exit 1
{ cat client_header.go.txt; sed -n '/^\/\/ ---- common ---/,$p' sendpath_server_test.go; } > sendpath_client_test.go
