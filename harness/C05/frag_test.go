package frag

// C05 harness, unit "frag" (injected by overlay into core/internal/frag).
//
//   splitter              cartesian product payload size x address length x datagram limit on the
//                         real FragUDPMessage against a reference written from the property text
//   reassembler-bfs       explicit-state BFS (xstate) over the real Defragger: operations = feed
//                         any fragment of a small alphabet (drop = never fed, duplicate = fed again,
//                         reordering/interleaving = any order); state key = Defragger private fields
//   reassembler-sequences every operation sequence of a fixed length over the same alphabets, with
//                         the expectation recomputed from the bare history (no incremental model)
//   wire-widths           (wire_frag_test.go) datagrams as a conforming peer may write them: the
//                         address-length varint on every legal width, through the real parser and
//                         Defragger in every arrival order

import (
	"bytes"
	"encoding/json"
	"fmt"
	"reflect"
	"sort"
	"strings"
	"testing"
	"unsafe"

	"github.com/apernet/hysteria/core/v2/internal/protocol"
	"verif.local/engine/enum"
	"verif.local/engine/evidence"
	"verif.local/engine/vpriv"
	"verif.local/engine/xstate"
)

// ---------------------------------------------------------------------------------------------
// shared helpers

func c05VarintLen(v int) int {
	switch {
	case v <= 63:
		return 1
	case v <= 16383:
		return 2
	case v <= 1073741823:
		return 4
	}
	return 8
}

// c05RefHeader is the header size from PROTOCOL.md: 4+2+1+1 + varint(len(addr)) + len(addr).
func c05RefHeader(alen int) int { return 8 + c05VarintLen(alen) + alen }

var c05Pattern = func() []byte {
	b := make([]byte, 65535)
	for i := range b {
		b[i] = byte((uint32(i+1) * 2654435761) >> 23)
	}
	return b
}()

func c05Addr(n int) string {
	b := make([]byte, n)
	for i := range b {
		b[i] = "host-name.example:65535/"[i%24]
	}
	return string(b)
}

func c05Fresh(b []byte) []byte {
	c := make([]byte, len(b))
	copy(c, b)
	return c
}

func c05SortedSet(vs []int, lo, hi int) []int {
	seen := map[int]bool{}
	var out []int
	for _, v := range vs {
		if v < lo || v > hi || seen[v] {
			continue
		}
		seen[v] = true
		out = append(out, v)
	}
	sort.Ints(out)
	return out
}

// ---------------------------------------------------------------------------------------------
// splitter

type c05SplitCase struct {
	Payload int `json:"payload"`
	AddrLen int `json:"addr_len"`
	Limit   int `json:"limit"`
}

const (
	c05Session = 0xA1B2C3D4
	c05PktID   = 0xBEEF
)

// c05SplitRun runs one splitter case on the real code. It returns the violated clause ("" if
// none) and a structural shape for the class count.
func c05SplitRun(c c05SplitCase) (clause, shape string) {
	val, stack := evidence.Catch(func() { clause, shape = c05SplitInner(c) })
	if val != nil {
		return fmt.Sprintf("panic: %v at %s", val, evidence.PanicSite(stack)), "panic"
	}
	return
}

func c05SplitInner(c c05SplitCase) (string, string) {
	addr := c05Addr(c.AddrLen)
	payload := c05Pattern[:c.Payload:c.Payload]
	m := &protocol.UDPMessage{SessionID: c05Session, PacketID: c05PktID, FragID: 0, FragCount: 1, Addr: addr, Data: payload}
	hdr := c05RefHeader(c.AddrLen)
	got := FragUDPMessage(m, c.Limit)

	// reference, from the property text
	if hdr+c.Payload <= c.Limit {
		if len(got) != 1 {
			return fmt.Sprintf("message that fits the limit returned as %d messages", len(got)), "fits"
		}
		g := got[0]
		if g.SessionID != c05Session || g.Addr != addr || !bytes.Equal(g.Data, payload) || g.FragCount != 1 || g.FragID != 0 {
			return "message that fits the limit was altered", "fits"
		}
		return "", "fits"
	}
	budget := c.Limit - hdr
	need := 0
	if budget > 0 {
		need = (c.Payload-1)/budget + 1 // smallest number of fragments that can carry the payload
	}
	if budget <= 0 || need > 255 {
		reg := "nobudget"
		if budget > 0 {
			reg = "over255"
		}
		if len(got) != 0 {
			return fmt.Sprintf("message that cannot be carried in <=255 fragments of <=limit bytes was not discarded: %d fragments returned (need %d, budget %d)", len(got), need, budget), reg
		}
		return "", reg
	}
	n := len(got)
	shape := fmt.Sprintf("split n=%d", n)
	if n == 0 {
		return fmt.Sprintf("splittable message discarded (needs %d fragments of budget %d)", need, budget), shape
	}
	if n > 255 {
		return fmt.Sprintf("%d fragments returned (more than the 8-bit count can express)", n), shape
	}
	off := 0
	for i := range got {
		f := &got[i]
		if int(f.FragCount) != n {
			return fmt.Sprintf("fragment %d carries count %d, %d fragments returned", i, f.FragCount, n), shape
		}
		if int(f.FragID) != i {
			return fmt.Sprintf("fragment at position %d carries id %d", i, f.FragID), shape
		}
		if f.PacketID != c05PktID {
			return fmt.Sprintf("fragment %d carries packet id %#x, message has %#x", i, f.PacketID, c05PktID), shape
		}
		if f.SessionID != c05Session || f.Addr != addr {
			return fmt.Sprintf("fragment %d does not preserve session/address", i), shape
		}
		if len(f.Data) == 0 {
			return fmt.Sprintf("fragment %d is empty (rejected by the receiving parser)", i), shape
		}
		if sz := hdr + len(f.Data); sz > c.Limit || f.Size() > c.Limit {
			return fmt.Sprintf("fragment %d is %d bytes on the wire (Size()=%d), limit %d", i, sz, f.Size(), c.Limit), shape
		}
		if off+len(f.Data) > len(payload) || !bytes.Equal(f.Data, payload[off:off+len(f.Data)]) {
			return fmt.Sprintf("fragment %d does not continue the payload at offset %d", i, off), shape
		}
		off += len(f.Data)
	}
	if off != len(payload) {
		return fmt.Sprintf("fragments carry %d bytes, payload is %d", off, len(payload)), shape
	}
	// the real wire form of the first and the last fragment
	for _, i := range []int{0, n - 1} {
		f := &got[i]
		buf := make([]byte, hdr+len(f.Data))
		w := f.Serialize(buf)
		if w != len(buf) {
			return fmt.Sprintf("fragment %d serializes to %d bytes, expected %d", i, w, len(buf)), shape
		}
		if w > c.Limit {
			return fmt.Sprintf("fragment %d serializes to %d bytes, limit %d", i, w, c.Limit), shape
		}
		p, err := protocol.ParseUDPMessage(buf)
		if err != nil {
			if c.AddrLen > protocol.MaxMessageLength {
				continue
			}
			return fmt.Sprintf("fragment %d rejected by the parser: %v", i, err), shape
		}
		if p.SessionID != c05Session || p.PacketID != c05PktID || int(p.FragID) != i || int(p.FragCount) != n || p.Addr != addr || !bytes.Equal(p.Data, f.Data) {
			return fmt.Sprintf("fragment %d changed by serialize/parse", i), shape
		}
	}
	last := "other"
	switch len(got[n-1].Data) {
	case 1:
		last = "1"
	case budget:
		last = "full"
	}
	return "", shape + " last=" + last
}

func c05Limits(hdr int) []int {
	var ls []int
	for l := 0; l <= hdr+3; l++ {
		ls = append(ls, l)
	}
	for l := hdr + 1; l <= hdr+40; l++ {
		ls = append(ls, l)
	}
	for l := 1100; l <= 1200; l++ {
		ls = append(ls, l)
	}
	ls = append(ls, 1452, 65535)
	return c05SortedSet(ls, 0, 1<<30)
}

var c05AbsPayloads = []int{1023, 1024, 1025, 1199, 1200, 1201, 1452, 2047, 2048, 2049, 4095, 4096, 4097, 16383, 16384, 32767, 32768, 65279, 65280, 65281, 65534, 65535}
var c05RelK = []int{1, 2, 3, 127, 128, 254, 255, 256, 257}

func c05Payloads(hdr, limit, dense int) []int {
	var ps []int
	for p := 1; p <= dense; p++ {
		ps = append(ps, p)
	}
	ps = append(ps, c05AbsPayloads...)
	if b := limit - hdr; b > 0 {
		for _, k := range c05RelK {
			ps = append(ps, k*b-1, k*b, k*b+1)
		}
	}
	return c05SortedSet(ps, 1, 65535)
}

var c05AddrLens = []int{1, 10, 63, 64, 255, 1024, 2048}

func c05Splitter(sh *evidence.Shard) {
	env := sh.Env()
	p := sh.Part("splitter", "enum")
	p.Alphabet = map[string]any{
		"addr_len":     c05AddrLens,
		"limit":        "{0..hdr+3} u {hdr+1..hdr+40} u {1100..1200} u {1452,65535}, hdr = 8+varint(addr_len)+addr_len",
		"payload_size": fmt.Sprintf("{1..600} u %v u {k*(limit-hdr)+d : k in %v, d in -1,0,1}", c05AbsPayloads, c05RelK),
		"content":      "position-dependent byte pattern (any shift, swap or repeat changes the concatenation)",
	}
	var item int64
	for _, al := range c05AddrLens {
		hdr := c05RefHeader(al)
		for _, lim := range c05Limits(hdr) {
			for _, pl := range c05Payloads(hdr, lim, 600) {
				item++
				if !env.Mine(item) {
					continue
				}
				if p.Evaluations&1023 == 0 && env.Expired() {
					p.Exhaustive = false
					p.Note("deadline reached in addr_len=%d limit=%d; all smaller address lengths completely covered", al, lim)
					return
				}
				c := c05SplitCase{Payload: pl, AddrLen: al, Limit: lim}
				p.Evaluations++
				clause, shape := c05SplitRun(c)
				p.Class(al, shape, clause == "")
				if shape != "nobudget" && p.Evaluations%4099 == 7 {
					p.Sample(c)
				}
				if clause != "" {
					c05Report(sh, p, c05Generic(clause), fmt.Sprintf("splitter/%s/payload=%d,addr_len=%d,limit=%d", c05Generic(clause), pl, al, lim), clause, c)
				}
			}
		}
	}
}

// c05Report records a violation, at most c05MaxPerKind per (part, clause kind) and shard: cases are
// enumerated simplest first, so the first ones are the minimal cases; the enumeration itself goes on
// (other clause kinds are still reported, every violating case is counted).
const c05MaxPerKind = 2

var c05Reported = map[string]int{}

func c05Report(sh *evidence.Shard, p *evidence.Part, kind, signature, detail string, replay any) {
	k := p.Name + "/" + kind
	c05Reported[k]++
	p.Count("violating_cases", 1)
	if c05Reported[k] > c05MaxPerKind {
		return
	}
	sh.Violate(p.Name, signature, detail, replay)
}

// c05Generic strips the numbers out of a clause so that the signature = clause kind + minimal case.
func c05Generic(clause string) string {
	var b strings.Builder
	prevDigit := false
	for _, r := range clause {
		if r >= '0' && r <= '9' {
			if !prevDigit {
				b.WriteByte('N')
			}
			prevDigit = true
			continue
		}
		prevDigit = false
		b.WriteRune(r)
	}
	s := b.String()
	if i := strings.IndexByte(s, '{'); i >= 0 {
		s = s[:i] // written-out messages are detail, not clause kind
	}
	if len(s) > 90 {
		s = s[:90]
	}
	return s
}

// ---------------------------------------------------------------------------------------------
// reassembler

type c05Whole struct {
	Sess uint32
	Addr string
	Data []byte
}

// c05Sym is one datagram of the alphabet.
type c05Sym struct {
	Name  string
	Msg   int // index into Sent of the message it belongs to; -1 = malformed (never part of a message)
	Pkt   uint16
	ID    uint8
	Count uint8
	Sess  uint32
	Addr  string
	Data  []byte
}

func (s *c05Sym) valid() bool { return s.Msg >= 0 && s.Count >= 2 && s.ID < s.Count }
func (s *c05Sym) whole() bool { return s.Count <= 1 }

type c05Cfg struct {
	Name  string
	Sent  []c05Whole // everything that was sent as one message
	Total []int      // Sent[i] was split into Total[i] fragments (1 = sent whole)
	Alpha []c05Sym
	Quick bool
	Depth int // sequence length for the reassembler-sequences part
}

type c05MsgSpec struct {
	pkt   uint16
	sizes []int // payload bytes per fragment
	only  []int // fragment ids put into the alphabet (nil = all)
	count int   // declared fragment count (0 = len(sizes))
}

func c05MkCfg(name string, quick bool, depth int, specs []c05MsgSpec, extra func(c *c05Cfg)) *c05Cfg {
	c := &c05Cfg{Name: name, Quick: quick, Depth: depth}
	for mi, sp := range specs {
		addr := fmt.Sprintf("dst%d.example:%d", mi, 1000+mi)
		var payload []byte
		n := len(sp.sizes)
		count := n
		if sp.count != 0 {
			count = sp.count
		}
		var parts [][]byte
		for fi, sz := range sp.sizes {
			d := make([]byte, sz)
			for j := range d {
				d[j] = byte((mi+1)<<4 | fi&15)
			}
			parts = append(parts, d)
			payload = append(payload, d...)
		}
		c.Sent = append(c.Sent, c05Whole{Sess: 7, Addr: addr, Data: payload})
		c.Total = append(c.Total, count)
		ids := sp.only
		if ids == nil {
			for i := 0; i < n; i++ {
				ids = append(ids, i)
			}
		}
		for k, fi := range ids {
			d := parts[k%len(parts)]
			if sp.only == nil {
				d = parts[fi]
			}
			c.Alpha = append(c.Alpha, c05Sym{Name: fmt.Sprintf("%c%d/%d", 'A'+mi, fi, count), Msg: mi, Pkt: sp.pkt, ID: uint8(fi), Count: uint8(count), Sess: 7, Addr: addr, Data: d})
		}
	}
	if extra != nil {
		extra(c)
	}
	return c
}

// c05AddWhole adds a datagram that is a complete message by itself (count <= 1).
func (c *c05Cfg) c05AddWhole(name string, pkt uint16, id, count uint8, data []byte) {
	c.Sent = append(c.Sent, c05Whole{Sess: 7, Addr: "whole.example:53", Data: data})
	c.Total = append(c.Total, 1)
	c.Alpha = append(c.Alpha, c05Sym{Name: name, Msg: len(c.Sent) - 1, Pkt: pkt, ID: id, Count: count, Sess: 7, Addr: "whole.example:53", Data: data})
}

// c05AddBad adds a malformed fragment (FragID >= FragCount); it belongs to no message.
func (c *c05Cfg) c05AddBad(name string, pkt uint16, id, count uint8, addr string, data []byte) {
	c.Alpha = append(c.Alpha, c05Sym{Name: name, Msg: -1, Pkt: pkt, ID: id, Count: count, Sess: 7, Addr: addr, Data: data})
}

func c05Configs() []*c05Cfg {
	var cs []*c05Cfg
	// packet ids: 0x0101/0x0201 agree in the low byte, 0x0101/0x0102 in the high byte; 0 equals the
	// zero value of Defragger.pktID; 0xffff is the largest
	cs = append(cs, c05MkCfg("2x2+whole+malformed", true, 7, []c05MsgSpec{{pkt: 0x0101, sizes: []int{2, 1}}, {pkt: 0x0201, sizes: []int{2, 1}}}, func(c *c05Cfg) {
		c.c05AddWhole("U", 0, 0, 1, []byte{0xee, 0xef})
		c.c05AddWhole("Z", 0x0101, 0, 0, []byte{0xdd}) // count 0: handed through as a whole message
		c.c05AddBad("bad2/2", 0x0101, 2, 2, "dst0.example:1000", []byte{0xbb})
	}))
	cs = append(cs, c05MkCfg("2+3+3", true, 6, []c05MsgSpec{{pkt: 0x0101, sizes: []int{1, 1}}, {pkt: 0x0201, sizes: []int{2, 2, 1}}, {pkt: 0x0102, sizes: []int{3, 3, 3}}}, func(c *c05Cfg) {
		c.c05AddBad("bad3/3", 0x0201, 3, 3, "dst1.example:1001", []byte{0xbb})
		c.c05AddBad("bad255/2", 0x0101, 255, 2, "dst0.example:1000", []byte{0xbc})
	}))
	cs = append(cs, c05MkCfg("3x3", true, 6, []c05MsgSpec{{pkt: 0x0101, sizes: []int{2, 2, 1}}, {pkt: 0x0201, sizes: []int{2, 2, 1}}, {pkt: 0x0102, sizes: []int{2, 2, 1}}}, nil))
	cs = append(cs, c05MkCfg("pkt0+pktffff+whole", true, 7, []c05MsgSpec{{pkt: 0, sizes: []int{1, 2}}, {pkt: 0xffff, sizes: []int{2, 1}}}, func(c *c05Cfg) {
		c.c05AddWhole("U", 0xffff, 0, 1, []byte{0xee})
		c.c05AddWhole("U'", 0, 1, 1, []byte{0xed}) // count 1 with a non-zero id: still a whole message
		c.c05AddBad("bad2/2", 0, 2, 2, "dst0.example:1000", []byte{0xbb})
	}))
	// a 255-fragment message of which only four fragments ever arrive (loss), next to a 2-fragment one
	cs = append(cs, c05MkCfg("255-lossy+2", true, 7, []c05MsgSpec{{pkt: 0x0101, sizes: []int{1, 1, 1, 1}, only: []int{0, 1, 253, 254}, count: 255}, {pkt: 0x0201, sizes: []int{1, 1}}}, func(c *c05Cfg) {
		c.c05AddBad("bad255/255", 0x0101, 255, 255, "dst0.example:1000", []byte{0xbb})
	}))
	// thorough only
	cs = append(cs, c05MkCfg("2+3+4", false, 7, []c05MsgSpec{{pkt: 0x0101, sizes: []int{1, 1}}, {pkt: 0x0201, sizes: []int{1, 2, 1}}, {pkt: 0x0102, sizes: []int{2, 1, 2, 1}}}, func(c *c05Cfg) {
		c.c05AddWhole("U", 0x0102, 0, 1, []byte{0xee})
	}))
	cs = append(cs, c05MkCfg("4x2", false, 8, []c05MsgSpec{{pkt: 0x0101, sizes: []int{1, 1}}, {pkt: 0x0201, sizes: []int{1, 1}}, {pkt: 0x0102, sizes: []int{1, 1}}, {pkt: 0, sizes: []int{1, 1}}}, nil))
	cs = append(cs, c05MkCfg("2x5", false, 7, []c05MsgSpec{{pkt: 0x0101, sizes: []int{1, 1, 1, 1, 1}}, {pkt: 0x0201, sizes: []int{1, 1, 1, 1, 2}}}, nil))
	return cs
}

func c05SameWhole(m *protocol.UDPMessage, w *c05Whole) bool {
	return m.SessionID == w.Sess && m.Addr == w.Addr && bytes.Equal(m.Data, w.Data)
}

func c05MsgString(m *protocol.UDPMessage) string {
	if m == nil {
		return "nothing"
	}
	return fmt.Sprintf("{session %d addr %q payload %x}", m.SessionID, m.Addr, m.Data)
}

// c05Feed feeds symbol i (a fresh message, fresh data slice with cap == len) to d.
func c05Feed(d *Defragger, s *c05Sym) *protocol.UDPMessage {
	m := &protocol.UDPMessage{SessionID: s.Sess, PacketID: s.Pkt, FragID: s.ID, FragCount: s.Count, Addr: s.Addr, Data: c05Fresh(s.Data)}
	return d.Feed(m)
}

// c05Judge compares one emission with the expectation. want = index into Sent or -1.
func c05Judge(cfg *c05Cfg, sym *c05Sym, out *protocol.UDPMessage, want int) string {
	if out != nil {
		sent := -1
		for i := range cfg.Sent {
			if c05SameWhole(out, &cfg.Sent[i]) {
				sent = i
			}
		}
		if sent < 0 {
			return fmt.Sprintf("emitted a message that was never sent as one message: %s after feeding %s", c05MsgString(out), sym.Name)
		}
		if want < 0 {
			return fmt.Sprintf("message %d emitted although its fragments had not all arrived in this run (or it was already emitted) after feeding %s", sent, sym.Name)
		}
		if sent != want {
			return fmt.Sprintf("message %d emitted where message %d was completed by %s", sent, want, sym.Name)
		}
		return ""
	}
	if want >= 0 {
		return fmt.Sprintf("message %d not emitted although %s completed it without a foreign fragment in between", want, sym.Name)
	}
	return ""
}

// --- incremental reference (for the BFS): the message currently being collected

type c05Ref struct {
	cur  int // message index or -1
	got  map[uint8]bool
	done bool
}

// step returns the index of the message that must be emitted now, or -1.
func (r *c05Ref) step(cfg *c05Cfg, s *c05Sym) int {
	if s.whole() {
		return s.Msg
	}
	if !s.valid() {
		return -1
	}
	if s.Msg != r.cur {
		r.cur, r.got, r.done = s.Msg, map[uint8]bool{}, false
	}
	r.got[s.ID] = true
	if !r.done && len(r.got) == cfg.Total[s.Msg] {
		r.done = true
		return s.Msg
	}
	return -1
}

func (r *c05Ref) key() string {
	var ids []int
	for id := range r.got {
		ids = append(ids, int(id))
	}
	sort.Ints(ids)
	return fmt.Sprintf("ref{%d %v %v}", r.cur, ids, r.done)
}

type c05Sys struct {
	cfg *c05Cfg
	d   *Defragger
	ref c05Ref
}

func (s *c05Sys) Apply(op int) (err error) {
	sym := &s.cfg.Alpha[op]
	want := s.ref.step(s.cfg, sym)
	var clause string
	val, stack := evidence.Catch(func() {
		out := c05Feed(s.d, sym)
		clause = c05Judge(s.cfg, sym, out, want)
		if clause == "" {
			clause = c05Invariant(s.d)
		}
	})
	if val != nil {
		clause = fmt.Sprintf("panic: %v at %s (feeding %s)", val, evidence.PanicSite(stack), sym.Name)
	}
	if clause != "" {
		return fmt.Errorf("%s", clause)
	}
	return nil
}

// c05Invariant: "the one message currently being reassembled": every stored fragment belongs to
// one packet id. Read from the private state by reflection (every *protocol.UDPMessage reachable
// from the Defragger), so that it does not depend on how the Defragger lays its state out; when
// the state holds no stored messages in that form the invariant is vacuous.
func c05Invariant(d *Defragger) string {
	var ids []uint16
	c05WalkMsgs(reflect.ValueOf(d), func(m *protocol.UDPMessage) { ids = append(ids, m.PacketID) })
	for _, id := range ids {
		if id != ids[0] {
			return fmt.Sprintf("stored fragments of packets %#x and %#x at the same time", ids[0], id)
		}
	}
	return ""
}

func c05WalkMsgs(v reflect.Value, f func(*protocol.UDPMessage)) {
	switch v.Kind() {
	case reflect.Pointer:
		if v.IsNil() {
			return
		}
		if m, ok := v.Interface().(*protocol.UDPMessage); ok {
			f(m)
			return
		}
		c05WalkMsgs(v.Elem(), f)
	case reflect.Struct:
		tmp := reflect.New(v.Type()).Elem()
		tmp.Set(v)
		for i := 0; i < tmp.NumField(); i++ {
			fv := tmp.Field(i)
			c05WalkMsgs(reflect.NewAt(fv.Type(), unsafe.Pointer(fv.UnsafeAddr())).Elem(), f)
		}
	case reflect.Slice, reflect.Array:
		for i := 0; i < v.Len(); i++ {
			c05WalkMsgs(v.Index(i), f)
		}
	}
}

// Key: the whole private state of the Defragger, whatever its fields are (vpriv.Fingerprint
// abstracts nothing away), plus the reference's window. Two histories with equal keys therefore
// have equal futures.
func (s *c05Sys) Key() string {
	return c05ImplKey(s.d) + " " + s.ref.key()
}

func c05ImplKey(d *Defragger) string { return vpriv.Fingerprint(d) }

// c05Clone: a deep copy of the Defragger (no memory shared with the original).
func c05Clone(d *Defragger) *Defragger { return vpriv.Clone(d) }

// c05Probe: what a copy of the state answers to each symbol (history independence).
func c05Probe(x xstate.Sys[int]) string {
	s := x.(*c05Sys)
	var b strings.Builder
	for i := range s.cfg.Alpha {
		val, _ := evidence.Catch(func() {
			out := c05Feed(c05Clone(s.d), &s.cfg.Alpha[i])
			b.WriteString(c05MsgString(out))
		})
		if val != nil {
			b.WriteString("panic")
		}
		b.WriteByte(';')
	}
	return b.String()
}

type c05HistCase struct {
	Cfg     string   `json:"cfg"`
	History []int    `json:"history"`
	Names   []string `json:"names,omitempty"`
}

func c05Names(cfg *c05Cfg, h []int) []string {
	var ns []string
	for _, op := range h {
		ns = append(ns, cfg.Alpha[op].Name)
	}
	return ns
}

func c05AlphaDoc(cfg *c05Cfg) []string {
	var out []string
	for i := range cfg.Alpha {
		s := &cfg.Alpha[i]
		out = append(out, fmt.Sprintf("%s pkt=%#x data=%x", s.Name, s.Pkt, s.Data))
	}
	return out
}

func c05ReassemblerBFS(sh *evidence.Shard) {
	env := sh.Env()
	p := sh.Part("reassembler-bfs", "xstate")
	depth := 7
	if env.Thorough() {
		depth = 9
	}
	doc := map[string]any{}
	for _, cfg := range c05Configs() {
		doc[cfg.Name] = c05AlphaDoc(cfg)
	}
	p.Alphabet = doc
	p.Bounds = map[string]any{"max_depth": depth, "ops": "feed any symbol of the configuration's alphabet"}
	for ci, cfg := range c05Configs() {
		if !cfg.Quick && !env.Thorough() {
			continue
		}
		if !env.Mine(int64(ci)) {
			continue
		}
		cfg := cfg
		ops := make([]int, len(cfg.Alpha))
		for i := range ops {
			ops[i] = i
		}
		res := xstate.BFS(xstate.Config[int]{
			Ops:      ops,
			New:      func() xstate.Sys[int] { return &c05Sys{cfg: cfg, d: &Defragger{}, ref: c05Ref{cur: -1}} },
			MaxDepth: depth,
			Probe:    c05Probe,
		}, p, env)
		p.Class(cfg.Name, res.States, res.Transitions)
		if res.Depth < depth && res.Violation == nil && p.Exhaustive {
			p.Note("%s: fixpoint at depth %d (%d states): every reachable state expanded, bound %d not binding", cfg.Name, res.Depth, res.States, depth)
		}
		if res.Violation != nil {
			names := c05Names(cfg, res.History)
			sh.Violate(p.Name, fmt.Sprintf("reassembler-bfs/%s/%s/history=%s", cfg.Name, c05Generic(res.Violation.Error()), strings.Join(names, ",")),
				res.Violation.Error(), c05HistCase{Cfg: cfg.Name, History: res.History, Names: names})
		}
	}
}

// c05HistoryRun executes a history on a fresh Defragger with the incremental reference.
func c05HistoryRun(cfg *c05Cfg, h []int) string {
	s := &c05Sys{cfg: cfg, d: &Defragger{}, ref: c05Ref{cur: -1}}
	for i, op := range h {
		if op < 0 || op >= len(cfg.Alpha) {
			return ""
		}
		if err := s.Apply(op); err != nil {
			return fmt.Sprintf("step %d: %v", i, err)
		}
	}
	return ""
}

// c05Expect recomputes from the bare history which message (or -1) feeding h[j] must emit: the
// run = the fragments since the last valid fragment of a different message; h[j] must emit its
// message iff the run now holds every fragment id and did not before.
func c05Expect(cfg *c05Cfg, h []int, j int) int {
	s := &cfg.Alpha[h[j]]
	if s.whole() {
		return s.Msg
	}
	if !s.valid() {
		return -1
	}
	before := map[uint8]bool{}
	for i := j - 1; i >= 0; i-- {
		t := &cfg.Alpha[h[i]]
		if t.whole() || !t.valid() {
			continue
		}
		if t.Msg != s.Msg {
			break
		}
		before[t.ID] = true
	}
	total := cfg.Total[s.Msg]
	if len(before) == total {
		return -1
	}
	before[s.ID] = true
	if len(before) == total {
		return s.Msg
	}
	return -1
}

func c05SequenceRun(cfg *c05Cfg, h []int) (clause string, emitted int) {
	val, stack := evidence.Catch(func() {
		d := &Defragger{}
		// aliasing oracle: a payload that was delivered stays what was delivered, whatever is fed
		// afterwards (the consumer - e.g. the client's udpConn.Receive caller - keeps the slice)
		type held struct {
			at   int
			data []byte // the slice as handed out (NOT a copy)
			want []byte // what it contained when it was handed out
		}
		var kept []held
		for j := range h {
			sym := &cfg.Alpha[h[j]]
			out := c05Feed(d, sym)
			if out != nil {
				emitted++
			}
			if cl := c05Judge(cfg, sym, out, c05Expect(cfg, h, j)); cl != "" {
				clause = fmt.Sprintf("step %d: %s", j, cl)
				return
			}
			for _, k := range kept {
				if !bytes.Equal(k.data, k.want) {
					clause = fmt.Sprintf("step %d: the payload delivered at step %d was overwritten afterwards (delivered payloads must stay intact: the reassembler handed out memory it keeps using)", j, k.at)
					return
				}
			}
			if out != nil {
				kept = append(kept, held{j, out.Data, append([]byte(nil), out.Data...)})
			}
		}
	})
	if val != nil {
		clause = fmt.Sprintf("panic: %v at %s", val, evidence.PanicSite(stack))
	}
	return
}

func c05ReassemblerSequences(sh *evidence.Shard) {
	env := sh.Env()
	p := sh.Part("reassembler-sequences", "enum")
	p.Alphabet = "same alphabets as reassembler-bfs; every sequence of exactly L symbols (all shorter ones are its prefixes, judged step by step)"
	bounds := map[string]any{}
	var item int64
	for _, cfg := range c05Configs() {
		if !cfg.Quick && !env.Thorough() {
			continue
		}
		L := cfg.Depth
		if env.Thorough() {
			L++
		}
		k := len(cfg.Alpha)
		bounds[cfg.Name] = fmt.Sprintf("%d symbols ^ %d", k, L)
		dims := make([]int, L)
		for i := range dims {
			dims[i] = k
		}
		stop := false
		enum.Product(dims, func(idx []int) bool {
			item++
			if !env.Mine(item) {
				return true
			}
			if p.Evaluations&4095 == 0 && env.Expired() {
				p.Exhaustive = false
				p.Note("deadline reached in configuration %s; earlier configurations completely covered", cfg.Name)
				stop = true
				return false
			}
			p.Evaluations++
			clause, emitted := c05SequenceRun(cfg, idx)
			p.Class(cfg.Name, c05SeqShape(cfg, idx), emitted, clause == "")
			if clause != "" {
				// minimal case: shortest failing prefix, then drop every feed that is not needed
				h := append([]int{}, idx...)
				for n := 1; n <= len(h); n++ {
					if cl, _ := c05SequenceRun(cfg, h[:n]); cl != "" {
						h, clause = h[:n], cl
						break
					}
				}
				for i := 0; i < len(h); {
					g := append(append([]int{}, h[:i]...), h[i+1:]...)
					if cl, _ := c05SequenceRun(cfg, g); cl != "" {
						h, clause = g, cl
					} else {
						i++
					}
				}
				names := c05Names(cfg, h)
				c05Report(sh, p, cfg.Name+"/"+c05Generic(clause), fmt.Sprintf("reassembler-sequences/%s/%s/history=%s", cfg.Name, c05Generic(clause), strings.Join(names, ",")),
					clause, c05HistCase{Cfg: cfg.Name, History: h, Names: names})
			}
			return true
		})
		if stop {
			break
		}
	}
	p.Bounds = bounds
}

// c05SeqShape: structural shape of a sequence = the sequence of (message, kind) with fragment ids
// abstracted to first-seen/duplicate.
func c05SeqShape(cfg *c05Cfg, h []int) string {
	var b strings.Builder
	seen := map[int]bool{}
	for _, op := range h {
		s := &cfg.Alpha[op]
		switch {
		case s.whole():
			b.WriteByte('w')
		case !s.valid():
			b.WriteByte('x')
		case seen[op]:
			fmt.Fprintf(&b, "%cd", 'A'+s.Msg)
		default:
			fmt.Fprintf(&b, "%cn", 'A'+s.Msg)
		}
		seen[op] = true
	}
	return b.String()
}

// ---------------------------------------------------------------------------------------------

func c05CfgByName(name string) *c05Cfg {
	for _, c := range c05Configs() {
		if c.Name == name {
			return c
		}
	}
	return nil
}

func TestVerifC05Frag(t *testing.T) {
	evidence.Main(t, "C05", evidence.Seq{
		Run: func(sh *evidence.Shard) {
			c05ReassemblerBFS(sh)
			c05ReassemblerSequences(sh)
			c05Splitter(sh)
			c05WireWidthsPart(sh) // wire_frag_test.go
		},
		Replay: func(part string, raw json.RawMessage) (bool, bool, string) {
			switch part {
			case "splitter":
				var c c05SplitCase
				if err := json.Unmarshal(raw, &c); err != nil {
					return true, false, err.Error()
				}
				clause, _ := c05SplitRun(c)
				return true, clause != "", clause
			case "wire-widths":
				var c c05WireCase
				if err := json.Unmarshal(raw, &c); err != nil {
					return true, false, err.Error()
				}
				clause, _, _ := c05WireRun(c)
				return true, clause != "", clause
			case "reassembler-bfs", "reassembler-sequences":
				var c c05HistCase
				if err := json.Unmarshal(raw, &c); err != nil {
					return true, false, err.Error()
				}
				cfg := c05CfgByName(c.Cfg)
				if cfg == nil {
					return true, false, "unknown configuration " + c.Cfg
				}
				for _, op := range c.History {
					if op < 0 || op >= len(cfg.Alpha) {
						return true, false, "history does not fit the configuration's alphabet"
					}
				}
				var clause string
				if part == "reassembler-bfs" {
					clause = c05HistoryRun(cfg, c.History)
				} else {
					clause, _ = c05SequenceRun(cfg, c.History)
				}
				return true, clause != "", clause
			}
			return false, false, ""
		},
	})
}
