package server

// C05, server -> client direction through the real reply loop (udpSessionEntry.receiveLoop): the
// target answers a session with ONE datagram of R bytes, R from 1 to the UDP maximum. The target
// socket behaves like a kernel UDP socket: a read into a buffer shorter than the datagram returns
// the first len(buffer) bytes and discards the rest. Whatever the server's buffers are, the client
// must reassemble the R bytes exactly or nothing — never a truncated prefix.
//
// Driven through newUDPSessionManager + Run (the manager's own receive loop) with a fake udpIO that
// enforces a datagram limit the way udpIOImpl.SendMessage + quic SendDatagram do. A small marker
// reply queued behind the big one tells when the reply loop (sequential) is done with it.
// Added after the independently seeded change C05-4 (message buffer enlarged beside an unchanged
// 4096-byte read buffer: a truncated read that used to be dropped is now fragmented and delivered).

import (
	"bytes"
	"encoding/json"
	"errors"
	"fmt"
	"sync"
	"testing"
	"time"

	"github.com/apernet/quic-go"

	"github.com/apernet/hysteria/core/v2/internal/frag"
	"github.com/apernet/hysteria/core/v2/internal/protocol"
	"verif.local/engine/evidence"
)

type c05ReplyCase struct {
	Reply int `json:"reply_bytes"`
	Limit int `json:"datagram_limit"`
}

var c05ReplyMarker = []byte("~end-of-replies~")

type c05ReplyConn struct {
	mu      sync.Mutex
	replies [][]byte
	closed  chan struct{}
	once    sync.Once
}

func (c *c05ReplyConn) ReadFrom(b []byte) (int, string, error) {
	c.mu.Lock()
	if len(c.replies) > 0 {
		r := c.replies[0]
		c.replies = c.replies[1:]
		c.mu.Unlock()
		return copy(b, r), "t:1", nil // a UDP socket truncates to the buffer and discards the rest
	}
	c.mu.Unlock()
	<-c.closed
	return 0, "", errors.New("c05: socket closed")
}
func (c *c05ReplyConn) WriteTo(b []byte, addr string) (int, error) { return len(b), nil }
func (c *c05ReplyConn) Close() error                               { c.once.Do(func() { close(c.closed) }); return nil }

type c05ReplyIO struct {
	limit int
	in    chan *protocol.UDPMessage
	conn  *c05ReplyConn
	mu    sync.Mutex
	wire  [][]byte
	done  chan struct{}
	once  sync.Once
}

func (f *c05ReplyIO) ReceiveMessage() (*protocol.UDPMessage, error) {
	m, ok := <-f.in
	if !ok {
		return nil, errors.New("c05: connection lost")
	}
	return m, nil
}
func (f *c05ReplyIO) SendMessage(buf []byte, msg *protocol.UDPMessage) error {
	n := msg.Serialize(buf)
	if n < 0 {
		return nil // does not fit the caller's buffer: silently dropped, as udpIOImpl does
	}
	if n > f.limit {
		return &quic.DatagramTooLargeError{MaxDatagramPayloadSize: int64(f.limit)}
	}
	f.mu.Lock()
	f.wire = append(f.wire, append([]byte(nil), buf[:n]...))
	f.mu.Unlock()
	if msg.FragCount <= 1 && bytes.Equal(msg.Data, c05ReplyMarker) {
		f.once.Do(func() { close(f.done) })
	}
	return nil
}
func (f *c05ReplyIO) Hook([]byte, *string) error  { return nil }
func (f *c05ReplyIO) CheckUDP(string) error       { return nil }
func (f *c05ReplyIO) UDP(string) (UDPConn, error) { return f.conn, nil }

type c05ReplyEvents struct{}

func (c05ReplyEvents) New(uint32, string)  {}
func (c05ReplyEvents) Close(uint32, error) {}

func c05ReplyRun(c *c05ReplyCase) (clause string) {
	val, stack := evidence.Catch(func() { clause = c05ReplyRunInner(c) })
	if val != nil {
		return fmt.Sprintf("panic: %v at %s", val, evidence.PanicSite(stack))
	}
	return clause
}

func c05ReplyRunInner(c *c05ReplyCase) string {
	reply := make([]byte, c.Reply)
	for i := range reply {
		reply[i] = byte(i*13 + 5)
	}
	conn := &c05ReplyConn{replies: [][]byte{reply, c05ReplyMarker}, closed: make(chan struct{})}
	io := &c05ReplyIO{limit: c.Limit, in: make(chan *protocol.UDPMessage, 1), conn: conn, done: make(chan struct{})}
	m := newUDPSessionManager(io, c05ReplyEvents{}, time.Hour)
	runDone := make(chan struct{})
	go func() { _ = m.Run(); close(runDone) }()
	io.in <- &protocol.UDPMessage{SessionID: 1, FragCount: 1, Addr: "t:1", Data: []byte{0x01}}
	select {
	case <-io.done:
	case <-time.After(30 * time.Second): // hang guard only
		close(io.in)
		return "the reply loop never forwarded the small reply queued behind the big one"
	}
	close(io.in)
	select {
	case <-runDone:
	case <-time.After(30 * time.Second):
		return "Run did not return after the connection was lost"
	}
	io.mu.Lock()
	wire := io.wire
	io.mu.Unlock()
	d := &frag.Defragger{}
	for i, w := range wire {
		if len(w) > c.Limit {
			return fmt.Sprintf("datagram %d is %d bytes, limit %d", i, len(w), c.Limit)
		}
		msg, err := protocol.ParseUDPMessage(append([]byte(nil), w...))
		if err != nil {
			return fmt.Sprintf("datagram %d sent to the client does not parse: %v", i, err)
		}
		out := d.Feed(msg)
		if out == nil || bytes.Equal(out.Data, c05ReplyMarker) {
			continue
		}
		if !bytes.Equal(out.Data, reply) {
			k := 0
			for k < len(out.Data) && k < len(reply) && out.Data[k] == reply[k] {
				k++
			}
			return fmt.Sprintf("the target replied with one datagram of %d bytes; the client reassembled %d bytes (equal to the reply up to offset %d): neither byte-identical nor dropped", len(reply), len(out.Data), k)
		}
		if out.Addr != "t:1" || out.SessionID != 1 {
			return fmt.Sprintf("reply delivered with session %d address %q", out.SessionID, out.Addr)
		}
	}
	return ""
}

func c05ReplyEnumerate(sh *evidence.Shard) {
	env := sh.Env()
	p := sh.Part("reply-sizes-through-the-reply-loop", "enum")
	var sizes []int
	for r := 1; r <= 65507; {
		sizes = append(sizes, r)
		switch {
		case r < 3900, r >= 4300 && r < 65400:
			r += 97 // coarse away from the buffer sizes
		default:
			r++ // every size around protocol.MaxUDPSize (4096) and the UDP maximum
		}
	}
	limits := []int{300, 1200, 1452, 65535}
	if !env.Thorough() {
		limits = []int{1200, 65535}
	}
	p.Alphabet = map[string]any{"reply_bytes": "1..65507: every size in 3900..4300 and 65400..65507, every 97th elsewhere", "datagram_limit": limits,
		"target_socket": "truncates a datagram to the read buffer, as a kernel UDP socket does"}
	var item int64
	for _, l := range limits {
		for _, r := range sizes {
			item++
			if !env.Mine(item) {
				continue
			}
			if item&63 == 0 && env.Expired() {
				p.Exhaustive = false
				p.Note("deadline reached at reply size %d, limit %d", r, l)
				return
			}
			c := c05ReplyCase{Reply: r, Limit: l}
			p.Evaluations++
			clause := c05ReplyRun(&c)
			p.Class(l, r <= 4096, r <= l, clause == "")
			if p.Evaluations%211 == 3 {
				p.Sample(c)
			}
			if clause != "" {
				cc := c
				short := clause
				if len(short) > 70 {
					short = short[:70]
				}
				sh.Violate(p.Name, fmt.Sprintf("%s/%s/reply=%d,limit=%d", p.Name, short, r, l), clause, &cc)
				if sh.NViolations() >= 4 {
					p.Exhaustive = false
					return
				}
			}
		}
	}
}

func TestVerifC05Reply(t *testing.T) {
	evidence.Main(t, "C05", evidence.Seq{Run: c05ReplyEnumerate, Replay: func(part string, raw json.RawMessage) (bool, bool, string) {
		if part != "reply-sizes-through-the-reply-loop" {
			return false, false, ""
		}
		var c c05ReplyCase
		if err := json.Unmarshal(raw, &c); err != nil {
			return true, false, err.Error()
		}
		clause := c05ReplyRun(&c)
		return true, clause != "", clause
	}})
}
