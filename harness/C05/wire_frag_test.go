package frag

// C05 harness, unit "frag", part "wire-widths".
//
// The receiving side of the property starts at the bytes of a datagram, not at a UDPMessage value:
// what the far side delivers is ParseUDPMessage + Defragger.Feed applied to what a peer put on the
// wire. PROTOCOL.md: "[varint] Address length", "varints are encoded/decoded as defined in QUIC
// (RFC 9000)"; RFC 9000 section 16 lets a value be written on 1, 2, 4 or 8 bytes as long as it fits
// (a peer with a fixed-width length field is conforming). The other parts only ever parse what this
// repository's own Serialize wrote (always the minimal width).
//
// Dimension: the width of the address-length varint of every datagram, chosen independently per
// fragment, x address length (around the 63/64 width boundary and up to the parser's maximum) x
// fragment shape x every arrival order (all permutations, one duplicate anywhere, one loss).
// The wire form is produced by a reference encoder written from PROTOCOL.md, decoded by the real
// parser and fed to a real Defragger; emissions are judged by the same clauses as the reassembler
// parts (c05Judge / c05Expect): byte-identical (session, address, payload) or nothing.
//
// Added after the independently seeded change C05-7 (ParseUDPMessage located the address at
// 8+quicvarint.Len(addrLen), i.e. assumed the length had been written in its minimal width: with a
// wider, legal encoding the address and every fragment's payload were shifted).

import (
	"encoding/binary"
	"fmt"
	"strings"

	"github.com/apernet/hysteria/core/v2/internal/protocol"
	"verif.local/engine/enum"
	"verif.local/engine/evidence"
)

type c05WireCase struct {
	AddrLen int   `json:"addr_len"`
	Sizes   []int `json:"frag_payload_sizes"` // one entry = sent whole
	Widths  []int `json:"addr_len_varint_width"`
	Order   []int `json:"order,omitempty"` // arrival order of fragment indices; nil = every order
}

// c05WireVarint writes v as a QUIC varint on exactly width bytes (RFC 9000 section 16: the two most
// significant bits of the first byte hold log2 of the width, the rest is v big endian).
func c05WireVarint(b []byte, v uint64, width int) []byte {
	switch width {
	case 1:
		return append(b, byte(v))
	case 2:
		return binary.BigEndian.AppendUint16(b, uint16(v)|0x4000)
	case 4:
		return binary.BigEndian.AppendUint32(b, uint32(v)|0x80000000)
	}
	return binary.BigEndian.AppendUint64(b, v|0xc000000000000000)
}

// c05WireEncode is the UDPMessage format of PROTOCOL.md with the address length on width bytes;
// the result is a fresh slice with cap == len.
func c05WireEncode(s *c05Sym, width int) []byte {
	b := make([]byte, 0, 8+width+len(s.Addr)+len(s.Data))
	b = binary.BigEndian.AppendUint32(b, s.Sess)
	b = binary.BigEndian.AppendUint16(b, s.Pkt)
	b = append(b, s.ID, s.Count)
	b = c05WireVarint(b, uint64(len(s.Addr)), width)
	b = append(b, s.Addr...)
	b = append(b, s.Data...)
	return b[:len(b):len(b)]
}

// c05WireCfg: one message of len(sizes) fragments as a reassembler configuration (Sent/Total/Alpha),
// so that the reassembler's own reference and clauses judge it.
func c05WireCfg(c c05WireCase) *c05Cfg {
	cfg := &c05Cfg{Name: "wire"}
	addr := c05Addr(c.AddrLen)
	n := len(c.Sizes)
	var payload []byte
	for fi, sz := range c.Sizes {
		d := make([]byte, sz)
		for j := range d {
			d[j] = byte((fi+1)<<4 | j&15)
		}
		payload = append(payload, d...)
		id, count := uint8(fi), uint8(n)
		cfg.Alpha = append(cfg.Alpha, c05Sym{Name: fmt.Sprintf("A%d/%d(w%d)", fi, n, c.Widths[fi]), Msg: 0, Pkt: c05PktID, ID: id, Count: count, Sess: c05Session, Addr: addr, Data: d})
	}
	cfg.Sent = []c05Whole{{Sess: c05Session, Addr: addr, Data: payload}}
	cfg.Total = []int{n}
	return cfg
}

// c05WireOrders: every arrival order of n datagrams: all permutations; one duplicate inserted
// anywhere; one datagram lost. Deduplicated, simplest (in order, complete) first.
func c05WireOrders(n int) [][]int {
	var out [][]int
	seen := map[string]bool{}
	add := func(o []int) {
		k := fmt.Sprint(o)
		if !seen[k] {
			seen[k] = true
			out = append(out, append([]int{}, o...))
		}
	}
	var perms [][]int
	enum.Permutations(n, func(p []int) bool { perms = append(perms, append([]int{}, p...)); return true })
	for _, p := range perms {
		add(p)
	}
	for _, p := range perms {
		for dup := 0; dup < n; dup++ {
			for pos := 0; pos <= n; pos++ {
				o := append(append(append([]int{}, p[:pos]...), dup), p[pos:]...)
				add(o)
			}
		}
	}
	for _, p := range perms {
		for lost := 0; lost < n; lost++ {
			o := append(append([]int{}, p[:lost]...), p[lost+1:]...)
			if len(o) > 0 {
				add(o)
			}
		}
	}
	return out
}

// c05WireOrderRun: one arrival order through the real parser and a fresh real Defragger.
func c05WireOrderRun(cfg *c05Cfg, widths, order []int) (clause string) {
	val, stack := evidence.Catch(func() {
		d := &Defragger{}
		for j, fi := range order {
			sym := &cfg.Alpha[fi]
			m, err := protocol.ParseUDPMessage(c05WireEncode(sym, widths[fi]))
			if err != nil || m == nil {
				clause = fmt.Sprintf("step %d: datagram %s with its address length %d written as a %d-byte varint (legal, RFC 9000 s16) rejected by the parser: %v", j, sym.Name, len(sym.Addr), widths[fi], err)
				return
			}
			out := d.Feed(m)
			if cl := c05Judge(cfg, sym, out, c05Expect(cfg, order, j)); cl != "" {
				clause = fmt.Sprintf("step %d: %s", j, cl)
				return
			}
		}
	})
	if val != nil {
		clause = fmt.Sprintf("panic: %v at %s", val, evidence.PanicSite(stack))
	}
	return
}

// c05WireRun runs one case: the given order, or every order; it returns the first violated clause
// and the order it was violated in.
func c05WireRun(c c05WireCase) (clause string, order []int, orders int) {
	if len(c.Sizes) == 0 || len(c.Sizes) > 255 || len(c.Widths) != len(c.Sizes) || c.AddrLen < 1 {
		return "", nil, 0
	}
	for _, fi := range c.Order {
		if fi < 0 || fi >= len(c.Sizes) {
			return "", nil, 0
		}
	}
	cfg := c05WireCfg(c)
	if c.Order != nil {
		return c05WireOrderRun(cfg, c.Widths, c.Order), c.Order, 1
	}
	for _, o := range c05WireOrders(len(c.Sizes)) {
		orders++
		if cl := c05WireOrderRun(cfg, c.Widths, o); cl != "" {
			return cl, o, orders
		}
	}
	return "", nil, orders
}

var c05WireWidths = []int{1, 2, 4, 8}

// address lengths: 63/64 = last value of the 1-byte form / first that needs 2 bytes; 2048 = the
// largest the parser accepts (protocol.MaxMessageLength)
var (
	c05WireAddrLensQuick    = []int{1, 2, 63, 64, 300, 2048}
	c05WireAddrLensThorough = []int{1, 2, 3, 10, 62, 63, 64, 65, 255, 256, 300, 1024, 2047, 2048}
	c05WireShapesQuick      = [][]int{{1}, {3}, {2, 1}, {1, 2}, {3, 3, 1}}
	c05WireShapesThorough   = [][]int{{1}, {3}, {100}, {2, 1}, {1, 2}, {1, 1}, {3, 3, 1}, {1, 1, 1}, {2, 2, 2, 1}}
)

func c05WireWidthsPart(sh *evidence.Shard) {
	env := sh.Env()
	p := sh.Part("wire-widths", "enum")
	addrLens, shapes := c05WireAddrLensQuick, c05WireShapesQuick
	if env.Thorough() {
		addrLens, shapes = c05WireAddrLensThorough, c05WireShapesThorough
	}
	p.Alphabet = map[string]any{
		"addr_len":              addrLens,
		"frag_payload_sizes":    shapes,
		"addr_len_varint_width": "every width of {1,2,4,8} bytes that can hold addr_len (RFC 9000 s16), chosen independently for every fragment of the message",
		"arrival_order":         "every permutation of the message's datagrams; one duplicate inserted anywhere; one datagram lost",
		"encoder":               "reference wire encoder written from PROTOCOL.md (not the repository's Serialize, which always writes the minimal width)",
	}
	var item int64
	for _, al := range addrLens {
		var legal []int
		for _, w := range c05WireWidths {
			if w >= c05VarintLen(al) {
				legal = append(legal, w)
			}
		}
		for _, sizes := range shapes {
			dims := make([]int, len(sizes))
			for i := range dims {
				dims[i] = len(legal)
			}
			stop := false
			enum.Product(dims, func(idx []int) bool {
				item++
				if !env.Mine(item) {
					return true
				}
				if p.Evaluations&63 == 0 && env.Expired() {
					p.Exhaustive = false
					p.Note("deadline reached in addr_len=%d; all smaller address lengths completely covered", al)
					stop = true
					return false
				}
				c := c05WireCase{AddrLen: al, Sizes: sizes}
				minimal := true
				for _, i := range idx {
					c.Widths = append(c.Widths, legal[i])
					minimal = minimal && i == 0
				}
				clause, order, orders := c05WireRun(c)
				p.Evaluations += int64(orders)
				p.Class(c05VarintLen(al), len(sizes), c.Widths, clause == "")
				if !minimal && item%97 == 3 {
					p.Sample(c)
				}
				if clause != "" {
					c.Order = order
					var names []string
					for _, fi := range order {
						names = append(names, fmt.Sprint(fi))
					}
					c05Report(sh, p, c05Generic(clause), fmt.Sprintf("wire-widths/%s/addr_len=%d,sizes=%v,widths=%v,order=%s", c05Generic(clause), al, sizes, c.Widths, strings.Join(names, ",")), clause, c)
				}
				return true
			})
			if stop {
				return
			}
		}
	}
}
