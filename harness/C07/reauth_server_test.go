package server

// C07 at the server level: the UDP session manager of a connection is started when the connection
// authenticates. A client may repeat its auth request on an authenticated connection (the server
// answers 233 again); whatever the handler does for a repeated request, one session id still means
// ONE session: one outbound socket, every datagram of the id through it, and nothing left over when
// the connection ends. Explored over the server rig (real server, fake QUIC layer).
// Added after the independently seeded change C07-5 (every repeated auth request started another
// session manager on the same connection, the two receive loops split the datagrams between them).

import (
	"testing"

	"verif.local/engine/explore"
	"verif.local/engine/vsched"
)

func c07Reauth(e *vsched.Exec, repeats []string) {
	r := newRig(e, rigOpts{})
	if r.srv == nil {
		return
	}
	cl := r.dial("A")
	if resp, err := cl.auth("good", 0); err != nil || resp.Status != 233 {
		e.Fail("auth: %v %v", resp, err)
		return
	}
	for _, cred := range repeats {
		if resp, err := cl.auth(cred, 0); err != nil || resp.Status != 233 {
			e.Fail("repeated auth (%q) on the authenticated connection: %v %v", cred, resp, err)
		}
	}
	payloads := []string{"d1", "d2", "d3", "d4"}
	for _, p := range payloads {
		if err := cl.dgram(7, "u:53", []byte(p)); err != nil {
			e.Fail("dgram: %v", err)
		}
		e.WaitIdle() // the datagrams of one session are sent one after the other
	}
	e.WaitIdle()
	if n := len(r.UDPSocks); n != 1 {
		e.Fail("C07 isolation: session 7 of one connection opened %d outbound sockets for its %d datagrams (after %d repeated auth requests): one session id is one socket", n, len(payloads), len(repeats))
	}
	var got []string
	for _, s := range r.UDPSocks {
		for _, w := range s.Sent {
			got = append(got, w.B)
		}
	}
	if len(got) != len(payloads) {
		e.Fail("C07: %d of the %d datagrams of session 7 were written out (%v)", len(got), len(payloads), got)
	}
	cl.close()
	e.WaitIdle()
	for i, s := range r.UDPSocks {
		if s.Closes != 1 {
			e.Fail("C07 leak: outbound socket %d of session 7 was closed %d times after the connection ended", i, s.Closes)
		}
	}
	r.shutdown(true)
}

func TestVerifC07Reauth(t *testing.T) {
	explore.Main(t, "C07", []*explore.Scenario{
		{Name: "reauth/none", Quick: explore.Bounds{P: 1}, Thorough: explore.Bounds{P: 2}, Body: func(e *vsched.Exec) { c07Reauth(e, nil) }},
		{Name: "reauth/good", Quick: explore.Bounds{P: 1}, Thorough: explore.Bounds{P: 2}, Body: func(e *vsched.Exec) { c07Reauth(e, []string{"good"}) }},
		{Name: "reauth/bad+good", Quick: explore.Bounds{P: 1}, Thorough: explore.Bounds{P: 2}, Body: func(e *vsched.Exec) { c07Reauth(e, []string{"bad", "good"}) }},
	})
}
