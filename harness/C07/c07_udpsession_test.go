package server

// C07 harness (injected by overlay): the real udpSessionManager.Run/feed/cleanup/idleCleanupLoop and
// udpSessionEntry.* of /repo/core/server/udp.go, closed with harness fakes of udpIO, UDPConn and
// udpEventLogger, under the controlled scheduler and the virtual clock.
//
// Threads under test (real code): the manager's Run loop, the idle sweeper (1 s virtual ticker),
// one receiveLoop per dialled session. Harness threads: main (horizon, quiescent checks,
// connection loss, final census) and 1-2 environment threads that inject client datagrams, remote
// replies, socket read errors and wait for triggers. Injected faults (dial / socket write / send)
// are environment choice points (budget E).
//
// All identifiers are prefixed c07 (other properties inject files into the same package).

import (
	"errors"
	"fmt"
	"io"
	"net"
	"os"
	"sort"
	"strings"
	"syscall"
	"testing"
	"time"

	"github.com/apernet/quic-go"

	"github.com/apernet/hysteria/core/v2/internal/protocol"

	"verif.local/engine/evidence"
	"verif.local/engine/explore"
	"verif.local/engine/vpriv"
	"verif.local/engine/vsched"
)

const (
	c07Sec     = int64(time.Second)
	c07Ms      = int64(time.Millisecond)
	c07Timeout = 2 * c07Sec                 // configured minimum of UDPIdleTimeout (config.go)
	c07Sweep   = int64(idleCleanupInterval) // the code's own constant
	c07Eps     = c07Ms
)

var (
	c07ErrLost   = errors.New("c07: connection lost")
	c07ErrDial   = errors.New("c07: dial failure")
	c07ErrWrite  = errors.New("c07: socket write error")
	c07ErrSend   = errors.New("c07: send failure")
	c07ErrRead   = errors.New("c07: socket read error")
	c07ErrClosed = errors.New("c07: use of closed socket")
)

// Error IDENTITY is a dimension of the fault sequences: the errors above are plain errors.New values
// that match nothing, while the errors real sockets and the real QUIC connection hand out carry
// identities that code can (and does) test with errors.Is / errors.As. In scenarios with fKinds every
// injected fault is one environment choice among the plain error and the identities below; whatever
// the identity, an error that ends a session closes its socket exactly once, removes it from the table
// and logs one Close event (the ordinary close-once / leak / events oracles judge it). Added after the
// independently seeded change C07-12 (CloseWithErr skipped conn.Close() when the closing error
// matched net.ErrClosed, "the socket is closed already": every quic-go connection-closed error
// unwraps to net.ErrClosed, so a reply relayed on a lost connection removed the session and left its
// outbound socket open).
type c07ErrKind struct {
	name string
	mk   func(op string) error
}

// errors of an outbound UDP socket (dial, read, write)
var c07SockErrKinds = []c07ErrKind{
	{"net.ErrClosed", func(op string) error { return &net.OpError{Op: op, Net: "udp", Err: net.ErrClosed} }},
	{"deadline-exceeded", func(op string) error { return &net.OpError{Op: op, Net: "udp", Err: os.ErrDeadlineExceeded} }},
	{"io.EOF", func(op string) error { return io.EOF }},
	{"errno", func(op string) error {
		return &net.OpError{Op: op, Net: "udp", Err: os.NewSyscallError(op, syscall.ECONNREFUSED)}
	}},
}

// errors of SendDatagram on the client's QUIC connection: what quic-go returns once the connection is
// closed by the peer / by a transport error / by its idle timeout / by a stateless reset
var c07SendErrKinds = []c07ErrKind{
	{"quic.ApplicationError", func(string) error { return &quic.ApplicationError{Remote: true, ErrorCode: 0x100} }},
	{"quic.TransportError", func(string) error { return &quic.TransportError{Remote: true, ErrorCode: quic.InternalError} }},
	{"quic.IdleTimeoutError", func(string) error { return &quic.IdleTimeoutError{} }},
	{"quic.StatelessResetError", func(string) error { return &quic.StatelessResetError{} }},
}

// c07Fault is the choice point of one injectable fault: 0 = no fault (nil), 1 = the plain error, and in
// scenarios with fKinds 2.. = the identities of kinds. extra further alternatives are left to the caller
// (returned as -1, -2, ...).
func (w *c07World) c07Fault(tag, op string, plain error, kinds []c07ErrKind, extra int) (error, int) {
	n := 2 + extra
	if w.sc.fKinds {
		n += len(kinds)
	}
	c := w.e.Choose(n, vsched.KEnv, tag)
	switch {
	case c == 0:
		return nil, 0
	case c == 1:
		return plain, 0
	case c < 2+extra:
		return nil, -(c - 1)
	}
	k := kinds[c-2-extra]
	w.logf("%s fault identity %s", tag, k.name)
	return k.mk(op), 0
}

// ---------------------------------------------------------------------------------------------
// scenario description

type c07Step struct {
	op  string // dg f1 f2 rp r0 re sl wc we
	id  uint32
	dst string
	d   int64
}

func c07Dg(id uint32, dst string) c07Step { return c07Step{op: "dg", id: id, dst: dst} }
func c07F1(id uint32) c07Step             { return c07Step{op: "f1", id: id, dst: fmt.Sprintf("d%d:53", id)} }
func c07F2(id uint32) c07Step             { return c07Step{op: "f2", id: id, dst: fmt.Sprintf("d%d:53", id)} }
func c07Rp(id uint32) c07Step             { return c07Step{op: "rp", id: id} }
func c07Re(id uint32) c07Step             { return c07Step{op: "re", id: id} }
func c07Sl(d int64) c07Step               { return c07Step{op: "sl", d: d} }
func c07Wc(id uint32) c07Step             { return c07Step{op: "wc", id: id} } // until a socket of id has been Close()d
func c07We(id uint32) c07Step             { return c07Step{op: "we", id: id} } // until a Close event of id has been logged

// c07R0 is a remote reply with an EMPTY payload (a zero-length UDP datagram: ReadFrom returns n == 0,
// err == nil). It is a packet read from the session's socket like any other: it goes back to the
// client tagged with the session's id and it is traffic for the idle clause. Added after the
// independently seeded change C07-9 (the reply loop took a zero-length read for "nothing read":
// neither stamped the last activity nor relayed it).
func c07R0(id uint32) c07Step { return c07Step{op: "r0", id: id} }

type c07Scn struct {
	name     string
	envs     [][]c07Step
	checks   []int64 // virtual times of the quiescent checks; connection loss follows the last one
	racyLoss bool    // the connection is lost at the last check time WITHOUT waiting for quiescence
	hook     bool    // Hook rewrites the request address
	fDial    bool    // UDP() may fail (choice point)
	fSlow    bool    // UDP() may take longer than the idle timeout (choice point): a slow dial
	fWrite   bool    // socket WriteTo may fail (choice point)
	fSend    bool    // SendMessage may fail / report DatagramTooLarge (choice point)
	fKinds   bool    // every fault above and every scripted socket read error is a choice among error identities (c07ErrKind)
	quick    explore.Bounds
	thorough explore.Bounds
	twin     explore.Bounds // thorough tier: second exploration of the same body under delay bounding (P == 0: none)
	thOnly   bool           // thorough tier only (more than 4 environment events)
}

// ---------------------------------------------------------------------------------------------
// world = fakes + observation records of one execution

type c07Act struct {
	lo, hi      int64 // virtual time of delivery / of the handler's next observable action
	sDel, sDone int
	done, defin bool
	what        string
}

type c07DgRec struct {
	id       uint32
	msg      protocol.UDPMessage
	tag      byte
	complete bool // FragCount == 1
	dst      string
	act      c07Act
	miss     bool // no table entry for id at delivery
	ent      *c07Ent
	socks    []*c07Sock
	news     int
	dialFlt  bool
}

type c07Write struct {
	payload string
	addr    string
	res     string // ok | closed | fault
	seq     int
}

type c07Rep struct {
	tag   byte
	sock  *c07Sock
	from  string
	data  []byte
	act   c07Act
	read  bool
	sends int
	empty bool // zero-length payload: recognised on the way back by order, not by content
}

type c07Sock struct {
	w       *c07World
	idx     int
	session uint32
	addr    string
	ent     *c07Ent
	dg      *c07DgRec
	inbox   []*c07Rep
	readErr error
	closed  bool
	closes  int
	mkSeq   int
	writes  []c07Write
	reps    []*c07Rep
}

type c07Ev struct {
	kind      string // new | close
	id        uint32
	addr      string
	err       error
	t         int64
	seq       int
	ent       *c07Ent
	afterLoss bool
}

type c07Ent struct {
	p      *udpSessionEntry
	id     uint32
	ord    int
	acts   []*c07Act
	socks  []*c07Sock
	news   int
	closes int
}

type c07World struct {
	e       *vsched.Exec
	sc      *c07Scn
	m       *udpSessionManager
	dialing int // slow dials in flight (virtual sleeps inside UDP())

	seq     int
	queue   []*c07DgRec
	lost    bool
	stop    bool
	cur     *c07DgRec
	dgs     []*c07DgRec
	dgByTag map[byte]*c07DgRec
	fragTag map[uint32]byte
	socks   []*c07Sock
	reps    []*c07Rep
	repTag  map[byte]*c07Rep
	rep0    []*c07Rep // empty replies read from a socket and not yet seen in SendMessage, in read order
	evs     []*c07Ev
	live    map[uint32]bool
	ents    map[*udpSessionEntry]*c07Ent
	entList []*c07Ent
	nDg     byte
	nRep    byte
	envLeft int
	runDone bool
	runErr  error
	covx    map[string]bool
}

func (w *c07World) next() int { w.seq++; return w.seq }

func (w *c07World) logf(format string, a ...any) {
	t := w.e.Now()
	w.e.Logf("%d.%03d %s", t/c07Sec, (t%c07Sec)/c07Ms, fmt.Sprintf(format, a...))
}

func (w *c07World) ent(p *udpSessionEntry) *c07Ent {
	if p == nil {
		return nil
	}
	if en, ok := w.ents[p]; ok {
		return en
	}
	en := &c07Ent{p: p, id: p.ID, ord: len(w.entList)}
	w.ents[p] = en
	w.entList = append(w.entList, en)
	return en
}

// peek reads the session table without taking its lock: only one thread runs at a time under the
// scheduler, so this is a pure observation that adds no scheduling point.
func (w *c07World) peek(id uint32) *udpSessionEntry { return w.table()[id] }

// table is the manager's private session table, found by TYPE (its only
// map[uint32]*udpSessionEntry) so that a rename of the field does not break the harness build.
func (w *c07World) table() map[uint32]*udpSessionEntry {
	t, ok := vpriv.FieldByType[map[uint32]*udpSessionEntry](w.m)
	if !ok {
		w.e.Fail("HARNESS-UNDECIDED: the session manager has no (single) map[uint32]*udpSessionEntry table any more; the C07 harness reads it for its table oracles")
	}
	return t
}

func (w *c07World) latestSock(id uint32) *c07Sock {
	for i := len(w.socks) - 1; i >= 0; i-- {
		if w.socks[i].session == id {
			return w.socks[i]
		}
	}
	return nil
}

// ---- udpIO fake

type c07IO struct{ w *c07World }

func (w *c07World) closeWindow() {
	d := w.cur
	if d == nil {
		return
	}
	w.cur = nil
	d.act.hi, d.act.sDone, d.act.done = w.e.Now(), w.next(), true
	if p := w.peek(d.id); p != nil {
		// entries are created by the Run loop only and at most one per window: an entry present
		// now is the one this datagram was fed to
		en := w.ent(p)
		d.ent = en
		d.act.defin = true
		en.acts = append(en.acts, &d.act)
	}
}

func (io *c07IO) ReceiveMessage() (*protocol.UDPMessage, error) {
	w := io.w
	w.closeWindow()
	w.e.Point("net", func() bool { return len(w.queue) > 0 || w.lost }, "c07.ReceiveMessage")
	if w.lost {
		w.logf("recv -> lost")
		return nil, c07ErrLost
	}
	d := w.queue[0]
	w.queue = w.queue[1:]
	d.act.lo, d.act.sDel = w.e.Now(), w.next()
	d.miss = w.peek(d.id) == nil
	w.cur = d
	w.dgs = append(w.dgs, d)
	m := d.msg
	m.Data = append(make([]byte, 0, len(d.msg.Data)), d.msg.Data...)
	w.logf("recv s%d %c frag %d/%d miss=%v", d.id, d.tag, m.FragID, m.FragCount, d.miss)
	return &m, nil
}

// c07ParseWire reads a serialized UDPMessage back (protocol.ParseUDPMessage refuses an empty payload,
// which the reply direction may carry: c07R0). Data is a copy.
func c07ParseWire(b []byte) (*protocol.UDPMessage, bool) {
	if len(b) < 9 {
		return nil, false
	}
	m := &protocol.UDPMessage{
		SessionID: uint32(b[0])<<24 | uint32(b[1])<<16 | uint32(b[2])<<8 | uint32(b[3]),
		PacketID:  uint16(b[4])<<8 | uint16(b[5]),
		FragID:    b[6],
		FragCount: b[7],
	}
	b = b[8:]
	vl := 1 << (b[0] >> 6) // QUIC varint: 1, 2, 4 or 8 bytes
	if len(b) < vl {
		return nil, false
	}
	la := uint64(b[0] & 0x3f)
	for _, c := range b[1:vl] {
		la = la<<8 | uint64(c)
	}
	b = b[vl:]
	if la == 0 || la > uint64(len(b)) {
		return nil, false
	}
	m.Addr = string(b[:la])
	m.Data = append([]byte{}, b[la:]...)
	return m, true
}

// SendMessage works like the real udpIOImpl.SendMessage: the message is serialized INTO THE BUFFER
// THE CALLER HANDS IN, and the datagram the client gets is whatever that buffer holds when the QUIC
// connection copies it out (SendDatagram) - a scheduling point lies between the two, so the reply
// loop of another session can run there. What is judged below is the datagram read back out of the
// buffer, not the caller's struct: with a buffer per reply loop the two are the same. Added after the
// independently seeded change C07-10 (one serialization buffer per client connection shared by the
// reply loops of all its sessions: the datagram sent for one session carried another session's id,
// address and payload).
func (io *c07IO) SendMessage(buf []byte, msg *protocol.UDPMessage) error {
	w := io.w
	w.e.Point("net", nil, "c07.SendMessage")
	handed := msg
	n := handed.Serialize(buf)
	if n < 0 {
		// message larger than the buffer: silent drop, like the real IO (a reply that is never
		// forwarded is reported at the end)
		w.logf("send s%d DROPPED: buffer of %d bytes too small", handed.SessionID, len(buf))
		return nil
	}
	w.e.Point("net", nil, "c07.SendDatagram")
	msg, ok := c07ParseWire(buf[:n])
	if !ok {
		w.e.Fail("C07 isolation: the datagram sent to the client for a reply of session %d is not a well-formed message", handed.SessionID)
		w.logf("send s%d GARBLED %q", handed.SessionID, buf[:n])
		return nil
	}
	if msg.SessionID != handed.SessionID || msg.Addr != handed.Addr || string(msg.Data) != string(handed.Data) ||
		msg.PacketID != handed.PacketID || msg.FragID != handed.FragID || msg.FragCount != handed.FragCount {
		w.logf("send s%d %q addr=%s went out as s%d %q addr=%s", handed.SessionID, handed.Data, handed.Addr, msg.SessionID, msg.Data, msg.Addr)
		w.e.Fail("C07 isolation: the datagram sent to the client for a reply of session %d is not that reply (it carries session id %d)", handed.SessionID, msg.SessionID)
	}
	var r *c07Rep
	if len(msg.Data) > 0 {
		r = w.repTag[msg.Data[0]]
	} else if len(w.rep0) > 0 {
		// an empty message carries no tag: it is the oldest empty reply read from the socket of the
		// session it names and not yet sent (each reply loop relays in read order); if that session
		// read none, the oldest of any session - the tag oracle below then reports the mix-up
		k := 0
		for i, c := range w.rep0 {
			if c.sock.session == msg.SessionID {
				k = i
				break
			}
		}
		r = w.rep0[k]
		w.rep0 = append(w.rep0[:k:k], w.rep0[k+1:]...)
	}
	if r == nil {
		w.e.Fail("C07 isolation: message sent to the client that no remote produced (session %d)", msg.SessionID)
		w.logf("send s%d UNKNOWN %q", msg.SessionID, msg.Data)
		return nil
	}
	if r.sends == 0 {
		r.act.hi, r.act.sDone, r.act.done = w.e.Now(), w.next(), true
	}
	r.sends++
	w.logf("send s%d %c frag %d/%d addr=%s", msg.SessionID, r.tag, msg.FragID, msg.FragCount, msg.Addr)
	if msg.SessionID != r.sock.session {
		w.e.Fail("C07 isolation: reply read from the socket of session %d was sent tagged with session %d", r.sock.session, msg.SessionID)
	}
	want := r.from
	if w.sc.hook {
		want = r.sock.dg.dst
	}
	if msg.Addr != want {
		w.e.Fail("C07 isolation: reply of session %d carries address %q, want %q", r.sock.session, msg.Addr, want)
	}
	if !strings.Contains(string(r.data), string(msg.Data)) {
		w.e.Fail("C07 isolation: reply payload of session %d altered", r.sock.session)
	}
	if w.sc.fSend && msg.FragCount == 1 {
		err, x := w.c07Fault("send", "send", c07ErrSend, c07SendErrKinds, 1)
		switch {
		case err != nil:
			w.logf("send FAULT error")
			return err
		case x == -1:
			w.logf("send FAULT too large")
			// header is 8 + varint + addr; leave room for 5 payload bytes -> 2 fragments of an 8 byte payload
			return &quic.DatagramTooLargeError{MaxDatagramPayloadSize: int64(msg.HeaderSize() + 5)}
		}
	}
	return nil
}

func (io *c07IO) Hook(data []byte, reqAddr *string) error {
	if io.w.sc.hook {
		*reqAddr = "hk-" + *reqAddr
	}
	return nil
}

// CheckUDP is the outbound policy lookup (an ACL engine that may resolve the name): it takes time,
// so it is a scheduling point (added after the independently seeded change C03-3: a session closed
// while the lookup for a new destination is in flight).
func (io *c07IO) CheckUDP(reqAddr string) error {
	io.w.e.Point("env", nil, "CheckUDP")
	return nil
}

func (io *c07IO) UDP(reqAddr string) (UDPConn, error) {
	w := io.w
	d := w.cur
	if d == nil {
		w.e.Fail("C07 harness: UDP() called outside the processing of any datagram")
		return nil, c07ErrDial
	}
	if w.sc.fSlow && w.e.Choose(2, vsched.KEnv, "slow-dial") == 1 {
		// the dial blocks for longer than idle timeout + one sweep interval (virtual time): the
		// sweeper runs while the session's first dial is still in flight
		w.logf("dial s%d %s SLOW", d.id, reqAddr)
		w.dialing++
		w.e.Sleep(c07Timeout + 3*int64(time.Second)/2)
		w.dialing--
	}
	if w.sc.fDial {
		if err, _ := w.c07Fault("dial", "dial", c07ErrDial, c07SockErrKinds, 0); err != nil {
			d.dialFlt = true
			w.logf("dial s%d %s FAULT", d.id, reqAddr)
			return nil, err
		}
	}
	s := &c07Sock{w: w, idx: len(w.socks), session: d.id, addr: reqAddr, dg: d, mkSeq: w.next()}
	p := w.peek(d.id)
	if p == nil || p.closed {
		w.e.Fail("C07 revive: a socket was opened for session %d whose entry was already closed", d.id)
	}
	if en := w.ent(p); en != nil {
		s.ent = en
		en.socks = append(en.socks, s)
		if len(en.socks) > 1 {
			w.e.Fail("C07 isolation: a second socket was opened for the same session entry (session %d)", d.id)
		}
	}
	want := d.dst
	if w.sc.hook {
		want = "hk-" + d.dst
	}
	if reqAddr != want {
		w.e.Fail("C07 isolation: session %d dialled %q, want %q", d.id, reqAddr, want)
	}
	d.socks = append(d.socks, s)
	w.socks = append(w.socks, s)
	w.logf("dial s%d %s -> sock%d", d.id, reqAddr, s.idx)
	return s, nil
}

// ---- UDPConn fake

func (s *c07Sock) name() string { return fmt.Sprintf("c07.sock%d", s.idx) }

func (s *c07Sock) ReadFrom(b []byte) (int, string, error) {
	w := s.w
	// coming back for the next packet is the reply loop's next observable action after a read: a
	// reply it read and did not send (yet) has been handled by now - its last-activity stamp, if the
	// loop sets one at all, is set (added after the independently seeded change C07-9, which dropped
	// empty replies between the read and the stamp)
	for _, r := range s.reps {
		if r.read && !r.act.done {
			r.act.hi, r.act.sDone, r.act.done = w.e.Now(), w.next(), true
		}
	}
	w.e.Point("net", func() bool { return len(s.inbox) > 0 || s.closed || s.readErr != nil }, s.name()+".ReadFrom")
	if s.closed {
		return 0, "", c07ErrClosed
	}
	if s.readErr != nil {
		err := s.readErr
		s.readErr = nil
		w.logf("sock%d read FAULT", s.idx)
		return 0, "", err
	}
	r := s.inbox[0]
	s.inbox = s.inbox[1:]
	r.read = true
	r.act.lo, r.act.sDel = w.e.Now(), w.next()
	if r.empty {
		w.rep0 = append(w.rep0, r)
		w.logf("sock%d read %c (empty)", s.idx, r.tag)
		return 0, r.from, nil
	}
	w.logf("sock%d read %c", s.idx, r.tag)
	return copy(b, r.data), r.from, nil
}

func (s *c07Sock) WriteTo(b []byte, addr string) (int, error) {
	w := s.w
	w.e.Point("net", nil, s.name()+".WriteTo")
	rec := c07Write{payload: string(b), addr: addr, seq: w.next()}
	var og *c07DgRec
	if len(b) > 0 {
		og = w.dgByTag[b[0]]
	}
	switch {
	case og == nil:
		w.e.Fail("C07 isolation: socket of session %d was asked to send bytes no client datagram carried", s.session)
	case og.id != s.session:
		w.e.Fail("C07 isolation: datagram of session %d was written to the socket created for session %d", og.id, s.session)
	case strings.Trim(rec.payload, string(rune(og.tag))) != "" || len(b) != 8:
		w.e.Fail("C07 isolation: payload of session %d altered on the way to its socket", og.id)
	default:
		want := og.dst
		if w.sc.hook {
			want = s.addr
		}
		if addr != want {
			w.e.Fail("C07 isolation: datagram of session %d sent to %q, want %q", og.id, addr, want)
		}
	}
	if s.closed {
		rec.res = "closed"
		s.writes = append(s.writes, rec)
		w.logf("sock%d write %.1q -> closed", s.idx, b)
		return 0, c07ErrClosed
	}
	if w.sc.fWrite {
		if err, _ := w.c07Fault("write", "write", c07ErrWrite, c07SockErrKinds, 0); err != nil {
			rec.res = "fault"
			s.writes = append(s.writes, rec)
			w.logf("sock%d write %.1q FAULT", s.idx, b)
			return 0, err
		}
	}
	rec.res = "ok"
	s.writes = append(s.writes, rec)
	w.logf("sock%d write %.1q ok", s.idx, b)
	return len(b), nil
}

func (s *c07Sock) Close() error {
	w := s.w
	w.e.Point("net", nil, s.name()+".Close")
	s.closes++
	w.next()
	w.logf("sock%d close #%d", s.idx, s.closes)
	if s.closes > 1 {
		w.e.Fail("C07 close-once: the socket of session %d was closed %d times", s.session, s.closes)
		return c07ErrClosed
	}
	s.closed = true
	return nil
}

// ---- udpEventLogger fake

type c07Log struct{ w *c07World }

func (l *c07Log) New(id uint32, addr string) {
	w := l.w
	ev := &c07Ev{kind: "new", id: id, addr: addr, t: w.e.Now(), seq: w.next(), ent: w.ent(w.peek(id)), afterLoss: w.lost}
	w.evs = append(w.evs, ev)
	w.logf("New s%d %s", id, addr)
	if w.cur == nil || w.cur.id != id {
		w.e.Fail("C07 events: New event for session %d outside the processing of a datagram of that session", id)
	} else {
		w.cur.news++
	}
	if w.live[id] {
		w.e.Fail("C07 events: New event for session %d while its previous session has not been closed", id)
	}
	w.live[id] = true
	if en := ev.ent; en != nil {
		en.news++
		if en.closes > 0 || en.news > 1 {
			w.e.Fail("C07 revive: New event for a session entry that was already announced or closed (session %d)", id)
		}
	}
}

func (l *c07Log) Close(id uint32, err error) {
	w := l.w
	ev := &c07Ev{kind: "close", id: id, err: err, t: w.e.Now(), seq: w.next(), ent: w.ent(w.peek(id)), afterLoss: w.lost}
	if ev.ent == nil || ev.ent.closes > 0 {
		// the entry may leave the table before its Close event is emitted (the property does not
		// order the two: benign change C07-b5): the event then belongs to the oldest entry of that
		// id that has not seen one
		for _, en := range w.entList {
			if en.id == id && en.closes == 0 && (ev.ent == nil || en != ev.ent) {
				ev.ent = en
				break
			}
		}
	}
	w.evs = append(w.evs, ev)
	w.logf("Close s%d err=%v", id, err)
	if w.cur != nil && w.cur.id == id {
		w.covx["close-event-while-datagram-of-same-id-in-flight"] = true
	}
	if en := ev.ent; en != nil {
		en.closes++
		if en.closes > 1 {
			w.e.Fail("C07 events: two Close events for one session entry (session %d)", id)
		}
		if en.news > 0 {
			w.live[id] = false
		}
	} else {
		w.live[id] = false
	}
}

// ---------------------------------------------------------------------------------------------
// environment threads

func (w *c07World) inject(st c07Step) {
	d := &c07DgRec{id: st.id, dst: st.dst}
	switch st.op {
	case "dg":
		d.tag = 'A' + w.nDg
		w.nDg++
		d.complete = true
		d.msg = protocol.UDPMessage{SessionID: st.id, FragCount: 1, Addr: st.dst, Data: []byte(strings.Repeat(string(rune(d.tag)), 8))}
	case "f1":
		d.tag = 'A' + w.nDg
		w.nDg++
		w.fragTag[st.id] = d.tag
		d.msg = protocol.UDPMessage{SessionID: st.id, PacketID: 7, FragID: 0, FragCount: 2, Addr: st.dst, Data: []byte(strings.Repeat(string(rune(d.tag)), 4))}
	case "f2":
		t, ok := w.fragTag[st.id]
		if !ok {
			t = 'A' + w.nDg
			w.nDg++
		}
		d.tag = t
		d.msg = protocol.UDPMessage{SessionID: st.id, PacketID: 7, FragID: 1, FragCount: 2, Addr: st.dst, Data: []byte(strings.Repeat(string(rune(d.tag)), 4))}
	}
	if _, ok := w.dgByTag[d.tag]; !ok {
		w.dgByTag[d.tag] = d
	}
	w.queue = append(w.queue, d)
	w.logf("env %s s%d %c", st.op, st.id, d.tag)
}

func (w *c07World) runEnv(script []c07Step) {
	e := w.e
	for _, st := range script {
		if w.stop {
			return
		}
		switch st.op {
		case "dg", "f1", "f2":
			w.inject(st)
		case "sl":
			e.Sleep(st.d)
		case "wc":
			e.Point("env", func() bool {
				if w.stop {
					return true
				}
				for _, s := range w.socks {
					if s.session == st.id && s.closes > 0 {
						return true
					}
				}
				return false
			}, "c07.wait-socket-closed")
		case "we":
			e.Point("env", func() bool {
				if w.stop {
					return true
				}
				for _, ev := range w.evs {
					if ev.kind == "close" && ev.id == st.id {
						return true
					}
				}
				return false
			}, "c07.wait-close-event")
		case "rp", "r0", "re":
			e.Point("env", func() bool { return w.stop || w.latestSock(st.id) != nil }, "c07.wait-socket")
			s := w.latestSock(st.id)
			if s == nil {
				return
			}
			if st.op == "re" {
				if !s.closed {
					s.readErr = c07ErrRead
					if w.sc.fKinds {
						// the identity of the scripted read error: 0 = the plain one
						if c := e.Choose(1+len(c07SockErrKinds), vsched.KEnv, "read-error-identity"); c > 0 {
							k := c07SockErrKinds[c-1]
							s.readErr = k.mk("read")
							w.logf("read-error fault identity %s", k.name)
						}
					}
				}
				w.logf("env re sock%d closed=%v", s.idx, s.closed)
				continue
			}
			r := &c07Rep{tag: 'a' + w.nRep, sock: s, from: s.addr}
			w.nRep++
			if st.op == "r0" {
				r.empty = true
			} else {
				r.data = []byte(strings.Repeat(string(rune(r.tag)), 8))
				w.repTag[r.tag] = r
			}
			w.reps = append(w.reps, r)
			s.reps = append(s.reps, r)
			if !s.closed {
				s.inbox = append(s.inbox, r)
			}
			w.logf("env %s sock%d %c closed=%v", st.op, s.idx, r.tag, s.closed)
		}
	}
}

// ---------------------------------------------------------------------------------------------
// oracles

// activities that may have refreshed the last-activity stamp of entry en before observation seq
func (w *c07World) actsOf(en *c07Ent, before int) []*c07Act {
	var out []*c07Act
	out = append(out, en.acts...)
	for _, s := range en.socks {
		for _, r := range s.reps {
			if r.read {
				r.act.defin = true
				out = append(out, &r.act)
			}
		}
	}
	// datagrams of the same id whose entry could not be attributed (entry already removed when
	// their processing ended, or still being processed): permissive - they may explain a close
	// but never refute one
	for _, d := range w.dgs {
		if d.id == en.id && d.ent == nil {
			out = append(out, &d.act)
		}
	}
	var f []*c07Act
	for _, a := range out {
		if a.sDel != 0 && a.sDel < before {
			f = append(f, a)
		}
	}
	return f
}

// keepActive: an idle-sweep close (err == nil before connection loss) must be explainable by a
// last-activity value v with v + timeout <= close time that was not certainly overwritten, before
// the sweep looked, by a later activity.
func (w *c07World) checkSweepClose(ev *c07Ev) {
	if ev.ent == nil {
		return
	}
	acts := w.actsOf(ev.ent, ev.seq)
	for _, a := range acts {
		if a.lo+c07Timeout > ev.t {
			continue // this value was not older than the timeout when the session was closed
		}
		refuted := false
		for _, b := range acts {
			if b == a || !b.defin || !b.done || !a.done {
				continue
			}
			// b's stamp was stored after a's (b delivered after a's handler moved on) and before
			// the sweep could legitimately have read a's value (b done before a.lo+timeout)
			if b.sDel > a.sDone && b.hi < a.lo+c07Timeout && b.sDone < ev.seq {
				refuted = true
				break
			}
		}
		if !refuted {
			return
		}
	}
	w.e.Fail("C07 keep-active: session %d was closed by the idle sweep although it had traffic inside the idle timeout", ev.id)
}

func (w *c07World) quiescent(final bool) {
	e := w.e
	T := e.Now()
	ids := make([]uint32, 0, len(w.table()))
	for id := range w.table() {
		ids = append(ids, id)
	}
	sort.Slice(ids, func(i, j int) bool { return ids[i] < ids[j] })
	inTable := map[*udpSessionEntry]bool{}
	for _, id := range ids {
		p := w.table()[id]
		inTable[p] = true
		en := w.ent(p)
		if p.closed || en.closes > 0 {
			e.Fail("C07 expire: session %d is closed but still listed in the session table", id)
			continue
		}
		if p.ID != id {
			e.Fail("C07 isolation: table slot %d holds the entry of session %d", id, p.ID)
		}
		if p.conn != nil {
			if s, ok := p.conn.(*c07Sock); !ok || s.closes != 0 || s.session != id {
				e.Fail("C07 isolation: live session %d does not hold its own open socket", id)
			}
		}
		last := int64(-1)
		for _, a := range w.actsOf(en, w.seq+1) {
			if a.hi > last {
				last = a.hi
			}
		}
		// "within one sweep interval" is a statement about the code, not about how late a stalled
		// goroutine may run: every stall in this schedule (virtual time passing although a thread was
		// runnable) may cost the time it lasted plus one more sweep. (A sweeper that skips a tick while the previous sweep is
		// still running is as good as one whose ticker buffers that tick: benign change C07-b6.)
		if last >= 0 && T > last+c07Timeout+c07Sweep*int64(1+e.Stalls())+e.StallNS() {
			e.Logf("expire: T=%d last=%d stalls=%d (%d ns)", T, last, e.Stalls(), e.StallNS())
			e.Fail("C07 expire: session %d had no traffic for more than idle timeout + one sweep interval and is still open", id)
		}
	}
	for _, s := range w.socks {
		if s.closes == 0 && (s.ent == nil || !inTable[s.ent.p]) {
			e.Fail("C07 leak: the socket of session %d is open but its session is no longer in the table", s.session)
		}
	}
	w.logf("check count=%d", len(ids))
}

// c07Cov: diagnostic reachability counters (VERIF_C07_COV=1 prints them); never read by an execution.
var c07Cov = map[string]int64{}

func (w *c07World) coverage() {
	f := map[string]bool{}
	closedIDs := map[uint32]int{}
	for _, ev := range w.evs {
		if ev.kind == "close" {
			if closedIDs[ev.id] == 0 {
				closedIDs[ev.id] = ev.seq
			}
			if ev.err == nil && !ev.afterLoss {
				f["sweep-close"] = true
			}
			if ev.afterLoss {
				f["close-after-loss"] = true
			}
			if ev.err != nil {
				f["close-with-error"] = true
			}
			if ev.ent != nil && ev.ent.news == 0 {
				f["close-without-new(never dialled)"] = true
			}
		}
	}
	for _, s := range w.socks {
		for _, wr := range s.writes {
			f["write-"+wr.res] = true
		}
	}
	for _, d := range w.dgs {
		if d.dialFlt {
			f["dial-fault"] = true
		}
		if d.complete && !d.miss && d.act.done {
			found := false
			for _, s := range w.socks {
				for _, wr := range s.writes {
					if wr.payload[0] == d.tag {
						found = true
					}
				}
			}
			if !found {
				f["datagram-dropped-on-closing-session"] = true
			}
		}
		if d.miss && closedIDs[d.id] != 0 && closedIDs[d.id] < d.act.sDel {
			f["fresh-session-after-close"] = true
		}
		if !d.complete && d.msg.FragID == 1 && len(d.socks) == 1 {
			f["fragments-reassembled-and-dialled"] = true
		}
		if !d.complete && d.msg.FragID == 1 && !d.miss && len(d.socks) == 0 && d.act.done {
			f["second-fragment-without-dial"] = true
		}
	}
	for _, r := range w.reps {
		if r.sends > 1 {
			f["reply-fragmented"] = true
		}
		if r.read {
			f["reply-forwarded"] = true
		}
		if r.empty && r.sends > 0 {
			f["empty-reply-forwarded"] = true
		}
	}
	for k := range w.covx {
		f[k] = true
	}
	for k := range f {
		c07Cov[w.sc.name+": "+k]++
	}
	c07Cov[w.sc.name+": executions"]++
}

// closedDuring: a Close event of d's session id was logged inside d's processing window
func (w *c07World) closedDuring(d *c07DgRec) bool {
	for _, ev := range w.evs {
		if ev.kind == "close" && ev.id == d.id && ev.seq > d.act.sDel && (!d.act.done || ev.seq < d.act.sDone) {
			return true
		}
	}
	return false
}

func (w *c07World) final() {
	e := w.e
	w.coverage()
	if !w.runDone {
		e.Fail("C07 leak: Run did not return after connection loss")
	} else if w.runErr != c07ErrLost {
		e.Fail("C07 leak: Run returned %v, want the connection error", w.runErr)
	}
	if n := w.m.Count(); n != 0 {
		e.Fail("C07 leak: %d session(s) left in the table after connection loss", n)
	}
	for _, s := range w.socks {
		if s.closes != 1 {
			e.Fail("C07 close-once: the socket of session %d was closed %d times after connection loss", s.session, s.closes)
		}
	}
	var ids []uint32
	for id, l := range w.live {
		if l {
			ids = append(ids, id)
		}
	}
	sort.Slice(ids, func(i, j int) bool { return ids[i] < ids[j] })
	for _, id := range ids {
		e.Fail("C07 events: session %d got a New event but no Close event", id)
	}
	for _, en := range w.entList {
		if en.closes != 1 {
			e.Fail("C07 events: a session entry of session %d saw %d Close events", en.id, en.closes)
		}
	}
	for _, ev := range w.evs {
		if ev.kind == "close" && ev.err == nil && !ev.afterLoss {
			w.checkSweepClose(ev)
		}
	}
	// a datagram delivered when no session of its id was in the table starts a fresh session
	for _, d := range w.dgs {
		if !d.complete || !d.miss || !d.act.done {
			continue
		}
		if d.dialFlt {
			if len(d.socks) != 0 {
				e.Fail("C07 fresh-session: socket opened despite the dial failure (session %d)", d.id)
			}
			continue
		}
		if w.closedDuring(d) {
			// the fresh session was itself closed (sweep, read/send error, final cleanup) while this
			// datagram was still being processed: the datagram raced with that removal and may be dropped
			continue
		}
		if len(d.socks) != 1 || d.news != 1 {
			e.Fail("C07 fresh-session: a datagram of session %d arrived when no such session existed but opened %d sockets / %d New events", d.id, len(d.socks), d.news)
			continue
		}
		found := false
		for _, wr := range d.socks[0].writes {
			if len(wr.payload) > 0 && wr.payload[0] == d.tag {
				found = true
			}
		}
		if !found {
			e.Fail("C07 fresh-session: the datagram that started session %d was not written to the new socket", d.id)
		}
	}
	for _, r := range w.reps {
		if r.read && r.sends == 0 {
			e.Fail("C07 isolation: a reply read from the socket of session %d was never forwarded", r.sock.session)
		}
	}
	if al := e.Alive(); len(al) != 0 {
		w.logf("alive: %s", strings.Join(al, " | "))
		kinds := map[string]bool{}
		for _, a := range al {
			k := a
			if i := strings.Index(a, "("); i >= 0 {
				k = a[i:]
			}
			kinds[k] = true
		}
		var ks []string
		for k := range kinds {
			ks = append(ks, k)
		}
		sort.Strings(ks)
		e.Fail("C07 leak: threads still alive after connection loss and Run's return: %s", strings.Join(ks, ", "))
	}
}

// ---------------------------------------------------------------------------------------------
// body

func (sc *c07Scn) body(e *vsched.Exec) {
	w := &c07World{e: e, sc: sc, covx: map[string]bool{}, dgByTag: map[byte]*c07DgRec{}, fragTag: map[uint32]byte{}, repTag: map[byte]*c07Rep{},
		live: map[uint32]bool{}, ents: map[*udpSessionEntry]*c07Ent{}}
	w.m = newUDPSessionManager(&c07IO{w}, &c07Log{w}, time.Duration(c07Timeout))
	vsched.GoNamed("c07-run", func() {
		w.runErr = w.m.Run()
		w.runDone = true
	})
	// no timer exists yet, so the sweeper's ticker is created at virtual time 0: sweeps at 1 s, 2 s, ...
	e.WaitIdle()
	for i := range sc.envs {
		script := sc.envs[i]
		w.envLeft++
		vsched.GoNamed(fmt.Sprintf("c07-env%d", i), func() {
			w.runEnv(script)
			w.envLeft--
		})
	}
	for i, T := range sc.checks {
		if d := T - e.Now(); d > 0 {
			e.Sleep(d)
		}
		if i == len(sc.checks)-1 && sc.racyLoss {
			break
		}
		e.Point("env", func() bool { return w.dialing == 0 }, "c07.wait-slow-dial")
		e.WaitIdle()
		w.quiescent(false)
	}
	w.lost = true
	w.stop = true
	w.logf("LOSS")
	e.Point("env", func() bool { return w.envLeft == 0 && w.dialing == 0 }, "c07.join-env")
	e.WaitIdle()
	w.final()
}

func c07Sig(o *vsched.Outcome) string {
	d := o.Detail
	if o.Kind == "fail" {
		if i := strings.Index(d, "; C07 "); i >= 0 {
			d = d[:i]
		}
		return d
	}
	if i := strings.IndexByte(d, '\n'); i >= 0 {
		d = d[:i]
	}
	if o.Kind == "ok" && len(o.Leaked) > 0 {
		return "leaked threads at end of body"
	}
	if o.Kind == "panic" {
		for _, l := range strings.Split(o.Stack, "\n") {
			l = strings.TrimSpace(l)
			if strings.HasPrefix(l, "/repo/") {
				if j := strings.Index(l, " +0x"); j >= 0 {
					l = l[:j]
				}
				return "panic:" + d + "@" + l
			}
		}
	}
	if o.Kind == "deadlock" {
		// thread numbers vary with the schedule: keep the blocked operations only
		var ops []string
		for _, p := range strings.Split(d, " | ") {
			if i := strings.Index(p, ": "); i >= 0 {
				p = p[i+2:]
			}
			ops = append(ops, p)
		}
		sort.Strings(ops)
		return "deadlock:" + strings.Join(ops, "|")
	}
	return o.Kind + ":" + d
}

// ---------------------------------------------------------------------------------------------
// scenarios

func c07Scenarios() []*c07Scn {
	s := c07Sec
	// q / t: classic preemption bounding (the successor of a blocked thread is a free choice).
	// Scenarios with three or more simultaneously runnable threads explode under it, they use
	// qd (delay bounding: every non-default scheduling decision costs 1) in the quick tier and, in
	// the thorough tier, t2 plus a delay-bounded twin "<name>~delay" with a deeper budget (td).
	q := explore.Bounds{P: 2, E: 1, FreeSwitch: true}
	qd := explore.Bounds{P: 3, E: 1}
	t := explore.Bounds{P: 3, E: 2, FreeSwitch: true}
	t2 := explore.Bounds{P: 2, E: 2, FreeSwitch: true}
	td := explore.Bounds{P: 3, E: 2}
	td4 := explore.Bounds{P: 4, E: 2}
	return []*c07Scn{
		// reply direction keeps the session alive across the sweep at 3 s; it expires at 4 s
		{name: "reply-keeps-alive", quick: q, thorough: t,
			envs:   [][]c07Step{{c07Dg(1, "x:1"), c07Sl(3 * s / 2), c07Rp(1)}},
			checks: []int64{3*s + c07Eps, 9*s/2 + c07Eps}},
		// the same with EMPTY replies as the session's only traffic after its first datagram: a
		// zero-length datagram from the remote is forwarded tagged with the session's id and keeps the
		// session alive like any other (1.5 s and 3 s: survives the sweeps up to 5 s, expires at 6 s).
		// Added after the independently seeded change C07-9 (zero-length reads skipped as "nothing read")
		{name: "empty-reply-keeps-alive", quick: q, thorough: t,
			envs:   [][]c07Step{{c07Dg(1, "x:1"), c07Sl(3 * s / 2), c07R0(1), c07Sl(3 * s / 2), c07R0(1)}},
			checks: []int64{5*s + c07Eps, 13*s/2 + c07Eps}},
		// expiry at the 3 s sweep, the same id comes back at 4 s: fresh session on a new socket,
		// which is still open when the connection is lost
		{name: "expire-then-reuse", quick: q, thorough: t,
			envs:   [][]c07Step{{c07Dg(1, "x:1"), c07Sl(c07Timeout + c07Eps), c07Sl(c07Timeout - c07Eps), c07Dg(1, "x:1")}},
			checks: []int64{3*s + c07Eps, 9 * s / 2}},
		// idle-compare boundary: refreshed at timeout-eps -> survives the sweeps at 2 s and 3 s, expires at 4 s
		{name: "refresh-before-timeout", quick: q, thorough: t,
			envs:   [][]c07Step{{c07Dg(1, "x:1"), c07Sl(c07Timeout - c07Eps), c07Dg(1, "x:1")}},
			checks: []int64{3*s + c07Eps, 5 * s}},
		// two sessions sharing one destination, replies on both sockets; faults on the send path
		{name: "two-sessions-one-destination", quick: qd, thorough: t2, twin: td4,
			envs:   [][]c07Step{{c07Dg(1, "x:1"), c07Dg(2, "x:1"), c07Rp(1)}},
			checks: []int64{s / 2}},
		// two sessions whose remotes reply at the same moment: both reply loops are inside the send path
		// (serialize / hand the datagram to the connection) together; each client datagram is the reply
		// of the session it names. Added after the independently seeded change C07-10 (serialization
		// buffer shared by the reply loops of all sessions of a connection)
		{name: "two-sessions-reply-together", quick: qd, thorough: t2, twin: td4,
			envs:   [][]c07Step{{c07Dg(1, "x:1"), c07Dg(2, "y:2"), c07Rp(1), c07Rp(2)}},
			checks: []int64{s / 2}},
		// fragmented datagram (session 1) and a lone first fragment (session 2: never dials, expires silently)
		{name: "fragments", quick: q, thorough: t,
			envs:   [][]c07Step{{c07F1(1), c07F1(2), c07F2(1), c07Rp(1)}},
			checks: []int64{3*s + c07Eps, 7 * s / 2}},
		// fragments of two sessions interleaved on the wire, same packet id and fragment count (ids are
		// drawn per message by each session: equal ids across sessions are ordinary): each datagram
		// leaves through its own session's socket, whole (added after the seeded change C07-4: one
		// reassembler shared by all sessions of a connection)
		{name: "two-sessions-fragments-interleaved", quick: q, thorough: t,
			envs:   [][]c07Step{{c07F1(1), c07F1(2), c07F2(2), c07F2(1), c07Rp(1), c07Rp(2)}},
			checks: []int64{s / 2}},
		// a datagram of the same id arrives exactly when the sweep closes the session's socket
		{name: "datagram-races-sweep-close", quick: qd, thorough: t2, twin: td4,
			envs:   [][]c07Step{{c07Dg(1, "x:1")}, {c07Wc(1), c07Dg(1, "x:1")}},
			checks: []int64{7 * s / 2}},
		// the second fragment arrives exactly when the never-dialled session is being expired
		{name: "fragment-races-sweep-close", quick: q, thorough: t,
			envs:   [][]c07Step{{c07F1(1)}, {c07We(1), c07F2(1)}},
			checks: []int64{7 * s / 2}},
		// socket read error closes the session; the next datagram races with the removal
		{name: "read-error-then-datagram", quick: q, thorough: t,
			envs:   [][]c07Step{{c07Dg(1, "x:1"), c07Re(1), c07Dg(1, "x:1"), c07Rp(1)}},
			checks: []int64{s / 2}},
		// a datagram to a NEW destination of an existing session (policy lookup in flight) races with
		// the socket read error that closes the session, and with the sweep that expires it
		{name: "new-destination-races-close", quick: q, thorough: t,
			envs:   [][]c07Step{{c07Dg(1, "x:1"), c07Dg(1, "y:2")}, {c07Re(1)}},
			checks: []int64{s / 2}},
		{name: "new-destination-races-sweep", quick: q, thorough: t,
			envs:   [][]c07Step{{c07Dg(1, "x:1"), c07Sl(c07Timeout + c07Eps), c07Sl(c07Timeout - 2*c07Eps), c07Dg(1, "y:2")}},
			checks: []int64{9 * s / 2}},
		// dial / write / send faults on a two-datagram session with a reply
		{name: "faults", quick: q, thorough: t2, twin: td, fDial: true, fWrite: true, fSend: true,
			envs:   [][]c07Step{{c07Dg(1, "x:1"), c07Dg(1, "y:2"), c07Rp(1)}},
			checks: []int64{s / 2}},
		// a dial that outlasts the idle timeout: the sweeper meets a session whose socket does not
		// exist yet (added after the independently seeded change C07-1 was missed)
		{name: "slow-dial-races-sweep", quick: q, thorough: t, fSlow: true,
			envs:   [][]c07Step{{c07Dg(1, "x:1"), c07Sl(c07Timeout + 2*s), c07Dg(1, "x:1")}},
			checks: []int64{9 * s}},
		// error IDENTITY: a session with a reply and then a socket read error, where the send fault or the
		// read error - the two errors that end a session that owns a socket - is each of: the plain
		// error; quic-go's connection-closed errors (they unwrap to net.ErrClosed) on the send path; a
		// *net.OpError wrapping net.ErrClosed / os.ErrDeadlineExceeded / an errno, or io.EOF, on the read
		// path. The thorough tier (T-faults-of-every-error-identity) adds the identities of dial and
		// socket-write errors and the datagram that starts the next session. Added after the
		// independently seeded change C07-12 (no conn.Close() when the closing error matches net.ErrClosed)
		{name: "reply-faults-of-every-error-identity", quick: q, thorough: t, fSend: true, fKinds: true,
			envs:   [][]c07Step{{c07Dg(1, "x:1"), c07Rp(1), c07Re(1)}},
			checks: []int64{s / 2}},
		// Hook rewrites the address: writes go to the rewritten address, replies carry the original one
		{name: "hook-rewrite", quick: q, thorough: t, hook: true, fSend: true,
			envs:   [][]c07Step{{c07Dg(1, "x:1"), c07Rp(1), c07Dg(1, "y:2")}},
			checks: []int64{s / 2}},
		// connection loss lands on the sweep that expires session 1 while session 2 is active, no quiescence
		{name: "loss-races-sweep", quick: q, thorough: t, racyLoss: true,
			envs:   [][]c07Step{{c07Dg(1, "x:1"), c07Sl(5 * s / 2), c07Dg(2, "y:2")}},
			checks: []int64{3 * s}},

		// ---- thorough only: up to 6 environment events
		{name: "T-expire-reuse-reply-expire", thorough: t2, twin: td, thOnly: true,
			envs:   [][]c07Step{{c07Dg(1, "x:1"), c07Sl(c07Timeout + c07Eps), c07Sl(c07Timeout - c07Eps), c07Dg(1, "x:1"), c07Rp(1), c07Dg(2, "x:1")}},
			checks: []int64{3*s + c07Eps, 6 * s}},
		{name: "T-two-sessions-staggered-expiry", thorough: t2, twin: td, thOnly: true,
			envs:   [][]c07Step{{c07Dg(1, "x:1"), c07Sl(s / 2), c07Dg(2, "y:2"), c07Sl(c07Timeout - c07Eps), c07Rp(2), c07Dg(1, "x:1")}},
			checks: []int64{3*s + c07Eps, 11*s/2 + c07Eps, 6 * s}},
		{name: "T-races-with-faults", thorough: t2, twin: td, thOnly: true, fDial: true,
			envs:   [][]c07Step{{c07Dg(1, "x:1"), c07Re(1)}, {c07Wc(1), c07Dg(1, "x:1"), c07Dg(1, "x:1")}},
			checks: []int64{s / 2}},
		{name: "T-faults-of-every-error-identity", thorough: t2, twin: td, thOnly: true, fDial: true, fWrite: true, fSend: true, fKinds: true,
			envs:   [][]c07Step{{c07Dg(1, "x:1"), c07Rp(1), c07Re(1), c07Dg(1, "x:1")}},
			checks: []int64{s / 2}},
		{name: "T-fragment-reuse-loss", thorough: t2, twin: td4, thOnly: true, racyLoss: true, fWrite: true,
			envs:   [][]c07Step{{c07F1(1), c07F2(1), c07Rp(1), c07Re(1), c07F1(1), c07F2(1)}},
			checks: []int64{s}},
	}
}

// ---------------------------------------------------------------------------------------------
// idle burst: the NUMBER of sessions of one connection that expire in the same sweep
//
// The scenarios above hold the number of sessions that are past the idle timeout in one sweep at 1-2.
// The property quantifies over "many session IDs" and its expiry clause speaks of every session: a
// session idle for the timeout is closed within one sweep interval however many others expire with it.
// The count is therefore an input. One sequential scenario (default schedule only, P = 0) whose single
// environment choice is N: N sessions (ids 1..N, one destination each) are created at the same virtual
// instant and left idle together. Judged with the property's own clauses:
//   - created: N table entries, each holding its own open socket with its own datagram written to it;
//   - kept: no idle-sweep close before last traffic + idle timeout;
//   - expire: once last traffic + idle timeout + one sweep interval (+ the stall-aware slack of
//     quiescent()) has passed every one of the N is out of the table, its socket closed exactly once,
//     one Close event;
//   - fresh-session: the same N ids then come back together, each gets a new socket of its own;
//   - leak / close-once at connection loss with N live sessions: table empty, every socket closed
//     exactly once, one Close event per New event, no thread left.
// Alphabet of N: c07BurstQuick (1, 2, powers of two +-1 around 64, 128, 200) in the quick tier, every
// N in 1..c07BurstThoroughMax (covers maxSessionACLCache +-1) in the thorough tier. The fakes are
// separate from c07World's (its one-byte payload tags cannot name hundreds of datagrams) and log per
// phase, not per session. Added after the independently seeded change C07-13 (the idle sweep closed at
// most 64 expired sessions per tick, "bounded batches": with more than 64 sessions idle together the
// others stayed open, sockets and reply goroutines included, for further sweep intervals).

var c07BurstQuick = []int{1, 2, 63, 64, 65, 128, 200}

const c07BurstThoroughMax = 300

type c07BurstSock struct {
	w      *c07BurstWorld
	id     uint32
	round  byte
	addr   string
	op     string
	closes int
	writes int
}

type c07BurstWorld struct {
	e       *vsched.Exec
	m       *udpSessionManager
	n       int
	queue   []protocol.UDPMessage
	cur     *protocol.UDPMessage
	lost    bool
	last    map[uint32]int64 // virtual time of the last traffic of id (delivery of its datagram)
	socks   []*c07BurstSock
	sockOf  map[uint32]*c07BurstSock // latest socket of id
	news    map[uint32]int
	closes  map[uint32]int
	failed  map[string]bool
	runDone bool
	runErr  error
}

// fail reports the first failure of each clause only (N sessions fail alike)
func (w *c07BurstWorld) fail(clause, format string, a ...any) {
	if w.failed[clause] {
		return
	}
	w.failed[clause] = true
	w.e.Fail("C07 "+clause+": "+format, a...)
}

func (w *c07BurstWorld) logf(format string, a ...any) {
	t := w.e.Now()
	w.e.Logf("%d.%03d %s", t/c07Sec, (t%c07Sec)/c07Ms, fmt.Sprintf(format, a...))
}

func (w *c07BurstWorld) table() map[uint32]*udpSessionEntry {
	t, ok := vpriv.FieldByType[map[uint32]*udpSessionEntry](w.m)
	if !ok {
		w.fail("harness", "HARNESS-UNDECIDED: the session manager has no (single) map[uint32]*udpSessionEntry table any more")
	}
	return t
}

type c07BurstIO struct{ w *c07BurstWorld }

func (io *c07BurstIO) ReceiveMessage() (*protocol.UDPMessage, error) {
	w := io.w
	w.cur = nil
	w.e.Point("net", func() bool { return len(w.queue) > 0 || w.lost }, "c07burst.ReceiveMessage")
	if w.lost {
		return nil, c07ErrLost
	}
	d := w.queue[0]
	w.queue = w.queue[1:]
	w.cur = &d
	w.last[d.SessionID] = w.e.Now()
	m := d
	m.Data = append(make([]byte, 0, len(d.Data)), d.Data...)
	return &m, nil
}

func (io *c07BurstIO) SendMessage(buf []byte, msg *protocol.UDPMessage) error {
	io.w.e.Point("net", nil, "c07burst.SendMessage")
	io.w.fail("isolation", "message sent to the client that no remote produced (session %d)", msg.SessionID)
	return nil
}

func (io *c07BurstIO) Hook(data []byte, reqAddr *string) error { return nil }

func (io *c07BurstIO) CheckUDP(reqAddr string) error {
	io.w.e.Point("env", nil, "CheckUDP")
	return nil
}

func (io *c07BurstIO) UDP(reqAddr string) (UDPConn, error) {
	w := io.w
	d := w.cur
	if d == nil {
		w.fail("harness", "UDP() called outside the processing of any datagram")
		return nil, c07ErrDial
	}
	id := d.SessionID
	if reqAddr != d.Addr {
		w.fail("isolation", "session %d dialled %q, want %q", id, reqAddr, d.Addr)
	}
	if p := w.table()[id]; p == nil || p.closed {
		w.fail("revive", "a socket was opened for session %d whose entry was already closed", id)
	}
	if prev := w.sockOf[id]; prev != nil && prev.closes == 0 {
		w.fail("isolation", "a second socket was opened for session %d while its first one is open", id)
	}
	s := &c07BurstSock{w: w, id: id, round: d.Data[4], addr: reqAddr, op: fmt.Sprintf("c07burst.sock%d.ReadFrom", len(w.socks))}
	w.socks = append(w.socks, s)
	w.sockOf[id] = s
	return s, nil
}

func (s *c07BurstSock) ReadFrom(b []byte) (int, string, error) {
	// the remotes never reply: the read ends when the socket is closed
	s.w.e.Point("net", func() bool { return s.closes > 0 }, s.op)
	return 0, "", c07ErrClosed
}

func (s *c07BurstSock) WriteTo(b []byte, addr string) (int, error) {
	w := s.w
	w.e.Point("net", nil, "c07burst.WriteTo")
	switch {
	case len(b) != 8:
		w.fail("isolation", "payload of a datagram altered on the way to the socket of session %d", s.id)
	case uint32(b[0])<<24|uint32(b[1])<<16|uint32(b[2])<<8|uint32(b[3]) != s.id:
		w.fail("isolation", "a datagram of another session was written to the socket created for session %d", s.id)
	case b[4] != s.round:
		w.fail("fresh-session", "a datagram of session %d was written to a socket opened for an earlier datagram burst", s.id)
	case addr != s.addr:
		w.fail("isolation", "datagram of session %d sent to %q, want %q", s.id, addr, s.addr)
	}
	if s.closes > 0 {
		return 0, c07ErrClosed
	}
	s.writes++
	return len(b), nil
}

func (s *c07BurstSock) Close() error {
	w := s.w
	w.e.Point("net", nil, "c07burst.Close")
	s.closes++
	if s.closes > 1 {
		w.fail("close-once", "the socket of session %d was closed %d times", s.id, s.closes)
		return c07ErrClosed
	}
	return nil
}

type c07BurstLog struct{ w *c07BurstWorld }

func (l *c07BurstLog) New(id uint32, addr string) {
	w := l.w
	w.news[id]++
	if w.cur == nil || w.cur.SessionID != id {
		w.fail("events", "New event for session %d outside the processing of a datagram of that session", id)
	}
	if w.news[id] != w.closes[id]+1 {
		w.fail("events", "New event for session %d while its previous session has not been closed", id)
	}
}

func (l *c07BurstLog) Close(id uint32, err error) {
	w := l.w
	w.closes[id]++
	if w.closes[id] > w.news[id] {
		w.fail("events", "more Close events than New events for session %d", id)
	}
	if err == nil && !w.lost && w.e.Now() < w.last[id]+c07Timeout {
		w.fail("keep-active", "session %d of a burst of %d was closed by the idle sweep although it had traffic inside the idle timeout", id, w.n)
	}
}

// send queues one datagram for each of the ids 1..n; round tells the bursts apart
func (w *c07BurstWorld) send(round byte) {
	for id := uint32(1); id <= uint32(w.n); id++ {
		w.queue = append(w.queue, protocol.UDPMessage{SessionID: id, FragCount: 1, Addr: fmt.Sprintf("b%d:53", id),
			Data: []byte{byte(id >> 24), byte(id >> 16), byte(id >> 8), byte(id), round, 'b', 'b', 'b'}})
	}
	w.logf("env burst %d: one datagram for each of %d sessions", round, w.n)
}

// allOpen: every id has a table entry that holds its own open socket of this round, written to once
func (w *c07BurstWorld) allOpen(clause string, round byte) {
	tb := w.table()
	bad, first := 0, uint32(0)
	for id := uint32(1); id <= uint32(w.n); id++ {
		p, s := tb[id], w.sockOf[id]
		ok := p != nil && !p.closed && p.ID == id && s != nil && s.round == round && s.closes == 0 && s.writes == 1 && p.conn == UDPConn(s) &&
			w.news[id] == int(round) && w.closes[id] == int(round)-1
		if !ok {
			if bad == 0 {
				first = id
			}
			bad++
		}
	}
	w.logf("check %s: count=%d sockets=%d not-open=%d", clause, len(tb), len(w.socks), bad)
	if bad > 0 {
		w.fail(clause, "%d of the %d sessions that sent a datagram together (burst %d) do not hold an open socket of their own with that datagram written to it (first: session %d)", bad, w.n, round, first)
	}
	if len(tb) != w.n || len(w.socks) != int(round)*w.n {
		w.fail(clause, "%d sessions sent a datagram together (burst %d): %d table entries, %d sockets opened so far", w.n, round, len(tb), len(w.socks))
	}
}

// c07BurstBody: N = sizes[i] is the one environment answer of the scenario, taken before anything runs
// (index 0 = the smallest N). A long alphabet is chosen as two digits i = block*k + offset, so that the
// explorer's sharding (subtrees below the second deviation) splits its executions between the shards;
// k == len(sizes) makes it a single choice.
func c07BurstBody(sizes []int, k int) func(e *vsched.Exec) {
	return func(e *vsched.Exec) {
		i := e.Choose((len(sizes)+k-1)/k, vsched.KEnv, "burst-size-block") * k
		i += e.Choose(k, vsched.KEnv, "burst-size")
		if i >= len(sizes) {
			return // beyond the alphabet: nothing to run
		}
		n := sizes[i]
		w := &c07BurstWorld{e: e, n: n, last: map[uint32]int64{}, sockOf: map[uint32]*c07BurstSock{}, news: map[uint32]int{},
			closes: map[uint32]int{}, failed: map[string]bool{}}
		w.logf("burst size N=%d", n)
		w.m = newUDPSessionManager(&c07BurstIO{w}, &c07BurstLog{w}, time.Duration(c07Timeout))
		vsched.GoNamed("c07-run", func() {
			w.runErr = w.m.Run()
			w.runDone = true
		})
		e.WaitIdle() // the sweeper's ticker is created at virtual time 0

		// N sessions start together ...
		w.send(1)
		e.WaitIdle()
		w.allOpen("fresh-session", 1)
		// ... are all there just before the idle timeout ...
		if d := c07Timeout - c07Eps - e.Now(); d > 0 {
			e.Sleep(d)
		}
		e.WaitIdle()
		w.allOpen("keep-active", 1)
		// ... and all gone once idle timeout + one sweep interval have passed. The slack is quiescent()'s:
		// every stall of the schedule may cost the time it lasted plus one more sweep (none in the default
		// schedule, the only one this scenario runs)
		lastOf := func() int64 {
			m := int64(0)
			for _, t := range w.last {
				m = max(m, t)
			}
			return m
		}
		for i := 0; i < 8; i++ {
			dl := lastOf() + c07Timeout + c07Sweep*int64(1+e.Stalls()) + e.StallNS()
			if e.Now() > dl {
				break
			}
			e.Sleep(dl + c07Eps - e.Now())
			e.WaitIdle()
		}
		T := e.Now()
		tb := w.table()
		open, first, sockBad, evBad := 0, uint32(0), 0, 0
		for id := uint32(1); id <= uint32(n); id++ {
			if T <= w.last[id]+c07Timeout+c07Sweep*int64(1+e.Stalls())+e.StallNS() {
				continue
			}
			s := w.sockOf[id]
			if p := tb[id]; p != nil || (s != nil && s.closes == 0) {
				if open == 0 {
					first = id
				}
				open++
				continue
			}
			if s == nil || s.closes != 1 {
				sockBad++
			}
			if w.news[id] != 1 || w.closes[id] != 1 {
				evBad++
			}
		}
		w.logf("check expire: count=%d still-open=%d", len(tb), open)
		if open > 0 {
			w.fail("expire", "%d of %d sessions that went idle together are still open %d ms after their last traffic (more than idle timeout + one sweep interval); first: session %d",
				open, n, (T-w.last[first])/c07Ms, first)
		}
		if sockBad > 0 {
			w.fail("close-once", "%d of %d sessions that expired together did not get their socket closed exactly once", sockBad, n)
		}
		if evBad > 0 {
			w.fail("events", "%d of %d sessions that expired together did not get exactly one New and one Close event", evBad, n)
		}

		// the same N ids come back together: fresh sessions on new sockets
		if open == 0 {
			w.send(2)
			e.WaitIdle()
			w.allOpen("fresh-session", 2)
		}

		// the connection ends with N live sessions
		w.lost = true
		w.logf("LOSS")
		e.WaitIdle()
		if !w.runDone {
			w.fail("leak", "Run did not return after connection loss")
		} else if w.runErr != c07ErrLost {
			w.fail("leak", "Run returned %v, want the connection error", w.runErr)
		}
		if c := w.m.Count(); c != 0 {
			w.fail("leak", "%d of %d session(s) left in the table after connection loss", c, n)
		}
		sockBad, evBad = 0, 0
		for _, s := range w.socks {
			if s.closes != 1 {
				sockBad++
			}
		}
		for id := uint32(1); id <= uint32(n); id++ {
			if w.news[id] != w.closes[id] {
				evBad++
			}
		}
		w.logf("check final: sockets=%d not-closed-once=%d", len(w.socks), sockBad)
		if sockBad > 0 {
			w.fail("close-once", "%d of %d sockets were not closed exactly once after connection loss (burst of %d sessions)", sockBad, len(w.socks), n)
		}
		if evBad > 0 {
			w.fail("events", "%d of %d sessions did not get one Close event per New event", evBad, n)
		}
		if al := e.Alive(); len(al) != 0 {
			w.fail("leak", "%d thread(s) still alive after connection loss and Run's return (burst of %d sessions), e.g. %s", len(al), n, al[0])
		}
	}
}

// c07BurstScenarios: one scenario per alphabet of N; the name states the alphabet (a replay names its
// scenario, and a pick is an index into that scenario's alphabet)
func c07BurstScenarios(env *evidence.Env) []*explore.Scenario {
	all := make([]int, c07BurstThoroughMax)
	for i := range all {
		all[i] = i + 1
	}
	b := explore.Bounds{P: 0, E: 1}  // the default schedule of each N
	b2 := explore.Bounds{P: 0, E: 2} // the same with N chosen as two digits
	opt := vsched.Options{MaxSteps: 4000000}
	var scs []*explore.Scenario
	if !env.Thorough() || env.Replay != "" {
		scs = append(scs, &explore.Scenario{Name: "idle-burst-N-sessions-expire-in-one-sweep/N=" + strings.Trim(strings.ReplaceAll(fmt.Sprint(c07BurstQuick), " ", ","), "[]"),
			Quick: b, Thorough: b, Opt: opt, Body: c07BurstBody(c07BurstQuick, len(c07BurstQuick)), Sig: c07Sig})
	}
	if env.Thorough() || env.Replay != "" {
		scs = append(scs, &explore.Scenario{Name: fmt.Sprintf("idle-burst-N-sessions-expire-in-one-sweep/N=1..%d", c07BurstThoroughMax),
			Quick: b2, Thorough: b2, Opt: opt, Body: c07BurstBody(all, 20), Sig: c07Sig})
	}
	return scs
}

func TestVerifC07UDPSessions(t *testing.T) {
	env := evidence.GetEnv("C07")
	// the sequential burst scenario goes first: it is cheap (one execution per N) and must not be the
	// one a tier deadline cuts off
	scs := c07BurstScenarios(env)
	for _, sc := range c07Scenarios() {
		if sc.thOnly && !env.Thorough() && env.Replay == "" {
			continue
		}
		sc := sc
		scs = append(scs, &explore.Scenario{Name: sc.name, Quick: sc.quick, Thorough: sc.thorough, Body: sc.body, Sig: c07Sig})
		if sc.twin.P > 0 && (env.Thorough() || env.Replay != "") {
			scs = append(scs, &explore.Scenario{Name: sc.name + "~delay", Quick: sc.twin, Thorough: sc.twin, Body: sc.body, Sig: c07Sig})
		}
	}
	if os.Getenv("VERIF_C07_COV") != "" {
		defer func() {
			var ks []string
			for k := range c07Cov {
				ks = append(ks, k)
			}
			sort.Strings(ks)
			for _, k := range ks {
				fmt.Printf("C07COV %-90s %d\n", k, c07Cov[k])
			}
		}()
	}
	explore.Main(t, "C07", scs)
}
