package obfs

// C14 unit "frames": size/identity, sequential bounded-exhaustive enumeration.
//
// Sender: the real WrapPacketConnGecko (real Salamander underneath) over a vnet.PacketConn; the
// crypto/rand draws (chunk count, pad choice, padding bytes) are owned through vrand.SetSource.
// Receiver: every wire datagram is de-obfuscated once by a real Salamander receive conn; the
// order enumeration feeds the plain frames to a real geckoPacketConn built directly over a vnet
// conn (Salamander is a stateless per-packet layer, so it is applied once per datagram instead
// of once per delivery); one delivery per case goes end-to-end through a full
// WrapPacketConnGecko receiver to tie the layers together.

import (
	"bytes"
	"encoding/json"
	"errors"
	"fmt"
	"net"
	"runtime"
	"strconv"
	"testing"

	"verif.local/engine/enum"
	"verif.local/engine/evidence"
	"verif.local/engine/vnet"
	"verif.local/engine/vrand"
	"verif.local/engine/vsched"
)

type c14Cfg struct{ Min, Max int }

var c14Cfgs = []c14Cfg{{512, 1200}, {1, 1}, {100, 100}, {1200, 2048}}

var c14PSK = []byte("c14-preshared-key")

type c14FrameCase struct {
	Cfg    int    `json:"cfg"`
	Len    int    `json:"len"`
	Chunks int    `json:"chunks"`
	Pad    string `json:"pad"` // min | max | wrap | top | k
	K      int    `json:"k,omitempty"`
	Orders string `json:"orders"` // all | perms (<=5 chunks: permutations without the duplicate) | few
}

// c14Draws owns the sender's crypto/rand stream. Gecko draws, per long-header packet: 4 bytes
// for the chunk count (value % 7), then per chunk 4 bytes for the pad choice (value % number of
// admissible pad lengths; skipped when there is at most one) followed by padLen padding bytes.
// A datagram is written to the inner conn after each chunk, so "number of datagrams sent" tells
// which chunk the draws belong to and the index within that phase tells which draw it is.
type c14Draws struct {
	tap      *vnet.PacketConn
	cc       int
	mode     string
	k        int
	min, max int
	lens     []int // chunk payload lengths learnt from the pad=min probe (nil in min mode)
	base     int
	last     int
	idx      int
}

func (d *c14Draws) begin() { d.base = len(d.tap.Sent); d.last = d.base; d.idx = 0 }

// nChoices is the number of pad lengths p with min <= salt+header+p+chunk <= max (property text).
func c14NChoices(min, max, chunkLen int) int {
	lo := 8 + 5 + chunkLen
	if lo < min {
		lo = min
	}
	if lo > max {
		return 0
	}
	return max - lo + 1
}

func (d *c14Draws) raw(j int) uint32 {
	n := c14NChoices(d.min, d.max, d.lens[j])
	switch d.mode {
	case "max":
		return uint32(n - 1)
	case "wrap":
		return uint32(n)
	case "top":
		return 0xffffffff
	case "k":
		if d.k < n {
			return uint32(d.k)
		}
		return uint32(n - 1)
	}
	return 0
}

func (d *c14Draws) draw(e *vsched.Exec, tag string, bound int64) int64 {
	if tag != "crypto/rand.Read" || bound != 256 {
		return -1
	}
	sent := len(d.tap.Sent)
	if sent != d.last {
		d.last, d.idx = sent, 0
	}
	i := d.idx
	d.idx++
	j := (sent - d.base) % d.cc
	if j == 0 {
		if i < 4 {
			return int64(byte(uint32(d.cc-2) >> (8 * (3 - i))))
		}
		i -= 4
	}
	if d.mode == "min" || d.lens == nil || j >= len(d.lens) {
		return 0
	}
	if i < 4 && c14NChoices(d.min, d.max, d.lens[j]) > 1 {
		return int64(byte(d.raw(j) >> (8 * (3 - i))))
	}
	return 0
}

var c14LensCache = map[[2]int][]int{}

type c14FrameStats struct {
	orders int64
	shape  string
	skip   bool
	// unfaithful: the sender did not follow the random draws this case enumerates (chunk count,
	// pad length, message id); the property clauses are still checked on what it did emit
	unfaithful string
}

func c14RunFrames(c *c14FrameCase, st *c14FrameStats) string {
	return c14Seq(1, func(e *vsched.Exec) string { return c14RunFramesInner(e, c, st) })
}

func c14RunFramesInner(e *vsched.Exec, c *c14FrameCase, st *c14FrameStats) string {
	cfg := c14Cfgs[c.Cfg]
	opts := GeckoOptions{Password: c14PSK, MinPacketSize: cfg.Min, MaxPacketSize: cfg.Max}
	dst := c14Addr("peer")
	L, cc := c.Len, c.Chunks
	buf := make([]byte, 4096)

	// real Salamander receive side, used to de-obfuscate each wire datagram once
	din := vnet.NewPacketConn("deob", 3)
	ds, err := WrapPacketConnSalamander(din, c14PSK)
	if err != nil {
		return "harness: " + err.Error()
	}
	deob := func(w []byte) ([]byte, string) {
		din.Inject(w, c14Addr("w"))
		n, _, err := ds.ReadFrom(buf)
		if err != nil {
			return nil, "Salamander receive error: " + err.Error()
		}
		return append([]byte(nil), buf[:n]...), ""
	}
	newSender := func(name string, d *c14Draws) (*geckoPacketConn, string) {
		tap := vnet.NewPacketConn(name, 1)
		pc, err := WrapPacketConnGecko(tap, opts)
		if err != nil {
			return nil, "WrapPacketConnGecko refused the configuration: " + err.Error()
		}
		d.tap, d.cc, d.min, d.max = tap, cc, cfg.Min, cfg.Max
		d.begin()
		vrand.SetSource(e, d.draw)
		return pc.(*geckoPacketConn), ""
	}

	// probe with pad=min (all draws zero except the chunk count): learns the chunk lengths the
	// sender uses, which determine how many pad choices each chunk has (cached per process: they
	// are a function of packet length and chunk count only - a stale entry would merely make the
	// pad-fidelity clause below fire)
	lens := c14LensCache[[2]int{L, cc}]
	if c.Pad != "min" && lens == nil {
		pd := &c14Draws{mode: "min"}
		pg, cl := newSender("probe", pd)
		if cl != "" {
			return cl
		}
		if _, err := pg.WriteTo(c14Content(L, 9, true), dst); err != nil {
			return "WriteTo error: " + err.Error()
		}
		for _, w := range pd.tap.Sent {
			f, cl := deob(w.Data)
			if cl != "" {
				return cl
			}
			rf, cl := c14ParseFrame(f)
			if cl != "" {
				return "emitted " + cl
			}
			for len(lens) <= int(rf.idx) {
				lens = append(lens, -1)
			}
			lens[rf.idx] = len(rf.payload)
		}
		pg.Close()
		if len(lens) != cc {
			// the sender did not take the chunk count from the draw the harness owns: this case of the
			// enumeration cannot be produced (not a property clause)
			st.unfaithful = fmt.Sprintf("sender emitted %d datagrams for a chunk-count draw of %d", len(lens), cc)
			return ""
		}
		c14LensCache[[2]int{L, cc}] = lens
	}
	if c.Pad != "min" {
		if c.Pad == "k" {
			maxN := 0
			for _, l := range lens {
				maxN = max(maxN, c14NChoices(cfg.Min, cfg.Max, l))
			}
			if c.K >= maxN {
				st.skip = true
				return ""
			}
		}
	}

	d := &c14Draws{mode: c.Pad, k: c.K, lens: lens}
	g, cl := newSender("snd", d)
	if cl != "" {
		return cl
	}
	defer g.Close()
	g.msgID.Store(254)

	var pkts [3][]byte
	var frames [3][][]byte // plain frames by chunk index
	var wires [3][][]byte  // wire datagrams in emission order
	ids := [3]int{255, 0, 1}
	fits, unfit := 0, 0
	nmsg := 3 // ids 255, 0, 1; the reduced-order cases send one message (id 255)
	if c.Orders == "few" {
		nmsg = 1
	}
	var obsLens []int
	for m := 0; m < nmsg; m++ {
		pkts[m] = c14Content(L, m, true)
		d.begin()
		n, err := g.WriteTo(pkts[m], dst)
		if err != nil || n != L {
			return fmt.Sprintf("WriteTo(%d bytes) = %d, %v", L, n, err)
		}
		if !bytes.Equal(pkts[m], c14Content(L, m, true)) {
			return "WriteTo modified the caller's packet"
		}
		sent := d.tap.Sent[d.base:]
		if len(sent) != cc {
			st.unfaithful = fmt.Sprintf("sender emitted %d datagrams for a chunk-count draw of %d", len(sent), cc)
			return ""
		}
		frames[m] = make([][]byte, cc)
		ids[m] = -1
		var cat []byte
		for _, w := range sent {
			if w.Addr == nil || w.Addr.String() != dst.String() {
				return "datagram sent to a different destination"
			}
			f, cl := deob(w.Data)
			if cl != "" {
				return cl
			}
			rf, cl := c14ParseFrame(f)
			if cl != "" {
				return "emitted " + cl
			}
			if int(rf.total) != cc {
				return fmt.Sprintf("frame declares %d chunks, the draw was %d", rf.total, cc)
			}
			if frames[m][rf.idx] != nil {
				return fmt.Sprintf("chunk index %d emitted twice", rf.idx)
			}
			if ids[m] >= 0 && ids[m] != int(rf.id) {
				return fmt.Sprintf("chunks of one packet carry message ids %d and %d", ids[m], rf.id)
			}
			ids[m] = int(rf.id)
			frames[m][rf.idx] = f
			wires[m] = append(wires[m], w.Data)
			// size clause
			W, cl2 := len(w.Data), len(rf.payload)
			if W != 8+len(f) {
				return fmt.Sprintf("wire datagram is %d bytes for a %d-byte frame (salt is 8)", W, len(f))
			}
			nch := c14NChoices(cfg.Min, cfg.Max, cl2)
			if nch > 0 {
				fits++
				if W < cfg.Min || W > cfg.Max {
					return fmt.Sprintf("datagram of %d bytes (salt 8 + header 5 + pad %d + chunk %d) outside [%d,%d] although salt+header+chunk=%d fits", W, rf.pad, cl2, cfg.Min, cfg.Max, 13+cl2)
				}
				// enumeration fidelity: the pad is the one this case enumerates
				if lens != nil || c.Pad == "min" {
					want := max(cfg.Min, 13+cl2)
					if c.Pad != "min" {
						dd := c14Draws{mode: c.Pad, k: c.K, min: cfg.Min, max: cfg.Max, lens: []int{cl2}}
						want += int(dd.raw(0) % uint32(nch))
					}
					if W != want && st.unfaithful == "" {
						// not a property clause: the sender consumed its random draws in another order
						// or form than the harness assumes; the size-range clause above still applies
						st.unfaithful = fmt.Sprintf("pad draw not honoured: datagram is %d bytes, the enumerated draw (%s) gives %d", W, c.Pad, want)
					}
				}
			} else {
				unfit++
			}
		}
		for j := 0; j < cc; j++ {
			rf, _ := c14ParseFrame(frames[m][j])
			cat = append(cat, rf.payload...)
			if m == 0 {
				obsLens = append(obsLens, len(rf.payload))
			}
		}
		if !bytes.Equal(cat, pkts[m]) {
			return fmt.Sprintf("concatenation of the emitted chunks (%d bytes) differs from the %d-byte packet", len(cat), L)
		}
	}
	if nmsg == 3 && (ids[0] == ids[1] || ids[1] == ids[2] || ids[0] == ids[2]) {
		return fmt.Sprintf("three consecutive packets of one sender carry message ids %v: not pairwise distinct, their chunks cannot be told apart in flight", ids)
	}
	if nmsg == 3 && ids != [3]int{255, 0, 1} && st.unfaithful == "" {
		st.unfaithful = fmt.Sprintf("message ids after presetting the counter to 254 are %v, not 255,0,1: the 8-bit wrap was not exercised", ids)
	}
	if c.Pad == "min" && c14LensCache[[2]int{L, cc}] == nil {
		c14LensCache[[2]int{L, cc}] = obsLens
	}
	switch {
	case L < cc:
		st.shape = "empty-chunks"
	case unfit == 0:
		st.shape = "all-fit"
	case fits == 0:
		st.shape = "none-fit"
	default:
		st.shape = "some-fit"
	}

	// short-header packet and the sentinel, through the same sender
	short := c14Content(L, 5, false)
	before := len(d.tap.Sent)
	if n, err := g.WriteTo(short, dst); err != nil || n != L {
		return fmt.Sprintf("short-header WriteTo(%d bytes) = %d, %v", L, n, err)
	}
	if _, err := g.WriteTo([]byte{0x00}, dst); err != nil {
		return "short-header WriteTo error: " + err.Error()
	}
	if len(d.tap.Sent) != before+2 {
		return fmt.Sprintf("short-header packet produced %d datagrams", len(d.tap.Sent)-before-1)
	}
	shortWire, sentinelWire := d.tap.Sent[before].Data, d.tap.Sent[before+1].Data
	sf, cl := deob(shortWire)
	if cl != "" {
		return cl
	}
	if !bytes.Equal(sf, short) {
		return "short-header packet changed on the wire (after removing Salamander)"
	}

	// ---- receiver: plain frames into a real geckoPacketConn over a vnet conn
	rp := vnet.NewPacketConn("rplain", 4)
	rg := newGeckoPacketConn(rp, cfg.Min, cfg.Max)
	defer rg.Close()
	sentinel := []byte{0x00}
	seqNo := 0
	check1 := func(got []c14Got, src string, want []byte, what string) string {
		if len(got) != 1 {
			return fmt.Sprintf("receiver returned %d packets for %s (expected exactly one)", len(got), what)
		}
		if got[0].src != src {
			return fmt.Sprintf("reassembled packet attributed to %s instead of %s (%s)", got[0].src, src, what)
		}
		if !bytes.Equal(got[0].data, want) {
			k := 0
			for k < len(want) && k < len(got[0].data) && want[k] == got[0].data[k] {
				k++
			}
			return fmt.Sprintf("reassembled packet differs from the written one (%d vs %d bytes, first difference at %d) for %s", len(got[0].data), len(want), k, what)
		}
		return ""
	}
	deliverInto := func(order []int, rb []byte) string {
		seqNo++
		st.orders++
		src := c14Addr("s" + strconv.Itoa(seqNo))
		for _, j := range order {
			rp.Inject(frames[0][j], src)
		}
		got, cl := c14Drain(rg, rp, sentinel, rb)
		if cl != "" {
			return cl
		}
		return check1(got, src.String(), pkts[0], fmt.Sprint("chunk order ", order))
	}
	deliver := func(order []int) string { return deliverInto(order, buf) }
	fail := ""
	seq := make([]int, 0, 10)
	if (c.Orders == "all" || c.Orders == "perms") && cc <= 5 {
		enum.Permutations(cc, func(p []int) bool {
			if fail = deliver(p); fail != "" {
				return false
			}
			if c.Orders == "perms" {
				return true
			}
			// one duplicate: insert d at q where d's other occurrence is at or after q
			for q := 0; q < cc; q++ {
				for r := q; r < cc; r++ {
					seq = append(append(append(seq[:0], p[:q]...), p[r]), p[q:]...)
					if fail = deliver(seq); fail != "" {
						return false
					}
				}
			}
			return true
		})
	} else if c.Orders == "all" || c.Orders == "perms" {
		for rev := 0; rev < 2 && fail == ""; rev++ {
			for rot := 0; rot < cc && fail == ""; rot++ {
				seq = seq[:0]
				for i := 0; i < cc; i++ {
					j := (i + rot) % cc
					if rev == 1 {
						j = cc - 1 - j
					}
					seq = append(seq, j)
				}
				if fail = deliver(seq); fail != "" {
					break
				}
				// the first-delivered chunk again in the middle, and the last one again at the end
				mid := cc / 2
				dup := append(append(append([]int{}, seq[:mid]...), seq[0]), seq[mid:]...)
				if fail = deliver(dup); fail != "" {
					break
				}
			}
		}
	} else {
		for i := 0; i < cc; i++ {
			seq = append(seq, i)
		}
		if fail = deliver(append(seq, 0)); fail == "" {
			rv := []int{}
			for i := cc - 1; i >= 0; i-- {
				rv = append(rv, i)
				if i == cc/2 {
					rv = append(rv, cc-1)
				}
			}
			fail = deliver(rv)
		}
	}
	if fail != "" {
		return fail
	}

	// three messages (ids 255, 0, 1) of one source interleaved round-robin: forward / reversed / rotated
	if nmsg == 3 {
		st.orders++
		src := c14Addr("mix")
		for i := 0; i < cc; i++ {
			rp.Inject(frames[0][i], src)
			rp.Inject(frames[1][cc-1-i], src)
			rp.Inject(frames[2][(i+1)%cc], src)
		}
		got, cl := c14Drain(rg, rp, sentinel, buf)
		if cl != "" {
			return cl
		}
		if len(got) != 3 {
			return fmt.Sprintf("receiver returned %d packets for three interleaved messages (ids 255,0,1) of one source", len(got))
		}
		seen := [3]bool{}
		for _, x := range got {
			hit := false
			for m := 0; m < 3; m++ {
				if !seen[m] && x.src == c14Addr("mix").String() && bytes.Equal(x.data, pkts[m]) {
					seen[m], hit = true, true
					break
				}
			}
			if !hit {
				return "interleaved messages (ids 255,0,1) of one source: a returned packet equals none of the written packets"
			}
		}
	}
	// the same message from two sources, interleaved
	{
		st.orders++
		for i := 0; i < cc; i++ {
			rp.Inject(frames[0][i], c14Addr("X"))
			rp.Inject(frames[0][cc-1-i], c14Addr("Y"))
		}
		got, cl := c14Drain(rg, rp, sentinel, buf)
		if cl != "" {
			return cl
		}
		if len(got) != 2 || got[0].src == got[1].src || !bytes.Equal(got[0].data, pkts[0]) || !bytes.Equal(got[1].data, pkts[0]) {
			return fmt.Sprintf("same message id from two sources interleaved: %d packets returned, expected the packet once per source", len(got))
		}
	}
	// short-header packet passes through the receiver unchanged
	{
		rp.Inject(short, c14Addr("S"))
		got, cl := c14Drain(rg, rp, sentinel, buf)
		if cl != "" {
			return cl
		}
		if cl := check1(got, c14Addr("S").String(), short, "a short-header packet"); cl != "" {
			return cl
		}
	}
	// reader-buffer dimension (see c14ReaderBufs): reversed order with a duplicate, forward order
	// with a late duplicate and the short-header packet, read into each tight buffer
	rbufs := c14ReaderBufs(L)
	for _, rb := range rbufs {
		rv := make([]int, 0, cc+1)
		for i := cc - 1; i >= 0; i-- {
			rv = append(rv, i)
			if i == cc/2 {
				rv = append(rv, cc-1)
			}
		}
		fw := make([]int, 0, cc+1)
		for i := 0; i < cc; i++ {
			fw = append(fw, i)
		}
		for _, order := range [][]int{rv, append(fw, 0)} {
			if cl := deliverInto(order, rb.buf); cl != "" {
				return rb.what + ": " + cl
			}
		}
		rp.Inject(short, c14Addr("S"))
		got, cl := c14Drain(rg, rp, sentinel, rb.buf)
		if cl == "" {
			cl = check1(got, c14Addr("S").String(), short, "a short-header packet")
		}
		if cl != "" {
			return rb.what + ": " + cl
		}
	}
	if cl := c14Census(rg, geckoMaxPerSource, geckoMaxReassembly); cl != "" {
		return cl
	}

	// ---- end to end: wire datagrams into a full WrapPacketConnGecko receiver (reverse order, one
	// duplicate), then the short-header packet
	rw := vnet.NewPacketConn("rwire", 5)
	re, err := WrapPacketConnGecko(rw, opts)
	if err != nil {
		return "WrapPacketConnGecko refused the configuration: " + err.Error()
	}
	defer re.Close()
	st.orders++
	for i := cc - 1; i >= 0; i-- {
		rw.Inject(wires[0][i], c14Addr("E"))
		if i == cc-1 {
			rw.Inject(wires[0][i], c14Addr("E"))
		}
	}
	got, cl := c14Drain(re, rw, sentinelWire, buf)
	if cl != "" {
		return cl
	}
	if cl := check1(got, c14Addr("E").String(), pkts[0], "the end-to-end delivery in reverse order with a duplicate"); cl != "" {
		return cl
	}
	rw.Inject(shortWire, c14Addr("E"))
	got, cl = c14Drain(re, rw, sentinelWire, buf)
	if cl != "" {
		return cl
	}
	if cl := check1(got, c14Addr("E").String(), short, "the end-to-end short-header packet"); cl != "" {
		return cl
	}
	// the same end-to-end delivery read into each tight reader buffer (fresh source per buffer)
	for k, rb := range rbufs {
		st.orders++
		src := c14Addr("E" + strconv.Itoa(k+1))
		for i := cc - 1; i >= 0; i-- {
			rw.Inject(wires[0][i], src)
			if i == cc-1 {
				rw.Inject(wires[0][i], src)
			}
		}
		got, cl := c14Drain(re, rw, sentinelWire, rb.buf)
		if cl == "" {
			cl = check1(got, src.String(), pkts[0], "the end-to-end delivery in reverse order with a duplicate")
		}
		if cl != "" {
			return rb.what + ": " + cl
		}
		rw.Inject(shortWire, src)
		got, cl = c14Drain(re, rw, sentinelWire, rb.buf)
		if cl == "" {
			cl = check1(got, src.String(), short, "the end-to-end short-header packet")
		}
		if cl != "" {
			return rb.what + ": " + cl
		}
	}
	return ""
}

// c14ReaderBufs is the reader-buffer dimension: the buffer the reader hands to ReadFrom. The
// property promises the written packet to any reader whose buffer can hold the PACKET; how large
// the chunk datagrams were on the wire (padding, configured maximum up to 2048) is Gecko's own
// business. Besides the roomy 4096-byte buffer of the order enumeration every case is read with a
// buffer of exactly the packet length and, where the packet fits, with quic-go's receive buffer
// size (protocol.MaxPacketBufferSize = 1452, smaller than a padded chunk datagram of the
// 1200..2048 configuration). Buffers have cap == len.
// Added after the independently seeded change C14-7 (ReadFrom received every datagram straight
// into the caller's buffer instead of its private 2048-byte one, so a chunk datagram larger than
// the reader's buffer was discarded/truncated and the packet never reassembled).
type c14RBuf struct {
	what string
	buf  []byte
}

const c14QuicGoReadBuf = 1452

func c14ReaderBufs(L int) []c14RBuf {
	r := []c14RBuf{{"reader buffer sized to the packet", make([]byte, L)}}
	if L < c14QuicGoReadBuf {
		r = append(r, c14RBuf{"reader buffer of quic-go's receive size", make([]byte, c14QuicGoReadBuf)})
	}
	return r
}

// ---- part "refused-write": a history on ONE sender conn towards one peer in which the inner
// socket refuses a datagram of a long-header packet after FailAt-1 of its chunks already left
// (ECONNREFUSED/ENOBUFS/EPERM are ordinary answers of a UDP socket; vnet.PacketConn.WriteErr),
// between two long-header packets whose WriteTo succeeds. Everything that reached the wire is
// delivered to ONE receiver from one source, so the chunks of the refused packet are "chunks of
// another message interleaved" for the packets written around it: each packet whose WriteTo
// succeeded must come out byte-identical exactly once, and nothing else may come out.
// Added after the independently seeded change C14-8 (writeFragmented only peeked the next message
// id and advanced the counter after the last chunk was written, so the packet written after a
// half-sent one - or by an overlapping writer, see conc-two-writers - reused its message id).
type c14RefusedCase struct {
	Cfg    int `json:"cfg"`
	Len    int `json:"len"`
	C1     int `json:"refused_chunks"` // chunk-count draw of the refused packet
	FailAt int `json:"fail_at"`        // 1-based datagram of the refused packet the socket refuses
	C2     int `json:"ok_chunks"`      // chunk-count draw of the packets written before and after it
}

var errC14Refused = errors.New("sendto: connection refused")

func c14RunRefused(c *c14RefusedCase, st *c14FrameStats) string {
	return c14Seq(1, func(e *vsched.Exec) string { return c14RunRefusedInner(e, c, st) })
}

func c14RunRefusedInner(e *vsched.Exec, c *c14RefusedCase, st *c14FrameStats) string {
	cfg := c14Cfgs[c.Cfg]
	opts := GeckoOptions{Password: c14PSK, MinPacketSize: cfg.Min, MaxPacketSize: cfg.Max}
	dst := c14Addr("peer")
	L := c.Len
	buf := make([]byte, 4096)

	din := vnet.NewPacketConn("deob", 3)
	ds, err := WrapPacketConnSalamander(din, c14PSK)
	if err != nil {
		return "harness: " + err.Error()
	}
	tap := vnet.NewPacketConn("snd", 1)
	pc, err := WrapPacketConnGecko(tap, opts)
	if err != nil {
		return "WrapPacketConnGecko refused the configuration: " + err.Error()
	}
	g := pc.(*geckoPacketConn)
	defer g.Close()
	d := &c14Draws{mode: "min", tap: tap, min: cfg.Min, max: cfg.Max, cc: c.C2}
	d.begin()
	vrand.SetSource(e, d.draw)
	g.msgID.Store(254) // the refused packet falls on the 8-bit wrap: ids 255, 0, 1 on the unchanged tree

	calls, refuseAt, refused := 0, -1, 0
	tap.WriteErr = func(int, vnet.Packet) error {
		calls++
		if calls == refuseAt {
			refused++
			return errC14Refused
		}
		return nil
	}

	// the history: packet 0 written, packet 1 refused at its FailAt-th datagram, packet 2 written
	var pkts [3][]byte
	var wires [3][][]byte
	var frames [3][][]byte // plain frames in emission order
	for m := 0; m < 3; m++ {
		pkts[m] = c14Content(L, m, true)
		d.cc = c.C2
		if m == 1 {
			d.cc = c.C1
			refuseAt = calls + c.FailAt
		}
		d.begin()
		n, err := g.WriteTo(pkts[m], dst)
		refuseAt = -1
		if m != 1 && (err != nil || n != L) {
			return fmt.Sprintf("WriteTo(%d bytes) = %d, %v although the socket took every datagram", L, n, err)
		}
		if m == 1 && refused != 1 {
			st.unfaithful = fmt.Sprintf("sender made fewer than %d socket writes for a chunk-count draw of %d", c.FailAt, c.C1)
			return ""
		}
		for _, w := range tap.Sent[d.base:] {
			din.Inject(w.Data, c14Addr("w"))
			k, _, err := ds.ReadFrom(buf)
			if err != nil {
				return "Salamander receive error: " + err.Error()
			}
			f := append([]byte(nil), buf[:k]...)
			if _, cl := c14ParseFrame(f); cl != "" {
				return "emitted " + cl
			}
			wires[m] = append(wires[m], w.Data)
			frames[m] = append(frames[m], f)
		}
		if m != 1 && len(frames[m]) != c.C2 && st.unfaithful == "" {
			st.unfaithful = fmt.Sprintf("sender emitted %d datagrams for a chunk-count draw of %d", len(frames[m]), c.C2)
		}
	}
	if len(frames[1]) >= c.C1 {
		// every chunk of the refused packet is on the wire all the same: the socket's refusal was not
		// what this case enumerates (not a property clause)
		st.unfaithful = fmt.Sprintf("%d datagrams of the refused packet left for a chunk-count draw of %d", len(frames[1]), c.C1)
		return ""
	}
	st.shape = fmt.Sprintf("left=%d", len(frames[1]))
	if _, err := g.WriteTo([]byte{0x00}, dst); err != nil {
		return "short-header WriteTo error: " + err.Error()
	}
	sentinelWire := tap.Sent[len(tap.Sent)-1].Data

	// delivery orders of everything that reached the wire, each from a fresh source of one receiver
	type fr struct{ m, j int }
	var emitted, blocksRev, mixed []fr
	for m := 0; m < 3; m++ {
		for j := range frames[m] {
			emitted = append(emitted, fr{m, j})
		}
	}
	for m := 2; m >= 0; m-- {
		for j := range frames[m] {
			blocksRev = append(blocksRev, fr{m, j})
		}
	}
	for j := 0; j < 8; j++ { // round-robin: packet 2, refused packet, packet 0
		for _, m := range []int{2, 1, 0} {
			if j < len(frames[m]) {
				mixed = append(mixed, fr{m, j})
			}
		}
	}
	reversed := make([]fr, len(emitted))
	for i, x := range emitted {
		reversed[len(emitted)-1-i] = x
	}
	judge := func(got []c14Got, src, what string) string {
		seen := [3]bool{}
		for _, x := range got {
			hit := false
			for _, m := range []int{0, 2} {
				if !seen[m] && x.src == src && bytes.Equal(x.data, pkts[m]) {
					seen[m], hit = true, true
					break
				}
			}
			if !hit {
				return fmt.Sprintf("receiver returned a packet (%d bytes) that equals none of the packets whose WriteTo succeeded, after a write refused by the socket at datagram %d of %d (%s)", len(x.data), c.FailAt, c.C1, what)
			}
		}
		for _, m := range []int{0, 2} {
			if !seen[m] {
				return fmt.Sprintf("packet %s a write refused by the socket at datagram %d of %d was not delivered although its WriteTo succeeded (%s)", map[int]string{0: "written before", 2: "written after"}[m], c.FailAt, c.C1, what)
			}
		}
		return ""
	}
	rp := vnet.NewPacketConn("rplain", 4)
	rg := newGeckoPacketConn(rp, cfg.Min, cfg.Max)
	defer rg.Close()
	for k, o := range []struct {
		what  string
		order []fr
	}{{"emission order", emitted}, {"reversed emission order", reversed}, {"packets in reverse, chunks forward", blocksRev}, {"round-robin interleaving", mixed}} {
		st.orders++
		src := c14Addr("rf" + strconv.Itoa(k))
		for _, x := range o.order {
			rp.Inject(frames[x.m][x.j], src)
		}
		got, cl := c14Drain(rg, rp, []byte{0x00}, buf)
		if cl != "" {
			return cl
		}
		if cl := judge(got, src.String(), o.what); cl != "" {
			return cl
		}
	}
	if cl := c14Census(rg, geckoMaxPerSource, geckoMaxReassembly); cl != "" {
		return cl
	}
	// end to end: the wire datagrams in emission order into a full WrapPacketConnGecko receiver
	rw := vnet.NewPacketConn("rwire", 5)
	re, err := WrapPacketConnGecko(rw, opts)
	if err != nil {
		return "WrapPacketConnGecko refused the configuration: " + err.Error()
	}
	defer re.Close()
	st.orders++
	for m := 0; m < 3; m++ {
		for _, w := range wires[m] {
			rw.Inject(w, c14Addr("E"))
		}
	}
	got, cl := c14Drain(re, rw, sentinelWire, buf)
	if cl != "" {
		return cl
	}
	return judge(got, c14Addr("E").String(), "end to end in emission order")
}

func c14RefusedSig(c *c14RefusedCase, clause string) string {
	short := clause
	for i, r := range clause {
		if r >= '0' && r <= '9' {
			short = clause[:i]
			break
		}
	}
	if len(short) > 80 {
		short = short[:80]
	}
	return fmt.Sprintf("frames/refused-write/%s/min=%d,max=%d,len=%d,refused_chunks=%d,fail_at=%d,ok_chunks=%d", short, c14Cfgs[c.Cfg].Min, c14Cfgs[c.Cfg].Max, c.Len, c.C1, c.FailAt, c.C2)
}

var c14BoundaryLens = []int{1, 2, 3, 7, 8, 9, 16, 63, 64, 65, 87, 88, 173, 174, 175, 176, 260, 261, 262, 347, 348, 349, 435, 436, 522, 609, 696, 697, 997, 998, 999, 1000, 1199, 1200, 1201, 1496, 1497, 1498, 1499, 1500}

func c14FrameSig(c *c14FrameCase, clause string) string {
	// the clause up to its first number keeps the signature specific to the failing clause and the
	// minimal case without embedding run-dependent detail
	short := clause
	for i, r := range clause {
		if r >= '0' && r <= '9' {
			short = clause[:i]
			break
		}
	}
	if len(short) > 80 {
		short = short[:80]
	}
	return fmt.Sprintf("frames/%s/min=%d,max=%d,len=%d,chunks=%d,pad=%s%s", short, c14Cfgs[c.Cfg].Min, c14Cfgs[c.Cfg].Max, c.Len, c.Chunks, c.Pad, map[bool]string{true: strconv.Itoa(c.K), false: ""}[c.Pad == "k"])
}

func c14FramesEnumerate(sh *evidence.Shard) {
	env := sh.Env()
	th := env.Thorough()
	runtime.MemProfileRate = 0
	nviol := 0
	stop := false
	run := func(p *evidence.Part, c c14FrameCase) {
		if stop {
			return
		}
		var st c14FrameStats
		clause := c14RunFrames(&c, &st)
		if st.skip {
			p.Count("pad_value_beyond_range_skipped", 1)
			return
		}
		if st.unfaithful != "" {
			p.Count("cases_where_the_sender_did_not_follow_the_enumerated_draws", 1)
			if p.Exhaustive {
				p.Exhaustive = false
				p.Note("enumeration fidelity lost (not a violation): %s; the (chunk count, pad) grid of this part is then only partly produced", st.unfaithful)
			}
			if clause == "" && st.orders == 0 {
				return
			}
		}
		p.Evaluations++
		p.Count("delivery_orders", st.orders)
		p.Class(c.Cfg, c.Chunks, c.Pad, st.shape, clause == "")
		if p.Evaluations%997 == 5 {
			p.Sample(c)
		}
		if clause != "" {
			sh.Violate(p.Name, c14FrameSig(&c, clause), clause, &c)
			nviol++
			if nviol >= 3 {
				p.Exhaustive = false
				p.Note("stopped after %d violations", nviol)
				stop = true
			}
		}
	}
	expired := func(p *evidence.Part, ci, L int) bool {
		if !stop && env.Expired() {
			p.Exhaustive = false
			p.Note("deadline reached at min=%d,max=%d,len=%d; everything before it in (config, length) order is covered", c14Cfgs[ci].Min, c14Cfgs[ci].Max, L)
			stop = true
		}
		return stop
	}
	// refused-write history (see c14RefusedCase): runs first, it is small
	{
		p0 := sh.Part("refused-write", "enum")
		okChunks := "2..8"
		if !th {
			okChunks = "quick tier: the refused packet's count and the next count (cyclically) - same and different chunk count; thorough: 2..8"
		}
		p0.Alphabet = map[string]any{
			"size_configs(min,max)": c14Cfgs, "packet_len(boundary)": c14BoundaryLens,
			"history":                            "one sender conn, one peer: long-header packet written, long-header packet REFUSED by the inner socket at its k-th datagram, long-header packet written (message ids 255, 0, 1), sentinel",
			"refused_packet_chunk_count_draw":    "2..8",
			"refused_datagram(k)":                "1..chunk count (k-1 chunks of the refused packet are on the wire)",
			"written_packets_chunk_count_draw":   okChunks,
			"delivery_orders(all to one source)": "emission order, reversed, packets in reverse with chunks forward, round-robin interleaving of the three packets, end-to-end through Salamander in emission order",
			"pad_draw":                           "min",
		}
		var grp int64
		for _, L := range c14BoundaryLens {
			for ci := range c14Cfgs {
				grp++
				if !env.Mine(grp) || expired(p0, ci, L) {
					continue
				}
				for c1 := 2; c1 <= 8 && !stop; c1++ {
					for k := 1; k <= c1 && !stop; k++ {
						for c2 := 2; c2 <= 8 && !stop; c2++ {
							if !th && c2 != c1 && c2 != (c1-1)%7+2 {
								continue
							}
							c := c14RefusedCase{Cfg: ci, Len: L, C1: c1, FailAt: k, C2: c2}
							var st c14FrameStats
							clause := c14RunRefused(&c, &st)
							if st.unfaithful != "" {
								p0.Count("cases_where_the_sender_did_not_follow_the_enumerated_draws", 1)
								if p0.Exhaustive {
									p0.Exhaustive = false
									p0.Note("enumeration fidelity lost (not a violation): %s", st.unfaithful)
								}
								if clause == "" && st.orders == 0 {
									continue
								}
							}
							p0.Evaluations++
							p0.Count("delivery_orders", st.orders)
							p0.Class(ci, c1, st.shape, c1 == c2, clause == "")
							if p0.Evaluations%997 == 5 {
								p0.Sample(c)
							}
							if clause != "" {
								sh.Violate(p0.Name, c14RefusedSig(&c, clause), clause, &c)
								nviol++
								if nviol >= 3 {
									p0.Exhaustive = false
									p0.Note("stopped after %d violations", nviol)
									stop = true
								}
							}
						}
					}
				}
			}
		}
	}
	p1 := sh.Part("size-identity", "enum")
	minOrders, maxOrders := "all delivery orders", "all delivery orders"
	if !th {
		minOrders = "all delivery orders (quick tier: for 5 chunks the duplicate-permutations at every 4th length per config, rotating; the 120 plain permutations at every length)"
		maxOrders = "<=5 chunks: every permutation without the duplicate (quick tier); 6..8 as below"
	}
	p1.Alphabet = map[string]any{
		"size_configs(min,max)": c14Cfgs, "packet_len": "1..1500", "chunk_count_draw": "2..8",
		"pad_draw":        "min (raw 0): " + minOrders + "; max (raw n-1): " + maxOrders + "; wrap (raw n), top (raw 2^32-1): two delivery orders of one message; n = number of admissible pad lengths of the chunk",
		"delivery_orders": "<=5 chunks: every permutation and every permutation with one duplicated chunk (n*(n+1)!/2); 6..8 chunks: 2n rotations of forward/reversed order, each also with one duplicate; plus per case: 3 messages (ids 255,0,1) of one source interleaved, one message from two sources interleaved, short-header passthrough, one end-to-end delivery through Salamander",
		"message_ids":     "counter preset to 254: ids 255, 0, 1",
		"reader_buffer":   "4096 bytes for the order enumeration; per case also exactly the packet length and (packet <= 1452) quic-go's 1452-byte receive buffer: reversed+duplicate, forward+late duplicate, short-header passthrough on the plain path and the end-to-end delivery + short-header packet through Salamander",
	}
	// sharded by (config, length) group; the chunk counts and pad draws of a group run together
	var grp int64
	for L := 1; L <= 1500 && !stop; L++ {
		for ci := range c14Cfgs {
			grp++
			if !env.Mine(grp) || expired(p1, ci, L) {
				continue
			}
			for cc := 2; cc <= 8; cc++ {
				// quick tier: the 1800 duplicate-permutations of 5 chunks at every 4th length per
				// config (rotating), and pad=max without the duplicate for <=5 chunks
				o1, o2 := "all", "all"
				if !th {
					if cc == 5 && (L+ci)%4 != 0 {
						o1 = "perms"
					}
					if cc <= 5 {
						o2 = "perms"
					}
				}
				run(p1, c14FrameCase{Cfg: ci, Len: L, Chunks: cc, Pad: "min", Orders: o1})
				run(p1, c14FrameCase{Cfg: ci, Len: L, Chunks: cc, Pad: "max", Orders: o2})
				run(p1, c14FrameCase{Cfg: ci, Len: L, Chunks: cc, Pad: "wrap", Orders: "few"})
				run(p1, c14FrameCase{Cfg: ci, Len: L, Chunks: cc, Pad: "top", Orders: "few"})
			}
		}
	}
	if th && !stop {
		p2 := sh.Part("every-pad-value", "enum")
		p2.Alphabet = map[string]any{"size_configs(min,max)": c14Cfgs, "packet_len(boundary)": c14BoundaryLens, "chunk_count_draw": "2..8",
			"pad_draw": "every k-th admissible pad length, k = 0..(number of admissible lengths - 1), same k for every chunk (clamped)", "delivery_orders": "forward with a late duplicate, reversed with a duplicate, one message from two sources, short-header passthrough, end-to-end",
			"reader_buffer": "4096 bytes, exactly the packet length, quic-go's 1452 bytes (as in size-identity)"}
		grp = 0
		for _, L := range c14BoundaryLens {
			for ci, cfg := range c14Cfgs {
				for cc := 2; cc <= 8; cc++ {
					grp++
					if !env.Mine(grp) || expired(p2, ci, L) {
						continue
					}
					for k := 0; k <= cfg.Max-cfg.Min && !stop; k++ {
						run(p2, c14FrameCase{Cfg: ci, Len: L, Chunks: cc, Pad: "k", K: k, Orders: "few"})
					}
				}
			}
		}
	}
}

func TestVerifC14Frames(t *testing.T) {
	evidence.Main(t, "C14", evidence.Seq{
		Run: c14FramesEnumerate,
		Replay: func(part string, raw json.RawMessage) (bool, bool, string) {
			if part == "refused-write" {
				var c c14RefusedCase
				if err := json.Unmarshal(raw, &c); err != nil {
					return true, false, err.Error()
				}
				var st c14FrameStats
				clause := c14RunRefused(&c, &st)
				return true, clause != "", clause
			}
			if part != "size-identity" && part != "every-pad-value" {
				return false, false, ""
			}
			var c c14FrameCase
			if err := json.Unmarshal(raw, &c); err != nil {
				return true, false, err.Error()
			}
			var st c14FrameStats
			clause := c14RunFrames(&c, &st)
			return true, clause != "", clause
		},
	})
}

var _ net.Addr = c14Addr("")
