package obfs

// C14 unit "conc": schedule exploration of the real geckoPacketConn (Salamander bypassed: plain
// frames into a vnet conn): ReadFrom loop || gcLoop ticker (virtual clock) || Close || injector.

import (
	"bytes"
	"fmt"
	"testing"

	"verif.local/engine/explore"
	"verif.local/engine/vnet"
	"verif.local/engine/vrand"
	"verif.local/engine/vsched"
	"verif.local/engine/vsync"
)

type c14Conc struct {
	e      *vsched.Exec
	in     *vnet.PacketConn
	g      *geckoPacketConn
	wg     vsync.WaitGroup
	legal  map[string][]byte // source -> the one complete message injected for it
	shorts map[string][]byte
	seen   map[string]int
	closed bool // Close has returned
	exits  int  // reader loops that returned
}

func c14NewConc(e *vsched.Exec) *c14Conc {
	in := vnet.NewPacketConn("in", 7)
	return &c14Conc{e: e, in: in, g: newGeckoPacketConn(in, geckoDefaultMinPacket, geckoDefaultMaxPacket),
		legal: map[string][]byte{}, shorts: map[string][]byte{}, seen: map[string]int{}}
}

func (d *c14Conc) spawn(f func()) {
	d.wg.Add(1)
	vsched.Go(func() { defer d.wg.Done(); f() })
}

// reader is a ReadFrom loop: every packet it gets must be a complete injected message (or an
// injected short-header packet) of that source, at most once; it ends on the first error, which
// must not come before Close was called.
func (d *c14Conc) reader(name string) {
	buf := make([]byte, 4096)
	for {
		n, addr, err := d.g.ReadFrom(buf)
		if err != nil {
			if !d.in.Closed() {
				d.e.Fail("%s: ReadFrom error %v before Close", name, err)
			}
			d.exits++
			d.e.Logf("%s: exit", name)
			return
		}
		src := "<nil>"
		if addr != nil {
			src = addr.String()
		}
		p := buf[:n]
		switch {
		case bytes.Equal(p, d.legal[src]):
			d.seen["L"+src]++
			if d.seen["L"+src] > 1 {
				d.e.Fail("%s: message of %s returned twice", name, src)
			}
		case bytes.Equal(p, d.shorts[src]):
			d.seen["S"+src]++
			if d.seen["S"+src] > 1 {
				d.e.Fail("%s: short-header packet of %s returned twice", name, src)
			}
		default:
			d.e.Fail("%s: ReadFrom returned %d bytes %s from %s which were not injected as a complete message", name, n, c14Hex(p), src)
		}
		d.e.Logf("%s: got %s from %s", name, c14Hex(p), src)
	}
}

func (d *c14Conc) msg(s uint16, id uint8, total int) [][]byte {
	src := c14SrcName(s)
	var fr [][]byte
	var cat []byte
	for i := 0; i < total; i++ {
		pl := c14ChunkBytes(c14Op{S: s, ID: id, Idx: uint8(i), Total: uint8(total)})
		cat = append(cat, pl...)
		fr = append(fr, c14Frame(id, uint8(i), uint8(total), i, pl))
	}
	d.legal[src] = cat
	return fr
}

// finish: everything the harness started has ended; wait for the gc goroutine to leave (it must,
// closeCh is closed), then the final-state oracle.
func (d *c14Conc) finish(readers int) {
	d.wg.Wait()
	d.e.WaitIdle()
	if d.exits != readers {
		d.e.Fail("%d of %d ReadFrom loops returned after Close", d.exits, readers)
	}
	if cl := c14Census(d.g, geckoMaxPerSource, geckoMaxReassembly); cl != "" {
		d.e.Fail("final state: %s", cl)
	}
	d.e.Logf("pending=%d", len(d.g.reassembly))
}

func c14ConcScenarios() []*explore.Scenario {
	q, th := explore.Bounds{P: 2}, explore.Bounds{P: 3}
	return []*explore.Scenario{
		// Close collides with a reader that is consuming a reordered, duplicated message, an
		// incomplete message of another source, a malformed frame and a short-header packet.
		{Name: "conc-read-close", Quick: q, Thorough: th, Body: func(e *vsched.Exec) {
			d := c14NewConc(e)
			a := d.msg(0, 1, 2)
			b := d.msg(1, 7, 3)
			delete(d.legal, c14Addr("B").String()) // B stays incomplete
			d.shorts[c14Addr("C").String()] = []byte{0x40, 0x01}
			d.spawn(func() { d.reader("r1") })
			d.spawn(func() {
				d.in.Inject(a[1], c14Addr("A"))
				d.in.Inject(b[0], c14Addr("B"))
				d.in.Inject(a[1], c14Addr("A"))
				d.in.Inject(c14BadFrames[3], c14Addr("A"))
				d.in.Inject(a[0], c14Addr("A"))
				d.in.Inject(d.shorts[c14Addr("C").String()], c14Addr("C"))
				d.in.Inject(b[2], c14Addr("B"))
			})
			d.spawn(func() {
				if err := d.g.Close(); err != nil {
					e.Fail("Close: %v", err)
				}
				d.closed = true
			})
			d.finish(1)
		}},
		// The ticker-driven sweep collides with the arrival of the last chunk around the deadline:
		// the message either completes (returned intact) or was forgotten (the late chunk starts a
		// new pending entry); the accounting stays exact either way; Close at 30 s ends everything.
		{Name: "conc-sweep-vs-completion", Quick: q, Thorough: th, Body: func(e *vsched.Exec) {
			d := c14NewConc(e)
			a := d.msg(0, 1, 2)
			b := d.msg(1, 2, 2)
			d.spawn(func() { d.reader("r1") })
			d.spawn(func() {
				d.in.Inject(a[0], c14Addr("A"))
				d.in.Inject(b[0], c14Addr("B"))
				e.Sleep(int64(geckoReassemblyTTL) + int64(geckoReassemblyTTL)/2) // 12 s: the sweep that forgets A/1 and B/2 is due
				d.in.Inject(a[1], c14Addr("A"))
				d.in.Inject(b[1], c14Addr("B"))
			})
			d.spawn(func() {
				e.Sleep(30e9)
				if err := d.g.Close(); err != nil {
					e.Fail("Close: %v", err)
				}
			})
			d.finish(1)
			// No "table empty at 30 s" clause here: within the preemption bound the explorer may
			// starve the gc goroutine from 24 s until Close (2 preemptions), which the property does
			// not forbid; the ticker-driven sweep is checked under the default schedule by the
			// table unit (configuration full-loop).
		}},
		// Two ReadFrom loops share the conn while frames of two sources arrive and Close lands.
		{Name: "conc-two-readers", Quick: explore.Bounds{P: 2}, Thorough: th, Body: func(e *vsched.Exec) {
			d := c14NewConc(e)
			a := d.msg(0, 255, 2)
			b := d.msg(1, 0, 2)
			d.spawn(func() { d.reader("r1") })
			d.spawn(func() { d.reader("r2") })
			d.spawn(func() {
				d.in.Inject(a[0], c14Addr("A"))
				d.in.Inject(b[1], c14Addr("B"))
				d.in.Inject(a[1], c14Addr("A"))
				d.in.Inject(b[0], c14Addr("B"))
				e.Sleep(int64(geckoReassemblyTTL / 2))
				if err := d.g.Close(); err != nil {
					e.Fail("Close: %v", err)
				}
			})
			d.finish(2)
		}},
		// Send path: two threads write one long-header packet each through ONE conn to one peer
		// (quic-go's connections share the server's PacketConn, each with its own send loop); the
		// schedules let writer 2 run between two chunks of writer 1. Everything on the wire is then
		// delivered to one receiver from one source, in wire order and reversed: both packets come
		// out byte-identical, once, and nothing else. Chunk-count draws owned per writer: 2+2 and 2+3.
		// Added after the independently seeded change C14-8 (writeFragmented only peeked the next
		// message id and advanced the counter after its last chunk, so overlapping writers - and the
		// packet after a half-sent one, see frames/refused-write - shared one message id).
		c14TwoWriters("conc-two-writers-chunks-2+2", 2, 2, q, th),
		c14TwoWriters("conc-two-writers-chunks-2+3", 2, 3, q, th),
	}
}

func TestVerifC14Conc(t *testing.T) {
	explore.Main(t, "C14", c14ConcScenarios())
}

// c14TwoWriters: see the comment in c14ConcScenarios. ccA/ccB are the chunk counts the two
// writers draw (crypto/rand owned per thread; pad draws and padding bytes zero).
func c14TwoWriters(name string, ccA, ccB int, q, th explore.Bounds) *explore.Scenario {
	return &explore.Scenario{Name: name, Quick: q, Thorough: th, Body: func(e *vsched.Exec) {
		out := vnet.NewPacketConn("out", 8)
		g := newGeckoPacketConn(out, geckoDefaultMinPacket, geckoDefaultMaxPacket)
		g.msgID.Store(254)
		dst := c14Addr("peer")
		pkts := [2][]byte{c14Content(41, 1, true), c14Content(23, 2, true)}
		ccOf := map[int]int{}  // thread id -> chunk count it draws
		drawn := map[int]int{} // thread id -> crypto/rand bytes drawn so far
		vrand.SetSource(e, func(e *vsched.Exec, tag string, bound int64) int64 {
			if tag != "crypto/rand.Read" || bound != 256 {
				return -1
			}
			id := e.Current().ID
			i := drawn[id]
			drawn[id]++
			if i == 3 { // low byte of the first 4-byte draw: the chunk count minus 2
				return int64(ccOf[id] - 2)
			}
			return 0
		})
		var wg vsync.WaitGroup
		for w, cc := range []int{ccA, ccB} {
			wg.Add(1)
			vsched.Go(func() {
				defer wg.Done()
				ccOf[e.Current().ID] = cc
				if n, err := g.WriteTo(pkts[w], dst); err != nil || n != len(pkts[w]) {
					e.Fail("writer %d: WriteTo(%d bytes) = %d, %v", w+1, len(pkts[w]), n, err)
				}
			})
		}
		wg.Wait()
		wire := append([]vnet.Packet(nil), out.Sent...)
		if err := g.Close(); err != nil {
			e.Fail("Close: %v", err)
		}
		if len(wire) != ccA+ccB {
			e.Logf("harness note: %d datagrams on the wire for chunk-count draws %d and %d", len(wire), ccA, ccB)
		}
		sig := ""
		for _, w := range wire {
			if rf, cl := c14ParseFrame(w.Data); cl == "" {
				sig += fmt.Sprintf(" %d/%d", rf.idx, rf.total)
			} else {
				e.Fail("emitted %s", cl)
			}
		}
		e.Logf("wire:%s", sig)
		rp := vnet.NewPacketConn("rplain", 9)
		rg := newGeckoPacketConn(rp, geckoDefaultMinPacket, geckoDefaultMaxPacket)
		buf := make([]byte, 4096)
		for k, what := range []string{"wire order", "reversed wire order"} {
			src := c14Addr("tw" + fmt.Sprint(k))
			for i := range wire {
				j := i
				if k == 1 {
					j = len(wire) - 1 - i
				}
				rp.Inject(wire[j].Data, src)
			}
			got, cl := c14Drain(rg, rp, []byte{0x00}, buf)
			if cl != "" {
				e.Fail("%s", cl)
			}
			seen := [2]bool{}
			for _, x := range got {
				hit := false
				for m := range pkts {
					if !seen[m] && x.src == src.String() && bytes.Equal(x.data, pkts[m]) {
						seen[m], hit = true, true
						break
					}
				}
				if !hit {
					e.Fail("two writers on one conn: receiver returned %d bytes %s which neither writer wrote (%s)", len(x.data), c14Hex(x.data), what)
				}
			}
			for m := range pkts {
				if !seen[m] {
					e.Fail("two writers on one conn: packet of writer %d was not delivered although its WriteTo succeeded (%s)", m+1, what)
				}
			}
		}
		if cl := c14Census(rg, geckoMaxPerSource, geckoMaxReassembly); cl != "" {
			e.Fail("receiver state: %s", cl)
		}
		if err := rg.Close(); err != nil {
			e.Fail("Close: %v", err)
		}
		e.WaitIdle()
	}}
}

var _ = fmt.Sprint
