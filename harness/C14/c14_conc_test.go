package obfs

// C14 unit "conc": schedule exploration of the real geckoPacketConn (Salamander bypassed: plain
// frames into a vnet conn): ReadFrom loop || gcLoop ticker (virtual clock) || Close || injector.

import (
	"bytes"
	"fmt"
	"testing"

	"verif.local/engine/explore"
	"verif.local/engine/vnet"
	"verif.local/engine/vsched"
	"verif.local/engine/vsync"
)

type c14Conc struct {
	e      *vsched.Exec
	in     *vnet.PacketConn
	g      *geckoPacketConn
	wg     vsync.WaitGroup
	legal  map[string][]byte // source -> the one complete message injected for it
	shorts map[string][]byte
	seen   map[string]int
	closed bool // Close has returned
	exits  int  // reader loops that returned
}

func c14NewConc(e *vsched.Exec) *c14Conc {
	in := vnet.NewPacketConn("in", 7)
	return &c14Conc{e: e, in: in, g: newGeckoPacketConn(in, geckoDefaultMinPacket, geckoDefaultMaxPacket),
		legal: map[string][]byte{}, shorts: map[string][]byte{}, seen: map[string]int{}}
}

func (d *c14Conc) spawn(f func()) {
	d.wg.Add(1)
	vsched.Go(func() { defer d.wg.Done(); f() })
}

// reader is a ReadFrom loop: every packet it gets must be a complete injected message (or an
// injected short-header packet) of that source, at most once; it ends on the first error, which
// must not come before Close was called.
func (d *c14Conc) reader(name string) {
	buf := make([]byte, 4096)
	for {
		n, addr, err := d.g.ReadFrom(buf)
		if err != nil {
			if !d.in.Closed() {
				d.e.Fail("%s: ReadFrom error %v before Close", name, err)
			}
			d.exits++
			d.e.Logf("%s: exit", name)
			return
		}
		src := "<nil>"
		if addr != nil {
			src = addr.String()
		}
		p := buf[:n]
		switch {
		case bytes.Equal(p, d.legal[src]):
			d.seen["L"+src]++
			if d.seen["L"+src] > 1 {
				d.e.Fail("%s: message of %s returned twice", name, src)
			}
		case bytes.Equal(p, d.shorts[src]):
			d.seen["S"+src]++
			if d.seen["S"+src] > 1 {
				d.e.Fail("%s: short-header packet of %s returned twice", name, src)
			}
		default:
			d.e.Fail("%s: ReadFrom returned %d bytes %s from %s which were not injected as a complete message", name, n, c14Hex(p), src)
		}
		d.e.Logf("%s: got %s from %s", name, c14Hex(p), src)
	}
}

func (d *c14Conc) msg(s uint16, id uint8, total int) [][]byte {
	src := c14SrcName(s)
	var fr [][]byte
	var cat []byte
	for i := 0; i < total; i++ {
		pl := c14ChunkBytes(c14Op{S: s, ID: id, Idx: uint8(i), Total: uint8(total)})
		cat = append(cat, pl...)
		fr = append(fr, c14Frame(id, uint8(i), uint8(total), i, pl))
	}
	d.legal[src] = cat
	return fr
}

// finish: everything the harness started has ended; wait for the gc goroutine to leave (it must,
// closeCh is closed), then the final-state oracle.
func (d *c14Conc) finish(readers int) {
	d.wg.Wait()
	d.e.WaitIdle()
	if d.exits != readers {
		d.e.Fail("%d of %d ReadFrom loops returned after Close", d.exits, readers)
	}
	if cl := c14Census(d.g, geckoMaxPerSource, geckoMaxReassembly); cl != "" {
		d.e.Fail("final state: %s", cl)
	}
	d.e.Logf("pending=%d", len(d.g.reassembly))
}

func c14ConcScenarios() []*explore.Scenario {
	q, th := explore.Bounds{P: 2}, explore.Bounds{P: 3}
	return []*explore.Scenario{
		// Close collides with a reader that is consuming a reordered, duplicated message, an
		// incomplete message of another source, a malformed frame and a short-header packet.
		{Name: "conc-read-close", Quick: q, Thorough: th, Body: func(e *vsched.Exec) {
			d := c14NewConc(e)
			a := d.msg(0, 1, 2)
			b := d.msg(1, 7, 3)
			delete(d.legal, c14Addr("B").String()) // B stays incomplete
			d.shorts[c14Addr("C").String()] = []byte{0x40, 0x01}
			d.spawn(func() { d.reader("r1") })
			d.spawn(func() {
				d.in.Inject(a[1], c14Addr("A"))
				d.in.Inject(b[0], c14Addr("B"))
				d.in.Inject(a[1], c14Addr("A"))
				d.in.Inject(c14BadFrames[3], c14Addr("A"))
				d.in.Inject(a[0], c14Addr("A"))
				d.in.Inject(d.shorts[c14Addr("C").String()], c14Addr("C"))
				d.in.Inject(b[2], c14Addr("B"))
			})
			d.spawn(func() {
				if err := d.g.Close(); err != nil {
					e.Fail("Close: %v", err)
				}
				d.closed = true
			})
			d.finish(1)
		}},
		// The ticker-driven sweep collides with the arrival of the last chunk around the deadline:
		// the message either completes (returned intact) or was forgotten (the late chunk starts a
		// new pending entry); the accounting stays exact either way; Close at 30 s ends everything.
		{Name: "conc-sweep-vs-completion", Quick: q, Thorough: th, Body: func(e *vsched.Exec) {
			d := c14NewConc(e)
			a := d.msg(0, 1, 2)
			b := d.msg(1, 2, 2)
			d.spawn(func() { d.reader("r1") })
			d.spawn(func() {
				d.in.Inject(a[0], c14Addr("A"))
				d.in.Inject(b[0], c14Addr("B"))
				e.Sleep(int64(geckoReassemblyTTL) + int64(geckoReassemblyTTL)/2) // 12 s: the sweep that forgets A/1 and B/2 is due
				d.in.Inject(a[1], c14Addr("A"))
				d.in.Inject(b[1], c14Addr("B"))
			})
			d.spawn(func() {
				e.Sleep(30e9)
				if err := d.g.Close(); err != nil {
					e.Fail("Close: %v", err)
				}
			})
			d.finish(1)
			// No "table empty at 30 s" clause here: within the preemption bound the explorer may
			// starve the gc goroutine from 24 s until Close (2 preemptions), which the property does
			// not forbid; the ticker-driven sweep is checked under the default schedule by the
			// table unit (configuration full-loop).
		}},
		// Two ReadFrom loops share the conn while frames of two sources arrive and Close lands.
		{Name: "conc-two-readers", Quick: explore.Bounds{P: 2}, Thorough: th, Body: func(e *vsched.Exec) {
			d := c14NewConc(e)
			a := d.msg(0, 255, 2)
			b := d.msg(1, 0, 2)
			d.spawn(func() { d.reader("r1") })
			d.spawn(func() { d.reader("r2") })
			d.spawn(func() {
				d.in.Inject(a[0], c14Addr("A"))
				d.in.Inject(b[1], c14Addr("B"))
				d.in.Inject(a[1], c14Addr("A"))
				d.in.Inject(b[0], c14Addr("B"))
				e.Sleep(int64(geckoReassemblyTTL / 2))
				if err := d.g.Close(); err != nil {
					e.Fail("Close: %v", err)
				}
			})
			d.finish(2)
		}},
	}
}

func TestVerifC14Conc(t *testing.T) {
	explore.Main(t, "C14", c14ConcScenarios())
}

var _ = fmt.Sprint
