package obfs

// C14 harness, shared helpers (injected by overlay into extras/obfs; the package is built with
// the "sched" rewrite, so time is virtual and crypto/rand draws are owned inside an execution).

import (
	"fmt"
	"net"
	"sort"
	"strings"
	"sync"
	"time"

	"verif.local/engine/evidence"
	"verif.local/engine/vnet"
	"verif.local/engine/vsched"
)

// c14SeqChooser is the fixed schedule of the sequential parts: a goroutine of the code under test
// (the gc loop) runs as soon as it can and until it blocks; otherwise the driving thread (thread
// 0) continues; virtual time advances only when every thread is blocked.
type c14SeqChooser struct{}

func (c14SeqChooser) Choose(c *vsched.Choice) int {
	if c.Kind != vsched.KSched {
		return 0
	}
	if c.Cur {
		if e := vsched.Cur(); e != nil && e.Current() != nil && e.Current().ID != 0 {
			return 0
		}
	}
	last := c.N - 1
	if c.Clk == last {
		last--
	}
	if last < 0 {
		return 0
	}
	return last
}

// c14Seq runs fn as a sequential case inside one controlled execution and returns "" or a
// clause describing a panic/deadlock of the code under test. horizonNS > 0 freezes the virtual
// clock (no ticker fires), which also keeps the scheduler from recording a choice per operation.
func c14Seq(horizonNS int64, fn func(e *vsched.Exec) string) (clause string) {
	o := vsched.Run(c14SeqChooser{}, vsched.Options{MaxSteps: 1 << 40, WallLimit: 30 * time.Minute, HorizonNS: horizonNS}, func() {
		clause = fn(vsched.Cur())
	})
	switch o.Kind {
	case "ok":
		return clause
	case "panic":
		return fmt.Sprintf("panic: %s at %s", o.Detail, evidence.PanicSite(o.Stack))
	default:
		return o.Kind + ": " + o.Detail
	}
}

// c14Addr is a cheap net.Addr whose String() is the source identity Gecko keys on.
//
// Sources are real *net.UDPAddr values that all share ONE IP address and differ in the port — two
// clients behind one NAT — because that is what the socket hands to Gecko and what a per-source
// key must tell apart (the first version used a string-typed net.Addr, which hid the independently
// seeded change C14-3: reassembly keyed by the IP alone). Labels map to ports in first-use order.
var (
	c14AddrMu    sync.Mutex
	c14AddrByLbl = map[string]*net.UDPAddr{}
)

func c14Addr(label string) *net.UDPAddr {
	c14AddrMu.Lock()
	defer c14AddrMu.Unlock()
	if a := c14AddrByLbl[label]; a != nil {
		return a
	}
	i := len(c14AddrByLbl)
	a := &net.UDPAddr{IP: net.IPv4(10, 14, byte(i/64000), 1), Port: 1024 + i%64000}
	c14AddrByLbl[label] = a
	return a
}

var c14Sentinel = c14Addr("sentinel")

// c14Frame encodes one Gecko fragment frame from the documented wire layout (written from the
// layout comment / property text, not by calling encodeFrame): 0x80, msgID, idx<<4|total,
// padLen (big endian), padLen padding bytes, payload.
func c14Frame(id, idx, total uint8, pad int, payload []byte) []byte {
	f := make([]byte, 5+pad+len(payload))
	f[0] = 0x80
	f[1] = id
	f[2] = idx<<4 | total&0x0f
	f[3] = byte(pad >> 8)
	f[4] = byte(pad)
	for i := 0; i < pad; i++ {
		f[5+i] = 0xEE
	}
	copy(f[5+pad:], payload)
	return f
}

// c14RefFrame is the reference decoder of one plain (de-obfuscated) frame.
type c14RefFrame struct {
	id, idx, total uint8
	pad            int
	payload        []byte
}

func c14ParseFrame(f []byte) (c14RefFrame, string) {
	if len(f) < 5 {
		return c14RefFrame{}, fmt.Sprintf("frame of %d bytes is shorter than the 5-byte header", len(f))
	}
	if f[0]&0x80 == 0 {
		return c14RefFrame{}, fmt.Sprintf("frame marker byte %#02x has the top bit clear", f[0])
	}
	r := c14RefFrame{id: f[1], idx: f[2] >> 4, total: f[2] & 0x0f, pad: int(f[3])<<8 | int(f[4])}
	if r.total < 2 || r.total > 8 || r.idx >= r.total {
		return r, fmt.Sprintf("frame header idx=%d total=%d outside idx<total, total in 2..8", r.idx, r.total)
	}
	if 5+r.pad > len(f) {
		return r, fmt.Sprintf("frame padLen %d overruns the %d-byte frame", r.pad, len(f))
	}
	r.payload = f[5+r.pad:]
	return r, ""
}

// c14Content is the deterministic packet pattern: neighbouring bytes and chunk boundaries differ,
// messages (seed) differ; the first byte carries the long/short header bit.
func c14Content(n, seed int, long bool) []byte {
	b := make([]byte, n)
	for i := range b {
		b[i] = byte(i*131 + i/251*17 + seed*29 + 7)
	}
	if n > 0 {
		if long {
			b[0] |= 0x80
		} else {
			b[0] &= 0x7f
		}
	}
	return b
}

// c14Got is one packet returned by ReadFrom.
type c14Got struct {
	src  string
	data []byte
}

// c14Drain injects the sentinel short-header packet and reads until it comes back, returning
// every packet ReadFrom handed out before it. The sentinel keeps ReadFrom from blocking, so a
// step is a bounded number of calls of the real ReadFrom -> decodeFrame -> acceptChunk path.
func c14Drain(g net.PacketConn, in *vnet.PacketConn, sentinel []byte, buf []byte) ([]c14Got, string) {
	in.Inject(sentinel, c14Sentinel)
	var got []c14Got
	for i := 0; i < 1<<20; i++ {
		n, addr, err := g.ReadFrom(buf)
		if err != nil {
			return got, "ReadFrom error: " + err.Error()
		}
		if addr != nil && addr.String() == c14Sentinel.String() {
			if n != 1 || buf[0] != 0x00 {
				return got, fmt.Sprintf("sentinel short-header packet came back changed (%d bytes)", n)
			}
			return got, ""
		}
		src := "<nil>"
		if addr != nil {
			src = addr.String()
		}
		got = append(got, c14Got{src, append([]byte(nil), buf[:n]...)})
	}
	return got, "ReadFrom did not reach the sentinel"
}

// c14Census checks the accounting invariants on the private maps: perSource[a] == number of
// table entries of source a for every a (and no key without entries), table <= capAll, every
// source <= capSrc. Called from the driving thread while no other thread holds g.mu.
func c14Census(g *geckoPacketConn, capSrc, capAll int) string {
	census := map[string]int{}
	for k := range g.reassembly {
		census[k.addr]++
	}
	if len(g.reassembly) > capAll {
		return fmt.Sprintf("table holds %d pending messages, cap %d", len(g.reassembly), capAll)
	}
	var srcs []string
	for a := range census {
		srcs = append(srcs, a)
	}
	for a := range g.perSource {
		if _, ok := census[a]; !ok {
			srcs = append(srcs, a)
		}
	}
	sort.Strings(srcs)
	for _, a := range srcs {
		n, has := g.perSource[a]
		if n != census[a] {
			return fmt.Sprintf("perSource[%s]=%d but the table holds %d entries of that source", a, n, census[a])
		}
		if has && census[a] == 0 {
			return fmt.Sprintf("perSource keeps a key for %s which has no pending message", a)
		}
		if census[a] > capSrc {
			return fmt.Sprintf("source %s has %d pending messages, cap %d", a, census[a], capSrc)
		}
	}
	return ""
}

func c14Hex(b []byte) string {
	const d = "0123456789abcdef"
	var sb strings.Builder
	for _, c := range b {
		sb.WriteByte(d[c>>4])
		sb.WriteByte(d[c&15])
	}
	return sb.String()
}
