package obfs

// C14 unit "table": explicit-state search of the real reassembly table (built with
// geckoMaxPerSource=2, geckoMaxReassembly=3 through the overlay; TTL kept) against a reference
// table written from the property text. Salamander is bypassed: plain frames are injected into
// the vnet conn under a real geckoPacketConn and read back through the real ReadFrom.

import (
	"bytes"
	"encoding/json"
	"fmt"
	"net"
	"runtime"
	"runtime/debug"
	"sort"
	"strconv"
	"strings"
	"testing"
	"time"

	"verif.local/engine/evidence"
	"verif.local/engine/vnet"
	"verif.local/engine/vsched"
	"verif.local/engine/vtime"
	"verif.local/engine/xstate"
)

// c14Op is one operation of the table alphabet. It is pointer-free on purpose (the BFS frontier
// holds millions of them): the source is an index, see c14SrcName.
type c14Op struct {
	Kind  uint8  `json:"k"` // c14Chunk | c14Bad | c14Short | c14Tick | c14ReadErr
	S     uint16 `json:"s,omitempty"`
	ID    uint8  `json:"id,omitempty"`
	Idx   uint8  `json:"i,omitempty"`
	Total uint8  `json:"t,omitempty"`
	Bad   uint8  `json:"b,omitempty"`
}

const (
	c14Chunk uint8 = iota
	c14Bad
	c14Short
	c14Tick
	// c14ReadErr: a recoverable read error followed by continued use of the conn - the read
	// deadline (set through the wrapper) has passed while nothing is queued, ReadFrom times out,
	// the deadline is cleared again. QUIC's transport does this all the time; the table, the caps
	// and the TTL sweep must be what they were. Added after the independently seeded change C14-11
	// (any error of the inner ReadFrom stopped the gc goroutine, so nothing was forgotten any more).
	c14ReadErr
)

var c14SrcNames = func() []string {
	n := []string{c14Addr("A").String(), c14Addr("B").String()}
	for i := 0; i < 520; i++ {
		n = append(n, c14Addr(fmt.Sprintf("s%03d", i)).String())
	}
	return n
}()

// c14SrcName: the ip:port of source 0 ("A"), 1 ("B"), 2+i ("s<i>", the sources of the directed real-caps run).
func c14SrcName(s uint16) string { return c14SrcNames[s] }

func (o c14Op) Src() string { return c14SrcName(o.S) }

func c14SrcAddr(s uint16) *net.UDPAddr {
	switch s {
	case 0:
		return c14Addr("A")
	case 1:
		return c14Addr("B")
	}
	return c14Addr(fmt.Sprintf("s%03d", int(s)-2))
}

func (o c14Op) String() string {
	switch o.Kind {
	case c14Chunk:
		return fmt.Sprintf("%s/%d[%d of %d]", o.Src(), o.ID, o.Idx, o.Total)
	case c14Bad:
		return fmt.Sprintf("bad%d", o.Bad)
	case c14Short:
		return "short"
	case c14ReadErr:
		return "timeout"
	}
	return "tick"
}

// payload of a chunk: a function of everything that identifies it, so any mix-up shows
func c14ChunkBytes(o c14Op) []byte {
	return []byte{byte(0x41 + o.S%26), byte(o.S/26) ^ (0x30 + o.ID), 0x40 + o.Total, 0x50 + o.Idx}[:2+int(o.Idx)%3]
}

var c14BadFrames = [][]byte{
	{0x80, 0x01, 0x20},                   // truncated header
	{0x80, 0x01, 0x01, 0x00, 0x00, 0xaa}, // total 1
	{0x80, 0x01, 0x09, 0x00, 0x00, 0xaa}, // total 9
	{0x80, 0x01, 0x22, 0x00, 0x00, 0xaa}, // idx == total
	{0x80, 0x01, 0x02, 0xff, 0xff, 0xaa}, // padLen overruns the frame
}

type c14TableCfg struct {
	Name     string   `json:"name"`
	Srcs     []uint16 `json:"sources"`
	IDs      []uint8  `json:"ids"`
	Totals   []uint8  `json:"totals"`
	Tick     string   `json:"tick"` // direct: +4s then gcExpired(now) | loop: +4s, the real gcLoop ticker sweeps
	DepthQ   int      `json:"depth_quick"`
	DepthT   int      `json:"depth_thorough"`
	BadKinds []int    `json:"bad"`
	ReadErr  bool     `json:"read_timeout,omitempty"` // alphabet includes c14ReadErr (the configurations whose sweep is the real gcLoop)
}

// Depth bounds: 16 is "until the state space closes" (the scaled table has finitely many states;
// BFS stops when a level adds no new state) or the deadline, whichever comes first.
var c14TableCfgs = []c14TableCfg{
	{Name: "full-direct", Srcs: []uint16{0, 1}, IDs: []uint8{1, 2, 3}, Totals: []uint8{2, 3}, Tick: "direct", DepthQ: 5, DepthT: 16, BadKinds: []int{3}},
	{Name: "full-loop", Srcs: []uint16{0, 1}, IDs: []uint8{1, 2, 3}, Totals: []uint8{2, 3}, Tick: "loop", DepthQ: 5, DepthT: 16, BadKinds: []int{3}, ReadErr: true},
	{Name: "ids12-direct", Srcs: []uint16{0, 1}, IDs: []uint8{1, 2}, Totals: []uint8{2, 3}, Tick: "direct", DepthQ: 6, DepthT: 16, BadKinds: []int{4}},
	{Name: "total3-direct", Srcs: []uint16{0, 1}, IDs: []uint8{1, 2}, Totals: []uint8{3}, Tick: "direct", DepthQ: 16, DepthT: 16, BadKinds: []int{0}},
	{Name: "total2-direct", Srcs: []uint16{0, 1}, IDs: []uint8{1, 2, 3}, Totals: []uint8{2}, Tick: "direct", DepthQ: 16, DepthT: 16, BadKinds: []int{0, 1, 2, 3, 4}},
	{Name: "total2-loop", Srcs: []uint16{0, 1}, IDs: []uint8{1, 2, 3}, Totals: []uint8{2}, Tick: "loop", DepthQ: 16, DepthT: 16, BadKinds: []int{3}, ReadErr: true},
}

func (c *c14TableCfg) ops() []c14Op {
	var ops []c14Op
	for _, s := range c.Srcs {
		for _, id := range c.IDs {
			for _, t := range c.Totals {
				for i := uint8(0); i < t; i++ {
					ops = append(ops, c14Op{Kind: c14Chunk, S: s, ID: id, Idx: i, Total: t})
				}
			}
		}
	}
	for _, b := range c.BadKinds {
		ops = append(ops, c14Op{Kind: c14Bad, Bad: uint8(b)})
	}
	ops = append(ops, c14Op{Kind: c14Short}, c14Op{Kind: c14Tick})
	if c.ReadErr {
		ops = append(ops, c14Op{Kind: c14ReadErr})
	}
	return ops
}

// ---- reference table (property text: keyed by (source, message id); chunk sets; deadlines;
// refuse a new message of a source at its cap; at the global cap evict an oldest entry; forget
// an incomplete message at the first sweep after its deadline)

type c14RefKey struct {
	src string
	id  uint8
}

type c14RefEntry struct {
	total    int
	chunks   map[int][]byte
	deadline int64 // virtual ns
}

type c14Ref struct {
	tab            map[c14RefKey]*c14RefEntry
	capSrc, capAll int
	ttl            int64
}

func (r *c14Ref) count(src string) int {
	n := 0
	for k := range r.tab {
		if k.src == src {
			n++
		}
	}
	return n
}

// c14Buf is the ReadFrom buffer of the sequential units (one execution at a time per process).
var c14Buf [4096]byte

// c14World is one real object + reference inside an execution.
type c14World struct {
	e   *vsched.Exec
	cfg *c14TableCfg
	in  *vnet.PacketConn
	g   *geckoPacketConn
	ref *c14Ref
	buf []byte
}

func c14NewWorld(e *vsched.Exec, cfg *c14TableCfg) *c14World {
	in := vnet.NewPacketConn("in", 7)
	g := newGeckoPacketConn(in, geckoDefaultMinPacket, geckoDefaultMaxPacket)
	return &c14World{e: e, cfg: cfg, in: in, g: g, buf: c14Buf[:],
		ref: &c14Ref{tab: map[c14RefKey]*c14RefEntry{}, capSrc: geckoMaxPerSource, capAll: geckoMaxReassembly, ttl: int64(geckoReassemblyTTL)}}
}

// step applies one operation to the real object and the reference and compares.
func (w *c14World) step(op c14Op) string {
	now := w.e.Now()
	ref := w.ref
	var expect []c14Got
	var evictCands []c14RefKey
	var created *c14RefKey
	switch op.Kind {
	case c14Chunk:
		payload := c14ChunkBytes(op)
		key := c14RefKey{op.Src(), op.ID}
		en := ref.tab[key]
		accept := true
		if en == nil {
			if ref.count(op.Src()) >= ref.capSrc {
				accept = false
			} else {
				if len(ref.tab) >= ref.capAll {
					oldest := int64(1<<62 - 1)
					for _, x := range ref.tab {
						if x.deadline < oldest {
							oldest = x.deadline
						}
					}
					for k, x := range ref.tab {
						if x.deadline == oldest {
							evictCands = append(evictCands, k)
						}
					}
				}
				en = &c14RefEntry{total: int(op.Total), chunks: map[int][]byte{}, deadline: now + ref.ttl}
				ref.tab[key] = en
				created = &key
			}
		} else if en.total != int(op.Total) {
			accept = false
		}
		if accept {
			if _, dup := en.chunks[int(op.Idx)]; !dup {
				en.chunks[int(op.Idx)] = payload
				if len(en.chunks) == en.total {
					var cat []byte
					for i := 0; i < en.total; i++ {
						cat = append(cat, en.chunks[i]...)
					}
					expect = append(expect, c14Got{op.Src(), cat})
					delete(ref.tab, key)
				}
			}
		}
		w.in.Inject(c14Frame(op.ID, op.Idx, op.Total, int(op.Idx)*3, payload), c14SrcAddr(op.S))
	case c14Bad:
		w.in.Inject(c14BadFrames[op.Bad], c14SrcAddr(op.S))
	case c14Short:
		p := []byte{0x41, 0x42, 0x43}
		expect = append(expect, c14Got{op.Src(), p})
		w.in.Inject(p, c14SrcAddr(op.S))
	case c14Tick:
		w.e.Sleep(int64(geckoReassemblyTTL / 2))
		if w.cfg.Tick == "direct" {
			w.g.gcExpired(vtime.Now())
		} else {
			w.e.Sleep(1) // lets the real gcLoop take the tick that is due now
		}
		now = w.e.Now()
	case c14ReadErr:
		// the inbox is empty (every step drains it), so a read whose deadline is "now" times out;
		// the drain below then shows that the conn is still in use and nothing changed
		w.g.SetReadDeadline(vtime.Now())
		n, addr, err := w.g.ReadFrom(w.buf)
		w.g.SetReadDeadline(time.Time{})
		if err == nil {
			return fmt.Sprintf("ReadFrom returned a packet (%d bytes from %v) although nothing arrived before the read deadline", n, addr)
		}
	}
	if op.Kind != c14Tick {
		got, cl := c14Drain(w.g, w.in, []byte{0x00}, w.buf)
		if cl != "" {
			return cl
		}
		if len(got) != len(expect) {
			if len(expect) == 0 {
				return fmt.Sprintf("ReadFrom returned a packet (%d bytes from %s) although no message is complete", len(got[0].data), got[0].src)
			}
			return fmt.Sprintf("ReadFrom returned %d packets, expected the completed message of %s", len(got), expect[0].src)
		}
		for i := range got {
			if got[i].src != expect[i].src {
				return fmt.Sprintf("packet attributed to %s, expected %s", got[i].src, expect[i].src)
			}
			if !bytes.Equal(got[i].data, expect[i].data) {
				return fmt.Sprintf("returned packet %s is not the concatenation %s of the chunks of one message", c14Hex(got[i].data), c14Hex(expect[i].data))
			}
		}
	}
	return w.compare(op, now, evictCands, created)
}

// compare checks the private table against the reference after a step and resolves the
// nondeterminism the property leaves open (which minimal-deadline entry is evicted; whether an
// entry whose deadline equals the sweep time goes; how late the ticker-driven sweep is).
func (w *c14World) compare(op c14Op, now int64, evictCands []c14RefKey, created *c14RefKey) string {
	g, ref := w.g, w.ref
	if cl := c14Census(g, ref.capSrc, ref.capAll); cl != "" {
		return cl
	}
	realHas := func(k c14RefKey) bool {
		_, ok := g.reassembly[reassemblyKey{addr: k.src, msgID: k.id}]
		return ok
	}
	if len(evictCands) > 0 {
		var gone []c14RefKey
		for _, k := range evictCands {
			if !realHas(k) {
				gone = append(gone, k)
			}
		}
		if len(gone) != 1 {
			return fmt.Sprintf("table full: %d of the %d oldest entries were evicted for the new message (expected exactly one)", len(gone), len(evictCands))
		}
		delete(ref.tab, gone[0])
	}
	if op.Kind == c14Tick {
		period := int64(geckoReassemblyTTL / 2)
		for k, en := range ref.tab {
			has := realHas(k)
			switch {
			case en.deadline > now || (en.deadline == now && w.cfg.Tick == "loop"):
				if !has {
					return fmt.Sprintf("message %s/%d forgotten %v before its deadline", k.src, k.id, time.Duration(en.deadline-now))
				}
			case en.deadline == now:
				if !has {
					delete(ref.tab, k)
				}
			case w.cfg.Tick == "direct" || en.deadline < now-period:
				if has {
					return fmt.Sprintf("incomplete message %s/%d still pending %v after its deadline although a sweep ran", k.src, k.id, time.Duration(now-en.deadline))
				}
				delete(ref.tab, k)
			default: // ticker-driven sweep: within one period after the deadline either is fine
				if !has {
					delete(ref.tab, k)
				}
			}
		}
	}
	if len(g.reassembly) != len(ref.tab) {
		if created != nil && !realHas(*created) && ref.tab[*created] != nil {
			return fmt.Sprintf("chunk of a new message %s/%d refused although the source has %d of %d pending messages (source locked out)", created.src, created.id, ref.count(created.src)-1, ref.capSrc)
		}
		return fmt.Sprintf("table holds %d pending messages, reference %d", len(g.reassembly), len(ref.tab))
	}
	for k, en := range ref.tab {
		re, ok := g.reassembly[reassemblyKey{addr: k.src, msgID: k.id}]
		if !ok {
			if created != nil && *created == k {
				return fmt.Sprintf("chunk of a new message %s/%d refused although the source has %d of %d pending messages (source locked out)", k.src, k.id, ref.count(k.src)-1, ref.capSrc)
			}
			return fmt.Sprintf("pending message %s/%d missing from the table", k.src, k.id)
		}
		// (chunks received so far are counted from the slots: the entry's own counter, however it is
		// kept, is private bookkeeping the completion behaviour below already judges)
		reReceived := 0
		for _, c := range re.chunks {
			if c != nil {
				reReceived++
			}
		}
		if int(re.total) != en.total || len(re.chunks) != en.total || reReceived != len(en.chunks) {
			return fmt.Sprintf("message %s/%d: table says total=%d received=%d, reference total=%d received=%d", k.src, k.id, re.total, reReceived, en.total, len(en.chunks))
		}
		for i := 0; i < en.total; i++ {
			want, has := en.chunks[i]
			if has != (re.chunks[i] != nil) || !bytes.Equal(re.chunks[i], want) {
				return fmt.Sprintf("message %s/%d chunk %d: table holds %q, reference %q", k.src, k.id, i, re.chunks[i], want)
			}
		}
		if d := int64(re.deadline.Sub(vtime.Epoch)); d != en.deadline {
			return fmt.Sprintf("message %s/%d: deadline %v after creation, expected creation + TTL %v", k.src, k.id, time.Duration(d-(en.deadline-ref.ttl)), time.Duration(ref.ttl))
		}
	}
	return ""
}

// key is the canonical state: every table entry with total, chunk bytes per slot and remaining
// time to its deadline, plus the perSource map. Two states with equal keys behave identically
// afterwards: acceptChunk/gcExpired/evictOldest read nothing else (msgID counter, readBuf and the
// ticker phase - always aligned to the tick operations - are not part of the receive path state).
// The census of the conn's own background threads (the gc loop: one, blocked on its ticker) is
// part of the key as well: a state whose sweeper has gone has other futures than one with the
// same table and a live sweeper, and must not be merged into it (added after the independently
// seeded change C14-11, any error of the inner ReadFrom stopped the gc goroutine: the state after
// the timed-out read had the key of the state before it and was never expanded).
func (w *c14World) key() (string, string) {
	now := w.e.Now()
	var parts []string
	for k, en := range w.g.reassembly {
		b := make([]byte, 0, 64)
		b = append(b, k.addr...)
		b = append(b, '/')
		b = strconv.AppendInt(b, int64(k.msgID), 10)
		b = append(b, ":t"...)
		b = strconv.AppendInt(b, int64(en.total), 10)
		b = append(b, ":d"...)
		b = strconv.AppendInt(b, int64(en.deadline.Sub(vtime.Epoch))-now, 10)
		b = append(b, ':')
		for _, c := range en.chunks {
			if c == nil {
				b = append(b, '-')
			} else {
				b = append(b, c14Hex(c)...)
			}
			b = append(b, ',')
		}
		parts = append(parts, string(b))
	}
	sort.Strings(parts)
	var ps []string
	for a, n := range w.g.perSource {
		ps = append(ps, a+"="+strconv.Itoa(n))
	}
	sort.Strings(ps)
	var rp []string
	for k, en := range w.ref.tab {
		b := make([]byte, 0, 48)
		b = append(b, k.src...)
		b = append(b, '/')
		b = strconv.AppendInt(b, int64(k.id), 10)
		b = append(b, ":t"...)
		b = strconv.AppendInt(b, int64(en.total), 10)
		b = append(b, ':')
		for i := 0; i < en.total; i++ {
			if _, ok := en.chunks[i]; ok {
				b = append(b, byte('0'+i))
			}
		}
		b = append(b, ":d"...)
		b = strconv.AppendInt(b, en.deadline-now, 10)
		rp = append(rp, string(b))
	}
	sort.Strings(rp)
	return strings.Join(parts, " ") + " | " + strings.Join(ps, ",") + " | bg=" + strconv.Itoa(len(w.e.Alive())), strings.Join(rp, " ")
}

// c14RunHistory executes a whole history on a fresh real object inside one execution.
func c14RunHistory(cfg *c14TableCfg, hist []c14Op) (clause string, failAt int, key, refKey string) {
	failAt = -1
	cl := c14Seq(0, func(e *vsched.Exec) string {
		w := c14NewWorld(e, cfg)
		defer w.g.Close()
		for i, op := range hist {
			if c := w.step(op); c != "" {
				failAt = i
				return c
			}
		}
		key, refKey = w.key()
		return ""
	})
	return cl, failAt, key, refKey
}

// c14TableSys adapts "one execution per history" to xstate's fresh-object-plus-replay scheme:
// replayed prefix operations are only recorded; the whole history runs (oracle after every
// step) when BFS applies the new operation - signalled by its Enabled callback - or asks for
// the key.
type c14TableSys struct {
	cfg    *c14TableCfg
	hist   []c14Op
	armed  bool
	done   bool
	key    string
	refKey string
}

func (s *c14TableSys) run() error {
	cl, at, k, rk := c14RunHistory(s.cfg, s.hist)
	s.done, s.key, s.refKey = true, k, rk
	if cl != "" {
		return fmt.Errorf("step %d (%v): %s", at+1, s.hist[max(at, 0)], cl)
	}
	return nil
}

func (s *c14TableSys) Apply(op c14Op) error {
	s.hist = append(s.hist, op)
	s.done = false
	if s.armed {
		s.armed = false
		return s.run()
	}
	return nil
}

func (s *c14TableSys) Key() string {
	if !s.done {
		if err := s.run(); err != nil {
			return "!" + err.Error()
		}
	}
	return s.key
}

type c14TableReplay struct {
	Cfg     string  `json:"cfg"`
	History []c14Op `json:"history"`
}

func c14ClauseHead(clause string) string {
	for i, r := range clause {
		if r >= '0' && r <= '9' {
			clause = clause[:i]
			break
		}
	}
	if len(clause) > 80 {
		clause = clause[:80]
	}
	return clause
}

func c14TableEnumerate(sh *evidence.Shard) {
	env := sh.Env()
	_ = debug.SetGCPercent
	runtime.MemProfileRate = 0
	for i := range c14TableCfgs {
		cfg := &c14TableCfgs[i]
		if !env.Mine(int64(i)) {
			continue
		}
		p := sh.Part("table-"+cfg.Name, "xstate")
		depth := cfg.DepthQ
		if env.Thorough() {
			depth = cfg.DepthT
		}
		ops := cfg.ops()
		var names []string
		for _, o := range ops {
			names = append(names, o.String())
		}
		alphabet := map[string]any{"operations": names, "tick": cfg.Tick + " (virtual +4s = TTL/2)", "caps(scaled by overlay)": map[string]int{"per_source": geckoMaxPerSource, "overall": geckoMaxReassembly}, "ttl": geckoReassemblyTTL.String()}
		if cfg.ReadErr {
			alphabet["timeout"] = "recoverable read error: read deadline passed on an empty socket, ReadFrom fails, deadline cleared, conn used on"
		}
		p.Alphabet = alphabet
		p.Bounds = map[string]any{"max_depth": depth}
		res := xstate.BFS(xstate.Config[c14Op]{
			Ops:      ops,
			New:      func() xstate.Sys[c14Op] { return &c14TableSys{cfg: cfg} },
			MaxDepth: depth,
			Enabled:  func(s xstate.Sys[c14Op], op c14Op) bool { s.(*c14TableSys).armed = true; return true },
			Probe:    func(s xstate.Sys[c14Op]) string { return s.(*c14TableSys).refKey },
		}, p, env)
		p.Count("depth_completed", int64(res.Depth))
		if res.Violation == nil && p.Exhaustive && res.Depth < depth {
			p.Note("state space closed: no new state at depth %d, every reachable state of this configuration was expanded (%d states)", res.Depth, res.States)
		}
		p.Class(cfg.Name, res.Depth, res.States)
		if res.Violation != nil {
			msg := res.Violation.Error()
			clause := msg
			if j := strings.Index(msg, "): "); j >= 0 {
				clause = msg[j+3:]
			}
			sh.Violate(p.Name, fmt.Sprintf("table/%s/%s/%v", cfg.Name, c14ClauseHead(clause), res.History), msg, c14TableReplay{cfg.Name, res.History})
		}
	}
}

func TestVerifC14Table(t *testing.T) {
	evidence.Main(t, "C14", evidence.Seq{
		Run: c14TableEnumerate,
		Replay: func(part string, raw json.RawMessage) (bool, bool, string) {
			if !strings.HasPrefix(part, "table-") {
				return false, false, ""
			}
			var r c14TableReplay
			if err := json.Unmarshal(raw, &r); err != nil {
				return true, false, err.Error()
			}
			for i := range c14TableCfgs {
				if c14TableCfgs[i].Name == r.Cfg {
					cl, at, _, _ := c14RunHistory(&c14TableCfgs[i], r.History)
					return true, cl != "", fmt.Sprintf("step %d: %s", at+1, cl)
				}
			}
			return true, false, "unknown configuration " + r.Cfg
		},
	})
}
