package obfs

// C14 unit "realcaps": one directed history at the real caps (8 per source, 4096 overall =
// 512 sources x 8), no constant scaling, same step oracle as the table search (reference table,
// perSource census, bounds, eviction of an oldest entry, expiry), Salamander bypassed.

import (
	"encoding/json"
	"fmt"
	"testing"

	"verif.local/engine/evidence"
	"verif.local/engine/vsched"
)

func c14RealCapsRun(steps *int64) string {
	cfg := &c14TableCfg{Name: "realcaps", Tick: "direct"}
	return c14Seq(0, func(e *vsched.Exec) string {
		if geckoMaxPerSource != 8 || geckoMaxReassembly != 4096 {
			return fmt.Sprintf("harness: realcaps unit built with scaled caps %d/%d", geckoMaxPerSource, geckoMaxReassembly)
		}
		w := c14NewWorld(e, cfg)
		defer w.g.Close()
		n := 0
		do := func(op c14Op) string {
			n++
			*steps++
			if cl := w.step(op); cl != "" {
				return fmt.Sprintf("step %d (%v): %s", n, op, cl)
			}
			return ""
		}
		src := func(i int) uint16 { return uint16(2 + i) }
		chunk := func(s uint16, id, idx uint8) c14Op { return c14Op{Kind: c14Chunk, S: s, ID: id, Idx: idx, Total: 2} }
		size := func(want int, what string) string {
			if len(w.g.reassembly) != want {
				return fmt.Sprintf("%s: table holds %d pending messages, expected %d", what, len(w.g.reassembly), want)
			}
			return ""
		}
		// 512 sources x 8 messages, 1 ms apart per source; one tick (+4 s) after the first 256
		// sources so that the two halves expire at different sweeps
		nsrc := geckoMaxReassembly / geckoMaxPerSource
		for s := 0; s < nsrc; s++ {
			if s == nsrc/2 {
				if cl := do(c14Op{Kind: c14Tick}); cl != "" {
					return cl
				}
			}
			for id := 0; id < geckoMaxPerSource; id++ {
				if cl := do(chunk(src(s), uint8(id), 0)); cl != "" {
					return cl
				}
			}
			if w.g.perSource[c14SrcName(src(s))] != geckoMaxPerSource {
				return fmt.Sprintf("perSource[%s]=%d after %d messages", c14SrcName(src(s)), w.g.perSource[c14SrcName(src(s))], geckoMaxPerSource)
			}
			e.Sleep(1e6)
		}
		if cl := size(geckoMaxReassembly, "after filling 512 sources x 8"); cl != "" {
			return cl
		}
		script := []c14Op{
			chunk(src(0), 8, 0), chunk(src(300), 200, 1), chunk(src(511), 255, 0), // 9th message of a full source: refused
			chunk(src(512), 0, 0), // new source at the global cap: one of source 0's (oldest) entries is evicted
			chunk(src(0), 8, 0),   // source 0 is below its cap again: served (evicting another oldest entry)
			chunk(src(5), 3, 1),   // completes s005/3
			chunk(src(5), 9, 0),   // s005 served again, no eviction needed
			chunk(src(7), 2, 0),   // duplicate chunk
			{Kind: c14Chunk, S: src(7), ID: 2, Idx: 1, Total: 3}, // other total for a pending id: dropped
			{Kind: c14Bad, S: src(9), Bad: 0}, {Kind: c14Bad, S: src(9), Bad: 3}, {Kind: c14Bad, S: src(9), Bad: 4},
			{Kind: c14Short, S: src(9)},
			chunk(src(513), 1, 1), chunk(src(514), 1, 1), // two more evictions
			{Kind: c14Tick},                            // 8.5 s: the first 256 sources are forgotten, the second half stays
			chunk(src(0), 0, 0), chunk(src(100), 0, 0), // formerly full sources are served again
			chunk(src(511), 8, 0),                        // s511 still has 8 pending: refused
			chunk(src(300), 0, 1),                        // completes s300/0 half-way through its TTL
			{Kind: c14Tick},                              // 12.5 s: the second half is forgotten
			chunk(src(511), 8, 0), chunk(src(511), 8, 1), // served and completed
			{Kind: c14Tick}, {Kind: c14Tick}, {Kind: c14Tick},
		}
		for _, op := range script {
			if cl := do(op); cl != "" {
				return cl
			}
		}
		if cl := size(0, "after every deadline has passed"); cl != "" {
			return cl
		}
		if len(w.g.perSource) != 0 {
			return fmt.Sprintf("perSource keeps %d keys with an empty table", len(w.g.perSource))
		}
		return ""
	})
}

func TestVerifC14RealCaps(t *testing.T) {
	evidence.Main(t, "C14", evidence.Seq{
		Run: func(sh *evidence.Shard) {
			if !sh.Env().Mine(0) {
				return
			}
			p := sh.Part("realcaps-directed", "enum")
			p.Alphabet = map[string]any{"history": "512 sources x 8 first chunks (1 ms apart per source), refused 9th messages, global-cap evictions, completion, duplicate, total mismatch, malformed frames, ticks at +4 s until everything is forgotten, re-serving of formerly full sources", "caps": map[string]int{"per_source": geckoMaxPerSource, "overall": geckoMaxReassembly}}
			var steps int64
			clause := c14RealCapsRun(&steps)
			p.Evaluations = steps
			p.Class("realcaps", clause == "")
			p.Sample(map[string]any{"steps": steps})
			if clause != "" {
				sig := clause[max(0, c14IndexAfter(clause, "): ")):] // the run is one fixed history: the clause itself is stable
				if len(sig) > 140 {
					sig = sig[:140]
				}
				sh.Violate(p.Name, "realcaps/"+sig, clause, map[string]any{"directed": true})
			}
		},
		Replay: func(part string, raw json.RawMessage) (bool, bool, string) {
			if part != "realcaps-directed" {
				return false, false, ""
			}
			var steps int64
			clause := c14RealCapsRun(&steps)
			return true, clause != "", clause
		},
	})
}

func c14IndexAfter(s, sep string) int {
	for i := 0; i+len(sep) <= len(s); i++ {
		if s[i:i+len(sep)] == sep {
			return i + len(sep)
		}
	}
	return 0
}
