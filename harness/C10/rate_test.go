package server

// C10 harness: negotiated send rate never exceeds either side's declared limit. The REAL
// server handshake (ServeHTTP) and the REAL client handshake (client.NewClient -> connect) are
// joined by the fake QUIC/HTTP3 layer; one execution (default schedule) per configuration.

import (
	"encoding/json"
	"fmt"
	"math"
	"net"
	"net/http"
	"reflect"
	"strconv"
	"strings"
	"testing"
	"time"

	"github.com/apernet/hysteria/core/v2/client"
	"github.com/apernet/hysteria/core/v2/internal/protocol"
	"github.com/apernet/quic-go/congestion"
	"github.com/apernet/quic-go/monotime"
	"verif.local/engine/evidence"
	"verif.local/engine/vnet"
	"verif.local/engine/vpriv"
	"verif.local/engine/vquic"
	vh3 "verif.local/engine/vquic/http3"
	"verif.local/engine/vsched"
)

type c10Case struct {
	Kind     string `json:"kind"` // grid | server-header | client-header
	CTx, CRx uint64 `json:"ctx,omitempty"`
	STx, SRx uint64 `json:"stx,omitempty"`
	Ignore   bool   `json:"ignore,omitempty"`
	CC       string `json:"cc"`            // "reno" or "bbr:<profile>"
	Hdr      string `json:"hdr,omitempty"` // header string for the *-header kinds ("<missing>" = absent)
	// NoUDP: the server runs with DisableUDP (a neighbouring option that changes what the auth
	// handler does after answering; added after the independently seeded change C10-6: the sender
	// was installed behind the early return of that option)
	NoUDP bool `json:"server_disable_udp,omitempty"`
	// kind "reuse": the SAME *client.Config is used for two handshakes; between them the server's
	// receive limit / ignore flag change to SRx2 / Ignore2 (a reconnect to a reconfigured server, or
	// a library user connecting to two servers with one Config). Added after the independently
	// seeded change C10-7: the client wrote the negotiated value back into the caller's Config.
	SRx2    uint64 `json:"srx2,omitempty"`
	Ignore2 bool   `json:"ignore2,omitempty"`
	// kind "wire": after the handshake the controller INSTALLED on each side's connection is driven
	// through quic-go's send contract for WireMs milliseconds of virtual monotime by a backlogged
	// sender that is also receiving: every AckEveryMs an ACK-only packet of AckSize bytes goes out
	// whatever the pacing budget says (AckSize 0 = a one-directional transfer). Added after the
	// independently seeded change C10-11 (ACK-only packets were no longer charged to the bucket).
	AckSize    int `json:"ack_only_size,omitempty"`
	AckEveryMs int `json:"ack_only_every_ms,omitempty"`
	WireMs     int `json:"wire_ms,omitempty"`
	// kind "spelling": a grid handshake in which CongestionConfig.Type / BBRProfile are given to the
	// REAL config fill functions (client verifyAndFill via NewClient, server fill via NewServer) in the
	// spelling a library user typed - both are accepted case-insensitively, "" is the default - and
	// independently on the two sides; CC is unused, what each side must run is the canonical reading
	// of its own spelling (c10Canon). Added after the independently seeded change C10-12 (the
	// normalized type was written back only in the BBR branch, so "Reno"/"RENO" validated but ran BBR).
	CType string `json:"client_cc_type,omitempty"`
	CProf string `json:"client_bbr_profile,omitempty"`
	SType string `json:"server_cc_type,omitempty"`
	SProf string `json:"server_bbr_profile,omitempty"`
}

var (
	c10ClientVals = []uint64{0, 1, 65535, 65536, 65537, 1000000000, 1 << 63, math.MaxUint64}
	c10ServerVals = []uint64{0, 65536, 65537, 1000000000, math.MaxUint64}
	c10CCs        = []string{"bbr:conservative", "bbr:standard", "bbr:aggressive", "reno"}
	// every spelling is judged by strconv.ParseUint(s, 10, 64), which is what "a decimal number" means:
	// leading zeros are decimal, prefixes and underscores are not numbers (spellings added after the
	// independently seeded change C10-8: the header was parsed with base 0)
	c10Hdrs = []string{"<missing>", "", "0", "auto", "Auto", " 5", "abc", "-1", "1e6", "65536", "100000", "18446744073709551615", "18446744073709551616",
		"00065536", "0200000", "0900000", "0x7A120", "0b11", "0o17", "1_000_000", "+5"}
)

type c10Factory struct{ pcs []*vnet.PacketConn }

func (f *c10Factory) New(net.Addr) (net.PacketConn, error) {
	pc := vnet.NewPacketConn(fmt.Sprintf("client-sock-%d", len(f.pcs)), 51000+len(f.pcs))
	f.pcs = append(f.pcs, pc)
	return pc, nil
}

// c10Installed describes the congestion controller installed on a fake connection.
type c10Installed struct {
	Kind    string // "brutal", "bbr", "none"
	Rate    uint64
	Profile string
	Sets    int
}

func c10Inspect(c *vquic.Conn) c10Installed {
	in := c10Installed{Kind: "none", Sets: len(c.CCSets)}
	cc := c.Congestion()
	if cc == nil {
		return in
	}
	// a wrapper around the sender (a struct with one congestion.CongestionControl(Ex) field) is
	// looked through: what matters here is which sender runs and at which rate
	for i := 0; i < 4; i++ {
		if n := reflect.TypeOf(cc).String(); strings.Contains(n, "BrutalSender") || strings.Contains(n, "bbrSender") {
			break
		}
		if inner, ok := vpriv.FieldByType[congestion.CongestionControl](cc); ok && inner != nil {
			cc = inner
		} else if innerEx, ok := vpriv.FieldByType[congestion.CongestionControlEx](cc); ok && innerEx != nil {
			cc = innerEx
		} else {
			break
		}
	}
	t := reflect.TypeOf(cc).String()
	v := reflect.ValueOf(cc).Elem()
	switch {
	case strings.Contains(t, "BrutalSender"):
		in.Kind = "brutal"
		in.Rate = uint64(v.FieldByName("bps").Int())
	case strings.Contains(t, "bbrSender"):
		in.Kind = "bbr"
		in.Profile = v.FieldByName("profile").String()
	default:
		in.Kind = t
	}
	return in
}

func c10SplitCC(cc string) (typ, profile string) {
	if cc == "reno" {
		return "reno", ""
	}
	return "bbr", strings.TrimPrefix(cc, "bbr:")
}

// c10Canon is the reference reading of a configured congestion type / BBR profile as typed: both
// are case-insensitive, the empty type is bbr and the empty profile is standard; the result is in
// the "reno" / "bbr:<profile>" form of c10Case.CC. Added after the independently seeded change
// C10-12 (a case-variant spelling of reno was accepted by validation but ran BBR).
func c10Canon(typ, prof string) string {
	if strings.ToLower(typ) == "reno" {
		return "reno"
	}
	if prof == "" {
		prof = "standard"
	}
	return "bbr:" + strings.ToLower(prof)
}

// expected controller when no fixed rate applies
func c10WantCC(cc string) c10Installed {
	typ, prof := c10SplitCC(cc)
	if typ == "reno" {
		return c10Installed{Kind: "none"}
	}
	return c10Installed{Kind: "bbr", Profile: prof}
}

func c10Check(e *vsched.Exec, side string, got c10Installed, wantRate uint64, cc string) {
	if wantRate > 0 {
		// bps is a signed ByteCount in the code; compare as the uint64 it was built from
		if got.Kind != "brutal" || got.Rate != wantRate {
			e.Fail("%s: expected fixed rate %d, installed %+v", side, wantRate, got)
		}
		return
	}
	w := c10WantCC(cc)
	if got.Kind != w.Kind || (w.Kind == "bbr" && got.Profile != w.Profile) {
		e.Fail("%s: expected the configured congestion controller %+v, installed %+v", side, w, got)
	}
}

// the reference, written from PROTOCOL.md "Congestion Control" and the property text
func c10RefServer(clientRx, serverMaxTx uint64, ignore bool) uint64 {
	if ignore || clientRx == 0 {
		return 0 // configured congestion controller
	}
	r := clientRx
	if serverMaxTx > 0 && serverMaxTx < r {
		r = serverMaxTx
	}
	return r
}

func c10RefClient(serverRx uint64, auto bool, clientMaxTx uint64) uint64 {
	if auto || clientMaxTx == 0 {
		return 0
	}
	r := clientMaxTx
	if serverRx > 0 && serverRx < r {
		r = serverRx
	}
	return r
}

// c10Wire drives the controller installed on a connection the way quic-go's send loop does and
// returns the bytes put on the wire in c.WireMs milliseconds of virtual monotime. The loop wakes
// every millisecond (congestion.MinPacingDelay, the granularity of quic-go's pacing timer); at each
// wake-up the ACK-only packet that is due goes out first - quic-go sends it even when pacing limited
// (SendPacingLimited still allows an ACK) and reports it with isRetransmittable=false - then full-size
// data packets while CanSend and HasPacingBudget allow. Everything sent is acknowledged at once (no
// loss is ever reported, so no loss compensation applies: the rate enforced is the rate itself).
// Judged by the clause "the rate reported to the application is the rate actually enforced on the
// wire": bytes <= burst allowance of the pacer + reported rate x interval (+ one packet for rounding)
// + what the pacer forgives: a packet larger than the budget left at that instant empties the
// budget instead of leaving a debt, so an ACK-only packet (sent regardless of pacing) can exceed the
// rate by less than its own size, and - the ACK-only traffic being at most half the rate, the budget
// has recovered by the next one - at most once per data packet that drained the budget in between:
// ACK-only size x (data packets + 1). (The first thorough run of this part held 1252-byte ACK-only
// packets to the bound without that term and alarmed on the unchanged tree: a false alarm of the
// check, corrected here; the seed below stays far outside the bound at the low rates.)
// Added after the independently seeded change C10-11 (OnPacketSent returned early for
// non-retransmittable packets, so the wire carried the negotiated rate PLUS the ACK traffic).
func c10Wire(e *vsched.Exec, side string, cc congestion.CongestionControl, reported uint64, c *c10Case) {
	if reported == 0 || cc == nil {
		return // no fixed rate on this side: nothing reported to hold the wire against
	}
	if c.AckSize > 0 && uint64(c.AckSize)*1000/uint64(c.AckEveryMs)*2 > reported {
		return // the ACK-only traffic alone is not well below the rate: the QUIC layer, not the controller, decides
	}
	const data = congestion.InitialPacketSize
	var wire, acks, nData congestion.ByteCount
	var pn congestion.PacketNumber
	start := monotime.Time(time.Second)
	for tick := 0; tick < c.WireMs; tick++ {
		now := start.Add(time.Duration(tick) * time.Millisecond)
		if c.AckSize > 0 && tick%c.AckEveryMs == 0 {
			cc.OnPacketSent(now, 0, pn, congestion.ByteCount(c.AckSize), false)
			pn++
			wire += congestion.ByteCount(c.AckSize)
			acks += congestion.ByteCount(c.AckSize)
		}
		for n := 0; cc.CanSend(0) && cc.HasPacingBudget(now); n++ {
			if n > 1<<20 {
				e.Fail("%s: the installed controller grants pacing budget without end at one instant (fixed rate %d)", side, reported)
				return
			}
			cc.OnPacketSent(now, data, pn, data, true)
			pn++
			wire += data
			nData++
		}
	}
	burst := congestion.ByteCount(10 * data)
	if b := congestion.ByteCount(reported / 1000 * 4); b > burst {
		burst = b // 4 x MinPacingDelay worth of the rate
	}
	forgiven := congestion.ByteCount(c.AckSize) * (nData + 1)
	limit := burst + congestion.ByteCount(float64(reported)*float64(c.WireMs)/1000) + data + forgiven
	if wire > limit {
		e.Fail("%s: reported fixed rate %d B/s, but the installed controller let %d bytes onto the wire in %d ms (%d of them in ACK-only packets of %d bytes sent every %d ms regardless of pacing, isRetransmittable=false): %.0f B/s, allowed %d bytes (burst %d + rate x interval + one packet + what the pacer forgives oversized ACK-only packets): the rate reported to the application is not the rate enforced on the wire",
			side, reported, wire, c.WireMs, acks, c.AckSize, c.AckEveryMs, float64(wire)*1000/float64(c.WireMs), limit, burst)
	}
}

func c10Run(c *c10Case) string {
	o := vsched.RunDefault(vsched.Options{}, func(e *vsched.Exec) {
		typ, prof := c10SplitCC(c.CC)
		// what each side is configured with as typed, and what that means (ccS / ccC)
		sTyp, sProf, ccS, ccC := typ, prof, c.CC, c.CC
		if c.Kind == "spelling" {
			typ, prof, sTyp, sProf = c.CType, c.CProf, c.SType, c.SProf
			ccS, ccC = c10Canon(sTyp, sProf), c10Canon(typ, prof)
		}
		r := newRig(e, rigOpts{Mutate: func(cfg *Config) {
			cfg.BandwidthConfig = BandwidthConfig{MaxTx: c.STx, MaxRx: c.SRx}
			cfg.IgnoreClientBandwidth = c.Ignore
			cfg.CongestionConfig = CongestionConfig{Type: sTyp, BBRProfile: sProf}
			cfg.DisableUDP = c.NoUDP
		}})
		if r.srv == nil {
			return
		}
		switch c.Kind {
		case "grid", "spelling":
			f := &c10Factory{}
			cl, info, err := client.NewClient(&client.Config{
				ConnFactory: f, ServerAddr: r.pc.LocalAddr(), Auth: "good",
				BandwidthConfig:  client.BandwidthConfig{MaxTx: c.CTx, MaxRx: c.CRx},
				CongestionConfig: client.CongestionConfig{Type: typ, BBRProfile: prof},
			})
			if err != nil {
				e.Fail("NewClient: %v", err)
				return
			}
			cconn := vquic.GetNet(e).Conns[0]
			sconn := cconn.Peer()
			wantS := c10RefServer(c.CRx, c.STx, c.Ignore)
			wantC := c10RefClient(c.SRx, c.Ignore, c.CTx)
			c10Check(e, "server", c10Inspect(sconn), wantS, ccS)
			c10Check(e, "client", c10Inspect(cconn), wantC, ccC)
			if info.Tx != wantC {
				e.Fail("client HandshakeInfo.Tx=%d, enforced rate is %d", info.Tx, wantC)
			}
			i := r.firstIndex(func(ev rigEvent) bool { return ev.Kind == "connect" })
			if i < 0 || r.Events[i].N != wantS {
				e.Fail("server Connect event tx=%v, enforced rate is %d", r.Events, wantS)
			}
			// never above either declared limit
			if wantS > 0 && ((c.STx > 0 && wantS > c.STx) || wantS > c.CRx) {
				e.Fail("reference inconsistency (server)")
			}
			_ = cl.Close()
			for _, pc := range f.pcs {
				if !pc.Closed() {
					e.Fail("client socket left open after Close")
				}
			}
		case "wire":
			f := &c10Factory{}
			cl, info, err := client.NewClient(&client.Config{
				ConnFactory: f, ServerAddr: r.pc.LocalAddr(), Auth: "good",
				BandwidthConfig:  client.BandwidthConfig{MaxTx: c.CTx, MaxRx: c.CRx},
				CongestionConfig: client.CongestionConfig{Type: typ, BBRProfile: prof},
			})
			if err != nil {
				e.Fail("NewClient: %v", err)
				return
			}
			cconn := vquic.GetNet(e).Conns[0]
			sconn := cconn.Peer()
			i := r.firstIndex(func(ev rigEvent) bool { return ev.Kind == "connect" })
			if i < 0 {
				e.Fail("no Connect event on the server: %v", r.Events)
				return
			}
			// each side's wire is held against what THAT side told its application
			c10Wire(e, "client (HandshakeInfo.Tx)", cconn.Congestion(), info.Tx, c)
			c10Wire(e, "server (Connect event tx)", sconn.Congestion(), r.Events[i].N, c)
			_ = cl.Close()
		case "reuse":
			cfg := &client.Config{
				ServerAddr: r.pc.LocalAddr(), Auth: "good",
				BandwidthConfig:  client.BandwidthConfig{MaxTx: c.CTx, MaxRx: c.CRx},
				CongestionConfig: client.CongestionConfig{Type: typ, BBRProfile: prof},
			}
			for round, want := range []uint64{c10RefClient(c.SRx, c.Ignore, c.CTx), c10RefClient(c.SRx2, c.Ignore2, c.CTx)} {
				f := &c10Factory{}
				cfg.ConnFactory = f
				if round == 1 {
					r.cfg.BandwidthConfig.MaxRx = c.SRx2
					r.cfg.IgnoreClientBandwidth = c.Ignore2
				}
				cl, info, err := client.NewClient(cfg)
				if err != nil {
					e.Fail("NewClient (handshake %d with the same Config): %v", round+1, err)
					return
				}
				conns := vquic.GetNet(e).Conns
				cconn := conns[len(conns)-1]
				if cconn.IsServer() {
					cconn = cconn.Peer()
				}
				c10Check(e, fmt.Sprintf("client, handshake %d with the same Config", round+1), c10Inspect(cconn), want, c.CC)
				if info.Tx != want {
					e.Fail("handshake %d with the same Config: client HandshakeInfo.Tx=%d, its own limit %d and the server's receive limit give %d", round+1, info.Tx, c.CTx, want)
				}
				_ = cl.Close()
				e.WaitIdle()
			}
		case "server-header":
			// raw client: the real server parses a peer-chosen Hysteria-CC-RX string
			rc := r.dial("A")
			h := http.Header{}
			h.Set(protocol.RequestHeaderAuth, "good")
			if c.Hdr != "<missing>" {
				h.Set(protocol.CommonHeaderCCRX, c.Hdr)
			}
			resp, err := rc.request("POST", protocol.URLHost, protocol.URLPath, h)
			if err != nil || resp.Status != protocol.StatusAuthOK {
				e.Fail("auth failed: %v %v", resp, err)
				return
			}
			got := c10Inspect(rc.Conn.Peer())
			i := r.firstIndex(func(ev rigEvent) bool { return ev.Kind == "connect" })
			reported := uint64(0)
			if i >= 0 {
				reported = r.Events[i].N
			}
			enforced := uint64(0)
			if got.Kind == "brutal" {
				enforced = got.Rate
			}
			if reported != enforced {
				e.Fail("server reports tx=%d but enforces %d (%+v)", reported, enforced, got)
			}
			if c.STx > 0 && enforced > c.STx {
				e.Fail("server enforces %d above its own limit %d", enforced, c.STx)
			}
			if v, err := strconv.ParseUint(c.Hdr, 10, 64); err == nil && c.Hdr != "<missing>" {
				c10Check(e, "server", got, c10RefServer(v, c.STx, c.Ignore), c.CC)
			} else if ne, ok := err.(*strconv.NumError); !(ok && ne.Err == strconv.ErrRange) {
				// missing / non-numeric declaration = unknown: the configured controller
				c10Check(e, "server", got, 0, c.CC)
			}
			// a repeated auth request on the authenticated connection (any declared rate) must not
			// change what is enforced: the Connect event already told the application the rate
			// (added after the seeded change C10-2 was missed by single-handshake cases)
			sets := len(rc.Conn.Peer().CCSets)
			for _, h2 := range []string{"<missing>", "0", "abc", "65536", "3000000000"} {
				hh := http.Header{}
				hh.Set(protocol.RequestHeaderAuth, "good")
				if h2 != "<missing>" {
					hh.Set(protocol.CommonHeaderCCRX, h2)
				}
				if resp2, err := rc.request("POST", protocol.URLHost, protocol.URLPath, hh); err != nil || resp2.Status != protocol.StatusAuthOK {
					e.Fail("repeated auth failed: %v %v", resp2, err)
				}
				after := c10Inspect(rc.Conn.Peer())
				if len(rc.Conn.Peer().CCSets) != sets || after.Kind != got.Kind || after.Rate != got.Rate {
					e.Fail("a repeated auth request (Hysteria-CC-RX %q) changed the enforced congestion control from %+v to %+v while the application was told tx=%d", h2, got, after, reported)
					break
				}
			}
			// the client's UDP source address changes mid-connection (NAT rebinding; every hop of a
			// port-hopping client): the rate the application was told must still be the one enforced
			// (added after the seeded change C10-4: with quic-go's path manager enabled the connection
			// follows the client to its new address and starts over with a Reno sender)
			rc.Conn.Peer().PeerAddressChanged(&net.UDPAddr{IP: net.IPv4(127, 0, 0, 1), Port: 59999})
			if after := c10Inspect(rc.Conn.Peer()); after.Kind != got.Kind || after.Rate != got.Rate {
				e.Fail("after the client's source address changed the server enforces %+v instead of %+v (the application was told tx=%d): the QUIC layer replaced the congestion controller on path migration", after, got, reported)
			}
			rc.close()
		case "client-header":
			// scripted server answer: the real client parses a peer-chosen Hysteria-CC-RX string
			_ = r.srv.Close()
			e.WaitIdle()
			pc2 := vnet.NewPacketConn("fake-server-sock", 444)
			tr := &vquic.Transport{Conn: pc2}
			ln, err := tr.Listen(nil, nil)
			if err != nil {
				e.Fail("listen: %v", err)
				return
			}
			vsched.GoNamed("scripted-server", func() {
				conn, err := ln.Accept(nil)
				if err != nil {
					return
				}
				s := vh3.Server{Handler: http.HandlerFunc(func(w http.ResponseWriter, rq *http.Request) {
					w.Header().Set(protocol.ResponseHeaderUDPEnabled, "true")
					if c.Hdr != "<missing>" {
						w.Header().Set(protocol.CommonHeaderCCRX, c.Hdr)
					}
					w.WriteHeader(protocol.StatusAuthOK)
				})}
				_ = s.ServeQUICConn(conn)
			})
			f := &c10Factory{}
			cl, info, err := client.NewClient(&client.Config{
				ConnFactory: f, ServerAddr: pc2.LocalAddr(), Auth: "good",
				BandwidthConfig:  client.BandwidthConfig{MaxTx: c.CTx, MaxRx: c.CRx},
				CongestionConfig: client.CongestionConfig{Type: typ, BBRProfile: prof},
			})
			if err != nil {
				e.Fail("NewClient: %v", err)
				return
			}
			conns := vquic.GetNet(e).Conns
			got := c10Inspect(conns[len(conns)-1])
			enforced := uint64(0)
			if got.Kind == "brutal" {
				enforced = got.Rate
			}
			if info.Tx != enforced {
				e.Fail("client reports Tx=%d but enforces %d (%+v)", info.Tx, enforced, got)
			}
			if enforced > c.CTx {
				e.Fail("client enforces %d above its own limit %d", enforced, c.CTx)
			}
			if c.Hdr == "auto" {
				c10Check(e, "client", got, 0, c.CC)
			} else if v, err := strconv.ParseUint(c.Hdr, 10, 64); err == nil && c.Hdr != "<missing>" {
				c10Check(e, "client", got, c10RefClient(v, false, c.CTx), c.CC)
			}
			_ = cl.Close()
			_ = tr.Close()
		}
		r.shutdown(false)
	})
	if o.Kind != "ok" {
		return o.Kind + ": " + o.Detail
	}
	return ""
}

func c10Enumerate(sh *evidence.Shard) {
	env := sh.Env()
	if env.Thorough() {
		// thorough: denser value grids around every boundary the code compares against
		c10ClientVals = []uint64{0, 1, 2, 65535, 65536, 65537, 1 << 20, 1000000000, 1<<32 - 1, 1 << 32, 1<<32 + 1, 1 << 53, 1<<63 - 1, 1 << 63, 1<<63 + 1, math.MaxUint64 - 1, math.MaxUint64}
		c10ServerVals = []uint64{0, 65536, 65537, 1 << 20, 1000000000, 1 << 32, 1<<63 - 1, 1 << 63, math.MaxUint64 - 1, math.MaxUint64}
		c10Hdrs = append(c10Hdrs, "00065536", "+5", "0x10000", "65536 ", "9223372036854775807", "9223372036854775808", "18446744073709551614", "99999999999999999999999", "auto ", "AUTO", "true", "٣")
	}
	var item int64
	run := func(p *evidence.Part, c c10Case) bool {
		item++
		if !env.Mine(item) {
			return true
		}
		if item&127 == 0 && env.Expired() {
			p.Exhaustive = false
			p.Note("deadline reached")
			return false
		}
		p.Evaluations++
		clause := c10Run(&c)
		if c.Kind == "spelling" {
			p.Class(c.Kind, c.CTx, c.CRx, c.STx, c.SRx, c.Ignore, c.CType, c.CProf, c.SType, c.SProf, clause == "")
		} else {
			p.Class(c.Kind, c.CTx, c.CRx, c.STx, c.SRx, c.Ignore, c.Hdr, c.NoUDP, clause == "")
		}
		if p.Evaluations%997 == 5 {
			p.Sample(c)
		}
		if clause != "" {
			cc := c
			sig := fmt.Sprintf("%s/%s/ctx=%d,crx=%d,stx=%d,srx=%d,ignore=%v,cc=%s,hdr=%q,noudp=%v", p.Name, strings.SplitN(clause, ";", 2)[0], c.CTx, c.CRx, c.STx, c.SRx, c.Ignore, c.CC, c.Hdr, c.NoUDP)
			if c.Kind == "wire" {
				sig = fmt.Sprintf("%s/%s/ctx=%d,crx=%d,stx=%d,srx=%d,ack_only=%dB/%dms", p.Name, strings.SplitN(strings.SplitN(clause, ",", 2)[0], ";", 2)[0], c.CTx, c.CRx, c.STx, c.SRx, c.AckSize, c.AckEveryMs)
			}
			if c.Kind == "spelling" {
				sig = fmt.Sprintf("%s/%s/ctx=%d,crx=%d,stx=%d,srx=%d,ignore=%v,client=%q+%q,server=%q+%q", p.Name, strings.SplitN(clause, ";", 2)[0], c.CTx, c.CRx, c.STx, c.SRx, c.Ignore, c.CType, c.CProf, c.SType, c.SProf)
			}
			sh.Violate(p.Name, sig, clause, &cc)
		}
		return sh.NViolations() < 6
	}
	p1 := sh.Part("handshake-grid", "enum")
	p1.Alphabet = map[string]any{"client MaxTx/MaxRx": c10ClientVals, "server MaxTx/MaxRx": c10ServerVals, "ignore_client_bandwidth": []bool{false, true}, "congestion": c10CCs, "server DisableUDP": []bool{false, true}}
	for _, ctx := range c10ClientVals {
		for _, crx := range c10ClientVals {
			for _, stx := range c10ServerVals {
				for _, srx := range c10ServerVals {
					for _, ig := range []bool{false, true} {
						for _, cc := range c10CCs {
							for _, noUDP := range []bool{false, true} {
								if !run(p1, c10Case{Kind: "grid", CTx: ctx, CRx: crx, STx: stx, SRx: srx, Ignore: ig, CC: cc, NoUDP: noUDP}) {
									return
								}
							}
						}
					}
				}
			}
		}
	}
	p3 := sh.Part("config-reused-for-two-handshakes", "enum")
	reuseRx := []uint64{0, 100000, 1000000000}
	reuseTx := []uint64{0, 123456, 2000000000, math.MaxUint64}
	p3.Alphabet = map[string]any{"client MaxTx": reuseTx, "server MaxRx at the first / second handshake": reuseRx, "ignore_client_bandwidth at the first / second handshake": []bool{false, true}, "congestion": []string{"bbr:standard", "reno"}}
	for _, ctx := range reuseTx {
		for _, s1 := range reuseRx {
			for _, i1 := range []bool{false, true} {
				for _, s2 := range reuseRx {
					for _, i2 := range []bool{false, true} {
						for _, cc := range []string{"bbr:standard", "reno"} {
							if !run(p3, c10Case{Kind: "reuse", CTx: ctx, CRx: 500000, SRx: s1, Ignore: i1, SRx2: s2, Ignore2: i2, CC: cc}) {
								return
							}
						}
					}
				}
			}
		}
	}
	// the installed controllers driven through the send contract with a mix of packet kinds; added
	// after the independently seeded change C10-11 (ACK-only packets bypassed the fixed rate)
	p4 := sh.Part("wire-bytes-under-the-installed-controller", "enum")
	wireRates := []uint64{65537, 1 << 20}
	wireCaps := []uint64{0, 65537}
	wireAcks := [][2]int{{0, 0}, {40, 2}, {40, 5}, {60, 2}, {60, 5}}
	wireMs := 2000
	if env.Thorough() {
		wireRates = []uint64{65536, 65537, 1 << 20, 12500000}
		wireCaps = []uint64{0, 65537, 1 << 20}
		wireAcks = [][2]int{{0, 0}, {40, 2}, {40, 5}, {60, 2}, {60, 5}, {25, 1}, {100, 4}, {1252, 100}}
		wireMs = 3000
	}
	p4.Alphabet = map[string]any{"client MaxTx / client MaxRx (= the two fixed rates)": wireRates, "server MaxRx / server MaxTx (caps)": wireCaps,
		"ACK-only packets (bytes, every ms; isRetransmittable=false, sent regardless of pacing; 0 = none)": wireAcks, "virtual ms driven": wireMs,
		"send loop": "wakes every 1 ms: the due ACK-only packet first, then full-size data packets while CanSend && HasPacingBudget; no loss reported",
		"oracle":    "wire bytes <= pacer burst + rate reported to the application x interval + one packet + ACK-only size x (data packets + 1) (the pacer forgives the part of a packet that exceeds the remaining budget), on each side"}
	for _, ctx := range wireRates {
		for _, crx := range wireRates {
			for _, srx := range wireCaps {
				for _, stx := range wireCaps {
					for _, a := range wireAcks {
						if !run(p4, c10Case{Kind: "wire", CTx: ctx, CRx: crx, STx: stx, SRx: srx, CC: "bbr:standard", AckSize: a[0], AckEveryMs: a[1], WireMs: wireMs}) {
							return
						}
					}
				}
			}
		}
	}
	// the configured congestion type / BBR profile in the spellings a library user may type, through
	// the real config fill functions of both sides, for every handshake outcome that ends in "runs
	// the configured congestion controller" on at least one side (and one that ends in two fixed
	// rates); added after the independently seeded change C10-12 (the normalized type was stored only
	// in the BBR branch: "Reno" / "RENO" passed validation and the sender ran BBR)
	p5 := sh.Part("congestion-type-spellings", "enum")
	spellTypes := []string{"", "bbr", "BBR", "Bbr", "reno", "Reno", "RENO"}
	spellProfs := []string{"", "Standard", "AGGRESSIVE", "conservative"}
	if env.Thorough() {
		spellTypes = append(spellTypes, "bBR", "rENO", "ReNo")
		spellProfs = []string{"", "standard", "Standard", "STANDARD", "aggressive", "Aggressive", "AGGRESSIVE", "conservative", "Conservative", "CONSERVATIVE"}
	}
	// client MaxTx, client MaxRx, server MaxTx, server MaxRx, ignore-client-bandwidth
	spellOutcomes := []c10Case{
		{CTx: 0, CRx: 0},          // nothing declared: both sides run the configured controller
		{CTx: 1000000000, CRx: 0}, // the client declares 0: the server runs the configured controller
		{CTx: 0, CRx: 1000000000}, // the client has no usable limit: it runs the configured controller
		{CTx: 1000000000, CRx: 1000000000, STx: 65537, SRx: 65537, Ignore: true}, // the server answers auto: both sides
		{CTx: 1000000000, CRx: 1000000000},                                       // two fixed rates: the configured type must not matter
	}
	p5.Alphabet = map[string]any{"CongestionConfig.Type as typed (client x server, independently)": spellTypes, "CongestionConfig.BBRProfile as typed (client x server, independently)": spellProfs,
		"handshake outcomes (client MaxTx/MaxRx, server MaxTx/MaxRx, ignore)": spellOutcomes,
		"oracle": "each side without a fixed rate runs the controller its own configuration names, read case-insensitively (reno = quic-go's own sender, no SetCongestionControl; bbr / empty = BBR with the profile named, empty = standard)"}
	for _, o := range spellOutcomes {
		for _, ct := range spellTypes {
			for _, cp := range spellProfs {
				for _, st := range spellTypes {
					for _, sp := range spellProfs {
						o.Kind, o.CType, o.CProf, o.SType, o.SProf = "spelling", ct, cp, st, sp
						if !run(p5, o) {
							return
						}
					}
				}
			}
		}
	}
	p2 := sh.Part("peer-header-strings", "enum")
	p2.Alphabet = map[string]any{"Hysteria-CC-RX strings": c10Hdrs, "own limits": "server MaxTx / client MaxTx over the value sets above", "congestion": []string{"bbr:standard", "reno"}}
	for _, h := range c10Hdrs {
		for _, cc := range []string{"bbr:standard", "reno"} {
			for _, stx := range c10ServerVals {
				for _, ig := range []bool{false, true} {
					if !run(p2, c10Case{Kind: "server-header", STx: stx, Ignore: ig, CC: cc, Hdr: h}) {
						return
					}
				}
			}
			for _, ctx := range c10ClientVals {
				if !run(p2, c10Case{Kind: "client-header", CTx: ctx, CC: cc, Hdr: h}) {
					return
				}
			}
		}
	}
}

func TestVerifC10(t *testing.T) {
	evidence.Main(t, "C10", evidence.Seq{
		Run: c10Enumerate,
		Replay: func(part string, raw json.RawMessage) (bool, bool, string) {
			var c c10Case
			if err := json.Unmarshal(raw, &c); err != nil {
				return true, false, err.Error()
			}
			clause := c10Run(&c)
			return true, clause != "", clause
		},
	})
}

var _ = congestion.ByteCount(0)
