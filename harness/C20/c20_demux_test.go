package realm

// C20 unit "demux": explicit-state search + exhaustive operation sequences on the real
// PunchPacketConn over a vnet inner socket (plain build, no scheduler: strictly sequential).

import (
	"bytes"
	"encoding/json"
	"errors"
	"fmt"
	"net"
	"reflect"
	"sort"
	"strings"
	"testing"
	"time"

	"verif.local/engine/enum"
	"verif.local/engine/evidence"
	"verif.local/engine/vnet"
	"verif.local/engine/vpriv"
	"verif.local/engine/xstate"
)

var errC20Empty = errors.New("c20: inner inbox empty")

// c20Inner is a vnet.PacketConn whose ReadFrom fails instead of blocking when the inbox is empty,
// so a harness step can read "until nothing is left" (and a swallowed sentinel cannot hang).
type c20Inner struct{ *vnet.PacketConn }

func (c c20Inner) ReadFrom(b []byte) (int, net.Addr, error) {
	if c.PacketConn.Pending() == 0 {
		return 0, nil, errC20Empty
	}
	return c.PacketConn.ReadFrom(b)
}

// metadata of the attempts: a1; a2 = a1 with the last nonce bit flipped (re-registration of id a
// with fresh metadata / near miss); b = a1's nonce with one key bit flipped; c never registered.
func c20DemuxMetas() map[string]c20Meta {
	base := c20BaseMeta()
	c := base
	for i := range c.Nonce {
		c.Nonce[i] ^= 0x5a
	}
	for i := range c.Key {
		c.Key[i] ^= 0xc3
	}
	return map[string]c20Meta{"a1": base, "a2": base.flipNonceBit(120), "b": base.flipKeyBit(0), "c": c}
}

type c20Pkt struct {
	Name string
	Data []byte
	From *net.UDPAddr
	// STUNMapped: a complete binding success response carrying a mapped address: expected to be
	// diverted with a STUN event (test-design expectation; the property itself only says "only if").
	STUNMapped bool
}

func c20Packets() []c20Pkt {
	ms := c20DemuxMetas()
	salt := func(l string) (s [8]byte) { copy(s[:], c20Noise("demux-salt/"+l, 8)); return }
	pa := c20RefEncode(0x01, ms["a1"], salt("a1"), nil)
	flipped := c20Clone(pa)
	flipped[8+8] ^= 0x04 // type byte 0x01 -> 0x05
	list := []c20Pkt{
		{Name: "punch(a1,hello,pad0)", Data: pa},
		{Name: "punch(a1,ack,pad1024)", Data: c20RefEncode(0x02, ms["a1"], salt("a1x"), c20Noise("pad", 1024))},
		{Name: "punch(a2,hello,pad7)", Data: c20RefEncode(0x01, ms["a2"], salt("a2"), c20Noise("pad7", 7))},
		{Name: "punch(b,ack,pad1)", Data: c20RefEncode(0x02, ms["b"], salt("b"), []byte{0x99})},
		{Name: "punch(c,hello,pad3)", Data: c20RefEncode(0x01, ms["c"], salt("c"), []byte{1, 2, 3})},
		{Name: "punch(a1)-type-bit-flipped", Data: flipped},
		{Name: "punch(a1)-truncated-32", Data: c20Clone(pa[:32])},
		{Name: "punch(a1,pad1024)+1byte", Data: append(c20RefEncode(0x01, ms["a1"], salt("a1y"), c20Noise("pad", 1024)), 0x00)},
		{Name: "stun-success+xor-mapped", Data: c20STUN(0x0101, 0x2112A442, 1, 0), STUNMapped: true},
		{Name: "stun-success+mapped", Data: c20STUN(0x0101, 0x2112A442, 2, 0), STUNMapped: true},
		{Name: "stun-success-no-attr", Data: c20STUN(0x0101, 0x2112A442, 0, 0)},
		{Name: "stun-success-bad-length", Data: c20STUN(0x0101, 0x2112A442, 1, 4)},
		{Name: "stun-success-bad-cookie", Data: c20STUN(0x0101, 0x2112A443, 1, 0)},
		{Name: "stun-request", Data: c20STUN(0x0001, 0x2112A442, 0, 0)},
		{Name: "stun-request+xor-mapped", Data: c20STUN(0x0001, 0x2112A442, 1, 0)},
		{Name: "stun-error+xor-mapped", Data: c20STUN(0x0111, 0x2112A442, 1, 0)},
		{Name: "stun-indication+xor-mapped", Data: c20STUN(0x0011, 0x2112A442, 1, 0)},
		{Name: "quic-long-1200", Data: c20QUICLong(1200)},
		{Name: "quic-short-40", Data: c20QUICShort("p", 40)},
		{Name: "noise-25", Data: c20Noise("n25", 25)},
		{Name: "noise-32", Data: c20Noise("n32", 32)},
		{Name: "noise-33", Data: c20Noise("n33", 33)},
		{Name: "empty", Data: []byte{}},
		// a QUIC short-header packet (form bit 0, fixed bit 1 => first byte 0x41) whose bytes happen
		// to look like a binding success apart from the two most significant type bits, which
		// RFC 5389 section 6 requires to be zero precisely so that STUN can be told from other
		// protocols multiplexed on the same port (observation handed over by the C03 check)
		{Name: "quic-short-stun-lookalike-0x4101", Data: c20STUN(0x4101, 0x2112A442, 1, 0)},
		{Name: "quic-long-stun-lookalike-0xc101", Data: c20STUN(0xc101, 0x2112A442, 1, 0)},
	}
	for i := range list {
		list[i].From = c20UDP(byte(10+i), 5000+i)
	}
	return list
}

var c20Sentinel = c20Pkt{Name: "sentinel", Data: c20QUICShort("sentinel", 31), From: c20UDP(250, 4433)}

type c20Op struct {
	Name   string
	Kind   int // 0 add, 1 remove, 2 deliver
	ID     string
	Meta   string
	Pkt    int
	Copies int
	Spell  int // add: spelling of the metadata strings (see c20Spell)
}

func (o c20Op) String() string { return o.Name }

func c20DemuxOps(pkts []c20Pkt, sequences bool) []c20Op {
	ops := []c20Op{
		{Name: "add(a,a1)", Kind: 0, ID: "a", Meta: "a1"},
		{Name: "add(a,a2)", Kind: 0, ID: "a", Meta: "a2"},
		{Name: "add(b,b)", Kind: 0, ID: "b", Meta: "b"},
		{Name: "add(a,A1-UPPER-CASE-HEX)", Kind: 0, ID: "a", Meta: "a1", Spell: 1},
		{Name: "add(b,b-aLtErNaTiNg-hex)", Kind: 0, ID: "b", Meta: "b", Spell: 2},
		{Name: "remove(a)", Kind: 1, ID: "a"},
		{Name: "remove(b)", Kind: 1, ID: "b"},
	}
	for i, p := range pkts {
		if sequences {
			// the sequence enumeration keeps the packets whose fate depends on the registry plus
			// one representative of each other family
			switch p.Name {
			case "punch(a1,hello,pad0)", "punch(a2,hello,pad7)", "punch(b,ack,pad1)", "punch(c,hello,pad3)",
				"stun-success+xor-mapped", "stun-request+xor-mapped", "quic-short-40", "noise-33":
			default:
				continue
			}
		}
		ops = append(ops, c20Op{Name: "deliver " + p.Name, Kind: 2, Pkt: i, Copies: 1})
	}
	if !sequences {
		// registry dimension "two attempts registered at once whose metadata share the obfs key and
		// differ in the nonce" (id a under a1 next to id b under a2; the client picks the metadata):
		// punch(a1,..) and punch(a2,..) must then both be diverted, whichever attempt the registry
		// scan meets first. This build ranges over the real map (order not controlled, the probe
		// delivers both packets in every such state); the order-controlled form of the same pair is
		// the scenario "shared-key-pair-registered-at-once" of the unit conc. (Added after the
		// independently seeded change C20-10: the scan stopped at the first attempt whose key
		// unmasked the magic, nonce mismatch included.)
		ops = append(ops, c20Op{Name: "add(b,a2:key-of-a1-other-nonce)", Kind: 0, ID: "b", Meta: "a2"})
	}
	// burst: two copies back to back with the event buffer (1) not drained in between: the second
	// emit must take the non-blocking path, both copies are still withheld
	ops = append(ops, c20Op{Name: "deliver 2x punch(a1,hello,pad0)", Kind: 2, Pkt: 0, Copies: 2})
	if !sequences {
		ops = append(ops, c20Op{Name: "deliver 2x stun-success+xor-mapped", Kind: 2, Pkt: 8, Copies: 2})
	}
	return ops
}

// c20Sys: the real PunchPacketConn + the reference model (registered id -> metadata).
type c20Sys struct {
	pkts    []c20Pkt
	metas   map[string]c20Meta
	inner   *vnet.PacketConn
	pc      *PunchPacketConn
	model   map[string]string // id -> meta name
	spell   map[string]int    // id -> spelling it was registered with
	removed map[string]bool   // history abstraction kept in the key (see Key)
	read    bool
	hist    []c20Op
	last    string // observable outcome of the last deliver (for the probe)
}

func c20NewSys(pkts []c20Pkt) *c20Sys {
	inner := vnet.NewPacketConn("inner", 4433)
	pc, err := NewPunchPacketConn(c20Inner{inner}, 1)
	if err != nil {
		panic(err)
	}
	return &c20Sys{pkts: pkts, metas: c20DemuxMetas(), inner: inner, pc: pc, model: map[string]string{}, spell: map[string]int{}, removed: map[string]bool{}}
}

func (s *c20Sys) metaName(m PunchMetadata) string {
	for _, n := range []string{"a1", "a2", "b", "c"} {
		if r := s.metas[n].real(); strings.EqualFold(r.Nonce, m.Nonce) && strings.EqualFold(r.Obfs, m.Obfs) {
			return n
		}
	}
	return "?" + m.Nonce + "/" + m.Obfs
}

// c20PrivUnreadable: private state of PunchPacketConn the harness could not read by name (field
// renamed or retyped by a refactor): the extra oracle/key component that used it is skipped and
// the evidence says so.
var c20PrivUnreadable = map[string]bool{}

// realRegistry reads the private id -> metadata registry (field "attempts", a map) by name.
func (s *c20Sys) realRegistry() (string, bool) {
	v, ok := vpriv.Field(s.pc, "attempts")
	if !ok || v.Kind() != reflect.Map || v.Type().Key().Kind() != reflect.String || v.Type().Elem() != reflect.TypeOf(PunchMetadata{}) {
		c20PrivUnreadable["attempts (map[string]PunchMetadata)"] = true
		return "", false
	}
	var parts []string
	for _, k := range v.MapKeys() {
		m := v.MapIndex(k).Interface().(PunchMetadata)
		tag := "" // spelling is part of the state: registering the same bytes in another spelling is another state
		if m.Nonce != strings.ToLower(m.Nonce) || m.Obfs != strings.ToLower(m.Obfs) {
			tag = "^"
		}
		parts = append(parts, k.String()+"="+s.metaName(m)+tag)
	}
	sort.Strings(parts)
	return strings.Join(parts, ","), true
}

func (s *c20Sys) privLen(name string) int {
	n := vpriv.Len(s.pc, name)
	if n < 0 {
		c20PrivUnreadable[name+" (channel)"] = true
	}
	return n
}

func (s *c20Sys) modelRegistry() string {
	var parts []string
	for id, m := range s.model {
		tag := ""
		if s.spell[id] != 0 {
			tag = "^"
		}
		parts = append(parts, id+"="+m+tag)
	}
	sort.Strings(parts)
	return strings.Join(parts, ",")
}

// Key: the private registry (id -> metadata) and the occupancy of both event channels are the
// whole mutable state of PunchPacketConn; two histories that agree on them have equal futures.
// The key additionally keeps two history abstractions from the model side (which ids were ever
// removed, whether a read has happened) so the search does not depend on that argument: a reader
// that cached anything across reads or a removal that left a trace would be a different state.
func (s *c20Sys) Key() string {
	var rem []string
	for id := range s.removed {
		rem = append(rem, id)
	}
	sort.Strings(rem)
	reg, ok := s.realRegistry()
	if !ok {
		reg = "model:" + s.modelRegistry()
	}
	// + whatever else the conn remembers directly in its own fields (nothing on the pinned tree)
	return fmt.Sprintf("reg[%s] ev=%d stun=%d removed[%s] read=%v", reg, s.privLen("events"), s.privLen("stun"), strings.Join(rem, ","), s.read) + vpriv.Scalars(s.pc)
}

func (s *c20Sys) Apply(op c20Op) (err error) {
	s.hist = append(s.hist, op)
	val, stack := evidence.Catch(func() { err = s.apply(op) })
	if val != nil {
		return fmt.Errorf("panic@%s: %v", evidence.PanicSite(stack), val)
	}
	return err
}

func (s *c20Sys) apply(op c20Op) error {
	switch op.Kind {
	case 0:
		if err := s.pc.AddPunchAttempt(op.ID, s.metas[op.Meta].spelled(op.Spell)); err != nil {
			return fmt.Errorf("add-error: AddPunchAttempt(%s) failed: %v", op.ID, err)
		}
		s.model[op.ID] = op.Meta
		s.spell[op.ID] = op.Spell
	case 1:
		s.pc.RemovePunchAttempt(op.ID)
		if _, ok := s.model[op.ID]; ok {
			s.removed[op.ID] = true
		}
		delete(s.model, op.ID)
	case 2:
		if err := s.deliver(&s.pkts[op.Pkt], op.Copies); err != nil {
			return err
		}
	}
	if got, ok := s.realRegistry(); ok && got != s.modelRegistry() {
		return fmt.Errorf("registry-differs: private attempts map {%s}, reference {%s}", got, s.modelRegistry())
	}
	return nil
}

type c20Surfaced struct {
	data []byte
	addr net.Addr
}

func (s *c20Sys) deliver(p *c20Pkt, copies int) error {
	s.read = true
	for i := 0; i < copies; i++ {
		s.inner.Inject(p.Data, p.From)
	}
	s.inner.Inject(c20Sentinel.Data, c20Sentinel.From)
	var out []c20Surfaced
	for i := 0; i < copies+3; i++ {
		buf := bytes.Repeat([]byte{0xee}, 2048)
		// hang guard only (a ReadFrom takes microseconds): a demultiplexer that parks inside ReadFrom
		// withholds every packet queued behind the one it is handling
		type rres struct {
			n    int
			addr net.Addr
			err  error
		}
		rc := make(chan rres, 1)
		go func() {
			n, addr, err := s.pc.ReadFrom(buf)
			rc <- rres{n, addr, err}
		}()
		var n int
		var addr net.Addr
		var err error
		select {
		case r := <-rc:
			n, addr, err = r.n, r.addr, r.err
		case <-time.After(30 * time.Second):
			return fmt.Errorf("read-blocked: ReadFrom did not return while handling %s (copy %d of %d, event channels not drained in between): every packet behind it is withheld from QUIC", p.Name, i+1, copies)
		}
		if err == errC20Empty {
			break
		}
		if err != nil {
			return fmt.Errorf("read-error: ReadFrom: %v", err)
		}
		if n < 0 || n > len(buf) {
			return fmt.Errorf("read-length: ReadFrom returned n=%d", n)
		}
		out = append(out, c20Surfaced{c20Clone(buf[:n]), addr})
	}
	// drain both channels without blocking
	var pev []PunchPacketEvent
	var sev []STUNPacketEvent
	for more := true; more; {
		select {
		case ev := <-s.pc.Events():
			pev = append(pev, ev)
		case ev := <-s.pc.STUNEvents():
			sev = append(sev, ev)
		default:
			more = false
		}
	}
	s.last = fmt.Sprintf("surfaced=%d punch-events=%d stun-events=%d", len(out), len(pev), len(sev))

	// the sentinel (a QUIC-like packet behind the packet under test) must come out last, intact
	if len(out) == 0 {
		return fmt.Errorf("sentinel-lost: nothing surfaced, the QUIC-like packet queued behind %s was swallowed", p.Name)
	}
	last := out[len(out)-1]
	if !bytes.Equal(last.data, c20Sentinel.Data) || last.addr != net.Addr(c20Sentinel.From) {
		return fmt.Errorf("sentinel-lost: last surfaced packet is %s from %v, expected the sentinel", c20Hex(last.data), last.addr)
	}
	out = out[:len(out)-1]

	// reference verdicts
	var matches []string
	var mt byte
	var mp int
	ids := make([]string, 0, len(s.model))
	for id := range s.model {
		ids = append(ids, id)
	}
	sort.Strings(ids)
	for _, id := range ids {
		if t, pd, ok := c20RefDecode(p.Data, s.metas[s.model[id]]); ok {
			matches = append(matches, id)
			mt, mp = t, pd
		}
	}
	stunOK := c20RefIsBindingSuccess(p.Data)
	reg := s.modelRegistry()

	switch len(out) {
	case 0: // withheld
		if !stunOK && len(matches) == 0 {
			return fmt.Errorf("swallowed: %s withheld from QUIC with registry {%s}: not a STUN binding success and decodes under no registered attempt", p.Name, reg)
		}
	case copies: // surfaced
		for _, o := range out {
			if !bytes.Equal(o.data, p.Data) {
				return fmt.Errorf("altered: %s surfaced as %s, injected %s", p.Name, c20Hex(o.data), c20Hex(p.Data))
			}
			if o.addr != net.Addr(p.From) {
				return fmt.Errorf("altered-addr: %s surfaced with source %v, injected from %v", p.Name, o.addr, p.From)
			}
		}
		if len(matches) > 0 {
			return fmt.Errorf("not-diverted: %s reached QUIC although attempt %v is registered ({%s})", p.Name, matches, reg)
		}
		if p.STUNMapped {
			return fmt.Errorf("stun-not-diverted: %s reached QUIC", p.Name)
		}
		if len(pev)+len(sev) > 0 {
			return fmt.Errorf("event-for-surfaced: %s reached QUIC and also produced %d punch / %d STUN events", p.Name, len(pev), len(sev))
		}
		return nil
	default:
		return fmt.Errorf("inconsistent: %d of %d copies of %s surfaced", len(out), copies, p.Name)
	}

	// withheld: exactly one event fits the 1-slot buffer (drained before the step), whatever the
	// number of copies; the rest take the non-blocking drop path
	if len(matches) > 0 {
		if len(pev) != 1 || len(sev) != 0 {
			return fmt.Errorf("events: %d copies of %s diverted: %d punch / %d STUN events, expected exactly 1 punch event (buffer 1)", copies, p.Name, len(pev), len(sev))
		}
		ev := pev[0]
		okID := false
		for _, id := range matches {
			okID = okID || ev.AttemptID == id
		}
		if !okID || ev.From != c20AddrPort(p.From) || byte(ev.Packet.Type) != mt || ev.Packet.PaddingLength != mp {
			return fmt.Errorf("event-content: %s diverted as {id %q from %v type %d pad %d}, expected {id in %v from %v type %d pad %d}", p.Name, ev.AttemptID, ev.From, ev.Packet.Type, ev.Packet.PaddingLength, matches, c20AddrPort(p.From), mt, mp)
		}
		return nil
	}
	if len(pev) != 0 || len(sev) > 1 || (p.STUNMapped && len(sev) != 1) {
		return fmt.Errorf("events: STUN response %s withheld: %d punch / %d STUN events", p.Name, len(pev), len(sev))
	}
	for _, ev := range sev {
		if ev.Message == nil || ev.Message.TransactionID != c20TxID || (p.STUNMapped && ev.Addr != c20Mapped) {
			return fmt.Errorf("event-content: STUN event for %s carries addr %v, expected %v", p.Name, ev.Addr, c20Mapped)
		}
	}
	return nil
}

// ---- driver ---------------------------------------------------------------------------------

type c20DemuxReplay struct {
	History []string `json:"history"`
}

func c20HistNames(h []c20Op) []string {
	out := make([]string, len(h))
	for i, o := range h {
		out[i] = o.Name
	}
	return out
}

func c20ClauseID(err error) string {
	s := err.Error()
	if i := strings.Index(s, ":"); i > 0 {
		return s[:i]
	}
	return s
}

// c20DemuxReplayRun re-executes a history given by operation names; returns the first error.
func c20DemuxReplayRun(names []string) error {
	pkts := c20Packets()
	all := c20DemuxOps(pkts, false)
	s := c20NewSys(pkts)
	for _, n := range names {
		found := false
		for _, o := range all {
			if o.Name == n {
				found = true
				if err := s.Apply(o); err != nil {
					return err
				}
			}
		}
		if !found {
			return fmt.Errorf("unknown operation %q", n)
		}
	}
	return nil
}

func c20DemuxEnumerate(sh *evidence.Shard) {
	env := sh.Env()
	pkts := c20Packets()
	var pnames []string
	for _, p := range pkts {
		pnames = append(pnames, fmt.Sprintf("%s(%dB)", p.Name, len(p.Data)))
	}

	// (1) explicit-state BFS, one process (shard 0): the graph is small and closes by itself
	if env.Shard == 0 {
		part := sh.Part("demux-bfs", "xstate")
		ops := c20DemuxOps(pkts, false)
		depth := 10 // the graph closes at depth 7 (128 states); both tiers run to the fixed point
		part.Alphabet = map[string]any{"ops": c20HistNames(ops), "packets": pnames, "event_buffer": 1}
		part.Bounds = map[string]any{"max_depth": depth}
		var probeErr error
		var probeHist []c20Op
		res := xstate.BFS(xstate.Config[c20Op]{
			Ops:      ops,
			New:      func() xstate.Sys[c20Op] { return c20NewSys(pkts) },
			MaxDepth: depth,
			// probe: on a fresh replay of the same history, deliver every packet once; the answers of
			// two histories with the same key must be equal, and the oracle holds on each of them
			Probe: func(x xstate.Sys[c20Op]) string {
				src := x.(*c20Sys)
				t := c20NewSys(pkts)
				for _, o := range src.hist {
					if err := t.Apply(o); err != nil {
						return "replay failed: " + err.Error()
					}
				}
				var sb strings.Builder
				for _, o := range ops {
					if o.Kind != 2 {
						continue
					}
					if err := t.Apply(o); err != nil {
						if probeErr == nil {
							probeErr, probeHist = err, append([]c20Op{}, t.hist...)
							// minimal form: the state's history + the failing delivery alone
							short := append(append([]c20Op{}, src.hist...), o)
							u := c20NewSys(pkts)
							for i, so := range short {
								if e2 := u.Apply(so); e2 != nil {
									if i == len(short)-1 {
										probeErr, probeHist = e2, short
									}
									break
								}
							}
						}
						sb.WriteString("ERR ")
					}
					sb.WriteString(t.last + ";")
				}
				part.Class(src.Key(), sb.String())
				return sb.String()
			},
		}, part, env)
		part.Count("probe_deliveries", res.Transitions*int64(len(ops)-5))
		if res.Violation == nil && part.Exhaustive {
			if res.Depth < depth {
				part.Note("reachable graph closed: no new state beyond depth %d (bound %d), %d states", res.Depth-1, depth, res.States)
			} else {
				part.Note("depth bound %d reached before the graph closed", depth)
			}
		}
		if len(c20PrivUnreadable) > 0 {
			var ns []string
			for n := range c20PrivUnreadable {
				ns = append(ns, n)
			}
			sort.Strings(ns)
			part.Note("private state not readable by name on this tree (%s): the registry-differs oracle and that component of the state key were replaced by the reference model's registry; equal-key/equal-future probing and all delivery oracles still ran", strings.Join(ns, "; "))
		}
		if probeErr != nil {
			// an oracle failure inside the look-ahead is the concrete (replayable) form of whatever
			// the search reports (typically "history dependence" on the same history)
			res.Violation, res.History = probeErr, probeHist
		}
		if res.Violation != nil {
			names := c20HistNames(res.History)
			sh.Violate(part.Name, fmt.Sprintf("demux-bfs/%s/%s", c20ClauseID(res.Violation), strings.Join(names, " > ")), res.Violation.Error(), c20DemuxReplay{names})
		}
	}

	// (2) every operation sequence of length L on a fresh object, without any state merging
	// (independent of the key argument), shortest first so that a reported history is minimal.
	part := sh.Part("demux-sequences", "enum")
	ops := c20DemuxOps(pkts, true)
	L := 5
	if env.Thorough() {
		L = 6
	}
	part.Alphabet = map[string]any{"ops": c20HistNames(ops), "event_buffer": 1}
	part.Bounds = map[string]any{"max_sequence_length": L, "ops": len(ops)}
	var item int64
	viol := 0
	seenClause := map[string]bool{}
	enum.Sequences(len(ops), L, func(idx []int) bool {
		item++
		if !env.Mine(item) {
			return true
		}
		if item&1023 == 0 && env.Expired() {
			part.Exhaustive = false
			part.Note("deadline reached after %d of %d^%d sequences", item, len(ops), L)
			return false
		}
		part.Evaluations++
		s := c20NewSys(pkts)
		kinds := make([]byte, 0, L)
		for _, k := range idx {
			op := ops[k]
			kinds = append(kinds, "ARD"[op.Kind])
			part.ImplTraces++
			if err := s.Apply(op); err != nil {
				names := c20HistNames(s.hist)
				// shortest first: report the first (minimal) history per violated clause and shard
				if id := c20ClauseID(err); !seenClause[id] {
					seenClause[id] = true
					sh.Violate(part.Name, fmt.Sprintf("demux-sequences/%s/%s", id, strings.Join(names, " > ")), err.Error(), c20DemuxReplay{names})
				}
				part.Count("violating_sequences", 1)
				viol++
				break
			}
		}
		part.Class(string(kinds), s.modelRegistry(), s.last)
		if part.Evaluations%70001 == 1 {
			part.Sample(c20HistNames(s.hist))
		}
		return viol < 64
	})
}

func TestVerifC20Demux(t *testing.T) {
	evidence.Main(t, "C20", evidence.Seq{
		Run: c20DemuxEnumerate,
		Replay: func(part string, raw json.RawMessage) (bool, bool, string) {
			if !strings.HasPrefix(part, "demux-") {
				return false, false, ""
			}
			var r c20DemuxReplay
			if err := json.Unmarshal(raw, &r); err != nil {
				return true, false, err.Error()
			}
			if err := c20DemuxReplayRun(r.History); err != nil {
				return true, true, err.Error()
			}
			return true, false, "history ran clean"
		},
	})
}
