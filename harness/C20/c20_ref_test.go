package realm

// C20 shared reference side (injected by overlay into extras/realm by every C20 unit).
//
// Everything here is written from the wire-format comments of punch.go and RFC 5389, NOT from the
// decoder under test; all sizes are literals on purpose (33 = 8 salt + 25 header, 1057 = 33+1024).
//
//	wire  = salt[8] || (plain XOR mask),  mask = SHA-256(key[32] || salt[8]) repeated
//	plain = "HYRLMv1\x00" | type(1: 0x01 hello, 0x02 ack) | nonce[16] | padding[0..1024]

import (
	"bytes"
	"crypto/sha256"
	"encoding/binary"
	"encoding/hex"
	"fmt"
	"net"
	"net/netip"
)

type c20Meta struct {
	Nonce [16]byte
	Key   [32]byte
}

// c20Spell: how real() spells the hexadecimal strings of the metadata the code under test is given:
// 0 lower case, 1 upper case, 2 alternating. hex.DecodeString, which the metadata format is defined
// by, accepts all three, and the peer writes the rendezvous JSON. (Added after the independently
// seeded change C20-6: a hand-written hex decoder that got upper-case low nibbles wrong.)
var c20Spell int

func (m c20Meta) real() PunchMetadata { return m.spelled(c20Spell) }

func (m c20Meta) spelled(mode int) PunchMetadata {
	f := func(b []byte) string {
		h := []byte(hex.EncodeToString(b))
		for i, c := range h {
			if c >= 'a' && c <= 'f' && (mode == 1 || (mode == 2 && i%2 == 1)) {
				h[i] = c - 'a' + 'A'
			}
		}
		return string(h)
	}
	return PunchMetadata{Nonce: f(m.Nonce[:]), Obfs: f(m.Key[:])}
}

// c20BaseMeta is a fixed metadata set; the variants differ from it in exactly one bit.
func c20BaseMeta() c20Meta {
	var m c20Meta
	for i := range m.Nonce {
		m.Nonce[i] = byte(0x10 + 7*i)
	}
	for i := range m.Key {
		m.Key[i] = byte(0xa5 ^ (11 * i))
	}
	return m
}

func (m c20Meta) flipNonceBit(bit int) c20Meta { m.Nonce[bit/8] ^= 1 << (bit % 8); return m }
func (m c20Meta) flipKeyBit(bit int) c20Meta   { m.Key[bit/8] ^= 1 << (bit % 8); return m }

func c20Mask(key [32]byte, salt []byte) [32]byte {
	b := make([]byte, 0, 40)
	b = append(b, key[:]...)
	b = append(b, salt...)
	return sha256.Sum256(b)
}

var c20Magic = []byte{'H', 'Y', 'R', 'L', 'M', 'v', '1', 0}

// c20RefEncode builds the wire bytes for any type byte (also invalid ones) - cap == len.
func c20RefEncode(typ byte, m c20Meta, salt [8]byte, padding []byte) []byte {
	plain := make([]byte, 0, 25+len(padding))
	plain = append(plain, c20Magic...)
	plain = append(plain, typ)
	plain = append(plain, m.Nonce[:]...)
	plain = append(plain, padding...)
	mask := c20Mask(m.Key, salt[:])
	out := make([]byte, 8+len(plain))
	copy(out, salt[:])
	for i, b := range plain {
		out[8+i] = b ^ mask[i%32]
	}
	return out
}

// c20RefDecode is the independent reference decoder.
func c20RefDecode(pkt []byte, m c20Meta) (typ byte, pad int, ok bool) {
	if len(pkt) < 33 || len(pkt) > 1057 {
		return 0, 0, false
	}
	mask := c20Mask(m.Key, pkt[:8])
	var hdr [25]byte
	for i := range hdr {
		hdr[i] = pkt[8+i] ^ mask[i%32]
	}
	if !bytes.Equal(hdr[:8], c20Magic) {
		return 0, 0, false
	}
	if hdr[8] != 0x01 && hdr[8] != 0x02 {
		return 0, 0, false
	}
	if !bytes.Equal(hdr[9:25], m.Nonce[:]) {
		return 0, 0, false
	}
	return hdr[8], len(pkt) - 33, true
}

// c20RefIsBindingSuccess is the independent STUN header test (RFC 5389 section 6): a packet may be
// withheld as "STUN binding response" only if this holds.
func c20RefIsBindingSuccess(pkt []byte) bool {
	if len(pkt) < 20 {
		return false
	}
	if binary.BigEndian.Uint16(pkt[0:2]) != 0x0101 { // Binding success response (top two bits 0)
		return false
	}
	if binary.BigEndian.Uint32(pkt[4:8]) != 0x2112A442 {
		return false
	}
	l := int(binary.BigEndian.Uint16(pkt[2:4]))
	return l == len(pkt)-20 && l%4 == 0
}

func c20Clone(b []byte) []byte {
	out := make([]byte, len(b))
	copy(out, b)
	return out
}

// ---- packet builders ------------------------------------------------------------------------

var c20TxID = [12]byte{0xde, 0xad, 0xbe, 0xef, 1, 2, 3, 4, 5, 6, 7, 8}

var c20Mapped = netip.AddrPortFrom(netip.AddrFrom4([4]byte{203, 0, 113, 7}), 40000)

// c20STUN builds a STUN message by hand: header + optional (XOR-)MAPPED-ADDRESS attribute.
// attr: 0 none, 1 XOR-MAPPED-ADDRESS, 2 MAPPED-ADDRESS.
func c20STUN(msgType uint16, cookie uint32, attr int, lenDelta int) []byte {
	var body []byte
	ip := c20Mapped.Addr().As4()
	port := c20Mapped.Port()
	switch attr {
	case 1:
		body = []byte{0x00, 0x20, 0x00, 0x08, 0x00, 0x01, 0, 0, 0, 0, 0, 0}
		binary.BigEndian.PutUint16(body[6:8], port^0x2112)
		binary.BigEndian.PutUint32(body[8:12], binary.BigEndian.Uint32(ip[:])^0x2112A442)
	case 2:
		body = []byte{0x00, 0x01, 0x00, 0x08, 0x00, 0x01, 0, 0, 0, 0, 0, 0}
		binary.BigEndian.PutUint16(body[6:8], port)
		copy(body[8:12], ip[:])
	}
	out := make([]byte, 20+len(body))
	binary.BigEndian.PutUint16(out[0:2], msgType)
	binary.BigEndian.PutUint16(out[2:4], uint16(len(body)+lenDelta))
	binary.BigEndian.PutUint32(out[4:8], cookie)
	copy(out[8:20], c20TxID[:])
	copy(out[20:], body)
	return out
}

// c20Noise returns n deterministic "random-looking" bytes (SHA-256 of a label, counter mode).
func c20Noise(label string, n int) []byte {
	out := make([]byte, 0, n+32)
	for i := 0; len(out) < n; i++ {
		h := sha256.Sum256([]byte(fmt.Sprintf("c20-noise/%s/%d", label, i)))
		out = append(out, h[:]...)
	}
	return c20Clone(out[:n])
}

// c20QUICLong: long-header Initial look-alike (fixed bit set, version 1, 8-byte DCID), n bytes.
func c20QUICLong(n int) []byte {
	b := c20Noise("quic-long", n)
	copy(b, []byte{0xc3, 0x00, 0x00, 0x00, 0x01, 0x08})
	return b
}

// c20QUICShort: short-header (1-RTT) look-alike, n bytes.
func c20QUICShort(label string, n int) []byte {
	b := c20Noise("quic-short/"+label, n)
	b[0] = 0x40 | (b[0] & 0x3f)
	return b
}

func c20UDP(last byte, port int) *net.UDPAddr {
	return &net.UDPAddr{IP: net.IPv4(198, 51, 100, last).To4(), Port: port}
}

func c20AddrPort(a *net.UDPAddr) netip.AddrPort {
	ip, _ := netip.AddrFromSlice(a.IP)
	return netip.AddrPortFrom(ip.Unmap(), uint16(a.Port))
}

func c20Hex(b []byte) string {
	if len(b) > 48 {
		return fmt.Sprintf("%x..(%d bytes)", b[:48], len(b))
	}
	return fmt.Sprintf("%x", b)
}
