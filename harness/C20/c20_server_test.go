package realm

// C20, unit "server-puncher": the server side's per-attempt routing and removal (server_punch.go)
// on top of the real PunchPacketConn, driven through its exported API only (NewServerPuncher,
// Respond, ReadFrom). Bounded-exhaustive over short operation histories: which metadata a second
// Respond for the same attempt id carries, at which moment it arrives, which packets are then
// delivered and in which order. The oracle is the property's: a packet is withheld from QUIC only
// if it decodes under the metadata of an attempt that is registered AT THAT MOMENT (a Respond in
// flight), and is no longer withheld once that Respond has returned.
//
// Real goroutines (Respond and the puncher's dispatcher use context and tickers that the
// controlled scheduler does not own); the harness synchronises on observable events only: the
// hello datagram a Respond writes once its attempt is registered, the value Respond returns.
// Added after the independently seeded change C20-3 (a rejected duplicate Respond had already
// overwritten the in-flight attempt's metadata in the demultiplexer).

import (
	"bytes"
	"context"
	"encoding/json"
	"errors"
	"fmt"
	"net"
	"net/netip"
	"sync"
	"testing"
	"time"

	"verif.local/engine/evidence"
)

// c20SPSock: thread-safe in-memory PacketConn; ReadFrom never blocks (errC20Empty when drained).
type c20SPSock struct {
	mu     sync.Mutex
	inbox  []c20Surfaced
	sent   []c20Surfaced
	wrote  chan struct{}
	closed bool
}

func (s *c20SPSock) Inject(b []byte, from net.Addr) {
	s.mu.Lock()
	s.inbox = append(s.inbox, c20Surfaced{c20Clone(b), from})
	s.mu.Unlock()
}
func (s *c20SPSock) ReadFrom(b []byte) (int, net.Addr, error) {
	s.mu.Lock()
	defer s.mu.Unlock()
	if len(s.inbox) == 0 {
		return 0, nil, errC20Empty
	}
	p := s.inbox[0]
	s.inbox = s.inbox[1:]
	return copy(b, p.data), p.addr, nil
}
func (s *c20SPSock) WriteTo(b []byte, a net.Addr) (int, error) {
	s.mu.Lock()
	s.sent = append(s.sent, c20Surfaced{c20Clone(b), a})
	s.mu.Unlock()
	select {
	case s.wrote <- struct{}{}:
	default:
	}
	return len(b), nil
}
func (s *c20SPSock) Close() error                       { s.closed = true; return nil }
func (s *c20SPSock) LocalAddr() net.Addr                { return c20UDP(1, 4433) }
func (s *c20SPSock) SetDeadline(t time.Time) error      { return nil }
func (s *c20SPSock) SetReadDeadline(t time.Time) error  { return nil }
func (s *c20SPSock) SetWriteDeadline(t time.Time) error { return nil }

type c20SPCase struct {
	// SecondMeta: metadata of the second Respond for the SAME attempt id while the first is in flight:
	// "" = no second call, "a1" = identical, "a2"/"b"/"c" = different
	SecondMeta string `json:"second_respond_meta"`
	// Deliver: metadata names of the punch packets injected (in this order) while the first Respond is in flight
	Deliver []string `json:"deliver"`
	Type    byte     `json:"type"`
	// After: metadata names of the packets injected after the first Respond has returned
	After []string `json:"after"`
	// Refused: before anything else a Respond for the SAME id and metadata is refused for its
	// arguments ("neg-timeout", "neg-interval", "no-peers": no usable peer address); a refused call
	// registers nothing. (Added after the independently seeded change C20-8: the attempt was
	// registered before the arguments were validated and never removed on that path.)
	Refused string `json:"refused_respond_before,omitempty"`
}

const c20SPGuard = 20 * time.Second // hang guard only: nothing below waits for time to pass

func c20SPRun(c *c20SPCase) (clause string) {
	val, stack := evidence.Catch(func() { clause = c20SPRunInner(c) })
	if val != nil {
		return fmt.Sprintf("panic: %v at %s", val, evidence.PanicSite(stack))
	}
	return clause
}

func c20SPRunInner(c *c20SPCase) string {
	metas := c20DemuxMetas()
	sock := &c20SPSock{wrote: make(chan struct{}, 64)}
	pc, err := NewPunchPacketConn(sock, 4)
	if err != nil {
		return "NewPunchPacketConn: " + err.Error()
	}
	ctx, cancel := context.WithCancel(context.Background())
	defer cancel()
	sp, err := NewServerPuncher(ctx, pc)
	if err != nil {
		return "NewServerPuncher: " + err.Error()
	}
	local := []netip.AddrPort{c20AddrPort(c20UDP(1, 4433))}
	peers := []netip.AddrPort{c20AddrPort(c20UDP(77, 6000))}
	cfg := PunchConfig{Timeout: time.Hour, Interval: time.Hour}
	if c.Refused != "" {
		badCfg, badPeers := cfg, peers
		switch c.Refused {
		case "neg-timeout":
			badCfg.Timeout = -time.Second
		case "neg-interval":
			badCfg.Interval = -time.Second
		case "no-peers":
			badPeers = []netip.AddrPort{netip.AddrPortFrom(netip.MustParseAddr("192.0.2.1"), 0)}
		}
		ctx0, cancel0 := context.WithTimeout(ctx, 5*time.Second)
		r0, err0 := sp.Respond(ctx0, "a", local, badPeers, metas["a1"].real(), badCfg)
		cancel0()
		if err0 == nil {
			return fmt.Sprintf("a Respond with unusable arguments (%s) returned a result: %+v", c.Refused, r0)
		}
		// whatever the error, nothing may stay registered: a packet under that metadata reaches QUIC
		pkt := c20RefEncode(c.Type, metas["a1"], [8]byte{9, 9, 9, 9, 9, 9, 9, 9}, []byte{1})
		sock.Inject(pkt, c20UDP(99, 6999))
		buf := make([]byte, 2048)
		n, _, rerr := pc.ReadFrom(buf)
		if rerr != nil || !bytes.Equal(buf[:n], pkt) {
			return fmt.Sprintf("after a Respond was refused for its arguments (%s: %v), a punch packet under its metadata is withheld from QUIC although no attempt is running (ReadFrom: n=%d err=%v)", c.Refused, err0, n, rerr)
		}
	}
	type res struct {
		r   PunchResult
		err error
	}
	done := make(chan res, 1)
	go func() {
		r, err := sp.Respond(ctx, "a", local, peers, metas["a1"].real(), cfg)
		done <- res{r, err}
	}()
	// the first Respond is in flight once its hello is on the wire (written after registration)
	select {
	case <-sock.wrote:
	case r := <-done:
		return fmt.Sprintf("first Respond returned at once: %+v, %v", r.r, r.err)
	case <-time.After(c20SPGuard):
		return "first Respond neither wrote a hello packet nor returned"
	}
	if c.SecondMeta != "" {
		ctx2, cancel2 := context.WithCancel(ctx)
		r2, err2 := sp.Respond(ctx2, "a", local, peers, metas[c.SecondMeta].real(), PunchConfig{Timeout: time.Hour, Interval: time.Hour})
		cancel2()
		if err2 == nil {
			return fmt.Sprintf("a second Respond for the attempt id in flight was accepted and returned %+v", r2)
		}
		if !errors.Is(err2, ErrInvalidPunchAttempt) {
			return fmt.Sprintf("second Respond for the attempt id in flight failed with %v, expected ErrInvalidPunchAttempt", err2)
		}
	}
	// read everything currently deliverable; returns what surfaced to QUIC
	drain := func() ([]c20Surfaced, string) {
		var out []c20Surfaced
		for i := 0; i < 64; i++ {
			buf := bytes.Repeat([]byte{0xee}, 2048)
			n, addr, err := pc.ReadFrom(buf)
			if err == errC20Empty {
				return out, ""
			}
			if err != nil {
				return out, "ReadFrom: " + err.Error()
			}
			out = append(out, c20Surfaced{c20Clone(buf[:n]), addr})
		}
		return out, "ReadFrom keeps returning packets"
	}
	salt := func(l string) (s [8]byte) { copy(s[:], c20Noise("sp-salt/"+l, 8)); return }
	inFlight := true
	var firstFrom netip.AddrPort
	step := func(phase string, names []string) string {
		for i, mn := range names {
			from := c20UDP(byte(100+i), 7000+i)
			if phase == "after" {
				from = c20UDP(byte(150+i), 7100+i)
			}
			pkt := c20RefEncode(c.Type, metas[mn], salt(phase+mn+fmt.Sprint(i)), c20Noise("pad"+mn, 3+i))
			sock.Inject(pkt, from)
			out, cl := drain()
			if cl != "" {
				return cl
			}
			wantWithheld := inFlight && mn == "a1"
			switch {
			case wantWithheld && len(out) != 0:
				// (withholding a registered attempt's packets is this test's expectation of a working
				// puncher, the property itself only says "only if")
				return fmt.Sprintf("%s: punch packet under the metadata of the attempt in flight (%s) surfaced to QUIC", phase, mn)
			case !wantWithheld && len(out) != 1:
				why := "no attempt is registered any more"
				if inFlight {
					why = "the only registered attempt has other metadata (a1)"
				}
				return fmt.Sprintf("%s: punch packet under metadata %s was withheld from QUIC although %s (second Respond: %q)", phase, mn, why, c.SecondMeta)
			case !wantWithheld && (!bytes.Equal(out[0].data, pkt) || out[0].addr.String() != from.String()):
				return fmt.Sprintf("%s: packet under metadata %s reached QUIC altered or with another source address", phase, mn)
			}
			if wantWithheld {
				// the in-flight Respond completes on its first packet
				select {
				case r := <-done:
					if r.err != nil {
						return fmt.Sprintf("first Respond failed after its punch packet arrived: %v", r.err)
					}
					if r.r.PeerAddr != c20AddrPort(from) || byte(r.r.Packet.Type) != c.Type {
						return fmt.Sprintf("first Respond reports peer %v type %d, the packet came from %v with type %d", r.r.PeerAddr, r.r.Packet.Type, from, c.Type)
					}
					firstFrom = r.r.PeerAddr
					inFlight = false
				case <-time.After(c20SPGuard):
					return "first Respond did not return although a packet under its metadata was diverted"
				}
			} else if inFlight {
				select {
				case r := <-done:
					return fmt.Sprintf("first Respond (metadata a1) completed on a packet encoded under %s: peer %v, err %v", mn, r.r.PeerAddr, r.err)
				default:
				}
			}
		}
		return ""
	}
	if cl := step("in-flight", c.Deliver); cl != "" {
		return cl
	}
	if inFlight {
		// none of the delivered packets was for the attempt: end it from outside
		cancel()
		select {
		case r := <-done:
			if r.err == nil {
				return fmt.Sprintf("first Respond returned a result (%+v) although no packet under its metadata arrived", r.r)
			}
		case <-time.After(c20SPGuard):
			return "first Respond did not return after its context was cancelled"
		}
		inFlight = false
	}
	_ = firstFrom
	return step("after", c.After)
}

func c20SPEnumerate(sh *evidence.Shard) {
	env := sh.Env()
	p := sh.Part("server-puncher-histories", "enum")
	seconds := []string{"", "a1", "a2", "b", "c"}
	delivers := [][]string{{}, {"a1"}, {"a2"}, {"c"}, {"a2", "a1"}, {"b", "a2", "a1"}, {"a1", "a2"}, {"c", "b"}}
	afters := [][]string{{"a1"}, {"a2", "a1"}, {"a1", "b"}}
	p.Alphabet = map[string]any{"first": "Respond(id a, metadata a1), in flight", "second Respond(id a) metadata": seconds,
		"packets delivered while in flight (by metadata)": delivers, "packets delivered after the first Respond returned": afters, "type": []string{"hello", "ack"},
		"a Respond refused for its arguments first": []string{"no", "negative timeout", "negative interval", "no usable peer address"}}
	var item int64
	for _, refused := range []string{"", "neg-timeout", "neg-interval", "no-peers"} {
		for _, s2 := range seconds {
			for _, d := range delivers {
				for _, a := range afters {
					for _, typ := range []byte{0x01, 0x02} {
						if refused != "" && (len(d) > 1 || len(a) > 1) {
							continue // the refused call in front of the short histories only
						}
						item++
						if !env.Mine(item) {
							continue
						}
						if env.Expired() {
							p.Exhaustive = false
							p.Note("deadline reached")
							return
						}
						c := c20SPCase{SecondMeta: s2, Deliver: d, After: a, Type: typ, Refused: refused}
						p.Evaluations++
						clause := c20SPRun(&c)
						p.Class(s2, fmt.Sprint(d), fmt.Sprint(a), typ, clause == "")
						if p.Evaluations%17 == 3 {
							p.Sample(c)
						}
						if clause != "" {
							cc := c
							short := clause
							if len(short) > 90 {
								short = short[:90]
							}
							sh.Violate(p.Name, fmt.Sprintf("server-puncher/%s/second=%q,deliver=%v,after=%v,type=%d,refused=%s", short, s2, d, a, typ, refused), clause, &cc)
							if sh.NViolations() >= 4 {
								p.Exhaustive = false
								return
							}
						}
					}
				}
			}
		}
	}
}

func TestVerifC20Server(t *testing.T) {
	evidence.Main(t, "C20", evidence.Seq{Run: c20SPEnumerate, Replay: func(part string, raw json.RawMessage) (bool, bool, string) {
		if part != "server-puncher-histories" {
			return false, false, ""
		}
		var c c20SPCase
		if err := json.Unmarshal(raw, &c); err != nil {
			return true, false, err.Error()
		}
		clause := c20SPRun(&c)
		return true, clause != "", clause
	}})
}
