package realm

// C20 unit "codec": bounded-exhaustive enumeration of the punch packet codec against an
// independent reference codec (c20_ref_test.go). The package is built with the sched rewrite so
// that crypto/rand is owned: every EncodePunchPacket call runs inside a one-thread vsched
// execution whose vrand source answers the draws (1x rand.Int(1025) = padding length, then
// <padding> bytes of padding, then 8 bytes of salt - the order read off punch.go).

import (
	"bytes"
	"encoding/json"
	"fmt"
	"testing"

	"verif.local/engine/evidence"
	"verif.local/engine/vrand"
	"verif.local/engine/vsched"
)

type c20Chooser0 struct{}

func (c20Chooser0) Choose(*vsched.Choice) int { return 0 }

type c20CodecCase struct {
	Type byte `json:"type"`
	Pad  int  `json:"pad"`
	Meta int  `json:"meta"` // index into c20CodecMetas: the ENCODING metadata
	// Spell: spelling of the hex strings handed to the real codec (0 lower, 1 upper, 2 alternating);
	// pad%3 in the enumeration, so every spelling meets a third of the padding lengths
	Spell int `json:"hex_spelling"`
}

// three metadata sets: M0; M1 = M0 with the LAST nonce bit flipped (byte 15, bit 0); M2 = M0 with
// one key bit flipped (byte 31, bit 7).
func c20CodecMetas() []c20Meta {
	b := c20BaseMeta()
	return []c20Meta{b, b.flipNonceBit(120), b.flipKeyBit(255)}
}

func c20CodecSalt(c *c20CodecCase, dir string) (s [8]byte) {
	switch {
	case dir == "ref" && c.Pad%2 == 0:
		// all zero
	case dir == "ref":
		for i := range s {
			s[i] = 0xff
		}
	default:
		copy(s[:], c20Noise(fmt.Sprintf("salt/%d/%d/%d", c.Type, c.Pad, c.Meta), 8))
	}
	return s
}

func c20CodecPadByte(c *c20CodecCase, i int) byte { return byte(i*31 + c.Pad + 1) }

// c20RealEncode runs the real encoder with owned randomness. note != "" when the draw pattern is
// not the one the harness answers (then pad/salt were not honoured).
func c20RealEncode(typ byte, meta PunchMetadata, pad int, padByte func(int) byte, salt [8]byte) (pkt []byte, err error, note string) {
	o := vsched.Run(c20Chooser0{}, vsched.Options{}, func() {
		ints, reads := 0, 0
		vrand.SetSource(vsched.Cur(), func(_ *vsched.Exec, tag string, bound int64) int64 {
			switch tag {
			case "crypto/rand.Int":
				ints++
				if ints != 1 || reads != 0 || bound != 1025 {
					note = fmt.Sprintf("rand.Int draw #%d (bound %d) after %d byte draws; expected exactly one, first, bound 1025", ints, bound, reads)
				}
				return int64(pad)
			case "crypto/rand.Read":
				i := reads
				reads++
				switch {
				case i < pad:
					return int64(padByte(i))
				case i < pad+8:
					return int64(salt[i-pad])
				}
				note = fmt.Sprintf("more than %d+8 random bytes drawn", pad)
				return 0
			}
			note = "unexpected randomness tag " + tag
			return -1
		})
		pkt, err = EncodePunchPacket(PunchPacketType(typ), meta)
		if err == nil && note == "" && (ints != 1 || reads != pad+8) {
			note = fmt.Sprintf("draw pattern: %d rand.Int, %d bytes; expected 1 and %d", ints, reads, pad+8)
		}
	})
	if o.Kind != "ok" {
		note = "execution outcome " + o.Kind + ": " + o.Detail
	}
	return pkt, err, note
}

// c20Agree decodes pkt (fresh slice, cap==len) with the real decoder under m and compares with the
// reference decoder. Returns the reference verdict and a clause on disagreement.
func c20Agree(pkt []byte, m c20Meta, what string) (typ byte, pad int, ok bool, clause string) {
	in := c20Clone(pkt)
	rt, rp, rok := c20RefDecode(in, m)
	got, err := DecodePunchPacket(in, m.real())
	if !bytes.Equal(in, pkt) {
		return rt, rp, rok, what + ": decoder modified its input"
	}
	switch {
	case rok && err != nil:
		return rt, rp, rok, fmt.Sprintf("%s: reference accepts (type %d, pad %d) but DecodePunchPacket rejects: %v", what, rt, rp, err)
	case !rok && err == nil:
		return rt, rp, rok, fmt.Sprintf("%s: reference rejects but DecodePunchPacket accepts (type %d, pad %d)", what, got.Type, got.PaddingLength)
	case rok && (byte(got.Type) != rt || got.PaddingLength != rp):
		return rt, rp, rok, fmt.Sprintf("%s: decoded (type %d, pad %d), reference (type %d, pad %d)", what, got.Type, got.PaddingLength, rt, rp)
	}
	return rt, rp, rok, ""
}

// c20EncodeUnfaithful counts cases in which the real encoder did not follow the enumerated random
// draws (reported in the evidence, not a violation).
var (
	c20EncodeUnfaithful     int64
	c20EncodeUnfaithfulNote string
)

// c20CodecRun returns ("", "") or (clause id, detail).
func c20CodecRun(c *c20CodecCase) (id, detail string) {
	c20Spell = c.Spell
	defer func() { c20Spell = 0 }()
	var r [2]string
	val, stack := evidence.Catch(func() { r[0], r[1] = c20CodecRunInner(c) })
	if val != nil {
		return "panic@" + evidence.PanicSite(stack), fmt.Sprint(val)
	}
	return r[0], r[1]
}

func c20CodecRunInner(c *c20CodecCase) (string, string) {
	metas := c20CodecMetas()
	enc := metas[c.Meta]
	valid := c.Type == 0x01 || c.Type == 0x02
	padding := make([]byte, c.Pad)
	for i := range padding {
		padding[i] = c20CodecPadByte(c, i)
	}
	salt := c20CodecSalt(c, "real")
	refPkt := c20RefEncode(c.Type, enc, salt, padding)
	padLen := c.Pad // padding length of pkt (the enumerated one unless the encoder drew differently)

	// (1) real-encode -> reference
	pkt, err, note := c20RealEncode(c.Type, enc.real(), c.Pad, func(i int) byte { return padding[i] }, salt)
	if !valid {
		if err == nil {
			return "encode-accepts-invalid-type", fmt.Sprintf("EncodePunchPacket(type %d) returned %d bytes", c.Type, len(pkt))
		}
		pkt = refPkt // an attacker can still put such a packet on the wire: decoders must reject it
	} else {
		if err != nil {
			return "encode-error", err.Error()
		}
		if note != "" {
			// the encoder did not consume its randomness the way this case enumerates it (one
			// rand.Int(1025) for the padding length, then padding and salt bytes): HOW it draws is
			// not a property clause. The packet it did produce is judged by the reference decoder
			// and re-encoded by the reference from the salt and padding found in it.
			c20EncodeUnfaithful++
			if c20EncodeUnfaithfulNote == "" {
				c20EncodeUnfaithfulNote = note
			}
			t, p, ok := c20RefDecode(c20Clone(pkt), enc)
			if !ok || t != c.Type || p != len(pkt)-33 {
				return "encode-not-decodable-by-reference", fmt.Sprintf("EncodePunchPacket(type %d) produced %d bytes which the reference decodes as ok=%v type=%d pad=%d", c.Type, len(pkt), ok, t, p)
			}
			var s8 [8]byte
			copy(s8[:], pkt[:8])
			mask := c20Mask(enc.Key, s8[:])
			padding = make([]byte, p)
			for i := range padding {
				padding[i] = pkt[33+i] ^ mask[(25+i)%32]
			}
			padLen = p
			refPkt = c20RefEncode(c.Type, enc, s8, padding)
		}
		if len(pkt) != 33+padLen {
			return "encode-length", fmt.Sprintf("wire length %d, expected 33+%d", len(pkt), padLen)
		}
		if !bytes.Equal(pkt, refPkt) {
			i := 0
			for i < len(pkt) && i < len(refPkt) && pkt[i] == refPkt[i] {
				i++
			}
			return "encode-differs-from-reference", fmt.Sprintf("first difference at wire byte %d (real %s / reference %s)", i, c20Hex(pkt), c20Hex(refPkt))
		}
	}

	// (2) decodes under exactly the encoding metadata and under no other
	for mi, m := range metas {
		_, _, ok, clause := c20Agree(pkt, m, fmt.Sprintf("packet under metadata %d", mi))
		if clause != "" {
			return "decode-disagrees", clause
		}
		if want := valid && mi == c.Meta; ok != want {
			return "reference-self-check", fmt.Sprintf("reference verdict %v under metadata %d, expected %v", ok, mi, want)
		}
	}

	// (3) reference-encode (other salt, zero padding) -> real decode
	pkt2 := c20RefEncode(c.Type, enc, c20CodecSalt(c, "ref"), make([]byte, c.Pad))
	for mi, m := range metas {
		_, _, ok, clause := c20Agree(pkt2, m, fmt.Sprintf("reference-encoded packet under metadata %d", mi))
		if clause != "" {
			return "decode-of-reference-encoding-disagrees", clause
		}
		if want := valid && mi == c.Meta; ok != want {
			return "reference-self-check", fmt.Sprintf("reference verdict %v on its own encoding under metadata %d, expected %v", ok, mi, want)
		}
	}
	if !valid {
		return "", ""
	}

	// (4) every single-bit flip in the first 33 wire bytes: rejected under the encoding metadata;
	// under the other metadata the real decoder must agree with the reference (a flip of the
	// differing nonce bit legitimately turns the packet into one of the neighbouring attempt).
	for bit := 0; bit < 33*8; bit++ {
		mut := c20Clone(pkt)
		mut[bit/8] ^= 1 << (bit % 8)
		for mi, m := range metas {
			_, _, ok, clause := c20Agree(mut, m, fmt.Sprintf("bit %d (byte %d) flipped, metadata %d", bit, bit/8, mi))
			if clause != "" {
				return "bitflip-disagrees", clause
			}
			if mi == c.Meta && ok {
				return "reference-self-check", fmt.Sprintf("reference accepts header bit flip %d", bit)
			}
		}
	}
	// flips in pure padding bytes (first and last padding byte, every bit): same type, same length
	if padLen > 0 {
		for _, pos := range []int{33, 33 + padLen - 1} {
			for b := 0; b < 8; b++ {
				mut := c20Clone(pkt)
				mut[pos] ^= 1 << b
				t, p, ok, clause := c20Agree(mut, enc, fmt.Sprintf("padding byte %d bit %d flipped", pos, b))
				if clause != "" {
					return "padding-flip-disagrees", clause
				}
				if !ok || t != c.Type || p != padLen {
					return "reference-self-check", "reference changes verdict on a padding flip"
				}
			}
		}
	}

	// (5) truncation / extension by one byte, at either end
	type variant struct {
		name string
		data []byte
	}
	vs := []variant{
		{"last byte dropped", c20Clone(pkt[:len(pkt)-1])},
		{"first byte dropped", c20Clone(pkt[1:])},
		{"one 0x00 byte appended", append(c20Clone(pkt), 0x00)[: len(pkt)+1 : len(pkt)+1]},
		{"one 0xff byte appended", append(c20Clone(pkt), 0xff)[: len(pkt)+1 : len(pkt)+1]},
		{"one byte prepended", append([]byte{pkt[0]}, pkt...)[: len(pkt)+1 : len(pkt)+1]},
	}
	for vi, v := range vs {
		for mi, m := range metas {
			t, p, ok, clause := c20Agree(v.data, m, fmt.Sprintf("%s, metadata %d", v.name, mi))
			if clause != "" {
				return "resize-disagrees", clause
			}
			if mi != c.Meta {
				continue
			}
			// what the property allows: rejected, or - only padding changed - same type
			var want bool
			switch vi {
			case 0:
				want = padLen >= 1
			case 2, 3:
				want = padLen < 1024
			}
			if ok != want || (ok && t != c.Type) || (ok && vi == 0 && p != padLen-1) || (ok && vi >= 2 && p != padLen+1) {
				return "reference-self-check", fmt.Sprintf("reference verdict on %q: ok=%v type=%d pad=%d", v.name, ok, t, p)
			}
		}
	}
	return "", ""
}

func c20CodecEnumerate(sh *evidence.Shard) {
	env := sh.Env()
	p := sh.Part("codec", "enum")
	types := []byte{0x01, 0x02, 0x00, 0x03}
	p.Alphabet = map[string]any{
		"type":              "0x01 hello, 0x02 ack, 0x00, 0x03 (invalid: encoder must refuse; reference-built packet must be rejected)",
		"padding_length":    "every value 0..1024 (the whole range randomPaddingLength can draw)",
		"encoding_metadata": "M0; M1 = M0 with nonce byte 15 bit 0 flipped; M2 = M0 with key byte 31 bit 7 flipped; every packet decoded under all three",
		"hex_spelling":      "of the metadata strings given to the real codec: lower / UPPER / alternating case, by padding length mod 3",
		"salt":              "real-encode direction: 8 SHA-derived bytes per case; reference-encode direction: all 0x00 (even pad) / all 0xff (odd pad)",
		"mutations":         "each of the 264 single-bit flips of wire bytes 0..32; all 8 bits of the first and of the last padding byte; drop last/first byte; append 0x00/0xff; prepend one byte - each under all three metadata sets",
	}
	p.Bounds = map[string]any{"cases": len(types) * 1025 * 3}
	var item int64
	viol := 0
	defer func() {
		if c20EncodeUnfaithful > 0 {
			p.Count("encoder_did_not_follow_the_enumerated_draws", c20EncodeUnfaithful)
			p.Exhaustive = false
			p.Note("enumeration fidelity lost on the ENCODE side (not a violation): %s; the packets the encoder produced were judged by the reference decoder instead; every padding length is still covered on the decode side through reference-encoded packets", c20EncodeUnfaithfulNote)
		}
	}()
	for _, typ := range types {
		for pad := 0; pad <= 1024; pad++ {
			for mi := 0; mi < 3; mi++ {
				item++
				if !env.Mine(item) {
					continue
				}
				if item&255 == 0 && env.Expired() {
					p.Exhaustive = false
					p.Note("deadline reached at type %d pad %d", typ, pad)
					return
				}
				c := &c20CodecCase{Type: typ, Pad: pad, Meta: mi, Spell: pad % 3}
				p.Evaluations++
				id, detail := c20CodecRun(c)
				p.Class(typ, pad, mi, id)
				if p.Evaluations%1531 == 1 {
					p.Sample(c)
				}
				if id != "" {
					cc := *c
					sh.Violate(p.Name, fmt.Sprintf("codec/%s/type=%d,pad=%d,meta=%d", id, typ, pad, mi), id+": "+detail, &cc)
					if viol++; viol >= 4 {
						p.Exhaustive = false
						p.Note("stopped after 4 violations in this shard (type %d pad %d)", typ, pad)
						return
					}
				}
				if typ == 0x01 || typ == 0x02 {
					p.Count("real_decodes", int64(3+3+264*3+15))
					if pad > 0 {
						p.Count("real_decodes", 16)
					}
				} else {
					p.Count("real_decodes", 6)
				}
			}
		}
	}
}

func TestVerifC20Codec(t *testing.T) {
	evidence.Main(t, "C20", evidence.Seq{
		Run: c20CodecEnumerate,
		Replay: func(part string, raw json.RawMessage) (bool, bool, string) {
			if part != "codec" {
				return false, false, ""
			}
			var c c20CodecCase
			if err := json.Unmarshal(raw, &c); err != nil {
				return true, false, err.Error()
			}
			id, detail := c20CodecRun(&c)
			return true, id != "", id + ": " + detail
		},
	})
}
