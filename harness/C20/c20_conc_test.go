package realm

// C20 unit "conc": the real PunchPacketConn (sched rewrite: its RWMutex, channel sends and the
// inner socket are scheduling points) read by a reader loop while attempts are registered and
// removed concurrently. Oracle: every packet the inner socket hands to the demux is an operation
// with a call stamp (handed out) and a return stamp (surfaced from ReadFrom / the loop came back
// for the next packet = diverted); together with the Add/Remove calls the history must be
// linearizable against "diverted <=> the packet's attempt is registered" (engine/lin). Hence a
// packet read entirely after RemovePunchAttempt returned must surface, one read entirely after
// AddPunchAttempt returned (and before Remove was called) must be diverted, overlapping ones may
// go either way, and a QUIC-like packet can never be diverted.

import (
	"bytes"
	"errors"
	"fmt"
	"net"
	"sort"
	"strings"
	"testing"

	"verif.local/engine/explore"
	"verif.local/engine/lin"
	"verif.local/engine/vchan"
	"verif.local/engine/vnet"
	"verif.local/engine/vsched"
	"verif.local/engine/vsync"
)

type c20CPkt struct {
	name string
	id   string // attempt the packet belongs to ("" = not a punch packet)
	typ  byte
	pad  int
	data []byte
	from *net.UDPAddr
}

type c20Flight struct {
	op *lin.Op
	pk *c20CPkt
}

type c20Drv struct {
	e        *vsched.Exec
	inner    *vnet.PacketConn
	pc       *PunchPacketConn
	h        lin.History
	metas    map[string]c20Meta
	byAddr   map[string]*c20CPkt
	seq      int
	inflight *c20Flight
	handed   int
	diverted []*c20CPkt // in order
	surfaced []*c20CPkt
	events   []PunchPacketEvent
	readErr  error
	readDone bool
}

// c20Stamp wraps the inner socket: it sees every iteration of the demux loop.
type c20Stamp struct {
	*vnet.PacketConn
	d *c20Drv
}

func (c *c20Stamp) ReadFrom(b []byte) (int, net.Addr, error) {
	d := c.d
	if f := d.inflight; f != nil {
		// the loop came back without returning the previous packet: it was diverted
		d.inflight = nil
		d.h.End(f.op, "diverted")
		d.diverted = append(d.diverted, f.pk)
	}
	n, addr, err := c.PacketConn.ReadFrom(b)
	if err != nil {
		return n, addr, err
	}
	pk := d.byAddr[addr.String()]
	if pk == nil {
		d.e.Fail("inner socket returned a packet from unknown source %v", addr)
		return n, addr, err
	}
	d.handed++
	d.inflight = &c20Flight{op: d.h.Begin(0, "pkt", pk.id), pk: pk}
	return n, addr, err
}

func c20NewDrv(e *vsched.Exec, evBuf int) *c20Drv {
	d := &c20Drv{e: e, inner: vnet.NewPacketConn("inner", 4433), byAddr: map[string]*c20CPkt{}}
	base := c20BaseMeta()
	d.metas = map[string]c20Meta{"x": base, "y": base.flipNonceBit(120)}
	pc, err := NewPunchPacketConn(&c20Stamp{d.inner, d}, evBuf)
	if err != nil {
		panic(err)
	}
	d.pc = pc
	return d
}

// mk builds (does not inject) the next packet; every packet has its own source address.
func (d *c20Drv) mk(id string, typ byte, pad int) *c20CPkt {
	d.seq++
	pk := &c20CPkt{id: id, typ: typ, pad: pad, from: c20UDP(byte(d.seq), 6000+d.seq)}
	if id == "" {
		pk.name = fmt.Sprintf("quic#%d", d.seq)
		pk.data = c20QUICShort(pk.name, 40+pad)
	} else {
		pk.name = fmt.Sprintf("punch(%s)#%d", id, d.seq)
		var salt [8]byte
		copy(salt[:], c20Noise(pk.name, 8))
		pk.data = c20RefEncode(typ, d.metas[id], salt, c20Noise("pad", pad))
	}
	d.byAddr[pk.from.String()] = pk
	return pk
}

func (d *c20Drv) inject(pk *c20CPkt) { d.inner.Inject(pk.data, pk.from) }

func (d *c20Drv) add(th int, id string) {
	op := d.h.Begin(th, "add", id)
	err := d.pc.AddPunchAttempt(id, d.metas[id].real())
	d.h.End(op, err == nil)
	if err != nil {
		d.e.Fail("AddPunchAttempt(%s): %v", id, err)
	}
}

func (d *c20Drv) remove(th int, id string) {
	op := d.h.Begin(th, "remove", id)
	d.pc.RemovePunchAttempt(id)
	d.h.End(op, nil)
}

// reader is the QUIC side: it reads until the socket fails.
func (d *c20Drv) reader() {
	defer func() { d.readDone = true }()
	for i := 0; i < 64; i++ {
		buf := bytes.Repeat([]byte{0xee}, 2048)
		n, addr, err := d.pc.ReadFrom(buf)
		if err != nil {
			d.readErr = err
			return
		}
		f := d.inflight
		d.inflight = nil
		if f == nil {
			d.e.Fail("ReadFrom returned %d bytes from %v that the inner socket did not hand out", n, addr)
			return
		}
		d.h.End(f.op, "surfaced")
		d.surfaced = append(d.surfaced, f.pk)
		if n != len(f.pk.data) || !bytes.Equal(buf[:n], f.pk.data) {
			d.e.Fail("%s surfaced altered: %s, injected %s", f.pk.name, c20Hex(buf[:n]), c20Hex(f.pk.data))
		}
		if addr != net.Addr(f.pk.from) {
			d.e.Fail("%s surfaced with source %v, injected from %v", f.pk.name, addr, f.pk.from)
		}
	}
	d.e.Fail("reader: more than 64 packets")
}

// consumer drains Events() until done is closed.
func (d *c20Drv) consumer(done chan struct{}) {
	for {
		s := vchan.Select(false, vchan.R(d.pc.Events()), vchan.R(done))
		if s.I != 0 {
			return
		}
		d.events = append(d.events, vchan.Val[PunchPacketEvent](d.pc.Events(), s))
	}
}

var c20LinModel = lin.Model[string]{
	Init: func() string { return "" },
	Key:  func(s string) string { return s },
	Step: func(s string, op *lin.Op) (string, bool) {
		set := map[string]bool{}
		for _, id := range strings.Split(s, ",") {
			if id != "" {
				set[id] = true
			}
		}
		id, _ := op.In.(string)
		switch op.Name {
		case "add":
			set[id] = true
		case "remove":
			delete(set, id)
		case "pkt":
			want := "surfaced"
			if id != "" && set[id] {
				want = "diverted"
			}
			return s, op.Out == want
		}
		var ids []string
		for k := range set {
			ids = append(ids, k)
		}
		sort.Strings(ids)
		return strings.Join(ids, ","), true
	},
}

// finish: drains what is left in the event channel, then runs the oracles.
func (d *c20Drv) finish(expectHanded int) {
	e := d.e
	for {
		s := vchan.Select(true, vchan.R(d.pc.Events()))
		if s.I != 0 {
			break
		}
		d.events = append(d.events, vchan.Val[PunchPacketEvent](d.pc.Events(), s))
	}
	if !d.readDone {
		e.Fail("reader loop did not return after Close")
	} else if !errors.Is(d.readErr, net.ErrClosed) {
		e.Fail("reader loop ended with %v, expected net.ErrClosed", d.readErr)
	}
	if d.inflight != nil {
		e.Fail("%s was handed to the demux and neither surfaced nor followed by another read", d.inflight.pk.name)
	}
	if expectHanded >= 0 && d.handed != expectHanded {
		e.Fail("%d packets injected before Close, %d read from the inner socket", expectHanded, d.handed)
	}
	for _, pk := range d.diverted {
		if pk.id == "" {
			e.Fail("QUIC-like packet %s withheld", pk.name)
		}
	}
	// events: a subsequence of the diverted packets (drops are legal only through the full
	// buffer), each describing its packet; the first diverted packet always finds the buffer empty
	j := 0
	for _, ev := range d.events {
		for j < len(d.diverted) && c20AddrPort(d.diverted[j].from) != ev.From {
			j++
		}
		if j == len(d.diverted) {
			e.Fail("punch event {id %q from %v} does not correspond (in order) to a diverted packet", ev.AttemptID, ev.From)
			break
		}
		pk := d.diverted[j]
		j++
		if ev.AttemptID != pk.id || byte(ev.Packet.Type) != pk.typ || ev.Packet.PaddingLength != pk.pad {
			e.Fail("event for %s: {id %q type %d pad %d}, expected {id %q type %d pad %d}", pk.name, ev.AttemptID, ev.Packet.Type, ev.Packet.PaddingLength, pk.id, pk.typ, pk.pad)
		}
	}
	if len(d.diverted) > 0 && len(d.events) == 0 {
		e.Fail("%d packets diverted but no punch event was emitted", len(d.diverted))
	}
	if !lin.Check(c20LinModel, &d.h) {
		e.Fail("demux history is not linearizable against 'diverted <=> attempt registered': %s", d.h.String())
	}
	e.Logf("%s", d.h.String())
	e.Logf("events=%d", len(d.events))
}

func c20ConcScenarios() []*explore.Scenario {
	// classic preemption bounding (FreeSwitch): the harnesses have 4 threads, which keeps it feasible
	q, th := explore.Bounds{P: 2, FreeSwitch: true}, explore.Bounds{P: 3, FreeSwitch: true}
	return []*explore.Scenario{
		// reader || registrar (which also injects, so some packets are ordered after add/remove
		// by construction) || event consumer; event buffer 1
		{Name: "reader-registrar-consumer", Quick: q, Thorough: th, Body: func(e *vsched.Exec) {
			d := c20NewDrv(e, 1)
			p1, q1 := d.mk("x", 0x01, 0), d.mk("", 0, 0)
			p2, q2, p3, p4, q3 := d.mk("x", 0x02, 5), d.mk("", 0, 1), d.mk("x", 0x01, 1024), d.mk("x", 0x01, 1), d.mk("", 0, 2)
			d.inject(p1)
			d.inject(q1)
			done := make(chan struct{})
			var readers, others, cons vsync.WaitGroup
			readers.Add(1)
			vsched.Go(func() { defer readers.Done(); d.reader() })
			others.Add(1)
			vsched.Go(func() {
				defer others.Done()
				d.add(1, "x")
				d.inject(p2)
				d.inject(q2)
				d.inject(p3)
				d.remove(1, "x")
				d.inject(p4)
				d.inject(q3)
			})
			cons.Add(1)
			vsched.Go(func() { defer cons.Done(); d.consumer(done) })
			others.Wait()
			e.WaitIdle()
			_ = d.pc.Close()
			readers.Wait()
			vchan.Close(done)
			cons.Wait()
			d.finish(7)
		}},
		// two attempts registered/removed by two threads, no consumer: after the first event the
		// buffer stays full and every later emit takes the non-blocking path
		{Name: "two-registrars-full-buffer", Quick: q, Thorough: th, Body: func(e *vsched.Exec) {
			d := c20NewDrv(e, 1)
			px0 := d.mk("x", 0x01, 0)
			px1, px2 := d.mk("x", 0x01, 2), d.mk("x", 0x02, 3)
			py1, py2, qq := d.mk("y", 0x02, 0), d.mk("y", 0x01, 9), d.mk("", 0, 0)
			d.inject(px0)
			var readers, others vsync.WaitGroup
			readers.Add(1)
			vsched.Go(func() { defer readers.Done(); d.reader() })
			others.Add(2)
			vsched.Go(func() {
				defer others.Done()
				d.add(1, "x")
				d.inject(px1)
				d.remove(1, "x")
				d.inject(px2)
			})
			vsched.Go(func() {
				defer others.Done()
				d.add(2, "y")
				d.inject(py1)
				d.inject(qq)
				d.remove(2, "y")
				d.inject(py2)
			})
			others.Wait()
			e.WaitIdle()
			_ = d.pc.Close()
			readers.Wait()
			d.finish(6)
		}},
		// registry dimension "two attempts registered AT ONCE whose metadata share the obfs key and
		// differ in the nonce" (x and y: the client picks the metadata, so this is legal): a punch
		// packet of either attempt unmasks to the magic under the other's key too and must still be
		// tried against (and diverted by) its own attempt, whichever of the two the registry scan
		// meets first. In this build the scan order is fixed (map ranges are sorted by id, x before
		// y), so packets of BOTH attempts are sent while both are registered: the packet of the
		// attempt scanned second is the one that has to get past the other one. One registrar, so
		// the pair is registered in every schedule; after remove(x) the packets of x surface and
		// those of y are still diverted. (Added after the independently seeded change C20-10: the
		// scan stopped at the first attempt whose key unmasked the magic, nonce mismatch included.)
		{Name: "shared-key-pair-registered-at-once(x,y:same-key-other-nonce)", Quick: q, Thorough: th, Body: func(e *vsched.Exec) {
			d := c20NewDrv(e, 1)
			q0 := d.mk("", 0, 0)
			px1, py1, q1, py2, px2 := d.mk("x", 0x01, 0), d.mk("y", 0x02, 3), d.mk("", 0, 1), d.mk("y", 0x01, 1024), d.mk("x", 0x02, 1)
			px3, py3, q2 := d.mk("x", 0x01, 2), d.mk("y", 0x01, 0), d.mk("", 0, 2)
			d.inject(q0)
			done := make(chan struct{})
			var readers, others, cons vsync.WaitGroup
			readers.Add(1)
			vsched.Go(func() { defer readers.Done(); d.reader() })
			others.Add(1)
			vsched.Go(func() {
				defer others.Done()
				d.add(1, "x")
				d.add(1, "y")
				for _, pk := range []*c20CPkt{px1, py1, q1, py2, px2} {
					d.inject(pk)
				}
				e.WaitIdle() // all five handled with both attempts registered
				d.remove(1, "x")
				d.inject(px3)
				d.inject(py3)
				d.inject(q2)
			})
			cons.Add(1)
			vsched.Go(func() { defer cons.Done(); d.consumer(done) })
			others.Wait()
			e.WaitIdle()
			_ = d.pc.Close()
			readers.Wait()
			vchan.Close(done)
			cons.Wait()
			d.finish(9)
			// directed form of the linearizability verdict for the window in which both were registered
			for _, pk := range d.surfaced {
				if pk == px1 || pk == py1 || pk == py2 || pk == px2 {
					e.Fail("%s reached QUIC while attempts x and y (same obfs key, other nonce) were both registered", pk.name)
				}
			}
		}},
		// Close racing with the reader and the registrar: the reader must come back with
		// net.ErrClosed wherever Close lands, a later ReadFrom must fail at once
		{Name: "close-race", Quick: q, Thorough: th, Body: func(e *vsched.Exec) {
			d := c20NewDrv(e, 1)
			d.inject(d.mk("x", 0x01, 0))
			d.inject(d.mk("", 0, 0))
			d.inject(d.mk("x", 0x02, 1))
			var wg vsync.WaitGroup
			wg.Add(3)
			vsched.Go(func() { defer wg.Done(); d.reader() })
			vsched.Go(func() { defer wg.Done(); d.add(1, "x"); d.remove(1, "x") })
			vsched.Go(func() { defer wg.Done(); _ = d.pc.Close() })
			wg.Wait()
			if _, _, err := d.pc.ReadFrom(make([]byte, 64)); !errors.Is(err, net.ErrClosed) {
				e.Fail("ReadFrom after Close returned %v", err)
			}
			d.finish(-1)
		}},
	}
}

func TestVerifC20Conc(t *testing.T) {
	explore.Main(t, "C20", c20ConcScenarios())
}
