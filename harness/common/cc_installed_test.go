package congestion

// C11 / C12, unit "installed": the controller as the CONNECTION sees it. The trace harnesses of C11
// and C12 build a sender and call its methods themselves; production installs it with
// congestion.UseBrutal / UseBBR / UseConfigured on a quic.Conn, and from then on quic-go talks to
// whatever VALUE was handed to SetCongestionControl: acknowledgement and loss batches reach it
// through OnCongestionEventEx only if that value implements congestion.CongestionControlEx,
// otherwise through the per-packet legacy callbacks, which both senders leave empty. This unit
// installs the controller the production way on a fake connection (engine/vquic, which dispatches
// exactly as sentPacketHandler.SetCongestionControl does) and checks the property's clauses on
// what comes back through the interface:
//   - Brutal: the window reflects the loss-compensation factor acked/(acked+lost) in [0.8, 1]
//     (1 below 50 samples or when compensation is disabled);
//   - BBR: on a loss-free path the window grows beyond the initial window while every round is
//     acknowledged, for each profile.
// Bounded-exhaustive over the small grids below. Added after the independently seeded changes
// C11-7 and C12-7 (a wrapper struct embedding congestion.CongestionControl hid OnCongestionEventEx).
//
// C10, unit "installed" (TestVerifC10Installed): the same Brutal cases crossed with the process
// environment answer HYSTERIA_BRUTAL_DEBUG unset / "true" at the moment the controller is built
// (brutal.NewBrutalSender reads it through os.Getenv; bin/vcheck removes it from the environment of
// the test binaries, so the harness sets and restores it around UseBrutal). Judged by C10's clause
// "the rate reported to the application is the rate actually enforced": the window read back through
// the connection corresponds to the negotiated rate itself when loss compensation is disabled, and to
// at most rate/0.8 with the documented factor otherwise - whatever the diagnostics switch says.
// Added after the independently seeded change C10-10 (with the debug variable set, a sender with
// disableLossCompensation kept sampling and stored the 0.8 floor on the "ACK rate too low" path, so
// it paced and sized its window at 1.25x the negotiated rate).

import (
	"encoding/json"
	"fmt"
	"math"
	"net"
	"os"
	"testing"
	"time"

	"github.com/apernet/quic-go/congestion"
	"github.com/apernet/quic-go/monotime"

	"verif.local/engine/evidence"
	"verif.local/engine/vquic"
)

// the variable brutal.NewBrutalSender reads (brutal.debugEnv, unexported)
const ccInstBrutalDebugEnv = "HYSTERIA_BRUTAL_DEBUG"

type ccInstCase struct {
	Kind    string `json:"kind"` // brutal | bbr
	Rate    uint64 `json:"rate,omitempty"`
	NoComp  bool   `json:"disable_loss_compensation,omitempty"`
	Debug   bool   `json:"brutal_debug_env,omitempty"` // HYSTERIA_BRUTAL_DEBUG=true while the controller is built (C10)
	Acked   int    `json:"acked,omitempty"`
	Lost    int    `json:"lost,omitempty"`
	Batches int    `json:"batches,omitempty"`
	Profile string `json:"profile,omitempty"`
	Via     string `json:"via,omitempty"` // UseBBR | UseConfigured
	RTTms   int    `json:"rtt_ms"`
}

func ccInstConn() *vquic.Conn {
	return vquic.NewDetachedConn(&net.UDPAddr{IP: net.IPv4(10, 0, 0, 1), Port: 443}, &net.UDPAddr{IP: net.IPv4(203, 0, 113, 5), Port: 40000})
}

func ccInstRun(c *ccInstCase) (clause string) {
	val, stack := evidence.Catch(func() { clause = ccInstRunInner(c) })
	if val != nil {
		return fmt.Sprintf("panic: %v at %s", val, evidence.PanicSite(stack))
	}
	return clause
}

func ccInstRunInner(c *ccInstCase) string {
	conn := ccInstConn()
	rtt := time.Duration(c.RTTms) * time.Millisecond
	conn.RTT.Min, conn.RTT.Latest, conn.RTT.Smoothed = rtt, rtt, rtt
	now := monotime.Now()
	switch c.Kind {
	case "brutal":
		if c.Debug {
			// environment answer: the diagnostics switch is read once, when the sender is built
			old, had := os.LookupEnv(ccInstBrutalDebugEnv)
			os.Setenv(ccInstBrutalDebugEnv, "true")
			UseBrutal(conn, c.Rate, c.NoComp)
			if had {
				os.Setenv(ccInstBrutalDebugEnv, old)
			} else {
				os.Unsetenv(ccInstBrutalDebugEnv)
			}
		} else {
			UseBrutal(conn, c.Rate, c.NoComp)
		}
		cc := conn.Congestion()
		if cc == nil {
			return "UseBrutal installed no controller on the connection"
		}
		base := float64(c.Rate) * rtt.Seconds() * 2
		if base < 4*1252 {
			return "" // window on its floor: the factor is not visible through it (grid avoids this)
		}
		pn := congestion.PacketNumber(0)
		// the batches of one second, spread over it
		for b := 0; b < c.Batches; b++ {
			var acked []congestion.AckedPacketInfo
			var lost []congestion.LostPacketInfo
			na, nl := c.Acked/c.Batches, c.Lost/c.Batches
			if b == c.Batches-1 {
				na, nl = c.Acked-na*(c.Batches-1), c.Lost-nl*(c.Batches-1)
			}
			t := now + monotime.Time(time.Duration(b)*900*time.Millisecond/time.Duration(c.Batches))
			for i := 0; i < na; i++ {
				acked = append(acked, congestion.AckedPacketInfo{PacketNumber: pn, BytesAcked: 1252, ReceivedTime: t})
				pn++
			}
			for i := 0; i < nl; i++ {
				lost = append(lost, congestion.LostPacketInfo{PacketNumber: pn, BytesLost: 1252})
				pn++
			}
			if len(acked)+len(lost) == 0 {
				continue
			}
			conn.AckEvent(congestion.ByteCount(1252*(na+nl)), t, acked, lost)
		}
		want := 1.0
		if !c.NoComp && c.Acked+c.Lost >= 50 {
			want = math.Max(0.8, float64(c.Acked)/float64(c.Acked+c.Lost))
		}
		got := base / float64(cc.GetCongestionWindow())
		if c.Debug && math.Abs(got-want) > 0.011 {
			return fmt.Sprintf("Brutal installed with UseBrutal(rate=%d, disableLossCompensation=%v) while HYSTERIA_BRUTAL_DEBUG=true: after the connection reported %d acknowledged and %d lost packets within one second, the window %d corresponds to %.3f x the negotiated rate (factor %.3f), expected %.3f x (factor %.3f): the diagnostics switch changes the rate enforced, which is no longer the rate negotiated and reported to the application",
				c.Rate, c.NoComp, c.Acked, c.Lost, cc.GetCongestionWindow(), 1/got, got, 1/want, want)
		}
		if math.Abs(got-want) > 0.011 {
			return fmt.Sprintf("Brutal installed with UseBrutal(rate=%d, disableLossCompensation=%v): after the connection reported %d acknowledged and %d lost packets within one second, the window %d corresponds to a loss-compensation factor %.3f, expected %.3f (the controller does not see the connection's acknowledgements and losses, or computes another factor)",
				c.Rate, c.NoComp, c.Acked, c.Lost, cc.GetCongestionWindow(), got, want)
		}
	case "bbr":
		prof, err := NormalizeBBRProfile(c.Profile) // as the client and server configuration code does
		if err != nil {
			return "NormalizeBBRProfile: " + err.Error()
		}
		typ := TypeBBR
		if c.Via != "UseConfigured" {
			typ = "" // the default congestion type
		}
		UseConfigured(conn, typ, prof)
		cc := conn.Congestion()
		if cc == nil {
			return "no controller installed on the connection for congestion type bbr"
		}
		w0 := cc.GetCongestionWindow()
		pn := congestion.PacketNumber(0)
		t := now
		for round := 0; round < 12; round++ {
			w := cc.GetCongestionWindow()
			n := int(w / 1252)
			if n < 1 {
				n = 1
			}
			if n > 4000 {
				n = 4000
			}
			var acked []congestion.AckedPacketInfo
			inflight := congestion.ByteCount(0)
			for i := 0; i < n; i++ {
				inflight += 1252
				cc.OnPacketSent(t+monotime.Time(time.Duration(i)*rtt/time.Duration(2*n)), inflight, pn, 1252, true)
				acked = append(acked, congestion.AckedPacketInfo{PacketNumber: pn, BytesAcked: 1252, ReceivedTime: t + monotime.Time(rtt)})
				pn++
			}
			t += monotime.Time(rtt)
			// acknowledged in two batches, as a receiver acknowledging every other packet would
			h := len(acked) / 2
			if h > 0 {
				conn.AckEvent(inflight, t, acked[:h], nil)
			}
			conn.AckEvent(inflight-congestion.ByteCount(1252*h), t+monotime.Time(time.Millisecond), acked[h:], nil)
			t += monotime.Time(2 * time.Millisecond)
		}
		w1 := cc.GetCongestionWindow()
		if w1 < 2*w0 {
			return fmt.Sprintf("BBR (%s, installed via %s): 12 loss-free rounds in which everything sent was acknowledged left the window at %d (initially %d): the controller installed on the connection does not see the connection's acknowledgements, so it can never reach the path's capacity",
				c.Profile, c.Via, w1, w0)
		}
	}
	return ""
}

func ccInstEnumerate(prop string) func(sh *evidence.Shard) {
	return func(sh *evidence.Shard) {
		env := sh.Env()
		p := sh.Part("installed-on-the-connection", "enum")
		var item int64
		run := func(c ccInstCase) bool {
			item++
			if !env.Mine(item) {
				return true
			}
			p.Evaluations++
			clause := ccInstRun(&c)
			p.Class(c.Kind, c.Rate, c.NoComp, c.Acked, c.Lost, c.Batches, c.Profile, c.Via, c.RTTms, c.Debug, clause == "")
			if clause != "" {
				cc := c
				dbg := ""
				if c.Debug {
					dbg = ",brutal_debug_env=true"
				}
				short := clause
				if len(short) > 60 {
					short = short[:60]
				}
				sh.Violate(p.Name, fmt.Sprintf("installed/%s/%s/rate=%d,nocomp=%v,acked=%d,lost=%d,profile=%s,via=%s%s", c.Kind, short, c.Rate, c.NoComp, c.Acked, c.Lost, c.Profile, c.Via, dbg), clause, &cc)
			}
			return sh.NViolations() < 6
		}
		if prop == "C11" {
			rates := []uint64{1 << 20, 12500000, 1250000000}
			samples := [][2]int{{0, 0}, {49, 0}, {40, 9}, {40, 10}, {50, 0}, {100, 0}, {99, 1}, {90, 10}, {80, 20}, {79, 21}, {60, 40}, {10, 90}, {0, 60}, {1000, 250}, {1000, 251}}
			p.Alphabet = map[string]any{"installed_with": "congestion.UseBrutal on a connection that dispatches acks like quic-go's sentPacketHandler", "rate": rates, "disable_loss_compensation": []bool{false, true},
				"(acked,lost) within one second": samples, "batches": []int{1, 4}, "rtt_ms": []int{50, 200}}
			for _, r := range rates {
				for _, nc := range []bool{false, true} {
					for _, s := range samples {
						for _, b := range []int{1, 4} {
							for _, rtt := range []int{50, 200} {
								if !run(ccInstCase{Kind: "brutal", Rate: r, NoComp: nc, Acked: s[0], Lost: s[1], Batches: b, RTTms: rtt}) {
									return
								}
							}
						}
					}
				}
			}
			return
		}
		if prop == "C10" {
			// C10: the negotiated rate as enforced, with the diagnostics switch off and on. The debug
			// lines go to stdout (at most one per two seconds of the clock), so the grid is kept small.
			// Added after the independently seeded change C10-10 (see the head of this file).
			rates := []uint64{1 << 20, 12500000}
			samples := [][2]int{{0, 0}, {40, 9}, {40, 10}, {50, 0}, {90, 10}, {80, 20}, {79, 21}, {60, 40}, {0, 60}, {1000, 251}}
			if env.Thorough() {
				rates = []uint64{1 << 20, 12500000, 1250000000}
				samples = [][2]int{{0, 0}, {49, 0}, {40, 9}, {40, 10}, {50, 0}, {100, 0}, {99, 1}, {90, 10}, {80, 20}, {79, 21}, {60, 40}, {10, 90}, {0, 60}, {1000, 250}, {1000, 251}}
			}
			p.Alphabet = map[string]any{"installed_with": "congestion.UseBrutal on a connection that dispatches acks like quic-go's sentPacketHandler", "rate": rates, "disable_loss_compensation": []bool{false, true},
				"env HYSTERIA_BRUTAL_DEBUG while the controller is built": []string{"(unset)", "true"}, "(acked,lost) within one second": samples, "batches": []int{1, 4}, "rtt_ms": []int{50, 200}}
			for _, r := range rates {
				for _, nc := range []bool{false, true} {
					for _, dbg := range []bool{false, true} {
						for _, s := range samples {
							for _, b := range []int{1, 4} {
								for _, rtt := range []int{50, 200} {
									if !run(ccInstCase{Kind: "brutal", Rate: r, NoComp: nc, Debug: dbg, Acked: s[0], Lost: s[1], Batches: b, RTTms: rtt}) {
										return
									}
								}
							}
						}
					}
				}
			}
			return
		}
		profiles := []string{"conservative", "standard", "aggressive", ""}
		p.Alphabet = map[string]any{"installed_with": []string{"UseConfigured(conn, \"bbr\", profile)", "UseConfigured(conn, \"\", normalised profile)"}, "profile": profiles, "rtt_ms": []int{10, 50, 200},
			"trace": "12 rounds: a window of packets sent, all acknowledged one RTT later in two batches"}
		for _, pr := range profiles {
			for _, via := range []string{"UseConfigured", "UseConfigured-default-type"} {
				for _, rtt := range []int{10, 50, 200} {
					if !run(ccInstCase{Kind: "bbr", Profile: pr, Via: via, RTTms: rtt}) {
						return
					}
				}
			}
		}
	}
}

func ccInstMain(t *testing.T, prop string) {
	evidence.Main(t, prop, evidence.Seq{Run: ccInstEnumerate(prop), Replay: func(part string, raw json.RawMessage) (bool, bool, string) {
		if part != "installed-on-the-connection" {
			return false, false, ""
		}
		var c ccInstCase
		if err := json.Unmarshal(raw, &c); err != nil {
			return true, false, err.Error()
		}
		clause := ccInstRun(&c)
		return true, clause != "", clause
	}})
}

func TestVerifC10Installed(t *testing.T) { ccInstMain(t, "C10") }
func TestVerifC11Installed(t *testing.T) { ccInstMain(t, "C11") }
func TestVerifC12Installed(t *testing.T) { ccInstMain(t, "C12") }
