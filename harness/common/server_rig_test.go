package server

// Shared rig for the harnesses that drive the REAL server (NewServer/Serve/handleClient/
// ServeHTTP/ProxyStreamHijacker/handleTCPRequest/udpSessionManager) over the fake QUIC layer
// (vquic, fake http3) under the controlled scheduler. Injected by overlay; quic imports of this
// package are switched to vquic by vgen.

import (
	"crypto/tls"
	"errors"
	"fmt"
	"io"
	"net"
	"net/http"
	"net/url"
	"os"
	"strconv"
	"strings"

	"github.com/apernet/hysteria/core/v2/internal/protocol"
	"verif.local/engine/vnet"
	"verif.local/engine/vquic"
	vh3 "verif.local/engine/vquic/http3"
	"verif.local/engine/vsched"
)

type rigEvent struct {
	Kind string // auth, tcp, udp, checkudp, connect, disconnect, tcpreq, tcperr, udpreq, udperr, traffic, online, masq
	Conn string // remote address of the connection, when known
	A    string
	B    string
	OK   bool
	N    uint64
	M    uint64
}

func (ev rigEvent) String() string {
	return fmt.Sprintf("%s[%s](%s,%s,%v,%d,%d)", ev.Kind, ev.Conn, ev.A, ev.B, ev.OK, ev.N, ev.M)
}

type rig struct {
	e      *vsched.Exec
	cfg    *Config
	srv    Server
	pc     *vnet.PacketConn
	Events []rigEvent
	// knobs
	GoodCred    string
	OnceCred    string // accepted by the authenticator the first time it is presented, rejected afterwards
	onceUsed    bool
	DialErr     map[string]error      // Outbound.TCP error per address
	Targets     map[string]*vnet.Conn // harness end of the pipe handed out by Outbound.TCP, per address
	RelayEnds   map[string]*vnet.Conn // the end given to the server, per address
	TargetBuf   int
	// TCPLikeTarget: Outbound.TCP returns a connection with net.TCPConn's ReadFrom/WriteTo
	TCPLikeTarget bool
	UDPSocks    []*rigUDPConn
	TrafficVeto func(n int, id string, tx, rx uint64) bool // n = 1-based LogTraffic call; true = veto
	trafficN    int
	// TCPErrorGate: a slow event logger. When set and it returns a predicate for reqAddr, the
	// server's TCPError call for that request blocks until the predicate holds.
	TCPErrorGate func(reqAddr string) func() bool
	Online       map[string]int
	serveDone    bool
	nclients     int
}

func (r *rig) ev(ev rigEvent) { r.Events = append(r.Events, ev) }

// --- fakes ----------------------------------------------------------------------------------

type rigAuth struct{ r *rig }

func (a rigAuth) Authenticate(addr net.Addr, auth string, tx uint64) (bool, string) {
	a.r.e.Point("env", nil, "Authenticate")
	ok := auth == a.r.GoodCred
	if a.r.OnceCred != "" && auth == a.r.OnceCred {
		// a one-time token: the backend accepts it for the first connection that presents it only
		ok = !a.r.onceUsed
		a.r.onceUsed = true
	}
	a.r.ev(rigEvent{Kind: "auth", Conn: addr.String(), A: auth, OK: ok, N: tx})
	return ok, "user:" + auth
}

type rigOutbound struct{ r *rig }

func (o rigOutbound) TCP(reqAddr string) (net.Conn, error) {
	o.r.e.Point("env", nil, "Outbound.TCP")
	if err := o.r.DialErr[reqAddr]; err != nil {
		o.r.ev(rigEvent{Kind: "tcp", A: reqAddr, OK: false})
		return nil, err
	}
	o.r.ev(rigEvent{Kind: "tcp", A: reqAddr, OK: true})
	buf := o.r.TargetBuf
	if buf == 0 {
		buf = 1 << 16
	}
	srvEnd, tgtEnd := vnet.Pipe("relay>"+reqAddr, "target:"+reqAddr, buf)
	o.r.Targets[reqAddr] = tgtEnd
	o.r.RelayEnds[reqAddr] = srvEnd
	if o.r.TCPLikeTarget {
		return rigTCPLike{srvEnd}, nil
	}
	return srvEnd, nil
}

// rigTCPLike behaves like *net.TCPConn in the two places generic copy loops look at: it implements
// io.ReaderFrom and io.WriterTo, and, as net.TCPConn does, wraps every error of those two calls
// other than io.EOF in a *net.OpError. (The direct outbound hands the server real TCP connections;
// added after the independently seeded change C15-6: io.CopyBuffer delegated to ReadFrom and the
// logger's refusal came back wrapped.)
type rigTCPLike struct{ *vnet.Conn }

func (c rigTCPLike) ReadFrom(r io.Reader) (int64, error) {
	n, err := io.Copy(struct{ io.Writer }{c.Conn}, r)
	if err != nil && err != io.EOF {
		err = &net.OpError{Op: "readfrom", Net: "tcp", Err: err}
	}
	return n, err
}

func (c rigTCPLike) WriteTo(w io.Writer) (int64, error) {
	n, err := io.Copy(w, struct{ io.Reader }{c.Conn})
	if err != nil && err != io.EOF {
		err = &net.OpError{Op: "writeto", Net: "tcp", Err: err}
	}
	return n, err
}

// rigUDPConn is a scheduler-visible fake of the server's UDPConn.
type rigUDPConn struct {
	r      *rig
	Addr   string // address given to Outbound.UDP
	inbox  []vnet.Packet
	from   []string
	closed bool
	Closes int
	Sent   []rigEvent
}

func (c *rigUDPConn) ReadFrom(b []byte) (int, string, error) {
	c.r.e.Point("net", func() bool { return len(c.inbox) > 0 || c.closed }, "udp.ReadFrom")
	if c.closed {
		return 0, "", net.ErrClosed
	}
	p := c.inbox[0]
	f := c.from[0]
	c.inbox, c.from = c.inbox[1:], c.from[1:]
	return copy(b, p.Data), f, nil
}

func (c *rigUDPConn) WriteTo(b []byte, addr string) (int, error) {
	c.r.e.Point("net", nil, "udp.WriteTo")
	if c.closed {
		return 0, net.ErrClosed
	}
	c.Sent = append(c.Sent, rigEvent{Kind: "udpwrite", A: addr, B: string(b)})
	c.r.ev(rigEvent{Kind: "udpwrite", A: addr, B: string(b)})
	return len(b), nil
}

func (c *rigUDPConn) Close() error {
	c.r.e.Point("net", nil, "udp.Close")
	c.Closes++
	c.closed = true
	return nil
}

func (c *rigUDPConn) Inject(data []byte, from string) {
	c.inbox = append(c.inbox, vnet.Packet{Data: append([]byte(nil), data...)})
	c.from = append(c.from, from)
}

func (o rigOutbound) UDP(reqAddr string) (UDPConn, error) {
	o.r.e.Point("env", nil, "Outbound.UDP")
	o.r.ev(rigEvent{Kind: "udp", A: reqAddr, OK: true})
	c := &rigUDPConn{r: o.r, Addr: reqAddr}
	o.r.UDPSocks = append(o.r.UDPSocks, c)
	return c, nil
}

func (o rigOutbound) CheckUDP(reqAddr string) error {
	o.r.ev(rigEvent{Kind: "checkudp", A: reqAddr, OK: true})
	return nil
}

type rigEventLogger struct{ r *rig }

func (l rigEventLogger) Connect(addr net.Addr, id string, tx uint64) {
	l.r.ev(rigEvent{Kind: "connect", Conn: addr.String(), A: id, N: tx})
}
func (l rigEventLogger) Disconnect(addr net.Addr, id string, err error) {
	l.r.ev(rigEvent{Kind: "disconnect", Conn: addr.String(), A: id})
}
func (l rigEventLogger) TCPRequest(addr net.Addr, id, reqAddr string) {
	l.r.ev(rigEvent{Kind: "tcpreq", Conn: addr.String(), A: id, B: reqAddr})
}
func (l rigEventLogger) TCPError(addr net.Addr, id, reqAddr string, err error) {
	l.r.ev(rigEvent{Kind: "tcperr", Conn: addr.String(), A: id, B: reqAddr, OK: err == nil})
	if l.r.TCPErrorGate != nil {
		if pred := l.r.TCPErrorGate(reqAddr); pred != nil {
			l.r.e.Point("env", pred, "slow event logger")
		}
	}
}
func (l rigEventLogger) UDPRequest(addr net.Addr, id string, sessionID uint32, reqAddr string) {
	l.r.ev(rigEvent{Kind: "udpreq", Conn: addr.String(), A: id, B: reqAddr, N: uint64(sessionID)})
}
func (l rigEventLogger) UDPError(addr net.Addr, id string, sessionID uint32, err error) {
	l.r.ev(rigEvent{Kind: "udperr", Conn: addr.String(), A: id, N: uint64(sessionID), OK: err == nil})
}

type rigTraffic struct{ r *rig }

func (t rigTraffic) LogTraffic(id string, tx, rx uint64) bool {
	t.r.e.Point("env", nil, "LogTraffic")
	t.r.trafficN++
	ok := true
	if t.r.TrafficVeto != nil && t.r.TrafficVeto(t.r.trafficN, id, tx, rx) {
		ok = false
	}
	t.r.ev(rigEvent{Kind: "traffic", A: id, N: tx, M: rx, OK: ok})
	return ok
}
func (t rigTraffic) LogOnlineState(id string, online bool) {
	t.r.e.Point("env", nil, "LogOnlineState")
	if online {
		t.r.Online[id]++
	} else {
		t.r.Online[id]--
	}
	t.r.ev(rigEvent{Kind: "online", A: id, OK: online, N: uint64(int64(t.r.Online[id]))})
}
func (t rigTraffic) TraceStream(stream HyStream, stats *StreamStats) {}
func (t rigTraffic) UntraceStream(stream HyStream)                   {}

// --- construction ---------------------------------------------------------------------------

type rigOpts struct {
	Traffic    bool
	DisableUDP bool
	Masq       http.Handler
	Mutate     func(c *Config)
}

func newRig(e *vsched.Exec, o rigOpts) *rig {
	r := &rig{e: e, GoodCred: "good", DialErr: map[string]error{}, Targets: map[string]*vnet.Conn{}, RelayEnds: map[string]*vnet.Conn{}, Online: map[string]int{}}
	r.pc = vnet.NewPacketConn("server-sock", 443)
	r.cfg = &Config{
		TLSConfig:      TLSConfig{Certificates: []tls.Certificate{{}}},
		Conn:           r.pc,
		Outbound:       rigOutbound{r},
		Authenticator:  rigAuth{r},
		EventLogger:    rigEventLogger{r},
		DisableUDP:     o.DisableUDP,
		MasqHandler:    o.Masq,
		UDPIdleTimeout: 0,
	}
	if o.Traffic {
		r.cfg.TrafficLogger = rigTraffic{r}
	}
	if o.Mutate != nil {
		o.Mutate(r.cfg)
	}
	s, err := NewServer(r.cfg)
	if err != nil {
		e.Fail("NewServer: %v", err)
		return r
	}
	r.srv = s
	vsched.GoNamed("Serve", func() {
		_ = s.Serve()
		r.serveDone = true
	})
	return r
}

// rigClient is a raw protocol client on its own socket (distinct remote address per client).
type rigClient struct {
	r    *rig
	Name string
	pc   *vnet.PacketConn
	tr   *vquic.Transport
	Conn *vquic.Conn
}

func (r *rig) dial(name string) *rigClient {
	r.nclients++
	c := &rigClient{r: r, Name: name, pc: vnet.NewPacketConn("client-sock-"+name, 50000+r.nclients)}
	c.tr = &vquic.Transport{Conn: c.pc}
	conn, err := c.tr.DialEarly(nil, r.pc.LocalAddr(), nil, nil)
	if err != nil {
		r.e.Fail("dial: %v", err)
		return c
	}
	c.Conn = conn
	return c
}

func (c *rigClient) Addr() string { return c.pc.LocalAddr().String() }

// request performs one HTTP exchange and returns exactly what the server's handler wrote.
func (c *rigClient) request(method, host, path string, hdr http.Header) (*vh3.Response, error) {
	// build the request the way quic-go/http3 does from the pseudo-headers (requestFromHeaders):
	// :path goes through url.ParseRequestURI (no fragment handling), :authority becomes Host
	u, err := url.ParseRequestURI(path)
	if err != nil {
		return nil, fmt.Errorf("rig: invalid :path %q: %w", path, err)
	}
	u.Host = host
	req := &http.Request{Method: method, URL: u, Host: host, Header: http.Header{}, Body: http.NoBody}
	if hdr != nil {
		req.Header = hdr
	}
	return vh3.DoRaw(c.Conn, req)
}

// auth sends a hysteria auth request with the given credential.
func (c *rigClient) auth(cred string, rx uint64) (*vh3.Response, error) {
	h := http.Header{}
	protocol.AuthRequestToHeader(h, protocol.AuthRequest{Auth: cred, Rx: rx})
	return c.request(http.MethodPost, protocol.URLHost, protocol.URLPath, h)
}

// rawTCP opens a stream starting with frame type 0x401 and a TCPRequest for addr.
func (c *rigClient) rawTCP(addr string) (*vquic.Stream, error) {
	str, err := c.Conn.OpenStream()
	if err != nil {
		return nil, err
	}
	if err := protocol.WriteTCPRequest(str, addr); err != nil {
		return str, err
	}
	// half-close: a stream the dispatcher declines is handed to the HTTP/3 request parser, which
	// (like quic-go/http3) blocks on incomplete frames until the stream ends
	_ = str.Close()
	return str, nil
}

// dgram sends one unfragmented UDPMessage.
func (c *rigClient) dgram(session uint32, addr string, data []byte) error {
	m := &protocol.UDPMessage{SessionID: session, PacketID: 0, FragID: 0, FragCount: 1, Addr: addr, Data: data}
	buf := make([]byte, m.Size())
	n := m.Serialize(buf)
	return c.Conn.SendDatagram(buf[:n])
}

func (c *rigClient) close() {
	if c.Conn != nil {
		_ = c.Conn.CloseWithError(0x100, "")
	}
	_ = c.tr.Close()
	_ = c.pc.Close()
}

// shutdown closes the server and waits for quiescence; reports leaked server threads.
func (r *rig) shutdown(leakCheck bool) {
	if r.srv != nil {
		_ = r.srv.Close()
	}
	r.e.WaitIdle()
	if leakCheck {
		if alive := r.e.Alive(); len(alive) > 0 {
			r.e.Fail("threads still alive after all connections and the server were closed: %v", alive)
		}
	}
}

func (r *rig) eventsString() string {
	var sb strings.Builder
	for _, ev := range r.Events {
		sb.WriteString(ev.String())
		sb.WriteString(" ")
	}
	return sb.String()
}

// firstIndex returns the index of the first event satisfying f, or -1.
func (r *rig) firstIndex(f func(rigEvent) bool) int {
	for i, ev := range r.Events {
		if f(ev) {
			return i
		}
	}
	return -1
}

var errRigDial = errors.New("rig: dial refused")

func rigItoa(i int) string { return strconv.Itoa(i) }

// newRigSock returns a fresh fake UDP socket (for client ConnFactories).
func newRigSock(name string, port int) *vnet.PacketConn { return vnet.NewPacketConn(name, port) }

func rigGetenvTier() string { return os.Getenv("VERIF_TIER") }
