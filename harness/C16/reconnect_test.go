package client

// C16 harness: reconnecting client - one live connection, reconnect on loss, Close is final.
// REAL reconnectableClientImpl and REAL clientImpl (NewClient/connect/TCP/UDP/Close) over the
// fake QUIC layer; the harness owns the ConnFactory (socket census), configFunc (scripted),
// connectedFunc (log) and a scripted server double (up / down / rejects auth / stream limit).

import (
	"errors"
	"fmt"
	quic "github.com/apernet/quic-go"
	"net"
	"net/http"
	"strings"
	"testing"

	coreErrs "github.com/apernet/hysteria/core/v2/errors"
	"github.com/apernet/hysteria/core/v2/internal/protocol"
	"github.com/apernet/quic-go/quicvarint"
	"verif.local/engine/explore"
	"verif.local/engine/vnet"
	"verif.local/engine/vquic"
	vh3 "verif.local/engine/vquic/http3"
	"verif.local/engine/vsched"
	"verif.local/engine/vsync"
)

// c16QueueCap is the value check.json ("consts") gives udpMessageChanSize (1024 in the source) in
// the harness build, so that "an open session's receive queue is exactly full when the connection
// is lost" is an enumerable state (added after the independently seeded change C16-11, see the
// scenario kill-with-open-udp-session).
const c16QueueCap = 2

type c16Sock struct {
	*vnet.PacketConn
	idx int
}

type c16World struct {
	e               *vsched.Exec
	socks           []*c16Sock
	cfgCalls        int
	cfgScript       []string // per configFunc call: "ok" | "cfgerr"; beyond the script: ok
	connected       []int    // counts seen by connectedFunc
	srvPC           *vnet.PacketConn
	srvTr           *vquic.Transport
	srvLn           *vquic.Listener
	authMode        []string // per accepted connection: "ok" | "reject"; beyond: ok
	accepted        int
	events          []string
	closeReturnedAt int // len(events) when Close returned (-1 = not yet)
	// holdDial: the server's outbound dial for a TCP request stays pending (no response is written)
	// until the flag is cleared or the connection dies (scenario kill-while-tcp-awaits-response)
	holdDial bool
	lossKind int // kind chosen by the last killCurrent
	// onConnected: what the application's connected callback does with the Client it is handed
	// (nil = only logs), see the scenario connected-callback-uses-client
	onConnected func(c Client, count int)
}

// c16TransportClosedError models what quic-go reports on a connection whose LOCAL socket failed
// (the PacketConn obtained from the ConnFactory was closed or its read loop got an error):
// transport.go's unexported errTransportClosed - NOT one of the exported connection-level error
// types, unwrapping to net.ErrClosed and the cause. Added after the independently seeded change
// C16-12 (a response-read error was reported as a closed connection only when it was one of
// quic-go's exported error types).
type c16TransportClosedError struct{ err error }

func (e *c16TransportClosedError) Unwrap() []error { return []error{net.ErrClosed, e.err} }
func (e *c16TransportClosedError) Error() string {
	return fmt.Sprintf("quic: transport closed: %s", e.err)
}
func (e *c16TransportClosedError) Is(target error) bool {
	_, ok := target.(*c16TransportClosedError)
	return ok
}

// c16LossKinds: the ways quic-go reports a dead connection to the client side.
const c16LossKinds = 5

func (w *c16World) ev(format string, a ...any) {
	w.events = append(w.events, fmt.Sprintf(format, a...))
}

// ConnFactory
func (w *c16World) New(net.Addr) (net.PacketConn, error) {
	s := &c16Sock{PacketConn: vnet.NewPacketConn(fmt.Sprintf("sock%d", len(w.socks)), 53000+len(w.socks)), idx: len(w.socks)}
	w.socks = append(w.socks, s)
	w.ev("factory.New->sock%d", s.idx)
	return s, nil
}

func (w *c16World) openSocks() []int {
	var o []int
	for _, s := range w.socks {
		if !s.Closed() {
			o = append(o, s.idx)
		}
	}
	return o
}

func (w *c16World) serverUp() {
	if w.srvLn != nil {
		return
	}
	w.srvTr = &vquic.Transport{Conn: w.srvPC}
	ln, err := w.srvTr.Listen(nil, nil)
	if err != nil {
		w.e.Fail("server listen: %v", err)
		return
	}
	w.srvLn = ln
	vsched.GoNamed("server-accept", func() {
		for {
			conn, err := ln.Accept(nil)
			if err != nil {
				return
			}
			mode := "ok"
			if w.accepted < len(w.authMode) {
				mode = w.authMode[w.accepted]
			}
			w.accepted++
			vsched.GoNamed("server-conn", func() {
				s := vh3.Server{
					Handler: http.HandlerFunc(func(rw http.ResponseWriter, r *http.Request) {
						if mode == "reject" {
							http.NotFound(rw, r)
							return
						}
						protocol.AuthResponseToHeader(rw.Header(), protocol.AuthResponse{UDPEnabled: true})
						rw.WriteHeader(protocol.StatusAuthOK)
					}),
					StreamDispatcher: func(ft vh3.FrameType, str *vquic.Stream, err error) (bool, error) {
						if err != nil || ft != protocol.FrameTypeTCPRequest {
							return false, nil
						}
						if _, err := quicvarint.Read(quicvarint.NewReader(str)); err != nil {
							return false, err
						}
						if _, err := protocol.ReadTCPRequest(str); err != nil {
							return false, err
						}
						// the outbound dial is pending: nothing is answered until it completes
						// or the connection is gone
						w.e.Point("env", func() bool { return !w.holdDial || conn.IsClosed() }, "server outbound dial pending")
						_ = protocol.WriteTCPResponse(str, true, "ok")
						return true, nil
					},
				}
				_ = s.ServeQUICConn(conn)
			})
		}
	})
}

func (w *c16World) serverDown() {
	if w.srvTr != nil {
		_ = w.srvTr.Close()
		w.srvTr, w.srvLn = nil, nil
	}
}

// killCurrent simulates loss of the newest live connection (both sides see an idle timeout).
func (w *c16World) killCurrent() bool {
	conns := vquic.GetNet(w.e).Conns
	for i := len(conns) - 1; i >= 0; i-- {
		if !conns[i].IsClosed() {
			// "reconnect on loss", whatever way quic-go reports the loss (cost-free choice; added
			// after the independently seeded change C16-7: errors whose Temporary() is true - a
			// stateless reset is one - were no longer classified as a closed connection)
			// kind 4 = failure of the client's own socket (added after the independently seeded
			// change C16-12, see c16TransportClosedError)
			w.lossKind = w.e.Choose(c16LossKinds, vsched.KFree, "loss-kind")
			switch w.lossKind {
			case 0:
				conns[i].Kill() // idle timeout
			case 1:
				conns[i].KillWith(&quic.StatelessResetError{})
			case 2:
				conns[i].KillWith(&quic.TransportError{ErrorCode: 0x1, ErrorMessage: "internal error", Remote: true})
			case 3:
				conns[i].KillWith(&quic.ApplicationError{ErrorCode: 0x10c, ErrorMessage: "server shutting down", Remote: true})
			case 4:
				conns[i].KillWith(&c16TransportClosedError{err: errors.New("read udp: i/o error")})
			}
			w.ev("kill conn%d", i)
			return true
		}
	}
	return false
}

func c16NewWorld(e *vsched.Exec) *c16World {
	w := &c16World{e: e, srvPC: vnet.NewPacketConn("server-sock", 443), closeReturnedAt: -1}
	return w
}

func (w *c16World) newRC(lazy bool) (Client, error) {
	return NewReconnectableClient(
		func() (*Config, error) {
			w.cfgCalls++
			mode := "ok"
			if w.cfgCalls-1 < len(w.cfgScript) {
				mode = w.cfgScript[w.cfgCalls-1]
			}
			w.ev("configFunc#%d->%s", w.cfgCalls, mode)
			if mode == "cfgerr" {
				return nil, errors.New("config error")
			}
			return &Config{ConnFactory: w, ServerAddr: w.srvPC.LocalAddr(), Auth: "x"}, nil
		},
		func(c Client, info *HandshakeInfo, count int) {
			w.connected = append(w.connected, count)
			w.ev("connected#%d", count)
			if w.onConnected != nil {
				w.onConnected(c, count)
			}
		}, lazy)
}

type c16Res struct {
	Kind  string // TCP | UDP
	Err   error
	Start int
	End   int
	conn  net.Conn
}

func (w *c16World) call(rc Client, kind string) *c16Res {
	r := &c16Res{Kind: kind, Start: len(w.events)}
	w.ev("call %s", kind)
	if kind == "TCP" {
		c, err := rc.TCP("t:80")
		r.Err, r.conn = err, c
		if c != nil {
			_ = c.Close()
		}
	} else {
		u, err := rc.UDP()
		r.Err = err
		if u != nil {
			_ = u.Close()
		}
	}
	r.End = len(w.events)
	w.ev("ret %s %v", kind, c16ErrClass(r.Err))
	return r
}

func c16ErrClass(err error) string {
	if err == nil {
		return "ok"
	}
	var ce coreErrs.ClosedError
	var ne coreErrs.ConnectError
	var ae coreErrs.AuthError
	var slp *vquic.StreamLimitReachedError
	switch {
	case errors.As(err, &ce):
		return "ClosedError"
	case errors.As(err, &ne):
		return "ConnectError"
	case errors.As(err, &ae):
		return "AuthError"
	case errors.As(err, &slp) || errors.Is(err, vquic.StreamLimitReachedError{}):
		// a closed-connection error that merely WRAPS the stream-limit error is classified above
		return "StreamLimit"
	}
	return "other:" + err.Error()
}

// finalChecks: quiescent-point clauses shared by all scenarios.
func (w *c16World) finalChecks(rc Client, closed bool) {
	e := w.e
	e.WaitIdle()
	open := w.openSocks()
	if closed {
		if len(open) != 0 {
			e.Fail("after Close returned, sockets %v obtained from the connection factory are still open", open)
		}
	} else {
		if len(open) > 1 {
			e.Fail("at a quiescent point %d sockets from the connection factory are open: %v (every superseded one must be closed)", len(open), open)
		}
		if len(open) == 1 && open[0] != len(w.socks)-1 {
			e.Fail("the open socket sock%d is not the newest one (sock%d)", open[0], len(w.socks)-1)
		}
	}
	for i, c := range w.connected {
		if c != i+1 {
			e.Fail("connect counts %v are not 1,2,3,...", w.connected)
			break
		}
	}
	e.Logf("%s", strings.Join(w.events, "; "))
}

func (w *c16World) teardown(rc Client) {
	if rc != nil {
		_ = rc.Close()
	}
	w.serverDown()
	_ = w.srvPC.Close()
	w.e.WaitIdle()
	if open := w.openSocks(); len(open) != 0 {
		w.e.Fail("after Close, sockets %v are still open", open)
	}
	if alive := w.e.Alive(); len(alive) > 0 {
		w.e.Fail("threads still alive after Close and server shutdown: %v", alive)
	}
}

func c16Scenarios() []*explore.Scenario {
	q2 := explore.Bounds{P: 2}
	t3 := explore.Bounds{P: 3}
	return []*explore.Scenario{
		{Name: "kill-then-calls", Quick: q2, Thorough: t3, Body: func(e *vsched.Exec) {
			// one caller, 4 calls; a killer kills the live connection once at any point
			w := c16NewWorld(e)
			w.serverUp()
			rc, err := w.newRC(true)
			if err != nil {
				e.Fail("NewReconnectableClient: %v", err)
				return
			}
			var wg vsync.WaitGroup
			var res []*c16Res
			kills := 0
			wg.Add(2)
			vsched.GoNamed("caller", func() {
				defer wg.Done()
				for _, k := range []string{"TCP", "UDP", "TCP", "TCP"} {
					res = append(res, w.call(rc, k))
				}
			})
			vsched.GoNamed("killer", func() {
				defer wg.Done()
				e.Point("env", nil, "killer")
				if w.killCurrent() {
					kills++
				}
			})
			wg.Wait()
			closedErrs, connErrs := 0, 0
			killAt := -1
			for i, ev := range w.events {
				if strings.HasPrefix(ev, "kill ") {
					killAt = i
				}
			}
			for i, r := range res {
				cls := c16ErrClass(r.Err)
				switch cls {
				case "ok":
				case "ClosedError":
					closedErrs++
					if i+1 < len(res) && c16ErrClass(res[i+1].Err) != "ok" {
						// only one kill: the next call transparently builds a new connection
						e.Fail("call %d after a closed-connection error did not reconnect: %v", i+1, res[i+1].Err)
					}
				case "ConnectError":
					// legitimate only when the kill landed inside this call's connection attempt
					connErrs++
					if !(killAt >= r.Start && killAt <= r.End) {
						e.Fail("call %d (%s) failed with a connect error although no kill happened during it", i, r.Kind)
					}
				default:
					e.Fail("call %d (%s) failed with %s (%v)", i, r.Kind, cls, r.Err)
				}
			}
			if closedErrs+connErrs > kills {
				e.Fail("%d failed calls for %d kills", closedErrs+connErrs, kills)
			}
			// one configFunc evaluation and one factory socket per connection attempt
			if len(w.socks) != w.cfgCalls || len(w.connected)+connErrs != w.cfgCalls {
				e.Fail("attempts: configFunc=%d factory.New=%d connected=%d connect-errors=%d", w.cfgCalls, len(w.socks), len(w.connected), connErrs)
			}
			w.finalChecks(rc, false)
			w.teardown(rc)
		}},
		{Name: "two-callers-kill", Quick: q2, Thorough: t3, Body: func(e *vsched.Exec) {
			w := c16NewWorld(e)
			w.serverUp()
			rc, err := w.newRC(false)
			if err != nil {
				e.Fail("eager NewReconnectableClient: %v", err)
				return
			}
			var wg vsync.WaitGroup
			wg.Add(3)
			for _, kinds := range [][]string{{"TCP", "TCP"}, {"UDP", "TCP"}} {
				vsched.GoNamed("caller", func() {
					defer wg.Done()
					for _, k := range kinds {
						r := w.call(rc, k)
						if cls := c16ErrClass(r.Err); cls != "ok" && cls != "ClosedError" && cls != "ConnectError" {
							e.Fail("call %s failed with %s", k, cls)
						}
					}
				})
			}
			vsched.GoNamed("killer", func() {
				defer wg.Done()
				e.Point("env", nil, "killer")
				w.killCurrent()
			})
			wg.Wait()
			w.finalChecks(rc, false)
			// a fresh call after quiescence always works (reconnecting if needed) and leaves one socket
			if r := w.call(rc, "TCP"); r.Err != nil {
				if r2 := w.call(rc, "TCP"); r2.Err != nil {
					e.Fail("two consecutive calls failed after the kill: %v, %v", r.Err, r2.Err)
				}
			}
			w.finalChecks(rc, false)
			w.teardown(rc)
		}},
		{Name: "close-races-calls", Quick: q2, Thorough: t3, Body: func(e *vsched.Exec) {
			w := c16NewWorld(e)
			w.serverUp()
			rc, err := w.newRC(true)
			if err != nil {
				e.Fail("NewReconnectableClient: %v", err)
				return
			}
			var wg vsync.WaitGroup
			wg.Add(3)
			var res []*c16Res
			for _, kinds := range [][]string{{"TCP", "UDP"}, {"TCP"}} {
				vsched.GoNamed("caller", func() {
					defer wg.Done()
					for _, k := range kinds {
						res = append(res, w.call(rc, k))
					}
				})
			}
			vsched.GoNamed("closer", func() {
				defer wg.Done()
				w.ev("Close called")
				_ = rc.Close()
				w.closeReturnedAt = len(w.events)
				w.ev("Close returned")
			})
			wg.Wait()
			for _, r := range res {
				if r.Start >= w.closeReturnedAt && c16ErrClass(r.Err) != "ClosedError" {
					e.Fail("call %s started after Close returned and got %s instead of a closed-connection error", r.Kind, c16ErrClass(r.Err))
				}
			}
			for i := w.closeReturnedAt; i < len(w.events); i++ {
				if strings.HasPrefix(w.events[i], "factory.New") || strings.HasPrefix(w.events[i], "configFunc") {
					// an attempt that began before Close returned may still be finishing; one that begins after must not exist
					started := false
					for j := w.closeReturnedAt; j < i; j++ {
						if strings.HasPrefix(w.events[j], "call ") {
							started = true
						}
					}
					if started {
						e.Fail("reconnect activity (%s) by a call that started after Close returned", w.events[i])
					}
				}
			}
			// after Close every later call fails without reconnecting
			n0, c0 := len(w.socks), w.cfgCalls
			for _, k := range []string{"TCP", "UDP"} {
				if r := w.call(rc, k); c16ErrClass(r.Err) != "ClosedError" {
					e.Fail("%s after Close: %s", k, c16ErrClass(r.Err))
				}
			}
			if len(w.socks) != n0 || w.cfgCalls != c0 {
				e.Fail("calls after Close evaluated the config or opened a socket")
			}
			w.finalChecks(rc, true)
			w.teardown(nil)
		}},
		{Name: "failing-attempts", Quick: q2, Thorough: t3, Body: func(e *vsched.Exec) {
			// attempt 1 ok, kill; attempt 2 config error; attempt 3 server down; attempt 4 auth rejected; attempt 5 ok
			w := c16NewWorld(e)
			w.cfgScript = []string{"ok", "cfgerr", "ok", "ok", "ok"}
			w.authMode = []string{"ok", "reject", "ok"}
			w.serverUp()
			rc, err := w.newRC(true)
			if err != nil {
				e.Fail("NewReconnectableClient: %v", err)
				return
			}
			expect := func(step string, r *c16Res, want string) {
				if got := c16ErrClass(r.Err); got != want {
					e.Fail("%s: got %s (%v), want %s", step, got, r.Err, want)
				}
				if open := w.openSocks(); (want != "ok" && want != "StreamLimit" && len(open) != 0 && step != "after-kill") || len(open) > 1 {
					e.Fail("%s: sockets open after the call: %v", step, open)
				}
			}
			var wg vsync.WaitGroup
			wg.Add(1)
			vsched.GoNamed("caller", func() {
				defer wg.Done()
				expect("first", w.call(rc, "TCP"), "ok")
				w.killCurrent()
				expect("after-kill", w.call(rc, "TCP"), "ClosedError")
				expect("cfgerr", w.call(rc, "TCP"), "other:config error")
				w.serverDown()
				expect("server-down", w.call(rc, "UDP"), "ConnectError")
				w.serverUp()
				expect("auth-rejected", w.call(rc, "TCP"), "AuthError")
				expect("recovered", w.call(rc, "TCP"), "ok")
				// a recoverable error does not trigger a reconnect
				conns := vquic.GetNet(e).Conns
				cur := conns[len(conns)-1]
				cur.OpenStreamErr = func(n int) error {
					if n == cur.OpenStreamCalls && !strings.Contains(strings.Join(w.events, ";"), "limit-injected") {
						w.ev("limit-injected")
						return &vquic.StreamLimitReachedError{} // quic-go returns the POINTER form (streams_map_outgoing.go), see harness/conform D5
					}
					return nil
				}
				n0 := len(w.socks)
				expect("stream-limit", w.call(rc, "TCP"), "StreamLimit")
				expect("after-limit", w.call(rc, "TCP"), "ok")
				if len(w.socks) != n0 {
					e.Fail("a stream-limit error triggered a reconnect")
				}
			})
			wg.Wait()
			if fmt.Sprint(w.connected) != "[1 2]" {
				e.Fail("connect counts %v, expected [1 2] (failed attempts must not count)", w.connected)
			}
			w.finalChecks(rc, false)
			w.teardown(rc)
		}},
		{Name: "kill-with-open-udp-session(queue-fill 0..cap+1 x app-drains)", Quick: explore.Bounds{P: 1}, Thorough: q2, Body: func(e *vsched.Exec) {
			// Dimension: the state of an OPEN UDP session of the application at the moment the
			// connection is lost - its receive queue holds 0..cap datagrams (cap+1 sent = one
			// dropped), with the application draining it (a reader blocked in Receive) or not
			// (cost-free choices "udp-queue-fill", "app-drains"). udpMessageChanSize is shrunk to
			// c16QueueCap by check.json ("consts") so that "exactly full" is enumerable. Clauses:
			// once the loss has been observed (quiescence) the next UDP() reports a
			// closed-connection error - it does not hang - and the call after it reconnects
			// (config re-evaluated, one new socket, count 2, the dead socket closed).
			// Added after the independently seeded change C16-11 (closeCleanup pushed an
			// end-of-session marker into every open session's queue with a blocking send under the
			// manager's lock: with a full unread queue the cleanup never finished and every later
			// UDP() on that connection hung instead of returning ClosedError - no reconnect).
			w := c16NewWorld(e)
			w.serverUp()
			rc, err := w.newRC(true)
			if err != nil {
				e.Fail("NewReconnectableClient: %v", err)
				return
			}
			if udpMessageChanSize != c16QueueCap {
				e.Fail("harness: udpMessageChanSize=%d, expected it scaled to %d by check.json consts", udpMessageChanSize, c16QueueCap)
				return
			}
			fill := e.Choose(c16QueueCap+2, vsched.KFree, "udp-queue-fill")
			drains := e.Choose(2, vsched.KFree, "app-drains") == 1
			w.ev("fill=%d drains=%v", fill, drains)
			var wg vsync.WaitGroup
			wg.Add(1)
			vsched.GoNamed("caller", func() {
				defer wg.Done()
				w.ev("call UDP (session kept open)")
				u, err := rc.UDP()
				w.ev("ret UDP %v", c16ErrClass(err))
				if err != nil {
					e.Fail("first UDP(): %v", err)
					return
				}
				got, readerDone := 0, false
				drainAll := func() {
					for {
						if _, _, err := u.Receive(); err != nil {
							return
						}
						got++
					}
				}
				if drains {
					wg.Add(1)
					vsched.GoNamed("reader", func() {
						defer wg.Done()
						drainAll()
						readerDone = true
					})
				}
				// the server sends fill datagrams to the session
				conns := vquic.GetNet(e).Conns
				srv := conns[len(conns)-1].Peer()
				buf := make([]byte, 64)
				for i := 0; i < fill; i++ {
					m := &protocol.UDPMessage{SessionID: u.(*udpConn).ID, FragCount: 1, Addr: "d:53", Data: []byte{byte(i)}}
					if err := srv.SendDatagram(buf[:m.Serialize(buf)]); err != nil {
						e.Fail("server SendDatagram: %v", err)
					}
				}
				w.killCurrent()
				e.WaitIdle() // the loss has been observed by everything that watches the connection
				if r := w.call(rc, "UDP"); c16ErrClass(r.Err) != "ClosedError" {
					e.Fail("UDP() after the connection was lost (open session, %d datagrams sent to a queue of %d, app drains=%v): got %s (%v), want a closed-connection error", fill, c16QueueCap, drains, c16ErrClass(r.Err), r.Err)
				}
				if r := w.call(rc, "UDP"); r.Err != nil {
					e.Fail("the call after the closed-connection error did not reconnect: %v", r.Err)
				}
				if len(w.socks) != 2 || w.cfgCalls != 2 || fmt.Sprint(w.connected) != "[1 2]" {
					e.Fail("reconnect after loss with an open UDP session: configFunc=%d factory.New=%d connected=%v, want 2, 2, [1 2]", w.cfgCalls, len(w.socks), w.connected)
				}
				// the old session ends for the application (observation only: what it delivered)
				if !drains {
					drainAll()
				} else {
					e.WaitIdle()
					if !readerDone {
						e.Fail("the application's Receive on the session of the lost connection never returned")
					}
				}
				w.ev("old session delivered %d", got)
				_ = u.Close()
			})
			wg.Wait()
			w.finalChecks(rc, false)
			w.teardown(rc)
		}},
		{Name: "kill-while-tcp-awaits-response(loss-kind 0..4 incl. local socket failure)", Quick: explore.Bounds{P: 1}, Thorough: q2, Body: func(e *vsched.Exec) {
			// Dimension: the MOMENT of loss - the connection dies while a non-fast-open TCP() is
			// blocked waiting for the server's response (stream opened, request written, the
			// server's outbound dial still pending) - x the loss kinds of killCurrent (cost-free
			// choice "loss-kind"), which now include a failure of the client's own socket. Clauses:
			// the blocked call reports a closed-connection error, the NEXT call re-evaluates the
			// configuration, obtains exactly one new socket and reports count 2.
			// Added after the independently seeded change C16-12 (TCP() wrapped an error of the
			// response read in ClosedError only when it was one of quic-go's exported error types:
			// with the unexported transport-closed error the call returned a raw error, the wrapper
			// kept the dead client and the next call failed again without evaluating the config).
			w := c16NewWorld(e)
			w.holdDial = true
			w.serverUp()
			rc, err := w.newRC(true)
			if err != nil {
				e.Fail("NewReconnectableClient: %v", err)
				return
			}
			var wg vsync.WaitGroup
			var res []*c16Res
			wg.Add(1)
			vsched.GoNamed("caller", func() {
				defer wg.Done()
				res = append(res, w.call(rc, "TCP")) // blocks: the server does not answer
				w.holdDial = false
				res = append(res, w.call(rc, "TCP"), w.call(rc, "UDP"))
			})
			e.WaitIdle() // the caller is blocked in the response read, the server in its dial
			if len(res) != 0 || w.cfgCalls != 1 || len(w.socks) != 1 {
				e.Fail("harness: the first TCP() is not blocked on the first connection (returned=%d configFunc=%d factory.New=%d)", len(res), w.cfgCalls, len(w.socks))
			}
			if !w.killCurrent() {
				e.Fail("harness: no live connection to kill")
			}
			w.ev("loss-kind=%d", w.lossKind)
			wg.Wait()
			if len(res) == 3 {
				if cls := c16ErrClass(res[0].Err); cls != "ClosedError" {
					e.Fail("TCP() blocked waiting for the server's response when the connection was lost: got %s (%v), want a closed-connection error", cls, res[0].Err)
				}
				for i, r := range res[1:] {
					if r.Err != nil {
						e.Fail("call %d (%s) after the connection was lost under a pending TCP(): %s (%v), want a transparent reconnect", i+1, r.Kind, c16ErrClass(r.Err), r.Err)
					}
				}
				// the call right after the failed one re-evaluated the configuration
				if res[1].End-res[1].Start < 2 || !strings.HasPrefix(w.events[res[1].Start+1], "configFunc#2") {
					e.Fail("the call after the loss did not re-evaluate the configuration: %v", w.events[res[1].Start:res[1].End])
				}
			}
			if len(w.socks) != 2 || w.cfgCalls != 2 || fmt.Sprint(w.connected) != "[1 2]" {
				e.Fail("reconnect after loss under a pending TCP(): configFunc=%d factory.New=%d connected=%v, want 2, 2, [1 2]", w.cfgCalls, len(w.socks), w.connected)
			}
			w.finalChecks(rc, false)
			w.teardown(rc)
		}},
		{Name: "connected-callback-uses-client(start eager|lazy x use direct|awaited-thread|detached-thread x TCP|UDP)", Quick: explore.Bounds{P: 1}, Thorough: q2, Body: func(e *vsched.Exec) {
			// Dimension: what the application's connected callback DOES with the Client it is handed
			// (so far it only logged) x the start mode (cost-free choices "start", "callback-use",
			// "callback-call"): on the first connection it calls TCP()/UDP() on the reconnectable
			// client - directly, in a thread it waits for, or in a thread it leaves behind (what
			// app/cmd/client.go does with its update check on count==1), the last one also with a
			// lazy start. (Lazy x a callback that waits for the call is not driven: the wrapper holds
			// its lock across the callback there, nothing in the property demands that to work.)
			// Clauses: no connection was lost, so the configuration is evaluated once, one socket is
			// obtained, the counts are [1] and one socket is open at the quiescent point; after a
			// loss the failing call reports a closed-connection error and the next one reconnects
			// (2 evaluations, 2 sockets, counts [1 2], only the newest socket open); nothing open
			// after Close.
			// Added after the independently seeded change C16-13 (reconnect() published the new
			// connection in rc.client only after the connected callback had run: with an eager start
			// a callback using its Client built a second connection - count 2 without a loss - and
			// the first one then superseded it without closing it).
			w := c16NewWorld(e)
			w.serverUp()
			lazy := e.Choose(2, vsched.KFree, "start") == 1
			use := 2
			if !lazy {
				use = e.Choose(3, vsched.KFree, "callback-use")
			}
			kind := []string{"TCP", "UDP"}[e.Choose(2, vsched.KFree, "callback-call")]
			w.ev("lazy=%v callback-use=%d callback-call=%s", lazy, use, kind)
			var cbWG vsync.WaitGroup
			var cbRes []*c16Res
			w.onConnected = func(c Client, count int) {
				if count != 1 {
					return
				}
				do := func() { cbRes = append(cbRes, w.call(c, kind)) }
				switch use {
				case 0:
					do()
				case 1:
					var wg vsync.WaitGroup
					wg.Add(1)
					vsched.GoNamed("callback-user", func() {
						defer wg.Done()
						do()
					})
					wg.Wait()
				case 2:
					cbWG.Add(1)
					vsched.GoNamed("callback-user", func() {
						defer cbWG.Done()
						do()
					})
				}
			}
			rc, err := w.newRC(lazy)
			if err != nil {
				e.Fail("NewReconnectableClient(lazy=%v): %v", lazy, err)
				return
			}
			first := w.call(rc, "TCP")
			cbWG.Wait()
			e.WaitIdle()
			if first.Err != nil {
				e.Fail("first call: %s (%v)", c16ErrClass(first.Err), first.Err)
			}
			if len(cbRes) != 1 || cbRes[0].Err != nil {
				e.Fail("the connected callback's %s on the client it was handed: %v", kind, cbRes)
			}
			if len(w.socks) != 1 || w.cfgCalls != 1 || fmt.Sprint(w.connected) != "[1]" {
				e.Fail("no connection was lost (lazy=%v, callback-use=%d): configFunc=%d factory.New=%d connected=%v, want 1, 1, [1]", lazy, use, w.cfgCalls, len(w.socks), w.connected)
			}
			w.finalChecks(rc, false)
			if !w.killCurrent() {
				e.Fail("harness: no live connection to kill")
			}
			e.WaitIdle()
			if r := w.call(rc, "TCP"); c16ErrClass(r.Err) != "ClosedError" {
				e.Fail("call after the connection was lost: got %s (%v), want a closed-connection error", c16ErrClass(r.Err), r.Err)
			}
			if r := w.call(rc, kind); r.Err != nil {
				e.Fail("the call after the closed-connection error did not reconnect: %v", r.Err)
			}
			if len(w.socks) != 2 || w.cfgCalls != 2 || fmt.Sprint(w.connected) != "[1 2]" {
				e.Fail("after one loss: configFunc=%d factory.New=%d connected=%v, want 2, 2, [1 2]", w.cfgCalls, len(w.socks), w.connected)
			}
			w.finalChecks(rc, false)
			w.teardown(rc)
		}},
		{Name: "eager-start-fails", Quick: explore.Bounds{P: 1}, Thorough: explore.Bounds{P: 2}, Body: func(e *vsched.Exec) {
			w := c16NewWorld(e)
			rc, err := w.newRC(false) // server down
			if err == nil || rc != nil {
				e.Fail("eager start with the server down returned (%v, %v)", rc, err)
			}
			if open := w.openSocks(); len(open) != 0 {
				e.Fail("failed eager start left sockets open: %v", open)
			}
			w.teardown(nil)
		}},
	}
}

func TestVerifC16(t *testing.T) { explore.Main(t, "C16", c16Scenarios()) }

func TestVerifC16Probe(t *testing.T) {
	for _, l := range explore.Probe(c16Scenarios()) {
		fmt.Println(l)
	}
}
