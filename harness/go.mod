module verif.local/harness

go 1.25.0
