package acl

// C09 shared model (alphabets, canonical rule-list enumeration, reference evaluator).
//
// This file is kept byte-identical, except for the package clause, in c09_model_ob_test.go
// (injected into package outbounds). It depends on the standard library only and on nothing
// from the code under test: the reference evaluator is written from the ACL grammar (comments
// in acl/parse.go and acl/compile.go, the ACL documentation) and the text of property C09:
//
//	line      := outbound "(" address [ "," protoPort [ "," hijackAddress ] ] ")"
//	address   := "all" | "*"            every host
//	           | "suffix:" name          the name itself and every sub-domain (dot boundary)
//	           | ip "/" bits             CIDR: resolved IPv4 or IPv6 inside the prefix
//	           | ip                      resolved IPv4 or IPv6 equal to it
//	           | name containing "*"     wildcard: "*" stands for any (possibly empty) run of characters
//	           | name                    exactly this name
//	protoPort := "" | "*" | "*/*" | proto | proto "/" port | proto "/" lo "-" hi   (proto: tcp | udp | *)
//
// Names compare case-insensitively and ignoring a trailing dot. The decision for a query is the
// (outbound, hijack address) of the FIRST line whose address, protocol and port range match; no
// line matches => default outbound, address untouched.

import (
	"fmt"
	"net/netip"
	"strconv"
	"strings"
)

const (
	c09ProtoAny = 0
	c09ProtoTCP = 1
	c09ProtoUDP = 2
)

// ---------------------------------------------------------------------------------------------
// alphabets

// c09Atoms: one representative per address form of the grammar plus the boundary neighbours
// named by the property (case, trailing dot, dot boundary of suffix:, wildcard with/without dot).
var c09Atoms = []string{
	"a.com",        // exact
	"A.Com.",       // exact, pattern in upper case with a trailing dot
	"b.a.com",      // exact, a sub-domain of the above
	"suffix:a.com", // suffix: a.com and *.a.com but not xa.com
	"suffix:com",   // suffix one label up
	"*.a.com",      // wildcard with the dot: sub-domains only
	"*a.com",       // wildcard without the dot: also xa.com and a.com
	"a.*",          // wildcard at the end
	"1.2.3.4",      // IPv4
	"1.2.3.0/24",   // IPv4 CIDR
	"::1",          // IPv6
	"::/0",         // IPv6 CIDR (every IPv6, no IPv4)
	"all",          // everything
	"*",            // everything (alias)
}

var c09PPs = []string{"", "tcp", "udp/53", "*/80-90", "tcp/90"}

var c09Hijacks = []string{"", "9.9.9.9"}

var c09Obs = []string{"A", "B"}

// number of (atom, protoPort) pairs and of rules in the alphabet
var (
	c09NAP    = len(c09Atoms) * len(c09PPs)
	c09NRules = c09NAP * len(c09Hijacks) * len(c09Obs)
)

type c09Rule struct {
	Ob     string `json:"ob"`
	Addr   string `json:"addr"`
	PP     string `json:"pp,omitempty"`
	Hijack string `json:"hijack,omitempty"`
}

// Line renders the rule in ACL file syntax. An empty protoPort cannot be written before a hijack
// address (the fields are positional), so it is written as "*" there - same meaning per grammar.
func (r c09Rule) Line() string {
	switch {
	case r.Hijack != "":
		pp := r.PP
		if pp == "" {
			pp = "*"
		}
		return r.Ob + "(" + r.Addr + ", " + pp + ", " + r.Hijack + ")"
	case r.PP != "":
		return r.Ob + "(" + r.Addr + ", " + r.PP + ")"
	}
	return r.Ob + "(" + r.Addr + ")"
}

func c09Text(rules []c09Rule) string {
	var b strings.Builder
	for _, r := range rules {
		b.WriteString(r.Line())
		b.WriteByte('\n')
	}
	return b.String()
}

// rule index = ((ap)*2+hijack)*2+outbound, ap = atom*len(PPs)+pp; label = hijack*2+outbound.
func c09RuleAt(i int) c09Rule {
	ob := i % 2
	hj := i / 2 % 2
	ap := i / 4
	return c09Rule{Ob: c09Obs[ob], Addr: c09Atoms[ap/len(c09PPs)], PP: c09PPs[ap%len(c09PPs)], Hijack: c09Hijacks[hj]}
}

func c09RulesAt(list []int) []c09Rule {
	out := make([]c09Rule, len(list))
	for i, r := range list {
		out[i] = c09RuleAt(r)
	}
	return out
}

// Labellings for rule lists of length 3: outbound and hijack address are opaque labels to the
// matcher (a type parameter and a pass-through value), so at length 3 the (atom, protoPort)
// triples are enumerated completely and labelled by 4 fixed pairwise-distinct labellings, which
// identify the chosen line. The full label product is enumerated at lengths <= 2.
// label = hijack*2 + outbound: 0=(A,-) 1=(B,-) 2=(A,9.9.9.9) 3=(B,9.9.9.9)
var c09Labellings3 = [][3]int{{0, 1, 2}, {3, 2, 1}, {2, 0, 3}, {1, 3, 0}}

type c09Query struct {
	Name  string `json:"name"`
	V4    string `json:"v4,omitempty"`
	V6    string `json:"v6,omitempty"`
	Proto int    `json:"proto"` // 1 tcp, 2 udp
	Port  int    `json:"port"`
}

func (q c09Query) String() string {
	pr := "tcp"
	if q.Proto == c09ProtoUDP {
		pr = "udp"
	}
	return fmt.Sprintf("{%s|%s|%s %s/%d}", q.Name, q.V4, q.V6, pr, q.Port)
}

var (
	c09Names = []string{"a.com", "A.COM.", "xa.com", "b.a.com", "a.com.evil", "a.org"}
	// "b4:" = the same address handed over as a 4-byte net.IP (what To4(), net.IP{a,b,c,d} and the
	// system resolver produce) instead of the 16-byte form net.ParseIP returns (added after the
	// independently seeded change C09-7: exact-IP rules compared with bytes.Equal)
	c09V4s   = []string{"", "1.2.3.4", "1.2.3.9", "1.2.4.1", "b4:1.2.3.4", "b4:1.2.4.1"}
	c09V6s   = []string{"", "::1"}
	c09Ports = []int{53, 79, 80, 90, 91}
)

// c09Queries is the full product names x v4 x v6 x proto x port (480 queries).
func c09Queries() []c09Query {
	var qs []c09Query
	for _, n := range c09Names {
		for _, v4 := range c09V4s {
			for _, v6 := range c09V6s {
				for _, pr := range []int{c09ProtoTCP, c09ProtoUDP} {
					for _, po := range c09Ports {
						qs = append(qs, c09Query{n, v4, v6, pr, po})
					}
				}
			}
		}
	}
	return qs
}

// c09Probes is the probe set of the cache search: a base query and one query differing from it
// in exactly one component of what a decision depends on (port, protocol, IPv4, IPv6, name) -
// six distinct lookups - plus an alias of the base that differs only in case and trailing dot.
func c09Probes() []c09Query {
	return []c09Query{
		{"a.com", "", "", c09ProtoTCP, 80},
		{"a.com", "", "", c09ProtoTCP, 90},
		{"a.com", "", "", c09ProtoUDP, 80},
		{"a.com", "1.2.3.4", "", c09ProtoTCP, 80},
		{"a.com", "b4:1.2.3.4", "", c09ProtoTCP, 80},
		{"a.com", "", "::1", c09ProtoTCP, 80},
		{"a.org", "", "", c09ProtoTCP, 80},
		{"A.COM.", "", "", c09ProtoTCP, 80},
	}
}

// ---------------------------------------------------------------------------------------------
// canonical enumeration of rule lists

// c09Lists2 calls f for every rule list of length 0..maxLen (maxLen <= 2) over the full rule
// alphabet, by length, then lexicographically by rule index. idx counts from 0.
func c09Lists2(maxLen int, f func(idx int64, list []int) bool) int64 {
	var idx int64
	if !f(idx, nil) {
		return idx + 1
	}
	idx++
	if maxLen >= 1 {
		for a := 0; a < c09NRules; a++ {
			if !f(idx, []int{a}) {
				return idx + 1
			}
			idx++
		}
	}
	if maxLen >= 2 {
		buf := make([]int, 2)
		for a := 0; a < c09NRules; a++ {
			for b := 0; b < c09NRules; b++ {
				buf[0], buf[1] = a, b
				if !f(idx, buf) {
					return idx + 1
				}
				idx++
			}
		}
	}
	return idx
}

// c09ListsReduced2 calls f for every list of length 1..2 of (atom, protoPort) pairs, labelled
// (A,-),(B,9.9.9.9) and (B,9.9.9.9),(A,-) in turn.
func c09ListsReduced2(f func(idx int64, list []int) bool) int64 {
	var idx int64
	labs := [][2]int{{0, 3}, {3, 0}}
	buf := make([]int, 2)
	for a := 0; a < c09NAP; a++ {
		for _, l := range labs {
			buf[0] = a*4 + l[0]
			if !f(idx, buf[:1]) {
				return idx + 1
			}
			idx++
		}
	}
	for a := 0; a < c09NAP; a++ {
		for b := 0; b < c09NAP; b++ {
			for _, l := range labs {
				buf[0], buf[1] = a*4+l[0], b*4+l[1]
				if !f(idx, buf) {
					return idx + 1
				}
				idx++
			}
		}
	}
	return idx
}

// c09Lists3 calls f for every list of 3 (atom, protoPort) pairs under each of the 4 labellings.
func c09Lists3(f func(idx int64, list []int) bool) int64 {
	var idx int64
	buf := make([]int, 3)
	for a := 0; a < c09NAP; a++ {
		for b := 0; b < c09NAP; b++ {
			for c := 0; c < c09NAP; c++ {
				for _, l := range c09Labellings3 {
					buf[0], buf[1], buf[2] = a*4+l[0], b*4+l[1], c*4+l[2]
					if !f(idx, buf) {
						return idx + 1
					}
					idx++
				}
			}
		}
	}
	return idx
}

// ---------------------------------------------------------------------------------------------
// reference evaluator

const (
	c09KAll = iota
	c09KExact
	c09KSuffix
	c09KWild
	c09KIP
	c09KCIDR
)

type c09RefRule struct {
	kind    int
	pat     string
	ip      netip.Addr
	pfx     netip.Prefix
	proto   int
	anyPort bool
	lo, hi  int
}

// c09RefNorm: case-insensitive, one trailing dot ignored (ASCII names only).
func c09RefNorm(name string) string {
	b := []byte(name)
	for i, c := range b {
		if c >= 'A' && c <= 'Z' {
			b[i] = c + ('a' - 'A')
		}
	}
	s := string(b)
	if strings.HasSuffix(s, ".") {
		s = s[:len(s)-1]
	}
	return s
}

func c09RefCompile(r c09Rule) (c09RefRule, error) {
	var out c09RefRule
	addr := c09RefNorm(strings.TrimSpace(r.Addr))
	switch {
	case addr == "all" || addr == "*":
		out.kind = c09KAll
	case strings.HasPrefix(addr, "geoip:") || strings.HasPrefix(addr, "geosite:"):
		return out, fmt.Errorf("geoip/geosite are outside the alphabet (external databases)")
	case strings.HasPrefix(addr, "suffix:"):
		out.kind, out.pat = c09KSuffix, addr[len("suffix:"):]
		if out.pat == "" {
			return out, fmt.Errorf("empty suffix")
		}
	case strings.Contains(addr, "/"):
		p, err := netip.ParsePrefix(addr)
		if err != nil {
			return out, err
		}
		out.kind, out.pfx = c09KCIDR, p.Masked()
	default:
		if ip, err := netip.ParseAddr(addr); err == nil {
			out.kind, out.ip = c09KIP, ip.Unmap()
		} else if strings.Contains(addr, "*") {
			out.kind, out.pat = c09KWild, addr
		} else {
			out.kind, out.pat = c09KExact, addr
		}
	}
	pp := strings.ToLower(strings.TrimSpace(r.PP))
	proto, port := pp, "*"
	if i := strings.IndexByte(pp, '/'); i >= 0 {
		proto, port = pp[:i], pp[i+1:]
	}
	switch proto {
	case "", "*":
		if proto == "" && pp != "" {
			return out, fmt.Errorf("bad protoPort %q", r.PP)
		}
		out.proto = c09ProtoAny
	case "tcp":
		out.proto = c09ProtoTCP
	case "udp":
		out.proto = c09ProtoUDP
	default:
		return out, fmt.Errorf("bad protocol %q", r.PP)
	}
	if port == "*" {
		out.anyPort = true
	} else {
		lo, hi := port, port
		if i := strings.IndexByte(port, '-'); i >= 0 {
			lo, hi = port[:i], port[i+1:]
		}
		l, err1 := strconv.Atoi(lo)
		h, err2 := strconv.Atoi(hi)
		// port 0 is outside the alphabet: the grammar does not say what it means
		if err1 != nil || err2 != nil || l < 1 || h > 65535 || l > h {
			return out, fmt.Errorf("bad port range %q", r.PP)
		}
		out.lo, out.hi = l, h
	}
	return out, nil
}

// c09RefGlob: "*" stands for any (possibly empty) run of characters; everything else is literal.
// Set-of-reachable-positions formulation (no backtracking).
func c09RefGlob(pat, s string) bool {
	reach := make([]bool, len(s)+1)
	reach[0] = true
	for i := 0; i < len(pat); i++ {
		next := make([]bool, len(s)+1)
		if pat[i] == '*' {
			seen := false
			for j := 0; j <= len(s); j++ {
				seen = seen || reach[j]
				next[j] = seen
			}
		} else {
			for j := 0; j < len(s); j++ {
				if reach[j] && s[j] == pat[i] {
					next[j+1] = true
				}
			}
		}
		reach = next
	}
	return reach[len(s)]
}

func c09RefAddrs(q c09Query) []netip.Addr {
	var out []netip.Addr
	for _, s := range []string{q.V4, q.V6} {
		if s == "" {
			continue
		}
		a, err := netip.ParseAddr(strings.TrimPrefix(s, "b4:"))
		if err != nil {
			panic("c09: bad query address " + s)
		}
		out = append(out, a.Unmap())
	}
	return out
}

func (r *c09RefRule) matches(q c09Query) bool {
	if r.proto != c09ProtoAny && r.proto != q.Proto {
		return false
	}
	if !r.anyPort && (q.Port < r.lo || q.Port > r.hi) {
		return false
	}
	switch r.kind {
	case c09KAll:
		return true
	case c09KExact:
		return c09RefNorm(q.Name) == r.pat
	case c09KSuffix:
		n := c09RefNorm(q.Name)
		return n == r.pat || (len(n) > len(r.pat) && n[len(n)-len(r.pat):] == r.pat && n[len(n)-len(r.pat)-1] == '.')
	case c09KWild:
		return c09RefGlob(r.pat, c09RefNorm(q.Name))
	case c09KIP:
		for _, a := range c09RefAddrs(q) {
			if a == r.ip {
				return true
			}
		}
	case c09KCIDR:
		for _, a := range c09RefAddrs(q) {
			if r.pfx.Contains(a) {
				return true
			}
		}
	}
	return false
}

// c09RefEval returns the index of the deciding line or -1 (default outbound).
func c09RefEval(rules []c09RefRule, q c09Query) int {
	for i := range rules {
		if rules[i].matches(q) {
			return i
		}
	}
	return -1
}

func c09RefCompileAll(rules []c09Rule) ([]c09RefRule, error) {
	out := make([]c09RefRule, len(rules))
	for i, r := range rules {
		c, err := c09RefCompile(r)
		if err != nil {
			return nil, fmt.Errorf("line %d: %v", i+1, err)
		}
		out[i] = c
	}
	return out, nil
}

// c09Table is the reference relation "alphabet rule r matches alphabet query q", computed once
// with the evaluator above; the enumeration then decides a list by first-match over it.
type c09Table struct {
	qs    []c09Query
	match [][]bool // [ap][q]: rules that differ only in the label match the same queries
}

func c09NewTable(qs []c09Query) *c09Table {
	t := &c09Table{qs: qs, match: make([][]bool, c09NAP)}
	for ap := 0; ap < c09NAP; ap++ {
		rr, err := c09RefCompile(c09RuleAt(ap * 4))
		if err != nil {
			panic("c09: alphabet rule rejected by the reference: " + err.Error())
		}
		row := make([]bool, len(qs))
		for i, q := range qs {
			row[i] = rr.matches(q)
		}
		t.match[ap] = row
	}
	return t
}

func (t *c09Table) eval(list []int, q int) int {
	for i, r := range list {
		if t.match[r/4][q] {
			return i
		}
	}
	return -1
}

// c09Want renders the expected decision for a list and a deciding index.
func c09Want(rules []c09Rule, idx int) (ob, hijack string) {
	if idx < 0 {
		return "", ""
	}
	return rules[idx].Ob, rules[idx].Hijack
}

func c09Mix(h uint64, v int) uint64 {
	h ^= uint64(v) + 0x9e3779b97f4a7c15 + (h << 6) + (h >> 2)
	return h
}
