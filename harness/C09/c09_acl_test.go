package acl

// C09 harness, unit "acl" (injected into extras/outbounds/acl): ParseTextRules + Compile +
// CompiledRuleSet.Match against the reference evaluator of c09_model_acl_test.go.
//
//	fresh-*    every rule list x every query, each query asked with an EMPTY decision cache
//	cache-bfs  explicit-state BFS over the decision cache (size 2) per rule list: every probe
//	           query in every reachable cache state must give the fresh answer
//	prod-cache directed run with the production cache size (1024), with and without evictions
//	text-shape the same rules behind/between blank lines, comments and white space of many lengths,
//	           LF/CRLF, with/without a final line end
//	ace-labels names with "xn--" labels that are / are not punycode, alone and mixed, against ASCII patterns

import (
	"encoding/json"
	"fmt"
	"net"
	"runtime/debug"
	"strings"
	"testing"

	"verif.local/engine/evidence"
	"verif.local/engine/xstate"
)

const c09ProdCacheSize = 1024 // aclCacheSize in extras/outbounds/acl.go (asserted by the engine unit)

const c09MaxViolationsPerPart = 1 // per shard: the enumeration is simplest-first, so this is the shard's minimal case

type c09Replay struct {
	Kind      string     `json:"kind"` // fresh | history
	Rules     []c09Rule  `json:"rules"`
	Text      string     `json:"acl_text"`
	CacheSize int        `json:"cache_size"`
	History   []c09Query `json:"history,omitempty"`    // lookups made before, in order
	Shape     *c09Shape  `json:"text_shape,omitempty"` // part text-shape: what surrounds the rules in the text
	Query     c09Query   `json:"query"`
	Twin      *c09Query  `json:"twin_spelling,omitempty"` // part ace-labels: the Unicode spelling of the same IDN name, which must get the same decision
	Want      string     `json:"want"`
	Got       string     `json:"got"`
}

type c09Ans struct {
	ob     string
	hijack string // "" = nil
}

func (a c09Ans) String() string {
	ob, hj := a.ob, a.hijack
	if ob == "" {
		ob = "<default>"
	}
	if hj == "" {
		hj = "-"
	}
	return ob + "/" + hj
}

func c09IP(s string) net.IP {
	if s == "" {
		return nil
	}
	ip := net.ParseIP(strings.TrimPrefix(s, "b4:"))
	if ip == nil {
		panic("c09: bad ip " + s)
	}
	if strings.HasPrefix(s, "b4:") {
		return ip.To4() // the 4-byte form of the same address
	}
	return ip
}

func c09HostInfo(q c09Query) HostInfo {
	return HostInfo{Name: q.Name, IPv4: c09IP(q.V4), IPv6: c09IP(q.V6)}
}

func c09Proto(p int) Protocol {
	if p == c09ProtoUDP {
		return ProtocolUDP
	}
	return ProtocolTCP
}

var c09Outbounds = map[string]string{"a": "A", "b": "B"}

// c09Compile goes through the text parser and the compiler, as the server does.
func c09Compile(rules []c09Rule, cacheSize int) (*compiledRuleSetImpl[string], error) {
	return c09CompileText(c09Text(rules), len(rules), cacheSize)
}

// c09CompileText: the same from a given rule text; nRules < 0 = do not look at the number of
// parsed rules (the lookups judge).
func c09CompileText(text string, nRules, cacheSize int) (*compiledRuleSetImpl[string], error) {
	trs, err := ParseTextRules(text)
	if err != nil {
		return nil, fmt.Errorf("ParseTextRules: %v", err)
	}
	if nRules >= 0 && len(trs) != nRules {
		return nil, fmt.Errorf("ParseTextRules returned %d rules for %d lines", len(trs), nRules)
	}
	rs, err := Compile[string](trs, c09Outbounds, cacheSize, nil)
	if err != nil {
		return nil, fmt.Errorf("Compile: %v", err)
	}
	impl, ok := rs.(*compiledRuleSetImpl[string])
	if !ok {
		return nil, fmt.Errorf("Compile returned %T", rs)
	}
	// (how many compiled rules the set keeps is its own business: rules no lookup can reach may be dropped)
	return impl, nil
}

func c09Ask(rs CompiledRuleSet[string], q c09Query) c09Ans {
	ob, hj := rs.Match(c09HostInfo(q), c09Proto(q.Proto), uint16(q.Port))
	a := c09Ans{ob: ob}
	if hj != nil {
		a.hijack = hj.String()
	}
	return a
}

func c09WantAns(rules []c09Rule, idx int) c09Ans {
	ob, hj := c09Want(rules, idx)
	return c09Ans{ob, hj}
}

// c09Shape is what surrounds the rules in the rule text (part text-shape): one filler of Len bytes
// in front of rule #Pos (Pos = number of rules: after the last rule), the line ends and whether the
// last line is terminated. Comments (# to the end of the line), blank lines and surrounding white
// space carry no meaning in the ACL grammar, whatever their length.
type c09Shape struct {
	Kind    string `json:"kind"` // blank-line | comment-line | trailing-comment | leading-space
	Pos     int    `json:"pos"`
	Len     int    `json:"len"`
	CRLF    bool   `json:"crlf"`
	FinalNL bool   `json:"final_newline"`
}

func (s c09Shape) String() string {
	return fmt.Sprintf("%s of %d bytes before rule #%d, crlf=%v, final newline=%v", s.Kind, s.Len, s.Pos+1, s.CRLF, s.FinalNL)
}

var c09ShapeKinds = []string{"blank-line", "comment-line", "trailing-comment", "leading-space"}

// c09ShapeText renders the rules with the filler. blank-line: a line of Len spaces; comment-line:
// "#" and Len bytes; trailing-comment: " #" and Len bytes appended to the rule line in front
// (Pos >= 1); leading-space: Len spaces in front of the rule itself (Pos < number of rules).
func c09ShapeText(rules []c09Rule, s c09Shape) string {
	eol := "\n"
	if s.CRLF {
		eol = "\r\n"
	}
	var lines []string
	for i := 0; i <= len(rules); i++ {
		if i == s.Pos {
			switch s.Kind {
			case "blank-line":
				lines = append(lines, strings.Repeat(" ", s.Len))
			case "comment-line":
				lines = append(lines, "#"+strings.Repeat("x", s.Len))
			}
		}
		if i < len(rules) {
			l := rules[i].Line()
			if i == s.Pos && s.Kind == "leading-space" {
				l = strings.Repeat(" ", s.Len) + l
			}
			if i+1 == s.Pos && s.Kind == "trailing-comment" {
				l += " #" + strings.Repeat("x", s.Len)
			}
			lines = append(lines, l)
		}
	}
	t := strings.Join(lines, eol)
	if s.FinalNL {
		t += eol
	}
	return t
}

type c09Ctx struct {
	sh    *evidence.Shard
	env   *evidence.Env
	tbl   *c09Table
	qs    []c09Query
	his   []HostInfo
	nviol map[string]int

	maxDepth int64
}

func (c *c09Ctx) violate(p *evidence.Part, clause string, rp *c09Replay) bool {
	rp.Text = c09Text(rp.Rules)
	hist := fmt.Sprint(rp.History)
	if len(rp.History) > 6 {
		hist = fmt.Sprintf("<%d lookups, see replay file>", len(rp.History))
	}
	if rp.Shape != nil { // the text is the rules below plus the filler (up to 200 kB, not spelled out)
		clause += " [rule text: " + rp.Shape.String() + "]"
	}
	sig := fmt.Sprintf("%s: %s: rules=[%s] history=%s query=%v want=%s got=%s", p.Name, clause,
		strings.ReplaceAll(strings.TrimSpace(rp.Text), "\n", "; "), hist, rp.Query, rp.Want, rp.Got)
	detail := fmt.Sprintf("%s: ACL\n%swith cache size %d, after lookups %s the lookup %v returned %s, expected %s (first matching line in file order, default when none)",
		clause, rp.Text, rp.CacheSize, hist, rp.Query, rp.Got, rp.Want)
	c.sh.Violate(p.Name, sig, detail, rp)
	c.nviol[p.Name]++
	if c.nviol[p.Name] >= c09MaxViolationsPerPart {
		p.Exhaustive = false
		p.Note("stopped after %d violations in this shard", c.nviol[p.Name])
		return false
	}
	return true
}

// c09FreshList asks every alphabet query with an empty cache. The cache is the only mutable
// state of a compiled rule set; it is emptied through its private field before each lookup and
// checked to be empty, which is the state of a freshly compiled set.
func (c *c09Ctx) freshList(p *evidence.Part, list []int) bool {
	rules := c09RulesAt(list)
	impl, err := c09Compile(rules, 2)
	if err != nil {
		return c.violate(p, "grammar-accepted rule list rejected: "+err.Error(), &c09Replay{Kind: "fresh", Rules: rules, CacheSize: 2, Query: c.qs[0], Want: "compiles", Got: "error"})
	}
	var seen [4]bool
	for qi := range c.qs {
		impl.Cache.Purge()
		if impl.Cache.Len() != 0 {
			panic("c09: purged cache not empty")
		}
		q := &c.qs[qi]
		ob, hj := impl.Match(c.his[qi], c09Proto(q.Proto), uint16(q.Port))
		p.Evaluations++
		wi := c.tbl.eval(list, qi)
		seen[wi+1] = true
		wob, whj := "", ""
		if wi >= 0 {
			wob, whj = rules[wi].Ob, rules[wi].Hijack
		}
		ok := ob == wob && ((hj == nil && whj == "") || (hj != nil && whj != "" && hj.String() == whj))
		if !ok {
			got := c09Ans{ob: ob}
			if hj != nil {
				got.hijack = hj.String()
			}
			if !c.violate(p, "fresh lookup differs from the first-match reference", &c09Replay{Kind: "fresh", Rules: rules, CacheSize: 2, Query: *q,
				Want: c09Ans{wob, whj}.String(), Got: got.String()}) {
				return false
			}
			break // one report per rule list
		}
	}
	// classes: (atom, protoPort) shape of the list x which line decided (or default)
	h := uint64(len(list))
	for _, r := range list {
		h = c09Mix(h, r/4)
	}
	for i, s := range seen {
		if s {
			p.ClassHash(c09Mix(h, i))
			p.Count([]string{"decided_by_default", "decided_by_line_1", "decided_by_line_2", "decided_by_line_3"}[i], 1)
		}
	}
	p.Count("rule_lists", 1)
	if len(p.Samples) < 2 && len(list) >= 2 {
		p.Sample(map[string]any{"acl": c09Text(rules), "queries": len(c.qs)})
	}
	return true
}

// ---------------------------------------------------------------------------------------------
// cache BFS

type c09Sys struct {
	rules    []c09Rule
	impl     *compiledRuleSetImpl[string]
	size     int
	probes   []c09Query
	want     []c09Ans                    // reference answer per probe
	fresh    []c09Ans                    // answer of a freshly compiled set per probe
	keyProbe map[matchResultCacheKey]int // cache key a fresh set files the probe under
}

func (s *c09Sys) Apply(op int) error {
	got := c09Ask(s.impl, s.probes[op])
	if got != s.want[op] {
		if got == s.fresh[op] {
			return fmt.Errorf("answer differs from the first-match reference (as on a fresh set): got %s, reference %s", got, s.want[op])
		}
		return fmt.Errorf("answer depends on lookup history: got %s, reference and freshly compiled set %s", got, s.want[op])
	}
	if got != s.fresh[op] {
		return fmt.Errorf("answer depends on lookup history: got %s, freshly compiled set %s", got, s.fresh[op])
	}
	if n := s.impl.Cache.Len(); n > s.size {
		return fmt.Errorf("cache holds %d decisions, size %d", n, s.size)
	}
	// every cached decision must be the fresh decision of the lookup it is filed under
	for _, k := range s.impl.Cache.Keys() {
		pi, known := s.keyProbe[k]
		if !known {
			continue
		}
		v, _ := s.impl.Cache.Peek(k)
		c := c09Ans{ob: v.Outbound}
		if v.HijackAddress != nil {
			c.hijack = v.HijackAddress.String()
		}
		if c != s.want[pi] {
			return fmt.Errorf("cache entry %v|%v|%d holds %s; the lookup %v, which a fresh set files under this key, must be answered %s", k.Host, k.Proto, k.Port, c, s.probes[pi], s.want[pi])
		}
	}
	return nil
}

// Key: the LRU contents, oldest first (private fields). The rules are immutable and the cache is
// the only other field, so a lookup's behaviour is a function of (keys, recency order, cached
// values); the values are compared by Probe (and checked against the reference in Apply), so two
// histories with the same ordered key list have the same futures.
func (s *c09Sys) Key() string {
	var b strings.Builder
	for _, k := range s.impl.Cache.Keys() {
		fmt.Fprintf(&b, "[%s %d %d]", k.Host, int(k.Proto), k.Port)
	}
	return b.String()
}

func c09ProbeValues(x xstate.Sys[int]) string {
	s := x.(*c09Sys)
	var b strings.Builder
	for _, k := range s.impl.Cache.Keys() {
		v, _ := s.impl.Cache.Peek(k)
		fmt.Fprintf(&b, "[%s %v]", v.Outbound, v.HijackAddress)
	}
	return b.String()
}

func (c *c09Ctx) bfsList(p *evidence.Part, list []int, size, depth int) bool {
	rules := c09RulesAt(list)
	probes := c09Probes()
	ref, err := c09RefCompileAll(rules)
	if err != nil {
		panic(err)
	}
	want := make([]c09Ans, len(probes))
	fresh := make([]c09Ans, len(probes))
	keyProbe := map[matchResultCacheKey]int{}
	for i, q := range probes {
		want[i] = c09WantAns(rules, c09RefEval(ref, q))
		impl, err := c09Compile(rules, size)
		if err != nil {
			return c.violate(p, "grammar-accepted rule list rejected: "+err.Error(), &c09Replay{Kind: "history", Rules: rules, CacheSize: size, Query: q, Want: "compiles", Got: "error"})
		}
		fresh[i] = c09Ask(impl, q)
		if ks := impl.Cache.Keys(); len(ks) == 1 {
			if _, dup := keyProbe[ks[0]]; !dup {
				keyProbe[ks[0]] = i
			}
		}
	}
	ops := make([]int, len(probes))
	for i := range ops {
		ops[i] = i
	}
	res := xstate.BFS(xstate.Config[int]{
		Ops:      ops,
		MaxDepth: depth,
		Probe:    c09ProbeValues,
		New: func() xstate.Sys[int] {
			impl, err := c09Compile(rules, size)
			if err != nil {
				panic(err)
			}
			return &c09Sys{rules: rules, impl: impl, size: size, probes: probes, want: want, fresh: fresh, keyProbe: keyProbe}
		},
	}, p, c.env)
	// xstate adds its depth to the counter on every call; keep it a maximum
	if int64(res.Depth) > c.maxDepth {
		c.maxDepth = int64(res.Depth)
	}
	p.Counters["max_depth"] = c.maxDepth
	p.Count("rule_lists", 1)
	h := uint64(len(list))
	for _, r := range list {
		h = c09Mix(h, r/4)
	}
	p.ClassHash(c09Mix(h, int(res.States)))
	if res.Violation != nil {
		var hist []c09Query
		for _, op := range res.History[:len(res.History)-1] {
			hist = append(hist, probes[op])
		}
		last := res.History[len(res.History)-1]
		clause := "lookup after a history differs from the fresh lookup"
		if strings.Contains(res.Violation.Error(), "as on a fresh set") {
			clause = "lookup differs from the first-match reference"
		}
		if strings.Contains(res.Violation.Error(), "cache entry") || strings.Contains(res.Violation.Error(), "history dependence") || strings.Contains(res.Violation.Error(), "cache holds") {
			clause = "decision cache state is wrong after a history"
		}
		return c.violate(p, clause, &c09Replay{Kind: "history", Rules: rules, CacheSize: size, History: hist, Query: probes[last],
			Want: want[last].String(), Got: res.Violation.Error()})
	}
	return true
}

// ---------------------------------------------------------------------------------------------
// directed run with the production cache size

// c09ProdList: (1) all alphabet queries twice on one set (second round: every lookup is a cache
// hit, 480 < 1024); (2) 1100 distinct lookups (ports 1..1100) so that the cache overflows, checked
// to be full, then the same lookups in reverse (the recent 1024 are hits, the evicted 76 are
// re-evaluated), then ascending again (LRU thrashing: every lookup is a miss).
func (c *c09Ctx) prodList(p *evidence.Part, list []int) bool {
	rules := c09RulesAt(list)
	ref, err := c09RefCompileAll(rules)
	if err != nil {
		panic(err)
	}
	impl, err := c09Compile(rules, c09ProdCacheSize)
	if err != nil {
		return c.violate(p, "grammar-accepted rule list rejected: "+err.Error(), &c09Replay{Kind: "history", Rules: rules, CacheSize: c09ProdCacheSize, Query: c.qs[0], Want: "compiles", Got: "error"})
	}
	var hist []c09Query
	ask := func(q c09Query, want c09Ans) bool {
		got := c09Ask(impl, q)
		p.Evaluations++
		if got != want {
			c.violate(p, "lookup after a history differs from the fresh lookup", &c09Replay{Kind: "history", Rules: rules, CacheSize: c09ProdCacheSize,
				History: append([]c09Query{}, hist...), Query: q, Want: want.String(), Got: got.String()})
			return false
		}
		hist = append(hist, q)
		return true
	}
	for round := 0; round < 2; round++ {
		for qi, q := range c.qs {
			if !ask(q, c09WantAns(rules, c.tbl.eval(list, qi))) {
				return c.nviol[p.Name] < c09MaxViolationsPerPart
			}
		}
	}
	if n := impl.Cache.Len(); n > len(c.qs) {
		c.violate(p, "decision cache state is wrong after a history", &c09Replay{Kind: "history", Rules: rules, CacheSize: c09ProdCacheSize, History: hist, Query: c.qs[0],
			Want: fmt.Sprintf("<= %d entries", len(c.qs)), Got: fmt.Sprintf("%d entries", n)})
		return c.nviol[p.Name] < c09MaxViolationsPerPart
	}
	const nPorts = 1100
	wantPort := make([]c09Ans, nPorts+1)
	mk := func(port int) c09Query { return c09Query{"b.a.com", "1.2.3.9", "", c09ProtoTCP, port} }
	for port := 1; port <= nPorts; port++ {
		wantPort[port] = c09WantAns(rules, c09RefEval(ref, mk(port)))
	}
	for port := 1; port <= nPorts; port++ {
		if !ask(mk(port), wantPort[port]) {
			return c.nviol[p.Name] < c09MaxViolationsPerPart
		}
	}
	if n := impl.Cache.Len(); n != c09ProdCacheSize {
		p.Count("cache_not_full_after_overflow", 1) // informational: capacity is not part of the property
	} else {
		p.Count("cache_overflowed", 1)
	}
	for port := nPorts; port >= 1; port-- {
		if !ask(mk(port), wantPort[port]) {
			return c.nviol[p.Name] < c09MaxViolationsPerPart
		}
	}
	for port := 1; port <= nPorts; port++ {
		if !ask(mk(port), wantPort[port]) {
			return c.nviol[p.Name] < c09MaxViolationsPerPart
		}
	}
	p.Count("rule_lists", 1)
	return true
}

// ---------------------------------------------------------------------------------------------

func c09Alphabet() map[string]any {
	return map[string]any{
		"address_atoms": c09Atoms, "proto_port": c09PPs, "hijack": c09Hijacks, "outbounds": c09Obs,
		"rules":       c09NRules,
		"query_names": c09Names, "query_ipv4": c09V4s, "query_ipv6": c09V6s, "query_proto": []string{"tcp", "udp"}, "query_port": c09Ports,
		"queries":         len(c09Names) * len(c09V4s) * len(c09V6s) * 2 * len(c09Ports),
		"not_in_alphabet": "port 0 in rules (code treats start port 0 as any port; undocumented), IDNA/non-ASCII names, geoip:/geosite: (need external databases), names with several trailing dots",
	}
}

func c09Enumerate(sh *evidence.Shard) {
	debug.SetGCPercent(800) // many short-lived allocations per lookup; heap stays small
	env := sh.Env()
	qs := c09Queries()
	c := &c09Ctx{sh: sh, env: env, tbl: c09NewTable(qs), qs: qs, nviol: map[string]int{}}
	for _, q := range qs {
		c.his = append(c.his, c09HostInfo(q))
	}
	sh.Assume("geoip:/geosite: address forms need external databases and are not enumerated; IDNA names are not enumerated; port 0 in a rule is not enumerated")
	th := env.Thorough()

	expired := func(p *evidence.Part, what string, idx int64) bool {
		if env.Expired() {
			p.Exhaustive = false
			p.Note("deadline: %s completed for list indexes < %d of this shard's share (canonical order: by length, then lexicographic)", what, idx)
			return true
		}
		return false
	}

	// Part 1: fresh lookups, all lists of length <= 2 over the full rule alphabet
	p1 := sh.Part("fresh-len012", "enum")
	p1.Alphabet = c09Alphabet()
	p1.Bounds = map[string]any{"rule_list_length": "0..2, full rule alphabet (atom x protoPort x hijack x outbound)", "lookups": "every query, each with an empty decision cache"}
	c09Lists2(2, func(idx int64, list []int) bool {
		if !env.Mine(idx) {
			return true
		}
		if idx&63 == 0 && expired(p1, "fresh lookups", idx) {
			return false
		}
		return c.freshList(p1, list)
	})

	// Part 2: cache BFS
	p2 := sh.Part("cache-bfs", "xstate")
	p2.Alphabet = map[string]any{"probes": fmt.Sprint(c09Probes()), "cache_size": 2,
		"rule_lists": map[bool]string{false: "length 1..2 over (atom x protoPort), labelled (A,-),(B,9.9.9.9) and (B,9.9.9.9),(A,-)", true: "length 0..2 over the full rule alphabet; length 3 over (atom x protoPort) in one labelling"}[th]}
	p2.Bounds = map[string]any{"depth": 4, "state": "LRU keys oldest..newest (private fields); cached values compared across histories"}
	bfs := func(idx int64, list []int) bool {
		if !env.Mine(idx) {
			return true
		}
		if idx&15 == 0 && expired(p2, "cache BFS", idx) {
			return false
		}
		ok := c.bfsList(p2, list, 2, 4)
		return ok && p2.Exhaustive
	}
	p2.Note("with 6 distinct lookups and cache size 2 there are 37 cache states per rule list (empty, 6 singletons, 30 ordered pairs); all are reached by depth 2 and every probe is applied in each of them at depth <= 3, so the search saturates below the depth bound 4")
	if th {
		c09Lists2(2, bfs)
	} else {
		c09ListsReduced2(bfs)
	}
	if th && p2.Exhaustive {
		// length 3: every (atom, protoPort) triple under the first labelling
		p2.Note("thorough: additionally every rule list of 3 (atom, protoPort) pairs labelled (A,-),(B,-),(A,9.9.9.9)")
		c09Lists3(func(idx int64, list []int) bool {
			if idx%4 != 0 || !env.Mine(idx/4) {
				return true
			}
			if (idx/4)&15 == 0 && expired(p2, "cache BFS (length 3)", idx/4) {
				return false
			}
			ok := c.bfsList(p2, list, 2, 4)
			return ok && p2.Exhaustive
		})
	}

	// Part 3: production cache size, directed
	p3 := sh.Part("prod-cache", "enum")
	p3.Bounds = map[string]any{"cache_size": c09ProdCacheSize, "rule_lists": map[bool]string{false: "length 0..1, full rule alphabet", true: "length 0..1 full alphabet + length 2 over (atom x protoPort) in two labellings"}[th],
		"sequence": "all 480 queries twice; 1100 distinct ports ascending, descending, ascending"}
	c09Lists2(1, func(idx int64, list []int) bool {
		if !env.Mine(idx) {
			return true
		}
		if expired(p3, "production-size run", idx) {
			return false
		}
		return c.prodList(p3, list)
	})
	if th {
		c09ListsReduced2(func(idx int64, list []int) bool {
			if len(list) < 2 || !env.Mine(idx) {
				return true
			}
			if expired(p3, "production-size run (length 2)", idx) {
				return false
			}
			return c.prodList(p3, list)
		})
	}

	// Part 5: the wildcard matcher on its own — every pattern and every name over a tiny alphabet
	// (added after the independently seeded change C09-3: a segment-based matcher that lets the
	// literal head and tail of a pattern overlap in a short name, "www.*.com" matching "www.com")
	{
		maxLen := 5
		if th {
			maxLen = 6
		}
		p5 := sh.Part("wildcard-grid", "enum")
		p5.Alphabet = map[string]any{"pattern_chars": "a b . *", "name_chars": "a b . (no empty labels)", "lengths": fmt.Sprintf("1..%d (patterns with at least one *)", maxLen)}
		p5.Bounds = map[string]any{"acl": "A(<pattern>); B(all)", "lookups": "every name, each with an empty decision cache, tcp/80"}
		var names []string
		var gen func(chars string, n int, cur []byte, out *[]string)
		gen = func(chars string, n int, cur []byte, out *[]string) {
			if len(cur) > 0 {
				*out = append(*out, string(cur))
			}
			if len(cur) == n {
				return
			}
			for i := 0; i < len(chars); i++ {
				gen(chars, n, append(cur, chars[i]), out)
			}
		}
		gen("ab.", maxLen, nil, &names)
		var pats []string
		gen("ab.*", maxLen, nil, &pats)
		var pidx int64
	grid:
		for _, pat := range pats {
			if !strings.Contains(pat, "*") || strings.HasSuffix(pat, "..") {
				continue // (several trailing dots: normalisation of ill-formed patterns is not enumerated)
			}
			pidx++
			if !env.Mine(pidx) {
				continue
			}
			if pidx&63 == 0 && expired(p5, "wildcard grid", pidx) {
				break
			}
			rules := []c09Rule{{Ob: "A", Addr: pat}, {Ob: "B", Addr: "all"}}
			ref, rerr := c09RefCompileAll(rules)
			impl, err := c09Compile(rules, 2)
			if err != nil || rerr != nil {
				p5.Count("patterns_not_accepted", 1)
				continue
			}
			matched := 0
			for _, name := range names {
				if name[0] == '.' || name[len(name)-1] == '.' || strings.Contains(name, "..") {
					continue // not a host name (empty label); normalisation of such strings is not the matcher's business
				}
				q := c09Query{Name: name, Proto: c09ProtoTCP, Port: 80}
				impl.Cache.Purge()
				got := c09Ask(impl, q)
				want := c09WantAns(rules, c09RefEval(ref, q))
				p5.Evaluations++
				if want.ob == "A" {
					matched++
				}
				if got != want {
					if !c.violate(p5, "wildcard pattern decides differently from the reference", &c09Replay{Kind: "fresh", Rules: rules, CacheSize: 2, Query: q, Want: want.String(), Got: got.String()}) {
						break grid
					}
					break
				}
			}
			p5.Class(strings.Count(pat, "*"), len(pat), matched > 0, matched == len(names))
			p5.Count("patterns", 1)
		}
	}

	// Part 6: every printable ASCII byte inside a name, in the pattern and in the query (added
	// after the independently seeded change C09-4: a hand-rolled lower-casing of the queried name
	// that maps '_' to DEL while patterns are lower-cased with strings.ToLower)
	{
		p6 := sh.Part("name-characters", "enum")
		p6.Alphabet = map[string]any{"byte": "every c in 0x21..0x7e the rule grammar accepts inside an address", "patterns": []string{"x<c>y.com", "suffix:x<c>y.com", "*<c>y.com"},
			"queries": []string{"x<c>y.com", "X<C>Y.COM (upper-cased)", "sub.x<c>y.com", "x<c^0x20>y.com", "x<c>y.com.", "xy.com"}}
		p6.Bounds = map[string]any{"acl": "A(<pattern>); B(all)", "lookups": "each with an empty decision cache, tcp/80 and udp/53"}
		var cidx int64
		for ch := byte(0x21); ch <= 0x7e; ch++ {
			for pi, mk := range []func(string) string{
				func(m string) string { return "x" + m + "y.com" },
				func(m string) string { return "suffix:x" + m + "y.com" },
				func(m string) string { return "*" + m + "y.com" },
			} {
				cidx++
				if !env.Mine(cidx) {
					continue
				}
				rules := []c09Rule{{Ob: "A", Addr: mk(string(ch))}, {Ob: "B", Addr: "all"}}
				ref, rerr := c09RefCompileAll(rules)
				impl, err := c09Compile(rules, 2)
				if err != nil || rerr != nil {
					p6.Count("bytes_the_grammar_does_not_accept_in_an_address", 1)
					continue
				}
				names := []string{"x" + string(ch) + "y.com", strings.ToUpper("x" + string(ch) + "y.com"), "sub.x" + string(ch) + "y.com", "x" + string(ch) + "y.com.", "xy.com"}
				if o := ch ^ 0x20; o >= 0x21 && o <= 0x7e {
					names = append(names, "x"+string(o)+"y.com")
				}
				bad := false
				for _, name := range names {
					for _, pr := range []struct{ proto, port int }{{c09ProtoTCP, 80}, {c09ProtoUDP, 53}} {
						q := c09Query{Name: name, Proto: pr.proto, Port: pr.port}
						impl.Cache.Purge()
						got := c09Ask(impl, q)
						want := c09WantAns(rules, c09RefEval(ref, q))
						p6.Evaluations++
						if got != want && !bad {
							bad = true
							c.violate(p6, "a name containing byte "+fmt.Sprintf("%#02x", ch)+" is decided differently from the reference", &c09Replay{Kind: "fresh", Rules: rules, CacheSize: 2, Query: q, Want: want.String(), Got: got.String()})
						}
					}
				}
				p6.Class(ch, pi, bad)
			}
		}
	}

	// Part 7: port ranges at the ends of the port space. One constrained rule in front of a
	// catch-all, every protoPort below x every query port below x both protocols, first lookup and
	// cached lookup. (Added after the independently seeded change C09-8: a half-open range whose
	// end wrapped to 0 at 65535.)
	{
		p7 := sh.Part("port-boundaries", "enum")
		pps := []string{"tcp/1", "tcp/2", "*/1-2", "tcp/65535", "udp/65535", "*/65534-65535", "tcp/1024-65535", "*/1-65535", "udp/65534", "tcp/32767-32768", "*/255-256", "tcp/65535-65535"}
		ports := []int{1, 2, 3, 255, 256, 257, 1023, 1024, 32767, 32768, 32769, 65533, 65534, 65535}
		p7.Alphabet = map[string]any{"rules": "A(all, <protoPort>); B(all)", "protoPort": pps, "query_port": ports, "proto": []string{"tcp", "udp"}, "lookups": "fresh, then the same again from the cache"}
		var cidx int64
		for _, pp := range pps {
			cidx++
			if !env.Mine(cidx) {
				continue
			}
			rules := []c09Rule{{Ob: "A", Addr: "all", PP: pp}, {Ob: "B", Addr: "all"}}
			ref, rerr := c09RefCompileAll(rules)
			impl, err := c09Compile(rules, 64)
			if err != nil || rerr != nil {
				c.violate(p7, fmt.Sprintf("port range %q: implementation says %v, reference says %v", pp, err, rerr), &c09Replay{Kind: "fresh", Rules: rules, CacheSize: 64, Want: "compiles", Got: "error"})
				continue
			}
			bad := false
			for round := 0; round < 2; round++ {
				for _, port := range ports {
					for _, proto := range []int{c09ProtoTCP, c09ProtoUDP} {
						q := c09Query{Name: "a.com", Proto: proto, Port: port}
						got := c09Ask(impl, q)
						want := c09WantAns(rules, c09RefEval(ref, q))
						p7.Evaluations++
						if got != want && !bad {
							bad = true
							c.violate(p7, fmt.Sprintf("port %d against %q is decided differently from the reference", port, pp), &c09Replay{Kind: "fresh", Rules: rules, CacheSize: 64, Query: q, Want: want.String(), Got: got.String()})
						}
					}
				}
			}
			p7.Class(pp, bad)
		}
	}

	// Part 8: the shape of the rule text around the rules. The same three rules, each deciding
	// some lookup, with one filler (blank line, comment line, comment behind a rule, white space in
	// front of a rule) of every length below at every place, LF and CRLF line ends, with and without
	// a final line end: the rules behind the filler must still be there, in file order. (Added
	// after the independently seeded change C09-9: the parser walked the text with a bufio.Scanner
	// and ignored its error, so every rule behind a line of 64 KiB or more was dropped silently.)
	{
		p8 := sh.Part("text-shape", "enum")
		lens := []int{0, 1, 100, 4095, 4096, 65534, 65535, 65536, 70000, 200000}
		if th {
			for n := 65520; n <= 65544; n++ { // every length around the 64 KiB mark
				if n < 65534 || n > 65536 {
					lens = append(lens, n)
				}
			}
			lens = append(lens, 1<<20, 1<<22)
		}
		rules := []c09Rule{{Ob: "A", Addr: "a.com"}, {Ob: "B", Addr: "suffix:b.com", Hijack: "9.9.9.9"}, {Ob: "A", Addr: "all", PP: "udp/53"}}
		queries := []c09Query{
			{Name: "a.com", Proto: c09ProtoTCP, Port: 80}, {Name: "a.com", Proto: c09ProtoUDP, Port: 53}, // line 1 (also in front of line 3)
			{Name: "x.b.com", Proto: c09ProtoTCP, Port: 80}, {Name: "b.com", Proto: c09ProtoUDP, Port: 53}, // line 2 (also in front of line 3)
			{Name: "c.com", Proto: c09ProtoUDP, Port: 53}, // line 3
			{Name: "c.com", Proto: c09ProtoTCP, Port: 80}, // default
		}
		p8.Alphabet = map[string]any{"text_shape_filler": c09ShapeKinds, "filler_bytes": lens, "filler_position": "in front of rule 1, 2, 3 and after the last rule",
			"line_end": []string{"LF", "CRLF"}, "final_line_end": []string{"present", "absent"}, "rules": strings.ReplaceAll(strings.TrimSpace(c09Text(rules)), "\n", "; "), "queries": fmt.Sprint(queries)}
		p8.Bounds = map[string]any{"fillers_per_text": 1, "lookups": "every query, each with an empty decision cache"}
		// (no deadline test in this part, like parts 6 and 7: a shard's share is about two dozen texts, milliseconds)
		ref, rerr := c09RefCompileAll(rules)
		if rerr != nil {
			panic(rerr)
		}
		var cidx int64
	shapes:
		for _, kind := range c09ShapeKinds {
			for pos := 0; pos <= len(rules); pos++ {
				if (kind == "trailing-comment" && pos == 0) || (kind == "leading-space" && pos == len(rules)) {
					continue
				}
				for _, n := range lens {
					for _, crlf := range []bool{false, true} {
						for _, fin := range []bool{true, false} {
							cidx++
							if !env.Mine(cidx) {
								continue
							}
							shp := c09Shape{Kind: kind, Pos: pos, Len: n, CRLF: crlf, FinalNL: fin}
							bad := false
							impl, err := c09CompileText(c09ShapeText(rules, shp), -1, 2)
							if err != nil {
								bad = true
								if !c.violate(p8, "grammar-accepted rule text rejected: "+err.Error(), &c09Replay{Kind: "fresh", Rules: rules, Shape: &shp, CacheSize: 2, Query: queries[0], Want: "compiles", Got: "error"}) {
									break shapes
								}
							}
							for _, q := range queries {
								if bad {
									break
								}
								impl.Cache.Purge()
								got := c09Ask(impl, q)
								want := c09WantAns(rules, c09RefEval(ref, q))
								p8.Evaluations++
								if got != want {
									bad = true
									if !c.violate(p8, "fresh lookup differs from the first-match reference", &c09Replay{Kind: "fresh", Rules: rules, Shape: &shp, CacheSize: 2, Query: q, Want: want.String(), Got: got.String()}) {
										break shapes
									}
								}
							}
							nb := 0 // length class of the filler
							for m := n; m > 0; m >>= 1 {
								nb++
							}
							p8.Class(kind, pos, nb, crlf, fin, bad)
							p8.Count("rule_texts", 1)
						}
					}
				}
			}
		}
	}

	// Part 9: "xn--" labels in the looked-up name. Names of 1..2 (thorough 1..3) labels in front of
	// "example", every label one of: plain, an A-label (valid punycode: the name is an IDN and has a
	// Unicode spelling), an "xn--" label that is NOT punycode (truncated digits; or encoding nothing
	// but ASCII) - alone and MIXED in one name, typed and upper-cased with a trailing dot, against
	// every list of 1..2 (thorough 1..3) ASCII patterns written with the same labels. A name with a
	// label that is not punycode is no IDN: it is the ASCII name it is typed as, and the property's
	// clauses apply to it as to every other ASCII name (reference evaluator on the typed name). An
	// IDN's ACE spelling and Unicode spelling are one host name and must get one decision; nothing
	// else is demanded of IDN names. (Added after the independently seeded change C09-11: the
	// matcher kept idna.ToUnicode's partial result when it failed, so a name with one decodable and
	// one undecodable "xn--" label was compared half decoded and another rule became the first match.)
	{
		p9 := sh.Part("ace-labels", "enum")
		type lab struct{ typed, uni, class string }
		labs := []lab{
			{"www", "www", "plain"}, {"bcher", "bcher", "plain"},
			{"xn--bcher-kva", "b\u00fccher", "a-label"}, // RFC 3492 punycode of "bücher"
			{"xn--0", "", "not-punycode"},               // a digit run that ends in the middle of a number
			{"xn--zz-", "", "not-punycode"},             // would stand for the ASCII label "zz", which has no ACE form
		}
		pats := []string{"xn--0.xn--bcher-kva.example", "xn--bcher-kva.example", "suffix:xn--bcher-kva.example", "suffix:xn--0.example",
			"*.b*cher.example", "xn--0.*", "*.xn--bcher-kva.*", "suffix:bcher.example", "zz.*", "*.zz.example", "suffix:xn--zz-.example", "xn--*"}
		maxN := 2
		if th {
			maxN = 3
		}
		type nm struct{ typed, uni, class string }
		var names []nm
		var genN func(n int, cur []lab)
		genN = func(n int, cur []lab) {
			if len(cur) > 0 {
				x := nm{class: "plain"}
				for _, l := range cur {
					x.typed += l.typed + "."
					if l.class == "a-label" {
						x.uni += l.uni + "."
					} else {
						x.uni += l.typed + "."
					}
					if l.class == "not-punycode" || (l.class == "a-label" && x.class == "plain") {
						x.class = map[string]string{"not-punycode": "ascii-with-bad-ace-label", "a-label": "idn"}[l.class]
					}
				}
				x.typed, x.uni = x.typed+"example", x.uni+"example"
				names = append(names, x)
			}
			if len(cur) == n {
				return
			}
			for _, l := range labs {
				genN(n, append(cur[:len(cur):len(cur)], l))
			}
		}
		genN(maxN, nil)
		p9.Alphabet = map[string]any{"ace_label_alphabet": []string{"www (plain)", "bcher (plain)", "xn--bcher-kva (A-label)", "xn--0 (xn-- but not punycode)", "xn--zz- (xn-- but not punycode)"},
			"names": fmt.Sprintf("1..%d labels + .example, all %d", maxN, len(names)), "spelling": []string{"typed", "UPPER-CASED."}, "patterns": pats,
			"rule_lists": fmt.Sprintf("every list of 1..%d patterns, labelled A/-, B/9.9.9.9, A/-", maxN)}
		p9.Bounds = map[string]any{"lookups": "tcp/80, with an empty decision cache, then once more from the cache",
			"oracle": "plain names and names with a non-punycode xn-- label: reference on the typed name; IDN names: same decision as their Unicode spelling"}
		var lidx int64
		var genL func(cur []int) bool
		genL = func(cur []int) bool {
			if len(cur) > 0 {
				lidx++
				if env.Mine(lidx) {
					if lidx&15 == 0 && expired(p9, "ace labels", lidx) {
						return false
					}
					var rules []c09Rule
					for i, pi := range cur {
						rules = append(rules, c09Rule{Ob: []string{"A", "B", "A"}[i], Addr: pats[pi], Hijack: []string{"", "9.9.9.9", ""}[i]})
					}
					ref, rerr := c09RefCompileAll(rules)
					impl, err := c09Compile(rules, 2)
					if err != nil || rerr != nil {
						return c.violate(p9, fmt.Sprintf("ASCII pattern list: implementation says %v, reference says %v", err, rerr), &c09Replay{Kind: "fresh", Rules: rules, CacheSize: 2, Want: "compiles", Got: "error"})
					}
				names:
					for _, n := range names {
						for si, name := range []string{n.typed, strings.ToUpper(n.typed) + "."} {
							q := c09Query{Name: name, Proto: c09ProtoTCP, Port: 80}
							impl.Cache.Purge()
							got := c09Ask(impl, q)
							again := c09Ask(impl, q)
							p9.Evaluations += 2
							rp := &c09Replay{Kind: "fresh", Rules: rules, CacheSize: 2, Query: q, Got: got.String()}
							var want c09Ans
							clause := "a name with an xn-- label is decided differently from the reference"
							if n.class == "idn" {
								tq := c09Query{Name: n.uni, Proto: c09ProtoTCP, Port: 80}
								impl.Cache.Purge()
								want = c09Ask(impl, tq)
								p9.Evaluations++
								rp.Twin, clause = &tq, "the ACE spelling of an IDN name is decided differently from its Unicode spelling "+n.uni
							} else {
								want = c09WantAns(rules, c09RefEval(ref, q))
							}
							rp.Want = want.String()
							if got == want && again != got {
								rp.History, rp.Got, clause = []c09Query{q}, again.String(), "the cached answer differs from the fresh one"
							}
							p9.Class(len(cur), cur[0], n.class, si, got.String())
							if got != want || again != got {
								if !c.violate(p9, clause, rp) {
									return false
								}
								break names // one report per rule list
							}
						}
					}
					p9.Count("rule_lists", 1)
				}
			}
			if len(cur) == maxN {
				return true
			}
			for pi := range pats {
				if !genL(append(cur[:len(cur):len(cur)], pi)) {
					return false
				}
			}
			return true
		}
		genL(nil)
	}

	// Part 4 (thorough): fresh lookups, lists of length 3
	if th {
		p4 := sh.Part("fresh-len3", "enum")
		p4.Alphabet = map[string]any{"atom_x_protoPort": c09NAP, "labellings": c09Labellings3, "label_code": "hijack*2+outbound"}
		p4.Bounds = map[string]any{"rule_list_length": 3, "lists": "every triple of (atom, protoPort) pairs under 4 fixed pairwise-distinct (outbound, hijack) labellings; labels are opaque to matching, the full label product is covered at length <= 2"}
		c09Lists3(func(idx int64, list []int) bool {
			if !env.Mine(idx) {
				return true
			}
			if idx&63 == 0 && expired(p4, "fresh lookups (length 3)", idx) {
				return false
			}
			return c.freshList(p4, list)
		})
	}
}

func c09ReplayOne(part string, raw json.RawMessage) (bool, bool, string) {
	switch part {
	case "fresh-len012", "fresh-len3", "cache-bfs", "prod-cache", "wildcard-grid", "name-characters", "port-boundaries", "text-shape", "ace-labels":
	default:
		return false, false, ""
	}
	var rp c09Replay
	if err := json.Unmarshal(raw, &rp); err != nil {
		return true, false, err.Error()
	}
	ref, err := c09RefCompileAll(rp.Rules)
	if err != nil {
		return true, false, "reference rejects the rule list: " + err.Error()
	}
	impl, err := c09Compile(rp.Rules, rp.CacheSize)
	if rp.Shape != nil {
		impl, err = c09CompileText(c09ShapeText(rp.Rules, *rp.Shape), -1, rp.CacheSize)
	}
	if err != nil {
		return true, true, err.Error()
	}
	if rp.Twin != nil { // part ace-labels: two spellings of one IDN name, each asked with an empty cache
		got := c09Ask(impl, rp.Query)
		impl.Cache.Purge()
		twin := c09Ask(impl, *rp.Twin)
		if got != twin {
			return true, true, fmt.Sprintf("lookup %v returned %s, its Unicode spelling %v returned %s; ACL: %s", rp.Query, got, *rp.Twin, twin, strings.ReplaceAll(rp.Text, "\n", "; "))
		}
		return true, false, "both spellings of the name get the same decision"
	}
	check := func() string {
		if rp.CacheSize > 8 {
			return ""
		}
		for _, k := range impl.Cache.Keys() {
			v, _ := impl.Cache.Peek(k)
			for _, q := range append(append(append([]c09Query{}, rp.History...), rp.Query), c09Probes()...) {
				f, _ := c09Compile(rp.Rules, rp.CacheSize)
				c09Ask(f, q)
				if ks := f.Cache.Keys(); len(ks) == 1 && ks[0] == k {
					c := c09Ans{ob: v.Outbound}
					if v.HijackAddress != nil {
						c.hijack = v.HijackAddress.String()
					}
					if w := c09WantAns(rp.Rules, c09RefEval(ref, q)); c != w {
						return fmt.Sprintf("cache entry %v|%v|%d holds %s; the lookup %v, which a fresh set files under this key, must be answered %s", k.Host, k.Proto, k.Port, c, q, w)
					}
				}
			}
		}
		return ""
	}
	for i, q := range append(append([]c09Query{}, rp.History...), rp.Query) {
		got := c09Ask(impl, q)
		want := c09WantAns(rp.Rules, c09RefEval(ref, q))
		if got != want {
			return true, true, fmt.Sprintf("lookup #%d %v returned %s, reference %s; ACL: %s", i+1, q, got, want, strings.ReplaceAll(rp.Text, "\n", "; "))
		}
		if d := check(); d != "" {
			return true, true, fmt.Sprintf("after lookup #%d %v: %s", i+1, q, d)
		}
	}
	return true, false, "all lookups of the recorded history agree with the reference"
}

func TestVerifC09ACL(t *testing.T) {
	evidence.Main(t, "C09", evidence.Seq{Run: c09Enumerate, Replay: c09ReplayOne})
}
